import ApolloModel.Proofs.ParserRecursion1
/-
C04 growth (recursion limit across runs), part 2: the combinators with the high-water mark in view, and
`ty.rs::parse`: the recursion tracker reaches exactly `min (leading brackets) (limit + 1)`, and a limit error
is recorded exactly when the leading brackets exceed the limit.
-/
set_option linter.unusedSimpArgs false
namespace Apollo.Parse
open Apollo.Rowan hiding Str
open Apollo.Lex hiding Str

/-! ### combinators -/

theorem withNode_decS {α : Type} (kind : SK) (body : PI α) (s s' : PState) (a : α)
    (h : (withNode kind body).run s = .ok a s') :
    ∃ s1 s2, Same s s1 ∧ (skipIgnored >>= fun _ => body).run s1 = .ok a s2 ∧ Same s2 s' := by
  unfold withNode at h
  simp only [] at h
  have e1 : pushIgnored.run s = .ok () { s with builder := { s.builder with children := s.builder.children ++ s.pending.map pendingElem }, pending := [] } := rfl
  rw [e1] at h
  simp only [] at h
  cases hr : (skipIgnored >>= fun _ => body).run (rawStartNode kind { s with builder := { s.builder with children := s.builder.children ++ s.pending.map pendingElem }, pending := [] }) with
  | abort w => rw [hr] at h; cases h
  | panic m => rw [hr] at h; cases h
  | ok a2 s2 =>
    rw [hr] at h
    simp only [] at h
    cases hb : s2.builder.finishNode with
    | none => rw [hb] at h; cases h
    | some b =>
      rw [hb] at h
      injection h with h1 h2
      subst h1 h2
      exact ⟨rawStartNode kind { s with builder := { s.builder with children := s.builder.children ++ s.pending.map pendingElem }, pending := [] }, s2, ⟨rfl, rfl, rfl, rfl, rfl, rfl, rfl⟩, hr, ⟨rfl, rfl, rfl, rfl, rfl, rfl, rfl⟩⟩

theorem qg_withNode {α : Type} (kind : SK) (body : PI α) (gb : Good body) (hb : QG body) : QG (withNode kind body) := by
  intro s a s' w h
  obtain ⟨s1, s2, o1, hr, o2⟩ := withNode_decS kind body s s' a h
  have w1 : TW s1 := o1.obs.w w
  exact (o1.q.trans (qg_bind _ _ good_skipIgnored qg_skipIgnored (fun _ => hb) s1 a s2 w1 hr)).trans o2.q

theorem wrapIf_decS {α : Type} (kind : SK) (body : PI α) (cond : α → PI Bool) (inner : PI Unit)
    (s s' : PState) (a : α) (h : (wrapIf kind body cond inner).run s = .ok a s') :
    ∃ s1 s2 s3 c, Same s s1 ∧ body.run s1 = .ok a s2 ∧ (cond a).run s2 = .ok c s3
      ∧ ((c = false ∧ s' = s3) ∨ (c = true ∧ ∃ s4 s5, Same s3 s4 ∧ inner.run s4 = .ok () s5 ∧ Same s5 s')) := by
  unfold wrapIf at h
  simp only [] at h
  have e1 : pushIgnored.run s = .ok () { s with builder := { s.builder with children := s.builder.children ++ s.pending.map pendingElem }, pending := [] } := rfl
  rw [e1] at h
  simp only [] at h
  generalize hs1 : ({ s with builder := { s.builder with children := s.builder.children ++ s.pending.map pendingElem }, pending := [] } : PState) = s1 at h
  have o1 : Same s s1 := by subst hs1; exact ⟨rfl, rfl, rfl, rfl, rfl, rfl, rfl⟩
  cases hr : (body >>= fun a => cond a >>= fun c => pure (a, c)).run s1 with
  | abort w => rw [hr] at h; cases h
  | panic m => rw [hr] at h; cases h
  | ok ac s3 =>
    rw [hr] at h
    obtain ⟨a0, c⟩ := ac
    simp only [] at h
    obtain ⟨a1, s2, hb, h2⟩ := bind_dec body _ s1 s3 (a0, c) hr
    obtain ⟨c1, s3', hc, h3⟩ := bind_dec (cond a1) _ s2 s3 (a0, c) h2
    rw [run_pure] at h3
    injection h3 with h3 h4
    injection h3 with h5 h6
    subst h4 h5 h6
    cases c1 with
    | false =>
      simp only [Bool.false_eq_true, if_false] at h
      injection h with h7 h8
      subst h7 h8
      exact ⟨s1, s2, s3', false, o1, hb, hc, Or.inl ⟨rfl, rfl⟩⟩
    | true =>
      simp only [if_true] at h
      split at h
      · cases h
      · rename_i b hsn
        split at h
        · rename_i u s5 hi
          split at h
          · rename_i b' hf
            injection h with h7 h8
            subst h7 h8
            exact ⟨s1, s2, s3', true, o1, hb, hc, Or.inr ⟨rfl, { s3' with builder := b }, s5, ⟨rfl, rfl, rfl, rfl, rfl, rfl, rfl⟩, hi, ⟨rfl, rfl, rfl, rfl, rfl, rfl, rfl⟩⟩⟩
          · cases h
        · cases h
        · cases h

/-- the recursion guard, with the high-water mark: `check_and_increment` records the incremented counter
    before it compares with the limit -/
theorem withRec_decH {α : Type} (onLimit body : PI α) (s s' : PState) (a : α)
    (h : (withRec onLimit body).run s = .ok a s') :
    (s.recCur + 1 > s.recLimit ∧ onLimit.run { s with recHigh := max s.recHigh (s.recCur + 1) } = .ok a s')
    ∨ (s.recCur + 1 ≤ s.recLimit ∧ ∃ s2,
        body.run { s with recCur := s.recCur + 1, recHigh := max s.recHigh (s.recCur + 1) } = .ok a s2
        ∧ s' = { s2 with recCur := s2.recCur - 1 }) := by
  have hmax : (if s.recCur + 1 > s.recHigh then s.recCur + 1 else s.recHigh) = max s.recHigh (s.recCur + 1) := by
    split <;> omega
  unfold withRec at h
  simp only [] at h
  rw [hmax] at h
  by_cases hc : s.recCur + 1 > s.recLimit
  · simp only [hc, if_true] at h
    exact Or.inl ⟨hc, h⟩
  · simp only [hc, if_false] at h
    refine Or.inr ⟨by omega, ?_⟩
    cases hr : body.run { s with recCur := s.recCur + 1, recHigh := max s.recHigh (s.recCur + 1) } with
    | abort w => rw [hr] at h; cases h
    | panic m => rw [hr] at h; cases h
    | ok a2 s2 =>
      rw [hr] at h
      simp only [] at h
      by_cases hz : s2.recCur = 0
      · simp only [hz, if_true] at h; cases h
      · simp only [hz, if_false] at h
        injection h with h1 h2
        subst h1 h2
        exact ⟨s2, rfl, rfl⟩

/-- `limit_err` when a token is there and errors are still accepted: the limit error is recorded and no
    further error will be; the high-water mark is not touched -/
theorem limitErr_effect (s s' : PState) (w : TW s) (h : limitErr.run s = .ok () s') :
    s'.recHigh = s.recHigh ∧ (HasLim s.errors → HasLim s'.errors) ∧
    (Toks s ≠ [] → s.acceptErrors = true → HasLim s'.errors) := by
  unfold limitErr at h
  obtain ⟨o, s1, h1, h2⟩ := bind_dec peekToken _ s s' () h
  have p := peekToken_obs s s1 o w h1
  have q := qg_peekToken s o s1 w h1
  cases o with
  | none =>
    simp only [] at h2
    rw [run_pure] at h2
    injection h2 with _ h2
    subst h2
    refine ⟨q.recHigh, q.lim.mpr, ?_⟩
    intro hne
    have := p.head
    cases ht : Toks s with
    | nil => exact absurd ht hne
    | cons a b => rw [ht] at this; cases this
  | some t =>
    simp only [] at h2
    unfold errUpdate at h2
    simp only [] at h2
    injection h2 with _ h2
    subst h2
    refine ⟨q.recHigh, ?_, ?_⟩
    · intro hl
      have := q.lim.mpr hl
      simp only []
      split
      · exact (hasLim_append _ _).mpr (Or.inl this)
      · exact this
    · intro _ ha
      have ha1 : s1.acceptErrors = true := by rw [q.accept]; exact ha
      simp only [ha1, if_true]
      exact (hasLim_append _ _).mpr (Or.inr ((hasLim_single _).mpr rfl))

end Apollo.Parse
