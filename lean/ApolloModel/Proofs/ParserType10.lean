import ApolloModel.Proofs.ParserType9
/-
C07 / C05 growth (type entry point), part 10: a token list whose significant tokens are the tokens of a type
and that does not start with an ignored token *spells* that type (the hypothesis of `parseType_complete`).
-/
set_option linter.unusedSimpArgs false
namespace Apollo.Parse
open Apollo.Rowan hiding Str
open Apollo.Lex hiding Str

def HeadSig (c : List Tok) : Prop := ∀ hd tl, c = hd :: tl → Sigf hd

theorem sig_cons_sig (x : Tok) (c : List Tok) (h : Sigf x) : sig (x :: c) = x :: sig c := by
  unfold Sigf at h; simp [sig, h]

theorem sig_cons_ign (x : Tok) (c : List Tok) (h : isIgnoredKind x.kind = true) : sig (x :: c) = sig c := by
  simp [sig, h]

theorem ign_of_sig_nil (c : List Tok) (h : sig c = []) : Ign c := by
  intro x hx
  have := List.filter_eq_nil_iff.mp h x hx
  simpa using this

theorem sig_single_inv (c : List Tok) (x : Tok) (hh : HeadSig c) (h : sig c = [x]) : ∃ i, c = x :: i ∧ Ign i := by
  cases c with
  | nil => simp [sig] at h
  | cons hd tl =>
    have hs := hh hd tl rfl
    rw [sig_cons_sig hd tl hs] at h
    injection h with h1 h2
    exact ⟨tl, by rw [h1], ign_of_sig_nil tl h2⟩

theorem sig_split : ∀ (c A B : List Tok), sig c = A ++ B → B ≠ [] →
    ∃ c1 c2, c = c1 ++ c2 ∧ sig c1 = A ∧ sig c2 = B ∧ HeadSig c2 ∧ (A ≠ [] → HeadSig c → HeadSig c1) := by
  intro c
  induction c with
  | nil => intro A B h hB; simp [sig] at h; exact absurd h.2 hB
  | cons x c ih =>
    intro A B h hB
    by_cases hx : isIgnoredKind x.kind = true
    · rw [sig_cons_ign x c hx] at h
      obtain ⟨c1, c2, e, h1, h2, h3, _⟩ := ih A B h hB
      refine ⟨x :: c1, c2, by rw [e]; rfl, by rw [sig_cons_ign x c1 hx]; exact h1, h2, h3, ?_⟩
      intro _ hh
      have := hh x c rfl
      unfold Sigf at this; rw [hx] at this; cases this
    · have hx' : Sigf x := by unfold Sigf; simpa using hx
      rw [sig_cons_sig x c hx'] at h
      cases A with
      | nil =>
        refine ⟨[], x :: c, rfl, rfl, by rw [sig_cons_sig x c hx']; exact h, ?_, fun h => absurd rfl h⟩
        intro hd tl e; injection e with e _; subst e; exact hx'
      | cons a A =>
        simp only [List.cons_append] at h
        injection h with h1 h2
        obtain ⟨c1, c2, e, h3, h4, h5, _⟩ := ih A B h2 hB
        refine ⟨x :: c1, c2, by rw [e]; rfl, by rw [sig_cons_sig x c1 hx', h3, h1], h4, h5, ?_⟩
        intro _ _ hd tl e'
        injection e' with e' _; subst e'; exact hx'

theorem astOf_name {x : Tok} {n : Str} (h : astOf x = some (.name n)) : x.kind = .name ∧ x.data = n := by
  unfold astOf at h
  cases hk : x.kind <;> simp [hk] at h
  exact ⟨rfl, h⟩

theorem astOf_p {x : Tok} {p : Ast.P} (h : astOf x = some (.p p)) :
    (p = .bang → x.kind = .bang) ∧ (p = .lBracket → x.kind = .lBracket) ∧ (p = .rBracket → x.kind = .rBracket) := by
  unfold astOf at h
  cases hk : x.kind <;> simp [hk] at h <;> subst h <;> simp

theorem spell_of_sig (t : Ast.Ty) : ∀ (c : List Tok), HeadSig c → (sig c).map astOf = (Ast.tTy t).map some → Spell t c := by
  induction t with
  | named n =>
    intro c hh h
    simp only [Ast.tTy, List.map_cons, List.map_nil] at h
    obtain ⟨x, l, hs, hx, hl⟩ := List.map_eq_cons_iff.mp h
    have : l = [] := by simpa using hl
    subst this
    obtain ⟨i, rfl, hi⟩ := sig_single_inv c x hh hs
    obtain ⟨hk, hd⟩ := astOf_name hx
    rw [← hd]
    exact Spell.base _ _ (SpellB.named x i hk hi)
  | nonNullNamed n =>
    intro c hh h
    simp only [Ast.tTy, List.map_cons, List.map_nil] at h
    obtain ⟨x, l, hs, hx, hl⟩ := List.map_eq_cons_iff.mp h
    obtain ⟨b, l2, hs2, hb, hl2⟩ := List.map_eq_cons_iff.mp hl
    have : l2 = [] := by simpa using hl2
    subst this hs2
    obtain ⟨c1, c2, rfl, h1, h2, hh2, hh1⟩ := sig_split c [x] [b] hs (by simp)
    obtain ⟨i1, rfl, hi1⟩ := sig_single_inv c1 x (hh1 (by simp) hh) h1
    obtain ⟨i2, rfl, hi2⟩ := sig_single_inv c2 b hh2 h2
    obtain ⟨hk, hd⟩ := astOf_name hx
    rw [← hd]
    exact Spell.bangNamed _ _ b i2 (SpellB.named x i1 hk hi1) ((astOf_p hb).1 rfl) hi2
  | list u ih =>
    intro c hh h
    simp only [Ast.tTy, List.map_cons, List.map_append, List.map_nil] at h
    obtain ⟨sl, l, hs, hsl, hl⟩ := List.map_eq_cons_iff.mp h
    obtain ⟨su, l2, hl', hsu, hl2⟩ := List.map_eq_append_iff.mp hl
    obtain ⟨sr, l3, hs3, hsr, hl3⟩ := List.map_eq_cons_iff.mp hl2
    have : l3 = [] := by simpa using hl3
    subst this hs3 hl'
    obtain ⟨c1, c23, rfl, h1, h23, hh23, hh1⟩ := sig_split c [sl] (su ++ [sr]) hs (by simp)
    obtain ⟨cu, c3, rfl, hcu, h3, hh3, hhu⟩ := sig_split c23 su [sr] h23 (by simp)
    obtain ⟨i1, rfl, hi1⟩ := sig_single_inv c1 sl (hh1 (by simp) hh) h1
    obtain ⟨i2, rfl, hi2⟩ := sig_single_inv c3 sr hh3 h3
    have hsune : su ≠ [] := by
      intro e; subst e
      cases u <;> simp [Ast.tTy] at hsu
    have hspu := ih cu (hhu hsune hh23) (by rw [hcu]; exact hsu)
    have := SpellB.list sl sr i1 i2 cu u ((astOf_p hsl).2.1 rfl) hi1 hspu ((astOf_p hsr).2.2 rfl) hi2
    exact Spell.base _ _ (by simpa [List.append_assoc] using this)
  | nonNullList u ih =>
    intro c hh h
    simp only [Ast.tTy, List.map_cons, List.map_append, List.map_nil] at h
    obtain ⟨sl, l, hs, hsl, hl⟩ := List.map_eq_cons_iff.mp h
    obtain ⟨su, l2, hl', hsu, hl2⟩ := List.map_eq_append_iff.mp hl
    obtain ⟨sr, l3, hs3, hsr, hl3⟩ := List.map_eq_cons_iff.mp hl2
    obtain ⟨b, l4, hs4, hb, hl4⟩ := List.map_eq_cons_iff.mp hl3
    have : l4 = [] := by simpa using hl4
    subst this hs4 hs3 hl'
    obtain ⟨c1, c23, rfl, h1, h23, hh23, hh1⟩ := sig_split c [sl] (su ++ [sr, b]) hs (by simp)
    obtain ⟨cu, c34, rfl, hcu, h34, hh34, hhu⟩ := sig_split c23 su [sr, b] h23 (by simp)
    obtain ⟨c3, c4, rfl, h3, h4, hh4, hh3⟩ := sig_split c34 [sr] [b] h34 (by simp)
    obtain ⟨i1, rfl, hi1⟩ := sig_single_inv c1 sl (hh1 (by simp) hh) h1
    obtain ⟨i2, rfl, hi2⟩ := sig_single_inv c3 sr (hh3 (by simp) hh34) h3
    obtain ⟨i3, rfl, hi3⟩ := sig_single_inv c4 b hh4 h4
    have hsune : su ≠ [] := by
      intro e; subst e
      cases u <;> simp [Ast.tTy] at hsu
    have hspu := ih cu (hhu hsune hh23) (by rw [hcu]; exact hsu)
    have hb' := SpellB.list sl sr i1 i2 cu u ((astOf_p hsl).2.1 rfl) hi1 hspu ((astOf_p hsr).2.2 rfl) hi2
    have := Spell.bangList u _ b i3 hb' ((astOf_p hb).1 rfl) hi3
    simpa [List.append_assoc] using this

theorem noEof_of_isTy (c ts : List Tok) (t : Ast.Ty) (hs : sig c = ts) (h : ts.map astOf = (Ast.tTy t).map some) : NoEof c := by
  intro x hx hk
  by_cases hi : isIgnoredKind x.kind = true
  · rw [hk] at hi; simp [isIgnoredKind] at hi
  · have hmem : x ∈ sig c := by simp [sig, hx, hi]
    rw [hs] at hmem
    have : astOf x ∈ ts.map astOf := List.mem_map_of_mem hmem
    rw [h] at this
    obtain ⟨a, _, ha⟩ := List.mem_map.mp this
    unfold astOf at ha
    rw [hk] at ha
    cases ha

/-- **completeness in terms of significant tokens**: the hypothesis of `parseType_complete` follows from
    "the significant tokens are `tTy t` then EOF, and the queue does not start with an ignored token" -/
theorem parseType_complete_sig (rl : Nat) (src : Str) (t : Ast.Ty) (ts : List Tok) (e : Tok)
    (hclean : LexClean src) (hsig : sig (srcToks src) = ts ++ [e]) (he : e.kind = .eof)
    (hty : ts.map astOf = (Ast.tTy t).map some) (hdepth : tyDepth t ≤ rl) (hhead : HeadSig (srcToks src)) :
    (parse .type none rl src).errors = [] := by
  obtain ⟨c, c2, hc, h1, h2, hh2, hh1⟩ := sig_split (srcToks src) ts [e] hsig (by simp)
  obtain ⟨i, rfl, hi⟩ := sig_single_inv c2 e hh2 h2
  have htsne : ts ≠ [] := by
    intro h0; subst h0
    cases t <;> simp [Ast.tTy] at hty
  have hnoc : NoEof c := noEof_of_isTy c ts t h1 hty
  obtain ⟨pre, e0, hp, he0, hnop⟩ := stream_eof_end src.length (initState src none 0).lx (Nat.le_refl _) rfl rfl
  have hq : srcToks src = pre ++ [e0] := hp
  rw [hc] at hq
  obtain ⟨pre', hr, hnop'⟩ := split_eof c pre (e :: i) e0 hq.symm he0 hnoc hnop
  have hi0 : i = [] := by
    cases pre' with
    | nil => simp at hr; exact hr.2
    | cons y pre' =>
      exfalso
      simp only [List.cons_append] at hr
      injection hr with hr1 _
      exact hnop' y (by simp) (hr1 ▸ he)
  subst hi0
  exact parseType_complete rl src t c e hclean hc (spell_of_sig t c (hh1 htsne hhead) (by rw [h1]; exact hty)) he hdepth

/-! ### the same statements over the lexer model's output -/

def kd (t : Tok) : Kind × Str := (t.kind, t.data)
def sigKD (l : List (Kind × Str)) : List (Kind × Str) := l.filter (fun p => !isIgnoredKind p.1)
def astOfKD (p : Kind × Str) : Option Ast.Tok := astOf ⟨p.1, p.2, 0⟩

theorem sig_map_kd (ts : List Tok) : (sig ts).map kd = sigKD (ts.map kd) := by
  unfold sig sigKD
  rw [List.filter_map]
  rfl

theorem astOf_kd (t : Tok) : astOfKD (kd t) = astOf t := rfl

theorem map_astOf_kd (ts : List Tok) : (ts.map kd).map astOfKD = ts.map astOf := by
  rw [List.map_map]; rfl

/-- the significant tokens of the lexer model's output -/
def lexSig (src : Str) : List (Kind × Str) := sigKD (lexToks src)

theorem lexSig_eq (src : Str) : lexSig src = (sig (srcToks src)).map kd := by
  unfold lexSig
  rw [sig_map_kd, ← srcToks_lex]
  rfl

theorem parseType_sound_lex (rl : Nat) (src : Str) (herr : (parse .type none rl src).errors = []) :
    (∀ it ∈ lex none src, it.isErr = false) ∧
    ∃ t ks e, lexSig src = ks ++ [e] ∧ e.1 = .eof ∧ ks.map astOfKD = (Ast.tTy t).map some := by
  obtain ⟨hc, t, ts, e, h1, h2, h3⟩ := parseType_sound' rl src herr
  refine ⟨(lexClean_lex src).mp hc, t, ts.map kd, kd e, ?_, h2, ?_⟩
  · rw [lexSig_eq, h1]; simp
  · rw [map_astOf_kd]; exact h3

theorem parseType_complete_lex (rl : Nat) (src : Str) (t : Ast.Ty) (ks : List (Kind × Str)) (e : Kind × Str)
    (hclean : ∀ it ∈ lex none src, it.isErr = false) (hsig : lexSig src = ks ++ [e]) (he : e.1 = .eof)
    (hty : ks.map astOfKD = (Ast.tTy t).map some) (hdepth : tyDepth t ≤ rl)
    (hhead : ∀ p, (lexToks src).head? = some p → isIgnoredKind p.1 = false) :
    (parse .type none rl src).errors = [] := by
  rw [lexSig_eq] at hsig
  obtain ⟨ts, l2, hs, hts, hl2⟩ := List.map_eq_append_iff.mp hsig
  obtain ⟨e', l3, hl2', he', hl3⟩ := List.map_eq_cons_iff.mp hl2
  have : l3 = [] := by simpa using hl3
  subst this hl2'
  refine parseType_complete_sig rl src t ts e' ((lexClean_lex src).mpr hclean) hs ?_ ?_ hdepth ?_
  · have : (kd e').1 = .eof := by rw [he']; exact he
    exact this
  · rw [← map_astOf_kd, hts]; exact hty
  · intro hd tl hq
    have := hhead (kd hd) (by rw [← srcToks_lex, hq]; rfl)
    exact this

end Apollo.Parse
