import ApolloModel.Proofs.TreeRanges2
/-
C11 growth: "every NAME node is NAME[IDENT]" as a calculus over the parser combinators.

`NG m`: whatever `m` appends to the builder's children (every `PI` computation only appends, `Frame`)
consists of elements all of whose NAME nodes are exactly one IDENT token.  The rule for `withNode`
needs `kind ≠ "NAME"`; the two places of the grammar that open a NAME node (`name`, and the
`NAMED_TYPE` branch of ty.rs) are proved directly.
-/
set_option linter.unusedSimpArgs false
set_option linter.unusedVariables false
namespace Apollo.Parse
open Apollo.Rowan hiding Str
open Apollo.Lex hiding Str

theorem namesAreIdentsList_append (a b : List Elem) :
    namesAreIdentsList (a ++ b) = (namesAreIdentsList a && namesAreIdentsList b) := by
  induction a with
  | nil => simp [namesAreIdentsList]
  | cons e es ih => simp [namesAreIdentsList, ih, Bool.and_assoc]

theorem namesAreIdentsList_pending (ps : List Pending) : namesAreIdentsList (ps.map pendingElem) = true := by
  induction ps with
  | nil => rfl
  | cons p ps ih => cases p <;> simp [namesAreIdentsList, namesAreIdents, pendingElem, ih]

theorem namesAreIdents_node (k : SK) (cs : List Elem) (hk : k ≠ "NAME") (h : namesAreIdentsList cs = true) :
    namesAreIdents (.node k cs) = true := by
  simp [namesAreIdents, hk, h]

/-- what was appended to the builder between two states is fine -/
def NBadd (s s' : PState) : Prop :=
  ∃ added, s'.builder.children = s.builder.children ++ added ∧ namesAreIdentsList added = true

theorem NBadd.of_eq {s s' : PState} (h : s'.builder.children = s.builder.children) : NBadd s s' :=
  ⟨[], by simp [h], rfl⟩

theorem NBadd.refl (s : PState) : NBadd s s := NBadd.of_eq rfl

theorem NBadd.trans {a b c : PState} (h1 : NBadd a b) (h2 : NBadd b c) : NBadd a c := by
  obtain ⟨x, hx, hx2⟩ := h1
  obtain ⟨y, hy, hy2⟩ := h2
  exact ⟨x ++ y, by rw [hy, hx, List.append_assoc], by rw [namesAreIdentsList_append, hx2, hy2]; rfl⟩

structure NG {α : Type} (m : PI α) : Prop where
  out : ∀ s, Inv s → ∀ a s', m.run s = .ok a s' → NBadd s s'

theorem inv_of_ok {α : Type} (m : PI α) (s : PState) (hi : Inv s) (a : α) (s' : PState) (h : m.run s = .ok a s') :
    Inv s' ∧ Frame s s' := by
  have := m.ok s hi
  rw [h] at this
  exact this

/-! ### structure -/

theorem ng_pure {α : Type} (a : α) : NG (pure a : PI α) := by
  constructor
  intro s _ b s' h
  rw [run_pure] at h
  injection h with _ h2
  subst h2
  exact NBadd.refl _

theorem ng_bind {α β : Type} (m : PI α) (f : α → PI β) (hm : NG m) (hf : ∀ a, NG (f a)) : NG (m >>= f) := by
  constructor
  intro s hi b s' h
  rw [run_bind] at h
  cases hr : m.run s with
  | ok a s1 =>
    rw [hr] at h
    simp only [] at h
    exact (hm.out s hi a s1 hr).trans ((hf a).out s1 (inv_of_ok m s hi a s1 hr).1 b s' h)
  | abort w => rw [hr] at h; cases h
  | panic msg => rw [hr] at h; cases h

theorem ng_ite {α : Type} (c : Bool) (a b : PI α) (ha : NG a) (hb : NG b) : NG (if c then a else b) := by
  cases c <;> simp [ha, hb]

theorem ng_dite {α : Type} (c : Prop) [Decidable c] (a b : PI α) (ha : NG a) (hb : NG b) : NG (if c then a else b) := by
  by_cases h : c <;> simp [h, ha, hb]

theorem ng_outOfFuel {α : Type} : NG (PI.outOfFuel : PI α) := by
  constructor; intro s _ a s' h; cases h

theorem ng_stuck {α : Type} : NG (PI.stuck : PI α) := by
  constructor; intro s _ a s' h; cases h

/-! ### primitives -/

theorem ng_peekToken : NG peekToken := by
  constructor
  intro s _ a s' h
  unfold peekToken at h
  simp only [] at h
  split at h
  · injection h with _ h2; subst h2; exact NBadd.refl _
  · injection h with _ h2; subst h2
    exact NBadd.of_eq (by simp [(nextToken_spec s).builder])

theorem ng_srcLen : NG srcLen := by
  constructor; intro s _ a s' h; injection h with _ h2; subst h2; exact NBadd.refl _

theorem ng_getCurrent : NG getCurrent := by
  constructor; intro s _ a s' h; injection h with _ h2; subst h2; exact NBadd.refl _

theorem ng_peekTokenN (n : Nat) : NG (peekTokenN n) := by
  constructor; intro s _ a s' h; injection h with _ h2; subst h2; exact NBadd.refl _

theorem ng_moveCurToPending : NG moveCurToPending := by
  constructor
  intro s _ a s' h
  unfold moveCurToPending at h
  simp only [] at h
  split at h
  · split at h
    · injection h with _ h2; subst h2; exact NBadd.of_eq rfl
    · injection h with _ h2; subst h2; exact NBadd.refl _
  · injection h with _ h2; subst h2; exact NBadd.refl _

theorem ng_pushIgnored : NG pushIgnored := by
  constructor
  intro s _ a s' h
  unfold pushIgnored at h
  injection h with _ h2; subst h2
  exact ⟨_, rfl, namesAreIdentsList_pending _⟩

theorem ng_moveCurToTree (kind : SK) : NG (moveCurToTree kind) := by
  constructor
  intro s _ a s' h
  unfold moveCurToTree at h
  simp only [] at h
  split at h
  · injection h with _ h2; subst h2
    refine ⟨_, by simp only [List.append_assoc]; rfl, ?_⟩
    rw [namesAreIdentsList_append, namesAreIdentsList_pending]
    simp [namesAreIdentsList, namesAreIdents]
  · injection h with _ h2; subst h2; exact NBadd.refl _

theorem ng_errUpdate (f : PState → List PErr × Bool) (hf) (hf2) : NG (errUpdate f hf hf2) := by
  constructor
  intro s _ a s' h
  unfold errUpdate at h
  injection h with _ h2; subst h2; exact NBadd.of_eq rfl

theorem ng_popDrop : NG popDrop := by
  constructor
  intro s _ a s' h
  unfold popDrop at h
  simp only [] at h
  split at h <;> (injection h with _ h2; subst h2; exact NBadd.of_eq rfl)

theorem ng_assertRecZero : NG assertRecZero := by
  constructor; intro s _ a s' h; injection h with _ h2; subst h2; exact NBadd.of_eq rfl

theorem ng_deadBranch : NG deadBranch := by
  constructor; intro s _ a s' h; injection h with _ h2; subst h2; exact NBadd.of_eq rfl

/-! ### nodes -/

theorem ng_withRec {α : Type} (onLimit body : PI α) (ho : NG onLimit) (hb : NG body) : NG (withRec onLimit body) := by
  constructor
  intro s hi a s' h
  unfold withRec at h
  simp only [] at h
  split at h
  · have hx := fun hI => ho.out _ hI a s' h
    exact hx ⟨hi.text, hi.parents, hi.lexDone, hi.eofTok, hi.errNonempty⟩
  · split at h
    · rename_i a2 s2 hr
      split at h
      · cases h
      · injection h with h1 h2; subst h1; subst h2
        have hx := fun hI => hb.out _ hI _ s2 hr
        exact hx ⟨hi.text, hi.parents, hi.lexDone, hi.eofTok, hi.errNonempty⟩
    · cases h
    · cases h

/-! ### automation: leaves are extended with `macro_rules` as functions are proved -/

syntax "ng_leaf" : tactic
macro_rules | `(tactic| ng_leaf) => `(tactic| assumption)
macro_rules | `(tactic| ng_leaf) => `(tactic| first
  | exact ng_pure _ | exact ng_peekToken | exact ng_srcLen | exact ng_getCurrent | exact ng_peekTokenN _
  | exact ng_moveCurToPending | exact ng_pushIgnored | exact ng_moveCurToTree _ | exact ng_errUpdate _ _ _
  | exact ng_popDrop | exact ng_assertRecZero | exact ng_deadBranch | exact ng_outOfFuel | exact ng_stuck)

macro "ng_auto_with " t:tactic : tactic => `(tactic| repeat' (first
  | ($t:tactic)
  | (with_reducible ng_leaf)
  | (with_reducible apply ng_bind) | (with_reducible apply ng_dite) | (with_reducible apply ng_withRec)
  | (intro _; try dsimp only)
  | (dsimp only)
  | (show (_ == _) = false; decide)
  | split))

macro "ng_auto" : tactic => `(tactic| repeat' (first
  | (with_reducible ng_leaf)
  | (with_reducible apply ng_bind) | (with_reducible apply ng_dite) | (with_reducible apply ng_withRec)
  | (intro _; try dsimp only)
  | (dsimp only)
  | (show (_ == _) = false; decide)
  | split))

theorem ng_skipIgnoredLoop : ∀ fuel, NG (skipIgnoredLoop fuel)
  | 0 => by unfold skipIgnoredLoop; exact ng_outOfFuel
  | fuel + 1 => by
    have ih := ng_skipIgnoredLoop fuel
    unfold skipIgnoredLoop
    ng_auto
macro_rules | `(tactic| ng_leaf) => `(tactic| exact ng_skipIgnoredLoop _)

theorem ng_skipIgnored : NG skipIgnored := by unfold skipIgnored; ng_auto
macro_rules | `(tactic| ng_leaf) => `(tactic| exact ng_skipIgnored)

theorem ng_peek : NG peek := by unfold peek; ng_auto
macro_rules | `(tactic| ng_leaf) => `(tactic| exact ng_peek)
theorem ng_peekData : NG peekData := by unfold peekData; ng_auto
macro_rules | `(tactic| ng_leaf) => `(tactic| exact ng_peekData)
theorem ng_peekN (n : Nat) : NG (peekN n) := by unfold peekN; ng_auto
macro_rules | `(tactic| ng_leaf) => `(tactic| exact ng_peekN _)
theorem ng_peekDataN (n : Nat) : NG (peekDataN n) := by unfold peekDataN; ng_auto
macro_rules | `(tactic| ng_leaf) => `(tactic| exact ng_peekDataN _)
theorem ng_eat (k : SK) : NG (eat k) := by unfold eat; ng_auto
macro_rules | `(tactic| ng_leaf) => `(tactic| exact ng_eat _)
theorem ng_bump (k : SK) : NG (bump k) := by unfold bump; ng_auto
macro_rules | `(tactic| ng_leaf) => `(tactic| exact ng_bump _)
theorem ng_pushErr (e : PErr) : NG (pushErr e) := by unfold pushErr; ng_auto
macro_rules | `(tactic| ng_leaf) => `(tactic| exact ng_pushErr _)
theorem ng_errAtToken (t : Tok) : NG (errAtToken t) := by unfold errAtToken; ng_auto
macro_rules | `(tactic| ng_leaf) => `(tactic| exact ng_errAtToken _)
theorem ng_err : NG err := by unfold err; ng_auto
macro_rules | `(tactic| ng_leaf) => `(tactic| exact ng_err)
theorem ng_limitErr : NG limitErr := by unfold limitErr; ng_auto
macro_rules | `(tactic| ng_leaf) => `(tactic| exact ng_limitErr)
theorem ng_errAndPop : NG errAndPop := by unfold errAndPop; ng_auto
macro_rules | `(tactic| ng_leaf) => `(tactic| exact ng_errAndPop)
theorem ng_expect (t : Kind) (k : SK) : NG (expect t k) := by unfold expect; ng_auto
macro_rules | `(tactic| ng_leaf) => `(tactic| exact ng_expect _ _)
theorem ng_at (t : Kind) : NG (at_ t) := by unfold at_; ng_auto
macro_rules | `(tactic| ng_leaf) => `(tactic| exact ng_at _)

/-! ### nodes -/

/-- the state after `push_ignored` -/
def flushed (s : PState) : PState :=
  { s with builder := { s.builder with children := s.builder.children ++ s.pending.map pendingElem }, pending := [] }

theorem flushed_inv (s : PState) (hi : Inv s) : Inv (flushed s) :=
  (inv_of_ok pushIgnored s hi () _ rfl).1

theorem startNode_inv (kind : SK) (s1 : PState) (hi1 : Inv s1) : Inv (rawStartNode kind s1) := by
  refine ⟨hi1.text, ?_, hi1.lexDone, hi1.eofTok, hi1.errNonempty⟩
  intro p hp
  simp only [rawStartNode, Builder.startNode, List.mem_cons] at hp ⊢
  rcases hp with rfl | hp
  · exact Nat.le_refl _
  · exact hi1.parents p hp

/-- `withNode`, at one state: the body runs in the state after `push_ignored` + `start_node`; whatever
    it appends becomes the children of ONE new node -/
theorem withNode_children {α : Type} (kind : SK) (body : PI α) (s : PState) (hi : Inv s) (a : α) (s' : PState)
    (h : (withNode kind body).run s = .ok a s') :
    ∃ s2 added, (skipIgnored >>= fun _ => body).run (rawStartNode kind (flushed s)) = .ok a s2 ∧
      s2.builder.children = (flushed s).builder.children ++ added ∧
      s'.builder.children = s.builder.children ++ s.pending.map pendingElem ++ [Elem.node kind added] := by
  have e1 : pushIgnored.run s = .ok () (flushed s) := rfl
  have hi1' := startNode_inv kind _ (flushed_inv s hi)
  simp only [withNode, e1] at h
  cases hr2 : (skipIgnored >>= fun _ => body).run (rawStartNode kind (flushed s)) with
  | abort w => rw [hr2] at h; cases h
  | panic m => rw [hr2] at h; cases h
  | ok a2 s2 =>
    rw [hr2] at h
    simp only [] at h
    have hf2 := (inv_of_ok _ _ hi1' a2 s2 hr2).2
    obtain ⟨added, hadd⟩ := hf2.children
    have hpar : s2.builder.parents = (kind, (flushed s).builder.children.length) :: (flushed s).builder.parents := by
      rw [hf2.parents]; rfl
    have hadd' : s2.builder.children = (flushed s).builder.children ++ added := hadd
    simp only [Builder.finishNode, hpar] at h
    injection h with h1 h2
    subst h1; subst h2
    refine ⟨s2, added, rfl, hadd', ?_⟩
    show s2.builder.children.take (flushed s).builder.children.length ++ [Elem.node kind (s2.builder.children.drop (flushed s).builder.children.length)] = _
    rw [hadd', List.take_left' rfl, List.drop_left' rfl]
    rfl

theorem ngs_withNode {α : Type} (kind : SK) (body : PI α) (hk : kind ≠ "NAME") (s : PState) (hi : Inv s)
    (hb : ∀ a2 s2, (skipIgnored >>= fun _ => body).run (rawStartNode kind (flushed s)) = .ok a2 s2 →
      NBadd (rawStartNode kind (flushed s)) s2)
    (a : α) (s' : PState) (h : (withNode kind body).run s = .ok a s') : NBadd s s' := by
  obtain ⟨s2, added, hr2, hadd, hres⟩ := withNode_children kind body s hi a s' h
  obtain ⟨added', hadd', hok⟩ := hb a s2 hr2
  have : added' = added := by
    have h1 : (flushed s).builder.children ++ added' = (flushed s).builder.children ++ added := by
      rw [← hadd]; exact hadd'.symm
    exact List.append_cancel_left h1
  subst this
  refine ⟨s.pending.map pendingElem ++ [Elem.node kind added'], by rw [hres, List.append_assoc], ?_⟩
  rw [namesAreIdentsList_append, namesAreIdentsList_pending]
  simp [namesAreIdentsList, namesAreIdents_node kind added' hk hok]

theorem ng_withNode {α : Type} (kind : SK) (body : PI α) (hk' : (kind == "NAME") = false) (hb : NG body) :
    NG (withNode kind body) := by
  have hk : kind ≠ "NAME" := by simpa using hk'
  constructor
  intro s hi a s' h
  exact ngs_withNode kind body hk s hi
    (fun a2 s2 hr2 => (ng_bind _ _ ng_skipIgnored (fun _ => hb)).out _ (startNode_inv kind _ (flushed_inv s hi)) a2 s2 hr2)
    a s' h

theorem ng_wrapIf {α : Type} (kind : SK) (body : PI α) (cond : α → PI Bool) (inner : PI Unit)
    (hk' : (kind == "NAME") = false) (hb : NG body) (hc : ∀ a, NG (cond a)) (hin : NG inner) :
    NG (wrapIf kind body cond inner) := by
  have hk : kind ≠ "NAME" := by simpa using hk'
  constructor
  intro s hi a s' h
  have e1 : pushIgnored.run s = .ok () { s with builder := { s.builder with children := s.builder.children ++ s.pending.map pendingElem }, pending := [] } := rfl
  have hi1 := (inv_of_ok pushIgnored s hi () _ e1).1
  generalize hs1 : ({ s with builder := { s.builder with children := s.builder.children ++ s.pending.map pendingElem }, pending := [] } : PState) = s1 at *
  have hc1 : s1.builder.children = s.builder.children ++ s.pending.map pendingElem := by rw [← hs1]
  simp only [wrapIf, e1] at h
  have hbc : NG (body >>= fun a => cond a >>= fun c => pure (a, c)) :=
    ng_bind _ _ hb (fun a => ng_bind _ _ (hc a) (fun c => ng_pure _))
  cases hr2 : (body >>= fun a => cond a >>= fun c => pure (a, c)).run s1 with
  | abort w => rw [hr2] at h; cases h
  | panic m => rw [hr2] at h; cases h
  | ok ac s2 =>
    obtain ⟨a2, c⟩ := ac
    rw [hr2] at h
    simp only [] at h
    obtain ⟨hi2, hf2⟩ := inv_of_ok _ _ hi1 _ s2 hr2
    obtain ⟨added, hadd, hok⟩ := hbc.out _ hi1 _ s2 hr2
    cases c with
    | false =>
      simp only [Bool.false_eq_true, if_false] at h
      injection h with h1 h2
      subst h2
      refine ⟨s.pending.map pendingElem ++ added, ?_, ?_⟩
      · rw [hadd, hc1, List.append_assoc]
      · rw [namesAreIdentsList_append, namesAreIdentsList_pending, hok]; rfl
    | true =>
      simp only [if_true] at h
      cases hsn : s2.builder.startNodeAt s1.builder.checkpoint kind with
      | none => rw [hsn] at h; cases h
      | some b =>
        rw [hsn] at h
        simp only [] at h
        -- what `start_node_at` returns
        have hb' : b = { s2.builder with parents := (kind, s1.builder.checkpoint) :: s2.builder.parents } := by
          unfold Builder.startNodeAt at hsn
          split at hsn
          · split at hsn
            · split at hsn
              · injection hsn with hsn; exact hsn.symm
              · cases hsn
            · injection hsn with hsn; exact hsn.symm
          · cases hsn
        have hi3 : Inv { s2 with builder := b } := by
          rw [hb']
          refine ⟨hi2.text, ?_, hi2.lexDone, hi2.eofTok, hi2.errNonempty⟩
          intro p hp
          simp only [List.mem_cons] at hp
          rcases hp with rfl | hp
          · simp only [Builder.checkpoint, hadd, List.length_append]; omega
          · exact hi2.parents p hp
        cases hr3 : inner.run { s2 with builder := b } with
        | abort w => rw [hr3] at h; cases h
        | panic m => rw [hr3] at h; cases h
        | ok u3 s3 =>
          rw [hr3] at h
          simp only [] at h
          obtain ⟨_, hf3⟩ := inv_of_ok _ _ hi3 _ s3 hr3
          obtain ⟨added3, hadd3, hok3⟩ := hin.out _ hi3 _ s3 hr3
          have hpar : s3.builder.parents = (kind, s1.builder.children.length) :: s2.builder.parents := by
            rw [hf3.parents, hb']; rfl
          have hadd3' : s3.builder.children = s1.builder.children ++ (added ++ added3) := by
            rw [hadd3, hb']; simp only []; rw [hadd, List.append_assoc]
          simp only [Builder.finishNode, hpar] at h
          injection h with h1 h2
          subst h2
          refine ⟨s.pending.map pendingElem ++ [Elem.node kind (added ++ added3)], ?_, ?_⟩
          · show s3.builder.children.take s1.builder.children.length ++ [Elem.node kind (s3.builder.children.drop s1.builder.children.length)] = _
            rw [hadd3', List.take_left' rfl, List.drop_left' rfl, hc1, List.append_assoc]
          · rw [namesAreIdentsList_append, namesAreIdentsList_pending]
            have : namesAreIdentsList (added ++ added3) = true := by
              rw [namesAreIdentsList_append, hok, hok3]; rfl
            simp [namesAreIdentsList, namesAreIdents_node kind _ hk this]

end Apollo.Parse
