import ApolloModel.Proofs.ParserTreeDef7
/-
C08 growth (pipeline), stage (v), part 8: the parser side of the named type-system extensions (scalar, object,
interface, union, enum, input object).
-/
set_option linter.unusedSimpArgs false
set_option linter.unusedVariables false
namespace Apollo.Parse
open Apollo.Rowan hiding Str
open Apollo.Lex hiding Str
open Apollo.FromCst (TyTree DescPre OptDirs DirsNode All2 NamedTy NamesNode OptNames ItemsNode OptItems FieldTree EvTree IvdTree Hd AllToks
  NamedDefTree ScalarLike ObjLike UnionLike EnumLike InputLike)

/-- `extend <keyword> rest`: both keyword tokens, as the look-ahead of the dispatcher established -/
theorem tr_bump2 {α : Type} (w1 w2 : String) (hw1 : KwWord w1) (hw2 : KwWord w2) (sk1 sk2 : SK)
    (hj1 : isJunkKind sk1 = false) (hj2 : isJunkKind sk2 = false) (rest : PI α) (R : α → List Tok → List Elem → Prop)
    (hr : Tr NoE (fun _ => True) rest R) :
    Tr NoE (Ext2 w1 w2) (bump sk1 >>= fun _ => bump sk2 >>= fun _ => rest)
      (fun a cs e => ∃ (t1 t2 : Tok) (c2 : List Tok) (e2 : List Elem), t1.data = w1.toList ∧ t1.kind = .name ∧
        t2.data = w2.toList ∧ t2.kind = .name ∧ cs = t1 :: t2 :: c2 ∧
        e = Elem.tok sk1 t1.data :: Elem.tok sk2 t2.data :: e2 ∧ R a c2 e2) := by
  have h1 := tr_bumpKw (E := NoE) w1 hw1 sk1 hj1
  have h2 := tr_bind early_false (tr_bumpKw (E := NoE) w2 hw2 sk2 hj2) (fun _ => hr)
  refine ⟨good_bind _ _ (good_bump sk1) (fun _ => h2.1), ?_⟩
  intro s a s' w hi he hlq ⟨t1, rest0, t2, hq, hd1, hh2, hd2⟩ hrun hnd
  have st : St s := ⟨w, hi, he, hlq⟩
  obtain ⟨_, s1, hr1, hr'⟩ := bind_dec (bump sk1) _ s s' a hrun
  obtain ⟨ign1, e1, hall1, set1⟩ := bump_spec sk1 s s1 w t1 rest0 hq hr1
  have hnd1 : ¬ Doomed s1 := fun d => hnd ((h2.1 s1 a s' e1.w hr').doom d)
  obtain ⟨st1, res1⟩ := St.step h1 st ⟨t1, by rw [hq]; rfl, hd1⟩ hr1 hnd1
  have hrest : rest0 = ign1 ++ Toks s1 := by
    have := e1.toks; rw [hq] at this; simpa using this
  have hhead : (Toks s1).head? = some t2 := by
    rw [hrest, sig_append, sig_ignored ign1 hall1] at hh2
    simp only [List.nil_append] at hh2
    cases hq1 : Toks s1 with
    | nil => rw [hq1] at hh2; cases hh2
    | cons a b =>
      have hsa : isIgnoredKind a.kind = false := set1.2 a (by rw [set1.1, hq1]; rfl)
      have hab : a :: b = [a] ++ b := rfl
      rw [hq1, hab, sig_append, sig_single a hsa] at hh2
      simpa using hh2
  obtain ⟨_, res2⟩ := St.step h2 st1 ⟨t2, hhead, hd2⟩ hr' hnd
  refine (res1.seq res2).weaken ?_
  rintro cs e ⟨c1, c2, x1, x2, rfl, rfl, ⟨t, a1, a2, rfl, rfl⟩, _, c3, c4, e3, e4, rfl, rfl, ⟨t', b1, b2, rfl, rfl⟩, hR⟩
  exact ⟨t, t', c4, e4, a1, a2, b1, b2, rfl, rfl, hR⟩

theorem tr_extEnd {E : PState → Prop} {H : List Tok → Prop} (meets : Bool) :
    Tr E H (extEnd meets) (fun _ cs e => cs = [] ∧ e = []) := by
  unfold extEnd
  refine tr_ite _ (fun _ => tr_err) (fun _ => (tr_pure E _ ()).mono (fun _ _ => trivial) (fun _ _ _ h => h.2))

theorem tr_optKind2 {α : Type} {E : PState → Prop} (hE : Early E) {H : List Tok → Prop} (k0 : Kind) (m : PI Unit)
    (restT restF : PI α) (Lm : List Tok → List Elem → Prop) (R : α → List Tok → List Elem → Prop)
    (hm : Tr E (KindP (· == k0)) m (fun _ => Lm)) (hT : Tr E (fun _ => True) restT R) (hF : Tr E (fun _ => True) restF R) :
    Tr E H (optKind2 k0 m restT restF)
      (fun a cs e => ∃ c1 c2 e1 e2, cs = c1 ++ c2 ∧ e = e1 ++ e2 ∧ (Lm c1 e1 ∨ (c1 = [] ∧ e1 = [])) ∧ R a c2 e2) := by
  unfold optKind2
  apply tr_peek
  intro k
  refine tr_ite _ (fun hk => ?_) (fun _ => ?_)
  · refine ((tr_bind hE hm (fun _ => hT)).mono (fun q hq => kindP_of_head hq.2 hk) ?_)
    rintro a cs e ⟨_, c1, c2, e1, e2, h1, h2, h3, h4⟩
    exact ⟨c1, c2, e1, e2, h1, h2, Or.inl h3, h4⟩
  · refine hF.mono (fun _ _ => trivial) ?_
    intro a cs e h
    exact ⟨[], cs, [], e, rfl, rfl, Or.inr ⟨rfl, rfl⟩, h⟩

/-- `if peek == k { body }` at the end of an extension -/
theorem tr_extBodyK (k0 : Kind) (body : PI Unit) (L : List Tok → List Elem → Prop) (hb : Tr NoE (KindP (· == k0)) body (fun _ => L))
    (meets : Bool) {H : List Tok → Prop} :
    Tr NoE H (extBodyK k0 body meets) (fun _ cs e => L cs e ∨ (cs = [] ∧ e = [])) := by
  refine (tr_optKind2 early_false k0 body _ _ L (fun _ cs e => cs = [] ∧ e = []) hb (tr_extEnd true) (tr_extEnd meets)).mono
    (fun _ h => h) ?_
  rintro _ cs e ⟨c1, c2, e1, e2, rfl, rfl, h1, rfl, rfl⟩
  rcases h1 with h1 | ⟨rfl, rfl⟩
  · exact Or.inl (by simpa using h1)
  · exact Or.inr ⟨rfl, rfl⟩

/-- `Directives? Body?` of an extension -/
theorem tr_extDirs (n : Nat) (k0 : Kind) (body : PI Unit) (L : List Tok → List Elem → Prop)
    (hb : Tr NoE (KindP (· == k0)) body (fun _ => L)) (meets : Bool) {H : List Tok → Prop} :
    Tr NoE H (extDirs n (extBodyK k0 body) meets)
      (fun _ cs e => ∃ (ds : List Ast.Directive) (c1 c2 : List Tok) (td e2 : List Elem), cs = c1 ++ c2 ∧ e = td ++ e2 ∧
        TokIs c1 (Ast.tDirectives ds) ∧ dirsOk true ds ∧ OptDirs ds td ∧ (L c2 e2 ∨ (c2 = [] ∧ e2 = []))) := by
  unfold extDirs
  have hd : Tr NoE (KindP (· == .at)) (directives n true) _ := (tr_directives n true).mono (fun q hq => by
    obtain ⟨t, hh, hk⟩ := hq; unfold HeadK; rw [hh]; simpa using hk) (fun _ _ _ h => h)
  refine (tr_optKind2 early_false .at (directives n true) _ _ _ _ hd (tr_extBodyK k0 body L hb true) (tr_extBodyK k0 body L hb meets)).mono
    (fun _ h => h) ?_
  rintro _ cs e ⟨c1, c2, e1, e2, rfl, rfl, h1, h2⟩
  rcases h1 with ⟨ds, ed, hd1, hd2, rfl, hd4⟩ | ⟨rfl, rfl⟩
  · exact ⟨ds, c1, c2, [ed], e2, rfl, rfl, hd1, hd2, Or.inr ⟨ed, rfl, hd4⟩, h2⟩
  · exact ⟨[], [], c2, [], e2, rfl, rfl, TokIs.nil, (by intro d hd; cases hd), Or.inl ⟨rfl, rfl⟩, h2⟩

/-- the header of an extension node: two keyword tokens -/
theorem hd_ext (sk1 sk2 : SK) (d1 d2 : Str) : Hd none [Elem.tok sk1 d1, Elem.tok sk2 d2] :=
  ⟨[], _, rfl, Or.inl ⟨rfl, rfl⟩, FromCst.allToks_cons _ _ (FromCst.allToks_cons _ _ FromCst.allToks_nil)⟩

theorem kwE_toks (w : String) (t1 t2 : Tok) (h1 : t1.data = "extend".toList) (k1 : t1.kind = .name) (h2 : t2.data = w.toList)
    (k2 : t2.kind = .name) : TokIs [t1, t2] (kwE w) := by
  refine TokIs.cons (t := t1) ?_ (TokIs.single t2 _ ?_)
  · rw [show astOfV t1 = some (.name t1.data) from by simp [astOfV, k1], h1]
  · rw [show astOfV t2 = some (.name t2.data) from by simp [astOfV, k2], h2]

/-! ### scalar extension -/

theorem tr_scalarTypeExtension (n : Nat) :
    Tr NoE (Ext2 "extend" "scalar") (scalarTypeExtension n)
      (fun _ cs e => ∃ (nm : Ast.Str) (ds : List Ast.Directive) (ed : Elem), TokIs cs (LooseDef.toks (.scalarExt nm ds)) ∧
        Ast.wfDirs ds = true ∧ e = [ed] ∧ NamedDefTree (.scalarExt nm ds) ed) := by
  rw [scalarTypeExtension_eq]
  have hd : Tr NoE (KindP (· == .at)) (directives n true) _ := (tr_directives n true).mono (fun q hq => by
    obtain ⟨t, hh, hk⟩ := hq; unfold HeadK; rw [hh]; simpa using hk) (fun _ _ _ h => h)
  have ht := tr_bind early_false (tr_nameOrErr (E := NoE) (H := fun _ => True))
    (fun _ => tr_ifKind (E := NoE) (H := fun _ => True) .at _ _ _ hd tr_err)
  unfold scalarExtTail
  refine (tr_withNodeL early_false "SCALAR_TYPE_EXTENSION" (fun q hl hq => ext2_sig kwWord_extend q ⟨hl, hq⟩)
    (tr_bump2 "extend" "scalar" kwWord_extend kwWord_scalar "extend_KW" "scalar_KW" (by decide) (by decide) _ _ ht)).mono (fun _ h => h) ?_
  rintro _ cs e ⟨inner, rfl, t1, t2, c2, e2, a1, a2, b1, b2, rfl, hin, _, c3, c4, e3, e4, rfl, rfl, ⟨tn, hkn, hvn, rfl, rfl⟩,
    ds, ed, hd1, hd2, rfl, hd4⟩
  refine ⟨tn.data, ds, _, ?_, wfDirs_of_dirsOk true ds hd2, rfl, inner, _, [ed], rfl, hvn, hd_ext _ _ t1.data t2.data,
    Or.inr ⟨ed, rfl, hd4⟩, by rw [hin]; rfl⟩
  have := (kwE_toks "scalar" t1 t2 a1 a2 b1 b2).append (TokIs.cons (t := tn) (x := .name tn.data) (by simp [astOfV, hkn]) hd1)
  simpa [LooseDef.toks] using this

/-! ### union, enum, input object extensions -/

theorem tr_nameDirsBodyExt (n : Nat) (k0 : Kind) (body : PI Unit) (L : List Tok → List Elem → Prop)
    (hb : Tr NoE (KindP (· == k0)) body (fun _ => L)) :
    Tr NoE (fun _ => True) (nameDirsBodyExt n k0 body)
      (fun _ cs e => ∃ (tn : Tok) (ds : List Ast.Directive) (c1 c2 : List Tok) (td e2 : List Elem), tn.kind = .name ∧
        isValidName tn.data = true ∧ cs = tn :: (c1 ++ c2) ∧ e = nameNode tn.data :: (td ++ e2) ∧
        TokIs c1 (Ast.tDirectives ds) ∧ dirsOk true ds ∧ OptDirs ds td ∧ (L c2 e2 ∨ (c2 = [] ∧ e2 = []))) := by
  unfold nameDirsBodyExt
  refine (tr_bind early_false (tr_nameOrErr (E := NoE) (H := fun _ => True))
    (fun _ => tr_extDirs n k0 body L hb false (H := fun _ => True))).mono (fun _ h => h) ?_
  rintro _ cs e ⟨_, c1, c2, e1, e2, rfl, rfl, ⟨tn, hkn, hvn, rfl, rfl⟩, ds, c3, c4, td, e4, rfl, rfl, h1, h2, h3, h4⟩
  exact ⟨tn, ds, c3, c4, td, e4, hkn, hvn, rfl, rfl, h1, h2, h3, h4⟩

theorem tr_unionTypeExtension (n : Nat) :
    Tr NoE (Ext2 "extend" "union") (unionTypeExtension n)
      (fun _ cs e => ∃ (nm : Ast.Str) (ds : List Ast.Directive) (ms : SepC) (ed : Elem),
        TokIs cs (LooseDef.toks (.unionExt nm ds ms)) ∧ Ast.wfDirs ds = true ∧ e = [ed] ∧ NamedDefTree (.unionExt nm ds ms) ed) := by
  rw [unionTypeExtension_eq]
  refine (tr_withNodeL early_false "UNION_TYPE_EXTENSION" (fun q hl hq => ext2_sig kwWord_extend q ⟨hl, hq⟩)
    (tr_bump2 "extend" "union" kwWord_extend kwWord_union "extend_KW" "union_KW" (by decide) (by decide) _ _
      (tr_nameDirsBodyExt n .eq _ _ (tr_unionMemberTypes early_false)))).mono (fun _ h => h) ?_
  rintro _ cs e ⟨inner, rfl, t1, t2, c2, e2, a1, a2, b1, b2, rfl, hin, tn, ds, c3, c4, td, e4, hkn, hvn, rfl, rfl, hd1, hd2, hd3, hb⟩
  have hnm : TokIs [tn] [Ast.Tok.name tn.data] := TokIs.single tn _ (by simp [astOfV, hkn])
  rcases hb with ⟨lead, first, rest, en, hm1, rfl, hm3⟩ | ⟨rfl, rfl⟩
  · refine ⟨tn.data, ds, some (lead, first, rest), _, ?_, wfDirs_of_dirsOk true ds hd2, rfl, inner, _, td, [en], rfl, hvn,
      hd_ext _ _ t1.data t2.data, hd3, Or.inr ⟨en, rfl, hm3⟩, by rw [hin]; rfl⟩
    have := (kwE_toks "union" t1 t2 a1 a2 b1 b2).append (hnm.append (hd1.append hm1))
    simpa [LooseDef.toks, tSepOpt, List.append_assoc] using this
  · refine ⟨tn.data, ds, none, _, ?_, wfDirs_of_dirsOk true ds hd2, rfl, inner, _, td, [], rfl, hvn,
      hd_ext _ _ t1.data t2.data, hd3, Or.inl ⟨rfl, rfl⟩, by rw [hin]; rfl⟩
    have := (kwE_toks "union" t1 t2 a1 a2 b1 b2).append (hnm.append hd1)
    simpa [LooseDef.toks, tSepOpt, List.append_assoc] using this

theorem tr_enumTypeExtension (n : Nat) :
    Tr NoE (Ext2 "extend" "enum") (enumTypeExtension n)
      (fun _ cs e => ∃ (nm : Ast.Str) (ds : List Ast.Directive) (vs : List Ast.EnumValueDef) (ed : Elem),
        TokIs cs (LooseDef.toks (.enumExt nm ds vs)) ∧ Ast.wfDirs ds = true ∧ Ast.wfEnumValueDefs vs = true ∧
        (∀ v ∈ vs, isValueKeyword v.value = false) ∧ e = [ed] ∧ NamedDefTree (.enumExt nm ds vs) ed) := by
  rw [enumTypeExtension_eq]
  refine (tr_withNodeL early_false "ENUM_TYPE_EXTENSION" (fun q hl hq => ext2_sig kwWord_extend q ⟨hl, hq⟩)
    (tr_bump2 "extend" "enum" kwWord_extend kwWord_enum "extend_KW" "enum_KW" (by decide) (by decide) _ _
      (tr_nameDirsBodyExt n .lCurly _ _ (tr_enumValuesDefinition n)))).mono (fun _ h => h) ?_
  rintro _ cs e ⟨inner, rfl, t1, t2, c2, e2, a1, a2, b1, b2, rfl, hin, tn, ds, c3, c4, td, e4, hkn, hvn, rfl, rfl, hd1, hd2, hd3, hb⟩
  have hnm : TokIs [tn] [Ast.Tok.name tn.data] := TokIs.single tn _ (by simp [astOfV, hkn])
  rcases hb with ⟨vs, ea, hne, hv1, hv2, hv3, rfl, hv5⟩ | ⟨rfl, rfl⟩
  · refine ⟨tn.data, ds, vs, _, ?_, wfDirs_of_dirsOk true ds hd2, hv2, hv3, rfl, inner, _, td, [ea], rfl, hvn,
      hd_ext _ _ t1.data t2.data, hd3, Or.inr ⟨ea, rfl, hv5⟩, by rw [hin]; rfl⟩
    have hemp : vs.isEmpty = false := by cases vs with | nil => exact absurd rfl hne | cons _ _ => rfl
    have := (kwE_toks "enum" t1 t2 a1 a2 b1 b2).append (hnm.append (hd1.append hv1))
    simpa [LooseDef.toks, Ast.tEnumBody, Ast.tBraced, hemp, List.append_assoc] using this
  · refine ⟨tn.data, ds, [], _, ?_, wfDirs_of_dirsOk true ds hd2, rfl, (by intro v hv; cases hv), rfl, inner, _, td, [], rfl, hvn,
      hd_ext _ _ t1.data t2.data, hd3, Or.inl ⟨rfl, rfl⟩, by rw [hin]; rfl⟩
    have := (kwE_toks "enum" t1 t2 a1 a2 b1 b2).append (hnm.append hd1)
    simpa [LooseDef.toks, Ast.tEnumBody, Ast.tBraced, Ast.tEnumValueDefItems, List.append_assoc] using this

theorem tr_inputObjectTypeExtension (n : Nat) :
    Tr NoE (Ext2 "extend" "input") (inputObjectTypeExtension n)
      (fun _ cs e => ∃ (nm : Ast.Str) (ds : List Ast.Directive) (fs : List Ast.InputValueDef) (ed : Elem),
        TokIs cs (LooseDef.toks (.inputExt nm ds fs)) ∧ Ast.wfDirs ds = true ∧ Ast.wfIVDs fs = true ∧ e = [ed] ∧
        NamedDefTree (.inputExt nm ds fs) ed) := by
  rw [inputObjectTypeExtension_eq]
  refine (tr_withNodeL early_false "INPUT_OBJECT_TYPE_EXTENSION" (fun q hl hq => ext2_sig kwWord_extend q ⟨hl, hq⟩)
    (tr_bump2 "extend" "input" kwWord_extend kwWord_input "extend_KW" "input_KW" (by decide) (by decide) _ _
      (tr_nameDirsBodyExt n .lCurly _ _ (tr_inputFieldsDefinition n)))).mono (fun _ h => h) ?_
  rintro _ cs e ⟨inner, rfl, t1, t2, c2, e2, a1, a2, b1, b2, rfl, hin, tn, ds, c3, c4, td, e4, hkn, hvn, rfl, rfl, hd1, hd2, hd3, hb⟩
  have hnm : TokIs [tn] [Ast.Tok.name tn.data] := TokIs.single tn _ (by simp [astOfV, hkn])
  rcases hb with hb | ⟨rfl, rfl⟩
  · obtain ⟨vs, ea, hne, hv1, hv2, rfl, hv5⟩ := ivdsR_items hb
    refine ⟨tn.data, ds, vs, _, ?_, wfDirs_of_dirsOk true ds hd2, hv2, rfl, inner, _, td, [ea], rfl, hvn,
      hd_ext _ _ t1.data t2.data, hd3, Or.inr ⟨ea, rfl, hv5⟩, by rw [hin]; rfl⟩
    have hemp : vs.isEmpty = false := by cases vs with | nil => exact absurd rfl hne | cons _ _ => rfl
    have := (kwE_toks "input" t1 t2 a1 a2 b1 b2).append (hnm.append (hd1.append hv1))
    simpa [LooseDef.toks, Ast.tInputBody, Ast.tBraced, hemp, List.append_assoc] using this
  · refine ⟨tn.data, ds, [], _, ?_, wfDirs_of_dirsOk true ds hd2, rfl, rfl, inner, _, td, [], rfl, hvn,
      hd_ext _ _ t1.data t2.data, hd3, Or.inl ⟨rfl, rfl⟩, by rw [hin]; rfl⟩
    have := (kwE_toks "input" t1 t2 a1 a2 b1 b2).append (hnm.append hd1)
    simpa [LooseDef.toks, Ast.tInputBody, Ast.tBraced, Ast.tIVDItems, List.append_assoc] using this

/-! ### object, interface extensions -/

theorem tr_extFieldsTail (n : Nat) (meets : Bool) {H : List Tok → Prop} :
    Tr NoE H (extDirs n (extBodyK .lCurly (fieldsDefinition n)) meets) (fun _ => FieldsTailR) := by
  refine (tr_extDirs n .lCurly _ _ (tr_fieldsDefinition n) meets).mono (fun _ h => h) ?_
  rintro _ cs e ⟨ds, c1, c2, td, e2, rfl, rfl, hd1, hd2, hd3, hb⟩
  rcases hb with ⟨fs, ea, hne, hf1, hf2, rfl, hf4⟩ | ⟨rfl, rfl⟩
  · have hemp : fs.isEmpty = false := by cases fs with | nil => exact absurd rfl hne | cons _ _ => rfl
    refine ⟨ds, fs, td, [ea], ?_, wfDirs_of_dirsOk true ds hd2, hf2, rfl, hd3, Or.inr ⟨ea, rfl, hf4⟩⟩
    have := hd1.append hf1
    simpa [Ast.tBraced, hemp] using this
  · exact ⟨ds, [], td, [], by simpa [Ast.tBraced, Ast.tFieldDefItems] using hd1, wfDirs_of_dirsOk true ds hd2, rfl, by simp, hd3,
      Or.inl ⟨rfl, rfl⟩⟩

theorem tr_objExtTail (n : Nat) :
    Tr NoE (fun _ => True) (objExtTail n)
      (fun _ cs e => ∃ (tn : Tok) (c2 : List Tok) (e2 : List Elem), tn.kind = .name ∧ isValidName tn.data = true ∧ cs = tn :: c2 ∧
        e = nameNode tn.data :: e2 ∧ ImplR FieldsTailR c2 e2) := by
  unfold objExtTail
  refine (tr_bind early_false (tr_nameOrErr (E := NoE) (H := fun _ => True))
    (fun _ => tr_optImplData _ _ _ (tr_extFieldsTail n true (H := fun _ => True)) (tr_extFieldsTail n false (H := fun _ => True))
      (H := fun _ => True))).mono (fun _ h => h) ?_
  rintro _ cs e ⟨_, c1, c2, e1, e2, rfl, rfl, ⟨tn, hkn, hvn, rfl, rfl⟩, h2⟩
  exact ⟨tn, c2, e2, hkn, hvn, rfl, rfl, h2⟩

theorem tr_objectTypeExtension (n : Nat) :
    Tr NoE (Ext2 "extend" "type") (objectTypeExtension n)
      (fun _ cs e => ∃ (nm : Ast.Str) (impl : SepC) (ds : List Ast.Directive) (fs : List Ast.FieldDef) (ed : Elem),
        TokIs cs (LooseDef.toks (.objectExt nm impl ds fs)) ∧ Ast.wfDirs ds = true ∧ Ast.wfFieldDefs fs = true ∧ e = [ed] ∧
        NamedDefTree (.objectExt nm impl ds fs) ed) := by
  rw [objectTypeExtension_eq]
  refine (tr_withNodeL early_false "OBJECT_TYPE_EXTENSION" (fun q hl hq => ext2_sig kwWord_extend q ⟨hl, hq⟩)
    (tr_bump2 "extend" "type" kwWord_extend kwWord_type "extend_KW" "type_KW" (by decide) (by decide) _ _ (tr_objExtTail n))).mono
    (fun _ h => h) ?_
  rintro _ cs e ⟨inner, rfl, t1, t2, c2, e2, a1, a2, b1, b2, rfl, hin, tn, c3, e3, hkn, hvn, rfl, rfl, himpl⟩
  obtain ⟨impl, ds, fs, h2, h3, h4, h5⟩ := objLike_assemble "OBJECT_TYPE_EXTENSION" none tn _ inner c3 e3 hvn
    (hd_ext "extend_KW" "type_KW" t1.data t2.data) (by rw [hin]; rfl) himpl
  refine ⟨tn.data, impl, ds, fs, _, ?_, h3, h4, rfl, h5⟩
  have := (kwE_toks "type" t1 t2 a1 a2 b1 b2).append ((TokIs.single tn (.name tn.data) (by simp [astOfV, hkn])).append h2)
  simpa [LooseDef.toks, objectLikeToks, List.append_assoc] using this

theorem tr_interfaceTypeExtension (n : Nat) :
    Tr NoE (Ext2 "extend" "interface") (interfaceTypeExtension n)
      (fun _ cs e => ∃ (nm : Ast.Str) (impl : SepC) (ds : List Ast.Directive) (fs : List Ast.FieldDef) (ed : Elem),
        TokIs cs (LooseDef.toks (.interfaceExt nm impl ds fs)) ∧ Ast.wfDirs ds = true ∧ Ast.wfFieldDefs fs = true ∧ e = [ed] ∧
        NamedDefTree (.interfaceExt nm impl ds fs) ed) := by
  rw [interfaceTypeExtension_eq]
  refine (tr_withNodeL early_false "INTERFACE_TYPE_EXTENSION" (fun q hl hq => ext2_sig kwWord_extend q ⟨hl, hq⟩)
    (tr_bump2 "extend" "interface" kwWord_extend kwWord_interface "extend_KW" "interface_KW" (by decide) (by decide) _ _
      (tr_objExtTail n))).mono (fun _ h => h) ?_
  rintro _ cs e ⟨inner, rfl, t1, t2, c2, e2, a1, a2, b1, b2, rfl, hin, tn, c3, e3, hkn, hvn, rfl, rfl, himpl⟩
  obtain ⟨impl, ds, fs, h2, h3, h4, h5⟩ := objLike_assemble "INTERFACE_TYPE_EXTENSION" none tn _ inner c3 e3 hvn
    (hd_ext "extend_KW" "interface_KW" t1.data t2.data) (by rw [hin]; rfl) himpl
  refine ⟨tn.data, impl, ds, fs, _, ?_, h3, h4, rfl, h5⟩
  have := (kwE_toks "interface" t1 t2 a1 a2 b1 b2).append ((TokIs.single tn (.name tn.data) (by simp [astOfV, hkn])).append h2)
  simpa [LooseDef.toks, objectLikeToks, List.append_assoc] using this

end Apollo.Parse
