import ApolloModel.Proofs.ParserSel6
import ApolloModel.Proofs.ParserTermination5
/-
C07 / C05 growth (selection sets), part 7: `parse_selection_set` always yields a tree, so its acceptance
theorem needs no hypothesis on the outcome.
-/
set_option linter.unusedSimpArgs false
namespace Apollo.Parse
open Apollo.Rowan hiding Str
open Apollo.Lex hiding Str

theorem parseFieldSet_tree (tl : Option Nat) (rl : Nat) (src : Str) :
    ∃ root, (parse .selectionSet tl rl src).outcome = .tree root := by
  cases h : (parse .selectionSet tl rl src).outcome with
  | tree root => exact ⟨root, rfl⟩
  | panic m => exact absurd h (parse_no_panic .selectionSet tl rl src m)
  | abort w => exact absurd h (parse_selection_set_terminates tl rl src w)

theorem parseFieldSet_sound (rl : Nat) (src : Str) (herr : (parse .selectionSet none rl src).errors = []) :
    LexClean src ∧ ∃ x ts e, sig (srcToks src) = ts ++ [e] ∧ e.kind = .eof ∧ TokIs ts x ∧ IsFieldSet x := by
  obtain ⟨root, h⟩ := parseFieldSet_tree none rl src
  exact parseFieldSet_sound_tree rl src root h herr

end Apollo.Parse
