import ApolloModel.Proofs.AstText
/-
Text level, part 1 continued: every `serialize_impl` piece, started after a separator or a punctuator,
never glues two tokens — by induction over the AST.
-/
namespace Apollo.Ast

/-- every item is fine when started from a clean state -/
def AllClean (items : List (List Cmd)) : Prop := ∀ item ∈ items, ∀ st, Clean st → Ok st item

mutual
theorem ok_cValue : ∀ (v : Value) (st : Option Cls), Clean st → Ok st (cValue v)
  | .null, st, h => ok_kw h.nm (ok_nil _)
  | .bool true, st, h => ok_kw h.nm (ok_nil _)
  | .bool false, st, h => ok_kw h.nm (ok_nil _)
  | .enum n, st, h => ok_nm h.nm (ok_nil _)
  | .str s, st, h => ok_str h.ne_str (ok_nil _)
  | .var n, st, h => ok_pn (by simp) (ok_nm (.inr (.inl rfl)) (ok_nil _))
  | .float t, st, h => by
      refine ok_tok ?_ (ok_nil _)
      rcases h with h | h <;> subst h <;> rfl
  | .int t, st, h => by
      refine ok_tok ?_ (ok_nil _)
      rcases h with h | h <;> subst h <;> rfl
  | .list vs, st, _ => any_commaSeparated _ _ (by simp) (by simp) _ (allClean_cValues vs) st
  | .obj fs, st, _ => any_commaSeparated _ _ (by simp) (by simp) _ (allClean_cObjFields fs) st
theorem allClean_cValues : ∀ (vs : Values), AllClean (cValues vs)
  | .nil => by intro i hi; simp [cValues] at hi
  | .cons v tl => by
      intro i hi st hst
      simp only [cValues, List.mem_cons] at hi
      rcases hi with hi | hi
      · subst hi; exact ok_cValue v st hst
      · exact allClean_cValues tl i hi st hst
theorem allClean_cObjFields : ∀ (fs : ObjFields), AllClean (cObjFields fs)
  | .nil => by intro i hi; simp [cObjFields] at hi
  | .cons n v tl => by
      intro i hi st hst
      simp only [cObjFields, List.mem_cons] at hi
      rcases hi with hi | hi
      · subst hi
        simp only [List.cons_append, List.nil_append]
        exact ok_nm hst.nm (ok_pn (by simp) (ok_sp (ok_cValue v none clean_none)))
      · exact allClean_cObjFields tl i hi st hst
end

/-- a type reference ends with a name, `!` or `]`; whatever follows it in the serializer is a separator,
    a punctuator or nothing -/
theorem ok_cTy_then : ∀ (t : Ty) (st : Option Cls) (rest : List Cmd), Clean st →
    Ok (some .word) rest → Ok (some .other) rest → Ok st (cTy t ++ rest)
  | .named n, st, rest, h, hw, _ => by simpa [cTy] using ok_nm h.nm hw
  | .nonNullNamed n, st, rest, h, _, ho => by simpa [cTy] using ok_nm h.nm (ok_pn (by simp) ho)
  | .list t, st, rest, _, _, ho => by
      simp only [cTy, List.cons_append, List.append_assoc]
      refine ok_pn (by simp) (ok_cTy_then t _ _ clean_other ?_ ?_) <;>
        simpa using ok_pn (by simp) ho
  | .nonNullList t, st, rest, _, _, ho => by
      simp only [cTy, List.cons_append, List.append_assoc]
      refine ok_pn (by simp) (ok_cTy_then t _ _ clean_other ?_ ?_) <;>
        simpa using ok_pn (by simp) (ok_pn (by simp) ho)

theorem ok_cTy_any (t : Ty) (st : Option Cls) (rest : List Cmd) (h : Clean st) (hr : Any rest) : Ok st (cTy t ++ rest) :=
  ok_cTy_then t st rest h (hr _) (hr _)

theorem ok_cArgument (a : Str × Value) (st : Option Cls) (h : Clean st) : Ok st (cArgument a) := by
  simp only [cArgument, List.cons_append, List.nil_append]
  exact ok_nm h.nm (ok_pn (by simp) (ok_sp (ok_cValue a.2 none clean_none)))

theorem any_cArguments (args : List (Str × Value)) : Any (cArguments args) := by
  intro st
  unfold cArguments
  split
  · exact ok_nil _
  · simp only [List.cons_append, List.nil_append]
    refine ok_beginSingle (ok_append_any ?_ (fun st => ok_endSingle (ok_nil _)))
    refine any_commaSeparated _ _ (by simp) (by simp) _ ?_ st
    intro i hi st' hst'
    simp only [List.mem_map] at hi
    obtain ⟨a, _, rfl⟩ := hi
    exact ok_cArgument a st' hst'

theorem any_cDirective (d : Directive) : Any (cDirective d) := by
  intro st
  simp only [cDirective, List.cons_append, List.nil_append]
  exact ok_pn (by simp) (ok_nm (.inr (.inl rfl)) (any_cArguments d.args _))

theorem any_cDirectives (ds : List Directive) : Any (cDirectives ds) := by
  unfold cDirectives
  induction ds with
  | nil => simpa using any_nil
  | cons d r ih =>
    intro st
    simp only [List.map_cons, List.flatten_cons, List.cons_append]
    exact ok_sp (ok_append_any (any_cDirective d none) ih)

theorem any_cDefault (v : Option Value) : Any (cDefault v) := by
  intro st
  cases v with
  | none => exact ok_nil _
  | some v =>
    simp only [cDefault, List.cons_append, List.nil_append]
    exact ok_sp (ok_pn (by simp) (ok_sp (ok_cValue v none clean_none)))

theorem ok_cVarDef (v : VarDef) (st : Option Cls) (h : Clean st) : Ok st (cVarDef v) := by
  simp only [cVarDef, List.cons_append, List.nil_append, List.append_assoc]
  refine ok_pn (by simp) (ok_nm (.inr (.inl rfl)) (ok_pn (by simp) (ok_sp ?_)))
  exact ok_cTy_any v.ty none _ clean_none (any_append (any_cDefault _) (any_cDirectives _))

/-- a description, then something that starts with a name -/
theorem ok_cDescription_then (d : Option Str) (st : Option Cls) (rest : List Cmd) (h : Clean st)
    (hr : ∀ st', Clean st' → Ok st' rest) : Ok st (cDescription d ++ rest) := by
  cases d with
  | none => simpa [cDescription] using hr st h
  | some d =>
    simp only [cDescription, List.cons_append, List.nil_append]
    exact ok_str h.ne_str (ok_nl (hr none clean_none))

theorem ok_cInputValueDef (v : InputValueDef) (st : Option Cls) (h : Clean st) : Ok st (cInputValueDef v) := by
  simp only [cInputValueDef, List.append_assoc]
  refine ok_cDescription_then _ st _ h ?_
  intro st' h'
  simp only [List.cons_append, List.nil_append]
  refine ok_nm h'.nm (ok_pn (by simp) (ok_sp ?_))
  exact ok_cTy_any v.ty none _ clean_none (any_append (any_cDefault _) (any_cDirectives _))

theorem any_cArgumentsDefinition (args : List InputValueDef) : Any (cArgumentsDefinition args) := by
  have hitems : AllClean (args.map cInputValueDef) := by
    intro i hi st' hst'
    simp only [List.mem_map] at hi
    obtain ⟨a, _, rfl⟩ := hi
    exact ok_cInputValueDef a st' hst'
  intro st
  unfold cArgumentsDefinition
  split
  · exact ok_nil _
  · split
    · exact any_commaSeparated _ _ (by simp) (by simp) _ hitems st
    · simp only [List.cons_append, List.nil_append]
      exact ok_beginSingle (ok_append_any (any_commaSeparated _ _ (by simp) (by simp) _ hitems st)
        (fun st => ok_endSingle (ok_nil _)))

theorem ok_cFieldDef (f : FieldDef) (st : Option Cls) (h : Clean st) : Ok st (cFieldDef f) := by
  simp only [cFieldDef, List.append_assoc]
  refine ok_cDescription_then _ st _ h ?_
  intro st' h'
  simp only [List.cons_append, List.nil_append]
  refine ok_nm h'.nm (ok_append_any (any_cArgumentsDefinition f.args _) ?_)
  intro st''
  exact ok_pn (by simp) (ok_sp (ok_cTy_any f.ty none _ clean_none (any_cDirectives _)))

theorem ok_cEnumValueDef (v : EnumValueDef) (st : Option Cls) (h : Clean st) : Ok st (cEnumValueDef v) := by
  simp only [cEnumValueDef, List.append_assoc]
  refine ok_cDescription_then _ st _ h ?_
  intro st' h'
  simp only [List.cons_append, List.nil_append]
  exact ok_nm h'.nm (any_cDirectives _ _)

mutual
theorem ok_cSel : ∀ (s : Sel) (st : Option Cls), Clean st → Ok st (cSel s)
  | .field alias name args dirs sels, st, h => by
      have htail : Any (cArguments args ++ (cDirectives dirs ++
          (match sels with | .nil => [] | _ => sp :: curly (cSels sels)))) := by
        refine any_append (any_cArguments _) (any_append (any_cDirectives _) ?_)
        cases sels with
        | nil => exact any_nil
        | cons s tl =>
          intro st'
          exact ok_sp (any_curly _ (fun i hi => okNone_cSels (.cons s tl) i hi) none)
      cases alias with
      | none =>
        simp only [cSel, List.nil_append, List.cons_append, List.append_assoc]
        exact ok_nm h.nm (htail _)
      | some a =>
        simp only [cSel, List.nil_append, List.cons_append, List.append_assoc]
        exact ok_nm h.nm (ok_pn (by simp) (ok_sp (ok_nm (.inl rfl) (htail _))))
  | .spread name dirs, st, h => by
      simp only [cSel, List.cons_append, List.nil_append]
      exact ok_spread h.ne_num (ok_nm (.inr (.inr rfl)) (any_cDirectives _ _))
  | .inline tc dirs sels, st, h => by
      have htail : Any (cDirectives dirs ++ ([sp] ++ curly (cSels sels))) := by
        refine any_append (any_cDirectives _) ?_
        intro st'
        exact ok_sp (any_curly _ (fun i hi => okNone_cSels sels i hi) none)
      cases tc with
      | none =>
        simp only [cSel, List.cons_append, List.nil_append, List.append_assoc]
        exact ok_spread h.ne_num (htail _)
      | some t =>
        simp only [cSel, List.cons_append, List.nil_append, List.append_assoc]
        exact ok_spread h.ne_num (ok_sp (ok_kw (.inl rfl) (ok_sp (ok_nm (.inl rfl) (htail _)))))
theorem okNone_cSels : ∀ (ss : Sels), ∀ item ∈ cSels ss, Ok none item
  | .nil => by intro i hi; simp [cSels] at hi
  | .cons s tl => by
      intro i hi
      simp only [cSels, List.mem_cons] at hi
      rcases hi with hi | hi
      · subst hi; exact ok_cSel s none clean_none
      · exact okNone_cSels tl i hi
end

theorem any_cSepList (intro : List Cmd) (hintro : ∀ st cs, Ok none cs → Ok st (intro ++ cs)) (p : P) (hp : p ≠ .spread)
    (names : List Str) : Any (cSepList intro p names) := by
  intro st
  cases names with
  | nil => exact ok_nil _
  | cons first rest =>
    simp only [cSepList, List.append_assoc]
    refine hintro st _ ?_
    simp only [List.cons_append, List.nil_append]
    refine ok_nm (.inl rfl) ?_
    have : Any ((rest.map fun n => [sp, pn p, sp, nm n]).flatten) := by
      induction rest with
      | nil => simpa using any_nil
      | cons n r ih =>
        intro st'
        simp only [List.map_cons, List.flatten_cons, List.cons_append, List.nil_append]
        exact ok_sp (ok_pn hp (ok_sp (ok_nm (.inl rfl) (ih _))))
    exact this _

theorem ok_cRootOp (r : OpType × Str) : Ok none (cRootOp r) := by
  simp only [cRootOp]
  exact ok_kw (.inl rfl) (ok_pn (by simp) (ok_sp (ok_nm (.inl rfl) (ok_nil _))))

theorem any_optCurly (b : Bool) (items : List (List Cmd)) (hi : ∀ item ∈ items, Ok none item) :
    Any (if b then [] else sp :: curly items) := by
  intro st
  split
  · exact ok_nil _
  · exact ok_sp (any_curly items hi none)

theorem okNone_map {α : Type} (f : α → List Cmd) (l : List α) (h : ∀ a, Ok none (f a)) : ∀ item ∈ l.map f, Ok none item := by
  intro i hi
  simp only [List.mem_map] at hi
  obtain ⟨a, _, rfl⟩ := hi
  exact h a

theorem ok_cObjectTypeLike (name : Str) (impls : List Str) (dirs : List Directive) (fields : List FieldDef) :
    Ok none (cObjectTypeLike name impls dirs fields) := by
  simp only [cObjectTypeLike, List.cons_append, List.nil_append, List.append_assoc]
  refine ok_nm (.inl rfl) ?_
  refine any_append (any_cSepList _ (fun st cs h => ok_sp (ok_kw (.inl rfl) (ok_sp h))) _ (by simp) _)
    (any_append (any_cDirectives _) (any_optCurly _ _ (okNone_map _ _ (fun f => ok_cFieldDef f none clean_none)))) _

theorem ok_cUnion (name : Str) (dirs : List Directive) (members : List Str) : Ok none (cUnion name dirs members) := by
  simp only [cUnion, List.cons_append, List.nil_append, List.append_assoc]
  exact ok_nm (.inl rfl) (any_append (any_cDirectives _)
    (any_cSepList _ (fun st cs h => ok_sp (ok_pn (by simp) (ok_sp h))) _ (by simp) _) _)

theorem ok_cEnumBody (name : Str) (dirs : List Directive) (values : List EnumValueDef) : Ok none (cEnumBody name dirs values) := by
  simp only [cEnumBody, List.cons_append, List.nil_append, List.append_assoc]
  exact ok_nm (.inl rfl) (any_append (any_cDirectives _)
    (any_optCurly _ _ (okNone_map _ _ (fun v => ok_cEnumValueDef v none clean_none))) _)

theorem ok_cInputBody (name : Str) (dirs : List Directive) (fields : List InputValueDef) : Ok none (cInputBody name dirs fields) := by
  simp only [cInputBody, List.cons_append, List.nil_append, List.append_assoc]
  exact ok_nm (.inl rfl) (any_append (any_cDirectives _)
    (any_optCurly _ _ (okNone_map _ _ (fun v => ok_cInputValueDef v none clean_none))) _)

end Apollo.Ast
