import ApolloModel.Proofs.ParserType9
import ApolloModel.Proofs.LexerTokens
import ApolloModel.Proofs.LexerStrings
import ApolloModel.Model.Strings
/-
C08 growth (pipeline): every String token the lexer model produces is decoded by `String::from(&cst::StringValue)`
(`decodeStringToken` ≠ none, i.e. none of the `unwrap`s / slices of node_ext.rs can fail on it):
 * a quoted string is in the lexer's exact language `LexStringChars` (hex escapes with four hex digits, no surrogates);
 * a block string token ends with its closing `"""`, so it has at least six characters.
-/
set_option linter.unusedSimpArgs false
set_option linter.unusedVariables false
namespace Apollo.Parse
open Apollo.Lex hiding Str
open Apollo.Strs (unescapeStringAux unescapeString hexFold hexDigit? charFromU32? escapedChar? decodeStringToken)

/-! ### quoted strings -/

theorem hexDigit_of_hex (c : Char) (h : Lex.isAsciiHexDigit c = true) : hexDigit? c = some (Lex.hexVal c) := by
  unfold hexDigit? Lex.hexVal
  simp only [Lex.isAsciiHexDigit, Lex.isAsciiDigit, Bool.or_eq_true, Bool.and_eq_true, decide_eq_true_eq] at h ⊢
  by_cases h1 : 48 ≤ c.toNat ∧ c.toNat ≤ 57
  · simp [h1]
  · by_cases h2 : 97 ≤ c.toNat ∧ c.toNat ≤ 102
    · simp [h1, h2]
    · have h3 : 65 ≤ c.toNat ∧ c.toNat ≤ 70 := by
        rcases h with (h | h) | h
        · exact absurd h h1
        · exact absurd h h2
        · exact h
      simp [h1, h2, h3]

theorem hexVal_lt (c : Char) (h : Lex.isAsciiHexDigit c = true) : Lex.hexVal c < 16 := by
  unfold Lex.hexVal
  simp only [Lex.isAsciiHexDigit, Lex.isAsciiDigit, Bool.or_eq_true, Bool.and_eq_true, decide_eq_true_eq] at h ⊢
  by_cases h1 : 48 ≤ c.toNat ∧ c.toNat ≤ 57
  · simp [h1]; omega
  · by_cases h2 : 97 ≤ c.toNat ∧ c.toNat ≤ 102
    · simp [h1, h2]; omega
    · have h3 : 65 ≤ c.toNat ∧ c.toNat ≤ 70 := by
        rcases h with (h | h) | h
        · exact absurd h h1
        · exact absurd h h2
        · exact h
      simp [h1, h2]; omega

theorem un_plain (f : Nat) (c : Char) (rest : Str) (h : c ≠ '\\') :
    unescapeStringAux (f + 1) (c :: rest) = (unescapeStringAux f rest).map (c :: ·) := by
  conv => lhs; unfold unescapeStringAux
  split <;> simp_all

theorem un_esc (f : Nat) (c : Char) (rest : Str) (h : c ≠ 'u') (hr : (unescapeStringAux f rest).isSome = true) :
    (unescapeStringAux (f + 1) ('\\' :: c :: rest)).isSome = true := by
  conv => lhs; unfold unescapeStringAux
  split
  all_goals (try simp_all)
  · next heq =>
      obtain ⟨rfl, rfl⟩ := heq
      cases he : escapedChar? c <;> simp [he, hr]
  · next x1 x2 heq1 heq2 =>
      obtain ⟨rfl, rfl⟩ := heq2
      exact absurd rfl (x2 c rest rfl)

theorem un_uni (f : Nat) (rest : Str) (v : Nat) (ch : Char) (h1 : hexFold (rest.take 4) = some v) (h2 : charFromU32? v = some ch)
    (hr : (unescapeStringAux f (rest.drop 4)).isSome = true) :
    (unescapeStringAux (f + 1) ('\\' :: 'u' :: rest)).isSome = true := by
  conv => lhs; unfold unescapeStringAux
  split
  all_goals (try simp_all)
  · next x1 heq1 heq2 => exact absurd heq2.1.symm x1
  · next x1 x2 heq1 heq2 =>
      obtain ⟨rfl, rfl⟩ := heq2
      exact absurd rfl (x2 'u' rest rfl)

theorem hexFold4 (a b c d : Char) (ha : Lex.isAsciiHexDigit a = true) (hb : Lex.isAsciiHexDigit b = true)
    (hc : Lex.isAsciiHexDigit c = true) (hd : Lex.isAsciiHexDigit d = true) :
    hexFold [a, b, c, d] = some (((Lex.hexVal a * 16 + Lex.hexVal b) * 16 + Lex.hexVal c) * 16 + Lex.hexVal d) := by
  simp [hexFold, hexDigit_of_hex, ha, hb, hc, hd]

theorem lsc_unescape : ∀ (body : Str), LexStringChars body → ∀ fuel, body.length < fuel →
    (unescapeStringAux fuel body).isSome = true := by
  intro body h
  induction h with
  | nil => intro fuel hf; cases fuel <;> simp [unescapeStringAux]
  | @plain c rest h1 h2 h3 _ ih =>
    intro fuel hf
    cases fuel with
    | zero => simp at hf
    | succ f =>
      rw [un_plain f c rest h2]
      have := ih f (by simp at hf; omega)
      simp [this]
  | @escaped c rest h1 _ ih =>
    intro fuel hf
    cases fuel with
    | zero => simp at hf
    | succ f =>
      have hcu : c ≠ 'u' := by
        rintro rfl
        revert h1; decide
      cases f with
      | zero => simp at hf
      | succ f' =>
        refine un_esc (f' + 1) c rest hcu ?_
        exact ih (f' + 1) (by simp at hf; omega)
  | @unicode a b c d rest ha hb hc hd hs _ ih =>
    intro fuel hf
    cases fuel with
    | zero => simp at hf
    | succ f =>
      rw [specHex_eq] at ha hb hc hd
      have hv := hexFold4 a b c d ha hb hc hd
      have hlt : ((Lex.hexVal a * 16 + Lex.hexVal b) * 16 + Lex.hexVal c) * 16 + Lex.hexVal d < 65536 := by
        have := hexVal_lt a ha; have := hexVal_lt b hb; have := hexVal_lt c hc; have := hexVal_lt d hd
        omega
      have hch : ∃ ch, charFromU32? (((Lex.hexVal a * 16 + Lex.hexVal b) * 16 + Lex.hexVal c) * 16 + Lex.hexVal d) = some ch := by
        unfold charFromU32?
        simp only [Lex.isSurrogate, Bool.and_eq_false_iff, decide_eq_false_iff_not] at hs
        have hns : ¬ ((55296 ≤ ((Lex.hexVal a * 16 + Lex.hexVal b) * 16 + Lex.hexVal c) * 16 + Lex.hexVal d) ∧
            (((Lex.hexVal a * 16 + Lex.hexVal b) * 16 + Lex.hexVal c) * 16 + Lex.hexVal d ≤ 57343)) := by
          rintro ⟨h1, h2⟩
          rcases hs with h | h
          · exact h h1
          · exact h h2
        simp only [Bool.and_eq_true, decide_eq_true_eq, hns, if_false]
        exact ⟨_, by rw [if_pos (by omega)]⟩
      obtain ⟨ch, hch⟩ := hch
      refine un_uni f (a :: b :: c :: d :: rest) _ ch (by simpa using hv) hch ?_
      simp only [List.drop_succ_cons, List.drop_zero]
      exact ih f (by simp at hf; omega)

theorem quoted_decodes (t : Str) (h : IsLexQuoted t) : (decodeStringToken t).isSome = true := by
  obtain ⟨body, rfl, hb⟩ := h
  unfold decodeStringToken
  -- the body does not start with two quotes (`"` is not a plain character), so this is not the block branch
  have hlen : ('"' :: (body ++ ['"'])).length = body.length + 2 := by simp
  have key : (unescapeString ((('"' :: (body ++ ['"'])).drop 1).take (('"' :: (body ++ ['"'])).length - 2))).isSome = true := by
    have : (('"' :: (body ++ ['"'])).drop 1).take (('"' :: (body ++ ['"'])).length - 2) = body := by
      simp [hlen]
    rw [this]
    exact lsc_unescape body hb _ (by omega)
  cases hb with
  | nil => simpa using key
  | @plain c rest h1 h2 h3 _ =>
    split
    · next heq =>
        simp only [List.cons_append, List.cons.injEq, true_and] at heq
        exact absurd heq.1 h1
    · rw [if_neg (by simp)]; exact key
  | @escaped c rest _ _ =>
    split
    · next heq => simp at heq
    · rw [if_neg (by simp)]; exact key
  | unicode _ _ _ _ _ _ =>
    split
    · next heq => simp at heq
    · rw [if_neg (by simp)]; exact key

/-! ### block strings end with their closing quotes -/

def minTail : State → Nat
  | .blockQuote1 => 1
  | .blockQuote2 => 2
  | _ => 0

theorem runD_block_len : ∀ (src : Str) (st : State) (k : Kind) (e : Bool) (tail : Str), isBlockState st = true →
    minTail st ≤ tail.length → ∀ k' d r, runD st k e (q3 ++ tail) src = (.tok k' d, r) → 6 ≤ d.length
  | [], st, k, e, tail, h, _, k', d, r, hr => by
    cases st <;> simp [isBlockState] at h <;> simp [runD, eofItem] at hr
  | c :: src, st, k, e, tail, h, hm, k', d, r, hr => by
    have hp := step_block st k e (q3 ++ tail) c h
    unfold runD at hr
    cases hs : step st k e (q3 ++ tail) c with
    | goto st' k'' e' =>
      simp only [hs, blockOk] at hp hr
      have hm' : minTail st' ≤ (tail ++ [c]).length := by
        simp only [List.length_append, List.length_cons, List.length_nil]
        cases st <;> simp [isBlockState] at h <;>
          (simp only [step, blockStep] at hs
           repeat' split at hs
           all_goals (cases hs)
           all_goals (simp only [minTail] at hm ⊢; omega))
      have := runD_block_len src st' k'' e' (tail ++ [c]) hp hm' k' d r (by simpa [List.append_assoc] using hr)
      exact this
    | incl o =>
      simp only [hs] at hr
      cases st <;> simp [isBlockState] at h <;>
        (simp only [step, blockStep] at hs
         repeat' split at hs
         all_goals (cases hs)
         all_goals
           (simp only [Prod.mk.injEq] at hr
            have hd := hr.1
            simp only [minTail] at hm
            cases e <;> simp [done, Out.mk] at hd
            obtain ⟨_, rfl⟩ := hd
            simp [q3]
            omega))
    | excl o => simp [hs, blockOk] at hp

theorem block_decodes (t : Str) (hq : ∃ tail, t = q3 ++ tail) (hlen : 6 ≤ t.length) : (decodeStringToken t).isSome = true := by
  obtain ⟨tail, rfl⟩ := hq
  unfold decodeStringToken
  simp only [q3, List.cons_append, List.nil_append]
  have h3 : 3 ≤ tail.length := by simp [q3] at hlen; omega
  have : ¬ ('"' :: '"' :: '"' :: tail).length < 6 := by simp; omega
  simp [this, h3]

/-! ### every String token of the lexer's output decodes -/

theorem advance_string_decodes (c0 : Char) (rest0 : Str) (d r : Str)
    (hadv : advance (c0 :: rest0) = (.tok .stringValue d, r)) : (decodeStringToken d).isSome = true := by
  have hok := advance_token_sound c0 rest0 .stringValue d r hadv
  rcases hok with hq | ⟨tail, rfl⟩
  · exact quoted_decodes d hq
  · -- a block string: the source starts with three quotes
    have hcat := advance_concat (c0 :: rest0)
    rw [hadv] at hcat
    simp only [Item.data] at hcat
    have hsrc : c0 :: rest0 = '"' :: '"' :: '"' :: (tail ++ r) := by rw [← hcat]; simp [q3]
    rw [hsrc] at hadv
    have hrun : runD .blockStringLiteral .stringValue false (q3 ++ []) (tail ++ r) = (.tok .stringValue (q3 ++ tail), r) := by
      simpa [advance, runD, step, punctuationKind, isNameStart, isAsciiDigit, q3] using hadv
    have hlen := runD_block_len (tail ++ r) .blockStringLiteral .stringValue false [] rfl (by simp [minTail]) _ _ _ hrun
    exact block_decodes _ ⟨tail, rfl⟩ hlen

theorem lexAux_stringDecodes : ∀ (fuel count : Nat) (src : Str), ∀ it ∈ lexAux fuel none count src,
    ∀ (d : Str), it = .tok .stringValue d → (decodeStringToken d).isSome = true
  | 0, _, _ => by intro it hit; simp [lexAux] at hit
  | fuel + 1, count, [] => by
    intro it hit d e
    simp [lexAux] at hit
    rw [hit] at e
    cases e
  | fuel + 1, count, c0 :: rest0 => by
    intro it hit d e
    simp only [lexAux, Bool.false_eq_true, if_false, List.mem_cons] at hit
    rcases hit with hit | hit
    · cases hadv : advance (c0 :: rest0) with
      | mk item r =>
        rw [hadv] at hit
        simp only [] at hit
        rw [e] at hit
        rw [← hit] at hadv
        exact advance_string_decodes c0 rest0 d r hadv
    · exact lexAux_stringDecodes fuel (count + 1) _ it hit d e

/-- every String token of the queue decodes -/
def StrQ (q : List Tok) : Prop := ∀ t ∈ q, t.kind = .stringValue → (decodeStringToken t.data).isSome = true

theorem strQ_srcToks (src : Str) : StrQ (srcToks src) := by
  intro t ht hk
  have hm : (t.kind, t.data) ∈ lexToks src := by
    rw [← srcToks_lex src]
    exact List.mem_map.mpr ⟨t, ht, rfl⟩
  unfold lexToks at hm
  obtain ⟨it, hit, hkd⟩ := List.mem_filterMap.mp hm
  cases it with
  | tok k d =>
    simp only [itemKD, Option.some.injEq, Prod.mk.injEq] at hkd
    have := lexAux_stringDecodes _ _ _ (.tok k d) hit d (by rw [hkd.1, hk])
    rw [← hkd.2]; exact this
  | err _ => simp [itemKD] at hkd
  | limit => simp [itemKD] at hkd

end Apollo.Parse
