import ApolloModel.Proofs.ParserRecursion5
/-
C04 growth (recursion limit across runs), part 6: two runs of the same grammar function that differ only in
the recursion limit.  `Plain` computations (everything in parser/mod.rs except the recursion guard) do not
look at the limit: run from states that differ only in `recLimit` they produce results that differ only in
`recLimit`; they leave the high-water mark alone, only add errors, and keep the invariant `GI`.
-/
set_option linter.unusedSimpArgs false
set_option linter.unusedVariables false
namespace Apollo.Parse
open Apollo.Rowan hiding Str
open Apollo.Lex hiding Str

def setL (L : Nat) (s : PState) : PState := { s with recLimit := L }

def Res.mapS {α : Type} (f : PState → PState) : Res α → Res α
  | .ok a s => .ok a (f s)
  | .abort w => .abort w
  | .panic m => .panic m

/-- what the guard sites rely on: no token limit; once errors are no longer accepted a limit error is on
    record; after the lexer has finished (it has handed out the EOF token) no other token can be current -/
structure GI (s : PState) : Prop where
  lim : s.lx.limit = none
  acc : s.acceptErrors = false → HasLim s.errors
  nf : s.lx.finished = true → ∀ t, s.current = some t → t.kind = .eof

theorem gi_setL {s : PState} (h : GI s) (L : Nat) : GI (setL L s) := ⟨h.lim, h.acc, h.nf⟩
theorem gi_ofSetL {s : PState} {L : Nat} (h : GI (setL L s)) : GI s := ⟨h.lim, h.acc, h.nf⟩

structure PlainOut (s s' : PState) : Prop where
  recHigh : s'.recHigh = s.recHigh
  recCur : s'.recCur = s.recCur
  recLimit : s'.recLimit = s.recLimit
  lim : HasLim s.errors → HasLim s'.errors
  gi : GI s → GI s'

theorem PlainOut.refl (s : PState) : PlainOut s s := ⟨rfl, rfl, rfl, fun h => h, fun h => h⟩

theorem PlainOut.trans {a b c : PState} (h1 : PlainOut a b) (h2 : PlainOut b c) : PlainOut a c :=
  ⟨h2.recHigh.trans h1.recHigh, h2.recCur.trans h1.recCur, h2.recLimit.trans h1.recLimit,
   fun h => h2.lim (h1.lim h), fun h => h2.gi (h1.gi h)⟩

structure Plain {α : Type} (m : PI α) : Prop where
  blind : ∀ s L, m.run (setL L s) = Res.mapS (setL L) (m.run s)
  out : ∀ s a s', m.run s = .ok a s' → PlainOut s s'

theorem plain_pure {α : Type} (a : α) : Plain (pure a : PI α) :=
  ⟨fun s L => rfl, fun s a' s' h => by rw [run_pure] at h; injection h with _ h; subst h; exact PlainOut.refl s⟩

theorem plain_bind {α β : Type} (m : PI α) (f : α → PI β) (hm : Plain m) (hf : ∀ a, Plain (f a)) : Plain (m >>= f) := by
  refine ⟨?_, ?_⟩
  · intro s L
    rw [run_bind, run_bind, hm.blind s L]
    cases hr : m.run s with
    | ok a s' => simp only [Res.mapS]; exact (hf a).blind s' L
    | abort w => rfl
    | panic msg => rfl
  · intro s b s'' h
    obtain ⟨a, s', h1, h2⟩ := bind_dec m f s s'' b h
    exact (hm.out s a s' h1).trans ((hf a).out s' b s'' h2)

theorem plain_outOfFuel {α : Type} : Plain (PI.outOfFuel : PI α) :=
  ⟨fun s L => rfl, fun s a s' h => by simp [PI.outOfFuel] at h⟩

theorem plain_stuck {α : Type} : Plain (PI.stuck : PI α) :=
  ⟨fun s L => rfl, fun s a s' h => by simp [PI.stuck] at h⟩

/-! ### the lexer side -/

theorem nextTokenRaw_setL (L : Nat) : ∀ (fuel : Nat) (s : PState),
    nextTokenRaw fuel (setL L s) = ((nextTokenRaw fuel s).1, setL L (nextTokenRaw fuel s).2)
  | 0, s => rfl
  | fuel + 1, s => by
    unfold nextTokenRaw
    have hlx : (setL L s).lx = s.lx := rfl
    rw [hlx]
    cases hl : lexNext s.lx with
    | mk o l' =>
      cases o with
      | none => rfl
      | some x =>
        cases x with
        | tok t => rfl
        | err d i =>
          simp only []
          exact nextTokenRaw_setL L fuel { s with
            lx := l', pending := if d.isEmpty then s.pending else s.pending ++ [.error d],
            errors := s.errors ++ [⟨i, utf8Len d, .lexer⟩] }
        | limit i =>
          simp only []
          exact nextTokenRaw_setL L fuel { s with lx := l', acceptErrors := false, errors := s.errors ++ [⟨i, 0, .limit⟩] }

theorem nextTokenRaw_fields : ∀ (fuel : Nat) (s : PState),
    (nextTokenRaw fuel s).2.recHigh = s.recHigh ∧ (nextTokenRaw fuel s).2.recCur = s.recCur ∧
    (nextTokenRaw fuel s).2.recLimit = s.recLimit ∧ (HasLim s.errors → HasLim (nextTokenRaw fuel s).2.errors)
  | 0, s => ⟨rfl, rfl, rfl, fun h => h⟩
  | fuel + 1, s => by
    unfold nextTokenRaw
    cases hl : lexNext s.lx with
    | mk o l' =>
      cases o with
      | none => exact ⟨rfl, rfl, rfl, fun h => h⟩
      | some x =>
        cases x with
        | tok t => exact ⟨rfl, rfl, rfl, fun h => h⟩
        | err d i =>
          obtain ⟨a, b, c, d'⟩ := nextTokenRaw_fields fuel { s with
            lx := l', pending := if d.isEmpty then s.pending else s.pending ++ [.error d],
            errors := s.errors ++ [⟨i, utf8Len d, .lexer⟩] }
          exact ⟨a, b, c, fun h => d' ((hasLim_append _ _).mpr (Or.inl h))⟩
        | limit i =>
          obtain ⟨a, b, c, d'⟩ := nextTokenRaw_fields fuel { s with lx := l', acceptErrors := false, errors := s.errors ++ [⟨i, 0, .limit⟩] }
          exact ⟨a, b, c, fun h => d' ((hasLim_append _ _).mpr (Or.inl h))⟩

/-- after the lexer has finished, the token it just handed out (if any) is the EOF token -/
theorem nextTokenRaw_nf : ∀ (fuel : Nat) (s : PState), s.lx.limit = none →
    (nextTokenRaw fuel s).2.lx.finished = true → ∀ t, (nextTokenRaw fuel s).1 = some t → t.kind = .eof
  | 0, s, _ => by intro _ t h; simp [nextTokenRaw] at h
  | fuel + 1, s, hl => by
    unfold nextTokenRaw
    rcases lexNext_cases s.lx hl with ⟨_, h⟩ | ⟨_, _, l', h, _, hl', _⟩ | ⟨_, o, l', h, _, hf', hl', hne⟩
    · simp only [h]; intro _ t ht; cases ht
    · simp only [h]; intro _ t ht; injection ht with ht; subst ht; rfl
    · simp only [h]
      cases o with
      | tok t => simp only []; intro hfin; rw [hf'] at hfin; cases hfin
      | err d i => exact nextTokenRaw_nf fuel _ hl'
      | limit i =>
        exfalso
        have : (lexNext s.lx).1 = some (.limit i) := by rw [h]
        unfold lexNext at this
        by_cases hf : s.lx.finished = true
        · simp [hf] at this
        · simp only [hf, Bool.false_eq_true, if_false, lexCheck_no_limit s.lx hl] at this
          cases hs : s.lx.src with
          | nil => simp [hs] at this
          | cons c rest =>
            simp only [hs] at this
            cases hr : (advance (c :: rest)).1 <;> simp [hr] at this

/-- an unfinished lexer hands out a token -/
theorem nextTokenRaw_some : ∀ (fuel : Nat) (s : PState), s.lx.limit = none → s.lx.finished = false →
    s.lx.src.length + 2 ≤ fuel → ∃ t, (nextTokenRaw fuel s).1 = some t
  | 0, s, _, _, hf => by omega
  | fuel + 1, s, hl, hnf, hf => by
    unfold nextTokenRaw
    rcases lexNext_cases s.lx hl with ⟨hfin, _⟩ | ⟨_, _, l', h, _, hl', _⟩ | ⟨_, o, l', h, hlen, hf', hl', hne⟩
    · rw [hnf] at hfin; cases hfin
    · simp only [h]; exact ⟨_, rfl⟩
    · simp only [h]
      cases o with
      | tok t => exact ⟨t, rfl⟩
      | err d i => exact nextTokenRaw_some fuel _ hl' hf' (by simp only []; omega)
      | limit i =>
        exfalso
        have : (lexNext s.lx).1 = some (.limit i) := by rw [h]
        unfold lexNext at this
        by_cases hf2 : s.lx.finished = true
        · simp [hf2] at this
        · simp only [hf2, Bool.false_eq_true, if_false, lexCheck_no_limit s.lx hl] at this
          cases hs : s.lx.src with
          | nil => simp [hs] at this
          | cons c rest =>
            simp only [hs] at this
            cases hr : (advance (c :: rest)).1 <;> simp [hr] at this

theorem plain_peekToken : Plain peekToken := by
  refine ⟨?_, ?_⟩
  · intro s L
    unfold peekToken
    simp only []
    have hc : (setL L s).current = s.current := rfl
    rw [hc]
    cases s.current with
    | some t => rfl
    | none =>
      simp only [Res.mapS]
      have := nextTokenRaw_setL L (s.lx.src.length + 3) s
      unfold nextToken
      have hlx : (setL L s).lx = s.lx := rfl
      rw [hlx, this]
      rfl
  · intro s o s' h
    unfold peekToken at h
    simp only [] at h
    cases hc : s.current with
    | some t =>
      simp only [hc, Res.ok.injEq] at h
      obtain ⟨_, rfl⟩ := h
      exact PlainOut.refl s
    | none =>
      simp only [hc, Res.ok.injEq] at h
      obtain ⟨_, rfl⟩ := h
      obtain ⟨a, b, c, d⟩ := nextTokenRaw_fields (s.lx.src.length + 3) s
      refine ⟨a, b, c, d, ?_⟩
      intro g
      have ob := nextTokenRaw_obs (s.lx.src.length + 3) s g.lim
      refine ⟨ob.limit, ?_, ?_⟩
      · intro ha
        have ha' : s.acceptErrors = false := by
          have := ob.accept
          simp only [] at ha
          change (nextTokenRaw _ s).2.acceptErrors = false at ha
          rw [this] at ha; exact ha
        exact d (g.acc ha')
      · intro hfin t ht
        simp only [] at ht
        exact nextTokenRaw_nf (s.lx.src.length + 3) s g.lim hfin t ht

theorem plain_peek : Plain peek := plain_bind _ _ plain_peekToken (fun _ => plain_pure _)

end Apollo.Parse
