import ApolloModel.Proofs.ParserExactC30
/-
C05 growth (completeness at the exact budget), part 31: `schema` definition and extension accept every `LooseDef.schema`
/ `.schemaExt` within `looseFitXX` — `looseFit` where only the LAST root operation type may lack its named type
(`schema { query: }`, `extend schema @d { query: Q mutation: }`); kernel witnesses that this is exactly what the parser
accepts.
-/
set_option linter.unusedSimpArgs false
namespace Apollo.Parse.Exact
open Apollo.Rowan hiding Str
open Apollo.Lex hiding Str

/-- every root operation type but the last has its named type -/
def rootsLastOnly (roots : List (Ast.OpType × Option Ast.Str)) : Prop := ∀ r ∈ roots.dropLast, r.2 ≠ none

/-- **the exact guard of the schema productions**: `looseFit`, except that the LAST root operation type of a schema
    definition / extension may lack its named type (the recorded C05 finding).  Between `looseFit` and `looseFitX`. -/
def looseFitXX (b : Nat) : LooseDef → Prop
  | .schema _ ds roots => dirsFit true b ds ∧ roots ≠ [] ∧ rootsLastOnly roots
  | .schemaExt ds roots => (ds ≠ [] ∨ roots ≠ []) ∧ dirsFit true b ds ∧ rootsLastOnly roots
  | l => looseFit b l

theorem looseFitX_of_XX (b : Nat) (l : LooseDef) (h : looseFitXX b l) : looseFitX b l := by
  cases l <;> first
    | exact h
    | exact ⟨h.1, h.2.1⟩

theorem looseFitXX_of_looseFit (b : Nat) (l : LooseDef) (h : looseFit b l) : looseFitXX b l := by
  cases l <;> first
    | exact h
    | exact ⟨h.1, h.2.1, fun r hr => h.2.2 r (List.dropLast_subset _ hr)⟩

theorem roots_split (roots : List (Ast.OpType × Option Ast.Str)) (hne : roots ≠ []) (h : rootsLastOnly roots) :
    (∃ named : List (Ast.OpType × Ast.Str), named ≠ [] ∧ roots = named.map fun r => (r.1, some r.2)) ∨
    (∃ (pre : List (Ast.OpType × Ast.Str)) (op : Ast.OpType), roots = (pre.map fun r => (r.1, some r.2)) ++ [(op, none)]) := by
  obtain ⟨pre, hpre⟩ := strict_roots roots.dropLast h
  have hsplit : roots = roots.dropLast ++ [roots.getLast hne] := (List.dropLast_concat_getLast hne).symm
  cases hl : roots.getLast hne with
  | mk op o =>
    cases o with
    | none => exact Or.inr ⟨pre, op, by rw [← hpre, ← hl]; exact hsplit⟩
    | some nm =>
      refine Or.inl ⟨pre ++ [(op, nm)], by simp, ?_⟩
      rw [List.map_append, ← hpre]
      simpa [hl] using hsplit

theorem tRootOpItemsF_nameless (pre : List (Ast.OpType × Ast.Str)) (op : Ast.OpType) :
    tRootOpItemsF ((pre.map fun r => (r.1, some r.2)) ++ [(op, none)]) = Ast.tRootOpItems pre ++ [.name op.name.toList, .p .colon] := by
  have h := tRootOpItemsF_full pre
  unfold tRootOpItemsF at h ⊢
  rw [List.map_append, List.flatten_append, h]
  simp [tRootOpF]

/-- `{ RootOperationTypeDefinition+ }`, the last root possibly nameless -/
def LSBracesX (_ : Nat) (x : List Ast.Tok) : Prop :=
  ∃ roots : List (Ast.OpType × Option Ast.Str), roots ≠ [] ∧ rootsLastOnly roots ∧ x = .p .lCurly :: tRootOpItemsF roots ++ [.p .rCurly]

theorem lsBracesX_cases {b : Nat} {x : List Ast.Tok} (h : LSBracesX b x) :
    LSBraces b x ∨ ∃ (pre : List (Ast.OpType × Ast.Str)) (op : Ast.OpType),
      x = .p .lCurly :: (Ast.tRootOpItems pre ++ ([.name op.name.toList, .p .colon] ++ [.p .rCurly])) := by
  obtain ⟨roots, hne, hl, rfl⟩ := h
  rcases roots_split roots hne hl with ⟨named, hn, rfl⟩ | ⟨pre, op, rfl⟩
  · exact Or.inl ⟨named, hn, by rw [tRootOpItemsF_full]⟩
  · exact Or.inr ⟨pre, op, by rw [tRootOpItemsF_nameless]; simp [List.append_assoc]⟩

theorem cmp_sBracesX : Cmp (fun _ => True) sBraces LSBracesX (fun _ => True) (fun _ => True) := by
  intro s s' u c x q0 rest w hr hl hs ht hq hf hk
  rcases lsBracesX_cases hl with h | ⟨pre, op, rfl⟩
  · exact cmp_sBraces s s' u c x q0 rest w hr h hs ht hq hf hk
  · have hN : Cmp (fun _ => True) sBraces (fun _ x => ∃ (pre : List (Ast.OpType × Ast.Str)) (op : Ast.OpType),
        x = .p .lCurly :: (Ast.tRootOpItems pre ++ ([.name op.name.toList, .p .colon] ++ [.p .rCurly]))) (fun _ => True) (fun _ => True) := by
      unfold sBraces
      apply cmp_peek
      intro k _
      apply cmp_ite
      · intro _
        have := cmp_rootsBlockN (expect .rCurly "R_CURLY") (cmp_expect .rCurly "R_CURLY")
          (by rintro b x ⟨a, rfl, hk⟩; rw [kindOfA_rCurly hk]; exact ⟨[], rfl⟩)
        refine this.mono (fun _ _ => trivial) ?_ (fun _ h => h) (fun _ h => h)
        rintro b x ⟨pre, op, rfl⟩
        exact ⟨pre, op, [.p .rCurly], rfl, _, rfl, rfl⟩
      · intro hk
        apply cmp_absurd
        rintro b x cc q0 ⟨pre, op, rfl⟩ hs _ hkk
        obtain ⟨tk, tl, rfl, hta⟩ := spells_head hs
        simp only [headK] at hkk
        rw [kind_of_astOfV hta] at hkk
        simp [← hkk, kindOfA] at hk
    exact hN s s' u c _ q0 rest w hr ⟨pre, op, rfl⟩ hs ht hq hf hk

/-- the tokens of a schema definition within `looseFitXX` -/
def LSchemaX (b : Nat) (x : List Ast.Tok) : Prop :=
  ∃ (desc : Option Ast.Str) (ds : List Ast.Directive) (roots : List (Ast.OpType × Option Ast.Str)),
    x = (LooseDef.schema desc ds roots).toks ∧ looseFitXX b (.schema desc ds roots)

theorem cmp_schemaDefinitionX (n : Nat) :
    Cmp (fun _ => True) (schemaDefinition n) LSchemaX (fun _ => True) (fun _ => True) := by
  rw [schemaDefinition_eq]
  refine cmp_withNode _ ?_
  have h1 := cmp_optKind_ne (Hk := fun _ => True) (F := fun _ => True) .at (directives n true) sBraces (cmp_directivesNeB n true) cmp_sBracesX
    (fun b x h => ldirsNeB_head h)
    (by rintro b a x ⟨roots, _, _, e⟩; injection e with e _; subst e; exact ⟨by decide, by decide, by decide⟩)
    (by rintro b ⟨roots, _, _, e⟩; cases e) (fun _ h => h)
  have h2 := cmp_optKwSeen (Hk := fun _ => True) "schema" "schema_KW" _ h1
  have h3 := cmp_optDesc (Hk := fun _ => True) _ h2
    (by rintro b a x ⟨x2, e, _⟩; injection e with e _; subst e; simp [kindOfA])
    (by rintro b ⟨x2, e, _⟩; cases e)
  refine h3.mono (fun _ h => h) ?_ (fun _ h => h) (fun _ h => h)
  rintro b x ⟨desc, ds, roots, rfl, hd, hne, hl⟩
  exact ⟨desc, .name "schema".toList :: (Ast.tDirectives ds ++ (.p .lCurly :: tRootOpItemsF roots ++ [.p .rCurly])),
    (by show schemaToks desc true ds roots = _; unfold schemaToks; rw [kwPart_true]; simp only [List.append_assoc, List.cons_append, List.nil_append]), _, rfl, Ast.tDirectives ds, _, rfl,
    ldirsB_split true b ds hd, roots, hne, hl, rfl⟩

/-- **completeness of `schema_definition` for `looseFitXX`** (in the token-follow calculus) -/
theorem cmpT_schemaDefinitionX (n : Nat) :
    CmpT (fun _ => True) (schemaDefinition n) LSchemaX (fun _ => True) (fun _ => True) := (cmp_schemaDefinitionX n).toT

/-! ### schema extension -/

theorem cmp_schemaExtBracesX (meets : Bool) :
    Cmp (fun _ => True) (schemaExtBraces meets) (fun b x => LSBracesX b x ∨ (x = [] ∧ meets = true)) (fun k => k ≠ .lCurly) (fun _ => True) := by
  intro s s' a c x q0 rst w hrun hl hs ht hq hf hkh
  rcases hl with hl | hl
  · rcases lsBracesX_cases hl with h | ⟨pre, op, rfl⟩
    · exact cmp_schemaExtBraces meets s s' a c x q0 rst w hrun (Or.inl h) hs ht hq hf hkh
    · have hK : Cmp (fun _ => True) (expect .rCurly "R_CURLY" >>= fun _ => extEnd true) (fun _ x => x = [.p .rCurly]) (fun k => k ≠ .lCurly) (fun _ => True) := by
        have := cmp_bind (Hk := fun _ => True) (F := fun k => k ≠ Kind.lCurly) (F1 := fun _ => True) (cmp_expect .rCurly "R_CURLY")
          (fun _ _ => cmp_extEnd (Hk := fun _ => True) (F := fun k => k ≠ Kind.lCurly) true) (fun _ _ _ _ => trivial) (fun _ _ => trivial) (fun _ h => h)
        refine this.mono (fun _ h => h) ?_ (fun _ h => h) (fun _ h => h)
        rintro b x rfl
        exact ⟨[.p .rCurly], [], rfl, ⟨_, rfl, rfl⟩, rfl, rfl⟩
      have hN : Cmp (fun _ => True) (schemaExtBraces meets) (fun _ x => ∃ (pre : List (Ast.OpType × Ast.Str)) (op : Ast.OpType),
          x = .p .lCurly :: (Ast.tRootOpItems pre ++ ([.name op.name.toList, .p .colon] ++ [.p .rCurly]))) (fun k => k ≠ .lCurly) (fun _ => True) := by
        unfold schemaExtBraces
        apply cmp_peek
        intro k _
        apply cmp_ite
        · intro _
          have := cmp_rootsBlockN _ hK (by rintro b x rfl; exact ⟨[], rfl⟩)
          refine this.mono (fun _ _ => trivial) ?_ (fun _ h => h) (fun _ h => h)
          rintro b x ⟨pre, op, rfl⟩
          exact ⟨pre, op, [.p .rCurly], rfl, rfl⟩
        · intro hk
          apply cmp_absurd
          rintro b x cc q0 ⟨pre, op, rfl⟩ hs _ hkk
          obtain ⟨tk, tl, rfl, hta⟩ := spells_head hs
          simp only [headK] at hkk
          rw [kind_of_astOfV hta] at hkk
          simp [← hkk, kindOfA] at hk
      exact hN s s' a c _ q0 rst w hrun ⟨pre, op, rfl⟩ hs ht hq hf hkh
  · exact cmp_schemaExtBraces meets s s' a c x q0 rst w hrun (Or.inr hl) hs ht hq hf hkh

/-- the tokens of a schema extension within `looseFitXX` -/
def LSchemaExtX (b : Nat) (x : List Ast.Tok) : Prop :=
  ∃ (ds : List Ast.Directive) (roots : List (Ast.OpType × Option Ast.Str)),
    x = (LooseDef.schemaExt ds roots).toks ∧ looseFitXX b (.schemaExt ds roots)

/-- **completeness of `schema_extension` for `looseFitXX`**: the token after it must not continue it (`Fbody`: not `@`,
    `(`, `{`) -/
theorem cmpT_schemaExtensionX (n : Nat) :
    CmpT (fun _ => True) (schemaExtension n) LSchemaExtX (fun t => Fbody t.kind) (fun _ => True) := by
  rw [schemaExtension_eq]
  refine cmpT_withNode _ ?_
  have hd := cmp_extDirs (Hk := fun _ => True) (F := Fbody) n schemaExtBraces false
    (Ln := fun m b x => LSBracesX b x ∨ (x = [] ∧ m = true))
    (fun m => (cmp_schemaExtBracesX m).mono (fun _ h => h) (fun _ _ h => h) (fun k h => h.2.2) (fun _ h => h))
    (by rintro m b a x (⟨roots, _, _, e⟩ | ⟨h, _⟩)
        · injection e with e _
          subst e; exact ⟨by decide, by decide⟩
        · cases h)
    (fun k h => ⟨h.1, h.2.1⟩)
  refine (cmpT_ext (Hk := fun _ => True) "schema" _ _ _ hd.toT).mono (fun _ h => h) ?_ (fun _ h => h) (fun _ h => h)
  rintro b x ⟨ds, roots, rfl, hne, hdf, hl⟩
  refine ⟨Ast.tDirectives ds ++ Ast.tBraced (tRootOpItemsF roots) roots.isEmpty,
    by simp [LooseDef.toks, List.append_assoc], ds, _, rfl, hdf, ?_⟩
  by_cases hr : roots = []
  · subst hr
    refine Or.inr ⟨rfl, ?_⟩
    rcases hne with h | h
    · cases ds with
      | nil => exact absurd rfl h
      | cons _ _ => rfl
    · exact absurd rfl h
  · refine Or.inl ⟨roots, hr, hl, ?_⟩
    have : roots.isEmpty = false := by cases roots with | nil => exact absurd rfl hr | cons _ _ => rfl
    rw [this]
    simp [Ast.tBraced]

/-! ### kernel witnesses: exactly the last root may be nameless -/

theorem schema_nameless_root_witnesses :
    (parse .document none 500 "schema { query: }".toList).errors = [] ∧
    (parse .document none 500 "schema { query: Q mutation: }".toList).errors = [] ∧
    (parse .document none 500 "extend schema @d { query: }".toList).errors = [] ∧
    (parse .document none 500 "extend schema { query: Q subscription: }".toList).errors = [] ∧
    (parse .document none 500 "schema { query: mutation }".toList).errors = [] ∧
    (parse .document none 500 "schema { query: mutation: M }".toList).errors ≠ [] ∧
    (parse .document none 500 "extend schema { query: subscription: S }".toList).errors ≠ [] ∧
    (parse .document none 500 "schema { query }".toList).errors ≠ [] := by decide +kernel

end Apollo.Parse.Exact
