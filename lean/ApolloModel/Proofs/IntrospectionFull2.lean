import ApolloModel.Proofs.IntrospectionFull
/-
C24: the executor does not look inside resolver objects — two families of resolver objects related by
a map that commutes with `resolve_field` give the same response.  With Proofs/IntrospectionFull.lean:
the whole response of the model is the whole response of the specification.
-/
set_option linter.unusedSimpArgs false
set_option linter.unusedVariables false
namespace Apollo.Introspection
open Apollo Apollo.Exec

section Functorial
variable {ι κ : Type} (h : ι → κ) (P : ι → Prop)
  (r1 : ι → String → AList Json → Option (RVg ι)) (r2 : κ → String → AList Json → Option (RVg κ))

/-- the two recursive calls agree on related values -/
def RecRel (rec1 : RecG ι) (rec2 : RecG κ) : Prop :=
  ∀ p ty rv fields st, AllObj P rv → rec2 p ty (mapRV h rv) fields st = rec1 p ty rv fields st

theorem completeItemsG_map (rec1 : RecG ι) (rec2 : RecG κ) (hrec : RecRel h P rec1 rec2)
    (path : Path) (ty inner : Ty) (fields : List Sel) :
    ∀ (items : List (RVg ι)) (i : Nat) (acc : List Json) (st : St), AllObjs P items →
      completeItemsG rec2 path ty inner fields (mapRVs h items) i acc st =
        completeItemsG rec1 path ty inner fields items i acc st := by
  intro items
  induction items with
  | nil => intro i acc st _; simp [mapRVs, completeItemsG]
  | cons item rest ih =>
    intro i acc st hall
    simp only [AllObjs] at hall
    have hitem := hrec (path ++ [.idx i]) inner item fields st hall.1
    cases item with
    | error => simp [mapRVs, mapRV, completeItemsG]
    | leaf j =>
      simp only [mapRVs, mapRV, completeItemsG] at hitem ⊢
      rw [hitem]
      cases hr : rec1 (path ++ [.idx i]) inner (.leaf j) fields st with
      | mk r st1 =>
        simp only []
        cases tryNullify inner r with
        | ok o => cases o <;> simp only [] <;> exact ih _ _ _ hall.2
        | error e => cases e <;> rfl
    | list xs =>
      simp only [mapRVs, mapRV, completeItemsG] at hitem ⊢
      rw [hitem]
      cases hr : rec1 (path ++ [.idx i]) inner (.list xs) fields st with
      | mk r st1 =>
        simp only []
        cases tryNullify inner r with
        | ok o => cases o <;> simp only [] <;> exact ih _ _ _ hall.2
        | error e => cases e <;> rfl
    | object t o =>
      simp only [mapRVs, mapRV, completeItemsG] at hitem ⊢
      rw [hitem]
      cases hr : rec1 (path ++ [.idx i]) inner (.object t o) fields st with
      | mk r st1 =>
        simp only []
        cases tryNullify inner r with
        | ok o => cases o <;> simp only [] <;> exact ih _ _ _ hall.2
        | error e => cases e <;> rfl
    | skip =>
      simp only [mapRVs, mapRV, completeItemsG] at hitem ⊢
      rw [hitem]
      cases hr : rec1 (path ++ [.idx i]) inner .skip fields st with
      | mk r st1 =>
        simp only []
        cases tryNullify inner r with
        | ok o => cases o <;> simp only [] <;> exact ih _ _ _ hall.2
        | error e => cases e <;> rfl

theorem completeListG_map (rec1 : RecG ι) (rec2 : RecG κ) (hrec : RecRel h P rec1 rec2)
    (path : Path) (ty : Ty) (fields : List Sel) (items : List (RVg ι)) (st : St) (hall : AllObjs P items) :
    completeListG rec2 path ty fields (mapRVs h items) st = completeListG rec1 path ty fields items st := by
  unfold completeListG
  cases ty.shape with
  | named n => rfl
  | list inner => exact completeItemsG_map h P rec1 rec2 hrec path ty inner fields items 0 [] st hall

variable (hmap : ∀ o f a, P o → (r1 o f a).map (mapRV h) = r2 (h o) f a)
  (hok : ∀ o f a rv, P o → r1 o f a = some rv → AllObj P rv)

include hmap hok in
theorem execFieldG_map (rec1 : RecG ι) (rec2 : RecG κ) (hrec : RecRel h P rec1 rec2) (env : Env) (path : Path)
    (objTy : String) (obj : ι) (hobj : P obj) (fdef : FieldDef) (fields : List Sel) (st : St) :
    execFieldG rec2 r2 env path objTy (h obj) fdef fields st = execFieldG rec1 r1 env path objTy obj fdef fields st := by
  unfold execFieldG
  cases fields with
  | nil => rfl
  | cons f0 rest =>
    simp only []
    cases hargs : coerceArgs env f0.fargs fdef.args [] with
    | none => rfl
    | some args =>
      simp only []
      by_cases hn : f0.fname = "__typename"
      · simp only [hn, if_true]
        have := hrec path fdef.ty (.leaf (.str objTy)) (f0 :: rest) st (by simp [AllObj])
        simp only [mapRV] at this
        rw [this]
      · simp only [hn, if_false]
        rw [← hmap obj f0.fname args hobj]
        cases hr : r1 obj f0.fname args with
        | none => rfl
        | some rv =>
          have hrv := hok obj f0.fname args rv hobj hr
          have := hrec path fdef.ty rv (f0 :: rest) st hrv
          cases rv with
          | error => simp [mapRV]
          | leaf j => simp only [Option.map, mapRV] at this ⊢; rw [this]
          | list xs => simp only [Option.map, mapRV] at this ⊢; rw [this]
          | object t o => simp only [Option.map, mapRV] at this ⊢; rw [this]
          | skip => simp only [Option.map, mapRV] at this ⊢; rw [this]

include hmap hok in
theorem execGroupsG_map (rec1 : RecG ι) (rec2 : RecG κ) (hrec : RecRel h P rec1 rec2) (env : Env) (path : Path)
    (objTy : String) (obj : ι) (hobj : P obj) :
    ∀ (groups : AList (List Sel)) (acc : AList Json) (st : St),
      execGroupsG rec2 r2 env path objTy (h obj) groups acc st = execGroupsG rec1 r1 env path objTy obj groups acc st := by
  intro groups
  induction groups with
  | nil => intro acc st; rfl
  | cons g rest ih =>
    intro acc st
    obtain ⟨key, fields⟩ := g
    cases fields with
    | nil => simp only [execGroupsG]; exact ih acc st
    | cons f0 more =>
      simp only [execGroupsG]
      cases env.schema.typeField? objTy f0.fname with
      | none => simp only []; exact ih acc st
      | some fdef =>
        simp only []
        rw [execFieldG_map h P r1 r2 hmap hok rec1 rec2 hrec env _ objTy obj hobj fdef (f0 :: more) st]
        cases execFieldG rec1 r1 env (path ++ [.key key]) objTy obj fdef (f0 :: more) st with
        | mk r st1 =>
          cases r with
          | error e => rfl
          | ok o => cases o <;> simp only [] <;> exact ih _ _

include hmap hok in
theorem execSelSetG_map (rec1 : RecG ι) (rec2 : RecG κ) (hrec : RecRel h P rec1 rec2) (env : Env) (path : Path)
    (objTy : String) (obj : ι) (hobj : P obj) (sels : List Sel) (st : St) :
    execSelSetG rec2 r2 env path objTy (h obj) sels st = execSelSetG rec1 r1 env path objTy obj sels st := by
  unfold execSelSetG
  cases collectFields env objTy env.cfuel sels [] [] with
  | none => rfl
  | some vg => exact execGroupsG_map h P r1 r2 hmap hok rec1 rec2 hrec env path objTy obj hobj vg.2 [] st

include hmap hok in
theorem completeValueG_map (env : Env) : ∀ n, RecRel h P (completeValueG r1 env n) (completeValueG r2 env n) := by
  intro n
  induction n with
  | zero => intro p ty rv fields st _; rfl
  | succ n ih =>
    intro p ty rv fields st hrv
    cases rv with
    | skip => simp [mapRV, completeValueG]
    | error => simp [mapRV, completeValueG]
    | leaf j => cases j <;> simp [mapRV, completeValueG]
    | list xs =>
      simp only [mapRV, completeValueG]
      exact completeListG_map h P _ _ ih p ty fields xs st hrv
    | object t o =>
      simp only [mapRV, completeValueG]
      cases ty.shape with
      | list inner => rfl
      | named tyName =>
        simp only []
        cases env.schema.kind? tyName with
        | none => rfl
        | some k =>
          have hsel := execSelSetG_map h P r1 r2 hmap hok _ _ ih env p t o hrv (subSelections fields) st
          cases k <;> simp only [] <;> first | rfl | (rw [hsel])

include hmap hok in
/-- related resolver objects give the same response -/
theorem executeG_map (fuel : Nat) (env : Env) (root : ι) (hroot : P root) (sels : List Sel) :
    executeG fuel r2 env (h root) sels = executeG fuel r1 env root sels := by
  unfold executeG
  rw [execSelSetG_map h P r1 r2 hmap hok _ _ (completeValueG_map h P r1 r2 hmap hok env fuel) env [] _ root hroot sels]

end Functorial
open Apollo.Spec.Introspection in
/-- THE WHOLE RESPONSE: for every schema whose type names are distinct and whose `@deprecated` is the
    built-in directive, every introspection query (any selection shape: aliases, fragments, arguments,
    variables, `@skip`/`@include`, `__typename`, concrete root fields next to `__schema` / `__type`),
    every fuel: `partial_execute` as modelled = the response §4.2 + §6 prescribe, with `defaultValue`
    read as "the literal as written". -/
theorem partialExecute_eq_spec (s : ISchema) (hu : typeNamesDistinct s = true) (hdep : deprecatedIsBuiltin s = true)
    (fuel cfuel : Nat) (frags : AList Frag) (vars : AList Json) (sels : List Sel) :
    partialExecute fuel cfuel s frags vars sels = specResponse asWritten fuel cfuel s frags vars sels := by
  unfold partialExecute specResponse
  exact (executeG_map toSpec (ObjOk s) (resolveI s) (specField asWritten s)
    (fun o f a ho => resolve_spec s hdep o ho f a) (fun o f a rv _ h => resolve_ok s hu o f a rv h)
    fuel _ .root trivial sels).symm

end Apollo.Introspection
