import ApolloModel.Proofs.ParserExactC7
/-
EXACT-BUDGET COPY of ParserComplete8 (namespace Apollo.Parse.Exact, exact `vdepth`).
C05 / C07 growth (completeness), part 8: the selection loop (spread vs inline fragment by `peek_n(2)`),
`selection`, `selection_set`, and the whole family by induction on the fuel.
-/
set_option linter.unusedSimpArgs false
namespace Apollo.Parse.Exact
open Apollo.Rowan hiding Str
open Apollo.Lex hiding Str

theorem spells_split0 {c : List Tok} {x1 x2 : List Ast.Tok} (h : Spells c (x1 ++ x2)) :
    ∃ c1 c2, c = c1 ++ c2 ∧ Spells c1 x1 ∧ Spells c2 x2 := by
  by_cases hx : x2 = []
  · subst hx
    exact ⟨c, [], by simp, by simpa using h, spells_nil⟩
  · exact spells_split h hx

theorem tSel_head (f : Ast.Sel) : ∃ a x', Ast.tSel f = a :: x' ∧ (kindOfA a = .name ∨ kindOfA a = .spread) := by
  cases f with
  | field al nm args dirs sels =>
    cases al with
    | none => exact ⟨.name nm, (Ast.tSel (.field none nm args dirs sels)).tail, by simp [Ast.tSel, List.append_assoc], Or.inl rfl⟩
    | some a => exact ⟨.name a, (Ast.tSel (.field (some a) nm args dirs sels)).tail, by simp [Ast.tSel, List.append_assoc], Or.inl rfl⟩
  | spread nm dirs => exact ⟨.p .spread, (Ast.tSel (.spread nm dirs)).tail, by simp [Ast.tSel], Or.inr rfl⟩
  | inline tc dirs sels =>
    cases tc with
    | none => exact ⟨.p .spread, (Ast.tSel (.inline none dirs sels)).tail, by simp [Ast.tSel, List.append_assoc], Or.inr rfl⟩
    | some t => exact ⟨.p .spread, (Ast.tSel (.inline (some t) dirs sels)).tail, by simp [Ast.tSel, List.append_assoc], Or.inr rfl⟩

/-- the first token after a selection: the head of the next selection or the follow token -/
theorem next_after (c2 : List Tok) (tl : Ast.Sels) (q0 : Tok) (rest : List Tok) (hs : Spells c2 (Ast.tSels tl)) (hq : Sigf q0)
    (hf : q0.kind = .rCurly ∨ q0.kind = .eof) :
    ∃ q1 r1, c2 ++ q0 :: rest = q1 :: r1 ∧ Sigf q1 ∧ Fsel q1.kind := by
  cases tl with
  | nil =>
    have := spells_nil_inv (by simpa [Ast.tSels] using hs)
    subst this
    exact ⟨q0, rest, rfl, hq, by rcases hf with h | h <;> simp [Fsel, h]⟩
  | cons f tl' =>
    obtain ⟨a, x', e, hk⟩ := tSel_head f
    rw [Ast.tSels, e] at hs
    obtain ⟨t, tl2, rfl, hta⟩ := spells_head (x := x' ++ Ast.tSels tl') (by simpa using hs)
    refine ⟨t, tl2 ++ q0 :: rest, rfl, sigf_of_astOfV hta, ?_⟩
    rw [kind_of_astOfV hta]
    rcases hk with h | h <;> simp [Fsel, h]

/-! ### one selection: the loop body, entered after `peek` -/

theorem selBody_comp (n : Nat) (ihf : FieldSComp n) (ihi : InlineComp n) (f : Ast.Sel) (sP sB : PState) (t : Tok)
    (tl1 : List Tok) (q1 : Tok) (r1 : List Tok) (cont set : Bool) (w : TW sP) (hcur : sP.current = some t)
    (hfit : fitSel f (sP.recLimit - sP.recCur)) (hs : Spells (t :: tl1) (Ast.tSel f))
    (ht : Toks sP = (t :: tl1) ++ q1 :: r1) (hq : Sigf q1) (hf : Fsel q1.kind)
    (h : (selBody n t.kind).run sP = .ok (cont, set) sB) :
    cont = true ∧ set = true ∧ Eat sP sB (t :: tl1) ∧ Toks sB = q1 :: r1 := by
  have hf2 : F2 q1.kind := f2_of_fsel hf
  have fin : ∀ (m : PI Unit) (sX : PState), (m >>= fun _ => (pure (true, true) : PI (Bool × Bool))).run sX = .ok (cont, set) sB →
      sX = sP → (∀ s2, m.run sP = .ok () s2 → Eat sP s2 (t :: tl1) ∧ Toks s2 = q1 :: r1) →
      cont = true ∧ set = true ∧ Eat sP sB (t :: tl1) ∧ Toks sB = q1 :: r1 := by
    intro m sX hm hX hcm
    subst hX
    obtain ⟨_, s2, h3, h4⟩ := bind_dec m _ _ sB (cont, set) hm
    rw [run_pure] at h4
    injection h4 with h4 h5
    injection h4 with h4a h4b
    subst h5
    obtain ⟨e, t2⟩ := hcm s2 h3
    exact ⟨h4a.symm, h4b.symm, e, t2⟩
  unfold selBody at h
  cases f with
  | field al nm args dirs sels =>
    have hk : t.kind = .name := by
      obtain ⟨a, x', e, _⟩ := tSel_head (.field al nm args dirs sels)
      have hka : kindOfA a = .name := by
        cases al <;> simp [Ast.tSel, List.append_assoc] at e <;> rw [← e.1] <;> rfl
      rw [e] at hs
      obtain ⟨t', tl', e', hta⟩ := spells_head hs
      injection e' with e' _
      subst e'
      rw [kind_of_astOfV hta, hka]
    simp only [hk, show (Kind.name == Kind.spread) = false from rfl, show (Kind.name == Kind.lCurly) = false from rfl,
      Bool.false_eq_true, if_false, beq_self_eq_true, if_true] at h
    refine fin (field n) sP h rfl ?_
    intro s2 h3
    obtain ⟨e, t2, _⟩ := ihf sP s2 () (t :: tl1) _ q1 r1 w h3 ⟨al, nm, args, dirs, sels, rfl, hfit⟩ hs ht hq hf trivial
    exact ⟨e, t2⟩
  | spread nm dirs =>
    rw [fitSel] at hfit
    have hx : Ast.tSel (.spread nm dirs) = .p .spread :: (.name nm :: Ast.tDirectives dirs) := by simp [Ast.tSel]
    have hs0 := hs
    rw [hx] at hs
    obtain ⟨t', i, c', e', hta, hi, hs'⟩ := spells_cons hs
    injection e' with e1 e2
    subst e1
    have hk : t.kind = .spread := kind_of_astOfV hta
    simp only [hk, beq_self_eq_true, if_true] at h
    obtain ⟨o, sQ, hq2, h2⟩ := bind_dec (peekTokenN 2) _ sP sB (cont, set) h
    obtain ⟨hsQ, ho⟩ := peekTokenN2_spec sP sQ o t (tl1 ++ q1 :: r1) w hcur (by simpa using ht) (sigf_of_astOfV hta) hq2
    obtain ⟨t2, hh, hor⟩ := sig_head_after i c' q1 r1 _ hi hs' hq
    have ho2 : o = some t2 := by rw [ho, e2]; simpa [List.append_assoc] using hh
    subst ho2
    rcases hor with ⟨h0, _⟩ | ⟨a2, x', e, hta2⟩
    · cases h0
    · injection e with e _
      subst e
      have hk2 : t2.kind = .name := kind_of_astOfV hta2
      have hd2 : t2.data = nm := data_of_astOfV_name hta2
      have hkw : kw "on" t2.data = false := by
        rw [hd2]; unfold kw
        simpa [Ast.sOn] using hfit.1
      simp only [hk2, beq_self_eq_true, hkw, Bool.not_false, Bool.and_self, if_true] at h2
      refine fin (fragmentSpread n) sQ h2 hsQ ?_
      intro s2 h3
      obtain ⟨e, t3, _⟩ := cmp_fragmentSpread n sP s2 () (t :: tl1) _ q1 r1 w h3 ⟨nm, dirs, rfl, hfit.1, hfit.2⟩ hs0 ht hq
        ⟨hf2.1, hf2.2.1⟩ trivial
      exact ⟨e, t3⟩
  | inline tc dirs sels =>
    have hfit0 := hfit
    rw [fitSel] at hfit
    obtain ⟨a2, x', hx, hka2⟩ : ∃ a2 x', Ast.tSel (.inline tc dirs sels) = .p .spread :: a2 :: x' ∧
        (a2 = .name Ast.sOn ∨ kindOfA a2 = .at ∨ kindOfA a2 = .lCurly) := by
      cases tc with
      | some tn => exact ⟨.name Ast.sOn, (Ast.tSel (.inline (some tn) dirs sels)).tail.tail, by simp [Ast.tSel, List.append_assoc], Or.inl rfl⟩
      | none =>
        cases dirs with
        | nil => exact ⟨.p .lCurly, (Ast.tSel (.inline none [] sels)).tail.tail, by simp [Ast.tSel, Ast.tDirectives], Or.inr (Or.inr rfl)⟩
        | cons d r => exact ⟨.p .at, (Ast.tSel (.inline none (d :: r) sels)).tail.tail, by simp [Ast.tSel, Ast.tDirectives, List.append_assoc], Or.inr (Or.inl rfl)⟩
    have hs0 := hs
    rw [hx] at hs
    obtain ⟨t', i, c', e', hta, hi, hs'⟩ := spells_cons hs
    injection e' with e1 e2
    subst e1
    have hk : t.kind = .spread := kind_of_astOfV hta
    simp only [hk, beq_self_eq_true, if_true] at h
    obtain ⟨o, sQ, hq2, h2⟩ := bind_dec (peekTokenN 2) _ sP sB (cont, set) h
    obtain ⟨hsQ, ho⟩ := peekTokenN2_spec sP sQ o t (tl1 ++ q1 :: r1) w hcur (by simpa using ht) (sigf_of_astOfV hta) hq2
    obtain ⟨t2, hh, hor⟩ := sig_head_after i c' q1 r1 _ hi hs' hq
    have ho2 : o = some t2 := by rw [ho, e2]; simpa [List.append_assoc] using hh
    subst ho2
    rcases hor with ⟨h0, _⟩ | ⟨a2', x'', e, hta2⟩
    · cases h0
    · injection e with e _
      subst e
      have hk2 := kind_of_astOfV hta2
      have c1 : (t2.kind == Kind.name && !kw "on" t2.data) = false := by
        rcases hka2 with h0 | h0 | h0
        · subst h0
          have hd2 : t2.data = Ast.sOn := data_of_astOfV_name hta2
          have : kw "on" t2.data = true := by rw [hd2]; unfold kw; simp [Ast.sOn]
          simp [this]
        · rw [hk2, h0]; rfl
        · rw [hk2, h0]; rfl
      have c2 : (t2.kind == Kind.at || t2.kind == Kind.name || t2.kind == Kind.lCurly) = true := by
        rcases hka2 with h0 | h0 | h0
        · subst h0; rw [hk2]; rfl
        · rw [hk2, h0]; rfl
        · rw [hk2, h0]; rfl
      simp only [c1, Bool.false_eq_true, if_false, c2, if_true] at h2
      refine fin (inlineFragment n) sQ h2 hsQ ?_
      intro s2 h3
      obtain ⟨e, t3, _⟩ := ihi sP s2 () (t :: tl1) _ q1 r1 w h3 ⟨tc, dirs, sels, rfl, hfit0⟩ hs0 ht hq trivial trivial
      exact ⟨e, t3⟩

/-! ### the selection loop -/

theorem selLoop_comp (n : Nat) (ihf : FieldSComp n) (ihi : InlineComp n) :
    ∀ (fuel : Nat) (ss : Ast.Sels) (flag : Bool) (s s' : PState) (r : Bool) (c : List Tok) (q0 : Tok) (rest : List Tok), TW s →
      (peekWhileFlagLoop (selBody n) fuel flag).run s = .ok r s' → fitSels ss (s.recLimit - s.recCur) →
      Spells c (Ast.tSels ss) → Toks s = c ++ q0 :: rest → Sigf q0 → (q0.kind = .rCurly ∨ q0.kind = .eof) →
      Eat s s' c ∧ Toks s' = q0 :: rest ∧ (ss = .nil → r = flag) ∧ (ss ≠ .nil → r = true) := by
  intro fuel
  induction fuel with
  | zero => intro ss flag s s' r c q0 rest _ h; simp [peekWhileFlagLoop, PI.outOfFuel] at h
  | succ fuel ih =>
    intro ss flag s s' r c q0 rest w h hfit hs ht hq hf
    unfold peekWhileFlagLoop at h
    obtain ⟨ko, sP, hp, h2⟩ := bind_dec peek _ s s' r h
    cases ss with
    | nil =>
      have := spells_nil_inv (by simpa [Ast.tSels] using hs)
      subst this
      obtain ⟨rfl, eP, htP, _⟩ := peek_head s sP ko q0 rest w (by simpa using ht) hp
      simp only [] at h2
      have h3 := getCurrent_dec _ sP s' r h2
      obtain ⟨cs, sB, hb, h4⟩ := bind_dec (selBody n q0.kind) _ sP s' r h3
      have hbody : cs = (false, false) ∧ sB = sP := by
        unfold selBody at hb
        rcases hf with hk | hk <;> rw [hk] at hb <;>
          simp only [show (Kind.rCurly == Kind.spread) = false from rfl, show (Kind.rCurly == Kind.lCurly) = false from rfl,
            show (Kind.rCurly == Kind.name) = false from rfl, show (Kind.eof == Kind.spread) = false from rfl,
            show (Kind.eof == Kind.lCurly) = false from rfl, show (Kind.eof == Kind.name) = false from rfl,
            Bool.false_eq_true, if_false] at hb <;>
          (rw [run_pure] at hb; injection hb with h1 h2; exact ⟨h1.symm, h2.symm⟩)
      obtain ⟨rfl, rfl⟩ := hbody
      simp only [Bool.false_eq_true, if_false, Bool.or_false] at h4
      rw [run_pure] at h4
      injection h4 with h4 h5
      subst h5
      exact ⟨eP, by simpa using htP, fun _ => h4.symm, fun h => absurd rfl h⟩
    | cons f tl =>
      rw [fitSels] at hfit
      rw [Ast.tSels] at hs
      obtain ⟨c1, c2, rfl, s1, s2⟩ := spells_split0 hs
      obtain ⟨a, x', e, _⟩ := tSel_head f
      obtain ⟨t, tl1, hc1, hta⟩ := spells_head (by rw [e] at s1; exact s1)
      subst hc1
      obtain ⟨q1, r1, hq1, hsq1, hfq1⟩ := next_after c2 tl q0 rest s2 hq hf
      have ht' : Toks s = (t :: tl1) ++ q1 :: r1 := by rw [ht, ← hq1]; simp
      obtain ⟨rfl, eP, htP, hcur⟩ := peek_head s sP ko t (tl1 ++ q1 :: r1) w (by simpa using ht') hp
      have hbP : sP.recLimit - sP.recCur = s.recLimit - s.recCur := by rw [eP.recLimit, eP.recCur]
      simp only [] at h2
      have h3 := getCurrent_dec _ sP s' r h2
      obtain ⟨cs, sB, hb, h4⟩ := bind_dec (selBody n t.kind) _ sP s' r h3
      obtain ⟨cont, st⟩ := cs
      obtain ⟨rfl, rfl, eB, tB⟩ := selBody_comp n ihf ihi f sP sB t tl1 q1 r1 cont st eP.w hcur (by rw [hbP]; exact hfit.1) s1
        (by rw [htP]; simp) hsq1 hfq1 hb
      simp only [if_true] at h4
      have h5 := getCurrent_dec _ sB s' r h4
      by_cases hsame : (sP.current == sB.current) = true
      · simp only [hsame, if_true] at h5
        exact absurd h5 (stuck_not_ok _ _ _)
      · simp only [hsame, Bool.false_eq_true, if_false] at h5
        have hbB : sB.recLimit - sB.recCur = s.recLimit - s.recCur := by rw [eB.recLimit, eB.recCur, hbP]
        obtain ⟨e2, t2, _, hr2⟩ := ih tl (flag || true) sB s' r c2 q0 rest eB.w h5 (by rw [hbB]; exact hfit.2) s2
          (by rw [tB, hq1]) hq hf
        refine ⟨(by simpa using (eP.trans eB).trans e2), t2, (fun h => (by cases h)), fun _ => ?_⟩
        by_cases htl : tl = .nil
        · subst htl
          have := (ih Ast.Sels.nil (flag || true) sB s' r c2 q0 rest eB.w h5 (by rw [hbB]; exact hfit.2) s2 (by rw [tB, hq1]) hq hf).2.2.1 rfl
          simpa using this
        · exact hr2 htl

/-! ### `selection` and `selection_set` -/

theorem sels_comp_step (n : Nat) (ihf : FieldSComp n) (ihi : InlineComp n) : SelsComp (n + 1) := by
  unfold SelsComp
  rw [selection_succ]
  intro s s' u c x q0 rest w hr hl hs ht hq hf _
  obtain ⟨ss, hne, rfl, hfit⟩ := hl
  obtain ⟨len, h1⟩ := srcLen_dec _ s s' () hr
  obtain ⟨b, s1, h2, h3⟩ := bind_dec _ _ s s' () h1
  obtain ⟨e, t1, _, hb⟩ := selLoop_comp n ihf ihi _ ss false s s1 b c q0 rest w h2 hfit hs ht hq hf
  have := hb hne
  subst this
  simp only [Bool.not_true, Bool.false_eq_true, if_false] at h3
  rw [run_pure] at h3
  injection h3 with _ h3
  subst h3
  exact ⟨e, t1, trivial⟩

theorem selSetBody_eq (n : Nat) : selSetBody n =
    (bump "L_CURLY" >>= fun _ => withRec (limitErr >>= fun _ => pure false) (selection n >>= fun _ => pure true) >>= fun ok =>
      if ok then expect .rCurly "R_CURLY" else pure ()) := rfl

theorem selSet_comp_step (n : Nat) (ihs : SelsComp n) : SetComp (n + 1) := by
  unfold SetComp
  rw [selectionSet_succ]
  have hin : Cmp (fun _ => True) (selection n >>= fun _ => (pure true : PI Bool))
      (fun b x => ∃ x1 x2, x = x1 ++ x2 ∧ LSels b x1 ∧ x2 = []) (fun k => k = .rCurly) (fun a => a = true) :=
    cmp_bind (Hk := fun _ => True) ihs (fun _ _ => cmp_pure _ _ true)
      (by intro b a x2 h; cases h) (fun k h => Or.inl h) (fun k h => h)
  have hrec : Cmp (fun _ => True) (withRec (limitErr >>= fun _ => pure false) (selection n >>= fun _ => (pure true : PI Bool)))
      (fun b x => 1 ≤ b ∧ LSels (b - 1) x) (fun k => k = .rCurly) (fun a => a = true) :=
    cmp_withRec _ _ hin (by rintro b x ⟨h1, h2⟩; exact ⟨h1, x, [], by simp, h2, rfl⟩)
  have hclose : ∀ a : Bool, a = true → Cmp (fun _ => True) (if a then expect .rCurly "R_CURLY" else pure ())
      (fun _ x => ∃ a, x = [a] ∧ kindOfA a = .rCurly) (fun _ => True) (fun _ => True) := by
    intro a ha
    subst ha
    simpa using cmp_expect .rCurly "R_CURLY"
  have h2 := cmp_bind_ne (Hk := fun _ => True) (F := fun _ => True) hrec hclose
    (by rintro b a x2 ⟨a', e, hk⟩; injection e with e _; subst e; exact hk)
    (by rintro b ⟨a, e, _⟩; cases e) (fun _ h => h)
  have h1 := cmp_bind (Hk := fun _ => True) (F := fun _ => True) (F1 := fun _ => True) (cmp_bump "L_CURLY") (fun _ _ => h2)
    (fun _ _ _ _ => trivial) (fun _ _ => trivial) (fun _ h => h)
  apply cmp_peek
  intro k _
  apply cmp_ite
  · intro _
    refine cmp_withNode _ ?_
    rw [selSetBody_eq]
    refine h1.mono (fun _ _ => trivial) ?_ (fun _ h => h) (fun _ h => h)
    rintro b x ⟨ss, hne, rfl, hb1, hfit⟩
    exact ⟨[.p .lCurly], Ast.tSels ss ++ [.p .rCurly], by simp, ⟨_, rfl⟩, Ast.tSels ss, [.p .rCurly], rfl,
      ⟨hb1, ss, hne, rfl, hfit⟩, _, rfl, rfl⟩
  · intro hk
    apply cmp_absurd
    intro b x cc q0 hl hs _ hkk
    obtain ⟨x', rfl⟩ := lset_head hl
    obtain ⟨t, tl, rfl, hta⟩ := spells_head hs
    simp only [headK] at hkk
    rw [kind_of_astOfV hta] at hkk
    simp [← hkk, kindOfA] at hk

/-- completeness of the whole selection family, by induction on the fuel -/
theorem sel_all_comp : ∀ n, SetComp n ∧ SelsComp n ∧ FieldSComp n ∧ InlineComp n
  | 0 => ⟨by unfold SetComp selectionSet; exact cmp_outOfFuel, by unfold SelsComp selection; exact cmp_outOfFuel,
          by unfold FieldSComp field; exact cmp_outOfFuel, by unfold InlineComp inlineFragment; exact cmp_outOfFuel⟩
  | n + 1 => by
    obtain ⟨a, b, c, d⟩ := sel_all_comp n
    exact ⟨selSet_comp_step n b, sels_comp_step n c d, field_comp_step n a, inline_comp_step n a⟩

/-- **`selection_set` is complete**: `{ Selection+ }` within the budget, followed by anything -/
theorem selectionSet_complete (n : Nat) : Cmp (fun _ => True) (selectionSet n) LSet (fun _ => True) (fun _ => True) :=
  (sel_all_comp n).1

end Apollo.Parse.Exact
