import ApolloModel.Proofs.ParserTree5
/-
C08 growth (pipeline), part 6: ty.rs — an accepted type reference `t` is built as the tree `TyTree t`.
(ty.rs returns values (`Err(Some(token))` …) instead of reporting errors itself, so this induction is a manual
chase over the pieces of `tyParse`, each piece a fact of the tree calculus.)
-/
set_option linter.unusedSimpArgs false
set_option linter.unusedVariables false
namespace Apollo.Parse
open Apollo.Rowan hiding Str
open Apollo.Lex hiding Str
open Apollo.FromCst (TyTree)

/-! ### the list body cut into pieces -/

def tyClose : PI TyRes := expect .rBracket "R_BRACK" >>= fun _ => pure TyRes.ok

def tyAfter (inner : Option TyRes) : PI TyRes :=
  match inner with
  | none => pure TyRes.early
  | some res =>
    match res with
    | .errTok t => errAtToken t >>= fun _ => tyClose
    | _ => tyClose

def tyInner (n : Nat) : PI (Option TyRes) :=
  withRec (limitErr >>= fun _ => pure none) (tyParse n >>= fun r => pure (some r))

theorem tyListBody_eq (n : Nat) : tyListBody n = (bump "L_BRACK" >>= fun _ => tyInner n >>= tyAfter) := by
  unfold tyListBody tyInner
  congr 1

theorem good_tyClose : Good tyClose := good_bind _ _ (good_expect _ _) (fun _ => good_pure _)

theorem good_tyAfter (inner : Option TyRes) : Good (tyAfter inner) := by
  cases inner with
  | none => exact good_pure _
  | some res =>
    cases res <;> first
      | exact good_tyClose
      | exact good_bind _ _ (good_pushErr _) (fun _ => good_tyClose)

theorem good_tyInner (n : Nat) : Good (tyInner n) :=
  good_withRec _ _ (good_bind _ _ good_limitErr (fun _ => good_pure _)) (good_bind _ _ (good_tyParse n) (fun _ => good_pure _))

theorem tr_tyClose {E : PState → Prop} (hE : Early E) {H : List Tok → Prop} :
    Tr E H tyClose (fun r cs e => r = TyRes.ok ∧ ∃ t, t.kind = .rBracket ∧ cs = [t] ∧ e = [Elem.tok "R_BRACK" t.data]) := by
  refine (tr_bind hE (tr_expect .rBracket "R_BRACK" (by decide) rfl (by decide)) (fun _ => tr_pure E _ TyRes.ok)).mono
    (fun _ h => h) ?_
  rintro r cs e ⟨_, c1, c2, e1, e2, hc, he, ⟨t, hk, h1, h2⟩, hr, h3, h4⟩
  subst h1 h2 h3 h4
  exact ⟨hr, t, hk, by simpa using hc, by simpa using he⟩

/-! ### the goals -/

def TyGoalB (s s' : PState) : Prop :=
  TrRes NoE s s' (fun cs e => ∃ t e0, IsBase t ∧ TokIs cs (Ast.tTy t) ∧ e = [e0] ∧ TyTree t e0)

def TyGoal (s s' : PState) : Prop :=
  Settled s' ∧ TrRes NoE s s' (fun cs e => ∃ t e0, TokIs cs (Ast.tTy t) ∧ e = [e0] ∧ TyTree t e0)

def TyTr (n : Nat) : Prop :=
  ∀ s s' r, St s → (tyParse n).run s = .ok r s' → ¬ Doomed s' → (∃ tk, r = TyRes.errTok tk) ∨ (r = TyRes.ok ∧ TyGoal s s')

theorem doomed_rec (s : PState) (c : Nat) : Doomed { s with recCur := c } ↔ Doomed s := Iff.rfl

/-- `[` Type `]` -/
theorem listBranch_tr (n : Nat) (ih : TyTr n) (s s' : PState) (r : TyRes) (t : Tok) (rest : List Tok) (st : St s)
    (ht : Toks s = t :: rest) (hk : t.kind = .lBracket)
    (h : (withNode "LIST_TYPE" (tyListBody n)).run s = .ok r s') (hnd : ¬ Doomed s') : r = .ok ∧ TyGoalB s s' := by
  have hni : isIgnoredKind t.kind = false := by rw [hk]; rfl
  have hne : t.kind ≠ .eof := by rw [hk]; decide
  obtain ⟨s0, s2, inner, o0, hi0, hp0, hr2, o2, hin, hout⟩ := withNode_tree "LIST_TYPE" (tyListBody n) s st.inv r s' h
  obtain ⟨_, s1, hs, h1⟩ := bind_dec skipIgnored _ s0 s2 r hr2
  have st0 : St s0 := st.obs o0 hi0
  have ht0 : Toks s0 = t :: rest := by rw [o0.toks]; exact ht
  have hpk := skipIgnored_sig s0 s1 st0.w t rest ht0 hni hs
  have p1 := peekToken_obs s0 s1 _ st0.w hpk
  have st1 : St s1 := ⟨p1.w, (run_inv_added peekToken s0 hi0 _ s1 hpk).1,
    eofEnd_eat st0.eof p1.eat (by intro x hx; cases hx), by rw [p1.toks]; exact st0.lq⟩
  have ht1 : Toks s1 = t :: rest := by rw [p1.toks]; exact ht0
  have hb1 : s1.builder = s0.builder := keeps_peekToken s0 _ s1 hpk
  have hnd2 : ¬ Doomed s2 := fun d => hnd (o2.doomed.mpr d)
  rw [tyListBody_eq] at h1
  obtain ⟨_, s3, h3, h4⟩ := bind_dec (bump "L_BRACK") _ s1 s2 r h1
  obtain ⟨inn, s4, h5, h6⟩ := bind_dec (tyInner n) _ s3 s2 r h4
  have a13 := good_bump "L_BRACK" s1 () s3 st1.w h3
  have a34 := good_tyInner n s3 inn s4 a13.w h5
  have hnd4 : ¬ Doomed s4 := fun d => hnd2 ((good_tyAfter inn s4 r s2 a34.w h6).doom d)
  have hnd3 : ¬ Doomed s3 := fun d => hnd4 (a34.doom d)
  -- `[`
  obtain ⟨st3, r3⟩ := St.step (tr_bump (E := NoE) "L_BRACK" (by decide) (fun t' => t' = t)
    (by rintro t' rfl; exact ⟨hni, hne⟩)) st1 ⟨t, by rw [ht1]; rfl, rfl⟩ h3 hnd3
  -- the nested type, under the recursion guard
  unfold tyInner at h5
  rcases withRec_decH _ _ s3 s4 inn h5 with ⟨_, hl⟩ | ⟨_, sr2, hrb, rfl⟩
  · exfalso
    obtain ⟨_, rl⟩ := St.step (tr_limitErr_then (E := NoE) (H := fun _ => True) (R := fun _ _ _ => False)
      (pure none : PI (Option TyRes)) (good_pure _)) (st3.recf s3.recCur _) trivial hl hnd4
    obtain ⟨_, _, _, _, _, _, f | f⟩ := rl <;> exact f
  · obtain ⟨res, sr2', hr1, hr2'⟩ := bind_dec (tyParse n) _ _ sr2 inn hrb
    rw [run_pure] at hr2'
    injection hr2' with hin' hs'
    subst hs' hin'
    have stR := st3.recf (s3.recCur + 1) (max s3.recHigh (s3.recCur + 1))
    have hndr : ¬ Doomed sr2' := hnd4
    rcases ih _ sr2' res stR hr1 hndr with ⟨tk, rfl⟩ | ⟨rfl, _, rt⟩
    · -- `Err(Some(token))`: the caller reports it
      exfalso
      have h6' : (errAtToken tk >>= fun _ => tyClose).run { sr2' with recCur := sr2'.recCur - 1 } = .ok r s2 := h6
      obtain ⟨_, s5, h7, h8⟩ := bind_dec (errAtToken tk) _ _ s2 r h6'
      obtain ⟨a5, d5⟩ := errAtToken_adv tk _ s5 a34.w h7
      exact hnd2 ((good_tyClose s5 r s2 a5.w h8).doom d5)
    · have h6' : tyClose.run { sr2' with recCur := sr2'.recCur - 1 } = .ok r s2 := h6
      -- the state after the guard
      have stR2 : St sr2' := by
        obtain ⟨c, d, t1, n1, e1, b1, _⟩ := rt
        exact ⟨(good_tyParse n _ _ sr2' stR.w hr1).w, (run_inv_added _ _ stR.inv _ sr2' hr1).1, e1,
          LQ.suffix (cs := c) (by rw [← t1]; exact stR.lq)⟩
      have st4 : St { sr2' with recCur := sr2'.recCur - 1 } := stR2.recf _ sr2'.recHigh
      have r4 : TrRes NoE s3 { sr2' with recCur := sr2'.recCur - 1 }
          (fun cs e => ∃ t e0, TokIs cs (Ast.tTy t) ∧ e = [e0] ∧ TyTree t e0) := by
        obtain ⟨c, d, t1, n1, e1, b1, r1⟩ := rt
        exact ⟨c, d, t1, n1, st4.eof, b1, r1⟩
      obtain ⟨st5, r5⟩ := St.step (tr_tyClose (E := NoE) early_false (H := fun _ => True)) st4 trivial h6' hnd2
      -- put the pieces together
      obtain ⟨cs, added, t1, n1, e1, b1, rr⟩ := (r3.seq r4).seq r5
      rcases rr with rr | f
      · obtain ⟨c12, c3, e12, e3, hcs, hes, ⟨c1, c2, e1', e2, hc12, he12, ⟨t', rfl, _, hc1, he1⟩, u, e0, hu, he2, htree⟩,
          hrok, t2, hk2, hc3, he3⟩ := rr
        subst hc1 he1 he2 hc3 he3 hc12 he12
        have hinner : inner = added := by
          rw [b1, hb1] at hin
          exact (List.append_cancel_left hin).symm
        subst hinner
        refine ⟨hrok, cs, s.pending.map pendingElem ++ [Elem.node "LIST_TYPE" inner], ?_, n1, eofEnd_obs e1 o2,
          by rw [hout, List.append_assoc], Or.inl ⟨.list u, Elem.node "LIST_TYPE" inner, Or.inr ⟨u, rfl⟩, ?_, ?_, ?_⟩⟩
        · rw [← o0.toks, ← p1.toks, t1, o2.toks]
        · rw [hcs]
          have h1 : TokIs [t'] [Ast.Tok.p .lBracket] := TokIs.single t' _ (by simp [astOfV, hk])
          have h2 : TokIs [t2] [Ast.Tok.p .rBracket] := TokIs.single t2 _ (by simp [astOfV, hk2])
          have := (h1.append hu).append h2
          simpa [Ast.tTy, List.append_assoc] using this
        · rw [sigE_append, sigE_pending, sigE_node]; rfl
        · exact TyTree.list u inner e0 t'.data t2.data htree (by rw [hes]; rfl)
      · exact absurd f id

/-- the part of ty.rs in front of the `!` check -/
theorem tyBody_tr (n : Nat) (ih : TyTr n) (s s' : PState) (r : TyRes) (st : St s)
    (h : (tyBody n).run s = .ok r s') (hnd : ¬ Doomed s') :
    (∃ tk, r = TyRes.errTok tk) ∨ (r = TyRes.ok ∧ TyGoalB s s') := by
  unfold tyBody at h
  obtain ⟨k, sP, hp, h2⟩ := bind_dec peek _ s s' r h
  obtain ⟨o, p, hk⟩ := peek_obs s sP k st.w hp
  subst hk
  have stP : St sP := ⟨p.w, (run_inv_added peek s st.inv _ sP hp).1, p.eofEnd st.eof, by rw [p.toks]; exact st.lq⟩
  have hbP : sP.builder = s.builder := keeps_peek s _ sP hp
  have back : TyGoalB sP s' → TyGoalB s s' := by
    rintro ⟨c, d, t1, n1, e1, b1, r1⟩
    exact ⟨c, d, by rw [← p.toks]; exact t1, n1, e1, by rw [b1, hbP], r1⟩
  cases o with
  | none =>
    exfalso
    simp only [Option.map_none] at h2
    rw [run_pure] at h2
    injection h2 with _ h2
    subst h2
    have hh := p.head
    have : Toks s = [] := by
      cases ht : Toks s with
      | nil => rfl
      | cons a b => rw [ht] at hh; cases hh
    exact eofEnd_nonempty s st.eof (fun d => hnd (p.doom.mpr d)) this
  | some t =>
    have htP : Toks sP = t :: (Toks sP).tail := p.head_cons
    simp only [Option.map_some] at h2
    by_cases hkl : t.kind = .lBracket
    · simp only [hkl] at h2
      obtain ⟨hr, g⟩ := listBranch_tr n ih sP s' r t _ stP htP hkl h2 hnd
      exact Or.inr ⟨hr, back g⟩
    · by_cases hkn : t.kind = .name
      · simp only [hkn] at h2
        obtain ⟨_, c, d, t1, n1, e1, b1, r1⟩ := St.step (tr_tyName (E := NoE) early_false) stP
          ⟨t, by rw [htP]; rfl, by simp [hkn]⟩ h2 hnd
        rcases r1 with ⟨hr, t', e0, hk', hcs, he, htree⟩ | f
        · refine Or.inr ⟨hr, back ⟨c, d, t1, n1, e1, b1, Or.inl ⟨.named t'.data, e0, Or.inl ⟨_, rfl⟩, ?_, he, htree⟩⟩⟩
          rw [hcs]
          exact TokIs.single t' _ (by simp [astOfV, hk'])
        · exact absurd f id
      · refine Or.inl ⟨t, ?_⟩
        have hcur : sP.current = some t := p.current
        cases hk : t.kind <;>
          first
            | exact absurd hk hkl
            | exact absurd hk hkn
            | (simp only [hk] at h2; exact otherBranch_sound sP s' r t hcur p.w h2)


theorem keeps_tyCond (r : TyRes) : Keeps (tyCond r) := by
  cases r <;> first
    | exact keeps_pure _
    | exact keeps_bind _ _ keeps_skipIgnored (fun _ => keeps_bind _ _ keeps_peek (fun _ => keeps_pure _))

theorem sigE_of_nil {a b : List Elem} (h : sigE a = []) : sigE (a ++ b) = sigE b := by rw [sigE_append, h]; rfl

/-- **ty.rs**: an error-free, successful run of `ty.rs::parse` consumed the tokens `tTy t` of ONE type reference and
    appended (after junk) exactly one element, the tree `TyTree t` -/
theorem tyParse_tr : ∀ (n : Nat), TyTr n
  | 0 => by intro s s' r _ h; simp [tyParse, PI.outOfFuel] at h
  | n + 1 => by
    intro s s' r st h hnd
    rw [tyParse_succ] at h
    obtain ⟨r0, sW, hw, h2⟩ := bind_dec _ _ s s' r h
    have gW : Good (wrapIf "NON_NULL_TYPE" (tyBody n) tyCond (eat "BANG")) :=
      good_wrapIf _ _ _ _ (good_tyBody n (good_tyParse n)) good_tyCond (good_eat _)
    have aW := gW s r0 sW st.w hw
    obtain ⟨s1, s2, s3, c, o1, hi1, hp1, hc1, hb, hc, hrest⟩ := wrapIf_tree _ _ _ _ s sW r0 st.inv hw
    have st1 : St s1 := st.obs o1 hi1
    have w1 := st1.w
    have he1 := st1.eof
    have a2 := good_tyBody n (good_tyParse n) s1 r0 s2 w1 hb
    have a3 := good_tyCond r0 s2 c s3 a2.w hc
    have hk3 : s3.builder = s2.builder := keeps_tyCond r0 s2 c s3 hc
    cases r0 with
    | errTok tk =>
      simp only [] at h2
      rw [run_pure] at h2
      injection h2 with h2 _
      exact Or.inl ⟨tk, h2.symm⟩
    | errNone =>
      exfalso
      simp only [] at h2
      rw [run_pure] at h2
      injection h2 with _ h3
      subst h3
      have hc' : (pure false : PI Bool).run s2 = .ok c s3 := hc
      rw [run_pure] at hc'
      injection hc' with hc1' hc2
      subst hc1' hc2
      rcases hrest with ⟨_, rfl⟩ | ⟨hx, _⟩
      · rcases tyBody_sound n (tyParse_sound n) s1 _ _ w1 he1 hb hnd with ⟨tk, hx⟩ | ⟨hx, _⟩ <;> cases hx
      · cases hx
    | early =>
      exfalso
      simp only [] at h2
      rw [run_pure] at h2
      injection h2 with _ h3
      subst h3
      have hc' : (pure false : PI Bool).run s2 = .ok c s3 := hc
      rw [run_pure] at hc'
      injection hc' with hc1' hc2
      subst hc1' hc2
      rcases hrest with ⟨_, rfl⟩ | ⟨hx, _⟩
      · rcases tyBody_sound n (tyParse_sound n) s1 _ _ w1 he1 hb hnd with ⟨tk, hx⟩ | ⟨hx, _⟩ <;> cases hx
      · cases hx
    | ok =>
      simp only [] at h2
      obtain ⟨_, sF, hf, h3⟩ := bind_dec skipIgnored _ sW s' r h2
      rw [run_pure] at h3
      injection h3 with h3 h4
      subst h4
      refine Or.inr ⟨h3.symm, ?_⟩
      obtain ⟨ignB, eB, hallB, hsetB⟩ := skipIgnored_spec sW sF aW.w hf
      have hbF : sF.builder = sW.builder := keeps_skipIgnored sW () sF hf
      have hndW : ¬ Doomed sW := fun d => hnd (eB.doom.mpr d)
      have hc' : (skipIgnored >>= fun _ => peek >>= fun k => (pure (k == some .bang) : PI Bool)).run s2 = .ok c s3 := hc
      obtain ⟨_, sA, hsA, hc2⟩ := bind_dec skipIgnored _ s2 s3 c hc'
      obtain ⟨ignA, eA, hallA, _⟩ := skipIgnored_spec s2 sA a2.w hsA
      obtain ⟨kk, sP, hpk, hc3⟩ := bind_dec peek _ sA s3 c hc2
      rw [run_pure] at hc3
      injection hc3 with hc3 hc4
      subst hc4
      obtain ⟨o, p, hkk⟩ := peek_obs sA sP kk eA.w hpk
      have e23 : Eat s2 sP ignA := by simpa using eA.trans p.eat
      rcases hrest with ⟨hcf, rfl⟩ | ⟨hct, s4, s5, abc, a3', o4, hi4, hp4, habc, hc4, hi, ha3, o5, hout⟩
      · -- no `!`
        have hnd2 : ¬ Doomed s2 := fun d => hndW (e23.doom.mpr d)
        rcases tyBody_tr n (tyParse_tr n) s1 s2 _ st1 hb hnd2 with ⟨tk, hx⟩ | ⟨_, c0, d0, t0, n0, e0, b0, r0⟩
        · cases hx
        · have etail : Eat s2 sF (ignA ++ ignB) := e23.trans eB
          have hnoT : NoEof (ignA ++ ignB) := noEof_append (noEof_ignored _ hallA) (noEof_ignored _ hallB)
          refine ⟨hsetB, c0 ++ (ignA ++ ignB), s.pending.map pendingElem ++ d0, ?_, noEof_append n0 hnoT,
            eofEnd_eat e0 etail hnoT, ?_, ?_⟩
          · rw [← o1.toks, t0, etail.toks]; simp [List.append_assoc]
          · rw [hbF, hk3, b0, hc1, List.append_assoc]
          · rcases r0 with ⟨u, e0', _, hu, he, htree⟩ | f
            · left
              refine ⟨u, e0', ?_, ?_, htree⟩
              · rw [sig_append, sig_append, sig_ignored _ hallA, sig_ignored _ hallB]; simpa using hu
              · rw [sigE_append, sigE_pending]; simpa using he
            · exact absurd f id
      · -- `!`: wrap into NON_NULL_TYPE
        have hbang : ∃ tb, o = some tb ∧ tb.kind = .bang := by
          rw [hkk] at hc3
          cases o with
          | none => rw [hct] at hc3; simp at hc3
          | some tb => rw [hct] at hc3; exact ⟨tb, rfl, by simpa using hc3.symm⟩
        obtain ⟨tb, rfl, hkb⟩ := hbang
        have w4 : TW s4 := o4.w p.w
        have ht4 : Toks s4 = tb :: (Toks s4).tail := by
          have hh := p.head
          rw [← p.toks, ← o4.toks] at hh
          cases hq : Toks s4 with
          | nil => rw [hq] at hh; cases hh
          | cons a b => rw [hq] at hh; injection hh with hh; subst hh; rfl
        have e45 : Eat s4 s5 [tb] := by
          rcases eat_spec "BANG" s4 s5 w4 hi with ⟨t', rest', hq, e5, _⟩ | ⟨hq, _⟩
          · rw [ht4] at hq; injection hq with hq _; subst hq; exact e5
          · rw [ht4] at hq; cases hq
        obtain ⟨junk', hj', hc5⟩ := eat_children "BANG" s4 s5 w4 tb _ ht4 hi
        have e2F : Eat s2 sF (ignA ++ [tb] ++ ignB) := by
          have := (((e23.trans (Eat.ofObsEq o4 p.w)).trans e45).trans (Eat.ofObsEq o5 e45.w)).trans eB
          simpa using this
        have hnd2 : ¬ Doomed s2 := fun d => hnd (e2F.doom.mpr d)
        rcases tyBody_tr n (tyParse_tr n) s1 s2 _ st1 hb hnd2 with ⟨tk, hx⟩ | ⟨_, c0, d0, t0, n0, e0, b0, r0⟩
        · cases hx
        · have hnb : NoEof [tb] := by intro x hx; simp at hx; subst hx; rw [hkb]; decide
          have hnoT : NoEof (ignA ++ [tb] ++ ignB) :=
            noEof_append (noEof_append (noEof_ignored _ hallA) hnb) (noEof_ignored _ hallB)
          -- the children of the new node
          have habc' : abc = d0 := by
            rw [hk3, b0] at habc
            exact (List.append_cancel_left habc).symm
          have ha3' : a3' = junk' ++ [Elem.tok "BANG" tb.data] := by
            rw [hc5, List.append_assoc] at ha3
            exact (List.append_cancel_left ha3).symm
          subst habc' ha3'
          refine ⟨hsetB, c0 ++ (ignA ++ [tb] ++ ignB),
            s.pending.map pendingElem ++ [Elem.node "NON_NULL_TYPE" (abc ++ (junk' ++ [Elem.tok "BANG" tb.data]))], ?_,
            noEof_append n0 hnoT, eofEnd_eat e0 e2F hnoT, ?_, ?_⟩
          · rw [← o1.toks, t0, e2F.toks]; simp [List.append_assoc]
          · rw [hbF, hout, hc1, List.append_assoc]
          · rcases r0 with ⟨u, e0', hbase, hu, he, htree⟩ | f
            · left
              have hsigc : sig (c0 ++ (ignA ++ [tb] ++ ignB)) = sig c0 ++ [tb] := by
                rw [sig_append, sig_append, sig_append, sig_ignored _ hallA, sig_ignored _ hallB,
                  sig_single tb (by rw [hkb]; rfl)]
                simp
              have hinner : sigE (abc ++ (junk' ++ [Elem.tok "BANG" tb.data])) = [e0', Elem.tok "BANG" tb.data] := by
                rw [sigE_append, he, sigE_append, hj', sigE_tok "BANG" tb.data (by decide)]; rfl
              have hb' : TokIs [tb] [Ast.Tok.p .bang] := TokIs.single tb _ (by simp [astOfV, hkb])
              rw [hsigc, sigE_append, sigE_pending, sigE_node]
              rcases hbase with ⟨nm, rfl⟩ | ⟨v, rfl⟩
              · refine ⟨.nonNullNamed nm, _, ?_, rfl, TyTree.nnNamed nm _ e0' tb.data htree hinner⟩
                have := hu.append hb'
                simpa [Ast.tTy] using this
              · refine ⟨.nonNullList v, _, ?_, rfl, TyTree.nnList v _ e0' tb.data htree hinner⟩
                have := hu.append hb'
                simpa [Ast.tTy, List.append_assoc] using this
            · exact absurd f id

end Apollo.Parse
