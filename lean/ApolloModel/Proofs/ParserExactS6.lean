import ApolloModel.Proofs.ParserExactS5
import ApolloModel.Proofs.ParserExactC16
/-
EXACT SOUNDNESS, part 6 (namespace Apollo.Parse.Exact): `field_set` and `Parser::parse_selection_set` with the recursion
budget, and `fieldset_accept_iff`.
-/
set_option linter.unusedSimpArgs false
namespace Apollo.Parse.Exact
open Apollo.Rowan hiding Str
open Apollo.Lex hiding Str

/-- the exact language of `field_set` under the budget `b`: a braced selection set (then the queue must START with the
    `{`), or a brace-less selection list (one level of the budget as well) -/
def FieldSetExact (b : Nat) (headCurly : Prop) (x : List Ast.Tok) : Prop :=
  (LSet b x ∧ headCurly) ∨ (1 ≤ b ∧ LSels (b - 1) x)

/-- a standalone entry point `grammar; expect_end_of_input`: if no error is left, the whole queue is what the
    grammar consumed followed by the EOF token -/
theorem standalone_sound_run (m : PI Unit) (gm : Good m) (P : List Ast.Tok → Prop)
    (s0 s : PState) (hm : ∀ s', TW s0 → EofEnd s0 → m.run s0 = .ok () s' → ¬ Doomed s' → Cons s0 s' P) (hi : Inv s0) (w : TW s0) (he : EofEnd s0)
    (h : (m >>= fun _ => expectEndOfInput).run s0 = .ok () s) (herr : s.errors = []) :
    ¬ Doomed s0 ∧ ∃ x ts e, sig (Toks s0) = ts ++ [e] ∧ e.kind = .eof ∧ TokIs ts x ∧ P x := by
  obtain ⟨_, s1, h1, h2⟩ := bind_dec m _ s0 s () h
  obtain ⟨hi1, hl1⟩ := PI.run_ok _ s0 hi _ s1 h1
  have a1 := gm s0 () s1 w h1
  have a2 := good_expectEndOfInput s1 () s a1.w h2
  have hex := expectEndOfInput_exhausted s1 s hi1 a1.w.limit h2 herr
  have hnd : ¬ Doomed s := by
    rintro (hd | hd)
    · exact hd herr
    · rw [hasErr_src_nil s.lx a2.w.limit hex.2] at hd; cases hd
  have hnd1 : ¬ Doomed s1 := fun d => hnd (a2.doom d)
  refine ⟨fun d => hnd1 (a1.doom d), ?_⟩
  obtain ⟨c, x, hc, hno, he1, hx, hp⟩ := hm s1 w he h1 hnd1
  unfold expectEndOfInput at h2
  obtain ⟨_, sK, hK, h4⟩ := bind_dec skipIgnored _ s1 s () h2
  obtain ⟨ign, eK, hall, hset⟩ := skipIgnored_spec s1 sK a1.w hK
  obtain ⟨k, sP, hP, h5⟩ := bind_dec peek _ sK s () h4
  obtain ⟨o, p, hk⟩ := peek_obs sK sP k eK.w hP
  have heK : EofEnd sK := eofEnd_eat he1 eK (noEof_ignored ign hall)
  have hndK : ¬ Doomed sK := by
    intro d
    have : Good (errUnlessEnd k) := by unfold errUnlessEnd; split; exact good_pure _; exact good_err
    exact hnd ((this sP () s p.w h5).doom (p.doom.mpr d))
  have hhead : ∃ e, Toks sK = [e] ∧ e.kind = .eof := by
    rcases heK with d | ⟨pre, e, hq, hek, hnoe⟩
    · exact absurd d hndK
    · cases o with
      | none =>
        exfalso
        have hh := p.head
        rw [hq] at hh
        cases pre <;> cases hh
      | some t' =>
        have hkind : t'.kind = .eof := by
          subst hk
          unfold errUnlessEnd at h5
          by_cases hke : t'.kind = .eof
          · exact hke
          · exfalso
            have : (some t'.kind == none || some t'.kind == some Kind.eof) = false := by simp [hke]
            simp only [Option.map_some, this, Bool.false_eq_true, if_false] at h5
            have hne : Toks sP ≠ [] := by rw [p.toks, hq]; simp
            exact hnd ((err_adv sP s p.w h5).2 hne)
        have hh := p.head
        rw [hq] at hh
        cases pre with
        | nil => exact ⟨e, hq, hek⟩
        | cons y pre =>
          exfalso
          simp only [List.cons_append, List.head?_cons, Option.some.injEq] at hh
          subst hh
          exact hnoe t' (by simp) hkind
  obtain ⟨e, hq, hek⟩ := hhead
  refine ⟨x, sig c, e, ?_, hek, hx, hp⟩
  rw [hc, eK.toks, hq, sig_append, sig_append, sig_ignored ign hall]
  have : sig [e] = [e] := sig_single e (by rw [hek]; rfl)
  rw [this]; simp

theorem fieldSet_sound (n : Nat) (s s' : PState) (w : TW s) (he : EofEnd s)
    (h : (fieldSet n).run s = .ok () s') (hnd : ¬ Doomed s') :
    Cons s s' (FieldSetExact (bud s) (∃ t rest, Toks s = t :: rest ∧ t.kind = .lCurly)) := by
  unfold fieldSet at h
  obtain ⟨sP, o, p, hor⟩ := ifPeek_dec .lCurly _ _ s s' () w h
  have heP := p.eofEnd he
  rcases hor with ⟨hk, h2⟩ | ⟨_, h2⟩
  · obtain ⟨t, rfl, hkt⟩ : ∃ t, o = some t ∧ t.kind = .lCurly := by
      cases o with
      | none => simp at hk
      | some t => exact ⟨t, rfl, by simpa using hk⟩
    have c := (sel_all_sound n).1 sP s' t _ p.w heP p.head_cons hkt h2 hnd
    exact (c.transport p.toks.symm rfl c.eofEnd).weaken (by
      intro x hx
      rw [bud_peek p] at hx
      exact Or.inl ⟨hx, t, _, by rw [← p.toks]; exact p.head_cons, hkt⟩)
  · obtain ⟨s0, s2, o0, hr, o2⟩ := withNode_dec _ _ sP s' () h2
    obtain ⟨_, s1, hs, hb⟩ := bind_dec skipIgnored _ s0 s2 () hr
    obtain ⟨ign, e, hall, _⟩ := skipIgnored_spec s0 s1 (o0.w p.w) hs
    have e01 : Eat sP s1 ign := by simpa using (Eat.ofObsEq o0 p.w).trans e
    have he1 : EofEnd s1 := eofEnd_eat heP e01 (noEof_ignored ign hall)
    have hnd2 : ¬ Doomed s2 := fun d => hnd (o2.doomed.mpr d)
    rcases withRec_dec _ _ s1 s2 () hb with ⟨_, sl, ol, hl⟩ | ⟨hle, sr1, sr2, c1, l1, er1, a1, r1, rl1, hr', c2, l2, er2, a2, r2, rl2⟩
    · exfalso
      have wl : TW sl := ol.w e01.w
      have al := good_limitErr sl () s2 wl hl
      have hnd1 : ¬ Doomed s1 := fun d => hnd2 (al.doom (ol.doomed.mpr d))
      exact hnd2 ((limitErr_adv sl s2 wl hl).2 (by rw [ol.toks]; exact eofEnd_nonempty s1 he1 hnd1))
    · have wr1 : TW sr1 := w_same _ _ e01.w er1 l1 a1
      have her1 : EofEnd sr1 := eofEnd_same _ _ he1 c1 l1 er1
      have hndr : ¬ Doomed sr2 := fun d => hnd2 ((doomed_same _ _ er2 l2).mpr d)
      have cs := (sel_all_sound n).2.1 sr1 sr2 wr1 her1 hr' hndr
      have cs' : Cons s1 s' _ := cs.transport (toks_same _ _ c1 l1).symm (by rw [o2.toks]; exact toks_same _ _ c2 l2)
        (eofEnd_same _ _ (eofEnd_same _ _ cs.eofEnd c2 l2 er2) o2.current o2.lx o2.errors)
      have cign : Cons s s1 (fun x => x = []) :=
        ⟨ign, [], by rw [← p.toks]; exact e01.toks, noEof_ignored ign hall, he1, by rw [sig_ignored ign hall]; exact TokIs.nil, rfl⟩
      have hb1 : bud s1 = bud s := by rw [bud_eat e01, bud_peek p]
      have hbr : bud sr1 + 1 = bud s1 := by unfold bud; rw [r1, rl1]; omega
      exact (cign.seq cs').weaken (by
        rintro z ⟨x, y, rfl, rfl, hy⟩
        refine Or.inr ⟨by omega, ?_⟩
        rw [show bud s - 1 = bud sr1 by omega]
        simpa using hy)

theorem parseFieldSet_sound_tree (rl : Nat) (src : Str) (root : Elem)
    (h : (parse .selectionSet none rl src).outcome = .tree root) (herr : (parse .selectionSet none rl src).errors = []) :
    LexClean src ∧ ∃ x ts e, sig (srcToks src) = ts ++ [e] ∧ e.kind = .eof ∧ TokIs ts x ∧
      FieldSetExact rl (∃ t rest, srcToks src = t :: rest ∧ t.kind = .lCurly) x := by
  unfold parse runEntry at h herr
  simp only [Entry.standalone, Entry.grammar] at h herr
  generalize hs0 : ({ initState src none rl with builder := (initState src none rl).builder.startNode "SELECTION_SET" } : PState) = s0 at h herr
  have hinv : Inv s0 := by
    subst hs0
    exact ⟨fun _ => by simp [initState, Builder.new, Builder.startNode, textList, pendingText, curText],
      fun p hp => by simp [initState, Builder.new, Builder.startNode] at hp; simp [hp, initState, Builder.new],
      fun h => by simp [initState] at h, fun t h => by simp [initState] at h, fun h => by simp [initState] at h⟩
  have w0 : TW s0 := by subst hs0; exact ⟨rfl, by intro h; simp [initState] at h⟩
  have htoks : Toks s0 = srcToks src := by subst hs0; rfl
  have hdoom : Doomed s0 ↔ ¬ LexClean src := by
    subst hs0
    unfold Doomed LexClean
    show ([] ≠ [] ∨ hasErr (stream (initState src none rl).lx) = true) ↔ _
    have : (initState src none rl).lx = (initState src none 0).lx := rfl
    rw [this]
    constructor
    · rintro (h | h)
      · exact absurd rfl h
      · simp [h]
    · intro h; right; simpa using h
  have he0 : EofEnd s0 := by
    right
    obtain ⟨pre, e, hp, he, hno⟩ := stream_eof_end src.length (initState src none 0).lx (Nat.le_refl _) rfl rfl
    exact ⟨pre, e, by rw [htoks]; exact hp, he, hno⟩
  cases hr : (fieldSet (fuelFor src) >>= fun _ => expectEndOfInput).run s0 with
  | abort w => simp [hr] at h
  | panic m => simp [hr] at h
  | ok a s =>
    simp only [hr] at h herr
    have hb0 : bud s0 = rl := by subst hs0; simp [bud, initState]
    obtain ⟨hnd, x, ts, e, h1, h2, h3, h4⟩ := standalone_sound_run (fieldSet (fuelFor src)) (good_fieldSet _)
      (FieldSetExact (bud s0) (∃ t rest, Toks s0 = t :: rest ∧ t.kind = .lCurly)) s0 s
      (fun s' w he h hnd => fieldSet_sound (fuelFor src) s0 s' w he h hnd) hinv w0 he0 hr herr
    rw [hb0, htoks] at h4
    refine ⟨?_, x, ts, e, by rw [← htoks]; exact h1, h2, h3, h4⟩
    by_cases hc : LexClean src
    · exact hc
    · exact absurd (hdoom.mpr hc) hnd


theorem parseFieldSet_sound (rl : Nat) (src : Str) (herr : (parse .selectionSet none rl src).errors = []) :
    LexClean src ∧ ∃ x ts e, sig (srcToks src) = ts ++ [e] ∧ e.kind = .eof ∧ TokIs ts x ∧
      FieldSetExact rl (∃ t rest, srcToks src = t :: rest ∧ t.kind = .lCurly) x := by
  obtain ⟨root, h⟩ := parseFieldSet_tree none rl src
  exact parseFieldSet_sound_tree rl src root h herr

/-- **`fieldset_accept_iff`** (proof level): zero errors ⇔ lexer-clean and the significant tokens are one selection set
    / brace-less selection list within the EXACT recursion budget, a braced one starting the input -/
theorem parseFieldSet_iff (rl : Nat) (src : Str) :
    (parse .selectionSet none rl src).errors = [] ↔
      (LexClean src ∧ ∃ (ss : Ast.Sels) (ts : List Tok) (e : Tok), sig (srcToks src) = ts ++ [e] ∧ e.kind = .eof ∧
        ss ≠ Ast.Sels.nil ∧ 1 ≤ rl ∧ fitSels ss (rl - 1) ∧
        ((TokIs ts (.p .lCurly :: Ast.tSels ss ++ [.p .rCurly]) ∧ HeadSig (srcToks src)) ∨ TokIs ts (Ast.tSels ss))) := by
  constructor
  · intro herr
    obtain ⟨hclean, x, ts, e, h1, h2, h3, h4⟩ := parseFieldSet_sound rl src herr
    rcases h4 with ⟨⟨ss, hne, rfl, hb, hf⟩, t, rest, hsrc, hk⟩ | ⟨hb, ss, hne, rfl, hf⟩
    · refine ⟨hclean, ss, ts, e, h1, h2, hne, hb, hf, Or.inl ⟨h3, ?_⟩⟩
      intro hd tl e'
      rw [hsrc] at e'
      injection e' with e' _
      subst e'
      unfold Sigf; rw [hk]; rfl
    · exact ⟨hclean, ss, ts, e, h1, h2, hne, hb, hf, Or.inr h3⟩
  · rintro ⟨hclean, ss, ts, e, h1, h2, hne, hb, hf, hx⟩
    exact parseFieldSet_complete_full rl src ss ts e hclean h1 h2 hne hb hf hx

end Apollo.Parse.Exact
