import ApolloModel.Model.ParserEntry
/-
Consequences of the proof-carrying parser model: no rowan/builder panic from any entry point,
and the lossless/prefix facts for documents.
-/
namespace Apollo.Parse
open Apollo.Rowan hiding Str
open Apollo.Lex hiding Str

theorem run_pure {α : Type} (a : α) (s : PState) : (pure a : PI α).run s = .ok a s := rfl

theorem run_bind {α β : Type} (m : PI α) (f : α → PI β) (s : PState) :
    (m >>= f).run s = match m.run s with
      | .ok a s' => (f a).run s'
      | .abort w => .abort w
      | .panic msg => .panic msg := rfl

theorem init_inv (src : Str) (tl : Option Nat) (rl : Nat) : Inv (initState src tl rl) :=
  ⟨fun _ => by simp [initState, Builder.new, textList, pendingText, curText],
   fun p hp => by simp [initState, Builder.new] at hp,
   fun h => by simp [initState] at h,
   fun t h => by simp [initState] at h,
   fun h => by simp [initState] at h⟩

/-- what `let _g = start_node(kind); body` leaves behind: the state `s2` in which the body ended,
    with the children added since `start_node` folded into one `kind` node -/
theorem withNode_result {α : Type} (kind : SK) (body : PI α) (s : PState) (h : Inv s) (a : α) (s' : PState)
    (hr : (withNode kind body).run s = .ok a s') :
    ∃ cs s2, s'.builder.children = s.builder.children ++ s.pending.map pendingElem ++ [Elem.node kind cs] ∧
      s'.builder.parents = s.builder.parents ∧
      (skipIgnored >>= fun _ => body).run (rawStartNode kind { s with builder := { s.builder with children := s.builder.children ++ s.pending.map pendingElem }, pending := [] }) = .ok a s2 ∧
      s'.pending = s2.pending ∧ s'.current = s2.current ∧ s'.lx = s2.lx ∧ s'.dropped = s2.dropped ∧
      s'.original = s2.original ∧ s'.errors = s2.errors := by
  have h1 := pushIgnored.ok s h
  have e1 : pushIgnored.run s = .ok () { s with builder := { s.builder with children := s.builder.children ++ s.pending.map pendingElem }, pending := [] } := rfl
  simp only [e1, Post] at h1
  obtain ⟨hi1, _⟩ := h1
  simp only [withNode, e1] at hr
  have hi1' : Inv (rawStartNode kind { s with builder := { s.builder with children := s.builder.children ++ s.pending.map pendingElem }, pending := [] }) := by
    refine ⟨hi1.text, ?_, hi1.lexDone, hi1.eofTok, hi1.errNonempty⟩
    intro p hp
    simp only [rawStartNode, Builder.startNode, List.mem_cons] at hp ⊢
    rcases hp with rfl | hp
    · exact Nat.le_refl _
    · exact hi1.parents p hp
  have h2 := (skipIgnored >>= fun _ => body).ok _ hi1'
  cases hr2 : (skipIgnored >>= fun _ => body).run (rawStartNode kind { s with builder := { s.builder with children := s.builder.children ++ s.pending.map pendingElem }, pending := [] }) with
  | abort w => simp [hr2] at hr
  | panic m => simp [hr2] at hr
  | ok a2 s2 =>
    simp only [hr2, Post] at h2 hr
    obtain ⟨_, hf2⟩ := h2
    have hp : s2.builder.parents = (kind, (s.builder.children ++ s.pending.map pendingElem).length) :: s.builder.parents := by
      rw [hf2.parents]; rfl
    obtain ⟨added, hadd⟩ := hf2.children
    simp only [rawStartNode, Builder.startNode] at hadd
    simp only [Builder.finishNode, hp, Res.ok.injEq] at hr
    obtain ⟨rfl, rfl⟩ := hr
    refine ⟨added, s2, ?_, rfl, rfl, rfl, rfl, rfl, rfl, rfl, rfl⟩
    simp only [hadd]
    have ht : List.take (s.builder.children ++ s.pending.map pendingElem).length
        (s.builder.children ++ s.pending.map pendingElem ++ added) = s.builder.children ++ s.pending.map pendingElem :=
      List.take_left' rfl
    have hd : List.drop (s.builder.children ++ s.pending.map pendingElem).length
        (s.builder.children ++ s.pending.map pendingElem ++ added) = added :=
      List.drop_left' rfl
    rw [ht, hd]

/-- with the temporary root open and nothing else, `finish_standalone` always yields a tree -/
theorem finishStandalone_some (b : Builder) (k : SK) (expected : List SK) (hp : b.parents = [(k, 0)]) :
    ∃ e, finishStandalone b expected = some e := by
  simp only [finishStandalone, Builder.finishNode, hp, List.take_zero, List.nil_append, List.drop_zero, Builder.finish]
  cases b.children with
  | nil => exact ⟨_, rfl⟩
  | cons c cs =>
    cases c with
    | tok k' t => exact ⟨_, rfl⟩
    | node k' cs' =>
      cases cs with
      | nil =>
        simp only []
        split <;> exact ⟨_, rfl⟩
      | cons c2 cs2 => exact ⟨_, rfl⟩

theorem finish_single (b : Builder) (k : SK) (cs : List Elem) (h : b.children = [Elem.node k cs]) :
    b.finish = some (Elem.node k cs) := by
  simp [Builder.finish, h]

/-- `Parser::parse`, `parse_selection_set`, `parse_type` never panic — whatever the input, the token
    limit and the recursion limit.  (The outcome is a tree, or one of the two model aborts that
    this framework does not exclude: fuel exhaustion / the `peek_while` progress assertion.) -/
theorem parse_no_panic (e : Entry) (tl : Option Nat) (rl : Nat) (src : Str) (m : String) :
    (parse e tl rl src).outcome ≠ .panic m := by
  unfold parse runEntry
  cases e with
  | document =>
    simp only [Entry.standalone, Entry.grammar]
    have hinv := init_inv src tl rl
    have hok := (Parse.document (fuelFor src)).ok _ hinv
    cases hr : (Parse.document (fuelFor src)).run (initState src tl rl) with
    | abort w => simp
    | panic msg => simp [hr, Post] at hok
    | ok a s =>
      simp only []
      obtain ⟨cs, _, hc, _⟩ := withNode_result "DOCUMENT" (documentBody (fuelFor src)) _ hinv a s hr
      have : s.builder.children = [Elem.node "DOCUMENT" cs] := by
        simpa [initState, Builder.new] using hc
      simp [finish_single s.builder _ _ this]
  | selectionSet =>
    simp only [Entry.standalone, Entry.grammar]
    have hinv : Inv { initState src tl rl with builder := (initState src tl rl).builder.startNode "SELECTION_SET" } :=
      ⟨fun _ => by simp [initState, Builder.new, Builder.startNode, textList, pendingText, curText],
       fun p hp => by simp [initState, Builder.new, Builder.startNode] at hp; simp [hp, initState, Builder.new],
       fun h => by simp [initState] at h, fun t h => by simp [initState] at h, fun h => by simp [initState] at h⟩
    have hok := (fieldSet (fuelFor src) >>= fun _ => expectEndOfInput).ok _ hinv
    cases hr : (fieldSet (fuelFor src) >>= fun _ => expectEndOfInput).run { initState src tl rl with builder := (initState src tl rl).builder.startNode "SELECTION_SET" } with
    | abort w => simp
    | panic msg => simp [hr, Post] at hok
    | ok a s =>
      simp only [hr, Post] at hok ⊢
      obtain ⟨_, hf⟩ := hok
      have hp : s.builder.parents = [("SELECTION_SET", 0)] := by
        rw [hf.parents]; simp [initState, Builder.new, Builder.startNode]
      obtain ⟨e', he'⟩ := finishStandalone_some s.builder _ ["SELECTION_SET"] hp
      simp [he']
  | type =>
    simp only [Entry.standalone, Entry.grammar]
    have hinv : Inv { initState src tl rl with builder := (initState src tl rl).builder.startNode "NAMED_TYPE" } :=
      ⟨fun _ => by simp [initState, Builder.new, Builder.startNode, textList, pendingText, curText],
       fun p hp => by simp [initState, Builder.new, Builder.startNode] at hp; simp [hp, initState, Builder.new],
       fun h => by simp [initState] at h, fun t h => by simp [initState] at h, fun h => by simp [initState] at h⟩
    have hok := (ty (fuelFor src) >>= fun _ => expectEndOfInput).ok _ hinv
    cases hr : (ty (fuelFor src) >>= fun _ => expectEndOfInput).run { initState src tl rl with builder := (initState src tl rl).builder.startNode "NAMED_TYPE" } with
    | abort w => simp
    | panic msg => simp [hr, Post] at hok
    | ok a s =>
      simp only [hr, Post] at hok ⊢
      obtain ⟨_, hf⟩ := hok
      have hp : s.builder.parents = [("NAMED_TYPE", 0)] := by
        rw [hf.parents]; simp [initState, Builder.new, Builder.startNode]
      obtain ⟨e', he'⟩ := finishStandalone_some s.builder _ ["NAMED_TYPE", "LIST_TYPE", "NON_NULL_TYPE"] hp
      simp [he']

end Apollo.Parse
