import ApolloModel.Proofs.ParserTree19
/-
C08 growth (pipeline), part 20: the selection loop, selection sets, the induction, and `selection::field_set`.
-/
set_option linter.unusedSimpArgs false
set_option linter.unusedVariables false
namespace Apollo.Parse
open Apollo.Rowan hiding Str
open Apollo.Lex hiding Str
open Apollo.FromCst (OptArgs OptDirs DirsNode ArgsNode SelTree SelSetNode SelsTree OptSS AliasPre TcPre)

/-- the closure of the selection loop -/
theorem tr_selBody (n : Nat) (ih : SelAll n) (k : Kind) :
    Tr NoE (HeadK k) (selBody n k)
      (fun r cs e => (r = (true, true) ∧ SelR cs e) ∨ (r = (false, false) ∧ cs = [] ∧ e = [])) := by
  unfold selBody
  have stop : ∀ {H : List Tok → Prop}, Tr NoE H (pure (false, false) : PI (Bool × Bool))
      (fun r cs e => (r = (true, true) ∧ SelR cs e) ∨ (r = (false, false) ∧ cs = [] ∧ e = [])) := by
    intro H
    refine (tr_pure NoE H (false, false)).mono (fun _ h => h) ?_
    rintro r cs e ⟨rfl, rfl, rfl⟩
    exact Or.inr ⟨rfl, rfl, rfl⟩
  have item : ∀ {H : List Tok → Prop} (m : PI Unit), Tr NoE H m (fun _ => SelR) →
      Tr NoE H (m >>= fun _ => (pure (true, true) : PI (Bool × Bool)))
        (fun r cs e => (r = (true, true) ∧ SelR cs e) ∨ (r = (false, false) ∧ cs = [] ∧ e = [])) := by
    intro H m hm
    refine (tr_bind early_false hm (fun _ => tr_pure NoE _ (true, true))).mono (fun _ h => h) ?_
    rintro r cs e ⟨_, c1, c2, e1, e2, rfl, rfl, h1, rfl, rfl, rfl⟩
    exact Or.inl ⟨rfl, by simpa using h1⟩
  refine tr_ite _ (fun h1 => ?_) (fun h1 => tr_ite _ (fun _ => stop) (fun h2 => tr_ite _ (fun h3 => ?_) (fun _ => stop)))
  · have hk : k = .spread := by simpa using h1
    subst hk
    apply tr_peekTokenN
    intro o
    cases o with
    | none => exact tr_never (acc_errAndPop' _ (good_pure _))
    | some next =>
      simp only []
      refine tr_ite _ (fun _ => item _ (tr_fragmentSpread n)) (fun _ => tr_ite _ (fun _ => item _ ih.inline) (fun _ => ?_))
      exact tr_never (acc_err' _ (good_bind _ _ (good_bump _) (fun _ => good_pure _)))
  · have hk : k = .name := by simpa using h3
    subst hk
    exact item _ ih.field

/-- `Selection+` -/
theorem tr_selection (n : Nat) (ih : SelAll n) : Tr NoE (fun _ => True) (selection (n + 1)) (fun _ => SelsR) := by
  rw [selection_succ]
  apply tr_srcLen
  intro len
  have hloop := tr_flagLoop early_false (selBody n) SelR (tr_selBody n ih) (len + 3) false
  have hfin : ∀ has : Bool, Tr NoE (fun _ => True) (if (!has) = true then err else pure ())
      (fun _ cs e => has = true ∧ cs = [] ∧ e = []) := by
    intro has
    cases has with
    | false => simpa using (tr_err (E := NoE) (H := fun _ => True) (R := fun _ cs e => false = true ∧ cs = [] ∧ e = []))
    | true =>
      refine (tr_pure NoE _ ()).mono (fun _ h => h) ?_
      rintro _ cs e ⟨_, rfl, rfl⟩
      exact ⟨rfl, rfl, rfl⟩
  refine (tr_bind early_false hloop hfin).mono (fun _ h => h) ?_
  rintro _ cs e ⟨has, c1, c2, e1, e2, rfl, rfl, ⟨items, rfl, rfl, hall, hres⟩, hhas, rfl, rfl⟩
  have hne : items ≠ [] := by
    intro h0
    rw [h0] at hres
    rw [hhas] at hres
    simp at hres
  clear hres hhas
  simp only [List.append_nil]
  induction items with
  | nil => exact absurd rfl hne
  | cons i items ih2 =>
    obtain ⟨sel, es, h1, hw, h2, h3⟩ := hall i List.mem_cons_self
    cases items with
    | nil =>
      refine ⟨.cons sel .nil, (by intro h; cases h), (by simp [Ast.wfSels, hw]), ?_, ?_⟩
      · simpa [Ast.tSels] using h1
      · simp only [List.map_cons, List.map_nil, List.flatten_cons, List.flatten_nil, List.append_nil, h2]
        exact SelsTree.cons sel es .nil [] h3 SelsTree.nil
    | cons j rest =>
      obtain ⟨sels, _, hws, hs1, hs2⟩ := ih2 (fun x hx => hall x (List.mem_cons_of_mem _ hx)) (by simp)
      refine ⟨.cons sel sels, (by intro h; cases h), (by simp [Ast.wfSels, hw, hws]), ?_, ?_⟩
      · simp only [List.map_cons, List.flatten_cons, Ast.tSels] at hs1 ⊢
        exact h1.append hs1
      · simp only [List.map_cons, List.flatten_cons, h2] at hs2 ⊢
        exact SelsTree.cons sel es sels _ h3 hs2

theorem selSetBody_bind (n : Nat) : selSetBody n = (bump "L_CURLY" >>= fun _ =>
    withRec (limitErr >>= fun _ => pure false) (selection n >>= fun _ => pure true) >>= fun ok =>
      if ok = true then expect .rCurly "R_CURLY" else pure ()) := rfl

/-- `{ Selection+ }` -/
theorem tr_selectionSet (n : Nat) (ih : SelAll n) : Tr NoE (HeadK .lCurly) (selectionSet (n + 1)) (fun _ => SelSetR) := by
  rw [selectionSet_succ]
  apply tr_peek
  intro k
  refine tr_ite _ (fun _ => ?_) (fun hk => tr_absurd (good_pure _) ?_)
  · rw [selSetBody_bind]
    have hrec : Tr NoE (fun _ => True) (withRec (limitErr >>= fun _ => pure false) (selection n >>= fun _ => pure true))
        (fun ok cs e => ok = true ∧ SelsR cs e) := by
      refine tr_withRec early_false (tr_limitErr_then _ (good_pure _)) ?_
      refine (tr_bind early_false ih.sel (fun _ => tr_pure NoE _ true)).mono (fun _ h => h) ?_
      rintro ok cs e ⟨_, c1, c2, e1, e2, rfl, rfl, h1, rfl, rfl, rfl⟩
      exact ⟨rfl, by simpa using h1⟩
    have hclose : ∀ ok : Bool, Tr NoE (fun _ => True) (if ok = true then expect .rCurly "R_CURLY" else pure ())
        (fun _ cs e => ok = true → ∃ t : Tok, t.kind = .rCurly ∧ cs = [t] ∧ e = [Elem.tok "R_CURLY" t.data]) := by
      intro ok
      cases ok with
      | false => exact ⟨good_pure _, by
          intro s a s' w hi he hlq _ hr _
          have hr' : (pure () : PI Unit).run s = .ok a s' := hr
          rw [run_pure] at hr'
          injection hr' with _ h2
          subst h2
          exact ⟨[], [], rfl, (by intro x hx; cases hx), he, by simp, Or.inl (by intro h; cases h)⟩⟩
      | true =>
        simp only [if_true]
        refine (tr_expect (E := NoE) .rCurly "R_CURLY" (by decide) rfl (by decide)).mono (fun _ h => h) ?_
        intro _ cs e h _; exact h
    have hb := tr_bind early_false (tr_bump (E := NoE) "L_CURLY" (by decide) (fun t => t.kind = .lCurly)
      (by intro t h; rw [h]; exact ⟨rfl, by decide⟩)) (fun _ => tr_bind early_false hrec hclose)
    refine (tr_withNode early_false "SELECTION_SET" (hsig_headK .lCurly rfl) (hb.mono (fun _ h => headP_of_headK h) (fun _ _ _ h => h))).mono
      (fun _ h => h.1) ?_
    rintro _ cs e ⟨inner, rfl, _, c1, c2, e1, e2, rfl, hin, ⟨t, hk, _, rfl, rfl⟩, ok, c3, c4, e3, e4, rfl, rfl, ⟨rfl, sels, hne, hwf, hs1, hs2⟩, hcl⟩
    obtain ⟨t2, hk2, rfl, rfl⟩ := hcl rfl
    refine ⟨sels, _, hne, hwf, ?_, rfl, SelSetNode.mk sels inner e3 t.data t2.data hs2 (by rw [hin]; simp)⟩
    have ha : TokIs [t] [Ast.Tok.p .lCurly] := TokIs.single t _ (by simp [astOfV, hk])
    have hb' : TokIs [t2] [Ast.Tok.p .rCurly] := TokIs.single t2 _ (by simp [astOfV, hk2])
    have := ha.append (hs1.append hb')
    simpa using this
  · rintro q ⟨h1, h2⟩
    unfold HeadK at h1
    rw [h1] at h2
    rw [← h2] at hk
    simp at hk

theorem selAll : ∀ n, SelAll n
  | 0 => ⟨by unfold selectionSet; exact tr_outOfFuel, by unfold selection; exact tr_outOfFuel,
      by unfold field; exact tr_outOfFuel, by unfold inlineFragment; exact tr_outOfFuel⟩
  | n + 1 =>
    have ih := selAll n
    ⟨tr_selectionSet n ih, tr_selection n ih, tr_field n ih, tr_inlineFragment n ih⟩

/-- **selection.rs**: a selection set accepted without error is `{ Selection+ }`, built as ONE SELECTION_SET node of the
    shape `SelSetNode sels` -/
theorem tr_selSet (n : Nat) : Tr NoE (HeadK .lCurly) (selectionSet n) (fun _ => SelSetR) := (selAll n).selSet

end Apollo.Parse
