import ApolloModel.Proofs.ParserTreeDef8
/-
C08 growth (pipeline), stage (v), part 9: schema definition, schema extension, directive definition — tree shapes
(`SchemaLike`, `DirDefTree`), the full `DefTree` over all fifteen loose type-system definitions / extensions, and the
conversion theorem `cDefinition_defTree`: `cDefinition` on a `DefTree l` returns `looseConv l`.
-/
set_option linter.unusedSimpArgs false
set_option linter.unusedVariables false
namespace Apollo.FromCst
open Apollo.Rowan Apollo.Ast
open Apollo.Parse (isJunk isJunkKind sigE nameNode LooseDef sepNames sepLead fullRoots)

variable {R : List Loc}

theorem allToks_find (pr : SK → Bool) : ∀ ts : List Elem, AllToks ts → ts.find? (nodeP pr) = none
  | [], _ => rfl
  | t :: ts, h => by
    obtain ⟨k, d, rfl⟩ := h t (by simp)
    simp only [List.find?_cons, nodeP_tok]
    exact allToks_find pr ts (fun e he => h e (by simp [he]))

theorem allToks_filter (pr : SK → Bool) : ∀ ts : List Elem, AllToks ts → ts.filter (nodeP pr) = []
  | [], _ => rfl
  | t :: ts, h => by
    obtain ⟨k, d, rfl⟩ := h t (by simp)
    simp only [List.filter_cons, nodeP_tok]
    exact allToks_filter pr ts (fun e he => h e (by simp [he]))

theorem allToks_append {a b : List Elem} (ha : AllToks a) (hb : AllToks b) : AllToks (a ++ b) := by
  intro e he
  rcases List.mem_append.mp he with h | h
  · exact ha e h
  · exact hb e h

theorem roots_find (pr : SK → Bool) (hpr : pr "ROOT_OPERATION_TYPE_DEFINITION" = false) :
    ∀ (rs : List Elem) (roots : List (OpType × Option Ast.Str)), All2 (fun e r => RootTree r e) rs roots →
      rs.find? (nodeP pr) = none
  | [], _, _ => rfl
  | e :: rs, [], h => by cases h
  | e :: rs, r :: roots, h => by
    cases h with
    | cons h1 h2 =>
      obtain ⟨cs, _, _, _, rfl, _⟩ := h1
      simp only [List.find?_cons, nodeP_node, hpr]
      exact roots_find pr hpr rs roots h2

theorem roots_filter : ∀ (rs : List Elem) (roots : List (OpType × Option Ast.Str)), All2 (fun e r => RootTree r e) rs roots →
      rs.filter (nodeP (· == "ROOT_OPERATION_TYPE_DEFINITION")) = rs
  | [], _, _ => rfl
  | e :: rs, [], h => by cases h
  | e :: rs, r :: roots, h => by
    cases h with
    | cons h1 h2 =>
      obtain ⟨cs, _, _, _, rfl, _⟩ := h1
      simp only [List.filter_cons, nodeP_node, beq_self_eq_true, if_true]
      rw [roots_filter rs roots h2]

/-- the braces block of a schema definition / extension: tokens, root operation type definitions, tokens -/
def RootsPart (roots : List (OpType × Option Ast.Str)) (tb : List Elem) : Prop :=
  ∃ pre rs post, tb = pre ++ (rs ++ post) ∧ AllToks pre ∧ AllToks post ∧ All2 (fun e r => RootTree r e) rs roots

theorem rootsPart_nil : RootsPart [] [] := ⟨[], [], [], rfl, allToks_nil, allToks_nil, All2.nil⟩

theorem rootsPart_find {roots : List (OpType × Option Ast.Str)} {tb : List Elem} (h : RootsPart roots tb) (pr : SK → Bool)
    (hpr : pr "ROOT_OPERATION_TYPE_DEFINITION" = false) : tb.find? (nodeP pr) = none := by
  obtain ⟨pre, rs, post, rfl, h1, h2, h3⟩ := h
  simp only [List.find?_append, allToks_find pr pre h1, allToks_find pr post h2, roots_find pr hpr rs roots h3, Option.or_none]

theorem rootsPart_filter {roots : List (OpType × Option Ast.Str)} {tb : List Elem} (h : RootsPart roots tb) :
    All2 (fun e r => RootTree r e) (tb.filter (nodeP (· == "ROOT_OPERATION_TYPE_DEFINITION"))) roots := by
  obtain ⟨pre, rs, post, rfl, h1, h2, h3⟩ := h
  simp only [List.filter_append, allToks_filter _ pre h1, allToks_filter _ post h2, roots_filter rs roots h3, List.nil_append,
    List.append_nil]
  exact h3

theorem hd_filter {desc : Option Ast.Str} {hd : List Elem} (h : Hd desc hd) (pr : SK → Bool) (hpr : pr "DESCRIPTION" = false) :
    hd.filter (nodeP pr) = [] := by
  obtain ⟨pre, toks, rfl, hpre, ht⟩ := h
  rw [List.filter_append, allToks_filter pr toks ht]
  rcases descPre_kinds hpre with rfl | ⟨c, rfl⟩
  · rfl
  · simp [List.filter_cons, nodeP_node, hpr]

/-- `K[hd Directives? { roots }]` -/
def SchemaLike (K : SK) (desc : Option Ast.Str) (ds : List Directive) (roots : List (OpType × Option Ast.Str)) (e : Elem) : Prop :=
  ∃ cs hd td tb, e = .node K cs ∧ Hd desc hd ∧ OptDirs ds td ∧ RootsPart roots tb ∧ sigE cs = hd ++ (td ++ tb)

theorem schemaLike_conv (n : Nat) (K : SK) (desc : Option Ast.Str) (ds : List Directive) (roots : List (OpType × Option Ast.Str))
    (e : Elem) (h : SchemaLike K desc ds roots e) (hs : size e ≤ n + 1) :
    ConvE (fun R => @descOf R) desc e ∧ ConvE (fun R => @directivesOf R n) ds e ∧ ConvE (fun R => @rootsOf R) (rootsConv roots) e := by
  obtain ⟨cs, hd, td, tb, rfl, hhd, htd, htb, hsig⟩ := h
  refine ⟨?_, ?_, ?_⟩
  · obtain ⟨pre, hpre, hf⟩ := hd_find_desc hhd (td ++ tb) (by
      rw [List.find?_append, rootsPart_find htb _ rfl]
      rcases optDirs_kinds htd with rfl | ⟨c, rfl⟩ <;> simp [List.find?_cons, nodeP_node])
    exact descOf_conv K cs desc pre hpre (by rw [hsig]; exact hf)
  · exact directivesOf_conv n K cs ds td htd (by
      rw [hsig, hd_find hhd _ rfl, List.find?_append, rootsPart_find htb _ rfl]
      rcases optDirs_kinds htd with rfl | ⟨c, rfl⟩ <;> simp [List.find?_cons, nodeP_node])
      (by intro e he; rw [hsig]; simp [he]) hs
  · refine rootsOf_conv K cs roots ?_
    rw [hsig, List.filter_append, List.filter_append, hd_filter hhd _ rfl]
    have : td.filter (nodeP (· == "ROOT_OPERATION_TYPE_DEFINITION")) = [] := by
      rcases optDirs_kinds htd with rfl | ⟨c, rfl⟩ <;> simp [List.filter_cons, nodeP_node]
    rw [this]
    exact rootsPart_filter htb

/-! ### directive definition -/

/-- a token of kind `kt` -/
def tokP (kt : SK) (e : Elem) : Bool := !isNodeE e && kindE e == kt

theorem any_tokP_sigE (kt : SK) (hj : isJunkKind kt = false) : ∀ cs : List Elem, cs.any (tokP kt) = (sigE cs).any (tokP kt)
  | [] => rfl
  | e :: cs => by
    have ih := any_tokP_sigE kt hj cs
    unfold sigE at ih ⊢
    cases e with
    | node k c => simp [List.filter_cons, isJunk, tokP, isNodeE, ih]
    | tok k d =>
      by_cases hk : k = kt
      · subst hk
        simp [List.filter_cons, isJunk, hj, tokP, isNodeE, kindE]
      · by_cases hjk : isJunkKind k = true
        · simp [List.filter_cons, isJunk, hjk, tokP, isNodeE, kindE, hk, ih]
        · simp [List.filter_cons, isJunk, hjk, tokP, isNodeE, kindE, hk, ih]

/-- `DIRECTIVE_DEFINITION[hd NAME ArgumentsDefinition? repeatable? on DirectiveLocations]` (`hd` ends with the `@`) -/
def DirDefTree (desc : Option Ast.Str) (nm : Ast.Str) (args : List InputValueDef) (rep : Bool) (locs : List Ast.Str) (e : Elem) :
    Prop :=
  ∃ cs hd ta trep don el, e = .node "DIRECTIVE_DEFINITION" cs ∧ isValidName nm = true ∧ Hd desc hd ∧
    hd.any (tokP "repeatable_KW") = false ∧ OptIvds "ARGUMENTS_DEFINITION" "L_PAREN" "R_PAREN" args ta ∧
    ((rep = true ∧ ∃ d, trep = [.tok "repeatable_KW" d]) ∨ (rep = false ∧ trep = [])) ∧ LocsNode locs el ∧
    sigE cs = hd ++ nameNode nm :: (ta ++ (trep ++ (.tok "on_KW" don :: [el])))

theorem dirDef_conv (n : Nat) (desc : Option Ast.Str) (nm : Ast.Str) (args : List InputValueDef) (rep : Bool) (locs : List Ast.Str)
    (e : Elem) (h : DirDefTree desc nm args rep locs e) (hs : size e ≤ n + 1) :
    ConvE (fun R => @descOf R) desc e ∧ ConvE (fun R => @nameOf R) nm e ∧
    ConvE (fun R => @inputValuesOf R n "ARGUMENTS_DEFINITION") args e ∧ ConvE (fun R => @locationsOf R) locs e ∧
    ∀ (R : List Loc) (s : Nat) (hp : ∀ x ∈ nameRanges e s, x ∈ R), hasToken "repeatable_KW" (⟨(e, s), hp⟩ : PE R) = rep := by
  obtain ⟨cs, hd, ta, trep, don, el, rfl, hv, hhd, hnr, hta, hrep, hel, hsig⟩ := h
  obtain ⟨lcs, rfl, hlocs⟩ := hel
  have hdn := descName_conv "DIRECTIVE_DEFINITION" cs hd _ desc nm hv hhd hsig (by
    rcases optIvds_kinds hta with rfl | ⟨c1, rfl⟩ <;> rcases hrep with ⟨_, d, rfl⟩ | ⟨_, rfl⟩ <;> find_tail)
  refine ⟨hdn.1, hdn.2, ?_, ?_, ?_⟩
  · exact inputValuesOf_conv n "ARGUMENTS_DEFINITION" "L_PAREN" "R_PAREN" "DIRECTIVE_DEFINITION" cs args ta hta (by
      rw [hsig, hd_find hhd _ rfl]
      rcases optIvds_kinds hta with rfl | ⟨c1, rfl⟩ <;> rcases hrep with ⟨_, d, rfl⟩ | ⟨_, rfl⟩ <;> find_tail)
      (by intro e he; rw [hsig]; simp [he]) (by omega)
  · exact locationsOf_conv "DIRECTIVE_DEFINITION" cs locs _ ⟨lcs, rfl, hlocs⟩ (by
      rw [hsig, hd_find hhd _ rfl]
      rcases optIvds_kinds hta with rfl | ⟨c1, rfl⟩ <;> rcases hrep with ⟨_, d, rfl⟩ | ⟨_, rfl⟩ <;> find_tail)
  · intro R s hp
    rw [hasToken_eq]
    show cs.any (tokP "repeatable_KW") = rep
    rw [any_tokP_sigE _ (by decide), hsig, List.any_append, hnr]
    rcases optIvds_kinds hta with rfl | ⟨c1, rfl⟩ <;> rcases hrep with ⟨rfl, d, rfl⟩ | ⟨rfl, rfl⟩ <;>
      simp [tokP, isNodeE, kindE, nameNode]

/-! ### all loose definitions -/

theorem cDef_schemaDef (n : Nat) (p : PE R) (hk : p.kind = "SCHEMA_DEFINITION") :
    cDefinition n p = (descOf p >>= fun desc => directivesOf n p >>= fun dirs => rootsOf p >>= fun roots =>
      pure (.schemaDef desc dirs roots)) := by simp [cDefinition, hk]
theorem cDef_schemaExt (n : Nat) (p : PE R) (hk : p.kind = "SCHEMA_EXTENSION") :
    cDefinition n p = (directivesOf n p >>= fun dirs => rootsOf p >>= fun roots => pure (.schemaExt dirs roots)) := by
  simp [cDefinition, hk]
theorem cDef_directiveDef (n : Nat) (p : PE R) (hk : p.kind = "DIRECTIVE_DEFINITION") :
    cDefinition n p = (descOf p >>= fun desc => nameOf p >>= fun name => inputValuesOf n "ARGUMENTS_DEFINITION" p >>= fun args =>
      locationsOf p >>= fun locs => pure (.directiveDef desc name args (hasToken "repeatable_KW" p) locs)) := by
  simp [cDefinition, hk]

/-- the tree of a loose type-system definition or extension -/
def DefTree : LooseDef → Elem → Prop
  | .directive desc nm args rep _ first rest, e => DirDefTree desc nm args rep (first :: rest) e
  | .schema desc ds roots, e => SchemaLike "SCHEMA_DEFINITION" desc ds roots e
  | .schemaExt ds roots, e => SchemaLike "SCHEMA_EXTENSION" none ds roots e
  | l, e => NamedDefTree l e

theorem defTree_of_named {l : LooseDef} {e : Elem} (h : NamedDefTree l e) : DefTree l e := by
  cases l <;> first | exact h | exact absurd h id

/-- **conversion of every type-system definition and extension**: on the tree of the loose definition `l`, `cDefinition`
    succeeds with `looseConv l` -/
theorem cDefinition_defTree (n : Nat) (l : LooseDef) (e : Elem) (h : DefTree l e) (hs : size e ≤ n + 1) :
    ConvE (fun R => @cDefinition R n) (looseConv l) e := by
  cases l
  case directive desc nm args rep lead first rest =>
    intro R s hp
    have h' : DirDefTree desc nm args rep (first :: rest) e := h
    obtain ⟨h1, h2, h3, h4, h5⟩ := dirDef_conv n desc nm args rep _ e h' hs
    obtain ⟨cs, _, _, _, _, _, rfl, _⟩ := h'
    obtain ⟨l1, e1⟩ := h1 R s hp; obtain ⟨l2, e2⟩ := h2 R s hp; obtain ⟨l3, e3⟩ := h3 R s hp; obtain ⟨l4, e4⟩ := h4 R s hp
    exact ⟨_, by show cDefinition n _ = _; rw [cDef_directiveDef n _ rfl, h5 R s hp]
                 exact bind_ok e1 (bind_ok e2 (bind_ok e3 (bind_ok e4 (pure_ok _))))⟩
  case schema desc ds roots =>
    intro R s hp
    have h' : SchemaLike "SCHEMA_DEFINITION" desc ds roots e := h
    obtain ⟨h1, h2, h3⟩ := schemaLike_conv n _ desc ds roots e h' hs
    obtain ⟨cs, _, _, _, rfl, _⟩ := h'
    obtain ⟨l1, e1⟩ := h1 R s hp; obtain ⟨l2, e2⟩ := h2 R s hp; obtain ⟨l3, e3⟩ := h3 R s hp
    exact ⟨_, by show cDefinition n _ = _; rw [cDef_schemaDef n _ rfl]; exact bind_ok e1 (bind_ok e2 (bind_ok e3 (pure_ok _)))⟩
  case schemaExt ds roots =>
    intro R s hp
    have h' : SchemaLike "SCHEMA_EXTENSION" none ds roots e := h
    obtain ⟨h1, h2, h3⟩ := schemaLike_conv n _ none ds roots e h' hs
    obtain ⟨cs, _, _, _, rfl, _⟩ := h'
    obtain ⟨l2, e2⟩ := h2 R s hp; obtain ⟨l3, e3⟩ := h3 R s hp
    exact ⟨_, by show cDefinition n _ = _; rw [cDef_schemaExt n _ rfl]; exact bind_ok e2 (bind_ok e3 (pure_ok _))⟩
  all_goals exact cDefinition_named n _ e h hs

end Apollo.FromCst
