import ApolloModel.Proofs.ParserLossless
/-
Termination of the parser model (C01): the two model aborts — out of fuel, and the `peek_while`
progress assertion (`stuck`) — cannot happen.

Two measures on the token-stream part of the state (`current`, `lx`):
* `Mm`  — how many tokens can still be consumed (bounds loop iterations and recursion depth),
* `Phi` — where the first unconsumed token starts (strictly increases with every consumed token and
          is determined by `current` when there is one: so progress ⇒ `current` changed ⇒ not stuck).
Every primitive is monotone in both; consuming a token is strict in both.
-/
set_option linter.unusedSimpArgs false
set_option linter.unusedVariables false
namespace Apollo.Parse
open Apollo.Rowan hiding Str
open Apollo.Lex hiding Str

/-! ### byte lengths -/

theorem utf8Len_foldl (s : Str) (n : Nat) : s.foldl (fun n c => n + c.utf8Size) n = n + utf8Len s := by
  induction s generalizing n with
  | nil => simp [utf8Len]
  | cons c cs ih =>
    simp only [utf8Len, List.foldl_cons, Nat.zero_add]
    rw [ih, ih c.utf8Size]
    omega

theorem utf8Len_cons (c : Char) (s : Str) : utf8Len (c :: s) = c.utf8Size + utf8Len s := by
  simp only [utf8Len, List.foldl_cons, Nat.zero_add]
  rw [utf8Len_foldl]
  rfl

theorem utf8Len_append (a b : Str) : utf8Len (a ++ b) = utf8Len a + utf8Len b := by
  induction a with
  | nil => simp [utf8Len]
  | cons c cs ih => simp only [List.cons_append, utf8Len_cons, ih]; omega

theorem utf8Len_pos {s : Str} (h : s ≠ []) : 0 < utf8Len s := by
  cases s with
  | nil => exact absurd rfl h
  | cons c cs =>
    rw [utf8Len_cons]
    have := Char.utf8Size_pos c
    omega

/-! ### the measures -/

def lexM (l : LexSt) : Nat := if l.finished then 0 else l.src.length + 1

def MmT (c : Option Tok) (l : LexSt) : Nat := (if c.isSome then 1 else 0) + lexM l

def PhiT (c : Option Tok) (l : LexSt) : Nat :=
  match c with
  | some t => 2 * t.index
  | none => 2 * l.pos + (if l.finished then 1 else 0)

def Mm (s : PState) : Nat := MmT s.current s.lx
def Phi (s : PState) : Nat := PhiT s.current s.lx

/-- strict progress from `s` to a state whose token-stream part is `(c, l)` -/
def StrictT (s : PState) (c : Option Tok) (l : LexSt) : Prop := MmT c l < Mm s ∧ Phi s < PhiT c l

/-- position bookkeeping of the lexer and of the current token -/
structure W (s : PState) : Prop where
  pos : s.lx.pos + utf8Len s.lx.src = s.lx.total
  cur : ∀ t, s.current = some t → t.kind ≠ .eof → t.data ≠ [] ∧ t.index + utf8Len t.data = s.lx.pos
  curEof : ∀ t, s.current = some t → t.kind = .eof → t.index = s.lx.total
  eof : ∀ t, s.current = some t → t.kind = .eof → t.data = [] ∧ s.lx.src = [] ∧ s.lx.finished = true

def Mono (s s' : PState) : Prop := Mm s' ≤ Mm s ∧ Phi s ≤ Phi s'
def Strict (s s' : PState) : Prop := Mm s' < Mm s ∧ Phi s < Phi s'
/-- either the current token is still there (and the lexer untouched), or progress was made -/
def Keep (s s' : PState) : Prop :=
  s.current.isSome = true → (s'.current = s.current ∧ s'.lx = s.lx) ∨ Strict s s'

theorem Mono.refl (s : PState) : Mono s s := ⟨Nat.le_refl _, Nat.le_refl _⟩
theorem Mono.trans {a b c : PState} (h1 : Mono a b) (h2 : Mono b c) : Mono a c :=
  ⟨Nat.le_trans h2.1 h1.1, Nat.le_trans h1.2 h2.2⟩
theorem Strict.mono {a b : PState} (h : Strict a b) : Mono a b := ⟨Nat.le_of_lt h.1, Nat.le_of_lt h.2⟩
theorem Strict.trans_mono {a b c : PState} (h1 : Strict a b) (h2 : Mono b c) : Strict a c :=
  ⟨Nat.lt_of_le_of_lt h2.1 h1.1, Nat.lt_of_lt_of_le h1.2 h2.2⟩
theorem Mono.trans_strict {a b c : PState} (h1 : Mono a b) (h2 : Strict b c) : Strict a c :=
  ⟨Nat.lt_of_lt_of_le h2.1 h1.1, Nat.lt_of_le_of_lt h1.2 h2.2⟩

theorem Keep.refl (s : PState) : Keep s s := fun _ => Or.inl ⟨rfl, rfl⟩

theorem Keep.trans {a b c : PState} (h1 : Keep a b) (m1 : Mono a b) (h2 : Keep b c) (m2 : Mono b c) : Keep a c := by
  intro ha
  rcases h1 ha with ⟨hc, hl⟩ | hs
  · rcases h2 (by rw [hc]; exact ha) with ⟨hc2, hl2⟩ | hs2
    · exact Or.inl ⟨hc2.trans hc, hl2.trans hl⟩
    · right
      have e1 : Mm b = Mm a := by simp [Mm, MmT, hc, hl]
      have e2 : Phi b = Phi a := by simp [Phi, PhiT, hc, hl]
      exact ⟨by rw [← e1]; exact hs2.1, by rw [← e2]; exact hs2.2⟩
  · exact Or.inr (hs.trans_mono m2)

/-- measures only look at `current` and `lx` -/
theorem Mm_congr {s s' : PState} (hc : s'.current = s.current) (hl : s'.lx = s.lx) : Mm s' = Mm s := by
  simp [Mm, MmT, hc, hl]
theorem Phi_congr {s s' : PState} (hc : s'.current = s.current) (hl : s'.lx = s.lx) : Phi s' = Phi s := by
  simp [Phi, PhiT, hc, hl]
theorem W_congr {s s' : PState} (hc : s'.current = s.current) (hl : s'.lx = s.lx) (h : W s) : W s' :=
  ⟨by rw [hl]; exact h.pos, fun t ht => by rw [hl]; exact h.cur t (hc ▸ ht), fun t ht => by rw [hl]; exact h.curEof t (hc ▸ ht),
   fun t ht => by rw [hl]; exact h.eof t (hc ▸ ht)⟩
theorem Mono_congr {s s' : PState} (hc : s'.current = s.current) (hl : s'.lx = s.lx) : Mono s s' :=
  ⟨Nat.le_of_eq (Mm_congr hc hl), Nat.le_of_eq (Phi_congr hc hl).symm⟩
theorem Keep_congr {s s' : PState} (hc : s'.current = s.current) (hl : s'.lx = s.lx) : Keep s s' :=
  fun _ => Or.inl ⟨hc, hl⟩

/-- with a current token, `Phi` is a function of it: progress means the token changed -/
theorem strict_current_ne {s s' : PState} (h : Strict s s') (hs : s.current.isSome = true) :
    s'.current ≠ s.current := by
  intro e
  cases hc : s.current with
  | none => simp [hc] at hs
  | some t =>
    have h2 := h.2
    simp only [Phi, PhiT, e, hc] at h2
    omega

/-! ### the lexer -/

theorem lexNext_step (l : LexSt) (hp : l.pos + utf8Len l.src = l.total) :
    (lexNext l).2.total = l.total ∧ (lexNext l).2.pos + utf8Len (lexNext l).2.src = l.total ∧
    l.pos ≤ (lexNext l).2.pos ∧
    (match (lexNext l).1 with
     | none => l.finished = true ∧ (lexNext l).2 = l
     | some (.tok t) => l.finished = false ∧
        (t.kind ≠ .eof → t.data ≠ [] ∧ t.index = l.pos ∧ (lexNext l).2.pos = l.pos + utf8Len t.data ∧
          (lexNext l).2.src.length < l.src.length ∧ (lexNext l).2.finished = false) ∧
        (t.kind = .eof → t.index = l.total ∧ (lexNext l).2.finished = true ∧ (lexNext l).2.src = [] ∧
          l.src = [] ∧ (lexNext l).2.pos = l.pos)
     | some (.err d i) => l.finished = false ∧ (lexNext l).2.src.length < l.src.length ∧ (lexNext l).2.finished = false
     | some (.limit i) => l.finished = false ∧ (lexNext l).2.finished = true ∧ (lexNext l).2.src = l.src ∧
        (lexNext l).2.pos = l.pos) := by
  unfold lexNext
  by_cases hf : l.finished = true
  · simp [hf, hp]
  · have hf' : l.finished = false := by simpa using hf
    simp only [hf, Bool.false_eq_true, if_false]
    by_cases hc : (lexCheck l).1 = true
    · simp [hc, hp, hf']
    · simp only [hc, Bool.false_eq_true, if_false]
      cases hs : l.src with
      | nil =>
        rw [hs] at hp
        simp [hp, hf']
      | cons c rest =>
        simp only []
        have hcat := Lex.advance_concat (c :: rest)
        have hprog := Lex.advance_progress c rest
        have hlen : utf8Len (advance (c :: rest)).1.data + utf8Len (advance (c :: rest)).2 = utf8Len (c :: rest) := by
          rw [← utf8Len_append, hcat]
        have hposd := utf8Len_pos hprog.1
        rw [hs] at hp
        cases hr : (advance (c :: rest)).1 with
        | tok k d =>
          simp only [hr, Item.data] at hlen hprog hposd
          simp only [hr]
          refine ⟨by trivial, ?_, ?_, ?_⟩
          · simp only [Item.data]; omega
          · simp only [Item.data]; omega
          · refine ⟨by first | trivial | exact hf', ?_, ?_⟩
            · intro _; exact ⟨hprog.1, by first | trivial | rfl, by first | trivial | rfl, hprog.2, by first | trivial | exact hf'⟩
            · intro hk; exact absurd hk (Lex.advance_kind_ne_eof c rest k d hr)
        | err d =>
          simp only [hr, Item.data] at hlen hprog hposd
          simp only [hr]
          refine ⟨by trivial, ?_, ?_, ?_⟩
          · simp only [Item.data]; omega
          · simp only [Item.data]; omega
          · exact ⟨by first | trivial | exact hf', hprog.2, by first | trivial | exact hf'⟩
        | limit =>
          simp only [hr, Item.data] at hprog
          exact absurd rfl hprog.1

structure NextM (s : PState) (r : Option Tok × PState) : Prop where
  total : r.2.lx.total = s.lx.total
  pos : r.2.lx.pos + utf8Len r.2.lx.src = s.lx.total
  posMono : s.lx.pos ≤ r.2.lx.pos
  lexMono : lexM r.2.lx ≤ lexM s.lx
  fin : s.lx.finished = true → r.2.lx = s.lx ∧ r.1 = none
  none : r.1 = none → r.2.lx.finished = true
  tok : ∀ t, r.1 = some t → s.lx.finished = false ∧ 1 + lexM r.2.lx ≤ lexM s.lx ∧ s.lx.pos ≤ t.index ∧
    (t.kind ≠ .eof → t.data ≠ [] ∧ t.index + utf8Len t.data = r.2.lx.pos) ∧ (t.kind = .eof → t.index = s.lx.total)

theorem nextTokenRaw_fin_m (fuel : Nat) (s : PState) (hp : s.lx.pos + utf8Len s.lx.src = s.lx.total)
    (hf : s.lx.finished = true) : NextM s (nextTokenRaw fuel s) := by
  have e : nextTokenRaw fuel s = (none, s) := by
    cases fuel with
    | zero => rfl
    | succ n => simp [nextTokenRaw, lexNext_finished s.lx hf]
  rw [e]
  exact ⟨rfl, hp, Nat.le_refl _, Nat.le_refl _, fun _ => ⟨rfl, rfl⟩, fun _ => hf, fun t h => by simp at h⟩

theorem nextTokenRaw_m : ∀ (fuel : Nat) (s : PState), s.lx.pos + utf8Len s.lx.src = s.lx.total →
    s.lx.src.length < fuel → NextM s (nextTokenRaw fuel s)
  | 0, s, _, hl => by omega
  | fuel + 1, s, hp, hl => by
    have hstep := lexNext_step s.lx hp
    unfold nextTokenRaw
    cases hn : lexNext s.lx with
    | mk o l' =>
      rw [hn] at hstep
      simp only [] at hstep
      obtain ⟨htot, hpos, hpm, hcase⟩ := hstep
      cases o with
      | none =>
        simp only [] at hcase ⊢
        obtain ⟨hfin, hl'⟩ := hcase
        subst hl'
        exact ⟨rfl, hp, Nat.le_refl _, Nat.le_refl _, fun _ => ⟨rfl, rfl⟩, fun _ => hfin, fun t h => by simp at h⟩
      | some out =>
        cases out with
        | tok t =>
          simp only [] at hcase ⊢
          obtain ⟨hnf, hne, heof⟩ := hcase
          refine ⟨htot, hpos, hpm, ?_, fun h => by simp [hnf] at h, fun h => by simp at h, ?_⟩
          · by_cases hk : t.kind = .eof
            · simp [lexM, (heof hk).2.1]
            · have := hne hk
              simp only [lexM, hnf, this.2.2.2.2, Bool.false_eq_true, if_false]; omega
          · intro t' ht'
            simp only [Option.some.injEq] at ht'
            subst ht'
            refine ⟨hnf, ?_, ?_, ?_, fun hk => (heof hk).1⟩
            · by_cases hk : t.kind = .eof
              · simp [lexM, (heof hk).2.1, hnf]
              · have := hne hk
                simp only [lexM, hnf, this.2.2.2.2, Bool.false_eq_true, if_false]; omega
            · by_cases hk : t.kind = .eof
              · have := heof hk
                rw [this.1, ← hp]; omega
              · rw [(hne hk).2.1]; exact Nat.le_refl _
            · intro hk
              have := hne hk
              exact ⟨this.1, by rw [this.2.1, this.2.2.1]⟩
        | err d i =>
          simp only [] at hcase ⊢
          obtain ⟨hnf, hlen, hnf'⟩ := hcase
          have ih := nextTokenRaw_m fuel { s with
            lx := l', pending := if d.isEmpty then s.pending else s.pending ++ [.error d],
            errors := s.errors ++ [⟨i, utf8Len d, .lexer⟩] } (by simpa [htot] using hpos) (by simp only []; omega)
          have hlm : lexM l' ≤ lexM s.lx := by simp only [lexM, hnf, hnf', Bool.false_eq_true, if_false]; omega
          refine ⟨ih.total.trans htot, by simpa [htot] using ih.pos, Nat.le_trans hpm ih.posMono,
            Nat.le_trans ih.lexMono hlm, fun h => by simp [hnf] at h, ih.none, ?_⟩
          intro t ht
          have := ih.tok t ht
          simp only [] at this
          exact ⟨hnf, by omega, by omega, this.2.2.2.1, fun hk => by rw [this.2.2.2.2 hk, htot]⟩
        | limit i =>
          simp only [] at hcase ⊢
          obtain ⟨hnf, hfin', hsrc, hpos'⟩ := hcase
          have ih := nextTokenRaw_fin_m fuel { s with lx := l', acceptErrors := false, errors := s.errors ++ [⟨i, 0, .limit⟩] }
            (by simpa [htot] using hpos) hfin'
          have hfix := ih.fin hfin'
          simp only [] at hfix
          refine ⟨ih.total.trans htot, by simpa [htot] using ih.pos, Nat.le_trans hpm ih.posMono, ?_,
            fun h => by simp [hnf] at h, ih.none, ?_⟩
          · rw [hfix.1]; simp [lexM, hfin']
          · intro t ht; rw [hfix.2] at ht; simp at ht

theorem nextToken_m (s : PState) (hp : s.lx.pos + utf8Len s.lx.src = s.lx.total) : NextM s (nextToken s) :=
  nextTokenRaw_m _ s hp (by omega)

/-! ### terminating runs -/

/-- `m` run from `s` ends normally (no abort, no panic) in a state that satisfies the invariants,
    made no backward step in either measure, kept the current token or made progress, and `Q` holds
    of the result and the token-stream part of the final state -/
def Run {α : Type} (m : PI α) (s : PState) (Q : α → Option Tok → LexSt → Prop) : Prop :=
  ∃ a s', m.run s = .ok a s' ∧ W s' ∧ Mono s s' ∧ Keep s s' ∧ Q a s'.current s'.lx

theorem Run.weaken {α : Type} {m : PI α} {s : PState} {Q Q' : α → Option Tok → LexSt → Prop}
    (h : Run m s Q) (hq : ∀ a c l, Q a c l → Q' a c l) : Run m s Q' := by
  obtain ⟨a, s', hr, hw, hm, hk, hq'⟩ := h
  exact ⟨a, s', hr, hw, hm, hk, hq a _ _ hq'⟩

theorem run_pure' {α : Type} (a : α) (s : PState) (hw : W s) {Q : α → Option Tok → LexSt → Prop}
    (hq : Q a s.current s.lx) : Run (pure a : PI α) s Q :=
  ⟨a, s, rfl, hw, Mono.refl s, Keep.refl s, hq⟩

theorem run_bind' {α β : Type} {m : PI α} {f : α → PI β} {s : PState}
    {Q1 : α → Option Tok → LexSt → Prop} {Q : β → Option Tok → LexSt → Prop}
    (h1 : Run m s Q1)
    (h2 : ∀ a s1, W s1 → Mono s s1 → Keep s s1 → Q1 a s1.current s1.lx → Run (f a) s1 Q) :
    Run (m >>= f) s Q := by
  obtain ⟨a, s1, hr1, hw1, hm1, hk1, hq1⟩ := h1
  obtain ⟨b, s2, hr2, hw2, hm2, hk2, hq2⟩ := h2 a s1 hw1 hm1 hk1 hq1
  refine ⟨b, s2, ?_, hw2, hm1.trans hm2, hk1.trans hm1 hk2 hm2, hq2⟩
  rw [run_bind, hr1]; exact hr2

/-- a step that does not touch `current` and `lx` -/
theorem run_frame {α : Type} (m : PI α) (s : PState) (hw : W s) (a : α) (s' : PState)
    (hr : m.run s = .ok a s') (hc : s'.current = s.current) (hl : s'.lx = s.lx)
    {Q : α → Option Tok → LexSt → Prop} (hq : Q a s.current s.lx) : Run m s Q := by
  exact ⟨a, s', hr, W_congr hc hl hw, Mono_congr hc hl, Keep_congr hc hl, by rw [hc, hl]; exact hq⟩

/-- consuming the current token: strict progress -/
theorem consume_strict (s s' : PState) (hw : W s) (t : Tok) (hc : s.current = some t)
    (hc' : s'.current = none) (hl : s'.lx = s.lx) : Strict s s' ∧ W s' := by
  refine ⟨⟨?_, ?_⟩, ⟨by rw [hl]; exact hw.pos, fun t' h => by simp [hc'] at h, fun t' h => by simp [hc'] at h, fun t' h => by simp [hc'] at h⟩⟩
  · simp [Mm, MmT, hc, hc', hl]
  · simp only [Phi, PhiT, hc, hc', hl]
    by_cases hk : t.kind = .eof
    · have h1 := hw.curEof t hc hk
      have h2 := hw.eof t hc hk
      have h3 := hw.pos
      rw [h2.2.1] at h3
      simp only [utf8Len, List.foldl_nil, Nat.add_zero] at h3
      simp [h2.2.2]; omega
    · have h1 := hw.cur t hc hk
      have := utf8Len_pos h1.1
      omega

theorem peekToken_run (s : PState) (hw : W s) :
    Run peekToken s (fun a c l => a = c ∧ (a = none → l.finished = true)) := by
  cases hc : s.current with
  | some t =>
    have hr : peekToken.run s = .ok (some t) s := by simp [peekToken, hc]
    exact ⟨some t, s, hr, hw, Mono.refl s, Keep.refl s, hc.symm, fun h => by simp at h⟩
  | none =>
    have hr : peekToken.run s = .ok (nextToken s).1 { (nextToken s).2 with current := (nextToken s).1 } := by
      simp [peekToken, hc]
    have nm := nextToken_m s hw.pos
    have sp := nextToken_spec s
    refine ⟨_, _, hr, ?_, ⟨?_, ?_⟩, fun h => by simp [hc] at h, rfl, nm.none⟩
    · refine ⟨by simp only []; rw [nm.total]; exact nm.pos, ?_, ?_, ?_⟩
      · intro t ht hk; exact ((nm.tok t ht).2.2.2.1 hk)
      · intro t ht hk; simp only []; rw [nm.total]; exact (nm.tok t ht).2.2.2.2 hk
      · intro t ht hk; exact sp.eof t ht hk
    · simp only [Mm, MmT, hc, Option.isSome_none, Bool.false_eq_true, if_false, Nat.zero_add]
      cases hn : (nextToken s).1 with
      | none => simpa using nm.lexMono
      | some t => have := (nm.tok t hn).2.1; simp; omega
    · simp only [Phi, PhiT, hc]
      cases hn : (nextToken s).1 with
      | none =>
        have := nm.none hn
        have := nm.posMono
        simp only [*]
        split <;> simp <;> omega
      | some t =>
        have h := nm.tok t hn
        simp only [h.1, Bool.false_eq_true, if_false]
        omega

/-! ### primitives -/

theorem keep_none_strict {s s' : PState} (hk : Keep s s') (hs : s.current.isSome = true) (hn : s'.current = none) :
    Strict s s' := by
  rcases hk hs with ⟨hc, _⟩ | h
  · rw [hn] at hc; rw [← hc] at hs; simp at hs
  · exact h

/-- progress survives later (monotone) steps, and earlier token-preserving ones -/
theorem keep_then_strict {s1 s2 s3 : PState} (hk : Keep s1 s2) (hm : Mono s1 s2)
    (hs : s1.current.isSome = true) (h23 : s2.current.isSome = true → Strict s2 s3) (hm23 : Mono s2 s3) :
    Strict s1 s3 := by
  rcases hk hs with ⟨hc, hl⟩ | h
  · have := h23 (by rw [hc]; exact hs)
    exact ⟨by rw [← Mm_congr hc hl]; exact this.1, by rw [← Phi_congr hc hl]; exact this.2⟩
  · exact h.trans_mono hm23

theorem moveCurToPending_run (s : PState) (hw : W s) :
    Run moveCurToPending s (fun b c l => (b = true → StrictT s c l) ∧
      (b = false → c = s.current ∧ l = s.lx ∧ ∀ t, c = some t → isIgnoredKind t.kind = false)) := by
  cases hc : s.current with
  | none =>
    have hr : moveCurToPending.run s = .ok false s := by simp [moveCurToPending, hc]
    exact ⟨false, s, hr, hw, Mono.refl s, Keep.refl s, fun h => absurd h (by decide), fun _ => ⟨hc, rfl, fun t h => by simp [hc] at h⟩⟩
  | some t =>
    by_cases hig : isIgnoredKind t.kind = true
    · have hr : moveCurToPending.run s = .ok true { s with current := none, pending := s.pending ++ [.ignored t] } := by
        simp [moveCurToPending, hc, hig]
      have hs := consume_strict s { s with current := none, pending := s.pending ++ [.ignored t] } hw t hc rfl rfl
      exact ⟨true, _, hr, hs.2, hs.1.mono, fun _ => Or.inr hs.1, fun _ => hs.1, fun h => absurd h (by decide)⟩
    · have hr : moveCurToPending.run s = .ok false s := by simp [moveCurToPending, hc, hig]
      exact ⟨false, s, hr, hw, Mono.refl s, Keep.refl s, fun h => absurd h (by decide),
        fun _ => ⟨hc, rfl, fun t' h => by rw [hc] at h; cases h; simpa using hig⟩⟩

/-- what holds of the token stream after `skip_ignored` -/
def Skipped (c : Option Tok) (l : LexSt) : Prop :=
  (c = none → l.finished = true) ∧ ∀ t, c = some t → isIgnoredKind t.kind = false

theorem skipIgnoredLoop_run : ∀ (fuel : Nat) (s : PState), W s → Mm s + 1 ≤ fuel →
    Run (skipIgnoredLoop fuel) s (fun _ c l => Skipped c l)
  | 0, s, _, h => by omega
  | fuel + 1, s, hw, hf => by
    unfold skipIgnoredLoop
    apply run_bind' (peekToken_run s hw)
    intro a s1 hw1 hm1 hk1 hq1
    apply run_bind' (moveCurToPending_run s1 hw1)
    intro b s2 hw2 hm2 hk2 hq2
    cases b with
    | true =>
      simp only [if_true]
      have hst := hq2.1 rfl
      exact skipIgnoredLoop_run fuel s2 hw2 (by have := hst.1; have := hm1.1; unfold Mm at *; omega)
    | false =>
      simp only [Bool.false_eq_true, if_false]
      obtain ⟨hc, hl, hig⟩ := hq2.2 rfl
      refine run_pure' () s2 hw2 ⟨?_, hig⟩
      intro hn
      rw [hl]; exact hq1.2 (by rw [hq1.1, ← hc]; exact hn)

theorem Mm_le (s : PState) : Mm s ≤ s.lx.src.length + 2 := by
  simp only [Mm, MmT, lexM]
  split <;> split <;> omega

theorem srcLen_run (s : PState) (hw : W s) :
    Run srcLen s (fun n c l => n = s.lx.src.length ∧ c = s.current ∧ l = s.lx) :=
  ⟨_, s, rfl, hw, Mono.refl s, Keep.refl s, rfl, rfl, rfl⟩

theorem skipIgnored_run (s : PState) (hw : W s) :
    Run skipIgnored s (fun _ c l => Skipped c l) := by
  unfold skipIgnored
  apply run_bind' (srcLen_run s hw)
  intro n s1 hw1 hm1 hk1 hq1
  obtain ⟨rfl, hc, hl⟩ := hq1
  exact skipIgnoredLoop_run _ s1 hw1 (by have := Mm_le s1; rw [hl] at this; omega)

theorem pushIgnored_run (s : PState) (hw : W s) :
    Run pushIgnored s (fun _ c l => c = s.current ∧ l = s.lx) :=
  run_frame pushIgnored s hw () _ rfl rfl rfl ⟨rfl, rfl⟩

theorem getCurrent_run (s : PState) (hw : W s) :
    Run getCurrent s (fun a c l => a = s.current ∧ c = s.current ∧ l = s.lx) :=
  ⟨_, s, rfl, hw, Mono.refl s, Keep.refl s, rfl, rfl, rfl⟩

theorem peekTokenN_run (n : Nat) (s : PState) (hw : W s) :
    Run (peekTokenN n) s (fun _ c l => c = s.current ∧ l = s.lx) :=
  ⟨_, s, rfl, hw, Mono.refl s, Keep.refl s, rfl, rfl⟩

theorem moveCurToTree_run (kind : SK) (s : PState) (hw : W s) :
    Run (moveCurToTree kind) s (fun _ c l => c = none ∧ l = s.lx) := by
  cases hc : s.current with
  | none =>
    have hr : (moveCurToTree kind).run s = .ok () s := by simp [moveCurToTree, hc]
    exact ⟨(), s, hr, hw, Mono.refl s, Keep.refl s, hc, rfl⟩
  | some t =>
    have hr : (moveCurToTree kind).run s = .ok () { s with current := none, builder := { s.builder with children := s.builder.children ++ s.pending.map pendingElem ++ [.tok kind t.data] }, pending := [], deadBranch := s.deadBranch || !s.pending.isEmpty } := by
      simp [moveCurToTree, hc]
    generalize hs' : ({ s with current := none, builder := { s.builder with children := s.builder.children ++ s.pending.map pendingElem ++ [.tok kind t.data] }, pending := [], deadBranch := s.deadBranch || !s.pending.isEmpty } : PState) = s' at hr
    have hc' : s'.current = none := by rw [← hs']
    have hl' : s'.lx = s.lx := by rw [← hs']
    have hs := consume_strict s s' hw t hc hc' hl'
    exact ⟨(), s', hr, hs.2, hs.1.mono, fun _ => Or.inr hs.1, hc', hl'⟩

/-- after `eat`/`bump`/`err_and_pop`: a token was consumed, or the input is exhausted -/
def Consumed (s : PState) (c : Option Tok) (l : LexSt) : Prop :=
  (s.current.isSome = true → StrictT s c l) ∧ (StrictT s c l ∨ (c = none ∧ l.finished = true))

theorem eat_run (kind : SK) (s : PState) (hw : W s) :
    Run (eat kind) s (fun _ c l => c = none ∧ Consumed s c l) := by
  unfold eat
  apply run_bind' (pushIgnored_run s hw)
  intro _ s1 hw1 hm1 hk1 hq1
  apply run_bind' (peekToken_run s1 hw1)
  intro a s2 hw2 hm2 hk2 hq2
  obtain ⟨a', s3, hr, hw3, hm3, hk3, hc3, hl3⟩ := moveCurToTree_run kind s2 hw2
  have hm13 : Mono s1 s3 := hm2.trans hm3
  have hk13 : Keep s1 s3 := hk2.trans hm2 hk3 hm3
  refine ⟨a', s3, hr, hw3, hm3, hk3, hc3, ?_, ?_⟩
  · intro hs
    have hs1 : s1.current.isSome = true := by rw [hq1.1]; exact hs
    have := keep_none_strict hk13 hs1 hc3
    exact ⟨by rw [← Mm_congr hq1.1 hq1.2]; exact this.1, by rw [← Phi_congr hq1.1 hq1.2]; exact this.2⟩
  · cases hcur : s2.current with
    | none =>
      right
      refine ⟨hc3, ?_⟩
      rw [hl3]; exact hq2.2 (by rw [hq2.1]; exact hcur)
    | some t =>
      left
      have hst : Strict s2 s3 := keep_none_strict hk3 (by simp [hcur]) hc3
      have h13 : Strict s1 s3 := hm2.trans_strict hst
      exact ⟨by rw [← Mm_congr hq1.1 hq1.2]; exact h13.1, by rw [← Phi_congr hq1.1 hq1.2]; exact h13.2⟩

theorem strictT_of_congr {s s1 : PState} {c : Option Tok} {l : LexSt} (hc : s1.current = s.current) (hl : s1.lx = s.lx)
    (h : StrictT s1 c l) : StrictT s c l :=
  ⟨by rw [← Mm_congr hc hl]; exact h.1, by rw [← Phi_congr hc hl]; exact h.2⟩

theorem bump_run (kind : SK) (s : PState) (hw : W s) :
    Run (bump kind) s (fun _ c l => Consumed s c l ∧ Skipped c l) := by
  unfold bump
  apply run_bind' (eat_run kind s hw)
  intro _ s1 hw1 hm1 hk1 hq1
  obtain ⟨a, s2, hr, hw2, hm2, hk2, hq2⟩ := skipIgnored_run s1 hw1
  refine ⟨a, s2, hr, hw2, hm2, hk2, ⟨?_, ?_⟩, hq2⟩
  · intro hs
    exact (Strict.trans_mono (hq1.2.1 hs) hm2)
  · rcases hq1.2.2 with hst | ⟨hc, hf⟩
    · exact Or.inl (Strict.trans_mono hst hm2)
    · -- exhausted before: skip_ignored finds nothing
      by_cases hn : s2.current = none
      · right
        exact ⟨hn, hq2.1 hn⟩
      · left
        -- cannot happen, but progress is a consequence anyway: the lexer was finished, so `Mm s1 = 0`
        exfalso
        have h0 : Mm s1 = 0 := by simp [Mm, MmT, lexM, hq1.1, hf]
        have : Mm s2 ≤ Mm s1 := hm2.1
        have h2 : Mm s2 ≥ 1 := by
          cases hc2 : s2.current with
          | none => exact absurd hc2 hn
          | some t => simp [Mm, MmT, hc2]
        omega

theorem errUpdate_run (f : PState → List PErr × Bool) (hf hf2) (s : PState) (hw : W s) :
    Run (errUpdate f hf hf2) s (fun _ c l => c = s.current ∧ l = s.lx) :=
  run_frame _ s hw () { s with errors := (f s).1, acceptErrors := (f s).2 } rfl rfl rfl ⟨rfl, rfl⟩

theorem pushErr_run (e : PErr) (s : PState) (hw : W s) :
    Run (pushErr e) s (fun _ c l => c = s.current ∧ l = s.lx) := errUpdate_run _ _ _ s hw

/-- `err`, `limit_err`, `err_at_token`: only look at the current token -/
def Looked (s : PState) (c : Option Tok) (l : LexSt) : Prop :=
  (c = none → l.finished = true) ∧ (s.current.isSome = true → c = s.current ∧ l = s.lx)

theorem looked_of_peek {s s1 : PState} (hk : Keep s s1) (hm : Mono s s1) {a : Option Tok}
    (hq : a = s1.current ∧ (a = none → s1.lx.finished = true)) (hnostrict : s.current.isSome = true → s1.current = s.current ∧ s1.lx = s.lx) :
    Looked s s1.current s1.lx :=
  ⟨fun h => hq.2 (by rw [hq.1]; exact h), hnostrict⟩

theorem peekToken_run' (s : PState) (hw : W s) :
    Run peekToken s (fun a c l => a = c ∧ Looked s c l) := by
  obtain ⟨a, s1, hr, hw1, hm1, hk1, hq1⟩ := peekToken_run s hw
  refine ⟨a, s1, hr, hw1, hm1, hk1, hq1.1, fun h => hq1.2 (by rw [hq1.1]; exact h), ?_⟩
  intro hs
  cases hc : s.current with
  | none => simp [hc] at hs
  | some t =>
    have : peekToken.run s = .ok (some t) s := by simp [peekToken, hc]
    rw [this] at hr
    cases hr
    exact ⟨hc, rfl⟩

theorem err_run (s : PState) (hw : W s) : Run err s (fun _ c l => Looked s c l) := by
  unfold err
  apply run_bind' (peekToken_run' s hw)
  intro a s1 hw1 hm1 hk1 hq1
  cases a with
  | none => exact run_pure' () s1 hw1 hq1.2
  | some t => exact (pushErr_run _ s1 hw1).weaken (fun _ c l h => by rw [h.1, h.2]; exact hq1.2)

theorem limitErr_run (s : PState) (hw : W s) : Run limitErr s (fun _ c l => Looked s c l) := by
  unfold limitErr
  apply run_bind' (peekToken_run' s hw)
  intro a s1 hw1 hm1 hk1 hq1
  cases a with
  | none => exact run_pure' () s1 hw1 hq1.2
  | some t => exact (errUpdate_run _ _ _ s1 hw1).weaken (fun _ c l h => by rw [h.1, h.2]; exact hq1.2)

theorem errAtToken_run (t : Tok) (s : PState) (hw : W s) :
    Run (errAtToken t) s (fun _ c l => c = s.current ∧ l = s.lx) := pushErr_run _ s hw

theorem peek_run' (s : PState) (hw : W s) :
    Run peek s (fun k c l => k = c.map (·.kind) ∧ Looked s c l) := by
  unfold peek
  apply run_bind' (peekToken_run' s hw)
  intro a s1 hw1 hm1 hk1 hq1
  exact run_pure' _ s1 hw1 ⟨by rw [hq1.1], hq1.2⟩

theorem peekData_run' (s : PState) (hw : W s) :
    Run peekData s (fun k c l => k = c.map (·.data) ∧ Looked s c l) := by
  unfold peekData
  apply run_bind' (peekToken_run' s hw)
  intro a s1 hw1 hm1 hk1 hq1
  exact run_pure' _ s1 hw1 ⟨by rw [hq1.1], hq1.2⟩

theorem errAndPop_run (s : PState) (hw : W s) :
    Run errAndPop s (fun _ c l => Consumed s c l) := by
  unfold errAndPop
  apply run_bind' (pushIgnored_run s hw)
  intro _ s1 hw1 hm1 hk1 hq1
  apply run_bind' (peekToken_run' s1 hw1)
  intro a s2 hw2 hm2 hk2 hq2
  cases a with
  | none =>
    refine run_pure' () s2 hw2 ⟨?_, Or.inr ⟨hq2.1.symm, hq2.2.1 hq2.1.symm⟩⟩
    intro hs
    have := hq2.2.2 (by rw [hq1.1]; exact hs)
    rw [← hq2.1, hq1.1] at this
    rw [← this.1] at hs; simp at hs
  | some t =>
    simp only []
    apply run_bind' (moveCurToTree_run "ERROR" s2 hw2)
    intro _ s3' hw3' hm3' hk3' hq3'
    apply run_bind' (pushErr_run _ s3' hw3')
    intro _ s4 hw4 hm4 hk4 hq4
    obtain ⟨a5, s5, hr5, hw5, hm5, hk5, hq5⟩ := skipIgnored_run s4 hw4
    have hst' : Strict s2 s3' := keep_none_strict hk3' (by rw [← hq2.1]; rfl) hq3'.1
    have hs25 : Strict s2 s5 := (hst'.trans_mono hm4).trans_mono hm5
    have hs15 : Strict s1 s5 := hm2.trans_strict hs25
    have : StrictT s s5.current s5.lx := strictT_of_congr hq1.1 hq1.2 hs15
    exact ⟨a5, s5, hr5, hw5, hm5, hk5, fun _ => this, Or.inl this⟩

theorem popDrop_run (s : PState) (hw : W s) :
    Run popDrop s (fun a c l => a = s.current ∧ c = none ∧ l = s.lx) := by
  cases hc : s.current with
  | none =>
    have hr : popDrop.run s = .ok none { s with deadBranch := true } := by simp [popDrop, hc]
    exact run_frame popDrop s hw none _ hr rfl rfl ⟨rfl, hc, rfl⟩
  | some t =>
    have hr : popDrop.run s = .ok (some t) { s with current := none, dropped := s.dropped || !t.data.isEmpty } := by
      simp [popDrop, hc]
    have hs := consume_strict s { s with current := none, dropped := s.dropped || !t.data.isEmpty } hw t hc rfl rfl
    exact ⟨some t, _, hr, hs.2, hs.1.mono, fun _ => Or.inr hs.1, rfl, rfl, rfl⟩

theorem expect_run (token : Kind) (kind : SK) (s : PState) (hw : W s) :
    Run (expect token kind) s (fun _ c l => (c = none → l.finished = true) ∧
      (∀ t, s.current = some t → t.kind = token → StrictT s c l)) := by
  unfold expect
  apply run_bind' (peekToken_run' s hw)
  intro a s1 hw1 hm1 hk1 hq1
  cases a with
  | none =>
    refine run_pure' () s1 hw1 ⟨hq1.2.1, ?_⟩
    intro t ht _
    have := hq1.2.2 (by simp [ht])
    rw [← hq1.1, ht] at this
    simp at this
  | some t =>
    simp only []
    by_cases hk : (t.kind == token) = true
    · simp only [hk, if_true]
      refine (bump_run kind s1 hw1).weaken ?_
      intro _ c l h
      refine ⟨h.2.1, ?_⟩
      intro t' ht' _
      have hsame := hq1.2.2 (by simp [ht'])
      exact strictT_of_congr hsame.1 hsame.2 (h.1.1 (by rw [← hq1.1]; rfl))
    · simp only [hk, Bool.false_eq_true, if_false]
      refine (pushErr_run _ s1 hw1).weaken ?_
      intro _ c l h
      rw [h.1, h.2]
      refine ⟨hq1.2.1, ?_⟩
      intro t' ht' hk'
      have hsame := hq1.2.2 (by simp [ht'])
      rw [← hq1.1, ht'] at hsame
      simp only [Option.some.injEq] at hsame
      rw [← hsame.1] at hk'
      simp [hk'] at hk

/-! ### termination predicate for grammar code (panics are excluded separately, by `PI.ok`) -/

/-- `m` run from `s` does not abort; if it ends normally, the final state satisfies `W`, no measure
    went backwards, the current token was kept or progress was made, and `Q` holds -/
def Term {α : Type} (m : PI α) (s : PState) (Q : α → Option Tok → LexSt → Prop) : Prop :=
  (∀ w, m.run s ≠ .abort w) ∧
  ∀ a s', m.run s = .ok a s' → W s' ∧ Mono s s' ∧ Keep s s' ∧ Q a s'.current s'.lx

theorem Run.term {α : Type} {m : PI α} {s : PState} {Q : α → Option Tok → LexSt → Prop} (h : Run m s Q) :
    Term m s Q := by
  obtain ⟨a, s', hr, hw, hm, hk, hq⟩ := h
  refine ⟨fun w => by rw [hr]; simp, ?_⟩
  intro a2 s2 hr2
  rw [hr] at hr2
  cases hr2
  exact ⟨hw, hm, hk, hq⟩

theorem Term.weaken {α : Type} {m : PI α} {s : PState} {Q Q' : α → Option Tok → LexSt → Prop}
    (h : Term m s Q) (hq : ∀ a c l, Q a c l → Q' a c l) : Term m s Q' :=
  ⟨h.1, fun a s' hr => let r := h.2 a s' hr; ⟨r.1, r.2.1, r.2.2.1, hq a _ _ r.2.2.2⟩⟩

theorem term_pure {α : Type} (a : α) (s : PState) (hw : W s) {Q : α → Option Tok → LexSt → Prop}
    (hq : Q a s.current s.lx) : Term (pure a : PI α) s Q := (run_pure' a s hw hq).term

theorem term_bind {α β : Type} {m : PI α} {f : α → PI β} {s : PState}
    {Q1 : α → Option Tok → LexSt → Prop} {Q : β → Option Tok → LexSt → Prop}
    (h1 : Term m s Q1)
    (h2 : ∀ a s1, W s1 → Mono s s1 → Keep s s1 → Q1 a s1.current s1.lx → Term (f a) s1 Q) :
    Term (m >>= f) s Q := by
  refine ⟨?_, ?_⟩
  · intro w
    rw [run_bind]
    cases hr : m.run s with
    | ok a s1 =>
      obtain ⟨hw1, hm1, hk1, hq1⟩ := h1.2 a s1 hr
      exact (h2 a s1 hw1 hm1 hk1 hq1).1 w
    | abort w' => exact absurd hr (h1.1 w')
    | panic msg => simp
  · intro b s2 hrb
    rw [run_bind] at hrb
    cases hr : m.run s with
    | ok a s1 =>
      rw [hr] at hrb
      obtain ⟨hw1, hm1, hk1, hq1⟩ := h1.2 a s1 hr
      obtain ⟨hw2, hm2, hk2, hq2⟩ := (h2 a s1 hw1 hm1 hk1 hq1).2 b s2 hrb
      exact ⟨hw2, hm1.trans hm2, hk1.trans hm1 hk2 hm2, hq2⟩
    | abort w' => rw [hr] at hrb; simp at hrb
    | panic msg => rw [hr] at hrb; simp at hrb

/-- transport along a change of the non-token parts of the state -/
theorem Term.congr_post {α : Type} {s s0 : PState} (hc : s0.current = s.current) (hl : s0.lx = s.lx)
    {s2 s2' : PState} (hc2 : s2'.current = s2.current) (hl2 : s2'.lx = s2.lx)
    {Q : α → Option Tok → LexSt → Prop} {a : α}
    (h : W s2 ∧ Mono s0 s2 ∧ Keep s0 s2 ∧ Q a s2.current s2.lx) :
    W s2' ∧ Mono s s2' ∧ Keep s s2' ∧ Q a s2'.current s2'.lx := by
  obtain ⟨hw, hm, hk, hq⟩ := h
  refine ⟨W_congr hc2 hl2 hw, ?_, ?_, by rw [hc2, hl2]; exact hq⟩
  · exact ⟨by rw [Mm_congr hc2 hl2, ← Mm_congr hc hl]; exact hm.1, by rw [Phi_congr hc2 hl2, ← Phi_congr hc hl]; exact hm.2⟩
  · intro hs
    rcases hk (by rw [hc]; exact hs) with ⟨h1, h2⟩ | hst
    · exact Or.inl ⟨by rw [hc2, h1, hc], by rw [hl2, h2, hl]⟩
    · exact Or.inr ⟨by rw [Mm_congr hc2 hl2, ← Mm_congr hc hl]; exact hst.1,
        by rw [Phi_congr hc2 hl2, ← Phi_congr hc hl]; exact hst.2⟩

theorem withNode_term {α : Type} (kind : SK) (body : PI α) (s : PState) (hw : W s)
    {Q : α → Option Tok → LexSt → Prop}
    (h : ∀ s1, W s1 → s1.current = s.current → s1.lx = s.lx → Term (skipIgnored >>= fun _ => body) s1 Q) :
    Term (withNode kind body) s Q := by
  have e1 : pushIgnored.run s = .ok () { s with builder := { s.builder with children := s.builder.children ++ s.pending.map pendingElem }, pending := [] } := rfl
  generalize hs1 : rawStartNode kind { s with builder := { s.builder with children := s.builder.children ++ s.pending.map pendingElem }, pending := [] } = s1 at *
  have hc1 : s1.current = s.current := by rw [← hs1]; rfl
  have hl1 : s1.lx = s.lx := by rw [← hs1]; rfl
  have ht := h s1 (W_congr hc1 hl1 hw) hc1 hl1
  have hrun : (withNode kind body).run s = match (skipIgnored >>= fun _ => body).run s1 with
      | .ok a s2 => (match s2.builder.finishNode with
          | some b => .ok a { s2 with builder := b }
          | none => .panic "finish_node: no open node")
      | .abort w => .abort w
      | .panic m => .panic m := by
    simp only [withNode, e1, hs1]
    rfl
  refine ⟨?_, ?_⟩
  · intro w
    rw [hrun]
    cases hr : (skipIgnored >>= fun _ => body).run s1 with
    | ok a s2 => simp only []; cases s2.builder.finishNode <;> simp
    | abort w' => exact absurd hr (ht.1 w')
    | panic m => simp
  · intro a s' hr'
    rw [hrun] at hr'
    cases hr : (skipIgnored >>= fun _ => body).run s1 with
    | ok a2 s2 =>
      rw [hr] at hr'
      simp only [] at hr'
      cases hf : s2.builder.finishNode with
      | none => rw [hf] at hr'; simp at hr'
      | some b =>
        rw [hf] at hr'
        simp only [Res.ok.injEq] at hr'
        obtain ⟨rfl, rfl⟩ := hr'
        apply Term.congr_post hc1 hl1 (s2 := s2) _ _ (ht.2 a2 s2 hr) <;> rfl
    | abort w' => rw [hr] at hr'; simp at hr'
    | panic m => rw [hr] at hr'; simp at hr'

theorem withRec_term {α : Type} (onLimit body : PI α) (s : PState) (hw : W s)
    {Q : α → Option Tok → LexSt → Prop}
    (h1 : ∀ s1, W s1 → s1.current = s.current → s1.lx = s.lx → Term onLimit s1 Q)
    (h2 : ∀ s1, W s1 → s1.current = s.current → s1.lx = s.lx → Term body s1 Q) :
    Term (withRec onLimit body) s Q := by
  by_cases hlim : s.recCur + 1 > s.recLimit
  · generalize hs1 : ({ s with recHigh := if s.recCur + 1 > s.recHigh then s.recCur + 1 else s.recHigh } : PState) = s1
    have hc1 : s1.current = s.current := by rw [← hs1]
    have hl1 : s1.lx = s.lx := by rw [← hs1]
    have ht := h1 s1 (W_congr hc1 hl1 hw) hc1 hl1
    have hrun : (withRec onLimit body).run s = onLimit.run s1 := by
      simp only [withRec, hlim, if_true, hs1]
    refine ⟨fun w => by rw [hrun]; exact ht.1 w, ?_⟩
    intro a s' hr'
    rw [hrun] at hr'
    apply Term.congr_post hc1 hl1 (s2 := s') _ _ (ht.2 a s' hr') <;> rfl
  · generalize hs1 : ({ s with recCur := s.recCur + 1, recHigh := if s.recCur + 1 > s.recHigh then s.recCur + 1 else s.recHigh } : PState) = s1
    have hc1 : s1.current = s.current := by rw [← hs1]
    have hl1 : s1.lx = s.lx := by rw [← hs1]
    have ht := h2 s1 (W_congr hc1 hl1 hw) hc1 hl1
    have hrun : (withRec onLimit body).run s = match body.run s1 with
        | .ok a s' => if s'.recCur = 0 then .panic "recursion_limit.decrement: underflow" else .ok a { s' with recCur := s'.recCur - 1 }
        | .abort w => .abort w
        | .panic m => .panic m := by
      simp only [withRec, hlim, if_false, hs1]
      rfl
    refine ⟨?_, ?_⟩
    · intro w
      rw [hrun]
      cases hr : body.run s1 with
      | ok a s2 => simp only []; split <;> simp
      | abort w' => exact absurd hr (ht.1 w')
      | panic m => simp
    · intro a s' hr'
      rw [hrun] at hr'
      cases hr : body.run s1 with
      | ok a2 s2 =>
        rw [hr] at hr'
        simp only [] at hr'
        by_cases h0 : s2.recCur = 0
        · simp [h0] at hr'
        · simp only [h0, if_false, Res.ok.injEq] at hr'
          obtain ⟨rfl, rfl⟩ := hr'
          apply Term.congr_post hc1 hl1 (s2 := s2) _ _ (ht.2 a2 s2 hr) <;> rfl
      | abort w' => rw [hr] at hr'; simp at hr'
      | panic m => rw [hr] at hr'; simp at hr'

theorem wrapIf_term {α : Type} (kind : SK) (body : PI α) (cond : α → PI Bool) (inner : PI Unit) (s : PState) (hw : W s)
    {Q1 : α × Bool → Option Tok → LexSt → Prop} {Q : α → Option Tok → LexSt → Prop}
    (hb : ∀ s1, W s1 → s1.current = s.current → s1.lx = s.lx →
      Term (body >>= fun a => cond a >>= fun c => pure (a, c)) s1 Q1)
    (hin : ∀ a s2, W s2 → Mono s s2 → Keep s s2 → Q1 (a, true) s2.current s2.lx → Term inner s2 (fun _ c l => Q a c l))
    (hfalse : ∀ a c l, Q1 (a, false) c l → Q a c l) :
    Term (wrapIf kind body cond inner) s Q := by
  have e1 : pushIgnored.run s = .ok () { s with builder := { s.builder with children := s.builder.children ++ s.pending.map pendingElem }, pending := [] } := rfl
  generalize hs1 : ({ s with builder := { s.builder with children := s.builder.children ++ s.pending.map pendingElem }, pending := [] } : PState) = s1 at *
  have hc1 : s1.current = s.current := by rw [← hs1]
  have hl1 : s1.lx = s.lx := by rw [← hs1]
  have ht := hb s1 (W_congr hc1 hl1 hw) hc1 hl1
  have hrun : (wrapIf kind body cond inner).run s =
      match (body >>= fun a => cond a >>= fun c => pure (a, c)).run s1 with
      | .ok (a, c) s2 =>
        if c then
          match s2.builder.startNodeAt s1.builder.checkpoint kind with
          | none => .panic "start_node_at: checkpoint no longer valid"
          | some b =>
            match inner.run { s2 with builder := b } with
            | .ok _ s3 =>
              match s3.builder.finishNode with
              | some b' => .ok a { s3 with builder := b' }
              | none => .panic "finish_node: no open node"
            | .abort w => .abort w
            | .panic m => .panic m
        else .ok a s2
      | .abort w => .abort w
      | .panic m => .panic m := by
    simp only [wrapIf, e1]
    rfl
  -- facts about the run of `inner`, given the first part ended in `s2` with `c = true`
  have key : ∀ a s2, (body >>= fun a => cond a >>= fun c => pure (a, c)).run s1 = .ok (a, true) s2 → ∀ b,
      Term inner { s2 with builder := b } (fun _ c l => Q a c l) ∧ Mono s s2 ∧ Keep s s2 := by
    intro a s2 hr b
    have hp := ht.2 (a, true) s2 hr
    have hp' := Term.congr_post hc1 hl1 (s2 := s2) (s2' := s2) rfl rfl hp
    exact ⟨hin a _ (W_congr (s := s2) rfl rfl hp.1) (Term.congr_post hc1 hl1 (s2 := s2) (s2' := { s2 with builder := b }) rfl rfl hp).2.1
      (Term.congr_post hc1 hl1 (s2 := s2) (s2' := { s2 with builder := b }) rfl rfl hp).2.2.1 hp.2.2.2, hp'.2.1, hp'.2.2.1⟩
  refine ⟨?_, ?_⟩
  · intro w
    rw [hrun]
    cases hr : (body >>= fun a => cond a >>= fun c => pure (a, c)).run s1 with
    | ok ac s2 =>
      obtain ⟨a, c⟩ := ac
      cases c with
      | false => simp
      | true =>
        simp only [if_true]
        cases hsn : s2.builder.startNodeAt s1.builder.checkpoint kind with
        | none => simp
        | some b =>
          simp only []
          have hk := (key a s2 hr b).1
          cases hr3 : inner.run { s2 with builder := b } with
          | ok u s3 => simp only []; cases s3.builder.finishNode <;> simp
          | abort w' => exact absurd hr3 (hk.1 w')
          | panic m => simp
    | abort w' => exact absurd hr (ht.1 w')
    | panic m => simp
  · intro a' s' hr'
    rw [hrun] at hr'
    cases hr : (body >>= fun a => cond a >>= fun c => pure (a, c)).run s1 with
    | ok ac s2 =>
      obtain ⟨a, c⟩ := ac
      rw [hr] at hr'
      cases c with
      | false =>
        simp only [Bool.false_eq_true, if_false, Res.ok.injEq] at hr'
        obtain ⟨rfl, rfl⟩ := hr'
        have hp := ht.2 (a, false) s2 hr
        have := Term.congr_post hc1 hl1 (s2 := s2) (s2' := s2) rfl rfl hp
        exact ⟨this.1, this.2.1, this.2.2.1, hfalse a _ _ this.2.2.2⟩
      | true =>
        simp only [if_true] at hr'
        cases hsn : s2.builder.startNodeAt s1.builder.checkpoint kind with
        | none => rw [hsn] at hr'; simp at hr'
        | some b =>
          rw [hsn] at hr'
          simp only [] at hr'
          obtain ⟨hk, hm2, hk2⟩ := key a s2 hr b
          cases hr3 : inner.run { s2 with builder := b } with
          | ok u s3 =>
            rw [hr3] at hr'
            simp only [] at hr'
            cases hf : s3.builder.finishNode with
            | none => rw [hf] at hr'; simp at hr'
            | some b' =>
              rw [hf] at hr'
              simp only [Res.ok.injEq] at hr'
              obtain ⟨rfl, rfl⟩ := hr'
              obtain ⟨hw3, hm3, hk3, hq3⟩ := hk.2 u s3 hr3
              have hm23 : Mono s2 s3 := ⟨hm3.1, hm3.2⟩
              have hk23 : Keep s2 s3 := hk3
              refine ⟨W_congr (s := s3) rfl rfl hw3, ?_, ?_, hq3⟩
              · exact hm2.trans ⟨hm3.1, hm3.2⟩
              · exact hk2.trans hm2 hk23 hm23
          | abort w' => rw [hr3] at hr'; simp at hr'
          | panic m => rw [hr3] at hr'; simp at hr'
    | abort w' => rw [hr] at hr'; simp at hr'
    | panic m => rw [hr] at hr'; simp at hr'

/-! ### loops: no `stuck`, fuel `Mm s + 1` suffices -/

theorem beq_current_false {a b : Option Tok} (h : b ≠ a) : (a == b) = false := by
  cases hab : (a == b) with
  | false => rfl
  | true => exact absurd (beq_iff_eq.mp hab).symm h

theorem peekWhileLoop_term (body : Kind → PI Bool) : ∀ (fuel : Nat) (s : PState), W s → Mm s + 1 ≤ fuel →
    (∀ kind s1, W s1 → Mm s1 ≤ Mm s → (∃ t, s1.current = some t ∧ t.kind = kind) →
      Term (body kind) s1 (fun b c l => b = true → StrictT s1 c l)) →
    Term (peekWhileLoop body fuel) s (fun _ _ _ => True)
  | 0, s, _, h, _ => by omega
  | fuel + 1, s, hw, hf, hbody => by
    unfold peekWhileLoop
    apply term_bind (peek_run' s hw).term
    intro k s1 hw1 hm1 hk1 hq1
    cases k with
    | none => exact term_pure () s1 hw1 trivial
    | some kind =>
      simp only []
      apply term_bind (getCurrent_run s1 hw1).term
      intro before s2 hw2 hm2 hk2 hq2
      obtain ⟨rfl, hc2, hl2⟩ := hq2
      have hcur : ∃ t, s2.current = some t ∧ t.kind = kind := by
        rw [hc2]
        cases hc : s1.current with
        | none => rw [hc] at hq1; simp at hq1
        | some t => rw [hc] at hq1; simp at hq1; exact ⟨t, rfl, hq1.1.symm⟩
      have hM2 : Mm s2 ≤ Mm s := by rw [Mm_congr hc2 hl2]; exact hm1.1
      apply term_bind (hbody kind s2 hw2 hM2 hcur)
      intro b s3 hw3 hm3 hk3 hq3
      cases b with
      | false => simp only [Bool.false_eq_true, if_false]; exact term_pure () s3 hw3 trivial
      | true =>
        simp only [if_true]
        apply term_bind (getCurrent_run s3 hw3).term
        intro after s4 hw4 hm4 hk4 hq4
        obtain ⟨rfl, hc4, hl4⟩ := hq4
        have hst : Strict s2 s3 := hq3 rfl
        have hne : s3.current ≠ s1.current := by
          rw [← hc2]
          exact strict_current_ne hst (by obtain ⟨t, ht, _⟩ := hcur; simp [ht])
        rw [beq_current_false hne]
        simp only [Bool.false_eq_true, if_false]
        have hM4 : Mm s4 < Mm s2 := by rw [Mm_congr hc4 hl4]; exact hst.1
        exact peekWhileLoop_term body fuel s4 hw4 (by omega)
          (fun kind' s5 hw5 hM5 hc5 => hbody kind' s5 hw5 (by omega) hc5)

theorem peekWhile_term (body : Kind → PI Bool) (s : PState) (hw : W s)
    (hbody : ∀ kind s1, W s1 → Mm s1 ≤ Mm s → (∃ t, s1.current = some t ∧ t.kind = kind) →
      Term (body kind) s1 (fun b c l => b = true → StrictT s1 c l)) :
    Term (peekWhile body) s (fun _ _ _ => True) := by
  unfold peekWhile
  apply term_bind (srcLen_run s hw).term
  intro n s1 hw1 hm1 hk1 hq1
  obtain ⟨rfl, hc, hl⟩ := hq1
  have hM : Mm s1 = Mm s := Mm_congr hc hl
  exact peekWhileLoop_term body _ s1 hw1 (by have := Mm_le s; omega)
    (fun kind s2 hw2 hM2 hc2 => hbody kind s2 hw2 (by omega) hc2)

theorem peekWhileKindLoop_term (expectK : Kind) (body : PI Unit) : ∀ (fuel : Nat) (s : PState), W s → Mm s + 1 ≤ fuel →
    (∀ s1, W s1 → Mm s1 ≤ Mm s → (∃ t, s1.current = some t ∧ t.kind = expectK) →
      Term body s1 (fun _ c l => StrictT s1 c l)) →
    Term (peekWhileKindLoop expectK body fuel) s (fun _ _ _ => True)
  | 0, s, _, h, _ => by omega
  | fuel + 1, s, hw, hf, hbody => by
    unfold peekWhileKindLoop
    apply term_bind (peek_run' s hw).term
    intro k s1 hw1 hm1 hk1 hq1
    cases k with
    | none => exact term_pure () s1 hw1 trivial
    | some kind =>
      simp only []
      by_cases hkk : (kind != expectK) = true
      · simp only [hkk, if_true]; exact term_pure () s1 hw1 trivial
      · simp only [hkk, Bool.false_eq_true, if_false]
        have hke : kind = expectK := by simpa using hkk
        apply term_bind (getCurrent_run s1 hw1).term
        intro before s2 hw2 hm2 hk2 hq2
        obtain ⟨rfl, hc2, hl2⟩ := hq2
        have hcur : ∃ t, s2.current = some t ∧ t.kind = expectK := by
          rw [hc2]
          cases hc : s1.current with
          | none => rw [hc] at hq1; simp at hq1
          | some t => rw [hc] at hq1; simp at hq1; exact ⟨t, rfl, by rw [← hke]; exact hq1.1.symm⟩
        have hM2 : Mm s2 ≤ Mm s := by rw [Mm_congr hc2 hl2]; exact hm1.1
        apply term_bind (hbody s2 hw2 hM2 hcur)
        intro _ s3 hw3 hm3 hk3 hq3
        apply term_bind (getCurrent_run s3 hw3).term
        intro after s4 hw4 hm4 hk4 hq4
        obtain ⟨rfl, hc4, hl4⟩ := hq4
        have hst : Strict s2 s3 := hq3
        have hne : s3.current ≠ s1.current := by
          rw [← hc2]
          exact strict_current_ne hst (by obtain ⟨t, ht, _⟩ := hcur; simp [ht])
        rw [beq_current_false hne]
        simp only [Bool.false_eq_true, if_false]
        have hM4 : Mm s4 < Mm s2 := by rw [Mm_congr hc4 hl4]; exact hst.1
        exact peekWhileKindLoop_term expectK body fuel s4 hw4 (by omega)
          (fun s5 hw5 hM5 hc5 => hbody s5 hw5 (by omega) hc5)

theorem peekWhileKind_term (expectK : Kind) (body : PI Unit) (s : PState) (hw : W s)
    (hbody : ∀ s1, W s1 → Mm s1 ≤ Mm s → (∃ t, s1.current = some t ∧ t.kind = expectK) →
      Term body s1 (fun _ c l => StrictT s1 c l)) :
    Term (peekWhileKind expectK body) s (fun _ _ _ => True) := by
  unfold peekWhileKind
  apply term_bind (srcLen_run s hw).term
  intro n s1 hw1 hm1 hk1 hq1
  obtain ⟨rfl, hc, hl⟩ := hq1
  have hM : Mm s1 = Mm s := Mm_congr hc hl
  exact peekWhileKindLoop_term expectK body _ s1 hw1 (by have := Mm_le s; omega)
    (fun s2 hw2 hM2 hc2 => hbody s2 hw2 (by omega) hc2)

end Apollo.Parse
