import ApolloModel.Proofs.ParserExactC22
import ApolloModel.Proofs.ParserComplete23
/-
EXACT-BUDGET COPY of ParserComplete23 (namespace Apollo.Parse.Exact, exact `vdepth`).
C05 growth (completeness of the whole Document grammar), part 23: the seven type-system extensions
(`extend schema|scalar|type|interface|union|enum|input`), each needing at least one component (`meets`).
-/
set_option linter.unusedSimpArgs false
namespace Apollo.Parse.Exact
open Apollo.Rowan hiding Str
open Apollo.Lex hiding Str

/-- `if peek == k0 { m; restT } else { restF }` with different continuations -/
theorem cmp_optKind2 {α : Type} {Hk : Kind → Prop} (k0 : Kind) (m : PI Unit) (restT restF : PI α)
    {Lm LT LF : Nat → List Ast.Tok → Prop} {Fm F : Kind → Prop} {Q : α → Prop}
    (hm : Cmp (fun _ => True) m Lm Fm (fun _ => True)) (hT : Cmp (fun _ => True) restT LT F Q)
    (hF : Cmp (fun _ => True) restF LF F Q)
    (hmhead : ∀ b x, Lm b x → ∃ a x', x = a :: x' ∧ kindOfA a = k0)
    (hThead : ∀ b a x, LT b (a :: x) → Fm (kindOfA a)) (hFm : ∀ k, F k → Fm k)
    (hFhead : ∀ b a x, LF b (a :: x) → kindOfA a ≠ k0) (hF0 : ∀ k, F k → k ≠ k0) :
    Cmp Hk (optKind2 k0 m restT restF)
      (fun b x => (∃ x1 x2, x = x1 ++ x2 ∧ Lm b x1 ∧ LT b x2) ∨ LF b x) F Q := by
  intro s s' a c x q0 rst w hrun hl hs ht hq hf _
  unfold optKind2 at hrun
  obtain ⟨ko, sP, hp, h2⟩ := bind_dec peek _ s s' a hrun
  obtain ⟨t, tl, htt, hkt⟩ := headK_toks c q0 rst
  obtain ⟨hko, eP, htP, _⟩ := peek_head s sP ko t tl w (by rw [ht]; exact htt) hp
  subst hko
  have hb : sP.recLimit - sP.recCur = s.recLimit - s.recCur := by rw [eP.recLimit, eP.recCur]
  have hTP : Toks sP = c ++ q0 :: rst := by rw [htP, ← htt]
  rcases hl with ⟨x1, x2, rfl, hl1, hl2⟩ | hl
  · obtain ⟨a1, x1', rfl, hk1⟩ := hmhead _ _ hl1
    obtain ⟨t1, tl1, hc, hta⟩ := spells_head (x := x1' ++ x2) (by simpa using hs)
    have hkk : t.kind = k0 := by
      rw [hkt, hc]; simp only [headK]; rw [kind_of_astOfV hta, hk1]
    simp only [hkk, beq_self_eq_true, if_true] at h2
    have hcomb := cmp_bind (Hk := fun _ => True) (F := F) hm (fun _ _ => hT) hThead hFm (fun _ h => h)
    obtain ⟨e, t2, q⟩ := hcomb sP s' a c _ q0 rst eP.w h2 ⟨_, _, rfl, by rw [hb]; exact hl1, by rw [hb]; exact hl2⟩ hs hTP hq hf trivial
    exact ⟨by simpa using eP.trans e, t2, q⟩
  · have hkk : (some t.kind == some k0) = false := by
      have : t.kind ≠ k0 := by
        rw [hkt]
        cases x with
        | nil =>
          have := spells_nil_inv hs
          subst this
          exact hF0 _ hf
        | cons a2 x2' =>
          obtain ⟨t1, tl1, hc, hta⟩ := spells_head hs
          rw [hc]; simp only [headK]; rw [kind_of_astOfV hta]
          exact hFhead _ _ _ hl
      simpa using this
    simp only [hkk, Bool.false_eq_true, if_false] at h2
    obtain ⟨e, t2, q⟩ := hF sP s' a c x q0 rst eP.w h2 (by rw [hb]; exact hl) hs hTP hq hf trivial
    exact ⟨by simpa using eP.trans e, t2, q⟩

/-- the end of an extension: an error unless a component was met -/
theorem cmp_extEnd {Hk F : Kind → Prop} (meets : Bool) :
    Cmp Hk (extEnd meets) (fun _ x => x = [] ∧ meets = true) F (fun _ => True) := by
  intro s s' a c x q0 rst w hrun hl hs ht hq hf hk
  obtain ⟨rfl, rfl⟩ := hl
  unfold extEnd at hrun
  simp only [Bool.not_true, Bool.false_eq_true, if_false] at hrun
  obtain ⟨e, t, _⟩ := (cmp_pure Hk F ()) s s' a c [] q0 rst w hrun rfl hs ht hq hf hk
  exact ⟨e, t, trivial⟩

/-- `Body?` at the end of an extension -/
theorem cmp_extBodyK {Hk : Kind → Prop} (k0 : Kind) (body : PI Unit) (meets : Bool) {Lb : Nat → List Ast.Tok → Prop} {Fb : Kind → Prop}
    (hb : Cmp (fun _ => True) body Lb Fb (fun _ => True)) (hbhead : ∀ b x, Lb b x → ∃ a x', x = a :: x' ∧ kindOfA a = k0) :
    Cmp Hk (extBodyK k0 body meets) (fun b x => Lb b x ∨ (x = [] ∧ meets = true)) (fun k => k ≠ k0 ∧ Fb k) (fun _ => True) := by
  unfold extBodyK
  have := cmp_optKind2 (Hk := Hk) (F := fun k => k ≠ k0 ∧ Fb k) k0 body (extEnd true) (extEnd meets) hb
    (cmp_extEnd (Hk := fun _ => True) true) (cmp_extEnd (Hk := fun _ => True) meets) hbhead
    (by rintro b a x ⟨h, _⟩; cases h) (fun k h => h.2) (by rintro b a x ⟨h, _⟩; cases h) (fun k h => h.1)
  refine this.mono (fun _ h => h) ?_ (fun _ h => h) (fun _ h => h)
  rintro b x (h | h)
  · exact Or.inl ⟨x, [], by simp, h, rfl, rfl⟩
  · exact Or.inr h

/-- `Directives?` in an extension, followed by `next` which is told whether a component was met -/
theorem cmp_extDirs {Hk : Kind → Prop} (n : Nat) (next : Bool → PI Unit) (meets : Bool) {Ln : Bool → Nat → List Ast.Tok → Prop} {F : Kind → Prop}
    (hn : ∀ m, Cmp (fun _ => True) (next m) (Ln m) F (fun _ => True))
    (hnhead : ∀ m b a x, Ln m b (a :: x) → kindOfA a ≠ .at ∧ kindOfA a ≠ .lParen) (hF : ∀ k, F k → k ≠ .at ∧ k ≠ .lParen) :
    Cmp Hk (extDirs n next meets)
      (fun b x => ∃ ds x2, x = Ast.tDirectives ds ++ x2 ∧ dirsFit true b ds ∧ Ln (meets || !ds.isEmpty) b x2) F (fun _ => True) := by
  unfold extDirs
  have := cmp_optKind2 (Hk := Hk) (F := F) .at (directives n true) (next true) (next meets) (cmp_directivesNeB n true) (hn true) (hn meets)
    (fun b x h => ldirsNeB_head h) (fun b a x h => hnhead true b a x h) hF (fun b a x h => (hnhead meets b a x h).1) (fun k h => (hF k h).1)
  refine this.mono (fun _ h => h) ?_ (fun _ h => h) (fun _ h => h)
  rintro b x ⟨ds, x2, rfl, hd, h2⟩
  cases ds with
  | nil => right; simpa [Ast.tDirectives] using h2
  | cons d r => left; exact ⟨_, x2, rfl, ⟨d :: r, by simp, rfl, hd⟩, by simpa using h2⟩

/-- `extend keyword tail` -/
theorem cmpT_ext {Hk : Kind → Prop} (w : String) (sk1 sk2 : SK) (tail : PI Unit) {Lt : Nat → List Ast.Tok → Prop} {F : Tok → Prop}
    (ht : CmpT (fun _ => True) tail Lt F (fun _ => True)) :
    CmpT Hk (bump sk1 >>= fun _ => bump sk2 >>= fun _ => tail) (fun b x => ∃ x2, x = kwE w ++ x2 ∧ Lt b x2) F (fun _ => True) := by
  have h2 := cmpT_bindK (Hk := fun _ => True) (F := F) (cmp_bump sk2) (fun _ _ => ht)
  have h1 := cmpT_bindK (Hk := Hk) (F := F)
    ((cmp_bump sk1).mono (fun _ _ => trivial) (fun _ _ h => h) (fun _ h => h) (fun _ h => h)) (fun _ _ => h2)
  refine h1.mono (fun _ h => h) ?_ (fun _ h => h) (fun _ h => h)
  rintro b x ⟨x2, rfl, h⟩
  exact ⟨[.name "extend".toList], .name w.toList :: x2, by simp [kwE], ⟨_, rfl⟩, [.name w.toList], x2, rfl, ⟨_, rfl⟩, h⟩

/-! ### scalar -/

def LScalarExt (b : Nat) (x : List Ast.Tok) : Prop :=
  ∃ nm ds, ds ≠ [] ∧ x = kwE "scalar" ++ .name nm :: Ast.tDirectives ds ∧ dirsFit true b ds

theorem cmpT_scalarTypeExtension (n : Nat) :
    CmpT (fun _ => True) (scalarTypeExtension n) LScalarExt (fun t => t.kind ≠ .at ∧ t.kind ≠ .lParen) (fun _ => True) := by
  rw [scalarTypeExtension_eq]
  refine cmpT_withNode _ ?_
  have hd : Cmp (fun _ => True) (peek >>= fun k => if k == some Kind.at then directives n true else err) (LDirsNeB true)
      (fun k => k ≠ .at ∧ k ≠ .lParen) (fun _ => True) := by
    apply cmp_peek
    intro k _
    apply cmp_ite
    · intro _
      exact (cmp_directivesNeB n true).mono (fun _ _ => trivial) (fun _ _ h => h) (fun _ h => h) (fun _ h => h)
    · intro hk
      apply cmp_absurd
      intro b x cc q0 hl hs _ hkk
      obtain ⟨a, x', rfl, hka⟩ := ldirsNeB_head hl
      obtain ⟨tk, tl, rfl, hta⟩ := spells_head hs
      simp only [headK] at hkk
      rw [kind_of_astOfV hta, hka] at hkk
      simp [← hkk] at hk
  have htail : Cmp (fun _ => True) (scalarExtTail n) (fun b x => ∃ x1 x2, x = x1 ++ x2 ∧ (∃ n, x1 = [.name n]) ∧ LDirsNeB true b x2)
      (fun k => k ≠ .at ∧ k ≠ .lParen) (fun _ => True) := by
    unfold scalarExtTail
    exact cmp_bind (Hk := fun _ => True) (F1 := fun _ => True) cmp_nameOrErr (fun _ _ => hd) (fun _ _ _ _ => trivial) (fun _ _ => trivial) (fun _ h => h)
  refine (cmpT_ext (Hk := fun _ => True) "scalar" _ _ _ htail.toT).mono (fun _ h => h) ?_ (fun _ h => h) (fun _ h => h)
  rintro b x ⟨nm, ds, hne, rfl, hd⟩
  exact ⟨_, rfl, [.name nm], _, rfl, ⟨nm, rfl⟩, ds, hne, rfl, hd⟩

/-! ### union, enum, input object -/

theorem cmp_nameDirsBodyExt (n : Nat) (k0 : Kind) (body : PI Unit) {Lb : Nat → List Ast.Tok → Prop} {Fb : Kind → Prop}
    (hb : Cmp (fun _ => True) body Lb Fb (fun _ => True)) (hbhead : ∀ b x, Lb b x → ∃ a x', x = a :: x' ∧ kindOfA a = k0)
    (hk1 : k0 ≠ .at) (hk2 : k0 ≠ .lParen) :
    Cmp (fun _ => True) (nameDirsBodyExt n k0 body)
      (fun b x => ∃ nm ds x2, x = .name nm :: (Ast.tDirectives ds ++ x2) ∧ dirsFit true b ds ∧ (Lb b x2 ∨ (x2 = [] ∧ ds ≠ [])))
      (fun k => k ≠ .at ∧ k ≠ .lParen ∧ k ≠ k0 ∧ Fb k) (fun _ => True) := by
  unfold nameDirsBodyExt
  have hd := cmp_extDirs (Hk := fun _ => True) (F := fun k => k ≠ Kind.at ∧ k ≠ Kind.lParen ∧ k ≠ k0 ∧ Fb k) n (extBodyK k0 body) false
    (Ln := fun m b x => Lb b x ∨ (x = [] ∧ m = true))
    (fun m => (cmp_extBodyK (Hk := fun _ => True) k0 body m hb hbhead).mono (fun _ h => h) (fun _ _ h => h) (fun k h => h.2.2) (fun _ h => h))
    (by rintro m b a x (h | ⟨h, _⟩)
        · obtain ⟨a', x', e, hk⟩ := hbhead _ _ h
          injection e with e _
          subst e; rw [hk]; exact ⟨hk1, hk2⟩
        · cases h)
    (fun k h => ⟨h.1, h.2.1⟩)
  have := cmp_bind (Hk := fun _ => True) (F := fun k => k ≠ Kind.at ∧ k ≠ Kind.lParen ∧ k ≠ k0 ∧ Fb k) (F1 := fun _ => True)
    cmp_nameOrErr (fun _ _ => hd) (fun _ _ _ _ => trivial) (fun _ _ => trivial) (fun _ h => h)
  refine this.mono (fun _ h => h) ?_ (fun _ h => h) (fun _ h => h)
  rintro b x ⟨nm, ds, x2, rfl, hdf, h2⟩
  refine ⟨[.name nm], _, rfl, ⟨nm, rfl⟩, ds, x2, rfl, hdf, ?_⟩
  rcases h2 with h2 | ⟨h2, hne⟩
  · exact Or.inl h2
  · refine Or.inr ⟨h2, ?_⟩
    cases ds with
    | nil => exact absurd rfl hne
    | cons _ _ => rfl

def LUnionExt (b : Nat) (x : List Ast.Tok) : Prop :=
  ∃ nm ds ms, (ds ≠ [] ∨ ms ≠ none) ∧ x = kwE "union" ++ .name nm :: Ast.tDirectives ds ++ tSepOpt [.p .eq] .pipe ms ∧ dirsFit true b ds

theorem cmpT_unionTypeExtension (n : Nat) :
    CmpT (fun _ => True) (unionTypeExtension n) LUnionExt
      (fun t => t.kind ≠ .at ∧ t.kind ≠ .lParen ∧ t.kind ≠ .eq ∧ t.kind ≠ .pipe) (fun _ => True) := by
  rw [unionTypeExtension_eq]
  refine cmpT_withNode _ ?_
  have hb := cmp_nameDirsBodyExt n .eq unionMemberTypes cmp_unionMemberTypes
    (by rintro b x ⟨lead, first, rest, rfl⟩; exact ⟨_, _, rfl, rfl⟩) (by decide) (by decide)
  refine (cmpT_ext (Hk := fun _ => True) "union" _ _ _ hb.toT).mono (fun _ h => h) ?_ (fun _ h => h) (fun _ h => h)
  rintro b x ⟨nm, ds, ms, hne, rfl, hd⟩
  refine ⟨.name nm :: (Ast.tDirectives ds ++ tSepOpt [.p .eq] .pipe ms), by simp [List.append_assoc], nm, ds, _, rfl, hd, ?_⟩
  cases ms with
  | some v => obtain ⟨lead, first, rest⟩ := v; exact Or.inl ⟨lead, first, rest, rfl⟩
  | none =>
    refine Or.inr ⟨rfl, ?_⟩
    rcases hne with h | h
    · exact h
    · exact absurd rfl h

def LEnumExt (b : Nat) (x : List Ast.Tok) : Prop :=
  ∃ nm ds vs, (ds ≠ [] ∨ vs ≠ []) ∧ x = kwE "enum" ++ Ast.tEnumBody nm ds vs ∧ dirsFit true b ds ∧ ∀ v ∈ vs, enumValFit b v

theorem cmpT_enumTypeExtension (n : Nat) :
    CmpT (fun _ => True) (enumTypeExtension n) LEnumExt (fun t => Fbody t.kind) (fun _ => True) := by
  rw [enumTypeExtension_eq]
  refine cmpT_withNode _ ?_
  have hb := cmp_nameDirsBodyExt n .lCurly (enumValuesDefinition n) (cmp_enumValuesDefinition n)
    (fun b x h => lenumVals_head h) (by decide) (by decide)
  refine (cmpT_ext (Hk := fun _ => True) "enum" _ _ _ hb.toT).mono (fun _ h => h) ?_ (fun t h => ⟨h.1, h.2.1, h.2.2, trivial⟩) (fun _ h => h)
  rintro b x ⟨nm, ds, vs, hne, rfl, hd, hv⟩
  refine ⟨.name nm :: (Ast.tDirectives ds ++ Ast.tBraced (Ast.tEnumValueDefItems vs) vs.isEmpty), by simp [Ast.tEnumBody], nm, ds, _, rfl, hd, ?_⟩
  by_cases hvs : vs = []
  · subst hvs
    refine Or.inr ⟨rfl, ?_⟩
    rcases hne with h | h
    · exact h
    · exact absurd rfl h
  · exact Or.inl ⟨vs, hvs, rfl, hv⟩

def LInputExt (b : Nat) (x : List Ast.Tok) : Prop :=
  ∃ nm ds fs, (ds ≠ [] ∨ fs ≠ []) ∧ x = kwE "input" ++ Ast.tInputBody nm ds fs ∧ dirsFit true b ds ∧ ∀ v ∈ fs, ivdFit b v

theorem cmpT_inputObjectTypeExtension (n : Nat) :
    CmpT (fun _ => True) (inputObjectTypeExtension n) LInputExt (fun t => Fbody t.kind) (fun _ => True) := by
  rw [inputObjectTypeExtension_eq]
  refine cmpT_withNode _ ?_
  have hb := cmp_nameDirsBodyExt n .lCurly (inputFieldsDefinition n) (cmp_inputFieldsDefinition n)
    (fun b x h => linputFields_head h) (by decide) (by decide)
  refine (cmpT_ext (Hk := fun _ => True) "input" _ _ _ hb.toT).mono (fun _ h => h) ?_ (fun t h => ⟨h.1, h.2.1, h.2.2, trivial⟩) (fun _ h => h)
  rintro b x ⟨nm, ds, vs, hne, rfl, hd, hv⟩
  refine ⟨.name nm :: (Ast.tDirectives ds ++ Ast.tBraced (Ast.tIVDItems vs) vs.isEmpty), by simp [Ast.tInputBody], nm, ds, _, rfl, hd, ?_⟩
  by_cases hvs : vs = []
  · subst hvs
    refine Or.inr ⟨rfl, ?_⟩
    rcases hne with h | h
    · exact h
    · exact absurd rfl h
  · exact Or.inl ⟨vs, hvs, rfl, hv⟩

end Apollo.Parse.Exact
