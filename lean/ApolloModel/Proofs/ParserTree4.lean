import ApolloModel.Proofs.ParserTree2
import ApolloModel.Proofs.ParserRecursion2
/-
C08 growth (pipeline), part 4: the remaining combinators of the tree calculus — `expect`, the recursion guard,
optional parts, the `peek_while` / `peek_while_kind` loops, `checkpoint … wrap_node`.
-/
set_option linter.unusedSimpArgs false
set_option linter.unusedVariables false
namespace Apollo.Parse
open Apollo.Rowan hiding Str
open Apollo.Lex hiding Str

/-! ### never error-free -/

theorem acc_pushErr {E : PState → Prop} {H : List Tok → Prop} (e : PErr) : Acc E H (pushErr e) (fun _ _ => False) := by
  refine ⟨good_pushErr e, ?_⟩
  intro s a s' w he _ hr hnd
  exact absurd (pushErr_adv e s s' w hr).2 hnd

theorem tr_pushErr {E : PState → Prop} {H : List Tok → Prop} (e : PErr) {R : Unit → List Tok → List Elem → Prop} :
    Tr E H (pushErr e) R := tr_never (acc_pushErr e)

theorem tr_errAtToken {E : PState → Prop} {H : List Tok → Prop} (t : Tok) {R : Unit → List Tok → List Elem → Prop} :
    Tr E H (errAtToken t) R := tr_pushErr _

/-- nothing error-free happens on an empty queue -/
theorem acc_emptyQueue {α : Type} {E : PState → Prop} {m : PI α} (hg : Good m) :
    Acc E (fun q => q.head? = none) m (fun _ _ => False) := by
  refine ⟨hg, ?_⟩
  intro s a s' w he hq hr hnd
  exfalso
  have hnds : ¬ Doomed s := fun d => hnd ((hg s a s' w hr).doom d)
  have : Toks s = [] := by
    cases ht : Toks s with
    | nil => rfl
    | cons x y => rw [ht] at hq; cases hq
  exact eofEnd_nonempty s he hnds this

theorem acc_limitErr {E : PState → Prop} {H : List Tok → Prop} : Acc E H limitErr (fun _ _ => False) := by
  refine ⟨good_limitErr, ?_⟩
  intro s a s' w he _ hr hnd
  exfalso
  obtain ⟨ad, d⟩ := limitErr_adv s s' w hr
  have hnds : ¬ Doomed s := fun dd => hnd (ad.doom dd)
  exact hnd (d (eofEnd_nonempty s he hnds))

/-- anything after `limit_err` -/
theorem tr_limitErr_then {α : Type} {E : PState → Prop} {H : List Tok → Prop} (rest : PI α) (hg : Good rest)
    {R : α → List Tok → List Elem → Prop} : Tr E H (limitErr >>= fun _ => rest) R := by
  apply tr_never
  refine ⟨good_bind _ _ good_limitErr (fun _ => hg), ?_⟩
  intro s a s' w he _ hr hnd
  exfalso
  obtain ⟨_, s1, h1, h2⟩ := bind_dec limitErr _ s s' a hr
  obtain ⟨ad, d⟩ := limitErr_adv s s1 w h1
  have hnds : ¬ Doomed s := fun dd => hnd ((hg s1 a s' ad.w h2).doom (ad.doom dd))
  exact hnd ((hg s1 a s' ad.w h2).doom (d (eofEnd_nonempty s he hnds)))

/-! ### `expect` -/

theorem tr_expect {E : PState → Prop} {H : List Tok → Prop} (token : Kind) (sk : SK) (hk : isJunkKind sk = false)
    (hni : isIgnoredKind token = false) (hne : token ≠ .eof) :
    Tr E H (expect token sk) (fun _ cs e => ∃ t, t.kind = token ∧ cs = [t] ∧ e = [Elem.tok sk t.data]) := by
  unfold expect
  apply tr_peekToken
  intro o
  cases o with
  | none => exact (tr_never (acc_emptyQueue (good_pure ()))).mono (fun _ h => h.2) (fun _ _ _ h => h)
  | some t =>
    simp only []
    refine tr_ite _ (fun hkt => ?_) (fun _ => tr_pushErr _)
    have hkt' : t.kind = token := by simpa using hkt
    refine (tr_bump sk hk (fun t' => t' = t) (by rintro t' rfl; rw [hkt']; exact ⟨hni, hne⟩)).mono ?_ ?_
    · rintro q ⟨_, hh⟩; exact ⟨t, hh, rfl⟩
    · rintro _ cs e ⟨t', rfl, _, hcs, he⟩
      exact ⟨t', hkt', hcs, he⟩

/-! ### the recursion guard -/

theorem inv_rec {s : PState} (hi : Inv s) (c h : Nat) : Inv { s with recCur := c, recHigh := h } :=
  ⟨hi.text, hi.parents, hi.lexDone, hi.eofTok, hi.errNonempty⟩

theorem tr_withRec {α : Type} {E : PState → Prop} (hE : Early E) {H : List Tok → Prop} {onLimit body : PI α}
    {R : α → List Tok → List Elem → Prop} (hl : Tr E H onLimit R) (hb : Tr E H body R) :
    Tr E H (withRec onLimit body) R := by
  refine ⟨good_withRec _ _ hl.1 hb.1, ?_⟩
  intro s a s' w hi he hlq hq hr hnd
  rcases withRec_decH onLimit body s s' a hr with ⟨_, h1⟩ | ⟨_, s2, h1, rfl⟩
  · have w1 : TW { s with recHigh := max s.recHigh (s.recCur + 1) } := ⟨w.limit, w.acc⟩
    have := hl.2 { s with recHigh := max s.recHigh (s.recCur + 1) } a s' w1
      ⟨hi.text, hi.parents, hi.lexDone, hi.eofTok, hi.errNonempty⟩ he hlq hq h1 hnd
    exact this
  · have w1 : TW { s with recCur := s.recCur + 1, recHigh := max s.recHigh (s.recCur + 1) } := ⟨w.limit, w.acc⟩
    have hnd2 : ¬ Doomed s2 := hnd
    obtain ⟨cs, ad, a1, a2, a3, a4, a5⟩ := hb.2 _ a s2 w1 (inv_rec hi _ _) he hlq hq h1 hnd2
    refine ⟨cs, ad, a1, a2, a3, a4, ?_⟩
    rcases a5 with r | ev
    · exact Or.inl r
    · exact Or.inr (hE.toks s2 _ rfl ev)

/-! ### optional parts -/

theorem tr_optKind {α : Type} {E : PState → Prop} (hE : Early E) {H : List Tok → Prop} (k0 : Kind) (m : PI Unit)
    (rest : PI α) (Lm : List Tok → List Elem → Prop) (R : α → List Tok → List Elem → Prop)
    (hm : Tr E (KindP (· == k0)) m (fun _ => Lm)) (hr : Tr E (fun _ => True) rest R) :
    Tr E H (optKind k0 m rest)
      (fun a cs e => ∃ c1 c2 e1 e2, cs = c1 ++ c2 ∧ e = e1 ++ e2 ∧ (Lm c1 e1 ∨ (c1 = [] ∧ e1 = [])) ∧ R a c2 e2) := by
  unfold optKind
  apply tr_peek
  intro k
  refine tr_ite _ (fun hk => ?_) (fun _ => ?_)
  · refine ((tr_bind hE hm (fun _ => hr)).mono (fun q hq => kindP_of_head hq.2 hk) ?_)
    rintro a cs e ⟨_, c1, c2, e1, e2, h1, h2, h3, h4⟩
    exact ⟨c1, c2, e1, e2, h1, h2, Or.inl h3, h4⟩
  · refine hr.mono (fun _ _ => trivial) ?_
    intro a cs e h
    exact ⟨[], cs, [], e, rfl, rfl, Or.inr ⟨rfl, rfl⟩, h⟩

theorem tr_ifKind {α : Type} {E : PState → Prop} {H : List Tok → Prop} (k0 : Kind) (a b : PI α)
    (R : α → List Tok → List Elem → Prop) (ha : Tr E (KindP (· == k0)) a R) (hb : Tr E (fun _ => True) b R) :
    Tr E H (peek >>= fun k => if k == some k0 then a else b) R := by
  apply tr_peek
  intro k
  apply tr_ite
  · intro hk; exact ha.mono (fun q hq => kindP_of_head hq.2 hk) (fun _ _ _ h => h)
  · intro _; exact hb.mono (fun _ _ => trivial) (fun _ _ _ h => h)

/-! ### loops -/

/-- the result of a loop over items: the concatenation of the items' tokens and of their elements -/
def ItemsT (Q : List Tok → List Elem → Prop) (cs : List Tok) (e : List Elem) : Prop :=
  ∃ items : List (List Tok × List Elem), cs = (items.map (·.1)).flatten ∧ e = (items.map (·.2)).flatten ∧
    ∀ i ∈ items, Q i.1 i.2

theorem itemsT_nil (Q : List Tok → List Elem → Prop) : ItemsT Q [] [] := ⟨[], rfl, rfl, by intro i hi; cases hi⟩

theorem itemsT_cons {Q : List Tok → List Elem → Prop} {c1 c2 : List Tok} {e1 e2 : List Elem} (h1 : Q c1 e1)
    (h2 : ItemsT Q c2 e2) : ItemsT Q (c1 ++ c2) (e1 ++ e2) := by
  obtain ⟨items, hc, he, hall⟩ := h2
  refine ⟨(c1, e1) :: items, by simp [hc], by simp [he], ?_⟩
  intro i hi
  rcases List.mem_cons.mp hi with rfl | hi
  · exact h1
  · exact hall i hi

theorem tr_itemsLoop {E : PState → Prop} (hE : Early E) (p : Kind → Bool) (item : PI Unit) (Q : List Tok → List Elem → Prop)
    (hitem : Tr E (KindP p) item (fun _ => Q)) : ∀ fuel,
    Tr E (fun _ => True) (peekWhileLoop (itemsBody p item) fuel) (fun _ => ItemsT Q) := by
  intro fuel
  refine ⟨good_peekWhileLoop _ (good_itemsBody p item hitem.1) fuel, ?_⟩
  induction fuel with
  | zero => intro s a s' _ _ _ _ _ h; simp [peekWhileLoop, PI.outOfFuel] at h
  | succ fuel ih =>
    intro s a s' w hi he hlq _ h hnd
    unfold peekWhileLoop at h
    obtain ⟨ko, sP, hp, h2⟩ := bind_dec peek _ s s' () h
    obtain ⟨o, p', hko⟩ := peek_obs s sP ko w hp
    subst hko
    have heP : EofEnd sP := eofEnd_eat he p'.eat (by intro x hx; cases hx)
    have hiP := (run_inv_added peek s hi _ sP hp).1
    have hbP : sP.builder = s.builder := keeps_peek s _ sP hp
    have stop : s' = sP → TrRes E s s' (ItemsT Q) := by
      intro e
      rw [e]
      exact ⟨[], [], (by rw [p'.toks]; rfl), (by intro x hx; cases hx), heP, by rw [hbP]; simp, Or.inl (itemsT_nil Q)⟩
    cases o with
    | none =>
      simp only [Option.map_none] at h2
      rw [run_pure] at h2
      injection h2 with _ h2
      exact stop h2.symm
    | some t =>
      simp only [Option.map_some] at h2
      have h3 := getCurrent_dec _ sP s' () h2
      obtain ⟨b, sB, hb, h4⟩ := bind_dec (itemsBody p item t.kind) _ sP s' () h3
      unfold itemsBody at hb
      by_cases hpk : p t.kind = true
      · simp only [hpk, if_true] at hb
        obtain ⟨_, sI, hit, hb2⟩ := bind_dec item _ sP sB b hb
        rw [run_pure] at hb2
        injection hb2 with hb2 hb3
        subst hb2 hb3
        simp only [if_true] at h4
        have h5 := getCurrent_dec _ sI s' () h4
        have aI := hitem.1 sP () sI p'.w hit
        by_cases hsame : (sP.current == sI.current) = true
        · simp only [hsame, if_true] at h5
          exact absurd h5 (stuck_not_ok _ _ _)
        · simp only [hsame, Bool.false_eq_true, if_false] at h5
          have hndI : ¬ Doomed sI := fun d => hnd ((good_peekWhileLoop _ (good_itemsBody p item hitem.1) fuel sI () s' aI.w h5).doom d)
          have hq : KindP p (Toks sP) := ⟨t, by rw [p'.toks]; exact p'.head.symm, hpk⟩
          have hiI := (run_inv_added item sP hiP () sI hit).1
          obtain ⟨c1, d1, t1, n1, e1, b1, r1⟩ := hitem.2 sP () sI p'.w hiP heP (hlq.of_eq p'.toks) hq hit hndI
          obtain ⟨c2, d2, t2, n2, e2, b2, r2⟩ := ih sI () s' aI.w hiI e1
            (LQ.suffix (cs := c1) (by rw [← t1, p'.toks]; exact hlq)) trivial h5 hnd
          refine ⟨c1 ++ c2, d1 ++ d2, by rw [← p'.toks, t1, t2, List.append_assoc], noEof_append n1 n2, e2,
            by rw [b2, b1, hbP, List.append_assoc], ?_⟩
          rcases r1 with r1 | ev
          · rcases r2 with r2 | ev2
            · left
              rw [sig_append, sigE_append]
              exact itemsT_cons r1 r2
            · exact Or.inr ev2
          · exact Or.inr (hE.carries sI s' c2 e1 hndI ev t2 n2)
      · simp only [hpk, Bool.false_eq_true, if_false] at hb
        rw [run_pure] at hb
        injection hb with hb2 hb3
        subst hb2 hb3
        simp only [Bool.false_eq_true, if_false] at h4
        rw [run_pure] at h4
        injection h4 with _ h4
        exact stop h4.symm

theorem tr_itemsWhile {E : PState → Prop} (hE : Early E) {H : List Tok → Prop} (p : Kind → Bool) (item : PI Unit)
    (Q : List Tok → List Elem → Prop) (hitem : Tr E (KindP p) item (fun _ => Q)) :
    Tr E H (peekWhile (itemsBody p item)) (fun _ => ItemsT Q) := by
  have hl := tr_itemsLoop hE p item Q hitem
  refine ⟨good_peekWhile _ (good_itemsBody p item hitem.1), ?_⟩
  intro s a s' w hi he hlq _ h hnd
  unfold peekWhile at h
  obtain ⟨fuel, h5⟩ := srcLen_dec _ s s' () h
  exact (hl _).2 s () s' w hi he hlq trivial h5 hnd

theorem tr_kindLoop {E : PState → Prop} (hE : Early E) (k : Kind) (item : PI Unit) (Q : List Tok → List Elem → Prop)
    (hitem : Tr E (KindP (· == k)) item (fun _ => Q)) : ∀ fuel,
    Tr E (fun _ => True) (peekWhileKindLoop k item fuel) (fun _ => ItemsT Q) := by
  intro fuel
  refine ⟨good_peekWhileKindLoop k item hitem.1 fuel, ?_⟩
  induction fuel with
  | zero => intro s a s' _ _ _ _ _ h; simp [peekWhileKindLoop, PI.outOfFuel] at h
  | succ fuel ih =>
    intro s a s' w hi he hlq _ h hnd
    unfold peekWhileKindLoop at h
    obtain ⟨ko, sP, hp, h2⟩ := bind_dec peek _ s s' () h
    obtain ⟨o, p', hko⟩ := peek_obs s sP ko w hp
    subst hko
    have heP : EofEnd sP := eofEnd_eat he p'.eat (by intro x hx; cases hx)
    have hiP := (run_inv_added peek s hi _ sP hp).1
    have hbP : sP.builder = s.builder := keeps_peek s _ sP hp
    have stop : s' = sP → TrRes E s s' (ItemsT Q) := by
      intro e
      rw [e]
      exact ⟨[], [], (by rw [p'.toks]; rfl), (by intro x hx; cases hx), heP, by rw [hbP]; simp, Or.inl (itemsT_nil Q)⟩
    cases o with
    | none =>
      simp only [Option.map_none] at h2
      rw [run_pure] at h2
      injection h2 with _ h2
      exact stop h2.symm
    | some t =>
      simp only [Option.map_some] at h2
      by_cases hpk : (t.kind != k) = true
      · simp only [hpk, if_true] at h2
        rw [run_pure] at h2
        injection h2 with _ h2
        exact stop h2.symm
      · simp only [hpk, Bool.false_eq_true, if_false] at h2
        have hkk : (t.kind == k) = true := by
          cases hh : (t.kind == k) with
          | true => rfl
          | false => simp [bne, hh] at hpk
        have h3 := getCurrent_dec _ sP s' () h2
        obtain ⟨_, sI, hit, h4⟩ := bind_dec item _ sP s' () h3
        have h5 := getCurrent_dec _ sI s' () h4
        have aI := hitem.1 sP () sI p'.w hit
        by_cases hsame : (sP.current == sI.current) = true
        · simp only [hsame, if_true] at h5
          exact absurd h5 (stuck_not_ok _ _ _)
        · simp only [hsame, Bool.false_eq_true, if_false] at h5
          have hndI : ¬ Doomed sI := fun d => hnd ((good_peekWhileKindLoop k item hitem.1 fuel sI () s' aI.w h5).doom d)
          have hq : KindP (· == k) (Toks sP) := ⟨t, by rw [p'.toks]; exact p'.head.symm, hkk⟩
          have hiI := (run_inv_added item sP hiP () sI hit).1
          obtain ⟨c1, d1, t1, n1, e1, b1, r1⟩ := hitem.2 sP () sI p'.w hiP heP (hlq.of_eq p'.toks) hq hit hndI
          obtain ⟨c2, d2, t2, n2, e2, b2, r2⟩ := ih sI () s' aI.w hiI e1
            (LQ.suffix (cs := c1) (by rw [← t1, p'.toks]; exact hlq)) trivial h5 hnd
          refine ⟨c1 ++ c2, d1 ++ d2, by rw [← p'.toks, t1, t2, List.append_assoc], noEof_append n1 n2, e2,
            by rw [b2, b1, hbP, List.append_assoc], ?_⟩
          rcases r1 with r1 | ev
          · rcases r2 with r2 | ev2
            · left
              rw [sig_append, sigE_append]
              exact itemsT_cons r1 r2
            · exact Or.inr ev2
          · exact Or.inr (hE.carries sI s' c2 e1 hndI ev t2 n2)

theorem tr_kindWhile {E : PState → Prop} (hE : Early E) {H : List Tok → Prop} (k : Kind) (item : PI Unit)
    (Q : List Tok → List Elem → Prop) (hitem : Tr E (KindP (· == k)) item (fun _ => Q)) :
    Tr E H (peekWhileKind k item) (fun _ => ItemsT Q) := by
  have hl := tr_kindLoop hE k item Q hitem
  refine ⟨good_peekWhileKind k item hitem.1, ?_⟩
  intro s a s' w hi he hlq _ h hnd
  unfold peekWhileKind at h
  obtain ⟨fuel, h5⟩ := srcLen_dec _ s s' () h
  exact (hl _).2 s () s' w hi he hlq trivial h5 hnd

end Apollo.Parse
