import ApolloModel.Model.Standalone
/-
Helper lemmas for property C20 (Properties/C20.lean): the with-schema run of the model, when it reports
nothing, visits exactly what the standalone run visits.
-/
namespace Apollo.Standalone

/-- the hypothesis under which the relaxation holds: either the code does not report undefined directives
    without a schema (candidate patch), or the thing at hand carries no directive at all -/
def Guard (p : Params) (b : Bool) : Prop := p.undefinedDirectiveWithoutSchema = false ∨ b = true

theorem Guard.of_and_left {p : Params} {a b : Bool} (h : Guard p (a && b)) : Guard p a := by
  rcases h with h | h
  · exact .inl h
  · exact .inr (by simp at h; exact h.1)

theorem Guard.of_and_right {p : Params} {a b : Bool} (h : Guard p (a && b)) : Guard p b := by
  rcases h with h | h
  · exact .inl h
  · exact .inr (by simp at h; exact h.2)

def noDirsSels : Sels → Bool
  | .nil => true
  | .field _ dirs _ sub rest => dirs.isEmpty && (noDirsSels sub && noDirsSels rest)
  | .spread _ dirs rest => dirs.isEmpty && noDirsSels rest
  | .inline _ dirs sub rest => dirs.isEmpty && (noDirsSels sub && noDirsSels rest)

def Op.noDirs (o : Op) : Bool := o.dirs.isEmpty && (o.vars.all (fun v => v.dirs.isEmpty) && noDirsSels o.sels)
def Frag.noDirs (f : Frag) : Bool := f.dirs.isEmpty && noDirsSels f.sels
def Def.noDirs : Def → Bool
  | .op o => o.noDirs
  | .frag f => f.noDirs
  | .typeSystem => true
def noDirsAst (ast : Ast) : Bool := ast.all Def.noDirs

/-! ### from_ast without a schema is the identity -/

theorem buildSels_none (parent : Name) (t : Sels) : buildSels none parent t = (t, []) := by
  induction t generalizing parent with
  | nil => simp [buildSels]
  | field name dirs args sub rest ihs ihr => simp [buildSels, ihs, ihr]
  | spread f dirs rest ihr => simp [buildSels, ihr]
  | inline tc dirs sub rest ihs ihr => cases tc <;> simp [buildSels, ihs, ihr]

theorem buildOp_none (o : Op) : buildOp none o = some (o, []) := by
  simp [buildOp, buildSels_none]

/-! ### directives -/

theorem dirDiagsAux_relax (p : Params) (sc : Schema) (loc : Loc) (ds : List Dir) (seen : List Name)
    (g : Guard p ds.isEmpty) (h : dirDiagsAux p (some sc) loc seen ds = []) :
    dirDiagsAux p none loc seen ds = [] := by
  induction ds generalizing seen with
  | nil => simp [dirDiagsAux]
  | cons d ds ih =>
    rcases g with g | g
    · simp only [dirDiagsAux, List.append_eq_nil_iff] at h ⊢
      obtain ⟨⟨⟨ha, _⟩, _⟩, hr⟩ := h
      refine ⟨⟨⟨ha, ?_⟩, ?_⟩, ih _ (.inl g) hr⟩
      · simp
      · simp [g]
    · simp at g

theorem dirDiags_relax (p : Params) (sc : Schema) (loc : Loc) (ds : List Dir)
    (g : Guard p ds.isEmpty) (h : dirDiags p (some sc) loc ds = []) : dirDiags p none loc ds = [] :=
  dirDiagsAux_relax p sc loc ds [] g h

/-! ### a selection set that `from_ast` keeps whole is well typed -/

def typed (sc : Schema) : Name → Sels → Bool
  | _, .nil => true
  | parent, .field name _ _ sub rest =>
    (match sc.field parent name with
     | some fd => !(!sub.isNil && sc.kind fd.ty == some .leaf) && typed sc fd.ty sub
     | none => false) && typed sc parent rest
  | parent, .spread _ _ rest => typed sc parent rest
  | parent, .inline tc _ sub rest =>
    (match tc with
     | some t => (sc.kind t).isSome && typed sc t sub
     | none => typed sc parent sub) && typed sc parent rest

theorem buildSels_some_nil (sc : Schema) (parent : Name) (t : Sels)
    (h : (buildSels (some sc) parent t).2 = []) :
    (buildSels (some sc) parent t).1 = t ∧ typed sc parent t = true := by
  induction t generalizing parent with
  | nil => simp [buildSels, typed]
  | field name dirs args sub rest ihs ihr =>
    simp only [buildSels] at h ⊢
    cases hf : sc.field parent name with
    | none => simp [hf] at h
    | some fd =>
      simp only [hf] at h ⊢
      by_cases hl : (!sub.isNil && sc.kind fd.ty == some Kind.leaf) = true
      · simp [hl] at h
      · simp only [hl, Bool.false_eq_true, ↓reduceIte, List.append_eq_nil_iff] at h ⊢
        have hs := ihs fd.ty h.1
        have hr := ihr parent h.2
        simp only [typed, hf]
        simp only [Bool.not_eq_true] at hl
        simp [hs.1, hr.1, hs.2, hr.2, hl]
  | spread f dirs rest ihr =>
    simp only [buildSels] at h ⊢
    have hr := ihr parent h
    simp [typed, hr.1, hr.2]
  | inline tc dirs sub rest ihs ihr =>
    cases tc with
    | none =>
      simp only [buildSels, List.append_eq_nil_iff, Option.getD_none] at h ⊢
      have hs := ihs parent h.1
      have hr := ihr parent h.2
      simp [typed, hs.1, hs.2, hr.1, hr.2]
    | some t =>
      simp only [buildSels] at h ⊢
      by_cases hk : (sc.kind t).isNone = true
      · simp [hk] at h
      · simp only [hk, Bool.false_eq_true, ↓reduceIte, List.append_eq_nil_iff] at h ⊢
        have hs := ihs t h.1
        have hr := ihr parent h.2
        have hk' : (sc.kind t).isSome = true := by
          cases hq : sc.kind t <;> simp [hq] at hk ⊢
        simp [typed, hs.1, hs.2, hr.1, hr.2, hk']


/-! ### variable definitions -/

theorem varDefDiags_relax (p : Params) (sc : Schema) (vs : List VarDef) (seen : List Name)
    (g : Guard p (vs.all (fun v => v.dirs.isEmpty))) (h : varDefDiags p (some sc) seen vs = []) :
    varDefDiags p none seen vs = [] := by
  induction vs generalizing seen with
  | nil => simp [varDefDiags]
  | cons v vs ih =>
    simp only [List.all_cons] at g
    simp only [varDefDiags, List.append_eq_nil_iff] at h ⊢
    obtain ⟨⟨⟨ha, _⟩, hc⟩, hr⟩ := h
    simp [dirDiags_relax p sc _ _ g.of_and_left ha, hc, ih _ g.of_and_right hr]

/-! ### selection sets -/

theorem walkSels_relax (p : Params) (sc : Schema) (doc : BuiltDoc)
    (eS eN : Frag → List Name → List Diag × List Name)
    (he : ∀ d, d ∈ doc.frags → ∀ V V', eS d V = ([], V') → eN d V = ([], V'))
    (t : Sels) : ∀ (ty : Name) (ty' : Option Name) (V V' : List Name),
      typed sc ty t = true → Guard p (noDirsSels t) →
      walkSels p (some sc) doc eS (some ty) t V = ([], V') →
      walkSels p none doc eN ty' t V = ([], V') := by
  induction t with
  | nil => intro ty ty' V V' _ _ h; simpa [walkSels] using h
  | field name dirs args sub rest ihs ihr =>
    intro ty ty' V V' ht g h
    simp only [noDirsSels] at g
    simp only [typed, Bool.and_eq_true] at ht
    obtain ⟨htf, htr⟩ := ht
    cases hf : sc.field ty name with
    | none => simp [hf] at htf
    | some fd =>
      simp only [hf, Bool.and_eq_true] at htf
      simp only [walkSels, hf] at h ⊢
      by_cases hm : (sub.isNil && sc.kind fd.ty == some Kind.composite) = true
      · simp [hm] at h
      · simp only [hm, Bool.false_eq_true, ↓reduceIte, Prod.mk.injEq, List.append_eq_nil_iff] at h
        obtain ⟨⟨⟨⟨hd, hu⟩, _, h3⟩, h4⟩, hV⟩ := h
        have e3 := ihs fd.ty none V _ htf.2 g.of_and_right.of_and_left (Prod.ext h3 rfl)
        have e4 := ihr ty ty' _ V' htr g.of_and_right.of_and_right (Prod.ext h4 hV)
        simp [e3, e4, dirDiags_relax p sc _ _ g.of_and_left hd, hu]
  | spread f dirs rest ihr =>
    intro ty ty' V V' ht g h
    simp only [noDirsSels] at g
    simp only [typed] at ht
    simp only [walkSels] at h ⊢
    cases hf : doc.findFrag f with
    | none => simp [hf] at h
    | some d =>
      have hmem : d ∈ doc.frags := List.mem_of_find?_eq_some hf
      simp only [hf] at h ⊢
      by_cases hv : f ∈ V
      · simp only [hv, ↓reduceIte, Prod.mk.injEq, List.append_eq_nil_iff, List.append_nil] at h ⊢
        obtain ⟨⟨hd, h4⟩, hV⟩ := h
        have e4 := ihr ty ty' V V' ht g.of_and_right (Prod.ext h4 hV)
        simp [e4, dirDiags_relax p sc _ _ g.of_and_left hd]
      · simp only [hv, ↓reduceIte, Prod.mk.injEq, List.append_eq_nil_iff] at h ⊢
        obtain ⟨⟨⟨hd, h2⟩, h4⟩, hV⟩ := h
        have e2 := he d hmem (f :: V) _ (Prod.ext h2 rfl)
        have e4 := ihr ty ty' _ V' ht g.of_and_right (Prod.ext h4 hV)
        simp [e2, e4, dirDiags_relax p sc _ _ g.of_and_left hd]
  | inline tc dirs sub rest ihs ihr =>
    intro ty ty' V V' ht g h
    simp only [noDirsSels] at g
    simp only [typed, Bool.and_eq_true] at ht
    obtain ⟨hts, htr⟩ := ht
    cases tc with
    | none =>
      simp only [walkSels, List.isEmpty_nil, ↓reduceIte, List.append_nil, Prod.mk.injEq, List.append_eq_nil_iff] at h ⊢
      obtain ⟨⟨⟨hd, h3⟩, h4⟩, hV⟩ := h
      have e3 := ihs ty ty' V _ hts g.of_and_right.of_and_left (Prod.ext h3 rfl)
      have e4 := ihr ty ty' _ V' htr g.of_and_right.of_and_right (Prod.ext h4 hV)
      simp [e3, e4, dirDiags_relax p sc _ _ g.of_and_left hd]
    | some t =>
      simp only [Bool.and_eq_true] at hts
      simp only [walkSels] at h ⊢
      by_cases hk : (sc.kind t == some Kind.composite) = true
      · simp only [hk, ↓reduceIte, List.isEmpty_nil, List.append_nil, Prod.mk.injEq, List.append_eq_nil_iff] at h ⊢
        obtain ⟨⟨⟨hd, h3⟩, h4⟩, hV⟩ := h
        have e3 := ihs t ty' V _ hts.2 g.of_and_right.of_and_left (Prod.ext h3 rfl)
        have e4 := ihr ty ty' _ V' htr g.of_and_right.of_and_right (Prod.ext h4 hV)
        simp [e3, e4, dirDiags_relax p sc _ _ g.of_and_left hd]
      · simp [hk] at h

/-- what `from_ast` with a schema guarantees about a document it built without reporting anything -/
structure DocOk (p : Params) (sc : Schema) (doc : BuiltDoc) : Prop where
  ops : ∀ o, o ∈ doc.ops → (∃ t, sc.root o.ty = some t ∧ typed sc t o.sels = true) ∧ Guard p o.noDirs
  frags : ∀ f, f ∈ doc.frags → (sc.kind f.tc).isSome = true ∧ typed sc f.tc f.sels = true ∧ Guard p f.noDirs

theorem enterFrag_relax (p : Params) (sc : Schema) (doc : BuiltDoc) (ok : DocOk p sc doc) (n : Nat) :
    ∀ d, d ∈ doc.frags → ∀ V V', enterFrag p (some sc) doc n d V = ([], V') →
      enterFrag p none doc n d V = ([], V') := by
  induction n with
  | zero => intro d _ V V' h; simp [enterFrag] at h
  | succ n ih =>
    intro d hd V V' h
    obtain ⟨hk, ht, g⟩ := ok.frags d hd
    simp only [Frag.noDirs] at g
    simp only [enterFrag] at h ⊢
    by_cases hc : (sc.kind d.tc == some Kind.composite) = true
    · by_cases hy : d.name ∈ reach doc d.sels
      · simp [hc, hy] at h
      · simp only [hc, hy, ↓reduceIte, List.isEmpty_nil, Bool.and_self, Prod.mk.injEq, List.append_eq_nil_iff] at h ⊢
        obtain ⟨⟨hdir, hw⟩, hV⟩ := h
        have hty : fragTy (some sc) d = some d.tc := by simp [fragTy, hk]
        rw [hty] at hw hV
        have e := walkSels_relax p sc doc _ _ ih d.sels d.tc (fragTy none d) V V' ht g.of_and_right (Prod.ext hw hV)
        simp [e, dirDiags_relax p sc _ _ g.of_and_left hdir]
    · simp [hc] at h

theorem validateOp_relax (p : Params) (sc : Schema) (doc : BuiltDoc) (ok : DocOk p sc doc) (o : Op)
    (ho : o ∈ doc.ops) (h : validateOp p (some sc) doc o = []) : validateOp p none doc o = [] := by
  obtain ⟨⟨t, hr, ht⟩, g⟩ := ok.ops o ho
  simp only [Op.noDirs] at g
  simp only [validateOp, List.append_eq_nil_iff, Option.bind_some, hr] at h ⊢
  obtain ⟨⟨⟨hd, hv⟩, hu⟩, hw⟩ := h
  have e := walkSels_relax p sc doc _ _ (enterFrag_relax p sc doc ok doc.frags.length) o.sels t
    none [] _ ht g.of_and_right.of_and_right (Prod.ext hw rfl)
  simp [e, dirDiags_relax p sc _ _ g.of_and_left hd, varDefDiags_relax p sc _ _ g.of_and_right.of_and_left hv, hu]

theorem validateBuilt_relax (p : Params) (sc : Schema) (doc : BuiltDoc) (ok : DocOk p sc doc)
    (h : validateBuilt p (some sc) doc = []) : validateBuilt p none doc = [] := by
  simp only [validateBuilt, List.append_eq_nil_iff, List.flatMap_eq_nil_iff] at h ⊢
  exact ⟨⟨fun o ho => validateOp_relax p sc doc ok o ho (h.1.1 o ho), h.1.2⟩, h.2⟩


/-! ### from_ast with a schema, when it reports nothing, builds the same document -/

theorem buildDef_diags_prefix (s : Option Schema) (st : BuildState) (d : Def) :
    ∃ extra, (buildDef s st d).diags = st.diags ++ extra := by
  unfold buildDef
  repeat' split
  all_goals (try simp only [List.append_assoc])
  all_goals (try exact ⟨_, rfl⟩)

theorem foldl_diags_nil (s : Option Schema) (ast : Ast) (st : BuildState)
    (h : (ast.foldl (buildDef s) st).diags = []) : st.diags = [] := by
  induction ast generalizing st with
  | nil => simpa using h
  | cons d ast ih =>
    have h1 := ih _ h
    obtain ⟨extra, he⟩ := buildDef_diags_prefix s st d
    rw [he] at h1
    exact (List.append_eq_nil_iff.mp h1).1

structure Rel (p : Params) (sc : Schema) (stS stN : BuildState) : Prop where
  doc : stN.doc = stS.doc
  multi : stN.multipleAnonymous = stS.multipleAnonymous
  diags : stN.diags = []
  ok : DocOk p sc stS.doc

theorem op_eta (o : Op) : { o with sels := o.sels } = o := by cases o; rfl
theorem frag_eta (f : Frag) : { f with sels := f.sels } = f := by cases f; rfl

theorem buildOp_some_nil (sc : Schema) (o o' : Op) (ds : List Diag)
    (h : buildOp (some sc) o = some (o', ds)) (hd : ds = []) :
    o' = o ∧ ∃ t, sc.root o.ty = some t ∧ typed sc t o.sels = true := by
  unfold buildOp at h
  cases hr : sc.root o.ty with
  | none => simp [hr] at h
  | some t =>
    simp only [hr, Option.some.injEq, Prod.mk.injEq] at h
    obtain ⟨h1, h2⟩ := h
    have hb := buildSels_some_nil sc t o.sels (by rw [h2, hd])
    refine ⟨?_, t, rfl, hb.2⟩
    rw [← h1, hb.1]

theorem buildDef_rel (p : Params) (sc : Schema) (stS stN : BuildState) (d : Def) (g : Guard p d.noDirs)
    (r : Rel p sc stS stN) (h : (buildDef (some sc) stS d).diags = []) :
    Rel p sc (buildDef (some sc) stS d) (buildDef none stN d) := by
  obtain ⟨rdoc, rmulti, rdiags, rok⟩ := r
  have hS : stS.diags = [] := by
    obtain ⟨extra, he⟩ := buildDef_diags_prefix (some sc) stS d
    rw [he] at h
    exact (List.append_eq_nil_iff.mp h).1
  cases d with
  | typeSystem => simp [buildDef] at h
  | op o =>
    simp only [Def.noDirs] at g
    cases hn : o.name with
    | some n =>
      simp only [buildDef, hn] at h ⊢
      rw [rdoc]
      by_cases hany : (stS.doc.named.any fun p => p.name == some n) = true
      · simp [hany] at h
      · simp only [hany, Bool.false_eq_true, ↓reduceIte] at h ⊢
        cases hb : buildOp (some sc) o with
        | none => simp [hb] at h
        | some r =>
          obtain ⟨o', ds⟩ := r
          simp only [hb, List.append_eq_nil_iff] at h ⊢
          obtain ⟨⟨_, hanon⟩, hds⟩ := h
          obtain ⟨ho', t, hr, ht⟩ := buildOp_some_nil sc o o' ds hb hds
          subst ho'
          simp only [buildOp_none]
          refine ⟨by simp, rmulti, ?_, ?_⟩
          · simp [rdiags, hanon]
          · constructor
            · intro q hq
              simp only [BuiltDoc.ops, List.mem_append, List.mem_singleton] at hq
              rcases hq with hq | hq | hq
              · exact rok.ops q (by simp [BuiltDoc.ops, hq])
              · exact rok.ops q (by simp [BuiltDoc.ops, hq])
              · subst hq; exact ⟨⟨t, hr, ht⟩, g⟩
            · intro f hf; exact rok.frags f hf
    | none =>
      simp only [buildDef, hn] at h ⊢
      rw [rdoc]
      by_cases ha : stS.doc.anon.isSome = true
      · simp [ha] at h
      · simp only [ha, Bool.false_eq_true, ↓reduceIte] at h ⊢
        by_cases hne : (!stS.doc.named.isEmpty) = true
        · simp [hne] at h
        · simp only [hne, Bool.false_eq_true, ↓reduceIte] at h ⊢
          cases hb : buildOp (some sc) o with
          | none => simp [hb] at h
          | some r =>
            obtain ⟨o', ds⟩ := r
            simp only [hb, List.append_eq_nil_iff] at h ⊢
            obtain ⟨_, hds⟩ := h
            obtain ⟨ho', t, hr, ht⟩ := buildOp_some_nil sc o o' ds hb hds
            subst ho'
            simp only [buildOp_none]
            refine ⟨by simp, rmulti, ?_, ?_⟩
            · simp [rdiags]
            · constructor
              · intro q hq
                simp only [BuiltDoc.ops, List.mem_append, Option.toList_some, List.mem_singleton] at hq
                rcases hq with hq | hq
                · subst hq; exact ⟨⟨t, hr, ht⟩, g⟩
                · exact rok.ops q (by simp [BuiltDoc.ops, hq])
              · intro f hf; exact rok.frags f hf
  | frag f =>
    simp only [Def.noDirs] at g
    simp only [buildDef] at h ⊢
    rw [rdoc]
    by_cases hany : (stS.doc.frags.any fun g => g.name == f.name) = true
    · simp [hany] at h
    · simp only [hany, Bool.false_eq_true, ↓reduceIte] at h ⊢
      by_cases hk : (sc.kind f.tc).isNone = true
      · simp [hk] at h
      · simp only [hk, Bool.false_eq_true, ↓reduceIte, List.append_eq_nil_iff] at h ⊢
        obtain ⟨_, hds⟩ := h
        have hb := buildSels_some_nil sc f.tc f.sels hds
        have hk' : (sc.kind f.tc).isSome = true := by
          cases hq : sc.kind f.tc <;> simp [hq] at hk ⊢
        simp only [buildSels_none, hb.1]
        refine ⟨by simp, rmulti, ?_, ?_⟩
        · simp [rdiags]
        · constructor
          · intro q hq; exact rok.ops q (by simpa [BuiltDoc.ops] using hq)
          · intro q hq
            simp only [List.mem_append, List.mem_singleton] at hq
            rcases hq with hq | hq
            · exact rok.frags q hq
            · subst hq; exact ⟨hk', hb.2, g⟩

theorem foldl_rel (p : Params) (sc : Schema) (ast : Ast) (stS stN : BuildState)
    (g : ∀ d, d ∈ ast → Guard p d.noDirs) (r : Rel p sc stS stN)
    (h : (ast.foldl (buildDef (some sc)) stS).diags = []) :
    Rel p sc (ast.foldl (buildDef (some sc)) stS) (ast.foldl (buildDef none) stN) := by
  induction ast generalizing stS stN with
  | nil => simpa using r
  | cons d ast ih =>
    simp only [List.foldl_cons] at h ⊢
    have h1 := foldl_diags_nil (some sc) ast _ h
    exact ih _ _ (fun e he => g e (List.mem_cons_of_mem _ he))
      (buildDef_rel p sc stS stN d (g d (List.mem_cons_self ..)) r h1) h

theorem guard_ast (p : Params) (ast : Ast) (g : Guard p (noDirsAst ast)) : ∀ d, d ∈ ast → Guard p d.noDirs := by
  intro d hd
  rcases g with g | g
  · exact .inl g
  · exact .inr (by simp only [noDirsAst, List.all_eq_true] at g; exact g d hd)

theorem build_rel (p : Params) (sc : Schema) (ast : Ast) (g : Guard p (noDirsAst ast))
    (h : (build (some sc) ast).diags = []) : Rel p sc (build (some sc) ast) (build none ast) := by
  unfold build at h ⊢
  refine foldl_rel p sc ast {} {} (guard_ast p ast g) ⟨rfl, rfl, rfl, ?_⟩ h
  constructor
  · intro o ho; simp [BuiltDoc.ops] at ho
  · intro f hf; simp at hf

/-- the relaxation, on the model -/
theorem validate_relax (p : Params) (sc : Schema) (ast : Ast) (g : Guard p (noDirsAst ast))
    (h : validate p (some sc) ast = []) : validate p none ast = [] := by
  simp only [validate, List.append_eq_nil_iff] at h ⊢
  obtain ⟨⟨hb, hv⟩, _⟩ := h
  have r := build_rel p sc ast g hb
  rw [r.doc, r.diags]
  simp [validateBuilt_relax p sc _ r.ok hv]

end Apollo.Standalone
