import ApolloModel.Proofs.ParserExactC20
import ApolloModel.Proofs.ParserComplete21
/-
EXACT-BUDGET COPY of ParserComplete21 (namespace Apollo.Parse.Exact, exact `vdepth`).
C05 growth (completeness of the whole Document grammar), part 21: object and interface type definitions (the
`implements` look-ahead on the token text), directive definitions, schema definitions.
-/
set_option linter.unusedSimpArgs false
namespace Apollo.Parse.Exact
open Apollo.Rowan hiding Str
open Apollo.Lex hiding Str

theorem kw_iff {w : String} {d : Str} : kw w d = true ↔ d = w.toList := by unfold kw; exact beq_iff_eq
theorem kwOpt_some_eq {w : String} {d : Str} : kwOpt w (some d) = true ↔ d = w.toList := by
  unfold kwOpt; rw [beq_iff_eq]; exact ⟨fun h => by injection h, fun h => by rw [h]⟩

/-- the follow token is not the Name `implements` -/
def NotImplTok (t : Tok) : Prop := ¬ (t.kind = .name ∧ t.data = "implements".toList)

def LImplThen (Lr : Nat → List Ast.Tok → Prop) (b : Nat) (x : List Ast.Tok) : Prop :=
  ∃ impl x2, x = tSepOpt [.name Ast.sImplements] .amp impl ++ x2 ∧ Lr b x2

theorem implPresent {Lr : Nat → List Ast.Tok → Prop} {Fr : Kind → Prop} (rest : PI Unit)
    (hr : Cmp (fun _ => True) rest Lr Fr (fun _ => True)) (hrhead : ∀ b a x, Lr b (a :: x) → kindOfA a ≠ .name ∧ kindOfA a ≠ .amp) :
    Cmp (fun _ => True) (implementsInterfaces >>= fun _ => rest)
      (fun b x => ∃ x1 x2, x = x1 ++ x2 ∧ LImpl b x1 ∧ Lr b x2) (fun k => Fr k ∧ k ≠ .amp) (fun _ => True) :=
  cmp_bind (Hk := fun _ => True) cmp_implementsInterfaces (fun _ _ => hr)
    (fun b a x h => (hrhead b a x h).2) (fun _ h => h.2) (fun _ h => h.1)

/-- `object.rs`: `implements` is recognised by kind and text of the next token -/
theorem cmpT_optImplTok {Hk : Kind → Prop} (rest : PI Unit) {Lr : Nat → List Ast.Tok → Prop} {Fr : Kind → Prop}
    (hr : Cmp (fun _ => True) rest Lr Fr (fun _ => True))
    (hrhead : ∀ b a x, Lr b (a :: x) → kindOfA a ≠ .name ∧ kindOfA a ≠ .amp) :
    CmpT Hk (optImplTok rest) (LImplThen Lr) (fun t => Fr t.kind ∧ t.kind ≠ .amp ∧ NotImplTok t) (fun _ => True) := by
  intro s s' a c x q0 rst w lq hrun hl hs ht hq hf _
  obtain ⟨impl, x2, rfl, hl2⟩ := hl
  unfold optImplTok at hrun
  obtain ⟨o, sP, hp, h2⟩ := bind_dec peekToken _ s s' a hrun
  obtain ⟨t, tl, htt, hkt⟩ := headK_toks c q0 rst
  obtain ⟨rfl, eP, htP⟩ := peekToken_head s sP o t tl w (by rw [ht]; exact htt) hp
  simp only [] at h2
  have hb : sP.recLimit - sP.recCur = s.recLimit - s.recCur := by rw [eP.recLimit, eP.recCur]
  have hTP : Toks sP = c ++ q0 :: rst := by rw [htP, ← htt]
  cases impl with
  | none =>
    simp only [tSepOpt, List.nil_append] at hs
    have hcond : (t.kind == Kind.name && kw "implements" t.data) = false := by
      cases x2 with
      | nil =>
        have := spells_nil_inv hs
        subst this
        simp only [List.nil_append, List.cons.injEq] at htt
        rw [← htt.1]
        cases hc : (q0.kind == Kind.name && kw "implements" q0.data) with
        | false => rfl
        | true =>
          exfalso
          simp only [Bool.and_eq_true, beq_iff_eq] at hc
          exact hf.2.2 ⟨hc.1, kw_iff.mp hc.2⟩
      | cons a2 x2' =>
        obtain ⟨t1, tl1, hc, hta⟩ := spells_head hs
        have : t.kind ≠ .name := by
          rw [hkt, hc]; simp only [headK]; rw [kind_of_astOfV hta]; exact (hrhead _ _ _ hl2).1
        simp [this]
    simp only [hcond, Bool.false_eq_true, if_false] at h2
    obtain ⟨e, t2, _⟩ := hr sP s' a c x2 q0 rst eP.w h2 (by rw [hb]; exact hl2) hs hTP hq hf.1 trivial
    exact ⟨by simpa using eP.trans e, t2, trivial⟩
  | some v =>
    obtain ⟨lead, first, rest'⟩ := v
    have hx : tSepOpt [.name Ast.sImplements] .amp (some (lead, first, rest')) ++ x2
        = .name Ast.sImplements :: (tSepLead .amp lead first rest' ++ x2) := by simp [tSepOpt]
    rw [hx] at hs
    obtain ⟨t1, tl1, hc, hta⟩ := spells_head hs
    have ht1 : t = t1 := by rw [hc] at htt; simp at htt; exact htt.1.symm
    subst ht1
    have hcond : (t.kind == Kind.name && kw "implements" t.data) = true := by
      have hk : (t.kind == Kind.name) = true := by rw [kind_of_astOfV hta]; rfl
      have hd : t.data = "implements".toList := data_of_astOfV_name hta
      rw [hk, kw_iff.mpr hd]; rfl
    simp only [hcond, if_true] at h2
    obtain ⟨e, t2, _⟩ := implPresent rest hr hrhead sP s' a c _ q0 rst eP.w h2
      ⟨.name Ast.sImplements :: tSepLead .amp lead first rest', x2, by simp, ⟨lead, first, rest', rfl⟩, by rw [hb]; exact hl2⟩
      hs hTP hq ⟨hf.1, hf.2.1⟩ trivial
    exact ⟨by simpa using eP.trans e, t2, trivial⟩

/-- `interface.rs` and the extensions: `implements` is recognised by the text of the next token alone -/
theorem cmpT_optDataImpl {Hk : Kind → Prop} (restT restF : PI Unit) {Lr : Nat → List Ast.Tok → Prop} {Fr : Kind → Prop}
    (hT : Cmp (fun _ => True) restT Lr Fr (fun _ => True)) (hF : Cmp (fun _ => True) restF Lr Fr (fun _ => True))
    (hrhead : ∀ b a x, Lr b (a :: x) → kindOfA a ≠ .name ∧ kindOfA a ≠ .amp) :
    CmpT Hk (optData2 "implements" implementsInterfaces restT restF) (LImplThen Lr)
      (fun t => Fr t.kind ∧ t.kind ≠ .amp ∧ NotImplTok t) (fun _ => True) := by
  intro s s' a c x q0 rst w lq hrun hl hs ht hq hf _
  obtain ⟨impl, x2, rfl, hl2⟩ := hl
  unfold optData2 at hrun
  obtain ⟨od, sP, hp, h2⟩ := bind_dec peekData _ s s' a hrun
  obtain ⟨t, tl, htt, hkt⟩ := headK_toks c q0 rst
  obtain ⟨rfl, eP, htP⟩ := peekData_head s sP od t tl w (by rw [ht]; exact htt) hp
  have hb : sP.recLimit - sP.recCur = s.recLimit - s.recCur := by rw [eP.recLimit, eP.recCur]
  have hTP : Toks sP = c ++ q0 :: rst := by rw [htP, ← htt]
  cases impl with
  | none =>
    simp only [tSepOpt, List.nil_append] at hs
    have hcond : kwOpt "implements" (some t.data) = false := by
      have hne : t.data ≠ "implements".toList := by
        intro hd
        have hkn : t.kind = .name := lq t (by rw [ht, htt]; simp) 'i' "mplements".toList (by rw [hd]; rfl) (by decide)
        cases x2 with
        | nil =>
          have := spells_nil_inv hs
          subst this
          simp only [List.nil_append, List.cons.injEq] at htt
          rw [← htt.1] at hkn hd
          exact hf.2.2 ⟨hkn, hd⟩
        | cons a2 x2' =>
          obtain ⟨t1, tl1, hc, hta⟩ := spells_head hs
          have : t.kind ≠ .name := by
            rw [hkt, hc]; simp only [headK]; rw [kind_of_astOfV hta]; exact (hrhead _ _ _ hl2).1
          exact this hkn
      cases hc : kwOpt "implements" (some t.data) with
      | false => rfl
      | true => exact absurd (kwOpt_some_eq.mp hc) hne
    simp only [hcond, Bool.false_eq_true, if_false] at h2
    obtain ⟨e, t2, _⟩ := hF sP s' a c x2 q0 rst eP.w h2 (by rw [hb]; exact hl2) hs hTP hq hf.1 trivial
    exact ⟨by simpa using eP.trans e, t2, trivial⟩
  | some v =>
    obtain ⟨lead, first, rest'⟩ := v
    have hx : tSepOpt [.name Ast.sImplements] .amp (some (lead, first, rest')) ++ x2
        = .name Ast.sImplements :: (tSepLead .amp lead first rest' ++ x2) := by simp [tSepOpt]
    rw [hx] at hs
    obtain ⟨t1, tl1, hc, hta⟩ := spells_head hs
    have ht1 : t = t1 := by rw [hc] at htt; simp at htt; exact htt.1.symm
    subst ht1
    have hcond : kwOpt "implements" (some t.data) = true := by
      have hd : t.data = "implements".toList := data_of_astOfV_name hta
      exact kwOpt_some_eq.mpr hd
    simp only [hcond, if_true] at h2
    obtain ⟨e, t2, _⟩ := implPresent restT hT hrhead sP s' a c _ q0 rst eP.w h2
      ⟨.name Ast.sImplements :: tSepLead .amp lead first rest', x2, by simp, ⟨lead, first, rest', rfl⟩, by rw [hb]; exact hl2⟩
      hs hTP hq ⟨hf.1, hf.2.1⟩ trivial
    exact ⟨by simpa using eP.trans e, t2, trivial⟩

/-! ### object and interface type definitions -/

def LFieldsTail (b : Nat) (x : List Ast.Tok) : Prop :=
  ∃ ds x2, x = Ast.tDirectives ds ++ x2 ∧ dirsFit true b ds ∧ (LFields b x2 ∨ x2 = [])

theorem cmp_fieldsTail (n : Nat) :
    Cmp (fun _ => True) (dirsBody n .lCurly (fieldsDefinition n)) LFieldsTail (fun k => k ≠ .at ∧ k ≠ .lParen ∧ k ≠ .lCurly ∧ True) (fun _ => True) :=
  cmp_dirsBody (Hk := fun _ => True) n .lCurly (fieldsDefinition n) (cmp_fieldsDefinition n) (fun b x h => lfields_head h) (by decide) (by decide)

theorem lfieldsTail_head {b : Nat} {a : Ast.Tok} {x : List Ast.Tok} (h : LFieldsTail b (a :: x)) : kindOfA a ≠ .name ∧ kindOfA a ≠ .amp := by
  obtain ⟨ds, x2, e, _, h2⟩ := h
  cases ds with
  | cons d r =>
    simp only [Ast.tDirectives, List.cons_append] at e
    injection e with e _
    subst e; exact ⟨by decide, by decide⟩
  | nil =>
    simp only [Ast.tDirectives, List.nil_append] at e
    subst e
    rcases h2 with h2 | h2
    · obtain ⟨a', x', e, hk⟩ := lfields_head h2
      injection e with e _
      subst e; rw [hk]; exact ⟨by decide, by decide⟩
    · cases h2

def objFit (b : Nat) (ds : List Ast.Directive) (fs : List Ast.FieldDef) : Prop := dirsFit true b ds ∧ ∀ f ∈ fs, fieldFit b f

theorem objectLike_tail (b : Nat) (nm : Ast.Str) (impl : Option (Bool × Ast.Str × List Ast.Str)) (ds : List Ast.Directive)
    (fs : List Ast.FieldDef) (h : objFit b ds fs) :
    ∃ x2, objectLikeToks nm impl ds fs = .name nm :: x2 ∧ LImplThen LFieldsTail b x2 := by
  refine ⟨tSepOpt [.name Ast.sImplements] .amp impl ++ (Ast.tDirectives ds ++ Ast.tBraced (Ast.tFieldDefItems fs) fs.isEmpty),
    by simp [objectLikeToks, List.append_assoc], impl, _, rfl, ds, _, rfl, h.1, ?_⟩
  by_cases hfs : fs = []
  · subst hfs; right; rfl
  · left; exact ⟨fs, hfs, rfl, h.2⟩

/-- what may follow an object / interface type (definition or extension): not `@ ( { &`, and not the Name `implements` -/
def FObj (t : Tok) : Prop := (t.kind ≠ .at ∧ t.kind ≠ .lParen ∧ t.kind ≠ .lCurly ∧ True) ∧ t.kind ≠ .amp ∧ NotImplTok t

def LObject (word : String) (b : Nat) (x : List Ast.Tok) : Prop :=
  ∃ desc nm impl ds fs, x = Ast.tDescription desc ++ kwPart word true ++ objectLikeToks nm impl ds fs ∧ objFit b ds fs

theorem cmpT_objectTypeDefinition (n : Nat) :
    CmpT (fun _ => True) (objectTypeDefinition n) (LObject "type") FObj (fun _ => True) := by
  rw [objectTypeDefinition_eq]
  refine cmpT_withNode _ ?_
  have ht := cmpT_optImplTok (Hk := fun _ => True) _ (cmp_fieldsTail n) (fun b a x h => lfieldsTail_head h)
  refine (cmpT_defShape (Hk := fun _ => True) "type" "type_KW" n _ ht).mono (fun _ h => h) ?_ (fun t h => h) (fun _ h => h)
  rintro b x ⟨desc, nm, impl, ds, fs, rfl, hfit⟩
  obtain ⟨x2, e, h2⟩ := objectLike_tail b nm impl ds fs hfit
  exact ⟨desc, nm, x2, by rw [e]; simp [kwPart], h2⟩

theorem cmpT_interfaceTypeDefinition (n : Nat) :
    CmpT (fun _ => True) (interfaceTypeDefinition n) (LObject "interface") FObj (fun _ => True) := by
  rw [interfaceTypeDefinition_eq]
  refine cmpT_withNode _ ?_
  have ht := cmpT_optDataImpl (Hk := fun _ => True) _ _ (cmp_fieldsTail n) (cmp_fieldsTail n) (fun b a x h => lfieldsTail_head h)
  refine (cmpT_defShape (Hk := fun _ => True) "interface" "interface_KW" n _ ht).mono (fun _ h => h) ?_ (fun t h => h) (fun _ h => h)
  rintro b x ⟨desc, nm, impl, ds, fs, rfl, hfit⟩
  obtain ⟨x2, e, h2⟩ := objectLike_tail b nm impl ds fs hfit
  exact ⟨desc, nm, x2, by rw [e]; simp [kwPart], h2⟩

end Apollo.Parse.Exact
