import ApolloModel.Proofs.Strings4
/-
Lemmas for the block-form round trip (C09): `escapeTriple` / `replaceEscapedTriple`, line splitting
of what `serialize_block_string` prints, and the shape of `can_be_block_string`.
-/
namespace Apollo.Strs

/-! ### `escapeTriple` -/

theorem escapeTriple_triple (rest : Str) :
    escapeTriple ('"' :: '"' :: '"' :: rest) = '\\' :: '"' :: '"' :: '"' :: escapeTriple rest := by
  rw [escapeTriple]

theorem escapeTriple_nil : escapeTriple [] = [] := by rw [escapeTriple]

/-- a string either starts with `"""` or not -/
theorem triple_cases (s : Str) : (∃ rest, s = '"' :: '"' :: '"' :: rest) ∨ (∀ rest, s ≠ '"' :: '"' :: '"' :: rest) := by
  match s with
  | '"' :: '"' :: '"' :: rest => exact Or.inl ⟨rest, rfl⟩
  | [] => right; intro rest h; cases h
  | [c] => right; intro rest h; cases h
  | [c, d] => right; intro rest h; cases h
  | c :: d :: e :: rest =>
    by_cases h : c = '"' ∧ d = '"' ∧ e = '"'
    · obtain ⟨rfl, rfl, rfl⟩ := h; exact Or.inl ⟨rest, rfl⟩
    · right; intro r hr
      simp only [List.cons.injEq] at hr
      exact h ⟨hr.1, hr.2.1, hr.2.2.1⟩

theorem escapeTriple_cons (c : Char) (rest : Str) (h : ∀ r, c :: rest ≠ '"' :: '"' :: '"' :: r) :
    escapeTriple (c :: rest) = c :: escapeTriple rest := by
  rw [escapeTriple]
  intro r h1 h2
  exact h r (by rw [h1, h2])

theorem replace_triple (rest : Str) :
    replaceEscapedTriple ('\\' :: '"' :: '"' :: '"' :: rest) = '"' :: '"' :: '"' :: replaceEscapedTriple rest := by
  rw [replaceEscapedTriple]

theorem replace_cons (c : Char) (rest : Str) (h : ∀ r, c :: rest ≠ '\\' :: '"' :: '"' :: '"' :: r) :
    replaceEscapedTriple (c :: rest) = c :: replaceEscapedTriple rest := by
  rw [replaceEscapedTriple]
  intro r h1 h2
  exact h r (by rw [h1, h2])

/-- induction along the recursion of `escapeTriple` -/
theorem escapeTriple_ind (P : Str → Prop) (hnil : P [])
    (htriple : ∀ rest, P rest → P ('"' :: '"' :: '"' :: rest))
    (hcons : ∀ c rest, (∀ r, c :: rest ≠ '"' :: '"' :: '"' :: r) → P rest → P (c :: rest)) : ∀ s, P s := by
  intro s
  induction hn : s.length using Nat.strongRecOn generalizing s with
  | _ n ih =>
    rcases triple_cases s with ⟨rest, rfl⟩ | h
    · exact htriple rest (ih rest.length (by simp at hn; omega) rest rfl)
    · cases s with
      | nil => exact hnil
      | cons c rest => exact hcons c rest h (ih rest.length (by simp at hn; omega) rest rfl)

theorem escapeTriple_head_of_triple_free (s : Str) :
    (∃ rest, s = '"' :: '"' :: '"' :: rest ∧ escapeTriple s = '\\' :: '"' :: '"' :: '"' :: escapeTriple rest) ∨
    (s = [] ∧ escapeTriple s = []) ∨
    (∃ c rest, s = c :: rest ∧ (∀ r, s ≠ '"' :: '"' :: '"' :: r) ∧ escapeTriple s = c :: escapeTriple rest) := by
  rcases triple_cases s with ⟨rest, rfl⟩ | h
  · exact Or.inl ⟨rest, rfl, escapeTriple_triple rest⟩
  · cases s with
    | nil => exact Or.inr (Or.inl ⟨rfl, escapeTriple_nil⟩)
    | cons c rest => exact Or.inr (Or.inr ⟨c, rest, rfl, h, escapeTriple_cons c rest h⟩)

/-- the output of `escapeTriple` never starts with `"""` -/
theorem escapeTriple_not_triple (s r : Str) : escapeTriple s ≠ '"' :: '"' :: '"' :: r := by
  intro e
  rcases escapeTriple_head_of_triple_free s with ⟨_, _, h1⟩ | ⟨_, h1⟩ | ⟨c, rest, rfl, hs, h1⟩
  · rw [h1] at e; simp at e
  · rw [h1] at e; cases e
  · rw [h1] at e
    simp only [List.cons.injEq] at e
    obtain ⟨rfl, e⟩ := e
    rcases escapeTriple_head_of_triple_free rest with ⟨_, _, h2⟩ | ⟨_, h2⟩ | ⟨c2, r2, rfl, _, h2⟩
    · rw [h2] at e; simp at e
    · rw [h2] at e; cases e
    · rw [h2] at e
      simp only [List.cons.injEq] at e
      obtain ⟨rfl, e⟩ := e
      rcases escapeTriple_head_of_triple_free r2 with ⟨_, _, h3⟩ | ⟨_, h3⟩ | ⟨c3, r3, rfl, _, h3⟩
      · rw [h3] at e; simp at e
      · rw [h3] at e; cases e
      · rw [h3] at e
        simp only [List.cons.injEq] at e
        obtain ⟨rfl, _⟩ := e
        exact hs r3 rfl

/-- unescaping `\"""` undoes `serialize_line`, for every line -/
theorem replace_escapeTriple : ∀ s : Str, replaceEscapedTriple (escapeTriple s) = s := by
  apply escapeTriple_ind
  · rw [escapeTriple_nil, replaceEscapedTriple]
  · intro rest ih
    rw [escapeTriple_triple, replace_triple, ih]
  · intro c rest h ih
    rw [escapeTriple_cons c rest h, replace_cons, ih]
    intro r e
    simp only [List.cons.injEq] at e
    exact escapeTriple_not_triple rest r e.2

theorem mem_escapeTriple (x : Char) : ∀ s : Str, x ∈ escapeTriple s → x ∈ s ∨ x = '\\' := by
  apply escapeTriple_ind
  · intro h; rw [escapeTriple_nil] at h; cases h
  · intro rest ih h
    rw [escapeTriple_triple] at h
    simp only [List.mem_cons] at h ⊢
    rcases h with h | h | h | h | h
    · exact Or.inr h
    · exact Or.inl (Or.inl h)
    · exact Or.inl (Or.inl h)
    · exact Or.inl (Or.inl h)
    · rcases ih h with h | h
      · exact Or.inl (Or.inr (Or.inr (Or.inr h)))
      · exact Or.inr h
  · intro c rest hc ih h
    rw [escapeTriple_cons c rest hc] at h
    simp only [List.mem_cons] at h ⊢
    rcases h with h | h
    · exact Or.inl (Or.inl h)
    · rcases ih h with h | h
      · exact Or.inl (Or.inr h)
      · exact Or.inr h

theorem takeWhile_ws_escapeTriple : ∀ s : Str, (escapeTriple s).takeWhile isWs = s.takeWhile isWs := by
  apply escapeTriple_ind
  · rw [escapeTriple_nil]
  · intro rest _
    rw [escapeTriple_triple]
    simp [List.takeWhile_cons, isWs]
  · intro c rest hc ih
    rw [escapeTriple_cons c rest hc]
    simp only [List.takeWhile_cons, ih]

theorem all_ws_escapeTriple : ∀ s : Str, (escapeTriple s).all isWs = s.all isWs := by
  apply escapeTriple_ind
  · rw [escapeTriple_nil]
  · intro rest _
    rw [escapeTriple_triple]
    simp [isWs]
  · intro c rest hc ih
    rw [escapeTriple_cons c rest hc]
    simp only [List.all_cons, ih]

/-! ### line splitting -/

theorem splitLinesAux_nl (cur rest : Str) : splitLinesAux cur ('\n' :: rest) = cur :: splitLinesAux [] rest := by
  rw [splitLinesAux]

theorem splitLinesAux_plain (cur : Str) (c : Char) (rest : Str) (h1 : c ≠ '\r') (h2 : c ≠ '\n') :
    splitLinesAux cur (c :: rest) = splitLinesAux (cur ++ [c]) rest := by
  rw [splitLinesAux]
  · intro r e _; exact h1 e
  · intro e; exact h1 e
  · intro e; exact h2 e

def NoBreak (y : Str) : Prop := ∀ c ∈ y, c ≠ '\n' ∧ c ≠ '\r'

theorem splitLinesAux_append (y : Str) (hy : NoBreak y) : ∀ (acc rest : Str),
    splitLinesAux acc (y ++ rest) = splitLinesAux (acc ++ y) rest := by
  induction y with
  | nil => intro acc rest; simp
  | cons c y ih =>
    intro acc rest
    have hc := hy c (by simp)
    rw [List.cons_append, splitLinesAux_plain acc c _ hc.2 hc.1, ih (fun d hd => hy d (by simp [hd]))]
    simp

/-- the raw text `\n y₁ \n y₂ … \n yₖ` splits into `cur, y₁, …, yₖ` -/
theorem splitLinesAux_flatMap : ∀ (ys : List Str), (∀ y ∈ ys, NoBreak y) → ∀ cur : Str,
    splitLinesAux cur (ys.flatMap fun y => '\n' :: y) = cur :: ys := by
  intro ys
  induction ys with
  | nil => intro _ cur; simp [splitLinesAux]
  | cons y ys ih =>
    intro h cur
    simp only [List.flatMap_cons, List.cons_append]
    rw [splitLinesAux_nl, splitLinesAux_append y (h y (by simp))]
    simp only [List.nil_append]
    cases ys with
    | nil => simp [splitLinesAux]
    | cons y2 ys2 =>
      have := ih (fun z hz => h z (by simp [hz])) y
      rw [this]

theorem go_nl (cur rest : Str) : splitNl.go cur ('\n' :: rest) = cur :: splitNl.go [] rest := by
  rw [splitNl.go]

theorem go_plain (cur : Str) (c : Char) (rest : Str) (h : c ≠ '\n') :
    splitNl.go cur (c :: rest) = splitNl.go (cur ++ [c]) rest := by
  rw [splitNl.go]
  intro e; exact h e

theorem go_nil (cur : Str) : splitNl.go cur [] = [cur] := by rw [splitNl.go]

theorem joinNl_cons_cons (a b : Str) (ls : List Str) : joinNl (a :: b :: ls) = a ++ '\n' :: joinNl (b :: ls) := by
  rw [joinNl]
  intro e; cases e

theorem go_ne_nil : ∀ (s cur : Str), splitNl.go cur s ≠ [] := by
  intro s
  induction s with
  | nil => intro cur; rw [go_nil]; simp
  | cons c s ih =>
    intro cur
    by_cases h : c = '\n'
    · subst h; rw [go_nl]; simp
    · rw [go_plain cur c s h]; exact ih _

/-- joining the `split('\n')` pieces gives the string back -/
theorem joinNl_go : ∀ (s cur : Str), joinNl (splitNl.go cur s) = cur ++ s := by
  intro s
  induction s with
  | nil => intro cur; rw [go_nil]; simp [joinNl]
  | cons c s ih =>
    intro cur
    by_cases h : c = '\n'
    · subst h
      rw [go_nl]
      cases hg : splitNl.go [] s with
      | nil => exact absurd hg (go_ne_nil s [])
      | cons a ls =>
        rw [joinNl_cons_cons, ← hg, ih []]
        simp
    · rw [go_plain cur c s h, ih]; simp

theorem joinNl_splitNl (s : Str) : joinNl (splitNl s) = s := by
  have := joinNl_go s []
  simpa [splitNl] using this

/-- no piece contains a line feed; a carriage return only if the string had one -/
theorem go_pieces : ∀ (s cur : Str), (∀ c ∈ cur, c ≠ '\n' ∧ (c = '\r' → '\r' ∈ cur ++ s)) →
    ∀ l ∈ splitNl.go cur s, ∀ c ∈ l, c ≠ '\n' ∧ (c = '\r' → '\r' ∈ cur ++ s) := by
  intro s
  induction s with
  | nil => intro cur h l hl; rw [go_nil] at hl; simp at hl; subst hl; simpa using h
  | cons d s ih =>
    intro cur h l hl
    by_cases hd : d = '\n'
    · subst hd
      rw [go_nl] at hl
      rcases List.mem_cons.mp hl with e | e
      · subst e; exact h
      · intro c hc
        have := ih [] (by intro c hc; cases hc) l e c hc
        refine ⟨this.1, fun hr => ?_⟩
        have := this.2 hr
        simp only [List.nil_append] at this
        simp [this]
    · rw [go_plain cur d s hd] at hl
      have h' : ∀ c ∈ cur ++ [d], c ≠ '\n' ∧ (c = '\r' → '\r' ∈ (cur ++ [d]) ++ s) := by
        intro c hc
        rcases List.mem_append.mp hc with e | e
        · have := h c e
          exact ⟨this.1, fun hr => by have := this.2 hr; simpa using this⟩
        · simp at e; subst e
          exact ⟨hd, fun hr => by subst hr; simp⟩
      intro c hc
      have := ih (cur ++ [d]) h' l hl c hc
      exact ⟨this.1, fun hr => by have := this.2 hr; simpa using this⟩

theorem splitNl_noBreak (s : Str) (hcr : s.contains '\r' = false) : ∀ l ∈ splitNl s, NoBreak l := by
  intro l hl c hc
  have := go_pieces s [] (by intro c hc; cases hc) l (by simpa [splitNl] using hl) c hc
  refine ⟨this.1, fun hr => ?_⟩
  have h2 := this.2 hr
  simp only [List.nil_append] at h2
  have : s.contains '\r' = true := by simpa using h2
  rw [hcr] at this; cases this

end Apollo.Strs
