import ApolloModel.Proofs.NameHeapName
/-
Every operation of the `Name` history model preserves `Inv` (hence every history does).
-/
namespace Apollo.NameHeap
open Apollo.Rc Apollo.Rc.Heap Apollo.FileId

/-- under `SlotWf` the code path taken by `as_arc` (tag bit) agrees with the pointer -/
theorem asArc_cases {h : Heap Text} {n : Name} (hw : SlotWf h (.name n)) :
    (∃ c, n.ptr = .heap c ∧ n.asArc = .arc c ∧ owns (.name n) = some c ∧ h.valOf c = some n.gText) ∨
    (∃ t, n.ptr = .static t ∧ n.asArc = .notArc ∧ owns (.name n) = none ∧ t = n.gText) := by
  obtain ⟨ht, _, _, hp⟩ := hw
  cases hptr : n.ptr with
  | heap c =>
    left
    rw [hptr] at hp ht
    refine ⟨c, rfl, ?_, ?_, hp⟩
    · simp [Name.asArc, ht, hptr, Ptr.isHeap, TAG_ARC]
    · simp [owns, hptr]
  | static t =>
    right
    rw [hptr] at hp ht
    refine ⟨t, rfl, ?_, ?_, hp⟩
    · simp [Name.asArc, ht, Ptr.isHeap, TAG_ARC]
    · simp [owns, hptr]

def mkHeapName (c : Nat) (g : Text) : Name :=
  { ptr := .heap c, len := byteLen g, start := 0, tagged := packNone TAG_ARC, gText := g, gLoc := none }

theorem nameFromArc_of_read {st : St} {c : Nat} {g : Text} (hr : st.heap.read c = some g) :
    nameFromArc st c g = (st, mkHeapName c g) := by
  simp [nameFromArc, touch, hr, mkHeapName]

theorem wf_mkHeapName {h : Heap Text} {c : Nat} {g : Text} (hv : h.valOf c = some g) : SlotWf h (.name (mkHeapName c g)) := by
  refine ⟨?_, ?_, rfl, hv⟩
  · simp [mkHeapName, tagOf_packNone, Ptr.isHeap, TAG_ARC]
  · simp [Name.location, mkHeapName, fileIdOf_packNone]

theorem owns_mkHeapName (c : Nat) (g : Text) : owns (.name (mkHeapName c g)) = some c := rfl

theorem read_alloc_new (h : Heap Text) (t : Text) : (h.alloc t).1.read (h.alloc t).2 = some t := by
  simp [Heap.read, alloc_snd, alloc_get_new]

/-! ### per-operation lemmas -/

theorem inv_new_heap_name {st : St} (inv : Inv st) {dst : Nat} (t : Text) (hd : st.slots[dst]? = some .empty) :
    Inv (step.nameFromArcRes { st with heap := (st.heap.alloc t).1 } dst (st.heap.alloc t).2 t).1 := by
  have hr : ({ st with heap := (st.heap.alloc t).1 } : St).heap.read (st.heap.alloc t).2 = some t := read_alloc_new _ _
  simp only [step.nameFromArcRes, nameFromArc_of_read hr]
  exact inv_alloc_put inv t hd (owns_mkHeapName _ _) (wf_mkHeapName (alloc_valOf_new _ _))

theorem inv_dropName {st : St} (inv : Inv st) {s : Nat} {n : Name} (hs : st.slots[s]? = some (.name n)) :
    Inv (setSlot (dropName st n) s .empty) := by
  have hw := inv.wf _ (mem_of_get hs)
  rcases asArc_cases hw with ⟨c, _, ha, ho, _⟩ | ⟨t, _, ha, ho, _⟩
  · simp only [dropName, ha]
    exact inv_decr_clear inv hs ho
  · simp only [dropName, ha]
    exact inv_replace_none inv hs ho rfl trivial

theorem step_inv (st : St) (op : Op) (inv : Inv st) : Inv (step st op).1 := by
  cases op with
  | newName dst t =>
    simp only [step]
    split
    · rename_i he
      exact inv_new_heap_name inv t (isEmptyAt_iff.mp he)
    · exact inv
  | newChecked dst t =>
    simp only [step]
    split
    · rename_i he
      split
      · exact inv_new_heap_name inv t (isEmptyAt_iff.mp he)
      · exact inv
    · exact inv
  | newStatic dst t =>
    simp only [step]
    split
    · rename_i he
      refine inv_replace_none inv (isEmptyAt_iff.mp he) rfl rfl ⟨?_, ?_, rfl, rfl⟩
      · simp [tagOf_packNone, Ptr.isHeap, TAG_STATIC]
      · simp [Name.location, fileIdOf_packNone]
    · exact inv
  | newArc dst t =>
    simp only [step]
    split
    · rename_i he
      exact inv_alloc_put inv t (isEmptyAt_iff.mp he) rfl (alloc_valOf_new _ _)
    · exact inv
  | fromArc dst src =>
    simp only [step]
    split
    · rename_i c g hsrc
      split
      · rename_i he
        have hs := slotAt_arc hsrc
        have hd := isEmptyAt_iff.mp he
        have hv : st.heap.valOf c = some g := inv.wf _ (mem_of_get hs)
        obtain ⟨v, hr, hv'⟩ := read_of_live inv.heap (refs_pos hs (rfl : owns (.arc c g) = some c))
        rw [hv] at hv'; cases hv'
        have hr' : (setSlot st src .empty).heap.read c = some g := hr
        simp only [step.nameFromArcRes, nameFromArc_of_read hr']
        exact inv_move inv hs rfl hd (owns_mkHeapName c g) (wf_mkHeapName hv)
      · exact inv
    · exact inv
  | tryFromArc dst src =>
    simp only [step]
    split
    · rename_i c g hsrc
      split
      · rename_i he
        have hs := slotAt_arc hsrc
        have hd := isEmptyAt_iff.mp he
        have hv : st.heap.valOf c = some g := inv.wf _ (mem_of_get hs)
        have hpos := refs_pos hs (rfl : owns (.arc c g) = some c)
        obtain ⟨v, hr, hv'⟩ := read_of_live inv.heap hpos
        rw [hv] at hv'; cases hv'
        rw [touch_of_live inv.heap hpos]
        split
        · have hr' : (setSlot st src .empty).heap.read c = some g := hr
          simp only [step.nameFromArcRes, nameFromArc_of_read hr']
          exact inv_move inv hs rfl hd (owns_mkHeapName c g) (wf_mkHeapName hv)
        · exact inv_decr_clear inv hs rfl
      · exact inv
    · exact inv
  | clone dst src =>
    simp only [step]
    split
    · rename_i he
      have hd := isEmptyAt_iff.mp he
      split
      · rename_i n hsrc
        have hs := slotAt_name hsrc
        have hw := inv.wf _ (mem_of_get hs)
        rcases asArc_cases hw with ⟨c, _, ha, ho, _⟩ | ⟨t, _, ha, ho, _⟩
        · simp only [ha]
          exact inv_incr_put inv hd (refs_pos hs ho) ho hw
        · simp only [ha]
          exact inv_replace_none inv hd rfl ho hw
      · rename_i c g hsrc
        have hs := slotAt_arc hsrc
        have hw := inv.wf _ (mem_of_get hs)
        exact inv_incr_put inv hd (refs_pos hs rfl) rfl hw
      · exact inv
    · exact inv
  | drop s =>
    simp only [step]
    split
    · rename_i n hsrc
      exact inv_dropName inv (slotAt_name hsrc)
    · rename_i c g hsrc
      exact inv_decr_clear inv (slotAt_arc hsrc) rfl
    · exact inv
  | withLocation s fid0 start len =>
    simp only [step]
    split
    · rename_i n hsrc
      have hs := slotAt_name hsrc
      have hw := inv.wf _ (mem_of_get hs)
      split
      · exact inv_dropName inv hs
      · rename_i hlen
        split
        · rename_i p hp
          obtain ⟨ht, hf⟩ := pack_some_spec _ _ p (Nat.mod_lt _ (by decide)) hp
          refine inv_replace_same inv hs ?_ ?_
          · simp [owns]
          · obtain ⟨a, _, c, d⟩ := hw
            refine ⟨?_, ?_, c, d⟩
            · simpa [ht] using a
            · simp only [Name.location, hf]
              have hl : len = n.len := by simpa using hlen
              by_cases e : fid0 % 2 ^ 64 = NONE
              · simp [e]
              · simp [e, hl]
        · exact inv_dropName inv hs
    · exact inv
  | toClonedArc dst src =>
    simp only [step]
    split
    · rename_i he
      have hd := isEmptyAt_iff.mp he
      split
      · rename_i n hsrc
        have hs := slotAt_name hsrc
        have hw := inv.wf _ (mem_of_get hs)
        rcases asArc_cases hw with ⟨c, _, ha, ho, hv⟩ | ⟨t, _, ha, ho, _⟩
        · simp only [ha]
          exact inv_incr_put inv hd (refs_pos hs ho) rfl hv
        · simp only [ha]
          exact inv
      · exact inv
    · exact inv
  | intoArc dst src =>
    simp only [step]
    split
    · rename_i he
      have hd := isEmptyAt_iff.mp he
      split
      · rename_i n hsrc
        have hs := slotAt_name hsrc
        have hw := inv.wf _ (mem_of_get hs)
        have hne : src ≠ dst := by
          intro e; subst e; rw [hs] at hd; cases hd
        rcases asArc_cases hw with ⟨c, _, ha, ho, hv⟩ | ⟨t, hptr, ha, ho, htext⟩
        · simp only [ha]
          -- the same state as: `to_cloned_arc` into `dst`, then drop of the name in `src`
          have h1 : Inv (setSlot { st with heap := st.heap.incr c } dst (.arc c n.gText)) :=
            inv_incr_put inv hd (refs_pos hs ho) rfl hv
          have hs1 : (setSlot { st with heap := st.heap.incr c } dst (.arc c n.gText)).slots[src]? = some (.name n) := by
            simp only [setSlot]; rw [List.getElem?_set, if_neg (fun e => hne e.symm)]; exact hs
          have h2 := inv_decr_clear h1 hs1 ho
          simp only [dropName, ha]
          have e : (st.slots.set dst (.arc c n.gText)).set src .empty = (st.slots.set src .empty).set dst (.arc c n.gText) :=
            (List.set_comm _ _ hne).symm
          simpa [setSlot, e] using h2
        · simp only [ha, hptr]
          have h1 : Inv (setSlot { st with heap := (st.heap.alloc ((n.read st.heap).getD [])).1 } dst
              (.arc (st.heap.alloc ((n.read st.heap).getD [])).2 n.gText)) := by
            refine inv_alloc_put inv _ hd rfl ?_
            have : (n.read st.heap).getD [] = n.gText := by simp [Name.read, hptr, htext]
            rw [this]
            exact alloc_valOf_new _ _
          have hs1 : (setSlot { st with heap := (st.heap.alloc ((n.read st.heap).getD [])).1 } dst
              (.arc (st.heap.alloc ((n.read st.heap).getD [])).2 n.gText)).slots[src]? = some (.name n) := by
            simp only [setSlot]; rw [List.getElem?_set, if_neg (fun e => hne e.symm)]; exact hs
          have h2 := inv_replace_none (s := .empty) h1 hs1 ho rfl trivial
          simp only [dropName, ha]
          have e : ∀ x, (st.slots.set dst x).set src .empty = (st.slots.set src .empty).set dst x :=
            fun x => (List.set_comm _ _ hne).symm
          simpa [setSlot, e] using h2
      · exact inv
    · exact inv

theorem init_inv (pool : Nat) : Inv (init pool) := by
  refine ⟨⟨?_, ?_, rfl, rfl⟩, ?_, rfl⟩
  · intro c
    simp [init, Heap.empty, strongOf, refsOf_replicate owns .empty rfl]
  · intro c cell hc; simp [init, Heap.empty] at hc
  · intro s hs
    simp [init] at hs
    rw [hs.2]; trivial

theorem run_inv (ops : List Op) : ∀ (st : St), Inv st → Inv (run st ops) := by
  induction ops with
  | nil => intro st h; exact h
  | cons op rest ih => intro st h; exact ih _ (step_inv st op h)

end Apollo.NameHeap
