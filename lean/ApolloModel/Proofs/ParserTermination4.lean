import ApolloModel.Proofs.ParserTermination3
/-
Termination of the remaining grammar: a small automation layer (`TA` = terminates, any post-condition)
and the families argument.rs / directive.rs.
-/
set_option linter.unusedSimpArgs false
set_option linter.unusedVariables false
namespace Apollo.Parse
open Apollo.Rowan hiding Str
open Apollo.Lex hiding Str

/-- terminates (no abort), nothing more claimed -/
abbrev TA {α : Type} (m : PI α) (s : PState) : Prop := Term m s Any

theorem ta_of {α : Type} {m : PI α} {s : PState} {Q : α → Option Tok → LexSt → Prop} (h : Term m s Q) : TA m s :=
  h.weaken (fun _ _ _ _ => trivial)

theorem ta_bind {α β : Type} {m : PI α} {f : α → PI β} {s : PState}
    (h1 : TA m s) (h2 : ∀ a s1, W s1 → Mm s1 ≤ Mm s → TA (f a) s1) : TA (m >>= f) s :=
  term_bind h1 (fun a s1 hw1 hm1 _ _ => h2 a s1 hw1 hm1.1)

theorem ta_pure {α : Type} (a : α) (s : PState) (hw : W s) : TA (pure a : PI α) s := term_pure a s hw trivial

theorem ta_withNode {α : Type} (kind : SK) (body : PI α) (s : PState) (hw : W s)
    (h : ∀ s1, W s1 → Mm s1 ≤ Mm s → TA body s1) : TA (withNode kind body) s := by
  refine withNode_term kind body s hw ?_
  intro s1 hw1 hc1 hl1
  refine ta_bind (ta_of (skipIgnored_run s1 hw1).term) ?_
  intro _ s2 hw2 hM2
  exact h s2 hw2 (by rw [← Mm_congr hc1 hl1]; exact hM2)

theorem ta_withRec {α : Type} (onLimit body : PI α) (s : PState) (hw : W s)
    (h1 : ∀ s1, W s1 → Mm s1 ≤ Mm s → TA onLimit s1) (h2 : ∀ s1, W s1 → Mm s1 ≤ Mm s → TA body s1) :
    TA (withRec onLimit body) s :=
  withRec_term onLimit body s hw
    (fun s1 hw1 hc hl => h1 s1 hw1 (Nat.le_of_eq (Mm_congr hc hl)))
    (fun s1 hw1 hc hl => h2 s1 hw1 (Nat.le_of_eq (Mm_congr hc hl)))

/-! leaves -/
theorem ta_peek (s : PState) (hw : W s) : TA peek s := ta_of (peek_run' s hw).term
theorem ta_peekData (s : PState) (hw : W s) : TA peekData s := ta_of (peekData_run' s hw).term
theorem ta_peekToken (s : PState) (hw : W s) : TA peekToken s := ta_of (peekToken_run' s hw).term
theorem ta_peekTokenN (n : Nat) (s : PState) (hw : W s) : TA (peekTokenN n) s := ta_of (peekTokenN_run n s hw).term
theorem ta_peekN (n : Nat) (s : PState) (hw : W s) : TA (peekN n) s := by
  unfold peekN; exact ta_bind (ta_peekTokenN n s hw) (fun _ s1 hw1 _ => ta_pure _ s1 hw1)
theorem ta_peekDataN (n : Nat) (s : PState) (hw : W s) : TA (peekDataN n) s := by
  unfold peekDataN; exact ta_bind (ta_peekTokenN n s hw) (fun _ s1 hw1 _ => ta_pure _ s1 hw1)
theorem ta_bump (k : SK) (s : PState) (hw : W s) : TA (bump k) s := ta_of (bump_run k s hw).term
theorem ta_eat (k : SK) (s : PState) (hw : W s) : TA (eat k) s := ta_of (eat_run k s hw).term
theorem ta_err (s : PState) (hw : W s) : TA err s := ta_of (err_run s hw).term
theorem ta_limitErr (s : PState) (hw : W s) : TA limitErr s := ta_of (limitErr_run s hw).term
theorem ta_errAndPop (s : PState) (hw : W s) : TA errAndPop s := ta_of (errAndPop_run s hw).term
theorem ta_expect (t : Kind) (k : SK) (s : PState) (hw : W s) : TA (expect t k) s := ta_of (expect_run t k s hw).term
theorem ta_skipIgnored (s : PState) (hw : W s) : TA skipIgnored s := ta_of (skipIgnored_run s hw).term
theorem ta_pushIgnored (s : PState) (hw : W s) : TA pushIgnored s := ta_of (pushIgnored_run s hw).term
theorem ta_srcLen (s : PState) (hw : W s) : TA srcLen s := ta_of (srcLen_run s hw).term
theorem ta_name (s : PState) (hw : W s) : TA name s := ta_of (name_term s hw)
theorem ta_enumValue (s : PState) (hw : W s) : TA enumValue s := ta_of (enumValue_term s hw)
theorem ta_variableNode (s : PState) (hw : W s) : TA variableNode s := ta_of (variableNode_term s hw)
theorem ta_assertRecZero (s : PState) (hw : W s) : TA assertRecZero s :=
  ta_of (run_frame assertRecZero s hw () { s with deadBranch := s.deadBranch || !(s.recCur == 0) } rfl rfl rfl (Q := Any) trivial).term
theorem ta_value (n : Nat) (c p : Bool) (s : PState) (hw : W s) (hb : 2 * Mm s + 2 ≤ n) : TA (value n c p) s :=
  ta_of ((value_family n).value c p s hw hb)
theorem ta_ty (n : Nat) (s : PState) (hw : W s) (hb : Mm s + 1 ≤ n) : TA (ty n) s := ty_term n s hw hb

/-- one automation step on a goal `TA prog s` (or the continuation of a bind) -/
macro "ta_step" : tactic => `(tactic| first
  | exact ta_pure _ _ (by assumption)
  | exact ta_peek _ (by assumption)
  | exact ta_peekData _ (by assumption)
  | exact ta_peekToken _ (by assumption)
  | exact ta_peekN _ _ (by assumption)
  | exact ta_peekDataN _ _ (by assumption)
  | exact ta_peekTokenN _ _ (by assumption)
  | exact ta_bump _ _ (by assumption)
  | exact ta_eat _ _ (by assumption)
  | exact ta_err _ (by assumption)
  | exact ta_limitErr _ (by assumption)
  | exact ta_errAndPop _ (by assumption)
  | exact ta_expect _ _ _ (by assumption)
  | exact ta_skipIgnored _ (by assumption)
  | exact ta_name _ (by assumption)
  | exact ta_enumValue _ (by assumption)
  | exact ta_variableNode _ (by assumption)
  | exact ta_assertRecZero _ (by assumption)
  | exact ta_value _ _ _ _ (by assumption) (by omega)
  | exact ta_ty _ _ (by assumption) (by omega)
  | (refine ta_withNode _ _ _ (by assumption) ?_; intro _ _ _)
  | (refine ta_withRec _ _ _ (by assumption) ?_ ?_ <;> intro _ _ _)
  | (refine ta_bind ?_ ?_)
  | (intro _ _ _ _)
  | split
  | (simp only []))

macro "ta_auto" : tactic => `(tactic| repeat ta_step)
/-- the same with an extra alternative tried first (lemmas of the family being proved) -/
macro "ta_auto_with" t:tactic : tactic => `(tactic| repeat (first | ($t:tactic) | ta_step))

/-! simple non-recursive pieces -/
theorem ta_alias (s : PState) (hw : W s) : TA alias s := by unfold alias; ta_auto
theorem ta_namedType (s : PState) (hw : W s) : TA namedType s := by unfold namedType; ta_auto
theorem ta_description (s : PState) (hw : W s) : TA description s := by unfold description; ta_auto
theorem ta_nameOrErr (s : PState) (hw : W s) : TA nameOrErr s := by unfold nameOrErr; ta_auto
theorem ta_fragmentName (s : PState) (hw : W s) : TA fragmentName s := by unfold fragmentName; ta_auto
theorem ta_typeCondition (s : PState) (hw : W s) : TA typeCondition s := by unfold typeCondition; ta_auto
theorem ta_operationType (s : PState) (hw : W s) : TA operationType s := by unfold operationType; ta_auto
theorem ta_directiveLocation (s : PState) (hw : W s) : TA directiveLocation s := by unfold directiveLocation; ta_auto

/-! ### "consumes the current token when it satisfies `G`" -/

/-- guarded consumption: if the current token of `s` satisfies `G`, strict progress was made -/
def GC {α : Type} (G : Tok → Prop) (s : PState) : α → Option Tok → LexSt → Prop :=
  fun _ c l => ∀ t, s.current = some t → G t → StrictT s c l

theorem gc_of_consP {G : Tok → Prop} {s : PState} {m : PI Unit} (h : Term m s (ConsP s)) : Term m s (GC G s) :=
  h.weaken (fun _ c l hq t ht _ => hq (by rw [ht]; rfl))

/-- the first step consumes, the rest only terminates -/
theorem gc_first {α β : Type} {G : Tok → Prop} {first : PI α} {rest : α → PI β} {s : PState}
    (h1 : Term first s (GC G s)) (h2 : ∀ a s3, W s3 → Mm s3 ≤ Mm s → TA (rest a) s3) :
    Term (first >>= rest) s (GC G s) := by
  refine ⟨(ta_bind (ta_of h1) h2).1, ?_⟩
  intro b s2 hrb
  rw [run_bind] at hrb
  cases hr : first.run s with
  | ok a s1 =>
    rw [hr] at hrb
    obtain ⟨hw1, hm1, hk1, hq1⟩ := h1.2 a s1 hr
    obtain ⟨hw2, hm2, hk2, _⟩ := (h2 a s1 hw1 hm1.1).2 b s2 hrb
    exact ⟨hw2, hm1.trans hm2, hk1.trans hm1 hk2 hm2, fun t ht hg => Strict.trans_mono (hq1 t ht hg) hm2⟩
  | abort w' => rw [hr] at hrb; simp at hrb
  | panic msg => rw [hr] at hrb; simp at hrb

/-- a first step that only looks (keeps the current token), then something that consumes -/
theorem gc_look {α β : Type} {G : Tok → Prop} {look : PI α} {f : α → PI β} {s : PState}
    {Q1 : α → Option Tok → LexSt → Prop}
    (h1 : Term look s (fun a c l => Q1 a c l ∧ (s.current.isSome = true → c = s.current ∧ l = s.lx)))
    (h2 : ∀ a s1, W s1 → Mm s1 ≤ Mm s → Q1 a s1.current s1.lx → Term (f a) s1 (GC G s1)) :
    Term (look >>= f) s (GC G s) := by
  refine ⟨(term_bind (Q := Any) h1 (fun a s1 hw1 hm1 _ hq1 => ta_of (h2 a s1 hw1 hm1.1 hq1.1))).1, ?_⟩
  intro b s2 hrb
  rw [run_bind] at hrb
  cases hr : look.run s with
  | ok a s1 =>
    rw [hr] at hrb
    obtain ⟨hw1, hm1, hk1, hq1⟩ := h1.2 a s1 hr
    obtain ⟨hw2, hm2, hk2, hq2⟩ := (h2 a s1 hw1 hm1.1 hq1.1).2 b s2 hrb
    refine ⟨hw2, hm1.trans hm2, hk1.trans hm1 hk2 hm2, ?_⟩
    intro t ht hg
    have hsame := hq1.2 (by rw [ht]; rfl)
    exact strictT_of_congr hsame.1 hsame.2 (hq2 t (by rw [hsame.1]; exact ht) hg)
  | abort w' => rw [hr] at hrb; simp at hrb
  | panic msg => rw [hr] at hrb; simp at hrb

theorem gc_peek {β : Type} {G : Tok → Prop} {f : Option Kind → PI β} {s : PState} (hw : W s)
    (h : ∀ k s1, W s1 → Mm s1 ≤ Mm s → k = s1.current.map (·.kind) → Term (f k) s1 (GC G s1)) :
    Term (peek >>= f) s (GC G s) :=
  gc_look (Q1 := fun k c _ => k = c.map (·.kind)) ((peek_run' s hw).term.weaken (fun _ _ _ hq => ⟨hq.1, hq.2.2⟩)) h

theorem gc_peekToken {β : Type} {G : Tok → Prop} {f : Option Tok → PI β} {s : PState} (hw : W s)
    (h : ∀ k s1, W s1 → Mm s1 ≤ Mm s → k = s1.current → Term (f k) s1 (GC G s1)) :
    Term (peekToken >>= f) s (GC G s) :=
  gc_look (Q1 := fun k c _ => k = c) ((peekToken_run' s hw).term.weaken (fun _ _ _ hq => ⟨hq.1, hq.2.2⟩)) h

theorem gc_peekData {β : Type} {G : Tok → Prop} {f : Option Str → PI β} {s : PState} (hw : W s)
    (h : ∀ k s1, W s1 → Mm s1 ≤ Mm s → k = s1.current.map (·.data) → Term (f k) s1 (GC G s1)) :
    Term (peekData >>= f) s (GC G s) :=
  gc_look (Q1 := fun k c _ => k = c.map (·.data)) ((peekData_run' s hw).term.weaken (fun _ _ _ hq => ⟨hq.1, hq.2.2⟩)) h

/-- through `start_node` … `finish_node` (the embedded `skip_ignored` keeps the token or consumes it) -/
theorem gc_withNode {α : Type} {G : Tok → Prop} (kind : SK) (body : PI α) (s : PState) (hw : W s)
    (h : ∀ s2, W s2 → Mm s2 ≤ Mm s → Term body s2 (GC G s2)) : Term (withNode kind body) s (GC G s) := by
  refine withNode_term kind body s hw ?_
  intro s1 hw1 hc1 hl1
  have hM1 : Mm s1 = Mm s := Mm_congr hc1 hl1
  refine ⟨(ta_bind (ta_skipIgnored s1 hw1) (fun _ s2 hw2 hM2 => ta_of (h s2 hw2 (by omega)))).1, ?_⟩
  intro b sF hrb
  rw [run_bind] at hrb
  cases hr : skipIgnored.run s1 with
  | ok u s2 =>
    rw [hr] at hrb
    obtain ⟨hw2, hm2, hk2, _⟩ := (skipIgnored_run s1 hw1).term.2 u s2 hr
    obtain ⟨hwF, hmF, hkF, hqF⟩ := (h s2 hw2 (by have := hm2.1; omega)).2 b sF hrb
    refine ⟨hwF, hm2.trans hmF, hk2.trans hm2 hkF hmF, ?_⟩
    intro t ht hg
    have ht1 : s1.current = some t := by rw [hc1, ht]
    rcases hk2 (by rw [ht1]; rfl) with ⟨hc, hl⟩ | hst
    · exact strictT_of_congr hc1 hl1 (strictT_of_congr hc hl (hqF t (by rw [hc, ht1]) hg))
    · exact strictT_of_congr hc1 hl1 (hst.trans_mono hmF)
  | abort w' => rw [hr] at hrb; simp at hrb
  | panic msg => rw [hr] at hrb; simp at hrb

theorem gc_name (s : PState) (hw : W s) : Term name s (GC (fun t => t.kind = .name) s) := name_term s hw
theorem gc_expect (token : Kind) (k : SK) (s : PState) (hw : W s) :
    Term (expect token k) s (GC (fun t => t.kind = token) s) :=
  (expect_run token k s hw).term.weaken (fun _ _ _ h => h.2)
theorem gc_bump {G : Tok → Prop} (k : SK) (s : PState) (hw : W s) : Term (bump k) s (GC G s) :=
  (bump_run k s hw).term.weaken (fun _ c l h t ht _ => h.1.1 (by rw [ht]; rfl))
theorem gc_errAndPop {G : Tok → Prop} (s : PState) (hw : W s) : Term errAndPop s (GC G s) :=
  (errAndPop_run s hw).term.weaken (fun _ c l h t ht _ => h.1 (by rw [ht]; rfl))
theorem gc_variableNode {G : Tok → Prop} (s : PState) (hw : W s) : Term variableNode s (GC G s) :=
  gc_of_consP (variableNode_term s hw)
theorem gc_weaken {α : Type} {G G' : Tok → Prop} {m : PI α} {s : PState} (h : Term m s (GC G s))
    (hg : ∀ t, G' t → G t) : Term m s (GC G' s) :=
  h.weaken (fun _ c l hq t ht hg' => hq t ht (hg t hg'))

/-! ### loops, in `TA` form -/

theorem ta_peekWhileKind (k : Kind) (body : PI Unit) (s : PState) (hw : W s)
    (h : ∀ s1, W s1 → Mm s1 ≤ Mm s → Term body s1 (GC (fun t => t.kind = k) s1)) :
    TA (peekWhileKind k body) s :=
  peekWhileKind_term k body s hw (fun s1 hw1 hM1 hcur => (h s1 hw1 hM1).weaken (fun _ c l hq => by
    obtain ⟨t, ht, hk⟩ := hcur; exact hq t ht hk))

theorem ta_peekWhile (body : Kind → PI Bool) (s : PState) (hw : W s)
    (h : ∀ kind s1, W s1 → Mm s1 ≤ Mm s →
      Term (body kind) s1 (fun b c l => b = true → ∀ t, s1.current = some t → t.kind = kind → StrictT s1 c l)) :
    TA (peekWhile body) s :=
  peekWhile_term body s hw (fun kind s1 hw1 hM1 hcur => (h kind s1 hw1 hM1).weaken (fun b c l hq hb => by
    obtain ⟨t, ht, hk⟩ := hcur; exact hq hb t ht hk))

/-- `body; pure true` as a `peek_while` closure -/
theorem gc_then_true {G : Tok → Prop} {m : PI Unit} {s : PState} (h : Term m s (GC G s)) :
    Term (m >>= fun _ => pure true) s (fun b c l => b = true → ∀ t, s.current = some t → G t → StrictT s c l) :=
  (gc_first h (fun _ s3 hw3 _ => ta_pure true s3 hw3)).weaken (fun _ _ _ hq _ => hq)

theorem ta_false_post {s : PState} (hw : W s) {P : Prop} :
    Term (pure false : PI Bool) s (fun b _ _ => b = true → P) :=
  term_pure false s hw (fun h => by simp at h)

/-! ### argument.rs, directive.rs -/

theorem gc_argument (n : Nat) (isConst : Bool) (s : PState) (hw : W s) (hb : 4 * Mm s + 4 ≤ n) :
    Term (argument n isConst) s (GC (fun t => t.kind = .name) s) := by
  unfold argument
  refine gc_withNode _ _ s hw ?_
  intro s2 hw2 hM2
  refine gc_first (gc_name s2 hw2) ?_
  ta_auto

theorem ta_argument (n : Nat) (isConst : Bool) (s : PState) (hw : W s) (hb : 4 * Mm s + 4 ≤ n) :
    TA (argument n isConst) s := ta_of (gc_argument n isConst s hw hb)

theorem ta_arguments (n : Nat) (isConst : Bool) (s : PState) (hw : W s) (hb : 4 * Mm s + 4 ≤ n) :
    TA (arguments n isConst) s := by
  unfold arguments
  ta_auto_with (first
    | exact ta_argument _ _ _ (by assumption) (by omega)
    | exact ta_peekWhileKind _ _ _ (by assumption) (fun s4 hw4 hM4 => gc_argument n isConst s4 hw4 (by omega)))

theorem gc_directive (n : Nat) (isConst : Bool) (s : PState) (hw : W s) (hb : 4 * Mm s + 4 ≤ n) :
    Term (directive n isConst) s (GC (fun t => t.kind = .at) s) := by
  unfold directive
  refine gc_withNode _ _ s hw ?_
  intro s2 hw2 hM2
  refine gc_first (gc_expect .at "AT" s2 hw2) ?_
  ta_auto_with (exact ta_arguments _ _ _ (by assumption) (by omega))

theorem ta_directives (n : Nat) (isConst : Bool) (s : PState) (hw : W s) (hb : 4 * Mm s + 4 ≤ n) :
    TA (directives n isConst) s := by
  unfold directives
  refine ta_withNode _ _ s hw ?_
  intro s1 hw1 hM1
  exact ta_peekWhileKind _ _ s1 hw1 (fun s2 hw2 hM2 => gc_directive n isConst s2 hw2 (by omega))

end Apollo.Parse
