import ApolloModel.Proofs.ParserExactS4
/-
EXACT SOUNDNESS, part 5 (namespace Apollo.Parse.Exact): ParserSel5 repeated with the recursion budget — inline fragment,
selection set, the selection loop, the family induction.
-/
set_option linter.unusedSimpArgs false
namespace Apollo.Parse.Exact
open Apollo.Rowan hiding Str
open Apollo.Lex hiding Str

theorem inlT3_sound (n : Nat) (ih : SelSetSound n) (s s' : PState) (w : TW s) (he : EofEnd s)
    (h : (inlT3 n).run s = .ok () s') (hnd : ¬ Doomed s') :
    Cons s s' (LSet (bud s)) := by
  obtain ⟨sP, o, p, hor⟩ := ifPeek_dec .lCurly _ _ s s' () w h
  have heP := p.eofEnd he
  rcases hor with ⟨hk, h2⟩ | ⟨_, h2⟩
  · obtain ⟨t, rfl, hkt⟩ : ∃ t, o = some t ∧ t.kind = .lCurly := by
      cases o with
      | none => simp at hk
      | some t => exact ⟨t, rfl, by simpa using hk⟩
    have c := ih sP s' t _ p.w heP p.head_cons hkt h2 hnd
    exact (c.transport p.toks.symm rfl c.eofEnd).weaken (by intro x hx; rw [bud_peek p] at hx; exact hx)
  · exfalso
    exact hnd ((err_adv sP s' p.w h2).2 (eofEnd_nonempty sP heP (fun d => hnd ((good_err sP () s' p.w h2).doom d))))

theorem inline_sound_step (n : Nat) (ih : SelSetSound n) : InlineSound (n + 1) := by
  intro s s' t rest w he ht hk h hnd
  have hni : isIgnoredKind t.kind = false := by rw [hk]; rfl
  rw [inlineFragment_succ] at h
  obtain ⟨s1, s2, e1, h1, o2⟩ := withNode_peeked "INLINE_FRAGMENT" _ s s' () t rest w ht hni h
  have ht1 : Toks s1 = t :: rest := by have := e1.toks; rw [ht] at this; simpa using this.symm
  have hnd2 : ¬ Doomed s2 := fun d => hnd (o2.doomed.mpr d)
  have he1 : EofEnd s1 := eofEnd_eat he e1 (by intro x hx; cases hx)
  have h0 : Toks s = Toks s1 := by simpa using e1.toks
  unfold inlineBody at h1
  obtain ⟨_, s3, h3, h4⟩ := bind_dec (bump "SPREAD") _ s1 s2 () h1
  obtain ⟨ign, e3, hall, _⟩ := bump_spec "SPREAD" s1 s3 e1.w t rest ht1 h3
  have hno3 : NoEof (t :: ign) := noEof_cons (by rw [hk]; decide) hall
  have c0 : Cons s1 s3 (fun x => x = [.p .spread]) :=
    Cons.ofEat e3 he1 hno3 (tokIs_punct t ign .spread hni (by simp [astOfV, hk]) hall)
  -- optional type condition, then the rest
  have h4' : (peek >>= fun x => if x == some Kind.name then (typeCondition >>= fun _ => inlT2 n) else inlT2 n).run s3 = .ok () s2 := h4
  obtain ⟨sP, o, p, hor⟩ := ifPeek_dec .name _ _ s3 s2 () e3.w h4'
  have heP := p.eofEnd c0.eofEnd
  have tail : ∀ s4, TW s4 → EofEnd s4 → (inlT2 n).run s4 = .ok () s2 →
      Cons s4 s2 (fun x => ∃ ds y, x = Ast.tDirectives ds ++ y ∧ dirsFit false (bud s4) ds ∧ LSet (bud s4) y) := by
    intro s4 w4 he4 h5
    obtain ⟨s5, h6, h7⟩ := optThen_dec .at (directives n false) (inlT3 n) s4 s2 h5
    have a5 := good_opt .at _ (good_directives n false) s4 () s5 w4 h6
    have hnd5 : ¬ Doomed s5 := fun d => hnd2 ((good_inlT3 n s5 () s2 a5.w h7).doom d)
    have c1 := optDirectives_sound n s4 s5 w4 he4 h6 hnd5
    have c2 := inlT3_sound n ih s5 s2 a5.w c1.eofEnd h7 hnd2
    exact (c1.seq c2).weaken (by
      rintro z ⟨x, y, rfl, ⟨ds, rfl, hd⟩, hy⟩
      exact ⟨ds, y, rfl, hd, by rw [bud_adv a5] at hy; exact hy⟩)
  rcases hor with ⟨hkn, h5⟩ | ⟨_, h5⟩
  · obtain ⟨t2, rfl, hk2⟩ : ∃ t2, o = some t2 ∧ t2.kind = .name := by
      cases o with
      | none => simp at hkn
      | some t2 => exact ⟨t2, rfl, by simpa using hkn⟩
    obtain ⟨_, s4, h6, h7⟩ := bind_dec typeCondition _ sP s2 () h5
    have a6 := good_typeCondition sP () s4 p.w h6
    have hnd4 : ¬ Doomed s4 := fun d => hnd2 ((good_inlT2 n s4 () s2 a6.w h7).doom d)
    have c1 := typeCondition_sound sP s4 t2 _ p.w heP p.head_cons hk2 h6 hnd4
    have c1' : Cons s3 s4 _ := c1.transport p.toks.symm rfl c1.eofEnd
    have c2 := tail s4 a6.w c1.eofEnd h7
    have c := ((c0.seq c1').seq c2).transport h0 o2.toks (eofEnd_same _ _ c2.eofEnd o2.current o2.lx o2.errors)
    have hb4 : bud s4 = bud s := by rw [bud_adv a6, bud_peek p, bud_eat e3, bud_eat e1]
    exact c.weaken (by
      rintro z ⟨xy, y, rfl, ⟨x1, x2, rfl, rfl, ⟨ty, rfl⟩⟩, ⟨ds, y2, rfl, hd, ⟨ss, hne, rfl, hb1, hfs⟩⟩⟩
      rw [hb4] at hd hb1 hfs
      exact ⟨.inline (some ty) ds ss, by simp [Ast.tSel, sOnP, Ast.sOn, List.append_assoc], by rw [fitSel]; exact ⟨hd, hne, hb1, hfs⟩⟩)
  · have c2 := tail sP p.w heP h5
    have c2' : Cons s3 s2 _ := c2.transport p.toks.symm rfl c2.eofEnd
    have c := (c0.seq c2').transport h0 o2.toks (eofEnd_same _ _ c2.eofEnd o2.current o2.lx o2.errors)
    have hbP : bud sP = bud s := by rw [bud_peek p, bud_eat e3, bud_eat e1]
    exact c.weaken (by
      rintro z ⟨x, y, rfl, rfl, ⟨ds, y2, rfl, hd, ⟨ss, hne, rfl, hb1, hfs⟩⟩⟩
      rw [hbP] at hd hb1 hfs
      exact ⟨.inline none ds ss, by simp [Ast.tSel, List.append_assoc], by rw [fitSel]; exact ⟨hd, hne, hb1, hfs⟩⟩)


theorem selSet_sound_step (n : Nat) (ihs : SelsSound n) : SelSetSound (n + 1) := by
  intro s s' t rest w he ht hk h hnd
  have hni : isIgnoredKind t.kind = false := by rw [hk]; rfl
  rw [selectionSet_succ] at h
  obtain ⟨sP, o, p, hor⟩ := ifPeek_dec .lCurly _ _ s s' () w h
  have ho : o = some t := by rw [p.head, ht]; rfl
  subst ho
  have htP : Toks sP = t :: rest := by rw [p.toks]; exact ht
  have heP := p.eofEnd he
  rcases hor with ⟨_, h2⟩ | ⟨hne, _⟩
  · obtain ⟨s1, s2, e1, h1, o2⟩ := withNode_peeked "SELECTION_SET" _ sP s' () t rest p.w htP hni h2
    have ht1 : Toks s1 = t :: rest := by have := e1.toks; rw [htP] at this; simpa using this.symm
    have hnd2 : ¬ Doomed s2 := fun d => hnd (o2.doomed.mpr d)
    have he1 : EofEnd s1 := eofEnd_eat heP e1 (by intro x hx; cases hx)
    have h0 : Toks s = Toks s1 := by rw [← p.toks]; simpa using e1.toks
    unfold selSetBody at h1
    obtain ⟨_, s3, h3, h4⟩ := bind_dec (bump "L_CURLY") _ s1 s2 () h1
    obtain ⟨ign, e3, hall, _⟩ := bump_spec "L_CURLY" s1 s3 e1.w t rest ht1 h3
    have hno3 : NoEof (t :: ign) := noEof_cons (by rw [hk]; decide) hall
    have c0 : Cons s1 s3 (fun x => x = [.p .lCurly]) :=
      Cons.ofEat e3 he1 hno3 (tokIs_punct t ign .lCurly hni (by simp [astOfV, hk]) hall)
    have he3 := c0.eofEnd
    obtain ⟨ok, s4, h5, h6⟩ := bind_dec _ _ s3 s2 () h4
    have gtail : ∀ b, Good (if b = true then expect .rCurly "R_CURLY" else (pure () : PI Unit)) :=
      fun b => good_ite _ _ _ (good_expect _ _) (good_pure _)
    rcases withRec_dec _ _ s3 s4 ok h5 with ⟨_, sl, ol, hl⟩ | ⟨hle, sr1, sr2, c1, l1, er1, a1, r1, rl1, hr, c2, l2, er2, a2, r2, rl2⟩
    · exfalso
      have wl : TW sl := ol.w e3.w
      have hgl : Good (limitErr >>= fun _ => (pure false : PI Bool)) := good_bind _ _ good_limitErr (fun _ => good_pure _)
      have al := hgl sl ok s4 wl hl
      have hnd4 : ¬ Doomed s4 := fun d => hnd2 ((gtail ok s4 () s2 al.w h6).doom d)
      have hnd3 : ¬ Doomed s3 := fun d => hnd4 (al.doom (ol.doomed.mpr d))
      exact hnd4 (limitErr_then_dooms false sl s4 ok wl (by rw [ol.toks]; exact eofEnd_nonempty s3 he3 hnd3) hl)
    · have wr1 : TW sr1 := w_same _ _ e3.w er1 l1 a1
      have her1 : EofEnd sr1 := eofEnd_same _ _ he3 c1 l1 er1
      obtain ⟨_, sr2', hr1, hr2⟩ := bind_dec (selection n) _ sr1 sr2 ok hr
      rw [run_pure] at hr2
      injection hr2 with hok hs
      subst hs hok
      have advr := (goodSel n).sel sr1 () sr2' wr1 hr1
      have w4 : TW s4 := w_same _ _ advr.w er2 l2 a2
      simp only [if_true] at h6
      have hnd4 : ¬ Doomed s4 := fun d => hnd2 ((good_expect _ _ s4 () s2 w4 h6).doom d)
      have hndr : ¬ Doomed sr2' := fun d => hnd4 ((doomed_same _ _ er2 l2).mpr d)
      have cs := ihs sr1 sr2' wr1 her1 hr1 hndr
      have cs' : Cons s3 s4 _ := cs.transport (toks_same _ _ c1 l1).symm (toks_same _ _ c2 l2) (eofEnd_same _ _ cs.eofEnd c2 l2 er2)
      obtain ⟨_, hex⟩ := expect_spec .rCurly "R_CURLY" s4 s2 w4 h6
      rcases hex with ⟨hemp, _⟩ | hd | ⟨t2, rest2, ign2, hq, hk2, e2, hall2, _⟩
      · exact absurd hemp (eofEnd_nonempty s4 cs'.eofEnd hnd4)
      · exact absurd hd hnd2
      · have hni2 : isIgnoredKind t2.kind = false := by rw [hk2]; rfl
        have c3 : Cons s4 s2 (fun x => x = [.p .rCurly]) :=
          Cons.ofEat e2 cs'.eofEnd (noEof_cons (by rw [hk2]; decide) hall2) (tokIs_punct t2 ign2 .rCurly hni2 (by simp [astOfV, hk2]) hall2)
        have c := ((c0.seq cs').seq c3).transport h0 o2.toks (eofEnd_same _ _ c3.eofEnd o2.current o2.lx o2.errors)
        have hb3 : bud s3 = bud s := by rw [bud_eat e3, bud_eat e1, bud_peek p]
        have hbr : bud sr1 + 1 = bud s3 := by unfold bud; rw [r1, rl1]; omega
        exact c.weaken (by
          rintro z ⟨xy, y, rfl, ⟨x1, x2, rfl, rfl, ⟨ss, hne, rfl, hfs⟩⟩, rfl⟩
          exact ⟨ss, hne, by simp, by omega, by rw [show bud s - 1 = bud sr1 by omega]; exact hfs⟩)
  · exact absurd (by simp [hk]) hne


theorem selBody_sound (n : Nat) (ihf : SelFieldSound n) (ihi : InlineSound n) (sP sB : PState) (t : Tok) (rest : List Tok)
    (cont set : Bool) (w : TW sP) (he : EofEnd sP) (ht : Toks sP = t :: rest)
    (h : (selBody n t.kind).run sP = .ok (cont, set) sB) (hnd : ¬ Doomed sB) :
    (cont = true ∧ set = true ∧ Cons sP sB (fun x => ∃ f, x = Ast.tSel f ∧ fitSel f (bud sP))) ∨ (cont = false ∧ set = false ∧ sB = sP) := by
  have hne : Toks sP ≠ [] := by rw [ht]; simp
  unfold selBody at h
  by_cases h1 : (t.kind == Kind.spread) = true
  · have hk : t.kind = .spread := by simpa using h1
    simp only [h1, if_true] at h
    obtain ⟨o, s1, hq, h2⟩ := bind_dec (peekTokenN 2) _ sP sB (cont, set) h
    have : s1 = sP := by
      unfold peekTokenN at hq; simp only [] at hq; injection hq with _ hq; exact hq.symm
    subst this
    cases o with
    | none =>
      exfalso
      simp only [] at h2
      obtain ⟨_, s2, h3, h4⟩ := bind_dec errAndPop _ s1 sB (cont, set) h2
      rw [run_pure] at h4
      injection h4 with _ h4
      subst h4
      exact hnd (valueErr_dooms true s1 s2 w hne h3)
    | some next =>
      simp only [] at h2
      by_cases h2a : (next.kind == Kind.name && !kw "on" next.data) = true
      · simp only [h2a, if_true] at h2
        obtain ⟨_, s2, h3, h4⟩ := bind_dec (fragmentSpread n) _ s1 sB (cont, set) h2
        rw [run_pure] at h4
        injection h4 with h4 h5
        injection h4 with h4a h4b
        subst h5
        refine Or.inl ⟨h4a.symm, h4b.symm, ?_⟩
        exact (fragmentSpread_sound n s1 s2 t rest w he ht hk h3 hnd).weaken (by rintro x ⟨nm, ds, rfl, hf⟩; exact ⟨_, rfl, hf⟩)
      · simp only [h2a, Bool.false_eq_true, if_false] at h2
        by_cases h2b : (next.kind == Kind.at || next.kind == Kind.name || next.kind == Kind.lCurly) = true
        · simp only [h2b, if_true] at h2
          obtain ⟨_, s2, h3, h4⟩ := bind_dec (inlineFragment n) _ s1 sB (cont, set) h2
          rw [run_pure] at h4
          injection h4 with h4 h5
          injection h4 with h4a h4b
          subst h5
          exact Or.inl ⟨h4a.symm, h4b.symm, ihi s1 s2 t rest w he ht hk h3 hnd⟩
        · exfalso
          simp only [h2b, Bool.false_eq_true, if_false] at h2
          obtain ⟨_, s2, h3, h4⟩ := bind_dec err _ s1 sB (cont, set) h2
          obtain ⟨a3, d3⟩ := err_adv s1 s2 w h3
          have g : Good (bump "SPREAD" >>= fun _ => (pure (true, true) : PI (Bool × Bool))) := good_bind _ _ (good_bump _) (fun _ => good_pure _)
          exact hnd ((g s2 (cont, set) sB a3.w h4).doom (d3 hne))
  · simp only [h1, Bool.false_eq_true, if_false] at h
    by_cases h2 : (t.kind == Kind.lCurly) = true
    · simp only [h2, if_true] at h
      rw [run_pure] at h
      injection h with h h'
      injection h with ha hb
      exact Or.inr ⟨ha.symm, hb.symm, h'.symm⟩
    · simp only [h2, Bool.false_eq_true, if_false] at h
      by_cases h3 : (t.kind == Kind.name) = true
      · have hk : t.kind = .name := by simpa using h3
        simp only [h3, if_true] at h
        obtain ⟨_, s2, h4, h5⟩ := bind_dec (field n) _ sP sB (cont, set) h
        rw [run_pure] at h5
        injection h5 with h5 h6
        injection h5 with h5a h5b
        subst h6
        exact Or.inl ⟨h5a.symm, h5b.symm, ihf sP s2 t rest w he ht hk h4 hnd⟩
      · simp only [h3, Bool.false_eq_true, if_false] at h
        rw [run_pure] at h
        injection h with h h'
        injection h with ha hb
        exact Or.inr ⟨ha.symm, hb.symm, h'.symm⟩

theorem flagLoop_sound (n : Nat) (ihf : SelFieldSound n) (ihi : InlineSound n) :
    ∀ (fuel : Nat) (flag : Bool) (s s' : PState) (b : Bool), TW s → EofEnd s →
      (peekWhileFlagLoop (selBody n) fuel flag).run s = .ok b s' → ¬ Doomed s' →
      Cons s s' (fun x => ∃ items : List Ast.Sel, x = items.flatMap Ast.tSel ∧ (∀ f ∈ items, fitSel f (bud s)) ∧ (b = true → flag = true ∨ items ≠ []))
  | 0, _, s, s', b, _, _, h, _ => by simp [peekWhileFlagLoop, PI.outOfFuel] at h
  | fuel + 1, flag, s, s', b, w, he, h, hnd => by
    unfold peekWhileFlagLoop at h
    obtain ⟨ko, sP, hp, h2⟩ := bind_dec peek _ s s' b h
    obtain ⟨o, p, hko⟩ := peek_obs s sP ko w hp
    subst hko
    have heP := p.eofEnd he
    have stop : ∀ (hs : s' = sP) (hb : b = flag), Cons s s' (fun x => ∃ items : List Ast.Sel, x = items.flatMap Ast.tSel ∧ (∀ f ∈ items, fitSel f (bud s)) ∧ (b = true → flag = true ∨ items ≠ [])) := by
      intro hs hb
      rw [hs]
      exact (Cons.nil p.toks heP).weaken (by rintro x rfl; exact ⟨[], rfl, (by intro f hf; cases hf), fun h => Or.inl (hb ▸ h)⟩)
    cases o with
    | none =>
      simp only [Option.map_none] at h2
      rw [run_pure] at h2
      injection h2 with h2 h3
      exact stop h3.symm h2.symm
    | some t =>
      simp only [Option.map_some] at h2
      have h3 := getCurrent_dec _ sP s' b h2
      obtain ⟨cs, sB, hb, h4⟩ := bind_dec (selBody n t.kind) _ sP s' b h3
      obtain ⟨cont, st⟩ := cs
      simp only [] at h4
      have aB := good_selBody n (goodSel n) t.kind sP (cont, st) sB p.w hb
      cases cont with
      | false =>
        simp only [Bool.false_eq_true, if_false] at h4
        rw [run_pure] at h4
        injection h4 with h4 h5
        subst h5
        rcases selBody_sound n ihf ihi sP sB t _ false st p.w heP p.head_cons hb hnd with ⟨hc, _, _⟩ | ⟨_, hst, hsB⟩
        · cases hc
        · subst hst
          exact stop hsB (by simpa using h4.symm)
      | true =>
        simp only [if_true] at h4
        have h5 := getCurrent_dec _ sB s' b h4
        by_cases hsame : (sP.current == sB.current) = true
        · simp only [hsame, if_true] at h5
          exact absurd h5 (stuck_not_ok _ _ _)
        · simp only [hsame, Bool.false_eq_true, if_false] at h5
          have hndB : ¬ Doomed sB := fun d => hnd ((good_peekWhileFlagLoop _ (good_selBody n (goodSel n)) fuel _ sB b s' aB.w h5).doom d)
          rcases selBody_sound n ihf ihi sP sB t _ true st p.w heP p.head_cons hb hndB with ⟨_, hst, c1⟩ | ⟨hc, _, _⟩
          · have c1' : Cons s sB _ := c1.transport p.toks.symm rfl c1.eofEnd
            have c2 := flagLoop_sound n ihf ihi fuel (flag || st) sB s' b aB.w c1.eofEnd h5 hnd
            have hbP : bud sP = bud s := bud_peek p
            have hbB : bud sB = bud s := by rw [bud_adv aB, hbP]
            exact (c1'.seq c2).weaken (by
              rintro z ⟨x, y, rfl, ⟨f, rfl, hf⟩, ⟨items, rfl, hall, hb⟩⟩
              refine ⟨f :: items, by simp, ?_, fun _ => Or.inr (by simp)⟩
              intro g hg
              rcases List.mem_cons.mp hg with rfl | hg
              · rw [← hbP]; exact hf
              · rw [← hbB]; exact hall g hg)
          · cases hc

theorem fitSels_ofList (b : Nat) : ∀ items : List Ast.Sel, (∀ f ∈ items, fitSel f b) → fitSels (selsOfList items) b
  | [], _ => by simp [selsOfList, fitSels]
  | f :: r, h => by
    simp only [selsOfList, fitSels]
    exact ⟨h f (by simp), fitSels_ofList b r (fun g hg => h g (by simp [hg]))⟩

theorem sels_sound_step (n : Nat) (ihf : SelFieldSound n) (ihi : InlineSound n) : SelsSound (n + 1) := by
  intro s s' w he h hnd
  rw [selection_succ] at h
  obtain ⟨len, h1⟩ := srcLen_dec _ s s' () h
  obtain ⟨b, s1, h2, h3⟩ := bind_dec _ _ s s' () h1
  have a1 := good_peekWhileFlagLoop _ (good_selBody n (goodSel n)) _ _ s b s1 w h2
  cases b with
  | false =>
    exfalso
    simp only [Bool.not_false, if_true] at h3
    have hnd1 : ¬ Doomed s1 := fun d => hnd ((good_err s1 () s' a1.w h3).doom d)
    have c := flagLoop_sound n ihf ihi _ false s s1 false w he h2 hnd1
    exact hnd ((err_adv s1 s' a1.w h3).2 (eofEnd_nonempty s1 c.eofEnd hnd1))
  | true =>
    simp only [Bool.not_true, Bool.false_eq_true, if_false] at h3
    rw [run_pure] at h3
    injection h3 with _ h3
    subst h3
    have c := flagLoop_sound n ihf ihi _ false s s1 true w he h2 hnd
    exact c.weaken (by
      rintro x ⟨items, rfl, hall, hb⟩
      refine ⟨selsOfList items, ?_, (tSels_ofList items).symm, fitSels_ofList _ _ hall⟩
      rcases hb rfl with h | h
      · cases h
      · cases items with
        | nil => exact absurd rfl h
        | cons f r => simp [selsOfList])

/-- soundness of the whole family, by induction on the fuel -/
theorem sel_all_sound : ∀ n, SelSetSound n ∧ SelsSound n ∧ SelFieldSound n ∧ InlineSound n
  | 0 => ⟨by intro s s' t rest _ _ _ _ h; simp [selectionSet, PI.outOfFuel] at h,
          by intro s s' _ _ h; simp [selection, PI.outOfFuel] at h,
          by intro s s' t rest _ _ _ _ h; simp [field, PI.outOfFuel] at h,
          by intro s s' t rest _ _ _ _ h; simp [inlineFragment, PI.outOfFuel] at h⟩
  | n + 1 => by
    obtain ⟨a, b, c, d⟩ := sel_all_sound n
    exact ⟨selSet_sound_step n b, sels_sound_step n c d, field_sound_step n a, inline_sound_step n a⟩

end Apollo.Parse.Exact
