import ApolloModel.Proofs.ParserComplete12
import ApolloModel.Proofs.LexerNumbers
/-
C05 / C07 growth (completeness), part 13: a lexer fact needed by the document dispatch — a token of kind `{`
has the text `{` (`select_definition` looks at the TEXT of the token, `p.peek_data() == "{"`).  Proved for the
lexer model and transported to the parser's token queue of every source text.
-/
set_option linter.unusedSimpArgs false
namespace Apollo.Lex

theorem punct_lCurly (c : Char) (h : punctuationKind c = some .lCurly) : c = '{' := by
  have : c.toNat = 123 := by
    revert h
    unfold punctuationKind
    split <;> first | (intro _; assumption) | simp
  exact (char_eq_iff c '{').mpr this

def okActL (a : Action) : Prop :=
  match a with
  | .goto st' k' _ => st' ≠ .start ∧ k' ≠ .lCurly
  | .incl (.tok k') => k' ≠ .lCurly
  | .excl (.tok k') => k' ≠ .lCurly
  | _ => True

theorem okActL_done_incl (kind : Kind) (e : Bool) (hk : kind ≠ .lCurly) : okActL (.incl (done kind e)) := by
  unfold done; split <;> simp [okActL, hk]
theorem okActL_done_excl (kind : Kind) (e : Bool) (hk : kind ≠ .lCurly) : okActL (.excl (done kind e)) := by
  unfold done; split <;> simp [okActL, hk]
theorem okActL_block (kind : Kind) (e : Bool) (c : Char) (hk : kind ≠ .lCurly) : okActL (blockStep kind e c) := by
  unfold blockStep; repeat' split
  all_goals simp [okActL, hk]

/-- outside the start state no transition produces the kind `{` -/
theorem step_kindL (st : State) (kind : Kind) (e : Bool) (acc : Str) (c : Char)
    (hst : st ≠ .start) (hk' : kind ≠ .lCurly) : okActL (step st kind e acc c) := by
  cases st with
  | start => exact absurd rfl hst
  | _ =>
    simp only [step]
    repeat' split
    all_goals first
      | exact okActL_done_incl _ _ hk'
      | exact okActL_done_excl _ _ hk'
      | exact okActL_block _ _ _ hk'
      | simp [okActL, hk']

theorem runD_kind_ne_lCurly : ∀ (src : Str) (st : State) (kind : Kind) (e : Bool) (acc : Str) (k : Kind) (d : Str),
    st ≠ .start → kind ≠ .lCurly → (runD st kind e acc src).1 = .tok k d → k ≠ .lCurly
  | [], st, kind, e, acc, k, d, hst, hk', h => by
    simp only [runD] at h
    cases st <;> simp [eofItem] at h <;> (try exact absurd rfl hst) <;> (obtain ⟨rfl, _⟩ := h; exact hk')
  | c :: rest, st, kind, e, acc, k, d, hst0, hk, h => by
    have hstep := step_kindL st kind e acc c hst0 hk
    unfold runD at h
    cases hst : step st kind e acc c with
    | goto st' k' e' =>
      simp only [hst, okActL] at h hstep
      exact runD_kind_ne_lCurly rest st' k' e' (acc ++ [c]) k d hstep.1 hstep.2 h
    | incl o =>
      simp only [hst, okActL] at h hstep
      cases o with
      | tok k' => simp only [Out.mk, Item.tok.injEq] at h; obtain ⟨rfl, _⟩ := h; exact hstep
      | err => simp [Out.mk] at h
    | excl o =>
      simp only [hst, okActL] at h hstep
      cases o with
      | tok k' => simp only [Out.mk, Item.tok.injEq] at h; obtain ⟨rfl, _⟩ := h; exact hstep
      | err => simp [Out.mk] at h

theorem step_startL (kind : Kind) (e : Bool) (acc : Str) (c : Char) (hp : punctuationKind c = none) :
    okActL (step .start kind e acc c) := by
  simp only [step, hp]
  repeat' split
  all_goals simp [okActL]

/-- **a `{` token has the text `{`** -/
theorem advance_lCurly (c : Char) (rest : Str) (d : Str) (h : (advance (c :: rest)).1 = .tok .lCurly d) : d = ['{'] := by
  unfold advance runD at h
  cases hp : punctuationKind c with
  | some k =>
    simp only [step, hp, Out.mk, List.nil_append, Item.tok.injEq] at h
    obtain ⟨rfl, rfl⟩ := h
    rw [punct_lCurly c hp]
  | none =>
    exfalso
    have hstep := step_startL .eof false [] c hp
    cases hst : step .start .eof false [] c with
    | goto st' k' e' =>
      simp only [hst, okActL] at h hstep
      exact runD_kind_ne_lCurly rest st' k' e' _ _ d hstep.1 hstep.2 h rfl
    | incl o =>
      simp only [hst, okActL] at h hstep
      cases o with
      | tok k' => simp only [Out.mk, Item.tok.injEq] at h; obtain ⟨rfl, _⟩ := h; exact hstep rfl
      | err => simp [Out.mk] at h
    | excl o =>
      simp only [hst, okActL] at h hstep
      cases o with
      | tok k' => simp only [Out.mk, Item.tok.injEq] at h; obtain ⟨rfl, _⟩ := h; exact hstep rfl
      | err => simp [Out.mk] at h

theorem lexAux_lCurly : ∀ (fuel count : Nat) (src : Str), ∀ it ∈ lexAux fuel none count src,
    ∀ (d : Str), it = .tok .lCurly d → d = ['{']
  | 0, _, _ => by intro it hit; simp [lexAux] at hit
  | fuel + 1, count, [] => by
    intro it hit d e
    simp [lexAux] at hit
    rw [hit] at e
    injection e with e1 _
    cases e1
  | fuel + 1, count, c0 :: rest0 => by
    intro it hit d e
    simp only [lexAux, Bool.false_eq_true, if_false, List.mem_cons] at hit
    rcases hit with hit | hit
    · exact advance_lCurly c0 rest0 d (by rw [← hit, e])
    · exact lexAux_lCurly fuel (count + 1) _ it hit d e

end Apollo.Lex

namespace Apollo.Parse
open Apollo.Rowan hiding Str
open Apollo.Lex hiding Str

/-- the lexer fact on a token queue: `{` tokens have the text `{` -/
def CurlyQ (q : List Tok) : Prop := ∀ t ∈ q, t.kind = .lCurly → t.data = ['{']

theorem CurlyQ.suffix {cs q : List Tok} (h : CurlyQ (cs ++ q)) : CurlyQ q := fun t ht => h t (List.mem_append_right _ ht)

theorem curlyQ_srcToks (src : Str) : CurlyQ (srcToks src) := by
  intro t ht hk
  have hm : (t.kind, t.data) ∈ lexToks src := by
    rw [← srcToks_lex src]
    exact List.mem_map.mpr ⟨t, ht, rfl⟩
  unfold lexToks at hm
  obtain ⟨it, hit, hkd⟩ := List.mem_filterMap.mp hm
  cases it with
  | tok k d =>
    simp only [itemKD, Option.some.injEq, Prod.mk.injEq] at hkd
    have := Lex.lexAux_lCurly _ _ _ (.tok k d) hit d (by rw [hkd.1, hk])
    rw [← hkd.2]; exact this
  | err _ => simp [itemKD] at hkd
  | limit => simp [itemKD] at hkd

end Apollo.Parse
