import ApolloModel.Proofs.LexerNumbers
/-
Quoted strings, comments, whitespace, spread: the DFA against Spec/Lexical.lean.
-/
set_option linter.unusedSimpArgs false
namespace Apollo.Lex
open Apollo.Spec.Lexical (StringChars IsQuotedString)

/-- the lexer's documented relaxation: every character counts as a SourceCharacter -/
def anyChar : Char → Bool := fun _ => true

def q3 : Str := ['"', '"', '"']

/-! ### character classes -/
theorem lexLT_iff (c : Char) : isLineTerminator c = true ↔ (c.toNat = 10 ∨ c.toNat = 13) := by
  simp [isLineTerminator]
theorem specLT_eq (c : Char) : Spec.Lexical.isLineTerminator c = isLineTerminator c := by
  simp only [Spec.Lexical.isLineTerminator, isLineTerminator, char_beq, Char.reduceToNat]
theorem specEsc_eq (c : Char) : Spec.Lexical.isEscapedCharacter c = isEscapedChar c := by
  simp only [Spec.Lexical.isEscapedCharacter, isEscapedChar, char_beq, Char.reduceToNat]
theorem specHex_eq (c : Char) : Spec.Lexical.isHexDigit c = isAsciiHexDigit c := by
  rw [Bool.eq_iff_iff]
  simp only [Spec.Lexical.isHexDigit, Spec.Lexical.isDigit, isAsciiHexDigit, isAsciiDigit, Bool.or_eq_true,
    Bool.and_eq_true, decide_eq_true_eq, char_le_iff, Char.reduceToNat]
  omega

/-! ### StringCharacter* is closed under appending one more StringCharacter -/
theorem sc_append {src : Char → Bool} {a b : Str} (ha : StringChars src a) (hb : StringChars src b) :
    StringChars src (a ++ b) := by
  induction ha with
  | nil => simpa using hb
  | plain h1 h2 h3 h4 _ ih => exact StringChars.plain h1 h2 h3 h4 ih
  | escaped h1 _ ih => exact StringChars.escaped h1 ih
  | unicode h1 h2 h3 h4 _ ih => exact StringChars.unicode h1 h2 h3 h4 ih

/-! ### (A) a pending error never becomes a token -/
def isQuotedBody : State → Bool
  | .stringLiteral | .stringLiteralBackslash | .stringLiteralEscapedUnicode _ => true
  | _ => false

def pendingOk (a : Action) : Prop :=
  match a with
  | .goto st' _ e' => isQuotedBody st' = true ∧ e' = true
  | .incl (.tok _) => False
  | .excl (.tok _) => False
  | _ => True

theorem step_pending (st : State) (k : Kind) (acc : Str) (c : Char) (h : isQuotedBody st = true) :
    pendingOk (step st k true acc c) := by
  cases st <;> simp [isQuotedBody] at h
  all_goals
    simp only [step, done]
    repeat' split
    all_goals simp [pendingOk, isQuotedBody]

theorem runD_pending : ∀ (src : Str) (st : State) (k : Kind) (acc : Str), isQuotedBody st = true →
    (runD st k true acc src).1.isErr = true
  | [], st, k, acc, h => by cases st <;> simp [isQuotedBody] at h <;> rfl
  | c :: src, st, k, acc, h => by
    have hp := step_pending st k acc c h
    unfold runD
    cases hs : step st k true acc c with
    | goto st' k' e' =>
      simp only [hs, pendingOk] at hp ⊢
      obtain ⟨h1, rfl⟩ := hp
      exact runD_pending src st' k' (acc ++ [c]) h1
    | incl o => cases o <;> simp [hs, pendingOk, Out.mk, Item.isErr] at hp ⊢
    | excl o => cases o <;> simp [hs, pendingOk, Out.mk, Item.isErr] at hp ⊢

/-! ### (B) block-string states: whatever comes out starts with three quotes -/
def isBlockState : State → Bool
  | .blockStringLiteral | .blockQuote1 | .blockQuote2 | .blockStringLiteralBackslash
  | .blockBackslashQuote1 | .blockBackslashQuote2 => true
  | _ => false

def blockOk (a : Action) : Prop :=
  match a with
  | .goto st' _ _ => isBlockState st' = true
  | .excl _ => False
  | _ => True

theorem blockStep_ok (k : Kind) (e : Bool) (c : Char) : blockOk (blockStep k e c) := by
  unfold blockStep; repeat' split
  all_goals simp [blockOk, isBlockState]

theorem step_block (st : State) (k : Kind) (e : Bool) (acc : Str) (c : Char) (h : isBlockState st = true) :
    blockOk (step st k e acc c) := by
  cases st <;> simp [isBlockState] at h
  all_goals
    simp only [step]
    repeat' split
    all_goals first
      | exact blockStep_ok _ _ _
      | simp [blockOk, isBlockState]

theorem runD_block : ∀ (src : Str) (st : State) (k : Kind) (e : Bool) (tail : Str), isBlockState st = true →
    ∃ tail', (runD st k e (q3 ++ tail) src).1.data = q3 ++ tail'
  | [], st, k, e, tail, h => ⟨tail, by simp [runD, eofItem_data]⟩
  | c :: src, st, k, e, tail, h => by
    have hp := step_block st k e (q3 ++ tail) c h
    unfold runD
    cases hs : step st k e (q3 ++ tail) c with
    | goto st' k' e' =>
      simp only [hs, blockOk] at hp ⊢
      have := runD_block src st' k' e' (tail ++ [c]) hp
      simpa [List.append_assoc] using this
    | incl o => exact ⟨tail ++ [c], by cases o <;> simp [Out.mk, Item.data]⟩
    | excl o => simp [hs, blockOk] at hp

/-- StringCharacter* with the lexer's two documented deviations: any character is a SourceCharacter,
    and a `\uXXXX` escape must not denote a surrogate code point -/
inductive LexStringChars : Str → Prop where
  | nil : LexStringChars []
  | plain {c : Char} {rest : Str} : c ≠ '"' → c ≠ '\\' → Spec.Lexical.isLineTerminator c = false →
      LexStringChars rest → LexStringChars (c :: rest)
  | escaped {c : Char} {rest : Str} : Spec.Lexical.isEscapedCharacter c = true → LexStringChars rest →
      LexStringChars ('\\' :: c :: rest)
  | unicode {a b c d : Char} {rest : Str} : Spec.Lexical.isHexDigit a = true → Spec.Lexical.isHexDigit b = true →
      Spec.Lexical.isHexDigit c = true → Spec.Lexical.isHexDigit d = true →
      isSurrogate (((hexVal a * 16 + hexVal b) * 16 + hexVal c) * 16 + hexVal d) = false →
      LexStringChars rest → LexStringChars ('\\' :: 'u' :: a :: b :: c :: d :: rest)

theorem lastFourHex_snoc4 (x : Str) (a b c d : Char) :
    lastFourHex (x ++ [a, b, c] ++ [d]) = ((hexVal a * 16 + hexVal b) * 16 + hexVal c) * 16 + hexVal d := by
  simp [lastFourHex, List.reverse_append]


theorem lsc_append {a b : Str} (ha : LexStringChars a) (hb : LexStringChars b) : LexStringChars (a ++ b) := by
  induction ha with
  | nil => simpa using hb
  | plain h1 h2 h3 _ ih => exact LexStringChars.plain h1 h2 h3 ih
  | escaped h1 _ ih => exact LexStringChars.escaped h1 ih
  | unicode h1 h2 h3 h4 h5 _ ih => exact LexStringChars.unicode h1 h2 h3 h4 h5 ih

/-- the lexer's string characters are the grammar's, with the SourceCharacter relaxation -/
theorem lsc_to_sc {body : Str} (h : LexStringChars body) : StringChars anyChar body := by
  induction h with
  | nil => exact StringChars.nil
  | plain h1 h2 h3 _ ih => exact StringChars.plain rfl h1 h2 h3 ih
  | escaped h1 _ ih => exact StringChars.escaped h1 ih
  | unicode h1 h2 h3 h4 _ _ ih => exact StringChars.unicode h1 h2 h3 h4 ih

/-! ### (C) the quoted-string states with no pending error -/

/-- what has been consumed so far, as a spec-shaped decomposition -/
inductive StrInv : State → Str → Prop where
  | start1 : StrInv .stringLiteralStart ['"']
  | start2 : StrInv .stringLiteralStart2 ['"', '"']
  | lit {body : Str} : LexStringChars body → StrInv .stringLiteral ('"' :: body)
  | bs {body : Str} : LexStringChars body → StrInv .stringLiteralBackslash ('"' :: (body ++ ['\\']))
  | uni {body hs : Str} {n : Nat} : LexStringChars body → (∀ h ∈ hs, isAsciiHexDigit h = true) →
      hs.length + n = 4 → 1 ≤ n → StrInv (.stringLiteralEscapedUnicode n) ('"' :: (body ++ '\\' :: 'u' :: hs))

theorem sc_snoc_plain {body : Str} {c : Char} (hb : LexStringChars body) (h1 : c ≠ '"') (h2 : c ≠ '\\')
    (h3 : isLineTerminator c = false) : LexStringChars (body ++ [c]) :=
  lsc_append hb (LexStringChars.plain h1 h2 (by rw [specLT_eq]; exact h3) LexStringChars.nil)

theorem sc_snoc_escaped {body : Str} {c : Char} (hb : LexStringChars body) (h : isEscapedChar c = true) :
    LexStringChars (body ++ ['\\', c]) :=
  lsc_append hb (LexStringChars.escaped (by rw [specEsc_eq]; exact h) LexStringChars.nil)

theorem sc_snoc_unicode {pre body hs : Str} {c : Char} (hb : LexStringChars body)
    (hhs : ∀ h ∈ hs, isAsciiHexDigit h = true) (hlen : hs.length = 3) (hc : isAsciiHexDigit c = true)
    (hsur : isSurrogate (lastFourHex ((pre ++ hs) ++ [c])) = false) :
    LexStringChars (body ++ '\\' :: 'u' :: (hs ++ [c])) := by
  match hs, hlen with
  | [x, y, z], _ =>
    rw [lastFourHex_snoc4] at hsur
    exact lsc_append hb (LexStringChars.unicode (by rw [specHex_eq]; exact hhs x (by simp))
      (by rw [specHex_eq]; exact hhs y (by simp)) (by rw [specHex_eq]; exact hhs z (by simp))
      (by rw [specHex_eq]; exact hc) hsur LexStringChars.nil)

/-- the text of a quoted string token in the lexer's exact language -/
def IsLexQuoted (t : Str) : Prop := ∃ body, t = '"' :: (body ++ ['"']) ∧ LexStringChars body

theorem lexQuoted_spec {t : Str} (h : IsLexQuoted t) : IsQuotedString anyChar t := by
  obtain ⟨body, rfl, hb⟩ := h
  exact ⟨body, rfl, lsc_to_sc hb⟩

/-- a token the quoted-string machinery may produce: a spec quoted string (with the SourceCharacter
    relaxation), or something that starts with three quotes (a block string) -/
def StrFinal (k : Kind) (t : Str) : Prop :=
  k = .stringValue ∧ (IsLexQuoted t ∨ ∃ tail, t = q3 ++ tail)

theorem quoted_of_body {body : Str} (h : LexStringChars body) : IsLexQuoted ('"' :: body ++ ['"']) :=
  ⟨body, by simp, h⟩

/-- SOUNDNESS for strings, from any quoted-string state -/
theorem str_sound : ∀ (src : Str) (st : State) (acc : Str), StrInv st acc →
    ∀ k t rest, runD st .stringValue false acc src = (.tok k t, rest) → StrFinal k t
  | [], st, acc, h, k, t, rest, hr => by
    cases h with
    | start2 =>
      simp only [runD, eofItem, Prod.mk.injEq, Item.tok.injEq] at hr
      obtain ⟨⟨rfl, rfl⟩, _⟩ := hr
      exact ⟨rfl, Or.inl ⟨[], rfl, LexStringChars.nil⟩⟩
    | _ => simp [runD, eofItem] at hr
  | c :: src, st, acc, h, k, t, rest, hr => by
    unfold runD at hr
    cases h with
    | start1 =>
      by_cases h1 : c = '"'
      · subst h1
        simp only [step, beq_self_eq_true, if_true] at hr
        exact str_sound src _ _ StrInv.start2 k t rest hr
      · by_cases h2 : c = '\\'
        · subst h2
          simp only [step] at hr
          exact str_sound src _ _ (StrInv.bs (body := []) LexStringChars.nil) k t rest (by simpa using hr)
        · by_cases h3 : isLineTerminator c = true
          · simp only [step, h1, h2, h3, beq_iff_eq, if_false, if_true] at hr
            have := runD_pending src .stringLiteral .stringValue (['"'] ++ [c]) rfl
            rw [hr] at this; simp [Item.isErr] at this
          · simp only [step, h1, h2, h3, beq_iff_eq, if_false, Bool.false_eq_true] at hr
            have hb := sc_snoc_plain (body := []) LexStringChars.nil h1 h2 (by simpa using h3)
            exact str_sound src _ _ (StrInv.lit hb) k t rest (by simpa using hr)
    | start2 =>
      by_cases h1 : c = '"'
      · subst h1
        simp only [step, beq_self_eq_true, if_true] at hr
        have := runD_block src .blockStringLiteral .stringValue false [] rfl
        have hr' : runD .blockStringLiteral .stringValue false (q3 ++ []) src = (.tok k t, rest) := by
          simpa [q3] using hr
        rw [hr'] at this
        obtain ⟨tail', ht⟩ := this
        have hk := runD_keepsKind src .blockStringLiteral .stringValue false (q3 ++ []) rfl (by simp) k t rest hr'
        exact ⟨hk, Or.inr ⟨tail', by simpa [Item.data] using ht⟩⟩
      · simp only [step, h1, beq_iff_eq, if_false, done, Bool.false_eq_true, Out.mk, Prod.mk.injEq,
          Item.tok.injEq] at hr
        obtain ⟨⟨rfl, rfl⟩, _⟩ := hr
        exact ⟨rfl, Or.inl ⟨[], rfl, LexStringChars.nil⟩⟩
    | lit hb =>
      rename_i body
      by_cases h1 : c = '"'
      · subst h1
        simp only [step, beq_self_eq_true, if_true, done, Bool.false_eq_true, if_false, Out.mk,
          Prod.mk.injEq, Item.tok.injEq] at hr
        obtain ⟨⟨rfl, rfl⟩, _⟩ := hr
        exact ⟨rfl, Or.inl (by simpa using quoted_of_body hb)⟩
      · by_cases h3 : isLineTerminator c = true
        · simp only [step, h1, h3, beq_iff_eq, if_false, if_true] at hr
          have := runD_pending src .stringLiteral .stringValue (('"' :: body) ++ [c]) rfl
          rw [hr] at this; simp [Item.isErr] at this
        · by_cases h2 : c = '\\'
          · subst h2
            simp only [step, h1, h3, beq_iff_eq, if_false, Bool.false_eq_true, beq_self_eq_true, if_true] at hr
            exact str_sound src _ _ (StrInv.bs hb) k t rest (by simpa using hr)
          · simp only [step, h1, h2, h3, beq_iff_eq, if_false, Bool.false_eq_true] at hr
            have hb' := sc_snoc_plain hb h1 h2 (by simpa using h3)
            exact str_sound src _ _ (StrInv.lit hb') k t rest (by simpa using hr)
    | bs hb =>
      rename_i body
      by_cases h1 : isEscapedChar c = true
      · simp only [step, h1, if_true] at hr
        have hb' := sc_snoc_escaped hb h1
        exact str_sound src _ _ (StrInv.lit hb') k t rest (by simpa using hr)
      · by_cases h2 : c = 'u'
        · subst h2
          simp only [step, h1, Bool.false_eq_true, if_false, beq_self_eq_true, if_true] at hr
          have := StrInv.uni (hs := []) (n := 4) hb (by simp) rfl (by omega)
          exact str_sound src _ _ this k t rest (by simpa using hr)
        · simp only [step, h1, h2, beq_iff_eq, Bool.false_eq_true, if_false] at hr
          have := runD_pending src .stringLiteral .stringValue (('"' :: (body ++ ['\\'])) ++ [c]) rfl
          rw [hr] at this; simp [Item.isErr] at this
    | uni hb hhs hlen hn =>
      rename_i body hs n
      by_cases h1 : c = '"'
      · subst h1
        simp [step, Out.mk] at hr
      · by_cases h2 : isAsciiHexDigit c = true
        · by_cases h3 : n ≤ 1
          · have hn1 : n = 1 := by omega
            subst hn1
            simp only [step, h1, h2, beq_iff_eq, if_false, Bool.not_true, Bool.false_eq_true,
              Nat.le_refl, if_true, Bool.false_or] at hr
            cases hsur : isSurrogate (lastFourHex (('"' :: (body ++ '\\' :: 'u' :: hs)) ++ [c])) with
            | true =>
              rw [hsur] at hr
              have := runD_pending src .stringLiteral .stringValue (('"' :: (body ++ '\\' :: 'u' :: hs)) ++ [c]) rfl
              rw [hr] at this; simp [Item.isErr] at this
            | false =>
              rw [hsur] at hr
              have hb' := sc_snoc_unicode (pre := '"' :: (body ++ ['\\', 'u'])) hb hhs (by omega) h2 (by simpa using hsur)
              exact str_sound src _ _ (StrInv.lit hb') k t rest (by simpa using hr)
          · simp only [step, h1, h2, h3, beq_iff_eq, if_false, Bool.not_true, Bool.false_eq_true] at hr
            have := StrInv.uni (hs := hs ++ [c]) (n := n - 1) hb
              (by intro x hx; rcases List.mem_append.mp hx with hx | hx
                  · exact hhs x hx
                  · simp at hx; subst hx; exact h2)
              (by simp; omega) (by omega)
            exact str_sound src _ _ this k t rest (by simpa using hr)
        · simp only [step, h1, h2, beq_iff_eq, if_false, Bool.not_false, if_true] at hr
          have := runD_pending src .stringLiteral .stringValue (('"' :: (body ++ '\\' :: 'u' :: hs)) ++ [c]) rfl
          rw [hr] at this; simp [Item.isErr] at this

theorem sc_strict {body : Str} (h : StringChars anyChar body)
    (hs : ∀ c ∈ body, Spec.Lexical.isSourceCharacter c = true) :
    StringChars Spec.Lexical.isSourceCharacter body := by
  induction h with
  | nil => exact StringChars.nil
  | plain _ h2 h3 h4 _ ih =>
    exact StringChars.plain (hs _ (by simp)) h2 h3 h4 (ih fun c hc => hs c (by simp [hc]))
  | escaped h1 _ ih => exact StringChars.escaped h1 (ih fun c hc => hs c (by simp [hc]))
  | unicode h1 h2 h3 h4 _ ih => exact StringChars.unicode h1 h2 h3 h4 (ih fun c hc => hs c (by simp [hc]))

/-! ### completeness for quoted strings -/

theorem hex_not_quote {c : Char} (h : isAsciiHexDigit c = true) : c ≠ '"' := by
  intro e; subst e; simp [isAsciiHexDigit, isAsciiDigit] at h

/-- one escape sequence or plain character, from `stringLiteral` or `stringLiteralStart` -/
theorem backslash_escaped (acc : Str) (c : Char) (tail : Str) (h : isEscapedChar c = true) :
    runD .stringLiteralBackslash .stringValue false acc (c :: tail) =
      runD .stringLiteral .stringValue false (acc ++ [c]) tail := by
  simp [runD, step, h]

theorem backslash_unicode (acc : Str) (a b c d : Char) (tail : Str)
    (ha : isAsciiHexDigit a = true) (hb : isAsciiHexDigit b = true) (hc : isAsciiHexDigit c = true)
    (hd : isAsciiHexDigit d = true)
    (hs : isSurrogate (((hexVal a * 16 + hexVal b) * 16 + hexVal c) * 16 + hexVal d) = false) :
    runD .stringLiteralBackslash .stringValue false acc ('u' :: a :: b :: c :: d :: tail) =
      runD .stringLiteral .stringValue false (acc ++ ['u', a, b, c, d]) tail := by
  have hu : isEscapedChar 'u' = false := by decide
  have e : acc ++ ['u'] ++ [a] ++ [b] ++ [c] ++ [d] = (acc ++ ['u']) ++ [a, b, c] ++ [d] := by simp
  simp only [runD, step, hu, Bool.false_eq_true, if_false, beq_self_eq_true, if_true,
    hex_not_quote ha, hex_not_quote hb, hex_not_quote hc, hex_not_quote hd, beq_iff_eq,
    ha, hb, hc, hd, Bool.not_true, Nat.reduceLeDiff, Nat.add_one_sub_one, Nat.le_refl, Bool.false_or]
  rw [e, lastFourHex_snoc4, hs]
  simp

theorem lit_run (rest : Str) : ∀ (body : Str), LexStringChars body → ∀ acc,
    runD .stringLiteral .stringValue false acc (body ++ '"' :: rest) =
      (.tok .stringValue (acc ++ body ++ ['"']), rest) := by
  intro body h
  induction h with
  | nil => intro acc; simp [runD, step, done, Out.mk]
  | plain h1 h2 h3 _ ih =>
    intro acc
    rw [specLT_eq] at h3
    simp only [List.cons_append, runD, step, h1, h2, h3, beq_iff_eq, if_false, Bool.false_eq_true]
    rw [ih]; simp
  | escaped h1 _ ih =>
    intro acc
    rw [specEsc_eq] at h1
    have : step .stringLiteral .stringValue false acc '\\' = .goto .stringLiteralBackslash .stringValue false := by
      simp [step, isLineTerminator]
    simp only [List.cons_append]
    rw [runD, this]
    simp only []
    rw [backslash_escaped _ _ _ h1, ih]; simp
  | unicode ha hb hc hd hs _ ih =>
    intro acc
    rw [specHex_eq] at ha hb hc hd
    have : step .stringLiteral .stringValue false acc '\\' = .goto .stringLiteralBackslash .stringValue false := by
      simp [step, isLineTerminator]
    simp only [List.cons_append]
    rw [runD, this]
    simp only []
    rw [backslash_unicode _ _ _ _ _ _ ha hb hc hd hs, ih]; simp

/-- COMPLETENESS for quoted strings -/
theorem lex_string_complete (body rest : Str) (hb : LexStringChars body)
    (hl : body = [] → rest.head? ≠ some '"') :
    advance ('"' :: (body ++ '"' :: rest)) = (.tok .stringValue ('"' :: (body ++ ['"'])), rest) := by
  have h0 : step .start .eof false [] '"' = .goto .stringLiteralStart .stringValue false := by
    simp [step, punctuationKind, isNameStart, isAsciiDigit]
  unfold advance
  rw [runD, h0]
  simp only [List.nil_append]
  cases hb with
  | nil =>
    have hl' := hl rfl
    cases rest with
    | nil => simp [runD, step, eofItem]
    | cons c r =>
      have : c ≠ '"' := by intro e; subst e; simp at hl'
      simp [runD, step, this, done, Out.mk]
  | plain h1 h2 h3 ht =>
    rw [specLT_eq] at h3
    simp only [List.cons_append, runD, step, h1, h2, h3, beq_iff_eq, if_false, Bool.false_eq_true]
    rw [lit_run rest _ ht]; simp
  | escaped h1 ht =>
    rw [specEsc_eq] at h1
    have : step .stringLiteralStart .stringValue false ['"'] '\\' = .goto .stringLiteralBackslash .stringValue false := by
      simp [step]
    simp only [List.cons_append]
    rw [runD, this]
    simp only []
    rw [backslash_escaped _ _ _ h1, lit_run rest _ ht]; simp
  | unicode ha hb hc hd hs ht =>
    rw [specHex_eq] at ha hb hc hd
    have : step .stringLiteralStart .stringValue false ['"'] '\\' = .goto .stringLiteralBackslash .stringValue false := by
      simp [step]
    simp only [List.cons_append]
    rw [runD, this]
    simp only []
    rw [backslash_unicode _ _ _ _ _ _ ha hb hc hd hs, lit_run rest _ ht]; simp


/-- three quotes always start a block string: whatever comes out begins with them -/
theorem advance_block_prefix (r : Str) : ∃ tail', (advance ('"' :: '"' :: '"' :: r)).1.data = q3 ++ tail' := by
  have := runD_block r .blockStringLiteral .stringValue false [] rfl
  simpa [advance, runD, step, punctuationKind, isNameStart, isAsciiDigit, q3] using this

/-! ### comments, whitespace, spread, unexpected characters -/

theorem takeWhile_all (p : Char → Bool) (l : Str) : ∀ c ∈ l.takeWhile p, p c = true := by
  induction l with
  | nil => simp
  | cons a l ih =>
    intro c hc
    by_cases ha : p a = true
    · simp only [List.takeWhile_cons, ha, if_true, List.mem_cons] at hc
      rcases hc with rfl | hc
      · exact ha
      · exact ih c hc
    · simp [List.takeWhile_cons, ha] at hc

theorem dropWhile_head (p : Char → Bool) (l : Str) : ∀ c r, l.dropWhile p = c :: r → p c = false := by
  induction l with
  | nil => simp
  | cons a l ih =>
    intro c r h
    by_cases ha : p a = true
    · simp only [List.dropWhile_cons, ha, if_true] at h; exact ih c r h
    · simp only [List.dropWhile_cons, ha, Bool.false_eq_true, if_false, List.cons.injEq] at h
      rw [← h.1]; simpa using ha

/-- Comment: `#` up to (not including) the next line terminator or the end of input -/
theorem lex_comment (rest : Str) :
    advance ('#' :: rest) = (.tok .comment ('#' :: rest.takeWhile (fun c => !isLineTerminator c)),
      rest.dropWhile (fun c => !isLineTerminator c)) := by
  have hp : punctuationKind '#' = none := by decide
  have h0 : step .start .eof false [] '#' = .goto .comment .comment false := by
    simp [step, punctuationKind, isNameStart, isAsciiDigit]
  unfold advance runD
  rw [h0]
  simp only [List.nil_append]
  rw [runD_loop .comment (fun c => !isLineTerminator c) .comment
    (by intro acc c; cases h : isLineTerminator c <;> simp [step, done, h]) (by intro acc; rfl)]
  simp

/-- whitespace-assimilated characters (TAB, LF, CR, SPACE, BOM) are merged into one maximal run -/
theorem lex_whitespace (c : Char) (rest : Str) (h : isWhitespaceAssimilated c = true) :
    advance (c :: rest) = (.tok .whitespace (c :: rest.takeWhile isWhitespaceAssimilated),
      rest.dropWhile isWhitespaceAssimilated) := by
  have hw : c.toNat = 9 ∨ c.toNat = 32 ∨ c.toNat = 10 ∨ c.toNat = 13 ∨ c.toNat = 65279 := by
    simpa [isWhitespaceAssimilated, or_assoc] using h
  have hp : punctuationKind c = none := punct_none_of c (by omega)
  have h0 : step .start .eof false [] c = .goto .whitespace .whitespace false := by
    simp only [step, hp, isNameStart, isAsciiDigit, char_beq, Char.reduceToNat, bne, h,
      beq_iff_eq, Bool.or_eq_true, Bool.and_eq_true, decide_eq_true_eq, Bool.not_eq_true', if_true]
    repeat' split
    all_goals first | rfl | omega | (simp at *; omega)
  unfold advance runD
  rw [h0]
  simp only [List.nil_append]
  rw [runD_loop .whitespace isWhitespaceAssimilated .whitespace
    (by intro acc c; simp [step, done]) (by intro acc; rfl)]
  simp

/-- `...` is the only token that starts with a dot; `.x`, `..x`, `.`, `..` are errors -/
theorem lex_spread (rest : Str) : advance ('.' :: '.' :: '.' :: rest) = (.tok .spread ['.', '.', '.'], rest) := by
  simp [advance, runD, step, punctuationKind, isNameStart, isAsciiDigit, Out.mk]

theorem lex_dot_error (rest : Str) (h : rest.take 2 ≠ ['.', '.']) : (advance ('.' :: rest)).1.isErr = true := by
  have h0 : step .start .eof false [] '.' = .goto .spread1 .spread false := by
    simp [step, punctuationKind, isNameStart, isAsciiDigit]
  unfold advance runD
  rw [h0]
  match rest, h with
  | [], _ => rfl
  | [c], _ =>
    by_cases hc : c = '.'
    · subst hc; rfl
    · simp [runD, step, hc, Out.mk, Item.isErr]
  | c :: d :: r, h =>
    by_cases hc : c = '.'
    · subst hc
      by_cases hd : d = '.'
      · subst hd; simp at h
      · simp [runD, step, hd, Out.mk, Item.isErr]
    · simp [runD, step, hc, Out.mk, Item.isErr]

end Apollo.Lex
