import ApolloModel.Proofs.ParserRecursion33
/-
C04 growth (both limits), part 34: a two-run (relational) pass — a token limit that the source does not exceed does
not change the run.  `s.unl` is the state `s` without its token limit; `Sim cx m`: from a state whose lexer sits in the
unlimited item stream `cx.Ls` (`LI`), `cx.Ls.length ≤ cx.n`, a completed run of `m` is, state by state, the run of `m`
from `s.unl`.  This file: the lexer (main lexer and the cloned look-ahead lexer of `peek_n`), the leaves, the
combinators.
-/
set_option linter.unusedSimpArgs false
set_option linter.unusedVariables false
namespace Apollo.Parse
open Apollo.Rowan hiding Str
open Apollo.Lex hiding Str

/-- the lexer state without its limit -/
def LexSt.unl (l : LexSt) : LexSt := { l with limit := none }
/-- the parser state without the token limit -/
def PState.unl (s : PState) : PState := { s with lx := s.lx.unl }

/-- a token limit and an item stream that does not exceed it -/
structure LimCtx where
  n : Nat
  Ls : List Item
  le : Ls.length ≤ n

/-- `m`, run from a state within the unlimited stream, is the run without token limit -/
structure Sim (cx : LimCtx) {α : Type} (m : PI α) : Prop where
  k : ∀ s a s', LI cx.n cx.Ls s.lx → m.run s = .ok a s' → LI cx.n cx.Ls s'.lx ∧ m.run s.unl = .ok a s'.unl

variable {cx : LimCtx}

/-! ### the lexer -/

theorem li_room {l : LexSt} (h : LI cx.n cx.Ls l) (hf : l.finished = false) : l.cur + 1 ≤ cx.n := by
  obtain ⟨_, _, hd⟩ := h.run hf
  have hne : cx.Ls.drop l.cur ≠ [] := by rw [← hd]; exact lex_none_ne_nil _
  have := lt_length_of_drop_ne_nil _ _ hne
  have := cx.le
  omega

theorem lexNext_unl {l : LexSt} (h : LI cx.n cx.Ls l) :
    lexNext l.unl = ((lexNext l).1, (lexNext l).2.unl) ∧ LI cx.n cx.Ls (lexNext l).2 ∧ ¬ IsLimitOut (lexNext l).1 := by
  refine ⟨?_, (li_lexNext h).1, ?_⟩
  · unfold lexNext
    by_cases hf : l.finished = true
    · simp [hf, LexSt.unl]
    · have hf' : l.finished = false := by simpa using hf
      have hb := li_room h hf'
      have hnr : ¬ (l.cur + 1 > cx.n) := by omega
      simp only [LexSt.unl, hf', Bool.false_eq_true, if_false, lexCheck, h.lim, hnr, decide_false]
      cases hs : l.src with
      | nil => simp
      | cons ch rest =>
        simp only []
        cases hr : (advance (ch :: rest)).1 <;> simp [hr]
  · unfold lexNext
    by_cases hf : l.finished = true
    · simp [hf, IsLimitOut]
    · have hf' : l.finished = false := by simpa using hf
      have hb := li_room h hf'
      have hnr : ¬ (l.cur + 1 > cx.n) := by omega
      simp only [hf', Bool.false_eq_true, if_false, lexCheck, h.lim, hnr, decide_false]
      cases hs : l.src with
      | nil => simp [IsLimitOut]
      | cons ch rest =>
        simp only []
        cases hr : (advance (ch :: rest)).1 <;> simp [hr, IsLimitOut]

/-- the state after a lexer error item -/
def errStep (s : PState) (l' : LexSt) (d : Str) (i : Nat) : PState :=
  { s with lx := l', pending := (if d.isEmpty then s.pending else s.pending ++ [.error d]),
           errors := s.errors ++ [(⟨i, utf8Len d, .lexer⟩ : PErr)] }

theorem nextTokenRaw_unl : ∀ (fuel : Nat) (s : PState), LI cx.n cx.Ls s.lx →
    nextTokenRaw fuel s.unl = ((nextTokenRaw fuel s).1, (nextTokenRaw fuel s).2.unl) ∧ LI cx.n cx.Ls (nextTokenRaw fuel s).2.lx
  | 0, s, h => ⟨rfl, h⟩
  | fuel + 1, s, h => by
    obtain ⟨e1, l1, nl⟩ := lexNext_unl h
    unfold nextTokenRaw
    have e1' : lexNext s.unl.lx = ((lexNext s.lx).1, (lexNext s.lx).2.unl) := e1
    rw [e1']
    cases hl : lexNext s.lx with
    | mk o l' =>
      rw [hl] at l1 nl
      simp only [] at l1 nl ⊢
      cases o with
      | none => exact ⟨rfl, l1⟩
      | some out =>
        cases out with
        | tok t => exact ⟨rfl, l1⟩
        | err d i =>
          simp only []
          exact nextTokenRaw_unl fuel (errStep s l' d i) l1
        | limit i => exact absurd trivial nl

theorem aheadLoop_unl : ∀ (fuel : Nat) (l : LexSt) (k : Nat), LI cx.n cx.Ls l → aheadLoop fuel l.unl k = aheadLoop fuel l k
  | 0, _, _, _ => rfl
  | fuel + 1, l, k, h => by
    obtain ⟨e1, l1, nl⟩ := lexNext_unl h
    unfold aheadLoop
    rw [e1]
    cases hl : lexNext l with
    | mk o l' =>
      rw [hl] at l1
      simp only [] at l1 ⊢
      cases o with
      | none => rfl
      | some out =>
        cases out with
        | tok t =>
          simp only []
          split
          · exact aheadLoop_unl fuel l' k l1
          · split
            · rfl
            · exact aheadLoop_unl fuel l' (k - 1) l1
        | err d i => exact aheadLoop_unl fuel l' k l1
        | limit i => exact aheadLoop_unl fuel l' k l1

/-! ### combinators -/

theorem sm_pure {α : Type} (a : α) : Sim cx (pure a : PI α) := by
  constructor
  intro s a' s' hl h
  rw [run_pure] at h ⊢
  injection h with h1 h2
  subst h1 h2
  exact ⟨hl, rfl⟩

theorem sm_bind {α β : Type} (m : PI α) (f : α → PI β) (hm : Sim cx m) (hf : ∀ a, Sim cx (f a)) : Sim cx (m >>= f) := by
  constructor
  intro s b s'' hl h
  obtain ⟨a, s', h1, h2⟩ := bind_dec m f s s'' b h
  obtain ⟨l1, r1⟩ := hm.k s a s' hl h1
  obtain ⟨l2, r2⟩ := (hf a).k s' b s'' l1 h2
  refine ⟨l2, ?_⟩
  rw [run_bind, r1]
  exact r2

theorem sm_ite {α : Type} (cnd : Bool) (a b : PI α) (ha : Sim cx a) (hb : Sim cx b) : Sim cx (if cnd then a else b) := by
  cases cnd <;> simp [ha, hb]

/-- a leaf that does not touch the lexer: it commutes with dropping the limit -/
theorem sm_of_comm {α : Type} {m : PI α} (hlx : ∀ s a s', m.run s = .ok a s' → s'.lx = s.lx)
    (hc : ∀ s a s', m.run s = .ok a s' → m.run s.unl = .ok a s'.unl) : Sim cx m :=
  ⟨fun s a s' hl h => ⟨by rw [hlx s a s' h]; exact hl, hc s a s' h⟩⟩

theorem sm_outOfFuel {α : Type} : Sim cx (PI.outOfFuel : PI α) := ⟨fun s a s' _ h => by simp [PI.outOfFuel] at h⟩
theorem sm_stuck {α : Type} : Sim cx (PI.stuck : PI α) := ⟨fun s a s' _ h => by simp [PI.stuck] at h⟩

theorem sm_peekToken : Sim cx peekToken := by
  constructor
  intro s o s' hl h
  unfold peekToken at h ⊢
  simp only [] at h ⊢
  have hcur : s.unl.current = s.current := rfl
  rw [hcur]
  cases hc : s.current with
  | some t =>
    simp only [hc, Res.ok.injEq] at h ⊢
    obtain ⟨rfl, rfl⟩ := h
    exact ⟨hl, rfl, rfl⟩
  | none =>
    simp only [hc, Res.ok.injEq] at h ⊢
    obtain ⟨rfl, rfl⟩ := h
    obtain ⟨e1, l1⟩ := nextTokenRaw_unl (cx := cx) (s.lx.src.length + 3) s hl
    have e2 : nextToken s.unl = ((nextToken s).1, (nextToken s).2.unl) := e1
    rw [e2]
    exact ⟨l1, rfl, rfl⟩

theorem sm_peekTokenN (k : Nat) : Sim cx (peekTokenN k) := by
  constructor
  intro s o s' hl h
  unfold peekTokenN at h ⊢
  simp only [Res.ok.injEq] at h ⊢
  obtain ⟨rfl, rfl⟩ := h
  refine ⟨hl, ?_, rfl⟩
  unfold lookahead
  have hcur : s.unl.current = s.current := rfl
  have hlen : s.unl.lx.src.length = s.lx.src.length := rfl
  have hlx : s.unl.lx = s.lx.unl := rfl
  rw [hcur, hlen, hlx]
  cases s.current with
  | none => exact aheadLoop_unl _ _ _ hl
  | some t =>
    simp only []
    split
    · exact aheadLoop_unl _ _ _ hl
    · split
      · rfl
      · exact aheadLoop_unl _ _ _ hl

theorem sm_moveCurToPending : Sim cx moveCurToPending := by
  refine sm_of_comm ?_ ?_
  · intro s b s' h
    unfold moveCurToPending at h
    simp only [] at h
    cases hc : s.current with
    | none => simp only [hc] at h; injection h with _ h; subst h; rfl
    | some t => simp only [hc] at h; split at h <;> (injection h with _ h; subst h; rfl)
  · intro s b s' h
    unfold moveCurToPending at h ⊢
    simp only [] at h ⊢
    have hcur : s.unl.current = s.current := rfl
    rw [hcur]
    cases hc : s.current with
    | none => simp only [hc] at h ⊢; injection h with h1 h2; subst h1 h2; rfl
    | some t =>
      simp only [hc] at h ⊢
      split at h <;> rename_i hk <;> simp only [hk] <;> (injection h with h1 h2; subst h1 h2; rfl)

theorem sm_srcLen : Sim cx srcLen :=
  sm_of_comm (fun s a s' h => by unfold srcLen at h; simp only [] at h; injection h with _ h; subst h; rfl)
    (fun s a s' h => by unfold srcLen at h ⊢; simp only [] at h ⊢; injection h with h1 h2; subst h1 h2; rfl)

theorem sm_getCurrent : Sim cx getCurrent :=
  sm_of_comm (fun s a s' h => by unfold getCurrent at h; simp only [] at h; injection h with _ h; subst h; rfl)
    (fun s a s' h => by unfold getCurrent at h ⊢; simp only [] at h ⊢; injection h with h1 h2; subst h1 h2; rfl)

theorem sm_pushIgnored : Sim cx pushIgnored :=
  sm_of_comm (fun s a s' h => by unfold pushIgnored at h; simp only [] at h; injection h with _ h; subst h; rfl)
    (fun s a s' h => by unfold pushIgnored at h ⊢; simp only [] at h ⊢; injection h with h1 h2; subst h1 h2; rfl)

theorem sm_assertRecZero : Sim cx assertRecZero :=
  sm_of_comm (fun s a s' h => by unfold assertRecZero at h; simp only [] at h; injection h with _ h; subst h; rfl)
    (fun s a s' h => by unfold assertRecZero at h ⊢; simp only [] at h ⊢; injection h with h1 h2; subst h1 h2; rfl)

theorem sm_moveCurToTree (kind : SK) : Sim cx (moveCurToTree kind) := by
  refine sm_of_comm ?_ ?_
  · intro s b s' h
    unfold moveCurToTree at h
    simp only [] at h
    cases hc : s.current with
    | none => simp only [hc] at h; injection h with _ h; subst h; rfl
    | some t => simp only [hc] at h; injection h with _ h; subst h; rfl
  · intro s b s' h
    unfold moveCurToTree at h ⊢
    simp only [] at h ⊢
    have hcur : s.unl.current = s.current := rfl
    rw [hcur]
    cases hc : s.current with
    | none => simp only [hc] at h ⊢; injection h with h1 h2; subst h1 h2; rfl
    | some t => simp only [hc] at h ⊢; injection h with h1 h2; subst h1 h2; rfl

theorem sm_popDrop : Sim cx (popDrop) := by
  refine sm_of_comm ?_ ?_
  · intro s b s' h
    unfold popDrop at h
    simp only [] at h
    cases hc : s.current with
    | none => simp only [hc] at h; injection h with _ h; subst h; rfl
    | some t => simp only [hc] at h; injection h with _ h; subst h; rfl
  · intro s b s' h
    unfold popDrop at h ⊢
    simp only [] at h ⊢
    have hcur : s.unl.current = s.current := rfl
    rw [hcur]
    cases hc : s.current with
    | none => simp only [hc] at h ⊢; injection h with h1 h2; subst h1 h2; rfl
    | some t => simp only [hc] at h ⊢; injection h with h1 h2; subst h1 h2; rfl

theorem sm_pushErr (e : PErr) : Sim cx (pushErr e) :=
  sm_of_comm (fun s a s' h => by unfold pushErr errUpdate at h; simp only [] at h; injection h with _ h; subst h; rfl)
    (fun s a s' h => by unfold pushErr errUpdate at h ⊢; simp only [] at h ⊢; injection h with h1 h2; subst h1 h2; rfl)

theorem sm_limitErr : Sim cx limitErr := by
  unfold limitErr
  refine sm_bind _ _ sm_peekToken (fun o => ?_)
  cases o with
  | none => exact sm_pure _
  | some t =>
    exact sm_of_comm (fun s a s' h => by unfold errUpdate at h; simp only [] at h; injection h with _ h; subst h; rfl)
      (fun s a s' h => by unfold errUpdate at h ⊢; simp only [] at h ⊢; injection h with h1 h2; subst h1 h2; rfl)

/-! ### nodes and the recursion guard -/

theorem sm_withNode {α : Type} (kind : SK) (body : PI α) (hs : Sim cx skipIgnored) (hb : Sim cx body) :
    Sim cx (withNode kind body) := by
  have hin := sm_bind (cx := cx) skipIgnored (fun _ => body) hs (fun _ => hb)
  constructor
  intro s a s' hl h
  unfold withNode at h ⊢
  simp only [] at h ⊢
  have e1 : ∀ s : PState, pushIgnored.run s = .ok () { s with builder := { s.builder with children := s.builder.children ++ s.pending.map pendingElem }, pending := [] } := fun _ => rfl
  rw [e1] at h ⊢
  simp only [] at h ⊢
  cases hr : (skipIgnored >>= fun _ => body).run (rawStartNode kind { s with builder := { s.builder with children := s.builder.children ++ s.pending.map pendingElem }, pending := [] }) with
  | abort w => rw [hr] at h; cases h
  | panic m => rw [hr] at h; cases h
  | ok a2 s2 =>
    rw [hr] at h
    simp only [] at h
    have key := fun (st : PState) h2 h1 => hin.k st a2 s2 h1 h2
    obtain ⟨l2, r2⟩ := key _ hr hl
    have r2' : (skipIgnored >>= fun _ => body).run (rawStartNode kind { s.unl with builder := { s.unl.builder with children := s.unl.builder.children ++ s.unl.pending.map pendingElem }, pending := [] }) = .ok a2 s2.unl := r2
    rw [r2']
    simp only []
    have hb2 : s2.unl.builder = s2.builder := rfl
    rw [hb2]
    cases hf : s2.builder.finishNode with
    | none => rw [hf] at h; cases h
    | some b =>
      rw [hf] at h
      simp only [] at h ⊢
      injection h with h1 h2
      subst h1 h2
      exact ⟨l2, rfl⟩

theorem sm_withRec {α : Type} (onLimit body : PI α) (hl : Sim cx onLimit) (hb : Sim cx body) : Sim cx (withRec onLimit body) := by
  constructor
  intro s a s' hli h
  unfold withRec at h ⊢
  simp only [] at h ⊢
  have e1 : s.unl.recCur = s.recCur := rfl
  have e2 : s.unl.recHigh = s.recHigh := rfl
  have e3 : s.unl.recLimit = s.recLimit := rfl
  rw [e1, e2, e3]
  by_cases hover : s.recCur + 1 > s.recLimit
  · simp only [hover, if_true] at h ⊢
    have key := fun (st : PState) h2 h1 => hl.k st a s' h1 h2
    exact key _ h hli
  · simp only [hover, if_false] at h ⊢
    cases hr : body.run { s with recCur := s.recCur + 1, recHigh := if s.recCur + 1 > s.recHigh then s.recCur + 1 else s.recHigh } with
    | abort w => rw [hr] at h; cases h
    | panic m => rw [hr] at h; cases h
    | ok a2 s2 =>
      rw [hr] at h
      simp only [] at h
      have key := fun (st : PState) h2 h1 => hb.k st a2 s2 h1 h2
      obtain ⟨l2, r2⟩ := key _ hr hli
      rw [show body.run { s.unl with recCur := s.recCur + 1, recHigh := (if s.recCur + 1 > s.recHigh then s.recCur + 1 else s.recHigh), recLimit := s.recLimit } = Res.ok a2 s2.unl from r2]
      simp only []
      have e4 : s2.unl.recCur = s2.recCur := rfl
      rw [e4]
      by_cases hz : s2.recCur = 0
      · simp only [hz, if_true] at h
        cases h
      · simp only [hz, if_false] at h ⊢
        injection h with h1 h2
        subst h1 h2
        exact ⟨l2, rfl⟩

theorem sm_wrapIf {α : Type} (kind : SK) (body : PI α) (cond : α → PI Bool) (inner : PI Unit)
    (hb : Sim cx body) (hc : ∀ a, Sim cx (cond a)) (hi : Sim cx inner) : Sim cx (wrapIf kind body cond inner) := by
  have hin := sm_bind (cx := cx) body (fun a => cond a >>= fun cc => pure (a, cc)) hb
    (fun a => sm_bind _ _ (hc a) (fun cc => sm_pure _))
  constructor
  intro s a s' hl h
  unfold wrapIf at h ⊢
  simp only [] at h ⊢
  have e1 : ∀ s : PState, pushIgnored.run s = .ok () { s with builder := { s.builder with children := s.builder.children ++ s.pending.map pendingElem }, pending := [] } := fun _ => rfl
  rw [e1] at h ⊢
  simp only [] at h ⊢
  cases hr : (body >>= fun a => cond a >>= fun cx => pure (a, cx)).run { s with builder := { s.builder with children := s.builder.children ++ s.pending.map pendingElem }, pending := [] } with
  | abort w => rw [hr] at h; cases h
  | panic m => rw [hr] at h; cases h
  | ok ac s2 =>
    obtain ⟨a2, c2⟩ := ac
    rw [hr] at h
    simp only [] at h
    have key := fun (st : PState) h2 h1 => hin.k st (a2, c2) s2 h1 h2
    obtain ⟨l2, r2⟩ := key _ hr hl
    have r2' : (body >>= fun a => cond a >>= fun cx => pure (a, cx)).run { s.unl with builder := { s.unl.builder with children := s.unl.builder.children ++ s.unl.pending.map pendingElem }, pending := [] } = .ok (a2, c2) s2.unl := r2
    rw [r2']
    simp only []
    have hb2 : s2.unl.builder = s2.builder := rfl
    have hbs : s.unl.builder = s.builder := rfl
    have hps : s.unl.pending = s.pending := rfl
    rw [hb2, hbs, hps]
    cases c2 with
    | false =>
      simp only [Bool.false_eq_true, if_false] at h ⊢
      injection h with h1 h2
      subst h1 h2
      exact ⟨l2, rfl⟩
    | true =>
      simp only [if_true] at h ⊢
      cases hsn : s2.builder.startNodeAt ({ s.builder with children := s.builder.children ++ s.pending.map pendingElem } : Builder).checkpoint kind with
      | none => rw [hsn] at h; cases h
      | some b =>
        rw [hsn] at h
        simp only [] at h ⊢
        cases hr3 : inner.run { s2 with builder := b } with
        | abort w => rw [hr3] at h; cases h
        | panic m => rw [hr3] at h; cases h
        | ok u s3 =>
          rw [hr3] at h
          simp only [] at h
          have key3 := fun (st : PState) h2 h1 => hi.k st u s3 h1 h2
          obtain ⟨l3, r3⟩ := key3 _ hr3 l2
          have r3' : inner.run { s2.unl with builder := b } = .ok u s3.unl := r3
          rw [r3']
          simp only []
          have hb3 : s3.unl.builder = s3.builder := rfl
          rw [hb3]
          cases hf : s3.builder.finishNode with
          | none => rw [hf] at h; cases h
          | some b' =>
            rw [hf] at h
            simp only [] at h ⊢
            injection h with h1 h2
            subst h1 h2
            exact ⟨l3, rfl⟩

end Apollo.Parse
