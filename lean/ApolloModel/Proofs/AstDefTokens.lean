import ApolloModel.Proofs.AstSelections
/-
Token-level printers of the definition layer and their agreement with the command model.
-/
namespace Apollo.Ast

def tDescription : Option Str → List Tok
  | none => []
  | some d => [.str d]

def tDefault : Option Value → List Tok
  | none => []
  | some v => .p .eq :: tValue v

theorem toksOf_cDescription (d : Option Str) : toksOf (cDescription d) = tDescription d := by
  cases d <;> rfl

theorem toksOf_cDefault (d : Option Value) : toksOf (cDefault d) = tDefault d := by
  cases d <;> simp [cDefault, tDefault, toksOf_cValue]

def tVarDef (v : VarDef) : List Tok :=
  .p .dollar :: .name v.name :: .p .colon :: tTy v.ty ++ tDefault v.default ++ tDirectives v.dirs

def tVarDefItems : List VarDef → List Tok
  | [] => []
  | v :: r => tVarDef v ++ tVarDefItems r

def tVarDefs (vs : List VarDef) : List Tok :=
  if vs.isEmpty then [] else .p .lParen :: tVarDefItems vs ++ [.p .rParen]

theorem toksAll_cVarDef (vs : List VarDef) : toksAll (vs.map cVarDef) = tVarDefItems vs := by
  induction vs with
  | nil => rfl
  | cons v r ih => simp [cVarDef, tVarDef, tVarDefItems, toksOf_cTy, toksOf_cDefault, toksOf_cDirectives, ih]

def tIVD (v : InputValueDef) : List Tok :=
  tDescription v.desc ++ .name v.name :: .p .colon :: tTy v.ty ++ tDefault v.default ++ tDirectives v.dirs

def tIVDItems : List InputValueDef → List Tok
  | [] => []
  | v :: r => tIVD v ++ tIVDItems r

theorem toksOf_cInputValueDef (v : InputValueDef) : toksOf (cInputValueDef v) = tIVD v := by
  simp [cInputValueDef, tIVD, toksOf_cDescription, toksOf_cTy, toksOf_cDefault, toksOf_cDirectives]

theorem toksAll_cInputValueDef (vs : List InputValueDef) : toksAll (vs.map cInputValueDef) = tIVDItems vs := by
  induction vs with
  | nil => rfl
  | cons v r ih => simp [toksOf_cInputValueDef, tIVDItems, ih]

def tArgsDef (args : List InputValueDef) : List Tok :=
  if args.isEmpty then [] else .p .lParen :: tIVDItems args ++ [.p .rParen]

theorem toksOf_cArgumentsDefinition (args : List InputValueDef) : toksOf (cArgumentsDefinition args) = tArgsDef args := by
  unfold cArgumentsDefinition tArgsDef
  split
  · rfl
  · split <;> simp [toksOf_commaSeparated, toksAll_cInputValueDef]

def tFieldDef (f : FieldDef) : List Tok :=
  tDescription f.desc ++ .name f.name :: tArgsDef f.args ++ .p .colon :: tTy f.ty ++ tDirectives f.dirs

def tFieldDefItems : List FieldDef → List Tok
  | [] => []
  | v :: r => tFieldDef v ++ tFieldDefItems r

theorem toksAll_cFieldDef (vs : List FieldDef) : toksAll (vs.map cFieldDef) = tFieldDefItems vs := by
  induction vs with
  | nil => rfl
  | cons v r ih =>
    simp [cFieldDef, tFieldDef, tFieldDefItems, toksOf_cDescription, toksOf_cArgumentsDefinition, toksOf_cTy,
      toksOf_cDirectives, ih]

def tEnumValueDef (v : EnumValueDef) : List Tok := tDescription v.desc ++ .name v.value :: tDirectives v.dirs

def tEnumValueDefItems : List EnumValueDef → List Tok
  | [] => []
  | v :: r => tEnumValueDef v ++ tEnumValueDefItems r

theorem toksAll_cEnumValueDef (vs : List EnumValueDef) : toksAll (vs.map cEnumValueDef) = tEnumValueDefItems vs := by
  induction vs with
  | nil => rfl
  | cons v r ih => simp [cEnumValueDef, tEnumValueDef, tEnumValueDefItems, toksOf_cDescription, toksOf_cDirectives, ih]

/-- `(sep x)*` -/
def tSepNames (sep : P) : List Str → List Tok
  | [] => []
  | n :: r => .p sep :: .name n :: tSepNames sep r

def tSepList (intro : List Tok) (sep : P) : List Str → List Tok
  | [] => []
  | first :: rest => intro ++ .name first :: tSepNames sep rest

theorem toksOf_sepTail (sep : P) (rest : List Str) :
    toksOf ((rest.map fun n => [sp, pn sep, sp, nm n]).flatten) = tSepNames sep rest := by
  induction rest with
  | nil => rfl
  | cons n r ih => simp [tSepNames, ih]

theorem toksOf_cSepList (intro : List Cmd) (sep : P) (l : List Str) :
    toksOf (cSepList intro sep l) = tSepList (toksOf intro) sep l := by
  cases l with
  | nil => rfl
  | cons a r => simp [cSepList, tSepList, toksOf_sepTail]

def tRootOp (r : OpType × Str) : List Tok := [.name r.1.name.toList, .p .colon, .name r.2]

def tRootOpItems : List (OpType × Str) → List Tok
  | [] => []
  | v :: r => tRootOp v ++ tRootOpItems r

theorem toksAll_cRootOp (vs : List (OpType × Str)) : toksAll (vs.map cRootOp) = tRootOpItems vs := by
  induction vs with
  | nil => rfl
  | cons v r ih => simp [cRootOp, tRootOp, tRootOpItems, ih]

theorem kw_implements : kw "implements" = nm sImplements := rfl
theorem kw_repeatable : kw "repeatable" = nm sRepeatable := rfl
theorem kw_on : kw "on" = nm sOn := rfl

/-- optional `{ items }`: absent when the list is empty -/
def tBraced (items : List Tok) (isEmpty : Bool) : List Tok :=
  if isEmpty then [] else .p .lCurly :: items ++ [.p .rCurly]

def tObjectTypeLike (name : Str) (impls : List Str) (dirs : List Directive) (fields : List FieldDef) : List Tok :=
  .name name :: tSepList [.name sImplements] .amp impls ++ tDirectives dirs
    ++ tBraced (tFieldDefItems fields) fields.isEmpty

theorem toksOf_cObjectTypeLike (name : Str) (impls : List Str) (dirs : List Directive) (fields : List FieldDef) :
    toksOf (cObjectTypeLike name impls dirs fields) = tObjectTypeLike name impls dirs fields := by
  unfold cObjectTypeLike tObjectTypeLike tBraced
  rw [kw_implements]
  split <;> simp_all [toksOf_cSepList, toksOf_cDirectives, toksOf_curly, toksAll_cFieldDef]

def tUnion (name : Str) (dirs : List Directive) (members : List Str) : List Tok :=
  .name name :: tDirectives dirs ++ tSepList [.p .eq] .pipe members

theorem toksOf_cUnion (name : Str) (dirs : List Directive) (members : List Str) :
    toksOf (cUnion name dirs members) = tUnion name dirs members := by
  simp [cUnion, tUnion, toksOf_cSepList, toksOf_cDirectives]

def tEnumBody (name : Str) (dirs : List Directive) (values : List EnumValueDef) : List Tok :=
  .name name :: tDirectives dirs ++ tBraced (tEnumValueDefItems values) values.isEmpty

theorem toksOf_cEnumBody (name : Str) (dirs : List Directive) (values : List EnumValueDef) :
    toksOf (cEnumBody name dirs values) = tEnumBody name dirs values := by
  unfold cEnumBody tEnumBody tBraced
  split <;> simp_all [toksOf_cDirectives, toksOf_curly, toksAll_cEnumValueDef]

def tInputBody (name : Str) (dirs : List Directive) (fields : List InputValueDef) : List Tok :=
  .name name :: tDirectives dirs ++ tBraced (tIVDItems fields) fields.isEmpty

theorem toksOf_cInputBody (name : Str) (dirs : List Directive) (fields : List InputValueDef) :
    toksOf (cInputBody name dirs fields) = tInputBody name dirs fields := by
  unfold cInputBody tInputBody tBraced
  split <;> simp_all [toksOf_cDirectives, toksOf_curly, toksAll_cInputValueDef]

/-- `{ Selection… }` always written -/
def tSelSet (ss : Sels) : List Tok := .p .lCurly :: tSels ss ++ [.p .rCurly]

theorem toksOf_curly_cSels (ss : Sels) : toksOf (curly (cSels ss)) = tSelSet ss := by
  simp [toksOf_curly, toksAll_cSels, tSelSet]

def tDefinition (outputEmpty : Bool) : Definition → List Tok
  | .operation ty name vars dirs sels =>
    (if isShorthand outputEmpty ty name vars dirs then []
     else .name ty.name.toList :: (match name with | some n => [.name n] | none => []) ++ tVarDefs vars ++ tDirectives dirs)
      ++ tSelSet sels
  | .fragment name tc dirs sels =>
    .name "fragment".toList :: .name name :: .name sOn :: .name tc :: tDirectives dirs ++ tSelSet sels
  | .directiveDef desc name args repeatable locs =>
    tDescription desc ++ .name "directive".toList :: .p .at :: .name name :: tArgsDef args
      ++ (if repeatable then [.name sRepeatable] else []) ++ tSepList [.name sOn] .pipe locs
  | .schemaDef desc dirs roots =>
    tDescription desc ++ .name "schema".toList :: tDirectives dirs ++ .p .lCurly :: tRootOpItems roots ++ [.p .rCurly]
  | .scalarDef desc name dirs => tDescription desc ++ .name "scalar".toList :: .name name :: tDirectives dirs
  | .objectDef desc name impls dirs fields => tDescription desc ++ .name "type".toList :: tObjectTypeLike name impls dirs fields
  | .interfaceDef desc name impls dirs fields =>
    tDescription desc ++ .name "interface".toList :: tObjectTypeLike name impls dirs fields
  | .unionDef desc name dirs members => tDescription desc ++ .name "union".toList :: tUnion name dirs members
  | .enumDef desc name dirs values => tDescription desc ++ .name "enum".toList :: tEnumBody name dirs values
  | .inputDef desc name dirs fields => tDescription desc ++ .name "input".toList :: tInputBody name dirs fields
  | .schemaExt dirs roots =>
    .name "extend".toList :: .name "schema".toList :: tDirectives dirs ++ tBraced (tRootOpItems roots) roots.isEmpty
  | .scalarExt name dirs => .name "extend".toList :: .name "scalar".toList :: .name name :: tDirectives dirs
  | .objectExt name impls dirs fields => .name "extend".toList :: .name "type".toList :: tObjectTypeLike name impls dirs fields
  | .interfaceExt name impls dirs fields =>
    .name "extend".toList :: .name "interface".toList :: tObjectTypeLike name impls dirs fields
  | .unionExt name dirs members => .name "extend".toList :: .name "union".toList :: tUnion name dirs members
  | .enumExt name dirs values => .name "extend".toList :: .name "enum".toList :: tEnumBody name dirs values
  | .inputExt name dirs fields => .name "extend".toList :: .name "input".toList :: tInputBody name dirs fields

theorem toksOf_cDefinition (oe : Bool) (d : Definition) : toksOf (cDefinition oe d) = tDefinition oe d := by
  cases d with
  | operation ty name vars dirs sels =>
    simp only [cDefinition, tDefinition]
    by_cases hs : isShorthand oe ty name vars dirs = true
    · simp [hs, toksOf_curly_cSels]
    · cases name <;> by_cases hv : vars.isEmpty = true <;>
        simp [hs, hv, tVarDefs, toksOf_commaSeparated, toksAll_cVarDef, toksOf_cDirectives, toksOf_curly_cSels]
  | fragment name tc dirs sels => simp [cDefinition, tDefinition, toksOf_cDirectives, toksOf_curly_cSels, sOn]
  | directiveDef desc name args rep locs =>
    simp only [cDefinition, tDefinition, kw_repeatable, kw_on]
    cases rep <;> simp [toksOf_cDescription, toksOf_cArgumentsDefinition, toksOf_cSepList]
  | schemaDef desc dirs roots =>
    simp [cDefinition, tDefinition, toksOf_cDescription, toksOf_cDirectives, toksOf_curly, toksAll_cRootOp]
  | scalarDef desc name dirs => simp [cDefinition, tDefinition, toksOf_cDescription, toksOf_cDirectives]
  | objectDef desc name impls dirs fields => simp [cDefinition, tDefinition, toksOf_cDescription, toksOf_cObjectTypeLike]
  | interfaceDef desc name impls dirs fields => simp [cDefinition, tDefinition, toksOf_cDescription, toksOf_cObjectTypeLike]
  | unionDef desc name dirs members => simp [cDefinition, tDefinition, toksOf_cDescription, toksOf_cUnion]
  | enumDef desc name dirs values => simp [cDefinition, tDefinition, toksOf_cDescription, toksOf_cEnumBody]
  | inputDef desc name dirs fields => simp [cDefinition, tDefinition, toksOf_cDescription, toksOf_cInputBody]
  | schemaExt dirs roots =>
    simp only [cDefinition, tDefinition, tBraced]
    by_cases hr : roots.isEmpty = true <;> simp [hr, toksOf_cDirectives, toksOf_curly, toksAll_cRootOp]
  | scalarExt name dirs => simp [cDefinition, tDefinition, toksOf_cDirectives]
  | objectExt name impls dirs fields => simp [cDefinition, tDefinition, toksOf_cObjectTypeLike]
  | interfaceExt name impls dirs fields => simp [cDefinition, tDefinition, toksOf_cObjectTypeLike]
  | unionExt name dirs members => simp [cDefinition, tDefinition, toksOf_cUnion]
  | enumExt name dirs values => simp [cDefinition, tDefinition, toksOf_cEnumBody]
  | inputExt name dirs fields => simp [cDefinition, tDefinition, toksOf_cInputBody]

/-- the token stream of a whole document: the first definition may use the shorthand form -/
def tDocument (outputEmpty : Bool) : Document → List Tok
  | [] => []
  | first :: rest => tDefinition outputEmpty first ++ (rest.map (tDefinition false)).flatten

theorem toksOf_cDocument (oe : Bool) (doc : Document) : toksOf (cDocument oe doc) = tDocument oe doc := by
  cases doc with
  | nil => rfl
  | cons first rest =>
    have : ∀ l : List Definition,
        toksOf ((l.map fun d => [Cmd.rawIfNewlines ['\n'], .newLineOrSpace] ++ cDefinition false d).flatten)
          = (l.map (tDefinition false)).flatten := by
      intro l
      induction l with
      | nil => rfl
      | cons d r ih =>
        simp only [List.map_cons, List.flatten_cons, toksOf_append, toksOf_cDefinition, ih]
        rfl
    simp only [cDocument, tDocument, toksOf_append, toksOf_cDefinition, this]
    simp

end Apollo.Ast
