import ApolloModel.Model.AstParse
/-
Token-level printer (`t…` functions): the token stream of each `serialize_impl`, stated directly by
recursion on the AST, and the lemmas `toksOf (c… x) = t… x` that connect it to the command model.
-/
namespace Apollo.Ast

@[simp] theorem toksOf_nil : toksOf [] = [] := rfl

@[simp] theorem toksOf_append (a b : List Cmd) : toksOf (a ++ b) = toksOf a ++ toksOf b := by
  induction a with
  | nil => rfl
  | cons c a ih => cases c <;> simp [toksOf, ih]

@[simp] theorem toksOf_tok (t : Tok) (r : List Cmd) : toksOf (.tok t :: r) = t :: toksOf r := rfl
@[simp] theorem toksOf_str (b : Bool) (s : Str) (r : List Cmd) : toksOf (.str b s :: r) = .str s :: toksOf r := rfl
@[simp] theorem toksOf_raw (s : Str) (r : List Cmd) : toksOf (.raw s :: r) = toksOf r := rfl
@[simp] theorem toksOf_indent (r : List Cmd) : toksOf (.indent :: r) = toksOf r := rfl
@[simp] theorem toksOf_indentOrSpace (r : List Cmd) : toksOf (.indentOrSpace :: r) = toksOf r := rfl
@[simp] theorem toksOf_dedent (r : List Cmd) : toksOf (.dedent :: r) = toksOf r := rfl
@[simp] theorem toksOf_dedentOrSpace (r : List Cmd) : toksOf (.dedentOrSpace :: r) = toksOf r := rfl
@[simp] theorem toksOf_newLineOrSpace (r : List Cmd) : toksOf (.newLineOrSpace :: r) = toksOf r := rfl
@[simp] theorem toksOf_beginSingle (r : List Cmd) : toksOf (.beginSingle :: r) = toksOf r := rfl
@[simp] theorem toksOf_endSingle (r : List Cmd) : toksOf (.endSingle :: r) = toksOf r := rfl
@[simp] theorem toksOf_rawIfNewlines (s : Str) (r : List Cmd) : toksOf (.rawIfNewlines s :: r) = toksOf r := rfl
@[simp] theorem toksOf_kw (s : String) (r : List Cmd) : toksOf (kw s :: r) = .name s.toList :: toksOf r := rfl
@[simp] theorem toksOf_pn (k : P) (r : List Cmd) : toksOf (pn k :: r) = .p k :: toksOf r := rfl
@[simp] theorem toksOf_nm (s : Str) (r : List Cmd) : toksOf (nm s :: r) = .name s :: toksOf r := rfl
@[simp] theorem toksOf_sp (r : List Cmd) : toksOf (sp :: r) = toksOf r := rfl

/-- concatenated token streams of a list of items -/
def toksAll (items : List (List Cmd)) : List Tok := (items.map toksOf).flatten

@[simp] theorem toksAll_nil : toksAll [] = [] := rfl
@[simp] theorem toksAll_cons (a : List Cmd) (r : List (List Cmd)) : toksAll (a :: r) = toksOf a ++ toksAll r := by
  simp [toksAll]

theorem toksOf_flatten_sep (pre : List Cmd) (hpre : toksOf pre = []) (items : List (List Cmd)) :
    toksOf ((items.map fun v => pre ++ v).flatten) = toksAll items := by
  induction items with
  | nil => rfl
  | cons a r ih => simp [hpre, ih]

theorem toksOf_commaSeparated (o c : P) (items : List (List Cmd)) :
    toksOf (commaSeparated o c items) = .p o :: toksAll items ++ [.p c] := by
  cases items with
  | nil => rfl
  | cons a r =>
    have h := toksOf_flatten_sep [.raw [','], .newLineOrSpace] rfl r
    simp only [commaSeparated, toksOf_append, toksOf_pn, toksOf_indent, toksOf_rawIfNewlines, toksOf_dedent,
      toksOf_nil, toksAll_cons]
    simp only [List.cons_append, List.nil_append] at h ⊢
    rw [h]

theorem toksOf_curly (items : List (List Cmd)) :
    toksOf (curly items) = .p .lCurly :: toksAll items ++ [.p .rCurly] := by
  cases items with
  | nil => rfl
  | cons a r =>
    have h := toksOf_flatten_sep [.newLineOrSpace] rfl r
    simp only [curly, toksOf_append, toksOf_pn, toksOf_indentOrSpace, toksOf_dedentOrSpace, toksOf_nil, toksAll_cons]
    simp only [List.cons_append, List.nil_append] at h ⊢
    rw [h]

/-! ### values -/

mutual
def tValue : Value → List Tok
  | .null => [.name sNull]
  | .bool true => [.name sTrue]
  | .bool false => [.name sFalse]
  | .enum n => [.name n]
  | .str s => [.str s]
  | .var n => [.p .dollar, .name n]
  | .float t => [.float t]
  | .int t => [.int t]
  | .list vs => .p .lBracket :: tValues vs ++ [.p .rBracket]
  | .obj fs => .p .lCurly :: tObjFields fs ++ [.p .rCurly]
def tValues : Values → List Tok
  | .nil => []
  | .cons v tl => tValue v ++ tValues tl
def tObjFields : ObjFields → List Tok
  | .nil => []
  | .cons n v tl => .name n :: .p .colon :: tValue v ++ tObjFields tl
end

mutual
theorem toksOf_cValue : ∀ v : Value, toksOf (cValue v) = tValue v
  | .null => rfl
  | .bool true => rfl
  | .bool false => rfl
  | .enum _ => rfl
  | .str _ => rfl
  | .var _ => rfl
  | .float _ => rfl
  | .int _ => rfl
  | .list vs => by simp [cValue, tValue, toksOf_commaSeparated, toksAll_cValues vs]
  | .obj fs => by simp [cValue, tValue, toksOf_commaSeparated, toksAll_cObjFields fs]
theorem toksAll_cValues : ∀ vs : Values, toksAll (cValues vs) = tValues vs
  | .nil => rfl
  | .cons v tl => by simp [cValues, tValues, toksOf_cValue v, toksAll_cValues tl]
theorem toksAll_cObjFields : ∀ fs : ObjFields, toksAll (cObjFields fs) = tObjFields fs
  | .nil => rfl
  | .cons n v tl => by simp [cObjFields, tObjFields, toksOf_cValue v, toksAll_cObjFields tl]
end

end Apollo.Ast
