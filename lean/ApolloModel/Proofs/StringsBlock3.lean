import ApolloModel.Proofs.StringsBlock2
/-
C09, block form: `decodeStringToken (blockForm pre level s) = some s` for every white-space prefix,
every level and every string accepted by `can_be_block_string`.
-/
namespace Apollo.Strs

theorem indentStr_ws (pre : Str) (hpre : pre.all isWs = true) : ∀ level : Nat, (indentStr pre level).all isWs = true := by
  intro level
  unfold indentStr
  induction level with
  | zero => rfl
  | succ n ih => simp [List.replicate_succ, List.all_append, hpre, ih]

/-- the token `"""raw"""` decodes to BlockStringValue(raw) -/
theorem decode_block_token (raw : Str) :
    decodeStringToken ('"' :: '"' :: '"' :: (raw ++ ['"', '"', '"'])) = some (unescapeBlockString raw) := by
  simp only [decodeStringToken]
  have hlen : ('"' :: '"' :: '"' :: (raw ++ ['"', '"', '"'])).length = raw.length + 6 := by simp
  rw [hlen, if_neg (by omega)]
  congr 2
  simp only [List.drop_succ_cons, List.drop_zero]
  have : raw.length + 6 - 6 = raw.length := by omega
  rw [this, List.take_left]

theorem go_noNl : ∀ (s cur : Str), (∀ c ∈ s, c ≠ '\n') → splitNl.go cur s = [cur ++ s] := by
  intro s
  induction s with
  | nil => intro cur _; rw [go_nil]; simp
  | cons c s ih =>
    intro cur h
    rw [go_plain cur c s (h c (by simp)), ih _ (fun d hd => h d (by simp [hd]))]
    simp

/-- single-line form: BlockStringValue of the escaped line is the line -/
theorem unescapeBlock_single (s : Str) (ok : BlockOk s) (hnl : s.contains '\n' = false) :
    unescapeBlockString (escapeTriple s) = s := by
  have hnl' : ∀ c ∈ s, c ≠ '\n' := by
    intro c hc e; subst e
    have : s.contains '\n' = true := by simpa using hc
    rw [hnl] at this; cases this
  have hsplit : splitNl s = [s] := by
    have := go_noNl s [] hnl'
    simpa [splitNl] using this
  obtain ⟨l1, rest, hL, hfirst⟩ := ok.first
  rw [hsplit] at hL
  simp only [List.cons.injEq] at hL
  obtain ⟨rfl, _⟩ := hL
  have hnb : NoBreak (escapeTriple s) := by
    intro c hc
    rcases mem_escapeTriple c s hc with h | h
    · refine ⟨hnl' c h, ?_⟩
      intro e; subst e
      have : s.contains '\r' = true := by simpa using h
      rw [ok.noCr] at this; cases this
    · subst h; constructor <;> decide
  have hlines : splitLines (escapeTriple s) = [escapeTriple s] := by
    unfold splitLines
    have := splitLinesAux_append (escapeTriple s) hnb [] []
    simp only [List.append_nil, List.nil_append] at this
    rw [this, splitLinesAux]
  have hf : isBlankLine (escapeTriple s) = false := by rw [isBlank_escapeTriple]; exact hfirst
  simp only [unescapeBlockString, hlines]
  have hc : commonIndent [escapeTriple s] = 0 := by simp [commonIndent, listMin?]
  rw [hc, stripIndent_zero]
  simp only [List.dropWhile_cons, hf, Bool.false_eq_true, if_false]
  rw [formatTruncate_eq _ _ hf]
  have : dropTrailingBlank [escapeTriple s] = [escapeTriple s] := by simp [dropTrailingBlank, hf]
  rw [this]
  simp [joinNl, replace_escapeTriple]

/-- **C09, block form** — for every white-space indent prefix, every level and every string that
    `can_be_block_string` accepts, decoding what `serialize_block_string` prints gives the string back. -/
theorem block_roundtrip (pre : Str) (level : Nat) (s : Str) (hpre : pre.all isWs = true)
    (h : canBeBlockString s = true) : decodeStringToken (blockForm pre level s) = some s := by
  have ok := canBeBlock_spec s h
  have hI := indentStr_ws pre hpre level
  unfold blockForm
  simp only []
  split
  · -- single line
    rename_i hm
    have hnl : s.contains '\n' = false := by
      cases hc : s.contains '\n' with
      | false => rfl
      | true =>
        simp at hm
        have : '\n' ∈ s := by simpa using hc
        exact absurd this hm.1.1.1
    have e : (['"', '"', '"'] ++ escapeTriple s ++ ['"', '"', '"'] : Str) =
        '"' :: '"' :: '"' :: (escapeTriple s ++ ['"', '"', '"']) := by simp
    rw [e, decode_block_token, unescapeBlock_single s ok hnl]
  · -- multi line
    have hbody : ((splitNl s).flatMap fun l =>
          if l.isEmpty then ['\n'] else '\n' :: indentStr pre level ++ escapeTriple l) ++ '\n' :: indentStr pre level =
        (((splitNl s).map (printedLine (indentStr pre level))) ++ [indentStr pre level]).flatMap fun y => '\n' :: y := by
      rw [List.flatMap_append, List.flatMap_map]
      simp only [List.flatMap_cons, List.flatMap_nil, List.append_nil]
      congr 2
      funext l
      unfold printedLine
      split <;> simp
    have e : (['"', '"', '"'] ++ ((splitNl s).flatMap fun l =>
          if l.isEmpty then ['\n'] else '\n' :: indentStr pre level ++ escapeTriple l) ++
          '\n' :: indentStr pre level ++ ['"', '"', '"'] : Str) =
        '"' :: '"' :: '"' :: ((((splitNl s).flatMap fun l =>
          if l.isEmpty then ['\n'] else '\n' :: indentStr pre level ++ escapeTriple l) ++ '\n' :: indentStr pre level) ++
          ['"', '"', '"']) := by simp
    rw [e, decode_block_token, hbody, unescapeBlock_printed _ s hI ok]

end Apollo.Strs
