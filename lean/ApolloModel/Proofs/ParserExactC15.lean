import ApolloModel.Proofs.ParserExactC14
/-
EXACT-BUDGET COPY of ParserComplete15 (namespace Apollo.Parse.Exact, exact `vdepth`).
C05 / C07 growth (completeness), part 15: `document()` and the entry point `Parser::parse` on executable documents.
-/
set_option linter.unusedSimpArgs false
namespace Apollo.Parse.Exact
open Apollo.Rowan hiding Str
open Apollo.Lex hiding Str

theorem documentBody_comp (n : Nat) (items : List (List Ast.Tok)) (s s' : PState) (c : List Tok) (e : Tok) (rest : List Tok)
    (w : TW s) (hcq : CurlyQ (Toks s)) (hne : items ≠ []) (hall : ∀ i ∈ items, LExecDef (s.recLimit - s.recCur) i)
    (hs : Spells c items.flatten) (ht : Toks s = c ++ e :: rest) (he : e.kind = .eof)
    (h : (documentBody n).run s = .ok () s') : Eat s s' c ∧ Toks s' = e :: rest := by
  cases items with
  | nil => exact absurd rfl hne
  | cons item r =>
  obtain ⟨a, x', hx, hka⟩ := lexecDef_head (hall item (by simp))
  obtain ⟨t, tl1, hc, hta⟩ := spells_head (x := x' ++ r.flatten) (by rw [hx] at hs; simpa using hs)
  have hkt : t.kind = kindOfA a := kind_of_astOfV hta
  unfold documentBody at h
  obtain ⟨ko, sP, hp, h2⟩ := bind_dec peek _ s s' () h
  obtain ⟨rfl, eP, htP, _⟩ := peek_head s sP ko t (tl1 ++ e :: rest) w (by rw [ht, hc]; simp) hp
  obtain ⟨_, sE, hE, h3⟩ := bind_dec (errIfEmpty _) _ sP s' () h2
  unfold errIfEmpty at hE
  have hemp : (some t.kind == none || some t.kind == some Kind.eof) = false := by
    rw [hkt]; rcases hka with h0 | h0 <;> rw [h0] <;> rfl
  simp only [hemp, Bool.false_eq_true, if_false] at hE
  rw [run_pure] at hE
  injection hE with _ hE
  subst hE
  obtain ⟨_, sL, hL, h4⟩ := bind_dec (peekWhile (documentStep n)) _ sP s' () h3
  unfold peekWhile at hL
  obtain ⟨fuel, h5⟩ := srcLen_dec _ sP sL () hL
  have hbP : sP.recLimit - sP.recCur = s.recLimit - s.recCur := by rw [eP.recLimit, eP.recCur]
  have hTP : Toks sP = c ++ e :: rest := by rw [htP, hc]; simp
  obtain ⟨eL, tL⟩ := docLoop_comp n (item :: r) _ sP sL c e rest eP.w (by rw [hTP, ← ht]; exact hcq) h5
    (by rw [hbP]; exact hall) hs hTP he
  have o4 := pushIgnored_obs sL s' h4
  exact ⟨by simpa using (eP.trans eL).trans (Eat.ofObsEq o4 eL.w), by rw [o4.toks]; exact tL⟩

/-- `document()`: ignored tokens in front are allowed -/
theorem document_comp (n : Nat) (items : List (List Ast.Tok)) (s s' : PState) (i0 c : List Tok) (e : Tok) (rest : List Tok)
    (w : TW s) (hcq : CurlyQ (Toks s)) (hne : items ≠ []) (hall : ∀ i ∈ items, LExecDef (s.recLimit - s.recCur) i)
    (hi0 : Ign i0) (hs : Spells c items.flatten) (ht : Toks s = i0 ++ (c ++ e :: rest)) (he : e.kind = .eof)
    (h : (document n).run s = .ok () s') : Eat s s' (i0 ++ c) ∧ Toks s' = e :: rest := by
  unfold document at h
  obtain ⟨s0, s2, o0, hr0, o2⟩ := withNode_dec "DOCUMENT" (documentBody n) s s' () h
  obtain ⟨_, s1, hsk, hb⟩ := bind_dec skipIgnored _ s0 s2 () hr0
  obtain ⟨t, tl1, hc, hst⟩ : ∃ t tl1, c = t :: tl1 ∧ Sigf t := by
    cases items with
    | nil => exact absurd rfl hne
    | cons item r =>
      obtain ⟨a, x', hx, _⟩ := lexecDef_head (hall item (by simp))
      obtain ⟨t, tl1, hc, hta⟩ := spells_head (x := x' ++ r.flatten) (by rw [hx] at hs; simpa using hs)
      exact ⟨t, tl1, hc, sigf_of_astOfV hta⟩
  obtain ⟨e1, t1, _⟩ := skip_exact s0 s1 i0 t (tl1 ++ e :: rest) (o0.w w) hsk (by rw [o0.toks, ht, hc]; simp) hi0 hst
  have e01 : Eat s s1 i0 := by simpa using (Eat.ofObsEq o0 w).trans e1
  have hb1 : s1.recLimit - s1.recCur = s.recLimit - s.recCur := by rw [e01.recLimit, e01.recCur]
  have hT1 : Toks s1 = c ++ e :: rest := by rw [t1, hc]; simp
  have hcq1 : CurlyQ (Toks s1) := by
    have := e01.toks
    rw [this] at hcq
    exact hcq.suffix
  obtain ⟨eB, tB⟩ := documentBody_comp n items s1 s2 c e rest e01.w hcq1 hne (by rw [hb1]; exact hall) hs hT1 he hb
  exact ⟨by simpa using (e01.trans eB).trans (Eat.ofObsEq o2 eB.w), by rw [o2.toks]; exact tB⟩

theorem parseDocument_tree (tl : Option Nat) (rl : Nat) (src : Str) :
    ∃ root, (parse .document tl rl src).outcome = .tree root := by
  cases h : (parse .document tl rl src).outcome with
  | tree root => exact ⟨root, rfl⟩
  | panic m => exact absurd h (parse_no_panic .document tl rl src m)
  | abort w => exact absurd h (parse_document_terminates tl rl src w)

/-- an executable document within the recursion limit `rl`: one or more executable definitions -/
def IsExecDocFit (rl : Nat) (x : List Ast.Tok) : Prop :=
  ∃ items : List (List Ast.Tok), items ≠ [] ∧ x = items.flatten ∧ ∀ i ∈ items, LExecDef rl i

/-- **acceptance is complete** for `Parser::parse` on executable documents (queue form) -/
theorem parseDocument_complete (rl : Nat) (src : Str) (x : List Ast.Tok) (i0 c : List Tok) (e : Tok)
    (hclean : LexClean src) (htoks : srcToks src = i0 ++ (c ++ [e])) (hi0 : Ign i0) (hsp : Spells c x) (he : e.kind = .eof)
    (hfit : IsExecDocFit rl x) : (parse .document none rl src).errors = [] := by
  obtain ⟨items, hne, rfl, hall⟩ := hfit
  obtain ⟨root, htree⟩ := parseDocument_tree none rl src
  unfold parse runEntry at htree ⊢
  simp only [Entry.standalone, Entry.grammar] at htree ⊢
  have w0 : TW (initState src none rl) := ⟨rfl, by intro h; simp [initState] at h⟩
  have ht0 : Toks (initState src none rl) = srcToks src := rfl
  have hnd0 : ¬ Doomed (initState src none rl) := by
    rintro (h | h)
    · exact h rfl
    · unfold LexClean at hclean
      rw [show (initState src none rl).lx = (initState src none 0).lx from rfl, hclean] at h
      cases h
  have hb0 : (initState src none rl).recLimit - (initState src none rl).recCur = rl := by simp [initState]
  cases hr : (document (fuelFor src)).run (initState src none rl) with
  | abort w => simp [hr] at htree
  | panic m => simp [hr] at htree
  | ok a s =>
    simp only []
    obtain ⟨eD, _⟩ := document_comp (fuelFor src) items _ s i0 c e [] w0 (by rw [ht0]; exact curlyQ_srcToks src) hne
      (by rw [hb0]; exact hall) hi0 hsp (by rw [ht0, htoks]) he hr
    have hnd : ¬ Doomed s := fun d => hnd0 (eD.doom.mp d)
    by_cases herr : s.errors = []
    · exact herr
    · exact absurd (Or.inl herr) hnd

theorem ign_split : ∀ (l : List Tok), ∃ i l', l = i ++ l' ∧ Ign i ∧ HeadSig l'
  | [] => ⟨[], [], rfl, (by intro x hx; cases hx), (by intro hd tl h; cases h)⟩
  | a :: r => by
    by_cases ha : isIgnoredKind a.kind = true
    · obtain ⟨i, l', e, hi, hh⟩ := ign_split r
      exact ⟨a :: i, l', (by rw [e]; rfl), (by intro x hx; rcases List.mem_cons.mp hx with rfl | hx; exact ha; exact hi x hx), hh⟩
    · refine ⟨[], a :: r, rfl, (by intro x hx; cases hx), ?_⟩
      intro hd tl h
      injection h with h _
      subst h
      unfold Sigf
      simpa using ha

/-- the same in terms of the significant tokens of the source: no condition on ignored tokens at all -/
theorem parseDocument_complete_sig (rl : Nat) (src : Str) (x : List Ast.Tok) (ts : List Tok) (e : Tok)
    (hclean : LexClean src) (hsig : sig (srcToks src) = ts ++ [e]) (he : e.kind = .eof)
    (hx : TokIs ts x) (hfit : IsExecDocFit rl x) : (parse .document none rl src).errors = [] := by
  obtain ⟨i0, l', hl, hi0, hhead⟩ := ign_split (srcToks src)
  have hsig' : sig l' = ts ++ [e] := by rw [← hsig, hl, sig_ign_append _ _ hi0]
  obtain ⟨c, c2, hc, h1, h2, hh2, hh1⟩ := sig_split l' ts [e] hsig' (by simp)
  obtain ⟨i, rfl, hi⟩ := sig_single_inv c2 e hh2 h2
  have htsne : ts ≠ [] := by
    intro h0; subst h0
    obtain ⟨items, hne, rfl, hall⟩ := hfit
    cases items with
    | nil => exact hne rfl
    | cons item r =>
      obtain ⟨a, x', e', _⟩ := lexecDef_head (hall item (by simp))
      unfold TokIs at hx
      rw [e'] at hx; simp at hx
  have hnoc : NoEof c := noEof_of_tokIs c x (by rw [h1]; exact hx)
  obtain ⟨pre, e0, hp, he0, hnop⟩ := stream_eof_end src.length (initState src none 0).lx (Nat.le_refl _) rfl rfl
  have hq : srcToks src = pre ++ [e0] := hp
  rw [hl, hc] at hq
  have hq' : pre ++ [e0] = (i0 ++ c) ++ (e :: i) := by rw [← hq]; simp
  obtain ⟨pre', hr, hnop'⟩ := split_eof (i0 ++ c) pre (e :: i) e0 hq' he0 (noEof_append (noEof_ignored i0 hi0) hnoc) hnop
  have hi00 : i = [] := by
    cases pre' with
    | nil => simp at hr; exact hr.2
    | cons y pre' =>
      exfalso
      simp only [List.cons_append] at hr
      injection hr with hr1 _
      exact hnop' y (by simp) (hr1 ▸ he)
  subst hi00
  exact parseDocument_complete rl src x i0 c e hclean (by rw [hl, hc]) hi0 ⟨by rw [h1]; exact hx, hh1 htsne hhead⟩ he hfit

end Apollo.Parse.Exact
