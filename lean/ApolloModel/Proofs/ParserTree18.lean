import ApolloModel.Proofs.ParserTree17
/-
C08 growth (pipeline), part 18: selection.rs in the tree calculus — type conditions, inline fragments, fields,
selection sets, and the induction over the nesting.
-/
set_option linter.unusedSimpArgs false
set_option linter.unusedVariables false
namespace Apollo.Parse
open Apollo.Rowan hiding Str
open Apollo.Lex hiding Str
open Apollo.FromCst (OptArgs OptDirs DirsNode ArgsNode SelTree SelSetNode SelsTree OptSS AliasPre TcPre)

/-- a selection set `{ Selection+ }` as ONE node -/
def SelSetR (cs : List Tok) (e : List Elem) : Prop :=
  ∃ (sels : Ast.Sels) (es : Elem), sels ≠ .nil ∧ Ast.wfSels sels = true ∧
    TokIs cs (.p .lCurly :: Ast.tSels sels ++ [.p .rCurly]) ∧ e = [es] ∧ SelSetNode sels es

/-- `Selection+` -/
def SelsR (cs : List Tok) (e : List Elem) : Prop :=
  ∃ (sels : Ast.Sels), sels ≠ .nil ∧ Ast.wfSels sels = true ∧ TokIs cs (Ast.tSels sels) ∧ SelsTree sels e

structure SelAll (n : Nat) : Prop where
  selSet : Tr NoE (HeadK .lCurly) (selectionSet n) (fun _ => SelSetR)
  sel : Tr NoE (fun _ => True) (selection n) (fun _ => SelsR)
  field : Tr NoE (HeadK .name) (field n) (fun _ => SelR)
  inline : Tr NoE (HeadK .spread) (inlineFragment n) (fun _ => SelR)

/-! ### type condition -/

theorem tr_namedType : Tr NoE (HeadK .name) namedType
    (fun _ cs e => ∃ (t : Tok) (inner : List Elem), t.kind = .name ∧ isValidName t.data = true ∧ cs = [t] ∧
      e = [Elem.node "NAMED_TYPE" inner] ∧ sigE inner = [nameNode t.data]) := by
  unfold namedType
  apply tr_peek
  intro k
  refine tr_ite _ (fun hk => ?_) (fun hk => tr_absurd (good_pure _) ?_)
  · refine (tr_withNode (H := HeadK Kind.name) early_false "NAMED_TYPE" (hsig_headK .name rfl) (tr_name (E := NoE))).mono
      (fun _ h => h.1) ?_
    rintro _ cs e ⟨inner, rfl, t, h1, h2, h3, h4⟩
    exact ⟨t, inner, h1, h2, h3, rfl, h4⟩
  · rintro q ⟨h1, h2⟩
    unfold HeadK at h1
    rw [h1] at h2
    rw [← h2] at hk
    simp at hk

/-- `on NamedType` -/
theorem tr_typeCondition {H : List Tok → Prop} : Tr NoE H typeCondition
    (fun _ cs e => ∃ (t1 t2 : Tok) (tcs ncs : List Elem), t1.kind = .name ∧ t1.data = "on".toList ∧ t2.kind = .name ∧
      isValidName t2.data = true ∧ cs = [t1, t2] ∧ e = [Elem.node "TYPE_CONDITION" tcs] ∧
      sigE tcs = [Elem.tok "on_KW" t1.data, Elem.node "NAMED_TYPE" ncs] ∧ sigE ncs = [nameNode t2.data]) := by
  unfold typeCondition
  have hjp : Tr NoE (fun _ => True) (peek >>= fun k => if k == some Kind.name then namedType else err) _ :=
    tr_ifKind .name _ _ _ (tr_namedType.mono (fun q hq => by
      obtain ⟨t, hh, hk⟩ := hq; unfold HeadK; rw [hh]; simpa using hk) (fun _ _ _ h => h)) tr_err
  refine (tr_withNodeAny (R := fun _ cs e => ∃ (t1 t2 : Tok) (ncs : List Elem), t1.kind = .name ∧ t1.data = "on".toList ∧
      t2.kind = .name ∧ isValidName t2.data = true ∧ cs = [t1, t2] ∧
      e = [Elem.tok "on_KW" t1.data, Elem.node "NAMED_TYPE" ncs] ∧ sigE ncs = [nameNode t2.data]) early_false "TYPE_CONDITION" ?_).mono
    (fun _ _ => trivial) ?_
  · apply tr_peekToken
    intro o
    cases o with
    | none => exact tr_err
    | some t =>
      simp only []
      refine tr_ite _ (fun hon => ?_) (fun _ => tr_never (acc_err' _ hjp.1))
      have hk : t.kind = .name ∧ t.data = "on".toList := by
        simp only [Bool.and_eq_true, beq_iff_eq] at hon
        exact ⟨hon.1, kw_eq hon.2⟩
      refine (tr_bind early_false (tr_bump (E := NoE) "on_KW" (by decide) (fun t' => t' = t)
        (by rintro t' rfl; rw [hk.1]; exact ⟨rfl, by decide⟩)) (fun _ => hjp)).mono (fun q hq => ⟨t, hq.2, rfl⟩) ?_
      rintro _ cs e ⟨_, c1, c2, e1, e2, rfl, rfl, ⟨t', rfl, _, rfl, rfl⟩, t2, ncs, h1, h2, rfl, rfl, h5⟩
      exact ⟨t', t2, ncs, hk.1, hk.2, h1, h2, rfl, rfl, h5⟩
  · rintro _ cs e ⟨inner, rfl, t1, t2, ncs, h1, h2, h3, h4, h5, h6, h7⟩
    exact ⟨t1, t2, inner, ncs, h1, h2, h3, h4, h5, rfl, h6, h7⟩


/-! ### inline fragments -/

theorem inlineBody_opt (n : Nat) : inlineBody n = (bump "SPREAD" >>= fun _ => optKind .name typeCondition
    (optKind .at (directives n false) (peek >>= fun k => if k == some Kind.lCurly then selectionSet n else err))) := rfl

theorem kindP_headK {k : Kind} {q : List Tok} (hq : KindP (· == k) q) : HeadK k q := by
  obtain ⟨t, hh, hk⟩ := hq; unfold HeadK; rw [hh]; simpa using hk

theorem tr_inlineFragment (n : Nat) (ih : SelAll n) : Tr NoE (HeadK .spread) (inlineFragment (n + 1)) (fun _ => SelR) := by
  rw [inlineFragment_succ, inlineBody_opt]
  have hss : Tr NoE (fun _ => True) (peek >>= fun k => if k == some Kind.lCurly then selectionSet n else err) (fun _ => SelSetR) :=
    tr_ifKind .lCurly _ _ _ (ih.selSet.mono (fun _ h => kindP_headK h) (fun _ _ _ h => h)) tr_err
  have hd := tr_optDirectives n false _ hss (H := fun _ => True)
  have htc := tr_optKind early_false (H := fun _ => True) .name typeCondition _ _ _
    ((tr_typeCondition (H := KindP (· == Kind.name))).mono (fun _ h => h) (fun _ _ _ h => h)) hd
  have hb := tr_bind early_false (tr_bump (E := NoE) "SPREAD" (by decide) (fun t => t.kind = .spread)
    (by intro t h; rw [h]; exact ⟨rfl, by decide⟩)) (fun _ => htc)
  refine (tr_withNode early_false "INLINE_FRAGMENT" (hsig_headK .spread rfl) (hb.mono (fun _ h => headP_of_headK h) (fun _ _ _ h => h))).mono
    (fun _ h => h) ?_
  rintro _ cs e ⟨inner, rfl, _, c1, c2, e1, e2, rfl, hin, ⟨t, hk, _, rfl, rfl⟩, c3, c4, e3, e4, rfl, rfl, htcr,
    ds, c5, c6, td, e6, rfl, rfl, hd1, hd2, hd3, sels, ess, hne, hwf, hs1, rfl, hs3⟩
  have hsp : TokIs [t] [Ast.Tok.p .spread] := TokIs.single t _ (by simp [astOfV, hk])
  have hwfi : ∀ tc, Ast.wfSel (.inline tc ds sels) = true := by
    intro tc
    simp only [Ast.wfSel, Bool.and_eq_true]
    refine ⟨⟨dirsOk_wf false ds hd2, hwf⟩, ?_⟩
    cases sels with
    | nil => exact absurd rfl hne
    | cons a b => trivial
  rcases htcr with ⟨t1, t2, tcs, ncs, hk1, hd1', hk2, hv2, rfl, rfl, htcs, hncs⟩ | ⟨rfl, rfl⟩
  · refine ⟨.inline (some t2.data) ds sels, _, ?_, hwfi _, rfl,
      SelTree.inline (some t2.data) ds sels inner [Elem.node "TYPE_CONDITION" tcs] td ess t.data
        (Or.inr ⟨t2.data, tcs, ncs, t1.data, rfl, hv2, rfl, htcs, hncs⟩) hd3 hs3 (by rw [hin]; simp)⟩
    have ho : TokIs [t1, t2] [Ast.Tok.name Ast.sOn, Ast.Tok.name t2.data] :=
      TokIs.cons (by simp [astOfV, hk1, hd1', Ast.sOn]) (TokIs.single t2 _ (by simp [astOfV, hk2]))
    have := hsp.append (ho.append (hd1.append hs1))
    simpa [Ast.tSel, List.append_assoc] using this
  · refine ⟨.inline none ds sels, _, ?_, hwfi _, rfl,
      SelTree.inline none ds sels inner [] td ess t.data (Or.inl ⟨rfl, rfl⟩) hd3 hs3 (by rw [hin]; simp)⟩
    have := hsp.append (hd1.append hs1)
    simpa [Ast.tSel, List.append_assoc] using this

end Apollo.Parse
