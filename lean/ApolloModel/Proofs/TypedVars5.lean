import ApolloModel.Proofs.TypedVars4
/-
C18: the variables of the fields that `all_fields` yields (`opFieldVars`, what stream `c18.opvars` compares with the
real iterator) are variables the operation USES (`UsesSels`), so they are declared in a valid document.
-/
namespace Apollo.ExecRules
open Apollo Apollo.Spec

theorem UsesSels.mono {doc : RBuilt} {a b : RSels} {n : String} (hl : ∀ m ∈ localVars a, m ∈ localVars b)
    (hs : ∀ f ∈ allSpreads a, f ∈ allSpreads b) (h : UsesSels doc a n) : UsesSels doc b n := by
  cases h with
  | here h => exact .here (hl _ h)
  | fragDirs hf hd hn => exact .fragDirs (hs _ hf) hd hn
  | fragBody hf hd hu => exact .fragBody (hs _ hf) hd hu

def EnterSound (doc : RBuilt) (enter : String → List String → List String × List String) : Prop :=
  ∀ f seen n, n ∈ (enter f seen).1 → ∃ d, doc.findFrag f = some d ∧ UsesSels doc d.sels n

theorem fvSels_sound (doc : RBuilt) (enter : String → List String → List String × List String) (he : EnterSound doc enter) :
    ∀ (t : RSels) (seen : List String) (n : String), n ∈ (fvSels enter t seen).1 → UsesSels doc t n := by
  intro t
  induction t with
  | nil => intro seen n h; simp [fvSels] at h
  | field name dirs args sub rest ihs ihr =>
    intro seen n h
    simp only [fvSels, List.mem_append] at h
    rcases h with ((h | h) | h) | h
    · exact .here (by simp [localVars, h])
    · exact .here (by simp [localVars, h])
    · exact (ihs seen n h).mono (fun m hm => by simp [localVars, hm]) (fun f hf => by simp [allSpreads, hf])
    · exact (ihr _ n h).mono (fun m hm => by simp [localVars, hm]) (fun f hf => by simp [allSpreads, hf])
  | spread f dirs rest ihr =>
    intro seen n h
    simp only [fvSels, List.mem_append] at h
    rcases h with h | h
    · by_cases hc : f ∈ seen
      · simp [hc] at h
      · simp only [List.contains_iff_mem, hc, if_false] at h
        obtain ⟨d, hd, hu⟩ := he f (f :: seen) n h
        exact .fragBody (by simp [allSpreads]) hd hu
    · exact (ihr _ n h).mono (fun m hm => by simp [localVars, hm]) (fun g hg => by simp [allSpreads, hg])
  | inline tc dirs sub rest ihs ihr =>
    intro seen n h
    simp only [fvSels, List.mem_append] at h
    rcases h with h | h
    · exact (ihs seen n h).mono (fun m hm => by simp [localVars, hm]) (fun f hf => by simp [allSpreads, hf])
    · exact (ihr _ n h).mono (fun m hm => by simp [localVars, hm]) (fun f hf => by simp [allSpreads, hf])

theorem fvFrag_sound (doc : RBuilt) : ∀ k, EnterSound doc (fvFrag doc k) := by
  intro k
  induction k with
  | zero => intro f seen n h; simp [fvFrag] at h
  | succ k ih =>
    intro f seen n h
    simp only [fvFrag] at h
    cases hd : doc.findFrag f with
    | none => rw [hd] at h; simp at h
    | some d =>
      rw [hd] at h
      exact ⟨d, rfl, fvSels_sound doc _ ih d.sels seen n h⟩

/-- every variable in the arguments / directives of a field that `all_fields` yields is used by the operation -/
theorem opFieldVars_uses (doc : RBuilt) (o : ROp) : ∀ n ∈ opFieldVars doc o, UsesSels doc o.sels n :=
  fun n h => fvSels_sound doc _ (fvFrag_sound doc _) o.sels [] n h

end Apollo.ExecRules
