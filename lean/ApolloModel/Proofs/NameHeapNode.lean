import ApolloModel.Proofs.NameHeap
/-
The invariant of the `Node` history model (count = number of handles, freed ⇔ 0, no access to a
freed cell) and the isolation of copy-on-write mutation.
-/
namespace Apollo.Rc.Heap
variable {α : Type}

theorem write_valOf_other {h : Heap α} (f : α → α) {c c' : Nat} (e : c ≠ c') : (h.write c f).valOf c' = h.valOf c' := by
  unfold write
  cases hg : h.cells[c]? with
  | none => rfl
  | some cell =>
    simp only
    split
    · rfl
    · unfold valOf
      simp [e]

theorem touch_valOf {h : Heap α} (c c' : Nat) : (h.touch c).valOf c' = h.valOf c' := by
  unfold touch; split <;> rfl

/-- when nothing owns anything every cell is freed -/
theorem Ok.all_freed {h : Heap α} {refs : Nat → Nat} (ok : h.Ok refs) (hz : ∀ c, refs c = 0) :
    ∀ (c : Nat) (cell : Cell α), h.cells[c]? = some cell → cell.freed = true := by
  intro c cell hc
  have h1 := ok.count c
  simp [strongOf, hc, hz] at h1
  exact (ok.freed c cell hc).mpr h1

theorem Ok.liveCells_zero {h : Heap α} {refs : Nat → Nat} (ok : h.Ok refs) (hz : ∀ c, refs c = 0) : h.liveCells = 0 := by
  unfold liveCells
  rw [List.length_eq_zero_iff, List.filter_eq_nil_iff]
  intro cell hm
  obtain ⟨i, hi⟩ := List.getElem?_of_mem hm
  simp [ok.all_freed hz i cell hi]

end Apollo.Rc.Heap

namespace Apollo.NodeHeap
open Apollo.Rc Apollo.Rc.Heap

abbrev own : Option Nat → Option Nat := fun s => s

structure Inv (st : St) : Prop where
  heap : st.heap.Ok (refsOf own st.slots)

def w (s : Option Nat) (c : Nat) : Nat := if s = some c then 1 else 0

theorem refs_replace {slots : List (Option Nat)} {i : Nat} {old : Option Nat} (s : Option Nat)
    (h : slots[i]? = some old) (c : Nat) :
    refsOf own (slots.set i s) c + w old c = refsOf own slots c + w s c :=
  refsOf_set own c s slots i old h

theorem w_none (c : Nat) : w none c = 0 := rfl

theorem w_some (c c' : Nat) : w (some c) c' = if c' = c then 1 else 0 := by
  unfold w
  by_cases e : c' = c
  · subst e; simp
  · have : ¬ c = c' := fun x => e x.symm
    simp [e, this]

theorem isEmptyAt_iff {st : St} {i : Nat} : isEmptyAt st i = true ↔ st.slots[i]? = some none := by
  unfold isEmptyAt
  cases h : st.slots[i]? with
  | none => simp
  | some s => cases s <;> simp

theorem slotAt_some {st : St} {i c : Nat} (h : slotAt st i = some c) : st.slots[i]? = some (some c) := by
  unfold slotAt at h
  cases hg : st.slots[i]? with
  | none => rw [hg] at h; cases h
  | some s => rw [hg] at h; simp at h; rw [h]

theorem refs_pos {st : St} {i c : Nat} (h : st.slots[i]? = some (some c)) : 1 ≤ refsOf own st.slots c :=
  refsOf_pos_of_mem own c st.slots i (some c) h rfl

theorem inv_alloc_put {st : St} (inv : Inv st) {dst : Nat} (x : NVal) (hd : st.slots[dst]? = some none) :
    Inv (setSlot { st with heap := (st.heap.alloc x).1 } dst (some (st.heap.alloc x).2)) := by
  constructor
  apply alloc_ok x inv.heap
  intro c
  have := refs_replace (some st.heap.cells.length) hd c
  rw [w_none, w_some] at this
  simpa [setSlot, alloc_snd] using this

/-- `make_mut` on a shared node: allocate the clone, release the old handle, write the clone -/
theorem inv_cow {st : St} (inv : Inv st) {s c : Nat} (x : NVal) (f : NVal → NVal) (hs : st.slots[s]? = some (some c)) :
    Inv { heap := (((st.heap.alloc x).1.decr c).write (st.heap.alloc x).2 f),
          slots := st.slots.set s (some (st.heap.alloc x).2) } := by
  constructor
  have hpos := refs_pos hs
  have hlt : c ≠ st.heap.cells.length := by
    intro e
    have := inv.heap.fresh
    rw [← e] at this; omega
  have h1 : (st.heap.alloc x).1.Ok (fun c' => refsOf own st.slots c' + if c' = st.heap.cells.length then 1 else 0) :=
    alloc_ok x inv.heap (fun _ => rfl)
  have h2 : ((st.heap.alloc x).1.decr c).Ok (refsOf own (st.slots.set s (some st.heap.cells.length))) := by
    apply decr_ok h1
    · show 1 ≤ refsOf own st.slots c + _; omega
    · intro c'
      have := refs_replace (some st.heap.cells.length) hs c'
      rw [w_some, w_some] at this
      show _ = refsOf own st.slots c' + _
      omega
  apply write_ok f h2
  have := refs_replace (some st.heap.cells.length) hs st.heap.cells.length
  rw [w_some, w_some, if_neg (fun e => hlt (Eq.symm e)), if_pos rfl, inv.heap.fresh] at this
  simp only [alloc_snd]; omega

theorem step_inv (st : St) (op : Op) (inv : Inv st) : Inv (step st op).1 := by
  cases op with
  | new dst v loc =>
    simp only [step]
    split
    · rename_i he; exact inv_alloc_put inv _ (isEmptyAt_iff.mp he)
    · exact inv
  | clone dst src =>
    simp only [step]
    split
    · rename_i he
      split
      · rename_i c hsrc
        have hs := slotAt_some hsrc
        constructor
        apply incr_ok inv.heap (refs_pos hs)
        intro c'
        have := refs_replace (some c) (isEmptyAt_iff.mp he) c'
        rw [w_none, w_some] at this
        simpa [setSlot] using this
      · exact inv
    · exact inv
  | drop s =>
    simp only [step]
    split
    · rename_i c hsrc
      have hs := slotAt_some hsrc
      constructor
      apply decr_ok inv.heap (refs_pos hs)
      intro c'
      have := refs_replace none hs c'
      rw [w_none, w_some] at this
      simpa [setSlot] using this
    · exact inv
  | makeMut s v =>
    simp only [step]
    split
    · rename_i c hsrc
      have hs := slotAt_some hsrc
      split
      · refine ⟨?_⟩; exact write_ok (fun x => { x with val := v }) inv.heap (refs_pos hs)
      · rw [touch_of_live inv.heap (refs_pos hs)]
        exact inv_cow inv _ _ hs
    · exact inv
  | getMut s v =>
    simp only [step]
    split
    · rename_i c hsrc
      have hs := slotAt_some hsrc
      split
      · refine ⟨?_⟩; exact write_ok (fun x => { x with val := v }) inv.heap (refs_pos hs)
      · exact inv
    · exact inv
  | sameLocation dst src v =>
    simp only [step]
    split
    · rename_i he
      split
      · rename_i c hsrc
        have hs := slotAt_some hsrc
        rw [touch_of_live inv.heap (refs_pos hs)]
        exact inv_alloc_put inv _ (isEmptyAt_iff.mp he)
      · exact inv
    · exact inv

theorem init_inv (pool : Nat) : Inv (init pool) := by
  refine ⟨⟨?_, ?_, rfl, rfl⟩⟩
  · intro c
    simp [init, Heap.empty, strongOf, refsOf_replicate own none rfl]
  · intro c cell hc; simp [init, Heap.empty] at hc

theorem run_inv (ops : List Op) : ∀ (st : St), Inv st → Inv (run st ops) := by
  induction ops with
  | nil => intro st h; exact h
  | cons op rest ih => intro st h; exact ih _ (step_inv st op h)

/-! ### reads -/

/-- a live handle reads the stored value -/
theorem readSlot_eq_valOf {st : St} (inv : Inv st) {i c : Nat} (hs : st.slots[i]? = some (some c)) :
    ∃ x, readSlot st i = some x ∧ st.heap.valOf c = some x := by
  obtain ⟨x, hr, hv⟩ := read_of_live inv.heap (refs_pos hs)
  refine ⟨x, ?_, hv⟩
  simp [readSlot, slotAt, hs, hr]

theorem slotAt_of_get {st : St} {i : Nat} {s : Option Nat} (h : st.slots[i]? = some s) : slotAt st i = s := by
  simp [slotAt, h]

theorem slotAt_none_of_get_none {st : St} {i : Nat} (h : st.slots[i]? = none) : slotAt st i = none := by
  simp [slotAt, h]

/-- `make_mut` / `get_mut` on slot `s` never changes what any other slot reads -/
theorem mutate_isolated (st : St) (inv : Inv st) (s j v : Nat) (hj : j ≠ s) (op : Op)
    (hop : op = .makeMut s v ∨ op = .getMut s v) :
    readSlot (step st op).1 j = readSlot st j := by
  have inv' := step_inv st op inv
  -- what slot j holds is unchanged
  have hslots : (step st op).1.slots[j]? = st.slots[j]? := by
    rcases hop with e | e <;> subst e <;> simp only [step]
    · split
      · split
        · rfl
        · simp only; rw [List.getElem?_set, if_neg (fun e => hj (Eq.symm e))]
      · rfl
    · split
      · split <;> rfl
      · rfl
  cases hg : st.slots[j]? with
  | none =>
    have h1 : (step st op).1.slots[j]? = none := by rw [hslots, hg]
    simp [readSlot, slotAt_none_of_get_none hg, slotAt_none_of_get_none h1]
  | some sj =>
    cases sj with
    | none =>
      have h1 : (step st op).1.slots[j]? = some none := by rw [hslots, hg]
      simp [readSlot, slotAt_of_get hg, slotAt_of_get h1]
    | some cj =>
      have h1 : (step st op).1.slots[j]? = some (some cj) := by rw [hslots, hg]
      obtain ⟨x, hx, hvx⟩ := readSlot_eq_valOf inv hg
      obtain ⟨y, hy, hvy⟩ := readSlot_eq_valOf inv' h1
      rw [hx, hy]
      -- the stored value of cell cj is unchanged
      have hval : (step st op).1.heap.valOf cj = st.heap.valOf cj := by
        have hcjlt : cj ≠ st.heap.cells.length := by
          intro e
          have := inv.heap.fresh
          have := refs_pos hg
          rw [e] at this; omega
        rcases hop with e | e <;> subst e <;> simp only [step]
        · split
          · rename_i c hsrc
            have hs := slotAt_some hsrc
            split
            · rename_i hu
              have hne : c ≠ cj := by
                intro e; subst e
                have h2 := refsOf_two own c st.slots s j (some c) (some c) (fun e => hj e.symm) hs hg rfl rfl
                have := inv.heap.count c
                simp at hu; omega
              exact write_valOf_other _ hne
            · simp only
              rw [touch_of_live inv.heap (refs_pos hs)]
              rw [write_valOf_other _ (by rw [alloc_snd]; exact fun e => hcjlt e.symm), decr_valOf]
              rw [alloc_valOf_old _ _ hvx, hvx]
          · rfl
        · split
          · rename_i c hsrc
            have hs := slotAt_some hsrc
            split
            · rename_i hu
              have hne : c ≠ cj := by
                intro e; subst e
                have h2 := refsOf_two own c st.slots s j (some c) (some c) (fun e => hj e.symm) hs hg rfl rfl
                have := inv.heap.count c
                simp at hu; omega
              exact write_valOf_other _ hne
            · rfl
          · rfl
      rw [hval, hvx] at hvy
      exact hvy.symm

end Apollo.NodeHeap
