import ApolloModel.Proofs.ParserTree15
/-
C08 growth (pipeline), part 16: stage (iii), first half — arguments and directives end to end.
-/
set_option linter.unusedSimpArgs false
set_option linter.unusedVariables false
namespace Apollo.Parse
open Apollo.Rowan hiding Str
open Apollo.Lex hiding Str
open Apollo.FromCst (ConvE size ArgsNode DirsNode OptArgs OptDirs argumentsOf directivesOf argumentsOf_conv directivesOf_conv nodeP)

/-- **arguments**: an error-free run of `argument.rs::arguments` entered on `(` consumed the tokens `tArguments args`
    (`args` non-empty, values well-formed for the context) and appended one ARGUMENTS node; on any parent node whose
    only ARGUMENTS child is that node, `collect_opt(x.arguments(), …)` of from_cst.rs returns `args` -/
theorem arguments_pipeline (n : Nat) (c : Bool) (s s' : PState) (st : St s) (hq : HeadK .lParen (Toks s))
    (h : (arguments n c).run s = .ok () s') (hnd : ¬ Doomed s') :
    ∃ cs added args ea, Toks s = cs ++ Toks s' ∧ s'.builder.children = s.builder.children ++ added ∧ args ≠ [] ∧
      TokIs (sig cs) (Ast.tArguments args) ∧ argsOk c args ∧ sigE added = [ea] ∧ ArgsNode args ea ∧
      ∀ (k : SK) (pcs : List Elem) (m : Nat), (sigE pcs).find? (nodeP (· == "ARGUMENTS")) = some ea → ea ∈ sigE pcs →
        size (.node k pcs) ≤ m + 1 → ConvE (fun R => @argumentsOf R m) args (.node k pcs) := by
  obtain ⟨_, cs, added, t1, _, _, b1, r1⟩ := St.step (tr_arguments n c) st hq h hnd
  rcases r1 with ⟨args, ea, hne, h1, h2, h3, h4⟩ | f
  · refine ⟨cs, added, args, ea, t1, b1, hne, h1, h2, h3, h4, ?_⟩
    intro k pcs m hf hmem hsz
    exact argumentsOf_conv m k pcs args [ea] (Or.inr ⟨ea, rfl, h4⟩) (by simpa using hf)
      (by intro e he; simp at he; rw [he]; exact hmem) hsz
  · exact absurd f id

/-- **directives**: the same for `directive.rs::directives` entered on `@` -/
theorem directives_pipeline (n : Nat) (c : Bool) (s s' : PState) (st : St s) (hq : HeadK .at (Toks s))
    (h : (directives n c).run s = .ok () s') (hnd : ¬ Doomed s') :
    ∃ cs added ds ed, Toks s = cs ++ Toks s' ∧ s'.builder.children = s.builder.children ++ added ∧
      TokIs (sig cs) (Ast.tDirectives ds) ∧ dirsOk c ds ∧ sigE added = [ed] ∧ DirsNode ds ed ∧
      ∀ (k : SK) (pcs : List Elem) (m : Nat), (sigE pcs).find? (nodeP (· == "DIRECTIVES")) = some ed → ed ∈ sigE pcs →
        size (.node k pcs) ≤ m + 1 → ConvE (fun R => @directivesOf R m) ds (.node k pcs) := by
  obtain ⟨_, cs, added, t1, _, _, b1, r1⟩ := St.step (tr_directives n c) st hq h hnd
  rcases r1 with ⟨ds, ed, h1, h2, h3, h4⟩ | f
  · refine ⟨cs, added, ds, ed, t1, b1, h1, h2, h3, h4, ?_⟩
    intro k pcs m hf hmem hsz
    exact directivesOf_conv m k pcs ds [ed] (Or.inr ⟨ed, rfl, h4⟩) (by simpa using hf)
      (by intro e he; simp at he; rw [he]; exact hmem) hsz
  · exact absurd f id

end Apollo.Parse
