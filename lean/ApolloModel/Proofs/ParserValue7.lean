import ApolloModel.Proofs.ParserValue6
/-
C05 growth (values), part 7: `list_value`, `object_field`, `object_value`, `value` and the induction on the fuel.
-/
set_option linter.unusedSimpArgs false
namespace Apollo.Parse
open Apollo.Rowan hiding Str
open Apollo.Lex hiding Str

theorem srcLen_dec {α : Type} (f : Nat → PI α) (s s' : PState) (a : α)
    (h : (srcLen >>= f).run s = .ok a s') : ∃ n, (f n).run s = .ok a s' := by
  obtain ⟨n, s1, h1, h2⟩ := bind_dec srcLen _ s s' a h
  have e : srcLen.run s = .ok s.lx.src.length s := rfl
  rw [e] at h1
  cases h1
  exact ⟨_, h2⟩

theorem listValue_sound (n : Nat) (ih : ValSound n) : ListSound (n + 1) := by
  intro c s s' t rest w he ht hk h hnd
  have hni : isIgnoredKind t.kind = false := by rw [hk]; rfl
  have hne : t.kind ≠ .eof := by rw [hk]; decide
  rw [listValue_succ] at h
  obtain ⟨s1, s2, e1, h1, o2⟩ := withNode_peeked _ _ s s' () t rest w ht hni h
  have ht1 : Toks s1 = t :: rest := by have := e1.toks; rw [ht] at this; simpa using this.symm
  have hnd2 : ¬ Doomed s2 := fun d => hnd (o2.doomed.mpr d)
  obtain ⟨_, s3, h3, h4⟩ := bind_dec (bump "L_BRACK") _ s1 s2 () h1
  obtain ⟨ign, eb, hall, _⟩ := bump_spec "L_BRACK" s1 s3 e1.w t rest ht1 h3
  have he3 : EofEnd s3 := eofEnd_eat (eofEnd_eat he e1 (by intro x hx; cases hx)) eb (noEof_cons hne hall)
  unfold peekWhile at h4
  obtain ⟨fuel, h5⟩ := srcLen_dec _ s3 s2 () h4
  obtain ⟨cs, hcs, hno, he2, hr⟩ := listLoop_sound n c ih _ s3 s2 eb.w he3 h5 hnd2
  have e13 : Eat s s3 (t :: ign) := by simpa using e1.trans eb
  refine ⟨⟨(t :: ign) ++ cs, ?_, noEof_append (noEof_cons hne hall) hno, ?_⟩, eofEnd_same _ _ he2 o2.current o2.lx o2.errors⟩
  · rw [e13.toks, hcs, o2.toks, List.append_assoc]
  · rcases hr with ⟨vs, hvs, hvo⟩ | ⟨e, hh, hke⟩
    · refine Or.inl ⟨.list vs, ?_, by simpa [valueOk] using hvo⟩
      rw [sig_append, sig_cons_ignV t ign hni hall]
      have := (TokIs.single t (.p .lBracket) (by simp [astOfV, hk])).append hvs
      simpa [Ast.tValue] using this
    · exact Or.inr ⟨e, by rw [o2.toks]; exact hh, hke⟩

/-- one object field: `Name : Value` -/
def QField (c : Bool) (x : List Ast.Tok) : Prop :=
  ∃ nm v, x = .name nm :: .p .colon :: Ast.tValue v ∧ valueOk c v = true

def FieldSound (n : Nat) : Prop := ∀ c, ItemSpec AtEof .name (objectField n c) (QField c)

/-- `Name : <value under the recursion guard>` inside a node; shared by object fields and arguments -/
theorem namedValue_sound (K : SK) (c : Bool) (tail : Option Kind → PI Unit)
    (htail_good : ∀ k, Good (tail k))
    (htail_err : ∀ k s1 s2, k ≠ some Kind.colon → TW s1 → Toks s1 ≠ [] → (tail k).run s1 = .ok () s2 → Doomed s2)
    (inner : PI Unit)
    (htail_colon : tail (some .colon) = (bump "COLON" >>= fun _ => inner))
    (hinner_good : Good inner)
    (hinner : ∀ s1 s2, TW s1 → EofEnd s1 → Toks s1 ≠ [] → inner.run s1 = .ok () s2 → ¬ Doomed s2 → ValOk c s1 s2)
    (s s' : PState) (t : Tok) (rest : List Tok) (w : TW s) (he : EofEnd s) (ht : Toks s = t :: rest) (hk : t.kind = .name)
    (h : (withNode K (name >>= fun _ => peek >>= tail)).run s = .ok () s') (hnd : ¬ Doomed s') :
    ∃ cs, Toks s = cs ++ Toks s' ∧ NoEof cs ∧ EofEnd s' ∧ ((∃ x, TokIs (sig cs) x ∧ QField c x) ∨ AtEof s') := by
  have hni : isIgnoredKind t.kind = false := by rw [hk]; rfl
  have hne : t.kind ≠ .eof := by rw [hk]; decide
  obtain ⟨s1, s2, e1, h1, o2⟩ := withNode_peeked _ _ s s' () t rest w ht hni h
  have ht1 : Toks s1 = t :: rest := by have := e1.toks; rw [ht] at this; simpa using this.symm
  have hnd2 : ¬ Doomed s2 := fun d => hnd (o2.doomed.mpr d)
  obtain ⟨_, s3, h3, h4⟩ := bind_dec name _ s1 s2 () h1
  have a3 := good_name s1 () s3 e1.w h3
  have gtail : Good (peek >>= tail) := good_bind _ _ good_peek htail_good
  have hnd3 : ¬ Doomed s3 := fun d => hnd2 ((gtail s3 () s2 a3.w h4).doom d)
  obtain ⟨t', rest', ign1, hq, _, en, hall1⟩ := name_spec s1 s3 e1.w (by rw [ht1]; simp) h3 hnd3
  rw [ht1] at hq
  injection hq with hq _
  subst hq
  have he3 : EofEnd s3 := eofEnd_eat (eofEnd_eat he e1 (by intro x hx; cases hx)) en (noEof_cons hne hall1)
  obtain ⟨ko, sP, hp, h5⟩ := bind_dec peek _ s3 s2 () h4
  obtain ⟨o, p, hko⟩ := peek_obs s3 sP ko en.w hp
  subst hko
  have heP : EofEnd sP := eofEnd_eat he3 p.eat (by intro x hx; cases hx)
  have hneP : Toks sP ≠ [] := by rw [p.toks]; exact eofEnd_nonempty s3 he3 hnd3
  by_cases hcol : o.map (·.kind) = some Kind.colon
  · rw [hcol, htail_colon] at h5
    obtain ⟨tc, hoc, hkc⟩ : ∃ tc, o = some tc ∧ tc.kind = .colon := by
      cases o with
      | none => simp at hcol
      | some tc => exact ⟨tc, rfl, by simpa using hcol⟩
    subst hoc
    have htP : Toks sP = tc :: (Toks sP).tail := by
      have := p.head; rw [← p.toks] at this; exact toks_head_cons sP tc this.symm
    obtain ⟨_, s6, h6, h7⟩ := bind_dec (bump "COLON") _ sP s2 () h5
    obtain ⟨ign2, ec, hall2, _⟩ := bump_spec "COLON" sP s6 p.w tc _ htP h6
    have hnic : isIgnoredKind tc.kind = false := by rw [hkc]; rfl
    have hnec : tc.kind ≠ .eof := by rw [hkc]; decide
    have he6 : EofEnd s6 := eofEnd_eat heP ec (noEof_cons hnec hall2)
    have hnd6 : ¬ Doomed s6 := fun d => hnd2 ((hinner_good s6 () s2 ec.w h7).doom d)
    obtain ⟨⟨cv, hcv, hnov, hrv⟩, hev⟩ := hinner s6 s2 ec.w he6 (eofEnd_nonempty s6 he6 hnd6) h7 hnd2
    have e16 : Eat s s6 ((t :: ign1) ++ (tc :: ign2)) := by simpa using ((e1.trans en).trans p.eat).trans ec
    refine ⟨(t :: ign1) ++ (tc :: ign2) ++ cv, ?_, noEof_append (noEof_append (noEof_cons hne hall1) (noEof_cons hnec hall2)) hnov,
      eofEnd_same _ _ hev o2.current o2.lx o2.errors, ?_⟩
    · rw [e16.toks, hcv, o2.toks]; simp [List.append_assoc]
    · rcases hrv with ⟨v, hv, hvo⟩ | ⟨e, hh, hke⟩
      · refine Or.inl ⟨_, ?_, ⟨t.data, v, rfl, hvo⟩⟩
        rw [sig_append, sig_append, sig_cons_ignV t ign1 hni hall1, sig_cons_ignV tc ign2 hnic hall2]
        have := (TokIs.cons (t := t) (x := .name t.data) (by simp [astOfV, hk])
          (TokIs.single tc (.p .colon) (by simp [astOfV, hkc]))).append hv
        simpa using this
      · exact Or.inr ⟨e, by rw [o2.toks]; exact hh, hke⟩
  · exfalso
    exact hnd2 (htail_err _ sP s2 hcol p.w hneP h5)

theorem objectFieldTail_err (n : Nat) (c : Bool) (k : Option Kind) (s1 s2 : PState) (hk : k ≠ some Kind.colon) (w : TW s1)
    (hne : Toks s1 ≠ []) (h : (objectFieldTail n c k).run s1 = .ok () s2) : Doomed s2 := by
  unfold objectFieldTail at h
  have : (k == some Kind.colon) = false := by simpa using hk
  simp only [this, Bool.false_eq_true, if_false] at h
  exact (err_adv s1 s2 w h).2 hne

theorem objectField_sound (n : Nat) (ih : ValSound n) : FieldSound (n + 1) := by
  intro c s s' t rest w he ht hk h hnd
  rw [objectField_succ] at h
  refine namedValue_sound "OBJECT_FIELD" c (objectFieldTail n c) (good_objectFieldTail n c (goodAll n))
    (fun k s1 s2 hk' w1 hne1 hr => objectFieldTail_err n c k s1 s2 hk' w1 hne1 hr)
    (withRec limitErr (value n c true)) (by simp [objectFieldTail])
    (good_withRec _ _ good_limitErr (good_value n c true)) ?_ s s' t rest w he ht hk h hnd
  intro s1 s2 w1 he1 hne1 hr hnd2
  exact (withRec_value c () limitErr (value n c true)
    (fun s3 s4 a w3 hne3 hr3 => (limitErr_adv s3 s4 w3 hr3).2 hne3) (good_value n c true)
    (fun s3 s4 a w3 he3 hr3 hnd4 => ⟨rfl, ih c true s3 s4 w3 he3 hr3 hnd4⟩) s1 s2 () w1 he1 hne1 hr hnd2).2.1

theorem fields_of_items (c : Bool) : ∀ (items : List (List Ast.Tok)), (∀ x ∈ items, QField c x) →
    ∃ fs, items.flatten = Ast.tObjFields fs ∧ fieldsOk c fs = true
  | [], _ => ⟨.nil, rfl, rfl⟩
  | x :: items, h => by
    obtain ⟨nm, v, hx, hv⟩ := h x (by simp)
    obtain ⟨fs, hfs, hfo⟩ := fields_of_items c items (fun y hy => h y (by simp [hy]))
    refine ⟨.cons nm v fs, ?_, by simp [fieldsOk, hv, hfo]⟩
    simp [List.flatten_cons, hx, hfs, Ast.tObjFields]

theorem objectValue_sound (n : Nat) (ih : FieldSound n) : ObjSound (n + 1) := by
  intro c s s' t rest w he ht hk h hnd
  have hni : isIgnoredKind t.kind = false := by rw [hk]; rfl
  have hne : t.kind ≠ .eof := by rw [hk]; decide
  rw [objectValue_succ] at h
  obtain ⟨s1, s2, e1, h1, o2⟩ := withNode_peeked _ _ s s' () t rest w ht hni h
  have ht1 : Toks s1 = t :: rest := by have := e1.toks; rw [ht] at this; simpa using this.symm
  have hnd2 : ¬ Doomed s2 := fun d => hnd (o2.doomed.mpr d)
  obtain ⟨_, s3, h3, h4⟩ := bind_dec (bump "L_CURLY") _ s1 s2 () h1
  obtain ⟨ign, eb, hall, _⟩ := bump_spec "L_CURLY" s1 s3 e1.w t rest ht1 h3
  have he3 : EofEnd s3 := eofEnd_eat (eofEnd_eat he e1 (by intro x hx; cases hx)) eb (noEof_cons hne hall)
  obtain ⟨_, sL, h5, h6⟩ := bind_dec (peekWhileKind .name (objectField n c)) _ s3 s2 () h4
  have gf : Good (objectField n c) := (goodAll n).field c
  have aL := good_peekWhileKind _ _ gf s3 () sL eb.w h5
  have hndL : ¬ Doomed sL := fun d => hnd2 ((good_expect _ _ sL () s2 aL.w h6).doom d)
  obtain ⟨cs, hcs, hno, heL, hr⟩ := peekWhileKind_sound AtEof carries_atEof .name (objectField n c) (QField c) gf (ih c) s3 sL eb.w he3 h5 hndL
  obtain ⟨_, hex⟩ := expect_spec .rCurly "R_CURLY" sL s2 aL.w h6
  rcases hex with ⟨hemp, _⟩ | hd | ⟨t2, rest2, ign2, hq, hk2, e2, hall2, _⟩
  · exact absurd hemp (eofEnd_nonempty sL heL hndL)
  · exact absurd hd hnd2
  · have hni2 : isIgnoredKind t2.kind = false := by rw [hk2]; rfl
    have hne2 : t2.kind ≠ .eof := by rw [hk2]; decide
    rcases hr with ⟨items, hi, hall3⟩ | ⟨e, hh, hke⟩
    · obtain ⟨fs, hfs, hfo⟩ := fields_of_items c items hall3
      have e13 : Eat s s3 (t :: ign) := by simpa using e1.trans eb
      refine ⟨⟨(t :: ign) ++ cs ++ (t2 :: ign2), ?_, noEof_append (noEof_append (noEof_cons hne hall) hno) (noEof_cons hne2 hall2),
        Or.inl ⟨.obj fs, ?_, by simpa [valueOk] using hfo⟩⟩,
        eofEnd_same _ _ (eofEnd_eat heL e2 (noEof_cons hne2 hall2)) o2.current o2.lx o2.errors⟩
      · rw [e13.toks, hcs, e2.toks, o2.toks]; simp [List.append_assoc]
      · rw [sig_append, sig_append, sig_cons_ignV t ign hni hall, sig_cons_ignV t2 ign2 hni2 hall2]
        rw [hfs] at hi
        have := ((TokIs.single t (.p .lCurly) (by simp [astOfV, hk])).append hi).append
          (TokIs.single t2 (.p .rCurly) (by simp [astOfV, hk2]))
        simpa [Ast.tValue] using this
    · exfalso
      rw [hq] at hh
      simp only [List.head?_cons, Option.some.injEq] at hh
      subst hh
      rw [hk2] at hke
      cases hke

end Apollo.Parse
