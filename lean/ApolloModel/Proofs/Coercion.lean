import ApolloModel.Proofs.CoercionLemmas
/- C28: the coercion model against the specification relation — soundness and refusal. -/
namespace Apollo.Coercion
open Apollo Apollo.Spec AList

/-- field names of every input object type are distinct (`IndexMap` keys) -/
def SchemaWF (s : ExecSchema) : Prop :=
  ∀ n fields, s.typeDef? n = some (.input fields) → (fieldNames fields).Nodup

/-- every input field default is already in coerced form -/
def CanonicalDefaults (R : Rules) (s : ExecSchema) : Prop :=
  ∀ n fields, s.typeDef? n = some (.input fields) → ∀ fd d, fd ∈ fields → fd.default = some d →
    Coerces R s fd.ty d.toJson d.toJson

theorem ite_ok {c : Prop} [Decidable c] {a r : Json} {e' : CoerceErr}
    (h : (if c then (Except.ok a : Res Json) else Except.error e') = Except.ok r) : c ∧ r = a := by
  split at h
  · next hc => exact ⟨hc, by cases h; rfl⟩
  · cases h

theorem ite_err {c : Prop} [Decidable c] {a : Json} {e e' : CoerceErr}
    (h : (if c then (Except.ok a : Res Json) else Except.error e') = Except.error e) : ¬ c ∧ e = e' := by
  split at h
  · cases h
  · next hc => exact ⟨hc, by cases h; rfl⟩

theorem scalar_ok (name : String) (v r : Json)
    (h : coerceScalar name v = .ok r) : r = v ∧ ScalarOk name v := by
  unfold coerceScalar at h
  unfold ScalarOk
  by_cases h1 : name = "Int"
  · subst h1
    simp only [if_true] at h ⊢
    cases v <;> try (cases h; done)
    next z =>
      obtain ⟨hc, rfl⟩ := ite_ok h
      simp [Json.isI64, Json.fitsI32] at hc
      exact ⟨rfl, z, rfl, by omega, by omega⟩
  simp only [h1, if_false] at h ⊢
  by_cases h2 : name = "Float"
  · subst h2
    simp only [if_true] at h ⊢
    cases v <;> try (cases h; done)
    next z =>
      obtain ⟨hc, rfl⟩ := ite_ok h
      simp [floatIntOk] at hc
      exact ⟨rfl, Or.inr ⟨z, rfl, by omega, by omega⟩⟩
    next t => cases h; exact ⟨rfl, Or.inl ⟨t, rfl⟩⟩
  simp only [h2, if_false] at h ⊢
  by_cases h3 : name = "String"
  · subst h3
    simp only [if_true] at h ⊢
    cases v <;> try (cases h; done)
    next x => cases h; exact ⟨rfl, x, rfl⟩
  simp only [h3, if_false] at h ⊢
  by_cases h4 : name = "Boolean"
  · subst h4
    simp only [if_true] at h ⊢
    cases v <;> try (cases h; done)
    next b => cases h; exact ⟨rfl, b, rfl⟩
  simp only [h4, if_false] at h ⊢
  by_cases h5 : name = "ID"
  · subst h5
    simp only [if_true] at h ⊢
    cases v <;> try (cases h; done)
    next z => cases h; exact ⟨rfl, Or.inr ⟨z, rfl⟩⟩
    next x => cases h; exact ⟨rfl, Or.inl ⟨x, rfl⟩⟩
  simp only [h5, if_false] at h ⊢
  cases h
  exact ⟨rfl, trivial⟩

theorem scalar_err (name : String) (v : Json) (e : CoerceErr)
    (h : coerceScalar name v = .error e) : e = .value ∧ ¬ ScalarOk name v := by
  unfold coerceScalar at h
  unfold ScalarOk
  by_cases h1 : name = "Int"
  · subst h1
    simp only [if_true] at h ⊢
    cases v <;> try (first | (simp at h; done) | (cases h; exact ⟨rfl, by simp⟩))
    next z =>
      obtain ⟨hc, rfl⟩ := ite_err h
      simp [Json.isI64, Json.fitsI32] at hc
      refine ⟨rfl, ?_⟩
      rintro ⟨z', hz', h1, h2⟩
      cases hz'
      omega
  simp only [h1, if_false] at h ⊢
  by_cases h2 : name = "Float"
  · subst h2
    simp only [if_true] at h ⊢
    cases v <;> try (first | (simp at h; done) | (cases h; exact ⟨rfl, by simp⟩))
    next z =>
      obtain ⟨hc, rfl⟩ := ite_err h
      simp [floatIntOk] at hc
      refine ⟨rfl, ?_⟩
      rintro (⟨t, ht⟩ | ⟨z', hz', h1, h2⟩)
      · cases ht
      · cases hz'
        omega
  simp only [h2, if_false] at h ⊢
  by_cases h3 : name = "String"
  · subst h3
    simp only [if_true] at h ⊢
    cases v <;> try (first | (simp at h; done) | (cases h; exact ⟨rfl, by simp⟩))
  simp only [h3, if_false] at h ⊢
  by_cases h4 : name = "Boolean"
  · subst h4
    simp only [if_true] at h ⊢
    cases v <;> try (first | (simp at h; done) | (cases h; exact ⟨rfl, by simp⟩))
  simp only [h4, if_false] at h ⊢
  by_cases h5 : name = "ID"
  · subst h5
    simp only [if_true] at h ⊢
    cases v <;> try (first | (simp at h; done) | (cases h; exact ⟨rfl, by simp⟩))
  simp only [h5, if_false] at h ⊢
  cases h

theorem unknownKey_false {fields : List InputDef} {kvs : AList Json} (h : unknownKey fields kvs = false) :
    ∀ k, (get? kvs k).isSome = true → k ∈ fieldNames fields := by
  intro k hk
  rw [get?_isSome_iff] at hk
  simp only [List.mem_map] at hk
  obtain ⟨kv, hm, rfl⟩ := hk
  simp only [unknownKey, List.any_eq_false] at h
  have := h kv hm
  simp only [Bool.not_eq_true, Bool.not_eq_false', List.any_eq_true, beq_iff_eq] at this
  obtain ⟨fd, hfd, he⟩ := this
  simp only [fieldNames, List.mem_map]
  exact ⟨fd, hfd, he⟩

theorem unknownKey_true {fields : List InputDef} {kvs : AList Json} (h : unknownKey fields kvs = true) :
    ∃ k, (get? kvs k).isSome = true ∧ k ∉ fieldNames fields := by
  simp only [unknownKey, List.any_eq_true, Bool.not_eq_true', List.any_eq_false, beq_iff_eq] at h
  obtain ⟨kv, hm, hn⟩ := h
  refine ⟨kv.1, ?_, ?_⟩
  · rw [get?_isSome_iff]
    simp only [List.mem_map]
    exact ⟨kv, hm, rfl⟩
  · simp only [fieldNames, List.mem_map, not_exists, not_and]
    intro fd hfd
    simpa using hn fd hfd

section Sound
variable (R : Rules) (s : ExecSchema)
variable (hwf : SchemaWF s)
variable (hdef : R.rawDefaults = true ∨ CanonicalDefaults R s)
variable (f : Ty → Json → Res Json)
variable (ih : ∀ ty v r, f ty v = .ok r → Coerces R s ty v r)
include ih

theorem coerceList_sound (ty inner : Ty) (v r : Json) (hsh : ty.shape = .list inner)
    (hnull : v.isNull = false) (h : coerceList f inner v = .ok r) : Coerces R s ty v r := by
  have single : ∀ v : Json, v.isNull = false → (∀ xs, v ≠ .arr xs) →
      wrapArr (coerceItems (f inner) [v]) = .ok r → Coerces R s ty v r := by
    intro v hn hna h
    simp only [coerceItems] at h
    cases hv : f inner v with
    | error e => simp [hv, wrapArr] at h
    | ok y =>
      simp [hv, wrapArr] at h
      subst h
      exact Coerces.listSingle ty inner v y hsh hn hna (ih _ _ _ hv)
  cases v with
  | arr xs =>
    simp only [coerceList] at h
    cases hxs : coerceItems (f inner) xs with
    | error e => simp [hxs, wrapArr] at h
    | ok ys =>
      simp [hxs, wrapArr] at h
      subst h
      obtain ⟨hl, hp⟩ := items_ok _ _ _ hxs
      exact Coerces.listItems ty inner xs ys hsh hl (fun p hpm => ih _ _ _ (hp p hpm))
  | null => simp [Json.isNull] at hnull
  | bool b => exact single _ hnull (by intro xs; simp) h
  | int z => exact single _ hnull (by intro xs; simp) h
  | float t => exact single _ hnull (by intro xs; simp) h
  | str x => exact single _ hnull (by intro xs; simp) h
  | obj kvs => exact single _ hnull (by intro xs; simp) h

include hwf hdef in
theorem coerceNamed_sound (ty : Ty) (name : String) (v r : Json) (hsh : ty.shape = .named name)
    (hnull : v.isNull = false) (h : coerceNamed f s name v = .ok r) : Coerces R s ty v r := by
  unfold coerceNamed at h
  cases htd : s.typeDef? name with
  | none => simp [htd] at h
  | some td =>
    cases td with
    | output => simp [htd] at h
    | scalar =>
      simp only [htd] at h
      obtain ⟨rfl, hok⟩ := scalar_ok name v r h
      exact Coerces.scalar ty name r hsh htd hnull hok
    | «enum» values =>
      simp only [htd] at h
      cases v <;> try (cases h; done)
      next x =>
        obtain ⟨hx, rfl⟩ := ite_ok h
        exact Coerces.enum ty name values x hsh htd (by simpa using hx)
    | input fields =>
      simp only [htd] at h
      cases v <;> try (cases h; done)
      next kvs =>
        cases huk : unknownKey fields kvs with
        | true => simp [huk] at h
        | false =>
        simp only [huk] at h
        have h : wrapObj (coerceDefs f kvs fields kvs) = Except.ok r := by simpa using h
        cases hr : coerceDefs f kvs fields kvs with
        | error e => simp [hr, wrapObj] at h
        | ok robj =>
          simp [hr, wrapObj] at h
          subst h
          obtain ⟨c1, c2⟩ := coerceDefs_ok f kvs fields kvs robj (hwf name fields htd) hr
          have p1 := unknownKey_false huk
          refine Coerces.inputObject ty name fields kvs robj hsh htd p1 ?_ ?_ ?_ ?_ ?_ ?_ ?_
          · intro k hk
            by_cases hm : k ∈ fieldNames fields
            · exact hm
            · rw [c1 k hm] at hk
              exact p1 k hk
          · intro fd hfd hsome
            cases hg : get? kvs fd.name with
            | none => simp [hg] at hsome
            | some fv =>
              obtain ⟨rv, _, hrv⟩ := (c2 fd hfd).1 fv hg
              simp [hrv]
          · intro fd fv rv hfd hg hrv
            obtain ⟨rv', hf, hrv'⟩ := (c2 fd hfd).1 fv hg
            rw [hrv] at hrv'
            cases hrv'
            exact ih _ _ _ hf
          · intro fd d hfd hg hd
            simp [(c2 fd hfd).2.1 hg d hd]
          · intro fd d rd hfd hg hd hrd hraw
            have := (c2 fd hfd).2.1 hg d hd
            rw [hrd] at this
            cases this
            rcases hdef with hdef | hdef
            · rw [hdef] at hraw; cases hraw
            · exact hdef name fields htd fd d hfd hd
          · intro fd d rd hfd hg hd hrd _
            have := (c2 fd hfd).2.1 hg d hd
            rw [hrd] at this
            cases this
            rfl
          · intro fd hfd hg hd
            obtain ⟨hnn, hr'⟩ := (c2 fd hfd).2.2 hg hd
            exact ⟨hnn, by rw [hr', hg]⟩

end Sound

/-- soundness: what the model returns is a result the specification allows -/
theorem coerceValue_sound (R : Rules) (s : ExecSchema) (hwf : SchemaWF s)
    (hdef : R.rawDefaults = true ∨ CanonicalDefaults R s) :
    ∀ n ty v r, coerceValue n s ty v = .ok r → Coerces R s ty v r := by
  intro n
  induction n with
  | zero => intro ty v r h; simp [coerceValue] at h
  | succ n ih =>
    intro ty v r h
    simp only [coerceValue] at h
    cases hnull : v.isNull with
    | true =>
      simp only [hnull, if_true] at h
      cases v <;> simp [Json.isNull] at hnull
      cases hnn : ty.isNonNull with
      | true => simp [hnn] at h
      | false =>
        simp [hnn] at h
        subst h
        exact Coerces.null ty hnn
    | false =>
      simp only [hnull] at h
      cases hsh : ty.shape with
      | list inner =>
        simp only [hsh] at h
        exact coerceList_sound R s (coerceValue n s) ih ty inner v r hsh hnull (by simpa using h)
      | named name =>
        simp only [hsh] at h
        exact coerceNamed_sound R s hwf hdef (coerceValue n s) ih ty name v r hsh hnull (by simpa using h)

theorem inv_list {R : Rules} {s : ExecSchema} {ty inner : Ty} {v r : Json} (h : Coerces R s ty v r)
    (hsh : ty.shape = .list inner) (hn : v.isNull = false) :
    (∃ xs ys, v = .arr xs ∧ xs.length = ys.length ∧ ∀ p, p ∈ xs.zip ys → Coerces R s inner p.1 p.2) ∨
    ((∀ xs, v ≠ .arr xs) ∧ ∃ r', Coerces R s inner v r') := by
  cases h
  case null a => simp [Json.isNull] at hn
  case listItems inner' xs ys hl hp hsh' =>
    rw [hsh] at hsh'; cases hsh'
    exact Or.inl ⟨xs, ys, rfl, hl, hp⟩
  case listSingle inner' r' hsh' hn' hna hc =>
    rw [hsh] at hsh'; cases hsh'
    exact Or.inr ⟨hna, r', hc⟩
  case scalar name htd hsh' hn' hok => rw [hsh] at hsh'; cases hsh'
  case «enum» name values x htd hx hsh' => rw [hsh] at hsh'; cases hsh'
  case inputObject name fields kvs r htd p1 p2 p3 p4 p5 p6 p7 p8 hsh' => rw [hsh] at hsh'; cases hsh'

theorem inv_named {R : Rules} {s : ExecSchema} {ty : Ty} {name : String} {v r : Json} (h : Coerces R s ty v r)
    (hsh : ty.shape = .named name) (hn : v.isNull = false) :
    (s.typeDef? name = some .scalar ∧ ScalarOk name v) ∨
    (∃ values x, s.typeDef? name = some (.enum values) ∧ v = .str x ∧ x ∈ values) ∨
    (∃ fields kvs, s.typeDef? name = some (.input fields) ∧ v = .obj kvs ∧
      (∀ k, (get? kvs k).isSome = true → k ∈ fieldNames fields) ∧
      (∀ fd fv, fd ∈ fields → get? kvs fd.name = some fv → ∃ rv, Coerces R s fd.ty fv rv) ∧
      (∀ fd, fd ∈ fields → get? kvs fd.name = none → fd.default = none → fd.ty.isNonNull = false)) := by
  cases h
  case null a => simp [Json.isNull] at hn
  case listItems inner' xs ys hl hp hsh' => rw [hsh] at hsh'; cases hsh'
  case listSingle inner' r' hsh' hn' hna hc => rw [hsh] at hsh'; cases hsh'
  case scalar name' htd hsh' hn' hok =>
    rw [hsh] at hsh'; cases hsh'
    exact Or.inl ⟨htd, hok⟩
  case «enum» name' values x htd hx hsh' =>
    rw [hsh] at hsh'; cases hsh'
    exact Or.inr (Or.inl ⟨values, x, htd, rfl, hx⟩)
  case inputObject name' fields kvs r htd p1 p2 p3 p4 p5 p6 p7 p8 hsh' =>
    rw [hsh] at hsh'; cases hsh'
    refine Or.inr (Or.inr ⟨fields, kvs, htd, rfl, p1, ?_, ?_⟩)
    · intro fd fv hfd hg
      have := p3 fd hfd (by simp [hg])
      cases hr : get? r fd.name with
      | none => simp [hr] at this
      | some rv => exact ⟨rv, p4 fd fv rv hfd hg hr⟩
    · intro fd hfd hg hd
      exact (p8 fd hfd hg hd).1

section Refuse
variable (R : Rules) (s : ExecSchema)
variable (f : Ty → Json → Res Json)
variable (ih : ∀ ty v e, f ty v = .error e → e ≠ .outOfFuel → ¬ ∃ r, Coerces R s ty v r)
include ih

theorem coerceList_refuse (ty inner : Ty) (v : Json) (e : CoerceErr) (hsh : ty.shape = .list inner)
    (hnull : v.isNull = false) (h : coerceList f inner v = .error e) (he : e ≠ .outOfFuel) :
    ¬ ∃ r, Coerces R s ty v r := by
  have single : ∀ v : Json, v.isNull = false → (∀ xs, v ≠ .arr xs) →
      wrapArr (coerceItems (f inner) [v]) = .error e → ¬ ∃ r, Coerces R s ty v r := by
    intro v hn hna h
    simp only [coerceItems] at h
    cases hv : f inner v with
    | ok y => simp [hv, wrapArr] at h
    | error e' =>
      simp [hv, wrapArr] at h
      subst h
      rintro ⟨r, hc⟩
      rcases inv_list hc hsh hn with ⟨xs, ys, rfl, _, _⟩ | ⟨_, r', hc'⟩
      · exact hna xs rfl
      · exact ih _ _ _ hv he ⟨r', hc'⟩
  cases v with
  | arr xs =>
    simp only [coerceList] at h
    cases hxs : coerceItems (f inner) xs with
    | ok ys => simp [hxs, wrapArr] at h
    | error e' =>
      simp [hxs, wrapArr] at h
      subst h
      obtain ⟨x, hx, hfx⟩ := items_err _ _ _ hxs
      rintro ⟨r, hc⟩
      rcases inv_list hc hsh hnull with ⟨xs', ys, hxs', hl, hp⟩ | ⟨hna, _⟩
      · cases hxs'
        obtain ⟨y, hy⟩ := zip_exists xs ys x hx hl
        exact ih _ _ _ hfx he ⟨y, hp (x, y) hy⟩
      · exact hna xs rfl
  | null => simp [Json.isNull] at hnull
  | bool b => exact single _ hnull (by intro xs; simp) h
  | int z => exact single _ hnull (by intro xs; simp) h
  | float t => exact single _ hnull (by intro xs; simp) h
  | str x => exact single _ hnull (by intro xs; simp) h
  | obj kvs => exact single _ hnull (by intro xs; simp) h

theorem coerceNamed_refuse (ty : Ty) (name : String) (v : Json) (e : CoerceErr) (hsh : ty.shape = .named name)
    (hnull : v.isNull = false) (h : coerceNamed f s name v = .error e) (he : e ≠ .outOfFuel) :
    ¬ ∃ r, Coerces R s ty v r := by
  rintro ⟨r, hc⟩
  have inv := inv_named hc hsh hnull
  unfold coerceNamed at h
  cases htd : s.typeDef? name with
  | none => simp [htd] at inv
  | some td =>
    cases td with
    | output => simp [htd] at inv
    | scalar =>
      simp only [htd] at h
      obtain ⟨_, hno⟩ := scalar_err name v e h
      rcases inv with ⟨_, hok⟩ | ⟨values, x, htd', _⟩ | ⟨fields, kvs, htd', _⟩
      · exact hno hok
      · rw [htd] at htd'; cases htd'
      · rw [htd] at htd'; cases htd'
    | «enum» values =>
      simp only [htd] at h
      rcases inv with ⟨htd', _⟩ | ⟨values', x, htd', rfl, hx⟩ | ⟨fields, kvs, htd', _⟩
      · rw [htd] at htd'; cases htd'
      · rw [htd] at htd'; cases htd'
        obtain ⟨hc', _⟩ := ite_err h
        exact hc' (by simpa using hx)
      · rw [htd] at htd'; cases htd'
    | input fields =>
      simp only [htd] at h
      rcases inv with ⟨htd', _⟩ | ⟨values', x, htd', _⟩ | ⟨fields', kvs, htd', rfl, p1, p4, p8⟩
      · rw [htd] at htd'; cases htd'
      · rw [htd] at htd'; cases htd'
      · rw [htd] at htd'; cases htd'
        cases huk : unknownKey fields kvs with
        | true =>
          obtain ⟨k, hk, hnk⟩ := unknownKey_true huk
          exact hnk (p1 k hk)
        | false =>
          simp only [huk] at h
          have h : wrapObj (coerceDefs f kvs fields kvs) = Except.error e := by simpa using h
          cases hr : coerceDefs f kvs fields kvs with
          | ok robj => simp [hr, wrapObj] at h
          | error e' =>
            simp [hr, wrapObj] at h
            subst h
            obtain ⟨fd, hfd, hcase⟩ := coerceDefs_err f kvs fields kvs e' hr
            rcases hcase with ⟨fv, hg, hf⟩ | ⟨hg, hd, hnn, _⟩
            · exact ih _ _ _ hf he (p4 fd fv hfd hg)
            · have := p8 fd hfd hg hd
              rw [hnn] at this
              cases this

end Refuse

/-- refusal: when the model reports a request error, the specification has no result either -/
theorem coerceValue_refuse (R : Rules) (s : ExecSchema) :
    ∀ n ty v e, coerceValue n s ty v = .error e → e ≠ .outOfFuel → ¬ ∃ r, Coerces R s ty v r := by
  intro n
  induction n with
  | zero => intro ty v e h he; simp [coerceValue] at h; exact absurd h.symm he
  | succ n ih =>
    intro ty v e h he
    simp only [coerceValue] at h
    cases hnull : v.isNull with
    | true =>
      simp only [hnull, if_true] at h
      cases v <;> simp [Json.isNull] at hnull
      cases hnn : ty.isNonNull with
      | false => simp [hnn] at h
      | true =>
        rintro ⟨r, hc⟩
        cases hc
        case null a => rw [hnn] at a; cases a
        case listSingle inner r' hsh hn hna hc' => simp [Json.isNull] at hn
        case scalar name htd hsh hn hok => simp [Json.isNull] at hn
    | false =>
      simp only [hnull] at h
      cases hsh : ty.shape with
      | list inner =>
        simp only [hsh] at h
        exact coerceList_refuse R s (coerceValue n s) ih ty inner v e hsh hnull (by simpa using h) he
      | named name =>
        simp only [hsh] at h
        exact coerceNamed_refuse R s (coerceValue n s) ih ty name v e hsh hnull (by simpa using h) he

end Apollo.Coercion
