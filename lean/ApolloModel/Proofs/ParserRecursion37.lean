import ApolloModel.Proofs.ParserRecursion36
/-
C04 growth (both limits), part 37: a token limit that the source does not exceed does not change the parse — the
whole result (tree, errors, high-water marks, leftover), every entry point, every recursion limit.
-/
set_option linter.unusedSimpArgs false
set_option linter.unusedVariables false
namespace Apollo.Parse
open Apollo.Rowan hiding Str
open Apollo.Lex hiding Str

theorem entryStartT_unl (e : Entry) (src : Str) (n r : Nat) :
    (entryStartT e src (some n) r).unl = entryStartT e src none r := by cases e <;> rfl

/-- **a token limit that the source does not exceed is irrelevant**: with at most `n` items in the source (tokens of
    every kind, lexer errors, EOF), the parse with token limit `n` IS the parse without token limit -/
theorem parse_limit_irrelevant (e : Entry) (n r : Nat) (src : Str) (h : (lex none src).length ≤ n) :
    parse e (some n) r src = parse e none r src := by
  obtain ⟨s, hr, _⟩ := parse_run e (some n) r src
  obtain ⟨_, hu⟩ := (sm_entry (cx := ⟨n, lex none src, h⟩) e (fuelFor src)).k _ () s (ti_start e src n r).li hr
  rw [entryStartT_unl] at hu
  cases e with
  | document =>
    unfold parse runEntry
    simp only [Entry.standalone]
    have e1 : initState src (some n) r = entryStartT .document src (some n) r := rfl
    have e2 : initState src none r = entryStartT .document src none r := rfl
    rw [e1, e2, hr, hu]
    rfl
  | selectionSet =>
    unfold parse runEntry
    simp only [Entry.standalone]
    have e1 : ({ initState src (some n) r with builder := (initState src (some n) r).builder.startNode "SELECTION_SET" } : PState) =
        entryStartT .selectionSet src (some n) r := rfl
    have e2 : ({ initState src none r with builder := (initState src none r).builder.startNode "SELECTION_SET" } : PState) =
        entryStartT .selectionSet src none r := rfl
    rw [e1, e2, hr, hu]
    rfl
  | type =>
    unfold parse runEntry
    simp only [Entry.standalone]
    have e1 : ({ initState src (some n) r with builder := (initState src (some n) r).builder.startNode "NAMED_TYPE" } : PState) =
        entryStartT .type src (some n) r := rfl
    have e2 : ({ initState src none r with builder := (initState src none r).builder.startNode "NAMED_TYPE" } : PState) =
        entryStartT .type src none r := rfl
    rw [e1, e2, hr, hu]
    rfl

end Apollo.Parse
