import ApolloModel.Proofs.ParserTree27
/-
C08 growth (pipeline), part 28 (stage iv): `Document::from_cst` on the DOCUMENT root; the executable instance of the
per-definition facts; executable documents through the pipeline.
-/
set_option linter.unusedSimpArgs false
set_option linter.unusedVariables false

namespace Apollo.Parse
open Apollo.Rowan hiding Str
open Apollo.Lex hiding Str
open Apollo.FromCst (All2)

/-! ### `Document::from_cst` -/

theorem all2_map_right {α β γ : Type} (r : α → γ → Prop) (f : β → γ) : ∀ (as : List α) (bs : List β),
    All2 (fun a b => r a (f b)) as bs → All2 r as (bs.map f)
  | _, _, .nil => All2.nil
  | _, _, .cons h1 h2 => All2.cons h1 (all2_map_right r f _ _ h2)

/-- the items of a run of the loop, collected: the definitions (with their form), their tokens, their elements -/
theorem items_defItemsX (X : Ast.Item → Prop) : ∀ (items : List (List Tok × List Elem)),
    (∀ i ∈ items, ∃ (it : Ast.Item) (ed : Elem), TokIs i.1 (Ast.tDefinition it.1 it.2) ∧ Ast.wfDefinition it.2 = true ∧
      i.2 = [ed] ∧ DefConv it.2 ed ∧ X it) →
    ∃ (its : List Ast.Item) (eds : List Elem), TokIs (items.map (·.1)).flatten (Ast.itemsToks its) ∧
      (items.map (·.2)).flatten = eds ∧ its.length = items.length ∧ (∀ i ∈ its, Ast.wfDefinition i.2 = true ∧ X i) ∧
      All2 (fun e (it : Ast.Item) => DefConv it.2 e) eds its
  | [], _ => ⟨[], [], TokIs.nil, rfl, rfl, (by intro i hi; cases hi), All2.nil⟩
  | i :: items, h => by
    obtain ⟨its, eds, h1, h2, h3, h4, h5⟩ := items_defItemsX X items (fun j hj => h j (List.mem_cons_of_mem _ hj))
    obtain ⟨it, ed, ht, hw, he, hc, hx⟩ := h i List.mem_cons_self
    refine ⟨it :: its, ed :: eds, ?_, ?_, by simp [h3], ?_, All2.cons hc h5⟩
    · simp only [List.map_cons, List.flatten_cons, Ast.itemsToks_cons]
      exact ht.append h1
    · simp only [List.map_cons, List.flatten_cons, he, h2]; rfl
    · intro j hj
      rcases List.mem_cons.mp hj with rfl | hj
      · exact ⟨hw, hx⟩
      · exact h4 j hj

/-- **`Document::from_cst`** on a DOCUMENT root whose significant children are the nodes of the definitions `its` -/
theorem fromCst_document (inner eds : List Elem) (its : List Ast.Item) (hsig : sigE inner = eds)
    (hall : All2 (fun e (it : Ast.Item) => DefConv it.2 e) eds its) :
    (FromCst.fromCst (Elem.node "DOCUMENT" inner)).1 = its.map (·.2) := by
  unfold FromCst.fromCst
  have hfilter : inner.filter (FromCst.nodeP FromCst.isDefinitionKind) = eds := by
    rw [FromCst.filter_nodeP_sigE, hsig]
    exact FromCst.all2_filter (fun (it : Ast.Item) e => DefConv it.2 e) _ (fun a e h => h.1) eds its hall
  have hmap := FromCst.childrenP_map (R := nameRanges (Elem.node "DOCUMENT" inner) 0) FromCst.isDefinitionKind "DOCUMENT" inner 0
    (fun _ hx => hx)
  rw [hfilter] at hmap
  have hconv : All2 (fun e a => FromCst.ConvE (fun R => @FromCst.cDefinition R (FromCst.size (Elem.node "DOCUMENT" inner))) a e) eds
      (its.map (·.2)) := by
    apply all2_map_right
    have hmem : ∀ e ∈ eds, FromCst.size e ≤ FromCst.size (Elem.node "DOCUMENT" inner) + 1 := by
      intro e he
      have h1 : e ∈ inner := FromCst.mem_sigE (by rw [hsig]; exact he)
      have := FromCst.size_le_sizeList h1
      rw [FromCst.size_node]; omega
    clear hfilter hmap hsig
    induction hall with
    | nil => exact All2.nil
    | cons h1 h2 ih =>
      exact All2.cons (h1.2 _ (hmem _ List.mem_cons_self)) (ih (fun e he => hmem e (List.mem_cons_of_mem _ he)))
  obtain ⟨l, hl⟩ := FromCst.collectM_conv (R := nameRanges (Elem.node "DOCUMENT" inner) 0)
    (fun R => @FromCst.cDefinition R (FromCst.size (Elem.node "DOCUMENT" inner))) _ eds (its.map (·.2)) hmap hconv
  unfold FromCst.collectM at hl
  injection hl with hl
  rw [hl]

/-- an accepted document all of whose definitions satisfy `DefItemR` (and a side condition `X`): tokens,
    well-formedness, and `from_cst` -/
theorem document_fromCst_of_itemsX (X : Ast.Item → Prop) (root : Elem) (inner : List Elem) (ts : List Tok)
    (items : List (List Tok × List Elem))
    (hroot : root = Elem.node "DOCUMENT" inner) (hne : items ≠ []) (hts : ts = (items.map (·.1)).flatten)
    (hsig : sigE inner = (items.map (·.2)).flatten)
    (hall : ∀ i ∈ items, ∃ (it : Ast.Item) (ed : Elem), TokIs i.1 (Ast.tDefinition it.1 it.2) ∧ Ast.wfDefinition it.2 = true ∧
      i.2 = [ed] ∧ DefConv it.2 ed ∧ X it) :
    ∃ its : List Ast.Item, its ≠ [] ∧ TokIs ts (Ast.itemsToks its) ∧ (∀ i ∈ its, Ast.wfDefinition i.2 = true ∧ X i) ∧
      (FromCst.fromCst root).1 = its.map (·.2) := by
  obtain ⟨its, eds, h1, h2, h3, h4, h5⟩ := items_defItemsX X items hall
  refine ⟨its, ?_, by rw [hts]; exact h1, h4, ?_⟩
  · intro h0
    rw [h0] at h3
    cases items with
    | nil => exact hne rfl
    | cons a b => simp at h3
  · rw [hroot]
    exact fromCst_document inner eds its (by rw [hsig, h2]) h5

theorem document_fromCst_of_items (root : Elem) (inner : List Elem) (ts : List Tok) (items : List (List Tok × List Elem))
    (hroot : root = Elem.node "DOCUMENT" inner) (hne : items ≠ []) (hts : ts = (items.map (·.1)).flatten)
    (hsig : sigE inner = (items.map (·.2)).flatten) (hall : ∀ i ∈ items, DefItemR i.1 i.2) :
    ∃ its : List Ast.Item, its ≠ [] ∧ TokIs ts (Ast.itemsToks its) ∧ (∀ i ∈ its, Ast.wfDefinition i.2 = true) ∧
      (FromCst.fromCst root).1 = its.map (·.2) := by
  obtain ⟨its, h1, h2, h3, h4⟩ := document_fromCst_of_itemsX (fun _ => True) root inner ts items hroot hne hts hsig
    (fun i hi => by obtain ⟨it, ed, a, b, c, d⟩ := hall i hi; exact ⟨it, ed, a, b, c, d, trivial⟩)
  exact ⟨its, h1, h2, fun i hi => (h3 i hi).1, h4⟩

/-! ### the executable instance -/

/-- the first token of a type-system definition or extension: a description, or a Name other than the four keywords
    of executable definitions -/
def tsStart : Ast.Tok → Bool
  | .str _ => true
  | .name w => !(w == "query".toList || w == "mutation".toList || w == "subscription".toList || w == "fragment".toList)
  | _ => false

theorem looseDef_tsStart (l : LooseDef) : l.toks.head?.map tsStart = some true := by
  cases l with
  | scalar desc nm ds => cases desc <;> rfl
  | object desc nm impl ds fs => cases desc <;> rfl
  | interface desc nm impl ds fs => cases desc <;> rfl
  | union desc nm ds ms => cases desc <;> rfl
  | enum desc nm ds vs => cases desc <;> rfl
  | input desc nm ds fs => cases desc <;> rfl
  | directive desc nm args rep lead first rest => cases desc <;> rfl
  | schema desc ds roots => cases desc <;> rfl
  | scalarExt nm ds => rfl
  | objectExt nm impl ds fs => rfl
  | interfaceExt nm impl ds fs => rfl
  | unionExt nm ds ms => rfl
  | enumExt nm ds vs => rfl
  | inputExt nm ds fs => rfl
  | schemaExt ds roots => rfl

/-- a node that is a definition of the type system; its tokens start like one -/
def OtherR (cs : List Tok) (e : List Elem) : Prop :=
  ∃ (K : SK) (inner : List Elem) (x : List Ast.Tok), e = [Elem.node K inner] ∧ FromCst.isDefinitionKind K = true ∧
    (K == "OPERATION_DEFINITION" || K == "FRAGMENT_DEFINITION") = false ∧ TokIs cs x ∧ x.head?.map tsStart = some true

theorem tr_node_of_acc {H : List Tok → Prop} (K : SK) (m body : PI Unit) (hm : m = withNode K body)
    {P : Unit → List Ast.Tok → Prop} (h : Acc (fun _ => False) H m P) :
    Tr NoE H m (fun a cs e => (∃ inner, e = [Elem.node K inner]) ∧ ∃ x, TokIs cs x ∧ P a x) := by
  subst hm
  refine ⟨h.1, ?_⟩
  intro s a s' w hi he hlq hq hr hnd
  obtain ⟨cs, a1, a2, a3, a4⟩ := h.2 s a s' w he hq hr hnd
  obtain ⟨_, _, inner, _, _, _, _, _, _, hout⟩ := withNode_tree K body s hi a s' hr
  rcases a4 with ⟨x, hx, hp⟩ | f
  · exact ⟨cs, s.pending.map pendingElem ++ [Elem.node K inner], a1, a2, a3, by rw [hout, List.append_assoc],
      Or.inl ⟨⟨inner, by rw [sigE_append, sigE_pending, sigE_node]; rfl⟩, x, hx, hp⟩⟩
  · exact absurd f id

theorem Tr.or {α : Type} {E : PState → Prop} {H1 H2 : List Tok → Prop} {m : PI α} {R : α → List Tok → List Elem → Prop}
    (h1 : Tr E H1 m R) (h2 : Tr E H2 m R) : Tr E (fun q => H1 q ∨ H2 q) m R :=
  ⟨h1.1, fun s a s' w hi he hlq hq hr hnd => hq.elim (fun h => h1.2 s a s' w hi he hlq h hr hnd) (fun h => h2.2 s a s' w hi he hlq h hr hnd)⟩

/-- the relation of the executable instance: an executable definition with everything known about it, or some node of
    another kind -/
def ExecOrOther (cs : List Tok) (e : List Elem) : Prop := ExecItemR cs e ∨ OtherR cs e

theorem execItemR_fragment {cs : List Tok} {e : List Elem} (h : FragDefR cs e) : ExecItemR cs e := by
  obtain ⟨name, tc, dirs, sels, ed, h1, h2, h3, h4⟩ := h
  have hk : ∃ c, ed = Elem.node "FRAGMENT_DEFINITION" c := by obtain ⟨c, _, _, _, _, _, _, _, rfl, _⟩ := h4; exact ⟨c, rfl⟩
  obtain ⟨c, rfl⟩ := hk
  refine ⟨(false, .fragment name tc dirs sels), _, h1, h2, h3, ⟨?_, fun m hm => FromCst.cDefinition_fragment m name tc dirs sels _ h4 hm⟩, rfl, ?_⟩
  · simp [FromCst.nodeP_node, FromCst.isDefinitionKind, FromCst.definitionKinds]
  · simp [FromCst.nodeP_node]

abbrev LooseAcc (H : List Tok → Prop) (m : PI Unit) : Prop := Acc (fun _ => False) H m (fun _ x => ∃ l : LooseDef, x = l.toks)

theorem loose_directive (n : Nat) : LooseAcc (fun q => LexQ q ∧ DStart "directive".toList q) (directiveDefinition n) :=
  (ent_directive n).mono (fun _ h => dstart_defStart h) (by
    rintro _ x ⟨desc, nm, args, rep, lead, first, rest, e, _, _⟩
    exact ⟨.directive desc nm args rep lead first rest, e⟩)

theorem loose_enumDef (n : Nat) : LooseAcc (fun q => LexQ q ∧ DStart "enum".toList q) (enumTypeDefinition n) :=
  (ent_enum n).mono (fun _ h => dstart_defStart h) (by
    rintro _ x ⟨desc, nm, ds, vs, e⟩; exact ⟨.enum desc nm ds vs, e⟩)

theorem loose_input (n : Nat) : LooseAcc (fun q => LexQ q ∧ DStart "input".toList q) (inputObjectTypeDefinition n) :=
  (ent_input n).mono (fun _ h => dstart_defStart h) (by
    rintro _ x ⟨desc, nm, ds, fs, e⟩; exact ⟨.input desc nm ds fs, e⟩)

theorem loose_interface (n : Nat) : LooseAcc (fun q => LexQ q ∧ DStart "interface".toList q) (interfaceTypeDefinition n) :=
  (ent_interface n).mono (fun _ h => dstart_defStart h) (by
    rintro _ x ⟨desc, nm, impl, ds, fs, e⟩; exact ⟨.interface desc nm impl ds fs, e⟩)

theorem loose_object (n : Nat) : LooseAcc (fun q => LexQ q ∧ DStart "type".toList q) (objectTypeDefinition n) :=
  (ent_object n).mono (fun _ h => dstart_defStart h) (by
    rintro _ x ⟨desc, nm, impl, ds, fs, e⟩; exact ⟨.object desc nm impl ds fs, e⟩)

theorem loose_scalar (n : Nat) : LooseAcc (fun q => LexQ q ∧ DStart "scalar".toList q) (scalarTypeDefinition n) :=
  (ent_scalar n).mono (fun _ h => dstart_defStart h) (by
    rintro _ x ⟨desc, nm, ds, e⟩; exact ⟨.scalar desc nm ds, e⟩)

theorem loose_schema (n : Nat) : LooseAcc (fun q => LexQ q ∧ DStart "schema".toList q) (schemaDefinition n) :=
  (ent_schema n).mono (fun _ h => dstart_defStart h) (by
    rintro _ x ⟨desc, ds, roots, _, e⟩; exact ⟨.schema desc ds roots, e⟩)

theorem loose_union (n : Nat) : LooseAcc (fun q => LexQ q ∧ DStart "union".toList q) (unionTypeDefinition n) :=
  (ent_union n).mono (fun _ h => dstart_defStart h) (by
    rintro _ x ⟨desc, nm, ds, ms, e⟩; exact ⟨.union desc nm ds ms, e⟩)

theorem loose_schemaExt (n : Nat) : LooseAcc (fun q => LexQ q ∧ EStart "schema".toList q) (schemaExtension n) :=
  (accL_schemaExtension n).mono (fun _ h => estart_ext2 h) (by
    rintro _ x ⟨ds, roots, e⟩; exact ⟨.schemaExt ds roots, e⟩)

theorem loose_scalarExt (n : Nat) : LooseAcc (fun q => LexQ q ∧ EStart "scalar".toList q) (scalarTypeExtension n) :=
  (accL_scalarTypeExtension n).mono (fun _ h => estart_ext2 h) (by
    rintro _ x ⟨nm, ds, e⟩; exact ⟨.scalarExt nm ds, e⟩)

theorem loose_objectExt (n : Nat) : LooseAcc (fun q => LexQ q ∧ EStart "type".toList q) (objectTypeExtension n) :=
  (accL_objectTypeExtension n).mono (fun _ h => estart_ext2 h) (by
    rintro _ x ⟨nm, impl, ds, fs, e⟩; exact ⟨.objectExt nm impl ds fs, e⟩)

theorem loose_interfaceExt (n : Nat) : LooseAcc (fun q => LexQ q ∧ EStart "interface".toList q) (interfaceTypeExtension n) :=
  (accL_interfaceTypeExtension n).mono (fun _ h => estart_ext2 h) (by
    rintro _ x ⟨nm, impl, ds, fs, e⟩; exact ⟨.interfaceExt nm impl ds fs, e⟩)

theorem loose_unionExt (n : Nat) : LooseAcc (fun q => LexQ q ∧ EStart "union".toList q) (unionTypeExtension n) :=
  (accL_unionTypeExtension n).mono (fun _ h => estart_ext2 h) (by
    rintro _ x ⟨nm, ds, ms, e⟩; exact ⟨.unionExt nm ds ms, by rw [e]; simp [LooseDef.toks, kwE]⟩)

theorem loose_enumExt (n : Nat) : LooseAcc (fun q => LexQ q ∧ EStart "enum".toList q) (enumTypeExtension n) :=
  (accL_enumTypeExtension n).mono (fun _ h => estart_ext2 h) (by
    rintro _ x ⟨nm, ds, vs, e⟩; exact ⟨.enumExt nm ds vs, e⟩)

theorem loose_inputExt (n : Nat) : LooseAcc (fun q => LexQ q ∧ EStart "input".toList q) (inputObjectTypeExtension n) :=
  (accL_inputObjectTypeExtension n).mono (fun _ h => estart_ext2 h) (by
    rintro _ x ⟨nm, ds, fs, e⟩; exact ⟨.inputExt nm ds fs, e⟩)

theorem tr_other {H : List Tok → Prop} (K : SK) (m body : PI Unit) (hm : m = withNode K body) (h : LooseAcc H m)
    (hk1 : FromCst.isDefinitionKind K = true) (hk2 : (K == "OPERATION_DEFINITION" || K == "FRAGMENT_DEFINITION") = false) :
    Tr NoE H m (fun _ => ExecOrOther) := by
  refine (tr_node_of_acc K m body hm h).mono (fun _ h => h) ?_
  rintro _ cs e ⟨⟨inner, he⟩, x, hx, l, rfl⟩
  exact Or.inr ⟨K, inner, l.toks, he, hk1, hk2, hx, looseDef_tsStart l⟩

theorem execDefTrs (n : Nat) : DefTrs n ExecOrOther where
  directive := tr_other "DIRECTIVE_DEFINITION" _ _ rfl (loose_directive n) (by decide) (by decide)
  enumDef := tr_other "ENUM_TYPE_DEFINITION" _ _ rfl (loose_enumDef n) (by decide) (by decide)
  fragment := (((tr_fragmentDefinition n).mono (fun _ h => h) (fun _ _ _ h => (Or.inl (execItemR_fragment h) : ExecOrOther _ _))).or
      (tr_never (acc_fragmentDefinition_desc n))).mono (fun _ h => dstart_fragment h) (fun _ _ _ h => h)
  input := tr_other "INPUT_OBJECT_TYPE_DEFINITION" _ _ rfl (loose_input n) (by decide) (by decide)
  interface := tr_other "INTERFACE_TYPE_DEFINITION" _ _ rfl (loose_interface n) (by decide) (by decide)
  object := tr_other "OBJECT_TYPE_DEFINITION" _ _ rfl (loose_object n) (by decide) (by decide)
  opQuery := (tr_operationDefinition n).mono (fun _ _ => trivial) (fun _ _ _ h => Or.inl h)
  opMutation := (tr_operationDefinition n).mono (fun _ _ => trivial) (fun _ _ _ h => Or.inl h)
  opSubscription := (tr_operationDefinition n).mono (fun _ _ => trivial) (fun _ _ _ h => Or.inl h)
  opShorthand := (tr_operationDefinition n).mono (fun _ _ => trivial) (fun _ _ _ h => Or.inl h)
  scalar := tr_other "SCALAR_TYPE_DEFINITION" _ _ rfl (loose_scalar n) (by decide) (by decide)
  schema := tr_other "SCHEMA_DEFINITION" _ _ rfl (loose_schema n) (by decide) (by decide)
  union := tr_other "UNION_TYPE_DEFINITION" _ _ rfl (loose_union n) (by decide) (by decide)
  schemaExt := tr_other "SCHEMA_EXTENSION" _ _ rfl (loose_schemaExt n) (by decide) (by decide)
  scalarExt := tr_other "SCALAR_TYPE_EXTENSION" _ _ rfl (loose_scalarExt n) (by decide) (by decide)
  objectExt := tr_other "OBJECT_TYPE_EXTENSION" _ _ rfl (loose_objectExt n) (by decide) (by decide)
  interfaceExt := tr_other "INTERFACE_TYPE_EXTENSION" _ _ rfl (loose_interfaceExt n) (by decide) (by decide)
  unionExt := tr_other "UNION_TYPE_EXTENSION" _ _ rfl (loose_unionExt n) (by decide) (by decide)
  enumExt := tr_other "ENUM_TYPE_EXTENSION" _ _ rfl (loose_enumExt n) (by decide) (by decide)
  inputExt := tr_other "INPUT_OBJECT_TYPE_EXTENSION" _ _ rfl (loose_inputExt n) (by decide) (by decide)

/-! ### executable documents -/

/-- the tree holds executable definitions only: every child of the root that `Document::from_cst` looks at is an
    OPERATION_DEFINITION or a FRAGMENT_DEFINITION -/
def ExecRoot (root : Elem) : Prop :=
  ∀ k cs, root = Elem.node k cs → ∀ e ∈ cs, FromCst.nodeP FromCst.isDefinitionKind e = true →
    FromCst.nodeP (fun k => k == "OPERATION_DEFINITION" || k == "FRAGMENT_DEFINITION") e = true

theorem exec_closed {d : Ast.Definition} (h : isExecutable d = true) : Ast.closed d = true := by
  cases d <;> simp [isExecutable] at h <;> rfl

/-- **stage (iv)**: an accepted document whose tree holds executable definitions only — the significant tokens are the
    printer's tokens of a non-empty list of well-formed executable definitions `its` (each in the long form, operations
    also in the shorthand form), `Document::from_cst` on the tree returns exactly these definitions, and so does the
    reference parser on the tokens -/
theorem parseExecutableDocument_agrees (rl : Nat) (src : Str) (root : Elem)
    (h : (parse .document none rl src).outcome = .tree root) (herr : (parse .document none rl src).errors = [])
    (hexec : ExecRoot root) :
    LexClean src ∧ ∃ (ts : List Tok) (e : Tok) (its : List Ast.Item), sig (srcToks src) = ts ++ [e] ∧ e.kind = .eof ∧
      its ≠ [] ∧ TokIs ts (Ast.itemsToks its) ∧ (∀ i ∈ its, Ast.wfDefinition i.2 = true ∧ isExecutable i.2 = true) ∧
      (FromCst.fromCst root).1 = its.map (·.2) ∧
      ∀ f, Ast.szDefinitions (its.map (·.2)) ≤ f → Ast.pDocument f (Ast.itemsToks its) = some (its.map (·.2)) := by
  obtain ⟨hclean, ts, e, inner, h1, h2, hroot, items, hne, hts, hsig, hall⟩ := parseDocument_cst execDefTrs rl src root h herr
  have hall' : ∀ i ∈ items, ∃ (it : Ast.Item) (ed : Elem), TokIs i.1 (Ast.tDefinition it.1 it.2) ∧ Ast.wfDefinition it.2 = true ∧
      i.2 = [ed] ∧ DefConv it.2 ed ∧ isExecutable it.2 = true := by
    intro i hi
    rcases hall i hi with ⟨it, ed, a, b, c, d, e', _⟩ | ⟨K, inner', _, he', hk1, hk2, _, _⟩
    · exact ⟨it, ed, a, b, c, d, e'⟩
    · exfalso
      have hmem : Elem.node K inner' ∈ inner := by
        apply FromCst.mem_sigE
        rw [hsig]
        exact List.mem_flatten.mpr ⟨i.2, List.mem_map.mpr ⟨i, hi, rfl⟩, by rw [he']; simp⟩
      have := hexec "DOCUMENT" inner hroot _ hmem (by rw [FromCst.nodeP_node]; exact hk1)
      rw [FromCst.nodeP_node, hk2] at this
      cases this
  obtain ⟨its, g1, g2, g3, g4⟩ := document_fromCst_of_itemsX (fun it => isExecutable it.2 = true) root inner ts items hroot hne hts hsig hall'
  refine ⟨hclean, ts, e, its, h1, h2, g1, g2, g3, g4, fun f hf => ?_⟩
  exact Ast.items_document_roundtrip its f g1 (fun i hi => (g3 i hi).1) hf
    (Ast.itemsFollowOk_of_closed its (fun i hi => exec_closed (g3 i hi).2))

end Apollo.Parse
