import ApolloModel.Proofs.ParserExactC11
/-
EXACT-BUDGET COPY of ParserComplete12 (namespace Apollo.Parse.Exact, exact `vdepth`).
C05 / C07 growth (completeness), part 12: `( item+ )` lists, variable definitions, operation and fragment
definitions.
-/
set_option linter.unusedSimpArgs false
namespace Apollo.Parse.Exact
open Apollo.Rowan hiding Str
open Apollo.Lex hiding Str

/-- `( item+ )` as written in `variable_definitions` (and `arguments`): the first item is checked by `peek`,
    the others by `peek_while_kind` -/
def parenList (k : Kind) (item : PI Unit) : PI Unit :=
  bump "L_PAREN" >>= fun _ => peek >>= fun kk =>
    if kk == some k then (item >>= fun _ => (peekWhileKind k item >>= fun _ => expect .rParen "R_PAREN"))
    else (err >>= fun _ => (peekWhileKind k item >>= fun _ => expect .rParen "R_PAREN"))

theorem cmp_parenList (k : Kind) (item : PI Unit) (Li : Nat → List Ast.Tok → Prop) (Fi : Kind → Prop)
    (hitem : Cmp (fun _ => True) item Li Fi (fun _ => True))
    (hhead : ∀ b x, Li b x → ∃ a x', x = a :: x' ∧ kindOfA a = k) (hFk : Fi k) (hFr : Fi .rParen) (hkr : k ≠ .rParen) :
    Cmp (fun _ => True) (parenList k item)
      (fun b x => ∃ i0 ir, (∀ i ∈ i0 :: ir, Li b i) ∧ x = .p .lParen :: (i0 ++ (ir.flatten ++ [.p .rParen])))
      (fun _ => True) (fun _ => True) := by
  intro s s' u cv x q0 rest w hr hl hs ht hq _ _
  obtain ⟨i0, ir, hall, rfl⟩ := hl
  obtain ⟨t, i, c', rfl, hta, hi, hs'⟩ := spells_cons hs
  obtain ⟨c1, c23, rfl, s1, s23⟩ := spells_split hs' (by simp)
  obtain ⟨c2, c3, rfl, s2, s3⟩ : ∃ c2 c3, c23 = c2 ++ c3 ∧ Spells c2 ir.flatten ∧ Spells c3 [.p .rParen] :=
    spells_split s23 (by simp)
  obtain ⟨tb, ib, rfl, htb, hib⟩ := spells_single s3
  obtain ⟨a0, x0, rfl, hka0⟩ := hhead _ i0 (hall i0 (by simp))
  obtain ⟨t1, tl1, hc1, hta1⟩ := spells_head s1
  have hkb : tb.kind = .rParen := kind_of_astOfV htb
  obtain ⟨f, ftl, hcf, hsf, hff⟩ : ∃ f ftl, c2 ++ tb :: ib = f :: ftl ∧ Sigf f ∧ Fi f.kind := by
    cases hir : ir with
    | nil =>
      subst hir
      have := spells_nil_inv (by simpa using s2)
      subst this
      exact ⟨tb, ib, rfl, sigf_of_astOfV htb, by rw [hkb]; exact hFr⟩
    | cons i1 ir' =>
      subst hir
      obtain ⟨a1, x1, e1, hka1⟩ := hhead _ i1 (hall i1 (by simp))
      subst e1
      obtain ⟨t2, tl2, rfl, hta2⟩ := spells_head (x := x1 ++ ir'.flatten) (by simpa using s2)
      exact ⟨t2, tl2 ++ tb :: ib, rfl, sigf_of_astOfV hta2, by rw [kind_of_astOfV hta2, hka1]; exact hFk⟩
  have hcf' : c2 ++ tb :: (ib ++ q0 :: rest) = f :: (ftl ++ q0 :: rest) := by
    have := congrArg (· ++ q0 :: rest) hcf; simpa using this
  unfold parenList at hr
  obtain ⟨_, sA, h1, h2⟩ := bind_dec (bump "L_PAREN") _ s s' u hr
  have hs1 : Spells (t :: i) [.p .lParen] := by
    refine ⟨?_, by intro hd tl e; injection e with e _; subst e; exact sigf_of_astOfV hta⟩
    rw [sig_cons_ignV t i (sigf_of_astOfV hta) hi]
    exact TokIs.single t _ hta
  obtain ⟨e1, tA, _⟩ := cmp_bump "L_PAREN" s sA () (t :: i) [.p .lParen] t1 (tl1 ++ (c2 ++ tb :: ib) ++ q0 :: rest) w h1 ⟨_, rfl⟩ hs1
    (by rw [ht, hc1]; simp) (sigf_of_astOfV hta1) trivial trivial
  obtain ⟨ko, sP, hp, h3⟩ := bind_dec peek _ sA s' u h2
  obtain ⟨rfl, eP, htP, _⟩ := peek_head sA sP ko t1 _ e1.w tA hp
  have hk1 : t1.kind = k := by rw [kind_of_astOfV hta1, hka0]
  simp only [hk1, beq_self_eq_true, if_true] at h3
  obtain ⟨_, sB, h4, h5⟩ := bind_dec item _ sP s' u h3
  have hbP : sP.recLimit - sP.recCur = s.recLimit - s.recCur := by rw [eP.recLimit, eP.recCur, e1.recLimit, e1.recCur]
  obtain ⟨eB, tB, _⟩ := hitem sP sB () c1 _ f (ftl ++ q0 :: rest) eP.w h4
    (by rw [hbP]; exact hall _ (by simp)) s1 (by rw [htP, hc1]; simp [hcf']) hsf hff trivial
  obtain ⟨_, sC, h6, h7⟩ := bind_dec (peekWhileKind k item) _ sB s' u h5
  unfold peekWhileKind at h6
  obtain ⟨fuel, h8⟩ := srcLen_dec _ sB sC () h6
  have hbB : sB.recLimit - sB.recCur = s.recLimit - s.recCur := by rw [eB.recLimit, eB.recCur, hbP]
  obtain ⟨eC, tC⟩ := cmp_kindWhileLoop k item Li Fi hitem hhead hFk ir _ sB sC c2 tb (ib ++ q0 :: rest) eB.w h8
    (by rw [hbB]; exact fun i hi => hall i (by simp [hi])) s2
    (by rw [tB]; exact hcf'.symm) (sigf_of_astOfV htb) (by rw [hkb]; exact fun h => hkr h.symm) (by rw [hkb]; exact hFr)
  obtain ⟨eD, tD, _⟩ := cmp_expect .rParen "R_PAREN" sC s' u (tb :: ib) [.p .rParen] q0 rest eC.w h7 ⟨_, rfl, rfl⟩ s3
    (by rw [tC]; simp) hq trivial trivial
  exact ⟨by simpa [List.append_assoc] using (((e1.trans eP).trans eB).trans eC).trans eD, tD, trivial⟩

/-! ### variable definitions -/

theorem varDefsBody_eq (n : Nat) : varDefsBody n = parenList .dollar (variableDefinition n) := rfl

def varItems : List Ast.VarDef → List (List Ast.Tok)
  | [] => []
  | v :: r => Ast.tVarDef v :: varItems r

theorem varItems_flatten : ∀ vs, (varItems vs).flatten = Ast.tVarDefItems vs
  | [] => rfl
  | v :: r => by simp [varItems, Ast.tVarDefItems, varItems_flatten r]

theorem varItems_ok (b : Nat) : ∀ vs, (∀ v ∈ vs, varFit b v) → ∀ i ∈ varItems vs, LVarDef b i
  | [], _ => by intro i hi; cases hi
  | v :: r, h => by
    intro i hi
    simp only [varItems, List.mem_cons] at hi
    rcases hi with rfl | hi
    · exact ⟨v, rfl, h v (by simp)⟩
    · exact varItems_ok b r (fun x hx => h x (by simp [hx])) i hi

def LVarDefs (b : Nat) (x : List Ast.Tok) : Prop := ∃ vs, vs ≠ [] ∧ x = Ast.tVarDefs vs ∧ ∀ v ∈ vs, varFit b v

/-- **`variable_definitions` is complete**: `( $name : Type DefaultValue? Directives? … )`, at least one -/
theorem cmp_variableDefinitions (n : Nat) :
    Cmp (fun _ => True) (variableDefinitions n) LVarDefs (fun _ => True) (fun _ => True) := by
  rw [variableDefinitions_eq, varDefsBody_eq]
  refine cmp_withNode _ ?_
  have := cmp_parenList .dollar (variableDefinition n) LVarDef Fvd (cmp_variableDefinition n)
    (by rintro b x ⟨v, rfl, _⟩; exact ⟨.p .dollar, _, rfl, rfl⟩)
    (by simp [Fvd]) (by simp [Fvd]) (by decide)
  refine this.mono (fun _ h => h) ?_ (fun _ h => h) (fun _ h => h)
  rintro b x ⟨vs, hne, rfl, hfit⟩
  cases vs with
  | nil => exact absurd rfl hne
  | cons v r =>
    refine ⟨Ast.tVarDef v, varItems r, ?_, ?_⟩
    · exact varItems_ok b (v :: r) hfit
    · simp [Ast.tVarDefs, Ast.tVarDefItems, varItems_flatten]

/-! ### operation definition -/

theorem cmp_operationType :
    Cmp (fun _ => True) operationType (fun _ x => ∃ ty : Ast.OpType, x = [.name ty.name.toList]) (fun _ => True) (fun _ => True) := by
  intro s s' u c x q0 rest w hr hl hs ht hq _ _
  obtain ⟨ty, rfl⟩ := hl
  obtain ⟨t, i, rfl, hta, hi⟩ := spells_single hs
  have hd : t.data = ty.name.toList := data_of_astOfV_name hta
  unfold operationType at hr
  obtain ⟨od, sP, hp, h2⟩ := bind_dec peekData _ s s' u hr
  unfold peekData at hp
  obtain ⟨o, sQ, hq2, h3⟩ := bind_dec peekToken _ s sP od hp
  obtain ⟨rfl, eP, htP⟩ := peekToken_head s sQ o t (i ++ q0 :: rest) w (by rw [ht]; simp) hq2
  rw [run_pure] at h3
  injection h3 with h3 h4
  subst h3 h4
  simp only [Option.map_some] at h2
  have fin : ∀ sk, (withNode "OPERATION_TYPE" (bump sk)).run sQ = .ok u s' → Eat s s' (t :: i) ∧ Toks s' = q0 :: rest ∧ True := by
    intro sk hm
    obtain ⟨e, t2, _⟩ := cmp_nodeBump "OPERATION_TYPE" sk sQ s' u (t :: i) _ q0 rest eP.w hm ⟨_, rfl⟩ hs (by rw [htP]; simp) hq trivial trivial
    exact ⟨by simpa using eP.trans e, t2, trivial⟩
  cases ty with
  | query =>
    have h1 : kw "query" t.data = true := by rw [hd]; decide
    simp only [h1, if_true] at h2
    exact fin _ h2
  | subscription =>
    have h1 : kw "query" t.data = false := by rw [hd]; decide
    have h1' : kw "subscription" t.data = true := by rw [hd]; decide
    simp only [h1, h1', Bool.false_eq_true, if_false, if_true] at h2
    exact fin _ h2
  | mutation =>
    have h1 : kw "query" t.data = false := by rw [hd]; decide
    have h1' : kw "subscription" t.data = false := by rw [hd]; decide
    have h1'' : kw "mutation" t.data = true := by rw [hd]; decide
    simp only [h1, h1', h1'', Bool.false_eq_true, if_false, if_true] at h2
    exact fin _ h2

theorem cmp_opSel (n : Nat) : Cmp (fun _ => True) (opSel n) LSet (fun _ => True) (fun _ => True) := by
  unfold opSel
  apply cmp_peek
  intro k _
  apply cmp_ite
  · intro _
    exact (selectionSet_complete n).mono (fun _ _ => trivial) (fun _ _ h => h) (fun _ h => h) (fun _ h => h)
  · intro hk
    apply cmp_absurd
    intro b x cc q0 hl hs _ hkk
    obtain ⟨x', rfl⟩ := lset_head hl
    obtain ⟨t, tl, rfl, hta⟩ := spells_head hs
    simp only [headK] at hkk
    rw [kind_of_astOfV hta] at hkk
    simp [← hkk, kindOfA] at hk

theorem cmp_opDirs (n : Nat) :
    Cmp (fun _ => True) (optKind .at (directives n false) (opSel n)) LI2 (fun _ => True) (fun _ => True) :=
  cmp_optKind_ne (Hk := fun _ => True) (F := fun _ => True) .at (directives n false) (opSel n) (cmp_directivesNe n) (cmp_opSel n)
    (fun b x h => ldirsNe_head h)
    (by intro b a x h; obtain ⟨x', e⟩ := lset_head h; injection e with e _; subst e; simp [kindOfA])
    lset_ne (fun _ h => h)

def LOpV (b : Nat) (x : List Ast.Tok) : Prop := ∃ x1 x2, x = x1 ++ x2 ∧ (LVarDefs b x1 ∨ x1 = []) ∧ LI2 b x2
def LOpN (b : Nat) (x : List Ast.Tok) : Prop := ∃ x1 x2, x = x1 ++ x2 ∧ ((∃ n, x1 = [.name n]) ∨ x1 = []) ∧ LOpV b x2

theorem lvarDefs_head {b : Nat} {x : List Ast.Tok} (h : LVarDefs b x) : ∃ x', x = .p .lParen :: x' := by
  obtain ⟨vs, hne, rfl, _⟩ := h
  cases vs with
  | nil => exact absurd rfl hne
  | cons v r => exact ⟨Ast.tVarDefItems (v :: r) ++ [.p .rParen], by simp [Ast.tVarDefs]⟩

theorem lopV_head {b : Nat} {a : Ast.Tok} {x : List Ast.Tok} (h : LOpV b (a :: x)) : a = .p .lParen ∨ a = .p .lCurly ∨ a = .p .at := by
  obtain ⟨x1, x2, e, h1, h2⟩ := h
  rcases h1 with h1 | rfl
  · obtain ⟨x', rfl⟩ := lvarDefs_head h1
    simp only [List.cons_append] at e
    injection e with e _
    left; exact e
  · simp only [List.nil_append] at e
    subst e
    right; exact li2_head h2

theorem lopV_ne (b : Nat) : ¬ LOpV b [] := by
  rintro ⟨x1, x2, e, _, h2⟩
  cases x2 with
  | nil => exact li2_ne b h2
  | cons a r => cases x1 <;> simp at e

theorem lopN_ne (b : Nat) : ¬ LOpN b [] := by
  rintro ⟨x1, x2, e, _, h2⟩
  cases x2 with
  | nil => exact lopV_ne b h2
  | cons a r => cases x1 <;> simp at e

theorem cmp_opVars (n : Nat) :
    Cmp (fun _ => True) (optKind .lParen (variableDefinitions n) (optKind .at (directives n false) (opSel n))) LOpV
      (fun _ => True) (fun _ => True) :=
  cmp_optKind_ne (Hk := fun _ => True) (F := fun _ => True) .lParen (variableDefinitions n) _ (cmp_variableDefinitions n) (cmp_opDirs n)
    (by intro b x h; obtain ⟨x', e⟩ := lvarDefs_head h; exact ⟨_, x', e, rfl⟩)
    (by intro b a x h; rcases li2_head h with e | e <;> subst e <;> simp [kindOfA])
    li2_ne (fun _ h => h)

theorem cmp_opName (n : Nat) :
    Cmp (fun _ => True) (optKind .name name (optKind .lParen (variableDefinitions n) (optKind .at (directives n false) (opSel n))))
      LOpN (fun _ => True) (fun _ => True) :=
  cmp_optKind_ne (Hk := fun _ => True) (F := fun _ => True) .name name _ cmp_name (cmp_opVars n)
    (by rintro b x ⟨nn, rfl⟩; exact ⟨_, _, rfl, rfl⟩)
    (by intro b a x h; rcases lopV_head h with e | e | e <;> subst e <;> simp [kindOfA])
    lopV_ne (fun _ h => h)

/-- the full operation definitions within the budget -/
def LOpFull (b : Nat) (x : List Ast.Tok) : Prop :=
  ∃ ty nm vs ds ss, x = tOperation ty nm vs ds ss ∧ (∀ v ∈ vs, varFit b v) ∧ dirsFit false b ds ∧
    ss ≠ Ast.Sels.nil ∧ 1 ≤ b ∧ fitSels ss (b - 1)

theorem cmp_opBody (n : Nat) : Cmp (fun _ => True) (opBody n) LOpFull (fun _ => True) (fun _ => True) := by
  unfold opBody
  have h := cmp_bind_ne (Hk := fun _ => True) (F := fun _ => True) cmp_operationType (fun _ _ => cmp_opName n)
    (fun _ _ _ _ => trivial) lopN_ne (fun _ h => h)
  refine h.mono (fun _ h => h) ?_ (fun _ h => h) (fun _ h => h)
  rintro b x ⟨ty, nm, vs, ds, ss, rfl, hv, hd, hne, hb1, hfs⟩
  have hset : LSet b (Ast.tSelSet ss) := ⟨ss, hne, rfl, hb1, hfs⟩
  have h2 : LI2 b (Ast.tDirectives ds ++ Ast.tSelSet ss) := ⟨_, _, rfl, ldirs_split b ds hd, hset⟩
  have hV : LOpV b (Ast.tVarDefs vs ++ (Ast.tDirectives ds ++ Ast.tSelSet ss)) := by
    refine ⟨_, _, rfl, ?_, h2⟩
    by_cases hvs : vs = []
    · subst hvs; right; rfl
    · left; exact ⟨vs, hvs, rfl, hv⟩
  refine ⟨[.name ty.name.toList], _, ?_, ⟨ty, rfl⟩, (match nm with | some n => [.name n] | none => []), _, rfl, ?_, hV⟩
  · cases nm <;> simp [tOperation, List.append_assoc]
  · cases nm with
    | none => right; rfl
    | some n => left; exact ⟨n, rfl⟩

theorem tOperation_head (ty : Ast.OpType) (nm : Option Ast.Str) (vs : List Ast.VarDef) (ds : List Ast.Directive) (ss : Ast.Sels) :
    ∃ x', tOperation ty nm vs ds ss = .name ty.name.toList :: x' :=
  ⟨(tOperation ty nm vs ds ss).tail, by simp [tOperation, List.append_assoc]⟩

/-- `operation_definition`, full form -/
theorem cmp_operationDefinition_full (n : Nat) :
    Cmp (fun _ => True) (operationDefinition n) LOpFull (fun _ => True) (fun _ => True) := by
  rw [operationDefinition_eq]
  apply cmp_peek
  intro k _
  by_cases hk : k = .name
  · subst hk
    exact (cmp_withNode "OPERATION_DEFINITION" (cmp_opBody n)).mono (fun _ _ => trivial) (fun _ _ h => h) (fun _ h => h) (fun _ h => h)
  · apply cmp_absurd
    rintro b x cc q0 ⟨ty, nm, vs, ds, ss, rfl, _⟩ hs _ hkk
    obtain ⟨x', e⟩ := tOperation_head ty nm vs ds ss
    rw [e] at hs
    obtain ⟨t, tl, rfl, hta⟩ := spells_head hs
    simp only [headK] at hkk
    rw [kind_of_astOfV hta] at hkk
    exact hk hkk.symm

/-- `operation_definition`, shorthand `{ Selection+ }` -/
theorem cmp_operationDefinition_short (n : Nat) :
    Cmp (fun _ => True) (operationDefinition n) LSet (fun _ => True) (fun _ => True) := by
  rw [operationDefinition_eq]
  apply cmp_peek
  intro k _
  by_cases hk : k = .lCurly
  · subst hk
    exact (cmp_withNode "OPERATION_DEFINITION" (selectionSet_complete n)).mono (fun _ _ => trivial) (fun _ _ h => h) (fun _ h => h) (fun _ h => h)
  · apply cmp_absurd
    intro b x cc q0 hl hs _ hkk
    obtain ⟨x', rfl⟩ := lset_head hl
    obtain ⟨t, tl, rfl, hta⟩ := spells_head hs
    simp only [headK] at hkk
    rw [kind_of_astOfV hta] at hkk
    exact hk hkk.symm

def LOperation (b : Nat) (x : List Ast.Tok) : Prop := LOpFull b x ∨ LSet b x

/-- **`operation_definition` is complete** -/
theorem operationDefinition_complete (n : Nat) :
    Cmp (fun _ => True) (operationDefinition n) LOperation (fun _ => True) (fun _ => True) := by
  intro s s' a c x q0 rest w hr hl hs ht hq hf hk
  rcases hl with hl | hl
  · exact cmp_operationDefinition_full n s s' a c x q0 rest w hr hl hs ht hq hf hk
  · exact cmp_operationDefinition_short n s s' a c x q0 rest w hr hl hs ht hq hf hk

/-! ### fragment definition -/

def LFragment (b : Nat) (x : List Ast.Tok) : Prop :=
  ∃ nm tc ds ss, x = Ast.tDefinition false (.fragment nm tc ds ss) ∧ nm ≠ Ast.sOn ∧ dirsFit false b ds ∧
    ss ≠ Ast.Sels.nil ∧ 1 ≤ b ∧ fitSels ss (b - 1)

theorem fragTail_eq (n : Nat) : optKind .at (directives n false) (fragSel n) = inlT2 n := rfl

/-- the body of `fragment_definition` from the keyword on: `fragment FragmentName TypeCondition Directives? SelectionSet`.
    (Stated for `fragBody`, so that a prefix added in front of the keyword `bump` does not affect it.) -/
theorem cmp_fragBody (n : Nat) : Cmp (fun _ => True) (fragBody n) LFragment (fun _ => True) (fun _ => True) := by
  unfold fragBody
  rw [fragTail_eq]
  have h3 := cmp_bind_ne (Hk := fun _ => True) (F := fun _ => True) cmp_typeCondition (fun _ _ => cmp_inlT2 n (selectionSet_complete n))
    (fun _ _ _ _ => trivial) li2_ne (fun _ h => h)
  have h2 := cmp_bind_ne (Hk := fun _ => True) (F := fun _ => True) cmp_fragmentName (fun _ _ => h3)
    (fun _ _ _ _ => trivial)
    (by rintro b ⟨x1, x2, e, _, h2⟩
        cases x2 with
        | nil => exact li2_ne b h2
        | cons a r => cases x1 <;> simp at e)
    (fun _ h => h)
  have h1 := cmp_bind_ne (Hk := fun _ => True) (F := fun _ => True) (cmp_bump "fragment_KW") (fun _ _ => h2)
    (fun _ _ _ _ => trivial)
    (by rintro b ⟨x1, x2, e, ⟨nn, rfl, _⟩, _⟩; simp at e)
    (fun _ h => h)
  refine h1.mono (fun _ h => h) ?_ (fun _ h => h) (fun _ h => h)
  rintro b x ⟨nm, tc, ds, ss, rfl, hne, hd, hss, hb1, hfs⟩
  have hset : LSet b (Ast.tSelSet ss) := ⟨ss, hss, rfl, hb1, hfs⟩
  exact ⟨[.name "fragment".toList], _, by simp [Ast.tDefinition], ⟨_, rfl⟩, [.name nm], _, rfl, ⟨nm, rfl, hne⟩,
    [.name Ast.sOn, .name tc], _, rfl, ⟨tc, rfl⟩, _, _, rfl, ldirs_split b ds hd, hset⟩

/-- the description check in front: the text of a fragment definition starts with the Name `fragment`, so the
    `err_and_pop` branch (taken on a String token) is not entered -/
theorem cmp_fragGuard (n : Nat) : Cmp (fun _ => True) (fragGuard n) LFragment (fun _ => True) (fun _ => True) := by
  unfold fragGuard optKind
  apply cmp_peek
  intro k _
  by_cases hk : k = .name
  · subst hk
    have e : (some Kind.name == some Kind.stringValue) = false := by decide
    simp only [e, Bool.false_eq_true, if_false]
    exact (cmp_fragBody n).mono (fun _ _ => trivial) (fun _ _ h => h) (fun _ h => h) (fun _ h => h)
  · apply cmp_absurd
    rintro b x cc q0 ⟨nm, tc, ds, ss, rfl, _⟩ hs _ hkk
    have hx : ∃ x', Ast.tDefinition false (.fragment nm tc ds ss) = .name "fragment".toList :: x' :=
      ⟨(Ast.tDefinition false (.fragment nm tc ds ss)).tail, by simp [Ast.tDefinition]⟩
    obtain ⟨x', e⟩ := hx
    rw [e] at hs
    obtain ⟨t, tl, rfl, hta⟩ := spells_head hs
    simp only [headK] at hkk
    rw [kind_of_astOfV hta] at hkk
    exact hk hkk.symm

/-- **`fragment_definition` is complete** (entered on the keyword) -/
theorem fragmentDefinition_complete (n : Nat) :
    Cmp (fun _ => True) (fragmentDefinition n) LFragment (fun _ => True) (fun _ => True) := by
  rw [fragmentDefinition_eq]
  exact cmp_withNode _ (cmp_fragGuard n)

end Apollo.Parse.Exact
