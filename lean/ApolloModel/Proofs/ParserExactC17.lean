import ApolloModel.Proofs.ParserExactC16
import ApolloModel.Proofs.ParserComplete17
/-
EXACT-BUDGET COPY of ParserComplete17 (namespace Apollo.Parse.Exact, exact `vdepth`).
C05 growth (completeness of the whole Document grammar), part 17: generic rules for the type-system definitions —
descriptions, keyword look-aheads on the token text, `peek_while` item lists in braces / parentheses,
`parse_separated_list`, the flag loop of the schema braces.  The program pieces are builderD's (ParserDef3–15).
-/
set_option linter.unusedSimpArgs false
namespace Apollo.Parse.Exact
open Apollo.Rowan hiding Str
open Apollo.Lex hiding Str

/-! ### small pieces -/

theorem cmp_description : Cmp (fun _ => True) description (fun _ x => ∃ d, x = [.str d]) (fun _ => True) (fun _ => True) := by
  unfold description
  refine cmp_withNode _ (cmp_withNode _ ?_)
  exact (cmp_bump "STRING").mono (fun _ h => h) (by rintro b x ⟨d, rfl⟩; exact ⟨_, rfl⟩) (fun _ h => h) (fun _ h => h)

theorem cmp_nameOrErr : Cmp (fun _ => True) nameOrErr (fun _ x => ∃ n, x = [.name n]) (fun _ => True) (fun _ => True) := by
  unfold nameOrErr
  apply cmp_peek
  intro k _
  apply cmp_ite
  · intro _
    exact cmp_name.mono (fun _ _ => trivial) (fun _ _ h => h) (fun _ h => h) (fun _ h => h)
  · intro hk
    apply cmp_absurd
    rintro b x cc q0 ⟨n, rfl⟩ hs _ hkk
    obtain ⟨t, tl, rfl, hta⟩ := spells_head hs
    simp only [headK] at hkk
    rw [kind_of_astOfV hta] at hkk
    simp [← hkk, kindOfA] at hk

/-- `peek_data` from a queue with head `t` -/
theorem peekData_head (s s' : PState) (od : Option Str) (t : Tok) (tl : List Tok) (w : TW s) (ht : Toks s = t :: tl)
    (h : peekData.run s = .ok od s') : od = some t.data ∧ Eat s s' [] ∧ Toks s' = t :: tl := by
  unfold peekData at h
  obtain ⟨o, sQ, hq2, h3⟩ := bind_dec peekToken _ s s' od h
  obtain ⟨rfl, eP, htP⟩ := peekToken_head s sQ o t tl w ht hq2
  rw [run_pure] at h3
  injection h3 with h3 h4
  subst h3 h4
  exact ⟨rfl, eP, htP⟩

/-- the keyword in front of a definition is there: `if p.peek_data() == Some(word) { p.bump(..) }` -/
theorem cmp_optKwSeen {α : Type} {Hk : Kind → Prop} (word : String) (sk : SK) (rest : PI α)
    {Lr : Nat → List Ast.Tok → Prop} {F : Kind → Prop} {Q : α → Prop}
    (hr : Cmp (fun _ => True) rest Lr F Q) :
    Cmp Hk (optKw word sk rest) (fun b x => ∃ x2, x = .name word.toList :: x2 ∧ Lr b x2) F Q := by
  intro s s' a c x q0 rst w hrun hl hs ht hq hf _
  obtain ⟨x2, rfl, hl2⟩ := hl
  obtain ⟨t, tl, hc, hta⟩ := spells_head hs
  have hd : t.data = word.toList := data_of_astOfV_name hta
  unfold optKw at hrun
  obtain ⟨od, sP, hp, h2⟩ := bind_dec peekData _ s s' a hrun
  obtain ⟨rfl, eP, htP⟩ := peekData_head s sP od t (tl ++ q0 :: rst) w (by rw [ht, hc]; simp) hp
  have hk : kwOpt word (some t.data) = true := by rw [hd]; simp [kwOpt]
  simp only [hk, if_true] at h2
  have hb : sP.recLimit - sP.recCur = s.recLimit - s.recCur := by rw [eP.recLimit, eP.recCur]
  have hcomb := cmp_bind (Hk := fun _ => True) (F := F) (F1 := fun _ => True) (cmp_bump sk) (fun _ _ => hr)
    (fun _ _ _ _ => trivial) (fun _ _ => trivial) (fun _ h => h)
  obtain ⟨e, t2, q⟩ := hcomb sP s' a c _ q0 rst eP.w h2 ⟨[.name word.toList], x2, rfl, ⟨_, rfl⟩, by rw [hb]; exact hl2⟩ hs
    (by rw [htP, hc]; simp) hq hf trivial
  exact ⟨by simpa using eP.trans e, t2, q⟩

/-- `if p.peek_data() == Some(word) { m; restT } else { restF }` when the word is there -/
theorem cmp_optData2_some {α : Type} {Hk : Kind → Prop} (word : String) (m : PI Unit) (restT restF : PI α)
    {Lm Lr : Nat → List Ast.Tok → Prop} {Fm F : Kind → Prop} {Q : α → Prop}
    (hm : Cmp (fun _ => True) m Lm Fm (fun _ => True)) (hT : Cmp (fun _ => True) restT Lr F Q)
    (hmhead : ∀ b x, Lm b x → ∃ x', x = .name word.toList :: x')
    (hrhead : ∀ b a x, Lr b (a :: x) → Fm (kindOfA a)) (hF : ∀ k, F k → Fm k) :
    Cmp Hk (optData2 word m restT restF) (fun b x => ∃ x1 x2, x = x1 ++ x2 ∧ Lm b x1 ∧ Lr b x2) F Q := by
  intro s s' a c x q0 rst w hrun hl hs ht hq hf _
  obtain ⟨x1, x2, rfl, hl1, hl2⟩ := hl
  obtain ⟨x1', rfl⟩ := hmhead _ _ hl1
  obtain ⟨t, tl, hc, hta⟩ := spells_head (x := x1' ++ x2) (by simpa using hs)
  have hd : t.data = word.toList := data_of_astOfV_name hta
  unfold optData2 at hrun
  obtain ⟨od, sP, hp, h2⟩ := bind_dec peekData _ s s' a hrun
  obtain ⟨rfl, eP, htP⟩ := peekData_head s sP od t (tl ++ q0 :: rst) w (by rw [ht, hc]; simp) hp
  have hk : kwOpt word (some t.data) = true := by rw [hd]; simp [kwOpt]
  simp only [hk, if_true] at h2
  have hb : sP.recLimit - sP.recCur = s.recLimit - s.recCur := by rw [eP.recLimit, eP.recCur]
  have hcomb := cmp_bind (Hk := fun _ => True) (F := F) hm (fun _ _ => hT) hrhead hF (fun _ h => h)
  obtain ⟨e, t2, q⟩ := hcomb sP s' a c _ q0 rst eP.w h2 ⟨_, x2, rfl, by rw [hb]; exact hl1, by rw [hb]; exact hl2⟩ hs
    (by rw [htP, hc]; simp) hq hf trivial
  exact ⟨by simpa using eP.trans e, t2, q⟩

/-! ### the head of the next item -/

theorem next_item_head {Li : Nat → List Ast.Tok → Prop} {P : Kind → Prop} {b : Nat}
    (hhead : ∀ b x, Li b x → ∃ a x', x = a :: x' ∧ P (kindOfA a)) (items : List (List Ast.Tok))
    (hall : ∀ i ∈ items, Li b i) (c2 : List Tok) (hs2 : Spells c2 items.flatten) (q0 : Tok) (rest : List Tok) (hq : Sigf q0) :
    ∃ f ftl, c2 ++ q0 :: rest = f :: ftl ∧ Sigf f ∧ ((items = [] ∧ f = q0 ∧ c2 = []) ∨ P f.kind) := by
  cases items with
  | nil =>
    have := spells_nil_inv (by simpa using hs2)
    subst this
    exact ⟨q0, rest, rfl, hq, Or.inl ⟨rfl, rfl, rfl⟩⟩
  | cons i0 is =>
    obtain ⟨a, x', rfl, hp⟩ := hhead _ i0 (hall i0 (by simp))
    obtain ⟨t, tl, rfl, hta⟩ := spells_head (x := x' ++ is.flatten) (by simpa using hs2)
    exact ⟨t, tl ++ q0 :: rest, rfl, sigf_of_astOfV hta, Or.inr (by rw [kind_of_astOfV hta]; exact hp)⟩

/-! ### `peek_while` over items selected by their first token -/

theorem cmp_itemsLoop (p : Kind → Bool) (item : PI Unit) (Li : Nat → List Ast.Tok → Prop) (Fi : Kind → Prop)
    (hitem : Cmp (fun _ => True) item Li Fi (fun _ => True))
    (hhead : ∀ b x, Li b x → ∃ a x', x = a :: x' ∧ p (kindOfA a) = true) (hFp : ∀ k, p k = true → Fi k) :
    ∀ (items : List (List Ast.Tok)) (fuel : Nat) (s s' : PState) (c : List Tok) (q0 : Tok) (rest : List Tok), TW s →
      (peekWhileLoop (itemsBody p item) fuel).run s = .ok () s' → (∀ i ∈ items, Li (s.recLimit - s.recCur) i) →
      Spells c items.flatten → Toks s = c ++ q0 :: rest → Sigf q0 → p q0.kind = false → Fi q0.kind →
      Eat s s' c ∧ Toks s' = q0 :: rest := by
  intro items
  induction items with
  | nil =>
    intro fuel s s' c q0 rest w hr _ hs ht hq hne _
    have := spells_nil_inv (by simpa using hs)
    subst this
    cases fuel with
    | zero => simp [peekWhileLoop, PI.outOfFuel] at hr
    | succ fuel =>
      unfold peekWhileLoop at hr
      obtain ⟨ko, sP, hp, h2⟩ := bind_dec peek _ s s' () hr
      obtain ⟨rfl, eP, htP, _⟩ := peek_head s sP ko q0 rest w (by simpa using ht) hp
      simp only [] at h2
      have h3 := getCurrent_dec _ sP s' () h2
      obtain ⟨b, sB, hb, h4⟩ := bind_dec (itemsBody p item q0.kind) _ sP s' () h3
      unfold itemsBody at hb
      simp only [hne, Bool.false_eq_true, if_false] at hb
      rw [run_pure] at hb
      injection hb with hb1 hb2
      subst hb1 hb2
      simp only [Bool.false_eq_true, if_false] at h4
      rw [run_pure] at h4
      injection h4 with _ h4
      subst h4
      exact ⟨eP, by simpa using htP⟩
  | cons it items ih =>
    intro fuel s s' c q0 rest w hr hall hs ht hq hne hfq
    obtain ⟨a, x', rfl, hka⟩ := hhead _ it (hall it (by simp))
    cases fuel with
    | zero => simp [peekWhileLoop, PI.outOfFuel] at hr
    | succ fuel =>
      obtain ⟨c1, c2, rfl, s1, s2⟩ := spells_split0 (x1 := a :: x') (x2 := items.flatten) (by simpa using hs)
      obtain ⟨t, tl, hc1, hta⟩ := spells_head s1
      obtain ⟨f, ftl, hfol, hsf, hff⟩ := next_item_head (P := fun k => p k = true) hhead items
        (fun i hi => hall i (by simp [hi])) c2 s2 q0 rest hq
      have hFf : Fi f.kind := by
        rcases hff with ⟨_, rfl, _⟩ | h
        · exact hfq
        · exact hFp _ h
      unfold peekWhileLoop at hr
      obtain ⟨ko, sP, hp, h2⟩ := bind_dec peek _ s s' () hr
      obtain ⟨rfl, eP, htP, _⟩ := peek_head s sP ko t (tl ++ c2 ++ q0 :: rest) w (by rw [ht, hc1]; simp) hp
      have hkt : p t.kind = true := by rw [kind_of_astOfV hta]; exact hka
      simp only [] at h2
      have h3 := getCurrent_dec _ sP s' () h2
      obtain ⟨b, sB, hb, h4⟩ := bind_dec (itemsBody p item t.kind) _ sP s' () h3
      unfold itemsBody at hb
      simp only [hkt, if_true] at hb
      obtain ⟨_, sC, hc2, hc3⟩ := bind_dec item _ sP sB b hb
      rw [run_pure] at hc3
      injection hc3 with hb1 hb2
      subst hb1 hb2
      have hbud : sP.recLimit - sP.recCur = s.recLimit - s.recCur := by rw [eP.recLimit, eP.recCur]
      obtain ⟨eB, tB, _⟩ := hitem sP sC () c1 (a :: x') f ftl eP.w hc2 (by rw [hbud]; exact hall _ (by simp)) s1
        (by rw [htP, hc1, ← hfol]; simp) hsf hFf trivial
      simp only [if_true] at h4
      have h5 := getCurrent_dec _ sC s' () h4
      by_cases hsame : (sP.current == sC.current) = true
      · simp only [hsame, if_true] at h5
        exact absurd h5 (stuck_not_ok _ _ _)
      · simp only [hsame, Bool.false_eq_true, if_false] at h5
        have hbud2 : sC.recLimit - sC.recCur = s.recLimit - s.recCur := by rw [eB.recLimit, eB.recCur, hbud]
        obtain ⟨eR, tR⟩ := ih fuel sC s' c2 q0 rest eB.w h5 (fun i hi => by rw [hbud2]; exact hall i (by simp [hi])) s2
          (by rw [tB, hfol]) hq hne hfq
        exact ⟨by simpa using (eP.trans eB).trans eR, tR⟩

/-- `open item+ close` as written in fields / input fields / enum values / arguments definitions -/
theorem cmp_braced (openSk : SK) (first : Option Kind → Bool) (p : Kind → Bool) (item : PI Unit) (closeK : Kind) (closeSk : SK)
    (xo xc : Ast.Tok) (Li : Nat → List Ast.Tok → Prop) (Fi : Kind → Prop)
    (hitem : Cmp (fun _ => True) item Li Fi (fun _ => True))
    (hhead : ∀ b x, Li b x → ∃ a x', x = a :: x' ∧ p (kindOfA a) = true) (hFp : ∀ k, p k = true → Fi k)
    (hfirst : ∀ k, p k = true → first (some k) = true) (hxc : kindOfA xc = closeK) (hpc : p closeK = false) (hFc : Fi closeK) :
    Cmp (fun _ => True) (bracedBody openSk first p item closeK closeSk)
      (fun b x => ∃ i0 ir, (∀ i ∈ i0 :: ir, Li b i) ∧ x = xo :: (i0 ++ (ir.flatten ++ [xc])))
      (fun _ => True) (fun _ => True) := by
  intro s s' u cv x q0 rest w hr hl hs ht hq _ _
  obtain ⟨i0, ir, hall, rfl⟩ := hl
  obtain ⟨t, i, c', rfl, hta, hi, hs'⟩ := spells_cons hs
  obtain ⟨c1, c23, rfl, s1, s23⟩ := spells_split hs' (by simp)
  obtain ⟨c2, c3, rfl, s2, s3⟩ : ∃ c2 c3, c23 = c2 ++ c3 ∧ Spells c2 ir.flatten ∧ Spells c3 [xc] :=
    spells_split s23 (by simp)
  obtain ⟨tb, ib, rfl, htb, hib⟩ := spells_single s3
  obtain ⟨a0, x0, rfl, hka0⟩ := hhead _ i0 (hall i0 (by simp))
  obtain ⟨t1, tl1, hc1, hta1⟩ := spells_head s1
  have hkb : tb.kind = closeK := by rw [kind_of_astOfV htb, hxc]
  obtain ⟨f, ftl, hcf, hsf, hff⟩ := next_item_head (P := fun k => p k = true) hhead ir
    (fun i hi => hall i (by simp [hi])) c2 s2 tb (ib ++ q0 :: rest) (sigf_of_astOfV htb)
  have hFf : Fi f.kind := by
    rcases hff with ⟨_, rfl, _⟩ | h
    · rw [hkb]; exact hFc
    · exact hFp _ h
  unfold bracedBody at hr
  obtain ⟨_, sA, h1, h2⟩ := bind_dec (bump openSk) _ s s' u hr
  have hs1 : Spells (t :: i) [xo] := by
    refine ⟨?_, by intro hd tl e; injection e with e _; subst e; exact sigf_of_astOfV hta⟩
    rw [sig_cons_ignV t i (sigf_of_astOfV hta) hi]
    exact TokIs.single t _ hta
  obtain ⟨e1, tA, _⟩ := cmp_bump openSk s sA () (t :: i) [xo] t1 (tl1 ++ (c2 ++ tb :: ib) ++ q0 :: rest) w h1 ⟨_, rfl⟩ hs1
    (by rw [ht, hc1]; simp) (sigf_of_astOfV hta1) trivial trivial
  obtain ⟨ko, sP, hp, h3⟩ := bind_dec peek _ sA s' u h2
  obtain ⟨rfl, eP, htP, _⟩ := peek_head sA sP ko t1 _ e1.w tA hp
  have hk1 : first (some t1.kind) = true := hfirst _ (by rw [kind_of_astOfV hta1]; exact hka0)
  simp only [hk1, if_true] at h3
  obtain ⟨_, sB, h4, h5⟩ := bind_dec item _ sP s' u h3
  have hbP : sP.recLimit - sP.recCur = s.recLimit - s.recCur := by rw [eP.recLimit, eP.recCur, e1.recLimit, e1.recCur]
  obtain ⟨eB, tB, _⟩ := hitem sP sB () c1 _ f ftl eP.w h4
    (by rw [hbP]; exact hall _ (by simp)) s1 (by rw [htP, hc1]; simp [← hcf]) hsf hFf trivial
  unfold bracedTail at h5
  obtain ⟨_, sC, h6, h7⟩ := bind_dec (peekWhile (itemsBody p item)) _ sB s' u h5
  unfold peekWhile at h6
  obtain ⟨fuel, h8⟩ := srcLen_dec _ sB sC () h6
  have hbB : sB.recLimit - sB.recCur = s.recLimit - s.recCur := by rw [eB.recLimit, eB.recCur, hbP]
  obtain ⟨eC, tC⟩ := cmp_itemsLoop p item Li Fi hitem hhead hFp ir _ sB sC c2 tb (ib ++ q0 :: rest) eB.w h8
    (by rw [hbB]; exact fun i hi => hall i (by simp [hi])) s2
    (by rw [tB, ← hcf]) (sigf_of_astOfV htb) (by rw [hkb]; exact hpc) (by rw [hkb]; exact hFc)
  obtain ⟨eD, tD, _⟩ := cmp_expect closeK closeSk sC s' u (tb :: ib) [xc] q0 rest eC.w h7 ⟨_, rfl, hxc⟩ s3
    (by rw [tC]; simp) hq trivial trivial
  exact ⟨by simpa [List.append_assoc] using (((e1.trans eP).trans eB).trans eC).trans eD, tD, trivial⟩

/-! ### `parse_separated_list` -/

def sepItems (psep : Ast.P) : List Str → List (List Ast.Tok)
  | [] => []
  | r :: rs => [.p psep, .name r] :: sepItems psep rs

theorem sepItems_flatten (psep : Ast.P) : ∀ rs, (sepItems psep rs).flatten = Ast.tSepNames psep rs
  | [] => rfl
  | r :: rs => by simp [sepItems, Ast.tSepNames, sepItems_flatten psep rs]

theorem cmp_sepRest (sep : Kind) (sk : SK) (psep : Ast.P) (run : PI Unit) (P : Str → Prop)
    (hsep : kindOfA (.p psep) = sep)
    (hrun : Cmp (fun _ => True) run (fun _ x => ∃ nm, x = [.name nm] ∧ P nm) (fun _ => True) (fun _ => True)) :
    Cmp (fun _ => True) (sepRest sep sk run)
      (fun _ x => ∃ first rest, x = .name first :: Ast.tSepNames psep rest ∧ P first ∧ ∀ r ∈ rest, P r)
      (fun k => k ≠ sep) (fun _ => True) := by
  intro s s' u c x q0 rst w hr hl hs ht hq hf _
  obtain ⟨first, rest, rfl, hP1, hPr⟩ := hl
  obtain ⟨t, i, c', rfl, hta, hi, hs'⟩ := spells_cons hs
  have hitem : Cmp (fun _ => True) (bump sk >>= fun _ => run) (fun _ x => ∃ nm, x = [.p psep, .name nm] ∧ P nm)
      (fun _ => True) (fun _ => True) := by
    have := cmp_bind (Hk := fun _ => True) (F := fun _ => True) (cmp_bump sk) (fun _ _ => hrun)
      (fun _ _ _ _ => trivial) (fun _ _ => trivial) (fun _ _ => trivial)
    refine this.mono (fun _ h => h) ?_ (fun _ h => h) (fun _ h => h)
    rintro b x ⟨nm, rfl, hp⟩
    exact ⟨[.p psep], [.name nm], rfl, ⟨_, rfl⟩, nm, rfl, hp⟩
  have hall : ∀ it ∈ sepItems psep rest, ∃ nm, it = [.p psep, .name nm] ∧ P nm := by
    clear hs' hs ht
    induction rest with
    | nil => intro it hit; cases hit
    | cons r rs ih =>
      intro it hit
      simp only [sepItems, List.mem_cons] at hit
      rcases hit with rfl | hit
      · exact ⟨r, rfl, hPr r (by simp)⟩
      · exact ih (fun r' hr' => hPr r' (by simp [hr'])) it hit
  obtain ⟨f, ftl, hfol, hsf, _⟩ := next_item_head (Li := fun _ x => ∃ nm, x = [.p psep, .name nm] ∧ P nm)
    (P := fun k => k = sep) (b := 0) (by rintro b x ⟨nm, rfl, _⟩; exact ⟨_, _, rfl, hsep⟩)
    (sepItems psep rest) hall c' (by rw [sepItems_flatten]; exact hs') q0 rst hq
  unfold sepRest at hr
  obtain ⟨_, sA, h1, h2⟩ := bind_dec run _ s s' u hr
  have hs1 : Spells (t :: i) [.name first] := by
    refine ⟨?_, by intro hd tl e; injection e with e _; subst e; exact sigf_of_astOfV hta⟩
    rw [sig_cons_ignV t i (sigf_of_astOfV hta) hi]
    exact TokIs.single t _ hta
  obtain ⟨e1, tA, _⟩ := hrun s sA () (t :: i) _ f ftl w h1 ⟨first, rfl, hP1⟩ hs1 (by rw [ht, ← hfol]; simp) hsf trivial trivial
  unfold peekWhileKind at h2
  obtain ⟨fuel, h3⟩ := srcLen_dec _ sA s' () h2
  obtain ⟨e2, t2⟩ := cmp_kindWhileLoop sep (bump sk >>= fun _ => run) _ (fun _ => True) hitem
    (by rintro b x ⟨nm, rfl, _⟩; exact ⟨_, _, rfl, hsep⟩) trivial (sepItems psep rest) _ sA s' c' q0 rst e1.w h3
    hall (by rw [sepItems_flatten]; exact hs') (by rw [tA, hfol]) hq hf trivial
  exact ⟨by simpa using e1.trans e2, t2, trivial⟩

/-- **`Parser::parse_separated_list`**: `sep? Name (sep Name)*`; the follow token is not the separator -/
theorem cmp_sepList {Hk : Kind → Prop} (sep : Kind) (sk : SK) (psep : Ast.P) (run : PI Unit) (P : Str → Prop)
    (hsep : kindOfA (.p psep) = sep) (hne : sep ≠ .name)
    (hrun : Cmp (fun _ => True) run (fun _ x => ∃ nm, x = [.name nm] ∧ P nm) (fun _ => True) (fun _ => True)) :
    Cmp Hk (parseSeparatedList sep sk run)
      (fun _ x => ∃ lead first rest, x = tSepLead psep lead first rest ∧ P first ∧ ∀ r ∈ rest, P r)
      (fun k => k ≠ sep) (fun _ => True) := by
  rw [parseSeparatedList_eq]
  have := cmp_optKind (Hk := Hk) (F := fun k => k ≠ sep) sep (bump sk) (sepRest sep sk run)
    (Lm := fun _ x => x = [.p psep]) (Fm := fun _ => True)
    ((cmp_bump sk).mono (fun _ h => h) (by rintro b x rfl; exact ⟨_, rfl⟩) (fun _ h => h) (fun _ h => h))
    (cmp_sepRest sep sk psep run P hsep hrun)
    (by rintro b x rfl; exact ⟨_, _, rfl, hsep⟩)
    (by rintro b a x ⟨first, rest, e, _⟩; injection e with e _; subst e; exact ⟨fun h => hne h.symm, trivial⟩)
    (fun k h => ⟨h, trivial, h⟩)
  refine this.mono (fun _ h => h) ?_ (fun _ h => h) (fun _ h => h)
  rintro b x ⟨lead, first, rest, rfl, h1, h2⟩
  cases lead with
  | true => exact ⟨[.p psep], _, by simp [tSepLead], Or.inl rfl, first, rest, rfl, h1, h2⟩
  | false => exact ⟨[], _, by simp [tSepLead], Or.inr rfl, first, rest, rfl, h1, h2⟩

/-! ### the kind loop with a flag (`has_root_operation_types`) -/

theorem cmp_kindWhileFlagLoop (k : Kind) (item : PI Unit) (Li : Nat → List Ast.Tok → Prop) (Fi : Kind → Prop)
    (hitem : Cmp (fun _ => True) item Li Fi (fun _ => True))
    (hhead : ∀ b x, Li b x → ∃ a x', x = a :: x' ∧ kindOfA a = k) (hFk : Fi k) :
    ∀ (items : List (List Ast.Tok)) (fuel : Nat) (flag : Bool) (s s' : PState) (r : Bool) (c : List Tok) (q0 : Tok) (rest : List Tok),
      TW s → (peekWhileKindFlagLoop k item fuel flag).run s = .ok r s' → (∀ i ∈ items, Li (s.recLimit - s.recCur) i) →
      Spells c items.flatten → Toks s = c ++ q0 :: rest → Sigf q0 → q0.kind ≠ k → Fi q0.kind →
      Eat s s' c ∧ Toks s' = q0 :: rest ∧ r = (flag || !items.isEmpty) := by
  intro items
  induction items with
  | nil =>
    intro fuel flag s s' r c q0 rest w hr _ hs ht hq hne _
    have := spells_nil_inv (by simpa using hs)
    subst this
    cases fuel with
    | zero => simp [peekWhileKindFlagLoop, PI.outOfFuel] at hr
    | succ fuel =>
      unfold peekWhileKindFlagLoop at hr
      obtain ⟨ko, sP, hp, h2⟩ := bind_dec peek _ s s' r hr
      obtain ⟨rfl, eP, htP, _⟩ := peek_head s sP ko q0 rest w (by simpa using ht) hp
      have : (q0.kind != k) = true := by simpa using hne
      simp only [this, if_true] at h2
      rw [run_pure] at h2
      injection h2 with h2 h3
      subst h3
      exact ⟨eP, by simpa using htP, by simp [← h2]⟩
  | cons it items ih =>
    intro fuel flag s s' r c q0 rest w hr hall hs ht hq hne hfq
    obtain ⟨a, x', rfl, hka⟩ := hhead _ it (hall it (by simp))
    cases fuel with
    | zero => simp [peekWhileKindFlagLoop, PI.outOfFuel] at hr
    | succ fuel =>
      obtain ⟨c1, c2, rfl, s1, s2⟩ := spells_split0 (x1 := a :: x') (x2 := items.flatten) (by simpa using hs)
      obtain ⟨t, tl, hc1, hta⟩ := spells_head s1
      obtain ⟨f, ftl, hfol, hsf, hff⟩ := next_item_head (P := fun k' => k' = k) hhead items
        (fun i hi => hall i (by simp [hi])) c2 s2 q0 rest hq
      have hFf : Fi f.kind := by
        rcases hff with ⟨_, rfl, _⟩ | h
        · exact hfq
        · rw [h]; exact hFk
      unfold peekWhileKindFlagLoop at hr
      obtain ⟨ko, sP, hp, h2⟩ := bind_dec peek _ s s' r hr
      obtain ⟨rfl, eP, htP, _⟩ := peek_head s sP ko t (tl ++ c2 ++ q0 :: rest) w (by rw [ht, hc1]; simp) hp
      have hkt : t.kind = k := by rw [kind_of_astOfV hta, hka]
      have : (t.kind != k) = false := by simp [hkt]
      simp only [this, Bool.false_eq_true, if_false] at h2
      have h3 := getCurrent_dec _ sP s' r h2
      obtain ⟨_, sB, hb, h4⟩ := bind_dec item _ sP s' r h3
      have h5 := getCurrent_dec _ sB s' r h4
      have hbud : sP.recLimit - sP.recCur = s.recLimit - s.recCur := by rw [eP.recLimit, eP.recCur]
      obtain ⟨eB, tB, _⟩ := hitem sP sB () c1 (a :: x') f ftl eP.w hb (by rw [hbud]; exact hall _ (by simp)) s1
        (by rw [htP, hc1, ← hfol]; simp) hsf hFf trivial
      by_cases hsame : (sP.current == sB.current) = true
      · simp only [hsame, if_true] at h5
        exact absurd h5 (stuck_not_ok _ _ _)
      · simp only [hsame, Bool.false_eq_true, if_false] at h5
        have hbud2 : sB.recLimit - sB.recCur = s.recLimit - s.recCur := by rw [eB.recLimit, eB.recCur, hbud]
        obtain ⟨eR, tR, hrR⟩ := ih fuel true sB s' r c2 q0 rest eB.w h5 (fun i hi => by rw [hbud2]; exact hall i (by simp [hi])) s2
          (by rw [tB, hfol]) hq hne hfq
        exact ⟨by simpa using (eP.trans eB).trans eR, tR, by simp [hrR]⟩

end Apollo.Parse.Exact
