import ApolloModel.Proofs.Strings3
namespace Apollo.Strs

/-- the pieces of a quoted string's body per the spec grammar (StringCharacter) -/
inductive SChar where
  | plain (c : Char)                       -- SourceCharacter but not `"` or `\` or LineTerminator
  | escaped (c2 : Char)                    -- `\` EscapedCharacter
  | unicode (h1 h2 h3 h4 : Char)           -- `\u` EscapedUnicode
  deriving Repr

def SChar.render : SChar → Str
  | .plain c => [c]
  | .escaped c2 => ['\\', c2]
  | .unicode h1 h2 h3 h4 => ['\\', 'u', h1, h2, h3, h4]

/-- the spec's semantic value of one StringCharacter -/
def SChar.value : SChar → Option Char
  | .plain c => some c
  | .escaped c2 =>   -- table of §2.9.4
    if c2 == '"' then some '"' else if c2 == '\\' then some '\\' else if c2 == '/' then some '/'
    else if c2 == 'b' then some (Char.ofNat 8) else if c2 == 'f' then some (Char.ofNat 12)
    else if c2 == 'n' then some (Char.ofNat 10) else if c2 == 'r' then some (Char.ofNat 13)
    else if c2 == 't' then some (Char.ofNat 9) else none
  | .unicode h1 h2 h3 h4 =>
    match hexDigit? h1, hexDigit? h2, hexDigit? h3, hexDigit? h4 with
    | some a, some b, some c, some d =>
      let v := ((a * 16 + b) * 16 + c) * 16 + d
      if 0xD800 ≤ v && v ≤ 0xDFFF then none else some (Char.ofNat v)   -- surrogates: documented exception
    | _, _, _, _ => none

def SChar.valid : SChar → Bool
  | .plain c => c != '\\' && c != '"' && c != '\n' && c != '\r'
  | s => s.value.isSome

theorem escapedChar_eq_value (c2 : Char) : escapedChar? c2 = (SChar.escaped c2).value := by
  unfold escapedChar? SChar.value
  by_cases h1 : c2 = '"'
  · subst h1; rfl
  · by_cases h2 : c2 = '\\'
    · subst h2; rfl
    · by_cases h3 : c2 = '/'
      · subst h3; rfl
      · simp [h1, h2, h3]

theorem hexDigit_lt {c : Char} {d : Nat} (h : hexDigit? c = some d) : d < 16 := by
  unfold hexDigit? at h
  by_cases h1 : (48 ≤ c.toNat && c.toNat ≤ 57) = true
  · simp only [h1, if_true, Option.some.injEq] at h
    simp only [Bool.and_eq_true, decide_eq_true_eq] at h1
    omega
  · simp only [h1, Bool.false_eq_true, if_false] at h
    by_cases h2 : (97 ≤ c.toNat && c.toNat ≤ 102) = true
    · simp only [h2, if_true, Option.some.injEq] at h
      simp only [Bool.and_eq_true, decide_eq_true_eq] at h2
      omega
    · simp only [h2, Bool.false_eq_true, if_false] at h
      by_cases h3 : (65 ≤ c.toNat && c.toNat ≤ 70) = true
      · simp only [h3, if_true, Option.some.injEq] at h
        simp only [Bool.and_eq_true, decide_eq_true_eq] at h3
        omega
      · simp [h3] at h

/-- one StringCharacter decodes to its semantic value, whatever follows -/
theorem unescape_schar (fuel : Nat) (x : SChar) (ch : Char) (rest : Str) (hv : x.valid = true)
    (hval : x.value = some ch) :
    unescapeStringAux (fuel + 1) (x.render ++ rest) = (unescapeStringAux fuel rest).map (ch :: ·) := by
  cases x with
  | plain c =>
    simp only [SChar.valid, Bool.and_eq_true, bne_iff_ne] at hv
    simp only [SChar.value, Option.some.injEq] at hval
    subst hval
    simpa [SChar.render] using unescape_plain fuel c rest hv.1.1.1
  | escaped c2 =>
    have hne : c2 ≠ 'u' := by
      intro e; subst e; simp [SChar.value] at hval
    simp only [SChar.render, List.cons_append, List.nil_append]
    rw [unescape_esc fuel c2 rest hne, escapedChar_eq_value, hval]
  | unicode h1 h2 h3 h4 =>
    simp only [SChar.render, List.cons_append, List.nil_append]
    rw [unescape_u]
    simp only [SChar.value] at hval
    cases ha : hexDigit? h1 with
    | none => simp [ha] at hval
    | some a =>
      cases hb : hexDigit? h2 with
      | none => simp [ha, hb] at hval
      | some b =>
        cases hc : hexDigit? h3 with
        | none => simp [ha, hb, hc] at hval
        | some c =>
          cases hd : hexDigit? h4 with
          | none => simp [ha, hb, hc, hd] at hval
          | some d =>
            simp only [ha, hb, hc, hd] at hval
            have hf : hexFold (List.take 4 (h1 :: h2 :: h3 :: h4 :: rest)) = some (((a * 16 + b) * 16 + c) * 16 + d) := by
              simp [List.take, hexFold, List.foldl, ha, hb, hc, hd]
            simp only [hf]
            have := hexDigit_lt ha; have := hexDigit_lt hb; have := hexDigit_lt hc; have := hexDigit_lt hd
            by_cases hs : (0xD800 ≤ ((a * 16 + b) * 16 + c) * 16 + d && ((a * 16 + b) * 16 + c) * 16 + d ≤ 0xDFFF) = true
            · simp [hs] at hval
            · simp only [hs, Bool.false_eq_true, if_false, Option.some.injEq] at hval
              subst hval
              have hlt : ((a * 16 + b) * 16 + c) * 16 + d < 0x110000 := by omega
              simp [charFromU32?, hs, hlt]

def renderAll (items : List SChar) : Str := items.flatMap SChar.render

def valuesAll : List SChar → Option Str
  | [] => some []
  | x :: xs => match x.value, valuesAll xs with
    | some c, some cs => some (c :: cs)
    | _, _ => none

theorem render_length_pos (x : SChar) : 0 < x.render.length := by cases x <;> simp [SChar.render]

theorem unescape_items : ∀ (items : List SChar) (fuel : Nat), items.length < fuel →
    (∀ x ∈ items, x.valid = true) → unescapeStringAux fuel (renderAll items) = valuesAll items
  | [], fuel, h, _ => by
    cases fuel with
    | zero => omega
    | succ f => simp [renderAll, unescapeStringAux, valuesAll]
  | x :: xs, fuel, h, hv => by
    cases fuel with
    | zero => omega
    | succ f =>
      have hx := hv x (by simp)
      have ih := unescape_items xs f (by simp only [List.length_cons] at h; omega) (fun y hy => hv y (by simp [hy]))
      cases hval : x.value with
      | none =>
        cases x with
        | plain c => simp [SChar.value] at hval
        | escaped c2 => simp [SChar.valid, hval] at hx
        | unicode a b c d => simp [SChar.valid, hval] at hx
      | some ch =>
        simp only [renderAll, List.flatMap_cons, valuesAll, hval]
        rw [unescape_schar f x ch _ hx hval]
        have : unescapeStringAux f (xs.flatMap SChar.render) = valuesAll xs := ih
        rw [this]
        cases valuesAll xs <;> rfl

/-- **C06, quoted strings** — for every sequence of valid StringCharacters, `unescape_string` of the
    rendered body is the sequence of their semantic values (escape table, `\uXXXX`), and it does
    not panic. -/
theorem unescape_string_spec (items : List SChar) (hv : ∀ x ∈ items, x.valid = true) :
    unescapeString (renderAll items) = valuesAll items := by
  unfold unescapeString
  apply unescape_items items _ _ hv
  have : items.length ≤ (renderAll items).length := by
    unfold renderAll
    induction items with
    | nil => simp
    | cons x xs ih =>
      have := render_length_pos x
      have := ih (fun y hy => hv y (by simp [hy]))
      simp only [List.flatMap_cons, List.length_append, List.length_cons]
      omega
  omega

theorem valuesAll_isSome (items : List SChar) (hv : ∀ x ∈ items, x.valid = true) : (valuesAll items).isSome = true := by
  induction items with
  | nil => rfl
  | cons x xs ih =>
    have hx := hv x (by simp)
    have := ih (fun y hy => hv y (by simp [hy]))
    cases hval : x.value with
    | none => cases x <;> simp_all [SChar.valid, SChar.value]
    | some c =>
      simp only [valuesAll, hval]
      cases hxs : valuesAll xs with
      | none => simp [hxs] at this
      | some cs => rfl

end Apollo.Strs
