import ApolloModel.Proofs.ParserType7
/-
C07 / C05 growth (type entry point), part 8: the completeness induction.
-/
set_option linter.unusedSimpArgs false
namespace Apollo.Parse
open Apollo.Rowan hiding Str
open Apollo.Lex hiding Str

def TyComp (n : Nat) : Prop :=
  ∀ s s' r t c q0 rest, TW s → (tyParse n).run s = .ok r s' → Spell t c → Toks s = c ++ q0 :: rest → Sigf q0 →
    NoBangAfter t q0 → s.recCur + tyDepth t ≤ s.recLimit →
    r = TyRes.ok ∧ Eat s s' c ∧ Toks s' = q0 :: rest ∧ s'.current = some q0

theorem spellB_head {u : Ast.Ty} {c : List Tok} (h : SpellB u c) : ∃ hd tl, c = hd :: tl ∧ Sigf hd := by
  cases h with
  | named t i hk _ => exact ⟨t, i, rfl, by unfold Sigf; rw [hk]; rfl⟩
  | list lb rb i1 i2 cu u hk _ _ _ _ => exact ⟨lb, i1 ++ cu ++ rb :: i2, by simp, by unfold Sigf; rw [hk]; rfl⟩

theorem spell_head {u : Ast.Ty} {c : List Tok} (h : Spell u c) : ∃ hd tl, c = hd :: tl ∧ Sigf hd := by
  cases h with
  | base u c hb => exact spellB_head hb
  | bangNamed n c b i hb _ _ =>
    obtain ⟨hd, tl, rfl, hs⟩ := spellB_head hb
    exact ⟨hd, tl ++ b :: i, by simp, hs⟩
  | bangList u c b i hb _ _ =>
    obtain ⟨hd, tl, rfl, hs⟩ := spellB_head hb
    exact ⟨hd, tl ++ b :: i, by simp, hs⟩

theorem tyBody_comp (n : Nat) (ih : TyComp n) (s s' : PState) (r : TyRes) (u : Ast.Ty) (cb : List Tok) (q : Tok)
    (rest : List Tok) (w : TW s) (h : (tyBody n).run s = .ok r s') (hsb : SpellB u cb)
    (ht : Toks s = cb ++ q :: rest) (hq : Sigf q) (hrec : s.recCur + tyDepth u ≤ s.recLimit) :
    r = TyRes.ok ∧ ∃ cb' it, cb = cb' ++ it ∧ Ign it ∧ Eat s s' cb' ∧ Toks s' = it ++ q :: rest := by
  unfold tyBody at h
  obtain ⟨k, sP, hp, h2⟩ := bind_dec peek _ s s' r h
  cases hsb with
  | named t i hk hi =>
    have ht' : Toks s = t :: (i ++ q :: rest) := by rw [ht]; simp
    obtain ⟨hkk, eP, htP, _⟩ := peek_head s sP k t _ w ht' hp
    subst hkk
    simp only [hk] at h2
    obtain ⟨hr, e⟩ := nameBranch_sound sP s' r t _ eP.w htP hk h2
    refine ⟨hr, [t], i, rfl, hi, by simpa using eP.trans e, ?_⟩
    have := e.toks
    rw [htP] at this
    simpa using this.symm
  | list lb rb i1 i2 cu u' hkl hi1 hsu hkr hi2 =>
    have ht' : Toks s = lb :: (i1 ++ cu ++ rb :: i2 ++ q :: rest) := by rw [ht]; simp
    obtain ⟨hkk, eP, htP, _⟩ := peek_head s sP k lb _ w ht' hp
    subst hkk
    simp only [hkl] at h2
    have hnil : isIgnoredKind lb.kind = false := by rw [hkl]; rfl
    obtain ⟨s1, s2, e1, h1, o2⟩ := withNode_peeked _ _ sP s' r lb _ eP.w htP hnil h2
    have ht1 : Toks s1 = lb :: (i1 ++ cu ++ rb :: i2 ++ q :: rest) := by
      have := e1.toks; rw [htP] at this; simpa using this.symm
    unfold tyListBody at h1
    obtain ⟨_, s3, h3, h4⟩ := bind_dec (bump "L_BRACK") _ s1 s2 r h1
    unfold bump at h3
    obtain ⟨_, s3a, h3a, h3b⟩ := bind_dec (eat "L_BRACK") _ s1 s3 () h3
    obtain ⟨ea, hta⟩ := eat_head "L_BRACK" s1 s3a lb _ e1.w ht1 h3a
    obtain ⟨hd, tl, hcu, hsd⟩ := spell_head hsu
    have hta' : Toks s3a = i1 ++ hd :: (tl ++ rb :: i2 ++ q :: rest) := by rw [hta, hcu]; simp
    obtain ⟨es, ht3, _⟩ := skip_exact s3a s3 i1 hd _ ea.w h3b hta' hi1 hsd
    have e03 : Eat s s3 (lb :: i1) := by simpa using ((eP.trans e1).trans ea).trans es
    have ht3' : Toks s3 = cu ++ rb :: (i2 ++ q :: rest) := by rw [ht3, hcu]; simp
    -- recursion guard
    obtain ⟨inner, s4, h5, h6⟩ := bind_dec _ _ s3 s2 r h4
    rcases withRec_dec _ _ s3 s4 inner h5 with ⟨hlim, _⟩ | ⟨_, sr1, sr2, c1, l1, er1, a1, r1, rl1, hr, c2, l2, er2, a2, r2, rl2⟩
    · exfalso
      rw [e03.recCur, e03.recLimit] at hlim
      simp only [tyDepth] at hrec
      omega
    · have wr1 : TW sr1 := w_same _ _ e03.w er1 l1 a1
      obtain ⟨res, sr2', hr1, hr2⟩ := bind_dec (tyParse n) _ sr1 sr2 inner hr
      rw [run_pure] at hr2
      injection hr2 with hin hs
      subst hs hin
      have htr1 : Toks sr1 = cu ++ rb :: (i2 ++ q :: rest) := by unfold Toks; rw [c1, l1]; exact ht3'
      have hsr : Sigf rb := by unfold Sigf; rw [hkr]; rfl
      have hnb : NoBangAfter u' rb := by
        unfold NoBangAfter
        cases u' <;> simp [hkr]
      have hrec' : sr1.recCur + tyDepth u' ≤ sr1.recLimit := by
        rw [r1, rl1, e03.recCur, e03.recLimit]
        simp only [tyDepth] at hrec
        omega
      obtain ⟨hres, ei, hti, hci⟩ := ih sr1 sr2' res u' cu rb _ wr1 hr1 hsu htr1 hsr hnb hrec'
      subst hres
      simp only [] at h6
      have w4 : TW s4 := w_same _ _ ei.w er2 l2 a2
      have ht4 : Toks s4 = rb :: i2 ++ q :: rest := by unfold Toks; rw [c2, l2]; exact hti
      obtain ⟨_, s5, h7, h8⟩ := bind_dec (expect .rBracket "R_BRACK") _ s4 s2 r h6
      rw [run_pure] at h8
      injection h8 with h8 h9
      subst h9
      obtain ⟨ee, ht5, _⟩ := expect_match .rBracket "R_BRACK" s4 s5 rb q i2 rest w4 ht4 hkr hi2 hq h7
      refine ⟨h8.symm, lb :: i1 ++ cu ++ rb :: i2, [], ?_, ?_, ?_, ?_⟩
      · simp
      · intro x hx; cases hx
      · -- glue the pieces: s →(lb :: i1) s3 ≈ sr1 →cu sr2' ≈ s4 →(rb :: i2) s5 ≈ s'
        refine ⟨?_, ?_, o2.w ee.w, ?_, ?_, ?_⟩
        · rw [ht, o2.toks, ht5]
        · rw [o2.doomed, ee.doom, doomed_same _ _ er2 l2, ei.doom, doomed_same _ _ er1 l1, e03.doom]
        · rw [o2.accept, ee.accept, a2, ei.accept, a1, e03.accept]
        · rw [o2.recCur, ee.recCur, r2, ei.recCur, r1, e03.recCur]; omega
        · rw [o2.recLimit, ee.recLimit, rl2, ei.recLimit, rl1, e03.recLimit]
      · rw [o2.toks, ht5]; rfl

/-- `ty.rs::parse` on a queue that starts with a type without `!` (`cb`), followed by `pre` = nothing (and then
    no `!`) or `!` and ignored tokens, followed by the significant token `q0` -/
theorem tyParse_comp_step (n : Nat) (ih : TyComp n) (s s' : PState) (r : TyRes) (u : Ast.Ty) (cb pre : List Tok)
    (q0 : Tok) (rest : List Tok) (w : TW s) (h : (tyParse (n + 1)).run s = .ok r s') (hsb : SpellB u cb)
    (ht : Toks s = cb ++ pre ++ q0 :: rest) (hq : Sigf q0) (hrec : s.recCur + tyDepth u ≤ s.recLimit)
    (hpre : (pre = [] ∧ q0.kind ≠ .bang) ∨ (∃ b i, pre = b :: i ∧ b.kind = .bang ∧ Ign i)) :
    r = TyRes.ok ∧ Eat s s' (cb ++ pre) ∧ Toks s' = q0 :: rest ∧ s'.current = some q0 := by
  rw [tyParse_succ] at h
  obtain ⟨r0, sW, hw, h2⟩ := bind_dec _ _ s s' r h
  obtain ⟨s1, s2, s3, c, o1, hb, hc, hrest⟩ := wrapIf_dec _ _ _ _ s sW r0 hw
  have w1 := o1.w w
  -- the first significant token behind `cb`
  obtain ⟨x0, xt, hx, hsx, hxb⟩ : ∃ x0 xt, pre ++ q0 :: rest = x0 :: xt ∧ Sigf x0 ∧ (x0.kind = .bang ↔ pre ≠ []) := by
    rcases hpre with ⟨rfl, hnb⟩ | ⟨b, i, rfl, hkb, _⟩
    · exact ⟨q0, rest, rfl, hq, by simp [hnb]⟩
    · exact ⟨b, i ++ q0 :: rest, by simp, by unfold Sigf; rw [hkb]; rfl, by simp [hkb]⟩
  have ht1 : Toks s1 = cb ++ x0 :: xt := by rw [o1.toks, ht, List.append_assoc, hx]
  obtain ⟨hr0, cb', it, hcb, hit, eb, ht2⟩ := tyBody_comp n ih s1 s2 r0 u cb x0 xt w1 hb hsb ht1 hsx
    (by rw [o1.recCur, o1.recLimit]; exact hrec)
  subst hr0
  -- condition: skip_ignored, peek == `!`
  have hc' : (skipIgnored >>= fun _ => peek >>= fun k => (pure (k == some .bang) : PI Bool)).run s2 = .ok c s3 := hc
  obtain ⟨_, sA, hsA, hc2⟩ := bind_dec skipIgnored _ s2 s3 c hc'
  obtain ⟨eA, htA, _⟩ := skip_exact s2 sA it x0 xt eb.w hsA ht2 hit hsx
  obtain ⟨kk, sP, hpk, hc3⟩ := bind_dec peek _ sA s3 c hc2
  rw [run_pure] at hc3
  injection hc3 with hc3 hc4
  subst hc4
  obtain ⟨hkk, eP, htP, _⟩ := peek_head sA sP kk x0 xt eA.w htA hpk
  subst hkk
  have e0P : Eat s sP cb := by
    have := (((Eat.ofObsEq o1 w).trans eb).trans eA).trans eP
    simpa [← hcb] using this
  -- the tail after the wrap
  simp only [] at h2
  obtain ⟨_, sF, hf, h3⟩ := bind_dec skipIgnored _ sW s' r h2
  rw [run_pure] at h3
  injection h3 with h3 h4
  subst h4
  refine ⟨h3.symm, ?_⟩
  rcases hpre with ⟨rfl, hnb⟩ | ⟨b, i, rfl, hkb, hi⟩
  · -- no `!`
    simp only [List.nil_append, List.cons.injEq] at hx
    obtain ⟨rfl, rfl⟩ := hx
    have hcf : c = false := by rw [← hc3]; simp [hnb]
    rcases hrest with ⟨_, rfl⟩ | ⟨hct, _⟩
    · obtain ⟨eF, htF, hcF⟩ := skip_exact _ sF [] q0 rest eP.w hf (by simpa using htP) (by intro x hx; cases hx) hq
      exact ⟨by simpa using e0P.trans eF, htF, hcF⟩
    · rw [hcf] at hct; cases hct
  · -- `!`
    simp only [List.cons_append, List.cons.injEq] at hx
    obtain ⟨rfl, rfl⟩ := hx
    have hct : c = true := by rw [← hc3]; simp [hkb]
    rcases hrest with ⟨hcf, _⟩ | ⟨_, s4, s5, o4, hi4, o5⟩
    · rw [hct] at hcf; cases hcf
    · have w4 : TW s4 := o4.w eP.w
      obtain ⟨e45, ht5⟩ := eat_head "BANG" s4 s5 b (i ++ q0 :: rest) w4 (by rw [o4.toks]; exact htP) hi4
      have wW : TW sW := o5.w e45.w
      obtain ⟨eF, htF, hcF⟩ := skip_exact sW sF i q0 rest wW hf (by rw [o5.toks]; exact ht5) hi hq
      refine ⟨?_, htF, hcF⟩
      have := ((((e0P.trans (Eat.ofObsEq o4 eP.w)).trans e45).trans (Eat.ofObsEq o5 e45.w)).trans eF)
      simpa using this

theorem tyParse_comp : ∀ (n : Nat), TyComp n
  | 0 => by intro s s' r t c q0 rest _ h; simp [tyParse, PI.outOfFuel] at h
  | n + 1 => by
    intro s s' r t c q0 rest w h hsp ht hq hnb hrec
    cases hsp with
    | base u c hb =>
      have hnb' : q0.kind ≠ .bang := by
        cases hb <;> simpa [NoBangAfter] using hnb
      have := tyParse_comp_step n (tyParse_comp n) s s' r t c [] q0 rest w h hb (by simpa using ht) hq hrec (Or.inl ⟨rfl, hnb'⟩)
      simpa using this
    | bangNamed nm cb b i hb hkb hi =>
      have := tyParse_comp_step n (tyParse_comp n) s s' r (.named nm) cb (b :: i) q0 rest w h hb
        (by simp [ht]) hq (by simpa [tyDepth] using hrec) (Or.inr ⟨b, i, rfl, hkb, hi⟩)
      exact this
    | bangList u cb b i hb hkb hi =>
      have := tyParse_comp_step n (tyParse_comp n) s s' r (.list u) cb (b :: i) q0 rest w h hb
        (by simp [ht]) hq (by simpa [tyDepth] using hrec) (Or.inr ⟨b, i, rfl, hkb, hi⟩)
      exact this

end Apollo.Parse
