import ApolloModel.Proofs.ParserComplete18
/-
C05 growth (completeness of the whole Document grammar), part 19: a completeness judgement whose follow condition
may look at the TEXT of the follow token (`CmpT`) — needed where the parser does (`implements` after the name of an
object / interface type) — and the shape `Description? keyword Name tail` of the type-system definitions.
-/
set_option linter.unusedSimpArgs false
namespace Apollo.Parse
open Apollo.Rowan hiding Str
open Apollo.Lex hiding Str

/-- like `Cmp`, the follow condition being a predicate on the follow TOKEN, and the queue satisfying the lexer fact
    `LexQ` (a token whose text starts like a name is a Name token) -/
def CmpT {α : Type} (Hk : Kind → Prop) (m : PI α) (L : Nat → List Ast.Tok → Prop) (FT : Tok → Prop) (Q : α → Prop) : Prop :=
  ∀ (s s' : PState) (a : α) (c : List Tok) (x : List Ast.Tok) (q0 : Tok) (rest : List Tok), TW s → LexQ (Toks s) →
    m.run s = .ok a s' →
    L (s.recLimit - s.recCur) x → Spells c x → Toks s = c ++ q0 :: rest → Sigf q0 → FT q0 → Hk (headK c q0) →
    Eat s s' c ∧ Toks s' = q0 :: rest ∧ Q a

theorem Cmp.toT {α : Type} {Hk : Kind → Prop} {m : PI α} {L : Nat → List Ast.Tok → Prop} {F : Kind → Prop} {Q : α → Prop}
    (h : Cmp Hk m L F Q) : CmpT Hk m L (fun t => F t.kind) Q :=
  fun s s' a c x q0 rest w _ hr hl hs ht hq hf hk => h s s' a c x q0 rest w hr hl hs ht hq hf hk

theorem CmpT.mono {α : Type} {Hk Hk' : Kind → Prop} {m : PI α} {L L' : Nat → List Ast.Tok → Prop} {F F' : Tok → Prop} {Q Q' : α → Prop}
    (h : CmpT Hk m L F Q) (hH : ∀ k, Hk' k → Hk k) (hL : ∀ b x, L' b x → L b x) (hF : ∀ t, F' t → F t) (hQ : ∀ a, Q a → Q' a) :
    CmpT Hk' m L' F' Q' := by
  intro s s' a c x q0 rest w lq hr hl hs ht hq hf hk
  obtain ⟨e, t, q⟩ := h s s' a c x q0 rest w lq hr (hL _ _ hl) hs ht hq (hF _ hf) (hH _ hk)
  exact ⟨e, t, hQ a q⟩

theorem cmpT_withNode {α : Type} {Hk : Kind → Prop} (K : SK) {body : PI α} {L : Nat → List Ast.Tok → Prop} {F : Tok → Prop} {Q : α → Prop}
    (h : CmpT Hk body L F Q) : CmpT Hk (withNode K body) L F Q := by
  intro s s' a c x q0 rest w lq hr hl hs ht hq hf hk
  obtain ⟨t, tl, htt, hkt⟩ := headK_toks c q0 rest
  have hst : Sigf t := by
    cases c with
    | nil => simp at htt; rw [← htt.1]; exact hq
    | cons u v => simp at htt; rw [← htt.1]; exact hs.2 u v rfl
  obtain ⟨s1, s2, e1, h1, o2⟩ := withNode_peeked K body s s' a t tl w (by rw [ht]; exact htt) hst hr
  have ht1 : Toks s1 = c ++ q0 :: rest := by have := e1.toks; rw [ht] at this; simpa using this.symm
  have hb : s1.recLimit - s1.recCur = s.recLimit - s.recCur := by rw [e1.recLimit, e1.recCur]
  obtain ⟨e, t2, q⟩ := h s1 s2 a c x q0 rest e1.w (by rw [ht1, ← ht]; exact lq) h1 (by rw [hb]; exact hl) hs ht1 hq hf hk
  exact ⟨by simpa using (e1.trans e).trans (Eat.ofObsEq o2 e.w), by rw [o2.toks]; exact t2, q⟩

/-- sequencing after a part that may be followed by anything -/
theorem cmpT_bindK {α β : Type} {Hk : Kind → Prop} {m : PI α} {f : α → PI β} {L1 L2 : Nat → List Ast.Tok → Prop}
    {F : Tok → Prop} {Q1 : α → Prop} {Q : β → Prop}
    (h1 : Cmp Hk m L1 (fun _ => True) Q1) (h2 : ∀ a, Q1 a → CmpT (fun _ => True) (f a) L2 F Q) :
    CmpT Hk (m >>= f) (fun b x => ∃ x1 x2, x = x1 ++ x2 ∧ L1 b x1 ∧ L2 b x2) F Q := by
  intro s s'' b c x q0 rest w lq hr hl hs ht hq hf hk
  obtain ⟨x1, x2, rfl, hl1, hl2⟩ := hl
  obtain ⟨a, s', hr1, hr2⟩ := bind_dec m f s s'' b hr
  obtain ⟨c1, c2, rfl, s1, s2⟩ := spells_split0 hs
  obtain ⟨t, tl, hc2, hst⟩ : ∃ t tl, c2 ++ q0 :: rest = t :: tl ∧ Sigf t := by
    cases c2 with
    | nil => exact ⟨q0, rest, rfl, hq⟩
    | cons u v => exact ⟨u, v ++ q0 :: rest, rfl, s2.2 u v rfl⟩
  have hkc : headK (c1 ++ c2) q0 = headK c1 t := by
    cases c1 with
    | nil =>
      cases c2 with
      | nil => simp at hc2; simp [headK, hc2.1]
      | cons u v => simp at hc2; simp [headK, hc2.1]
    | cons u v => rfl
  obtain ⟨e1, t1, q1⟩ := h1 s s' a c1 x1 t tl w hr1 hl1 s1 (by rw [ht, ← hc2]; simp) hst trivial (by rw [← hkc]; exact hk)
  have hb : s'.recLimit - s'.recCur = s.recLimit - s.recCur := by rw [e1.recLimit, e1.recCur]
  have lq' : LexQ (Toks s') := by have := e1.toks; rw [this] at lq; exact lq.suffix
  obtain ⟨e2, t2, q2⟩ := h2 a q1 s' s'' b c2 x2 q0 rest e1.w lq' hr2 (by rw [hb]; exact hl2) s2 (by rw [t1, hc2]) hq hf trivial
  exact ⟨e1.trans e2, t2, q2⟩

/-- `Description? rest` -/
theorem cmpT_optDesc {α : Type} {Hk : Kind → Prop} (rest : PI α) {Lr : Nat → List Ast.Tok → Prop} {F : Tok → Prop} {Q : α → Prop}
    (hr : CmpT (fun _ => True) rest Lr F Q) (hrhead : ∀ b a x, Lr b (a :: x) → kindOfA a ≠ .stringValue)
    (hne : ∀ b, ¬ Lr b []) :
    CmpT Hk (optKind .stringValue description rest)
      (fun b x => ∃ desc x2, x = Ast.tDescription desc ++ x2 ∧ Lr b x2) F Q := by
  intro s s' a c x q0 rst w lq hrun hl hs ht hq hf _
  obtain ⟨desc, x2, rfl, hl2⟩ := hl
  unfold optKind at hrun
  obtain ⟨ko, sP, hp, h2⟩ := bind_dec peek _ s s' a hrun
  obtain ⟨t, tl, htt, hkt⟩ := headK_toks c q0 rst
  obtain ⟨hko, eP, htP, _⟩ := peek_head s sP ko t tl w (by rw [ht]; exact htt) hp
  subst hko
  have hb : sP.recLimit - sP.recCur = s.recLimit - s.recCur := by rw [eP.recLimit, eP.recCur]
  have hTP : Toks sP = c ++ q0 :: rst := by rw [htP, ← htt]
  have lqP : LexQ (Toks sP) := by rw [hTP, ← ht]; exact lq
  cases desc with
  | some d =>
    obtain ⟨t1, tl1, hc, hta⟩ := spells_head (a := .str d) (x := x2) (by simpa [Ast.tDescription] using hs)
    have hkk : t.kind = .stringValue := by
      rw [hkt, hc]; simp only [headK]; rw [kind_of_astOfV hta]; rfl
    simp only [hkk, beq_self_eq_true, if_true] at h2
    have hcomb := cmpT_bindK (Hk := fun _ => True) (F := F) cmp_description (fun _ _ => hr)
    obtain ⟨e, t2, q⟩ := hcomb sP s' a c _ q0 rst eP.w lqP h2 ⟨[.str d], x2, rfl, ⟨d, rfl⟩, by rw [hb]; exact hl2⟩
      (by simpa [Ast.tDescription] using hs) hTP hq hf trivial
    exact ⟨by simpa using eP.trans e, t2, q⟩
  | none =>
    simp only [Ast.tDescription, List.nil_append] at hs
    cases x2 with
    | nil => exact absurd hl2 (hne _)
    | cons a2 x2' =>
      obtain ⟨t1, tl1, hc, hta⟩ := spells_head hs
      have hkk : (some t.kind == some Kind.stringValue) = false := by
        have : t.kind ≠ .stringValue := by
          rw [hkt, hc]; simp only [headK]; rw [kind_of_astOfV hta]
          exact hrhead _ _ _ hl2
        simpa using this
      simp only [hkk, Bool.false_eq_true, if_false] at h2
      obtain ⟨e, t2, q⟩ := hr sP s' a c _ q0 rst eP.w lqP h2 (by rw [hb]; exact hl2) hs hTP hq hf trivial
      exact ⟨by simpa using eP.trans e, t2, q⟩

/-- the keyword in front of a definition -/
theorem cmpT_optKwSeen {α : Type} {Hk : Kind → Prop} (word : String) (sk : SK) (rest : PI α)
    {Lr : Nat → List Ast.Tok → Prop} {F : Tok → Prop} {Q : α → Prop}
    (hr : CmpT (fun _ => True) rest Lr F Q) :
    CmpT Hk (optKw word sk rest) (fun b x => ∃ x2, x = .name word.toList :: x2 ∧ Lr b x2) F Q := by
  intro s s' a c x q0 rst w lq hrun hl hs ht hq hf _
  obtain ⟨x2, rfl, hl2⟩ := hl
  obtain ⟨t, tl, hc, hta⟩ := spells_head hs
  have hd : t.data = word.toList := data_of_astOfV_name hta
  unfold optKw at hrun
  obtain ⟨od, sP, hp, h2⟩ := bind_dec peekData _ s s' a hrun
  obtain ⟨rfl, eP, htP⟩ := peekData_head s sP od t (tl ++ q0 :: rst) w (by rw [ht, hc]; simp) hp
  have hk : kwOpt word (some t.data) = true := by rw [hd]; simp [kwOpt]
  simp only [hk, if_true] at h2
  have hb : sP.recLimit - sP.recCur = s.recLimit - s.recCur := by rw [eP.recLimit, eP.recCur]
  have hcomb := cmpT_bindK (Hk := fun _ => True) (F := F) (cmp_bump sk) (fun _ _ => hr)
  obtain ⟨e, t2, q⟩ := hcomb sP s' a c _ q0 rst eP.w (by rw [htP]; rw [ht, hc] at lq; simpa using lq) h2
    ⟨[.name word.toList], x2, rfl, ⟨_, rfl⟩, by rw [hb]; exact hl2⟩ hs
    (by rw [htP, hc]; simp) hq hf trivial
  exact ⟨by simpa using eP.trans e, t2, q⟩

/-- **the common shape** `Description? keyword Name tail` -/
theorem cmpT_defShape {Hk : Kind → Prop} (word : String) (sk : SK) (n : Nat) (tail : PI Unit)
    {Lt : Nat → List Ast.Tok → Prop} {F : Tok → Prop}
    (ht : CmpT (fun _ => True) tail Lt F (fun _ => True)) :
    CmpT Hk (defShape word sk n tail)
      (fun b x => ∃ desc nm x2, x = Ast.tDescription desc ++ .name word.toList :: .name nm :: x2 ∧ Lt b x2) F (fun _ => True) := by
  unfold defShape
  have h1 := cmpT_bindK (Hk := fun _ => True) (F := F) cmp_nameOrErr (fun _ _ => ht)
  have h2 := cmpT_optKwSeen (Hk := fun _ => True) word sk _ h1
  have h3 := cmpT_optDesc (Hk := Hk) _ h2
    (by rintro b a x ⟨x2, e, _⟩; injection e with e _; subst e; simp [kindOfA])
    (by rintro b ⟨x2, e, _⟩; cases e)
  refine h3.mono (fun _ h => h) ?_ (fun _ h => h) (fun _ h => h)
  rintro b x ⟨desc, nm, x2, rfl, h⟩
  exact ⟨desc, _, rfl, _, rfl, [.name nm], x2, rfl, ⟨nm, rfl⟩, h⟩

end Apollo.Parse
