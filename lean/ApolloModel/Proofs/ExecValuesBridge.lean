import ApolloModel.Proofs.ExecValues
import ApolloModel.Proofs.ExecWalk2
/-
C17: the link between the two models of the per-argument check — `ExecRules.argDiags` on `RVal` (values as far as
the variable rules look at them: var / null / opaque literal / list / object; the model the document-level walk
theorems are about) and `ExecValues.argValueDiags` on full `ValueCheck.Value`s (the model of §5.6.1–4).
`rvalOf` forgets the scalar literals.
-/
set_option linter.unusedSimpArgs false
set_option linter.unusedVariables false
namespace Apollo.ExecValues
open Apollo Apollo.ExecRules

mutual
/-- forget the scalar and enum literals -/
def rvalOf : ValueCheck.Value → RVal
  | .variable n => .var n
  | .null => .null
  | .list vs => .list (rvalsOf vs)
  | .object fs => .obj (rfieldsOf fs)
  | .int _ => .lit
  | .float _ => .lit
  | .string => .lit
  | .boolean => .lit
  | .enum _ => .lit
def rvalsOf : ValueCheck.Values → List RVal
  | .nil => []
  | .cons v tl => rvalOf v :: rvalsOf tl
def rfieldsOf : ValueCheck.Fields → List (String × RVal)
  | .nil => []
  | .cons n v tl => (n, rvalOf v) :: rfieldsOf tl
end

def rvarOf (v : XVarDef) : RVarDef := { name := v.name, ty := toTy v.ty, default := v.default, dirs := [] }
def inDefOf (name : String) (ty : ValueCheck.Ty) (hd : Bool) : InDef := { name := name, ty := toTy ty, hasDefault := hd }
def inDefOfField (f : ValueCheck.InField) : InDef := inDefOf f.name f.ty f.hasDefault

/-- the kind of a typed diagnostic among the value diagnostics -/
def tdiagX : TDiag → XDiag
  | .undefinedVariable _ => .value .undefinedVariable
  | .disallowedVariableUsage _ => .disallowedVariableUsage
  | _ => .value .unsupportedValueType

/-- the two views of one type definition -/
inductive KindRel : TKind → ValueCheck.TypeDef → Prop
  | scalar (b : Bool) : KindRel (.scalar b) (.scalar b)
  | enum (vs : List String) : KindRel .enum (.enum vs)
  | input (fields : List ValueCheck.InField) : KindRel (.inputObject (fields.map inDefOfField)) (.input fields)
  | object (i : List String) : KindRel (.object i) .other
  | interface (i : List String) : KindRel (.interface i) .other
  | union (m : List String) : KindRel (.union m) .other

/-- the two views of one schema, as far as values look at it -/
def SchemaRel (s : RSchema) (S : ValueCheck.Schema) : Prop :=
  ∀ n, (s.kindForValue n = none ∧ S.lookup n = none) ∨ ∃ k td, s.kindForValue n = some k ∧ S.lookup n = some td ∧ KindRel k td

theorem toTy_inner (t : ValueCheck.Ty) : (toTy t).innerNamedType = t.innerNamed := by
  induction t with
  | named n => rfl
  | nonNullNamed n => rfl
  | list t ih => simpa [toTy, Ty.innerNamedType, ValueCheck.Ty.innerNamed] using ih
  | nonNullList t ih => simpa [toTy, Ty.innerNamedType, ValueCheck.Ty.innerNamed] using ih

theorem toTy_isList (t : ValueCheck.Ty) : (toTy t).isList = t.isList := by cases t <;> rfl
theorem toTy_itemTy (t : ValueCheck.Ty) : itemTy (toTy t) = toTy t.itemType := by cases t <;> rfl

theorem kindRel_isInput {k : TKind} {td : ValueCheck.TypeDef} (h : KindRel k td) : k.isInput = td.isInputType := by
  cases h <;> rfl

theorem find_rvars (xvars : List XVarDef) (n : String) :
    (xvars.map rvarOf).find? (·.name == n) = (xvars.find? (fun x => x.name == n)).map rvarOf := by
  induction xvars with
  | nil => rfl
  | cons x rest ih =>
    simp only [List.map_cons, List.find?_cons]
    have : (rvarOf x).name = x.name := rfl
    rw [this]
    cases (x.name == n) <;> simp [ih]

theorem usageFails_agree (xvars : List XVarDef) (an : String) (ty : ValueCheck.Ty) (hd : Bool) (v : ValueCheck.Value) :
    ExecRules.usageFails (xvars.map rvarOf) (inDefOf an ty hd) (rvalOf v) = ExecValues.usageFails xvars ty hd v := by
  cases v <;> simp only [rvalOf, ExecRules.usageFails, ExecValues.usageFails]
  rename_i n
  rw [find_rvars]
  cases xvars.find? (fun x => x.name == n) <;> rfl

/-- a VARIABLE given directly as the argument value: the two models report the same, diagnostic for diagnostic
    (`DisallowedVariableUsage`; `UndefinedVariable`; `UnsupportedValueType` where the position's type is not an input
    type or its named type is not the variable's) -/
theorem arg_variable_agrees (s : RSchema) (S : ValueCheck.Schema) (h : SchemaRel s S) (xvars : List XVarDef)
    (an : String) (ty : ValueCheck.Ty) (hd : Bool) (n : String) :
    (argDiags s (xvars.map rvarOf) (inDefOf an ty hd) { name := an, value := rvalOf (.variable n) }).map tdiagX =
      argValueDiags S xvars ty hd (.variable n) := by
  have hu := usageFails_agree xvars an ty hd (.variable n)
  simp only [rvalOf] at hu
  simp only [argDiags, rvalOf, argValueDiags, hu]
  by_cases hf : ExecValues.usageFails xvars ty hd (.variable n) = true
  · simp [hf, tdiagX]
  · simp only [hf, Bool.false_eq_true, if_false]
    simp only [valueDiags, ValueCheck.check, inDefOf, toTy_inner]
    rcases h ty.innerNamed with ⟨h1, h2⟩ | ⟨k, td, h1, h2, hr⟩
    · simp [h1, h2]
    · simp only [h1, h2, varValueDiags, ValueCheck.variableDiags, find_rvars]
      rw [find_checkVars]
      cases hx : xvars.find? (fun x => x.name == n) with
      | none => simp [tdiagX]
      | some vd =>
        simp only [Option.map_some, rvarOf, toTy_inner, kindRel_isInput hr]
        cases hr <;> by_cases he : vd.ty.innerNamed = ty.innerNamed <;>
          simp [ValueCheck.TypeDef.isInputType, he, tdiagX]


/-! ### `UndefinedVariable` inside literals: the two descents agree -/

/-- the list contains an `UndefinedVariable` diagnostic -/
def HasUV (l : List TDiag) : Prop := ∃ n, TDiag.undefinedVariable n ∈ l

theorem hasUV_nil : HasUV [] ↔ False := by simp [HasUV]
theorem hasUV_append (a b : List TDiag) : HasUV (a ++ b) ↔ HasUV a ∨ HasUV b := by
  simp only [HasUV, List.mem_append]
  constructor
  · rintro ⟨n, h | h⟩
    · exact .inl ⟨n, h⟩
    · exact .inr ⟨n, h⟩
  · rintro (⟨n, h⟩ | ⟨n, h⟩)
    · exact ⟨n, .inl h⟩
    · exact ⟨n, .inr h⟩
theorem hasUV_flatMap {α : Type} (l : List α) (f : α → List TDiag) : HasUV (l.flatMap f) ↔ ∃ x ∈ l, HasUV (f x) := by
  simp only [HasUV, List.mem_flatMap]
  constructor
  · rintro ⟨n, x, hx, h⟩; exact ⟨x, hx, n, h⟩
  · rintro ⟨x, hx, n, h⟩; exact ⟨n, x, hx, h⟩
theorem hasUV_cons_flatMap {α : Type} (x : α) (l : List α) (f : α → List TDiag) :
    HasUV ((x :: l).flatMap f) ↔ HasUV (f x) ∨ HasUV (l.flatMap f) := by
  rw [List.flatMap_cons, hasUV_append]

theorem uv_not_uniqueDiags : ∀ (names seen : List String), ValueCheck.Diag.undefinedVariable ∉ ValueCheck.uniqueDiags seen names
  | [], _ => by simp [ValueCheck.uniqueDiags]
  | n :: rest, seen => by
    simp only [ValueCheck.uniqueDiags, List.mem_append, not_or]
    refine ⟨?_, uv_not_uniqueDiags rest _⟩
    split <;> simp

theorem varDefined_agree (xvars : List XVarDef) (n : String) :
    (xvars.map rvarOf).any (·.name == n) = ValueCheck.varDefined (checkVars xvars) n := by
  simp only [ValueCheck.varDefined, checkVars, List.any_map]
  rfl

theorem depth_pos' (v : RVal) : 0 < RVal.depth v := by cases v <;> simp [RVal.depth]

mutual
theorem opaque_agree (xvars : List XVarDef) : ∀ (v : ValueCheck.Value) (k : Nat), RVal.depth (rvalOf v) ≤ k →
    (HasUV (opaqueVars (xvars.map rvarOf) k (rvalOf v)) ↔ ValueCheck.Diag.undefinedVariable ∈ ValueCheck.opaqueDiags (checkVars xvars) v)
  | v, 0, h => by have := depth_pos' (rvalOf v); omega
  | .variable n, k + 1, _ => by
    simp only [rvalOf, opaqueVars, ValueCheck.opaqueDiags, varDefined_agree]
    cases ValueCheck.varDefined (checkVars xvars) n <;> simp [HasUV]
  | .list vs, k + 1, h => by
    simp only [rvalOf, RVal.depth] at h
    simp only [rvalOf, opaqueVars, ValueCheck.opaqueDiags]
    exact opaqueList_agree xvars vs k (by omega)
  | .object fs, k + 1, h => by
    simp only [rvalOf, RVal.depth] at h
    simp only [rvalOf, opaqueVars, ValueCheck.opaqueDiags, List.mem_append, uv_not_uniqueDiags, false_or]
    exact opaqueFields_agree xvars fs k (by omega)
  | .null, k + 1, _ => by simp [rvalOf, opaqueVars, ValueCheck.opaqueDiags, HasUV]
  | .int _, k + 1, _ => by simp [rvalOf, opaqueVars, ValueCheck.opaqueDiags, HasUV]
  | .float _, k + 1, _ => by simp [rvalOf, opaqueVars, ValueCheck.opaqueDiags, HasUV]
  | .string, k + 1, _ => by simp [rvalOf, opaqueVars, ValueCheck.opaqueDiags, HasUV]
  | .boolean, k + 1, _ => by simp [rvalOf, opaqueVars, ValueCheck.opaqueDiags, HasUV]
  | .enum _, k + 1, _ => by simp [rvalOf, opaqueVars, ValueCheck.opaqueDiags, HasUV]
theorem opaqueList_agree (xvars : List XVarDef) : ∀ (vs : ValueCheck.Values) (k : Nat), RVal.depthList (rvalsOf vs) ≤ k →
    (HasUV ((rvalsOf vs).flatMap (opaqueVars (xvars.map rvarOf) k)) ↔
      ValueCheck.Diag.undefinedVariable ∈ ValueCheck.opaqueList (checkVars xvars) vs)
  | .nil, k, _ => by simp [rvalsOf, ValueCheck.opaqueList, HasUV]
  | .cons v tl, k, h => by
    simp only [rvalsOf, RVal.depthList] at h
    simp only [rvalsOf, hasUV_cons_flatMap, ValueCheck.opaqueList, List.mem_append]
    rw [opaque_agree xvars v k (by omega), opaqueList_agree xvars tl k (by omega)]
theorem opaqueFields_agree (xvars : List XVarDef) : ∀ (fs : ValueCheck.Fields) (k : Nat), RVal.depthFields (rfieldsOf fs) ≤ k →
    (HasUV ((rfieldsOf fs).flatMap fun kv => opaqueVars (xvars.map rvarOf) k kv.2) ↔
      ValueCheck.Diag.undefinedVariable ∈ ValueCheck.opaqueFields (checkVars xvars) fs)
  | .nil, k, _ => by simp [rfieldsOf, ValueCheck.opaqueFields, HasUV]
  | .cons n v tl, k, h => by
    simp only [rfieldsOf, RVal.depthFields] at h
    simp only [rfieldsOf, hasUV_cons_flatMap, ValueCheck.opaqueFields, List.mem_append]
    rw [opaque_agree xvars v k (by omega), opaqueFields_agree xvars tl k (by omega)]
end


theorem uv_not_int (td : ValueCheck.TypeDef) (n : String) (i : Int) : ValueCheck.Diag.undefinedVariable ∉ ValueCheck.intDiags td n i := by
  unfold ValueCheck.intDiags; repeat' split
  all_goals simp
theorem uv_not_float (td : ValueCheck.TypeDef) (n : String) (b : Bool) : ValueCheck.Diag.undefinedVariable ∉ ValueCheck.floatDiags td n b := by
  unfold ValueCheck.floatDiags; repeat' split
  all_goals simp
theorem uv_not_string (td : ValueCheck.TypeDef) (n : String) : ValueCheck.Diag.undefinedVariable ∉ ValueCheck.stringDiags td n := by
  unfold ValueCheck.stringDiags; repeat' split
  all_goals simp
theorem uv_not_boolean (td : ValueCheck.TypeDef) (n : String) : ValueCheck.Diag.undefinedVariable ∉ ValueCheck.booleanDiags td n := by
  unfold ValueCheck.booleanDiags; repeat' split
  all_goals simp
theorem uv_not_enum (td : ValueCheck.TypeDef) (v : String) : ValueCheck.Diag.undefinedVariable ∉ ValueCheck.enumDiags td v := by
  unfold ValueCheck.enumDiags; repeat' split
  all_goals simp
theorem uv_not_required (f : ValueCheck.InField) (fs : ValueCheck.Fields) : ValueCheck.Diag.undefinedVariable ∉ ValueCheck.requiredDiags f fs := by
  unfold ValueCheck.requiredDiags; split <;> simp
theorem uv_not_undefinedField (fields : List ValueCheck.InField) (names : List String) :
    ValueCheck.Diag.undefinedVariable ∉ ValueCheck.undefinedFieldDiags fields names := by
  unfold ValueCheck.undefinedFieldDiags; split <;> simp
theorem not_hasUV_keyDiags (fields : List InDef) (kvs : List (String × RVal)) : ¬ HasUV (keyDiags fields kvs) := by
  unfold keyDiags HasUV; split <;> simp


section Agree
variable (s : RSchema) (S : ValueCheck.Schema) (hrel : SchemaRel s S) (xvars : List XVarDef)
include hrel


mutual
theorem check_agree : ∀ (v : ValueCheck.Value) (ty : ValueCheck.Ty) (k : Nat), RVal.depth (rvalOf v) ≤ k →
    (HasUV (valueDiags s (xvars.map rvarOf) k (toTy ty) (rvalOf v)) ↔
      ValueCheck.Diag.undefinedVariable ∈ ValueCheck.check S (checkVars xvars) ty v)
  | v, ty, 0, h => by have := depth_pos' (rvalOf v); omega
  | .int i, ty, k + 1, _ => by
    simp only [rvalOf, valueDiags, ValueCheck.check, toTy_inner]
    rcases hrel ty.innerNamed with ⟨h1, h2⟩ | ⟨kd, td, h1, h2, hr⟩
    · simp [h1, h2, HasUV]
    · simp [h1, h2, HasUV, uv_not_int]
  | .float i, ty, k + 1, _ => by
    simp only [rvalOf, valueDiags, ValueCheck.check, toTy_inner]
    rcases hrel ty.innerNamed with ⟨h1, h2⟩ | ⟨kd, td, h1, h2, hr⟩
    · simp [h1, h2, HasUV]
    · simp [h1, h2, HasUV, uv_not_float]
  | .string, ty, k + 1, _ => by
    simp only [rvalOf, valueDiags, ValueCheck.check, toTy_inner]
    rcases hrel ty.innerNamed with ⟨h1, h2⟩ | ⟨kd, td, h1, h2, hr⟩
    · simp [h1, h2, HasUV]
    · simp [h1, h2, HasUV, uv_not_string]
  | .boolean, ty, k + 1, _ => by
    simp only [rvalOf, valueDiags, ValueCheck.check, toTy_inner]
    rcases hrel ty.innerNamed with ⟨h1, h2⟩ | ⟨kd, td, h1, h2, hr⟩
    · simp [h1, h2, HasUV]
    · simp [h1, h2, HasUV, uv_not_boolean]
  | .enum e, ty, k + 1, _ => by
    simp only [rvalOf, valueDiags, ValueCheck.check, toTy_inner]
    rcases hrel ty.innerNamed with ⟨h1, h2⟩ | ⟨kd, td, h1, h2, hr⟩
    · simp [h1, h2, HasUV]
    · simp [h1, h2, HasUV, uv_not_enum]
  | .null, ty, k + 1, _ => by
    simp only [rvalOf, valueDiags, ValueCheck.check, toTy_inner]
    rcases hrel ty.innerNamed with ⟨h1, h2⟩ | ⟨kd, td, h1, h2, hr⟩
    · simp [h1, h2, HasUV]
    · cases ty.isNonNull <;> simp [h1, h2, HasUV]
  | .variable n, ty, k + 1, _ => by
    simp only [rvalOf, valueDiags, ValueCheck.check, toTy_inner]
    rcases hrel ty.innerNamed with ⟨h1, h2⟩ | ⟨kd, td, h1, h2, hr⟩
    · simp [h1, h2, HasUV]
    · simp only [h1, h2, varValueDiags, ValueCheck.variableDiags, find_rvars, find_checkVars]
      cases hx : xvars.find? (fun x => x.name == n) with
      | none => simp [HasUV]
      | some vd =>
        simp only [Option.map_some]
        constructor
        · intro h; exfalso; revert h; split <;> simp [HasUV]
        · intro h; exfalso; revert h; cases td <;> (try split) <;> simp
  | .list vs, ty, k + 1, h => by
    simp only [rvalOf, RVal.depth] at h
    simp only [rvalOf, valueDiags, ValueCheck.check, toTy_inner]
    rcases hrel ty.innerNamed with ⟨h1, h2⟩ | ⟨kd, td, h1, h2, hr⟩
    · simp [h1, h2, HasUV]
    · simp only [h1, h2]
      cases hl : ty.isList with
      | true =>
        have hi := kindRel_isInput hr
        cases hin : td.isInputType with
        | true =>
          simp only [acceptsList, toTy_isList, hl, Bool.true_or, Bool.not_true, Bool.false_eq_true, if_false, hi, hin, if_true,
            toTy_itemTy]
          exact checkItems_agree vs ty.itemType k (by omega)
        | false =>
          simp [acceptsList, toTy_isList, hl, hi, hin, HasUV]
      | false =>
        cases hr with
        | scalar b =>
          cases b with
          | false =>
            simp only [acceptsList, toTy_isList, hl, Bool.false_or, Bool.not_true, Bool.not_false, Bool.false_eq_true, if_false, if_true]
            exact opaqueList_agree xvars vs k (by omega)
          | true => simp [acceptsList, toTy_isList, hl, HasUV]
        | enum _ => simp [acceptsList, toTy_isList, hl, HasUV]
        | input _ => simp [acceptsList, toTy_isList, hl, HasUV]
        | object _ => simp [acceptsList, toTy_isList, hl, HasUV]
        | interface _ => simp [acceptsList, toTy_isList, hl, HasUV]
        | union _ => simp [acceptsList, toTy_isList, hl, HasUV]
  | .object fs, ty, k + 1, h => by
    simp only [rvalOf, RVal.depth] at h
    simp only [rvalOf, valueDiags, ValueCheck.check, toTy_inner]
    rcases hrel ty.innerNamed with ⟨h1, h2⟩ | ⟨kd, td, h1, h2, hr⟩
    · simp [h1, h2, HasUV]
    · simp only [h1, h2]
      cases hr with
      | scalar b =>
        cases b with
        | false =>
          simp only [List.mem_append, uv_not_uniqueDiags, false_or]
          exact opaqueFields_agree xvars fs k (by omega)
        | true => simp [HasUV]
      | enum _ => simp [HasUV]
      | object _ => simp [HasUV]
      | interface _ => simp [HasUV]
      | union _ => simp [HasUV]
      | input fields =>
        simp only [hasUV_append, not_hasUV_keyDiags, false_or, List.mem_append, uv_not_uniqueDiags, uv_not_undefinedField,
          List.flatMap_map, hasUV_flatMap, List.mem_flatMap, uv_not_required]
        constructor
        · rintro ⟨f, hf, hu⟩
          exact ⟨f, hf, (checkFirst_agree fs f.ty f.name k (by omega)).mp hu⟩
        · rintro ⟨f, hf, hu⟩
          exact ⟨f, hf, (checkFirst_agree fs f.ty f.name k (by omega)).mpr hu⟩
theorem checkItems_agree : ∀ (vs : ValueCheck.Values) (ty : ValueCheck.Ty) (k : Nat), RVal.depthList (rvalsOf vs) ≤ k →
    (HasUV ((rvalsOf vs).flatMap (valueDiags s (xvars.map rvarOf) k (toTy ty))) ↔
      ValueCheck.Diag.undefinedVariable ∈ ValueCheck.checkItems S (checkVars xvars) ty vs)
  | .nil, ty, k, _ => by simp [rvalsOf, ValueCheck.checkItems, HasUV]
  | .cons v tl, ty, k, h => by
    simp only [rvalsOf, RVal.depthList] at h
    simp only [rvalsOf, hasUV_cons_flatMap, ValueCheck.checkItems, List.mem_append]
    rw [check_agree v ty k (by omega), checkItems_agree tl ty k (by omega)]
theorem checkFirst_agree : ∀ (fs : ValueCheck.Fields) (ty : ValueCheck.Ty) (name : String) (k : Nat),
    RVal.depthFields (rfieldsOf fs) ≤ k →
    (HasUV (match (rfieldsOf fs).find? (·.1 == name) with
        | some (_, x) => valueDiags s (xvars.map rvarOf) k (toTy ty) x
        | none => []) ↔
      ValueCheck.Diag.undefinedVariable ∈ ValueCheck.checkFirst S (checkVars xvars) ty name fs)
  | .nil, ty, name, k, _ => by simp [rfieldsOf, ValueCheck.checkFirst, HasUV]
  | .cons n v tl, ty, name, k, h => by
    simp only [rfieldsOf, RVal.depthFields] at h
    simp only [rfieldsOf, List.find?_cons, ValueCheck.checkFirst]
    by_cases hn : (n == name) = true
    · simp only [hn, if_true]
      exact check_agree v ty k (by omega)
    · simp only [hn, Bool.false_eq_true, if_false]
      exact checkFirst_agree tl ty name k (by omega)
end

end Agree



/-! ### the value walk never reports `DisallowedVariableUsage` -/

def NoDis (d : TDiag) : Prop := ∀ n, d ≠ .disallowedVariableUsage n

theorem opaqueVars_noDis (vars : List RVarDef) : ∀ (k : Nat) (v : RVal), ∀ d ∈ opaqueVars vars k v, NoDis d := by
  intro k
  induction k with
  | zero => intro v d hd; simp [opaqueVars] at hd
  | succ k ih =>
    intro v d hd
    cases v with
    | var n =>
      simp only [opaqueVars] at hd
      by_cases hany : vars.any (·.name == n) = true
      · simp [hany] at hd
      · have hf : vars.any (·.name == n) = false := by simpa using hany
        simp only [hf, Bool.false_eq_true, if_false, List.mem_singleton] at hd
        subst hd
        exact fun _ h => by cases h
    | list xs =>
      simp only [opaqueVars, List.mem_flatMap] at hd
      obtain ⟨x, _, hx⟩ := hd
      exact ih x d hx
    | obj kvs =>
      simp only [opaqueVars, List.mem_flatMap] at hd
      obtain ⟨x, _, hx⟩ := hd
      exact ih x.2 d hx
    | null => simp [opaqueVars] at hd
    | lit => simp [opaqueVars] at hd

theorem valueDiags_noDis (s : RSchema) (vars : List RVarDef) :
    ∀ (k : Nat) (ty : Ty) (v : RVal), ∀ d ∈ valueDiags s vars k ty v, NoDis d := by
  intro k
  induction k with
  | zero => intro ty v d hd; simp [valueDiags] at hd
  | succ k ih =>
    intro ty v d hd
    unfold valueDiags at hd
    cases hkind : s.kindForValue ty.innerNamedType with
    | none => simp [hkind] at hd
    | some kind =>
      simp only [hkind] at hd
      cases v with
      | var n =>
        simp only [] at hd
        rcases varValueDiags_mem _ _ _ _ _ hd with ⟨rfl, h2⟩ | ⟨rfl, h2⟩
        · exact fun _ h => by cases h
        · exact fun _ h => by cases h
      | null => simp at hd
      | lit => simp at hd
      | list xs =>
        simp only [] at hd
        by_cases h1 : acceptsList ty kind = true
        · by_cases h0 : ty.isList = true
          · by_cases h2 : kind.isInput = true
            · simp only [h1, h0, h2, Bool.not_true, Bool.false_eq_true, if_false, if_true, List.mem_flatMap] at hd
              obtain ⟨x, _, hx⟩ := hd
              exact ih _ x d hx
            · simp [h1, h0, h2] at hd; subst hd; exact fun _ h => by cases h
          · have h0' : ty.isList = false := by simpa using h0
            simp only [h1, h0', Bool.not_true, Bool.not_false, Bool.false_eq_true, if_false, if_true, List.mem_flatMap] at hd
            obtain ⟨x, _, hx⟩ := hd
            exact opaqueVars_noDis vars k x d hx
        · simp [h1] at hd; subst hd; exact fun _ h => by cases h
      | obj kvs =>
        simp only [] at hd
        cases kind with
        | scalar b =>
          cases b with
          | false =>
            simp only [List.mem_flatMap] at hd
            obtain ⟨x, _, hx⟩ := hd
            exact opaqueVars_noDis vars k x.2 d hx
          | true => simp at hd; subst hd; exact fun _ h => by cases h
        | inputObject fields =>
          simp only [List.mem_append, List.mem_flatMap] at hd
          rcases hd with hd | hd
          · unfold keyDiags at hd
            split at hd
            · simp at hd
            · simp only [List.mem_singleton] at hd; subst hd; exact fun _ h => by cases h
          · obtain ⟨fd, _, hx⟩ := hd
            split at hx
            · exact ih _ _ d hx
            · simp at hx
        | enum => simp at hd; subst hd; exact fun _ h => by cases h
        | object _ => simp at hd; subst hd; exact fun _ h => by cases h
        | interface _ => simp at hd; subst hd; exact fun _ h => by cases h
        | union _ => simp at hd; subst hd; exact fun _ h => by cases h


/-- `DisallowedVariableUsage` from the abstract per-argument check: the value is that variable, and nothing else is
    reported -/
theorem argDiags_disallowed (s : RSchema) (vars : List RVarDef) (df : InDef) (a : RArg) (n : String)
    (h : TDiag.disallowedVariableUsage n ∈ argDiags s vars df a) :
    a.value = .var n ∧ argDiags s vars df a = [.disallowedVariableUsage n] := by
  unfold argDiags at h ⊢
  split at h
  · rename_i m hv
    rw [hv]
    by_cases hf : ExecRules.usageFails vars df (.var m) = true
    · simp only [hf, if_true, List.mem_singleton] at h ⊢
      cases h
      exact ⟨rfl, rfl⟩
    · simp only [hf, Bool.false_eq_true, if_false] at h
      exact absurd rfl (valueDiags_noDis s vars _ _ _ _ h n)
  · exact absurd rfl (valueDiags_noDis s vars _ _ _ _ h n)

/-! ### one argument -/

theorem value_mem_map (l : List ValueCheck.Diag) (d : ValueCheck.Diag) : XDiag.value d ∈ l.map XDiag.value ↔ d ∈ l := by
  simp [List.mem_map]

/-- `UndefinedVariable` for one argument: the two models agree, whatever the value (variables at any depth of lists,
    input objects and custom-scalar literals) -/
theorem arg_undefinedVariable_agrees (s : RSchema) (S : ValueCheck.Schema) (hrel : SchemaRel s S) (xvars : List XVarDef)
    (an : String) (ty : ValueCheck.Ty) (hd : Bool) (v : ValueCheck.Value) :
    HasUV (argDiags s (xvars.map rvarOf) (inDefOf an ty hd) { name := an, value := rvalOf v }) ↔
      XDiag.value .undefinedVariable ∈ argValueDiags S xvars ty hd v := by
  have hu := usageFails_agree xvars an ty hd v
  have key : ∀ k, RVal.depth (rvalOf v) ≤ k →
      (HasUV (valueDiags s (xvars.map rvarOf) k (toTy ty) (rvalOf v)) ↔
        XDiag.value .undefinedVariable ∈ (ValueCheck.check S (checkVars xvars) ty v).map XDiag.value) := by
    intro k hk
    rw [value_mem_map]
    exact check_agree s S hrel xvars v ty k hk
  cases v with
  | «variable» n =>
    simp only [rvalOf] at hu key
    simp only [argDiags, rvalOf, argValueDiags, hu]
    by_cases hf : ExecValues.usageFails xvars ty hd (.variable n) = true
    · simp [hf, HasUV]
    · simp only [hf, Bool.false_eq_true, if_false]
      exact key 2 (by simp [RVal.depth])
  | null => simpa [argDiags, rvalOf, argValueDiags, ExecValues.usageFails, inDefOf] using key _ (Nat.le_succ _)
  | int i => simpa [argDiags, rvalOf, argValueDiags, ExecValues.usageFails, inDefOf] using key _ (Nat.le_succ _)
  | float f => simpa [argDiags, rvalOf, argValueDiags, ExecValues.usageFails, inDefOf] using key _ (Nat.le_succ _)
  | string => simpa [argDiags, rvalOf, argValueDiags, ExecValues.usageFails, inDefOf] using key _ (Nat.le_succ _)
  | boolean => simpa [argDiags, rvalOf, argValueDiags, ExecValues.usageFails, inDefOf] using key _ (Nat.le_succ _)
  | enum e => simpa [argDiags, rvalOf, argValueDiags, ExecValues.usageFails, inDefOf] using key _ (Nat.le_succ _)
  | list vs => simpa [argDiags, rvalOf, argValueDiags, ExecValues.usageFails, inDefOf] using key _ (Nat.le_succ _)
  | object fs => simpa [argDiags, rvalOf, argValueDiags, ExecValues.usageFails, inDefOf] using key _ (Nat.le_succ _)

/-- `DisallowedVariableUsage` for one argument: reported by the full model exactly when the value is a variable for
    which the abstract model reports it -/
theorem arg_disallowed_agrees (s : RSchema) (S : ValueCheck.Schema) (xvars : List XVarDef)
    (an : String) (ty : ValueCheck.Ty) (hd : Bool) (v : ValueCheck.Value) :
    XDiag.disallowedVariableUsage ∈ argValueDiags S xvars ty hd v ↔
      ∃ n, v = .variable n ∧
        argDiags s (xvars.map rvarOf) (inDefOf an ty hd) { name := an, value := rvalOf v } = [.disallowedVariableUsage n] := by
  have hu := usageFails_agree xvars an ty hd v
  by_cases hf : ExecValues.usageFails xvars ty hd v = true
  · cases v with
    | «variable» n =>
      simp only [rvalOf] at hu
      simp [argDiags, rvalOf, argValueDiags, hu, hf]
    | _ => simp [ExecValues.usageFails] at hf
  · have hf' : ExecValues.usageFails xvars ty hd v = false := by simpa using hf
    constructor
    · intro h
      simp [argValueDiags, hf'] at h
    · rintro ⟨n, rfl, h⟩
      simp only [rvalOf] at hu
      simp only [argDiags, rvalOf, hu, hf', Bool.false_eq_true, if_false] at h
      -- the value walk never reports DisallowedVariableUsage
      exfalso
      have hm : TDiag.disallowedVariableUsage n ∈ valueDiags s (xvars.map rvarOf) 2 (inDefOf an ty hd).ty (.var n) := by
        rw [h]; exact List.mem_singleton.mpr rfl
      unfold valueDiags at hm
      split at hm
      · simp at hm
      · rcases varValueDiags_mem _ _ _ _ _ hm with ⟨h1, _⟩ | ⟨h1, _⟩ <;> cases h1

/-- one argument, composed: when the abstract per-argument check is quiet, the full one reports neither
    `DisallowedVariableUsage` nor `UndefinedVariable` -/
theorem arg_quiet_variables (s : RSchema) (S : ValueCheck.Schema) (hrel : SchemaRel s S) (xvars : List XVarDef)
    (an : String) (ty : ValueCheck.Ty) (hd : Bool) (v : ValueCheck.Value)
    (h : argDiags s (xvars.map rvarOf) (inDefOf an ty hd) { name := an, value := rvalOf v } = []) :
    XDiag.disallowedVariableUsage ∉ argValueDiags S xvars ty hd v ∧
      XDiag.value .undefinedVariable ∉ argValueDiags S xvars ty hd v := by
  constructor
  · intro hm
    obtain ⟨n, _, he⟩ := (arg_disallowed_agrees s S xvars an ty hd v).mp hm
    rw [h] at he; cases he
  · intro hm
    have := (arg_undefinedVariable_agrees s S hrel xvars an ty hd v).mpr hm
    rw [h] at this
    exact hasUV_nil.mp this

end Apollo.ExecValues
