import ApolloModel.Proofs.ParserExactC23
import ApolloModel.Proofs.ParserComplete24
/-
EXACT-BUDGET COPY of ParserComplete24 (namespace Apollo.Parse.Exact, exact `vdepth`).
C05 growth (completeness of the whole Document grammar), part 24: object / interface type extensions and the
schema extension.
-/
set_option linter.unusedSimpArgs false
namespace Apollo.Parse.Exact
open Apollo.Rowan hiding Str
open Apollo.Lex hiding Str

/-- `implements` recognised by the token text, with different continuations -/
theorem cmpT_optDataImpl2 {Hk : Kind → Prop} (restT restF : PI Unit) {LT LF : Nat → List Ast.Tok → Prop} {Fr : Kind → Prop}
    (hT : Cmp (fun _ => True) restT LT Fr (fun _ => True)) (hF : Cmp (fun _ => True) restF LF Fr (fun _ => True))
    (hThead : ∀ b a x, LT b (a :: x) → kindOfA a ≠ .amp) (hFhead : ∀ b a x, LF b (a :: x) → kindOfA a ≠ .name) :
    CmpT Hk (optData2 "implements" implementsInterfaces restT restF)
      (fun b x => (∃ x1 x2, x = x1 ++ x2 ∧ LImpl b x1 ∧ LT b x2) ∨ LF b x)
      (fun t => Fr t.kind ∧ t.kind ≠ .amp ∧ NotImplTok t) (fun _ => True) := by
  intro s s' a c x q0 rst w lq hrun hl hs ht hq hf _
  unfold optData2 at hrun
  obtain ⟨od, sP, hp, h2⟩ := bind_dec peekData _ s s' a hrun
  obtain ⟨t, tl, htt, hkt⟩ := headK_toks c q0 rst
  obtain ⟨rfl, eP, htP⟩ := peekData_head s sP od t tl w (by rw [ht]; exact htt) hp
  have hb : sP.recLimit - sP.recCur = s.recLimit - s.recCur := by rw [eP.recLimit, eP.recCur]
  have hTP : Toks sP = c ++ q0 :: rst := by rw [htP, ← htt]
  rcases hl with ⟨x1, x2, rfl, ⟨lead, first, rest', rfl⟩, hl2⟩ | hl
  · obtain ⟨t1, tl1, hc, hta⟩ := spells_head (a := .name Ast.sImplements) (x := tSepLead .amp lead first rest' ++ x2) (by simpa using hs)
    have ht1 : t = t1 := by rw [hc] at htt; simp at htt; exact htt.1.symm
    subst ht1
    have hcond : kwOpt "implements" (some t.data) = true := by
      have hd : t.data = "implements".toList := data_of_astOfV_name hta
      exact kwOpt_some_eq.mpr hd
    simp only [hcond, if_true] at h2
    have hcomb := cmp_bind (Hk := fun _ => True) (F := fun k => Fr k ∧ k ≠ Kind.amp) cmp_implementsInterfaces (fun _ _ => hT)
      hThead (fun _ h => h.2) (fun _ h => h.1)
    obtain ⟨e, t2, _⟩ := hcomb sP s' a c _ q0 rst eP.w h2
      ⟨_, x2, rfl, ⟨lead, first, rest', rfl⟩, by rw [hb]; exact hl2⟩ hs hTP hq ⟨hf.1, hf.2.1⟩ trivial
    exact ⟨by simpa using eP.trans e, t2, trivial⟩
  · have hcond : kwOpt "implements" (some t.data) = false := by
      have hne : t.data ≠ "implements".toList := by
        intro hd
        have hkn : t.kind = .name := lq t (by rw [ht, htt]; simp) 'i' "mplements".toList (by rw [hd]; rfl) (by decide)
        cases x with
        | nil =>
          have := spells_nil_inv hs
          subst this
          simp only [List.nil_append, List.cons.injEq] at htt
          rw [← htt.1] at hkn hd
          exact hf.2.2 ⟨hkn, hd⟩
        | cons a2 x2' =>
          obtain ⟨t1, tl1, hc, hta⟩ := spells_head hs
          have : t.kind ≠ .name := by
            rw [hkt, hc]; simp only [headK]; rw [kind_of_astOfV hta]; exact hFhead _ _ _ hl
          exact this hkn
      cases hc : kwOpt "implements" (some t.data) with
      | false => rfl
      | true => exact absurd (kwOpt_some_eq.mp hc) hne
    simp only [hcond, Bool.false_eq_true, if_false] at h2
    obtain ⟨e, t2, _⟩ := hF sP s' a c x q0 rst eP.w h2 (by rw [hb]; exact hl) hs hTP hq hf.1 trivial
    exact ⟨by simpa using eP.trans e, t2, trivial⟩

/-! ### object, interface -/

/-- `Directives? FieldsDefinition?` of an extension; `m`: a component was already met -/
def LExtFields (m : Bool) (b : Nat) (x : List Ast.Tok) : Prop :=
  ∃ ds x2, x = Ast.tDirectives ds ++ x2 ∧ dirsFit true b ds ∧ (LFields b x2 ∨ (x2 = [] ∧ (m || !ds.isEmpty) = true))

theorem cmp_extFields (n : Nat) (m : Bool) :
    Cmp (fun _ => True) (extDirs n (extBodyK .lCurly (fieldsDefinition n)) m) (LExtFields m)
      (fun k => k ≠ .at ∧ k ≠ .lParen ∧ k ≠ .lCurly ∧ True) (fun _ => True) :=
  cmp_extDirs (Hk := fun _ => True) n _ m (Ln := fun m b x => LFields b x ∨ (x = [] ∧ m = true))
    (fun m' => (cmp_extBodyK (Hk := fun _ => True) .lCurly (fieldsDefinition n) m' (cmp_fieldsDefinition n) (fun b x h => lfields_head h)).mono
      (fun _ h => h) (fun _ _ h => h) (fun k h => h.2.2) (fun _ h => h))
    (by rintro m' b a x (h | ⟨h, _⟩)
        · obtain ⟨a', x', e, hk⟩ := lfields_head h
          injection e with e _
          subst e; rw [hk]; exact ⟨by decide, by decide⟩
        · cases h)
    (fun k h => ⟨h.1, h.2.1⟩)

theorem lextFields_head {m : Bool} {b : Nat} {a : Ast.Tok} {x : List Ast.Tok} (h : LExtFields m b (a :: x)) :
    kindOfA a ≠ .name ∧ kindOfA a ≠ .amp := by
  obtain ⟨ds, x2, e, _, h2⟩ := h
  cases ds with
  | cons d r =>
    simp only [Ast.tDirectives, List.cons_append] at e
    injection e with e _
    subst e; exact ⟨by decide, by decide⟩
  | nil =>
    simp only [Ast.tDirectives, List.nil_append] at e
    subst e
    rcases h2 with h2 | ⟨h2, _⟩
    · obtain ⟨a', x', e, hk⟩ := lfields_head h2
      injection e with e _
      subst e; rw [hk]; exact ⟨by decide, by decide⟩
    · cases h2

def LObjectExt (word : String) (b : Nat) (x : List Ast.Tok) : Prop :=
  ∃ nm impl ds fs, (impl ≠ none ∨ ds ≠ [] ∨ fs ≠ []) ∧ x = kwE word ++ objectLikeToks nm impl ds fs ∧ objFit b ds fs

theorem cmpT_objExtTail (n : Nat) :
    CmpT (fun _ => True) (objExtTail n)
      (fun b x => ∃ nm impl ds fs, (impl ≠ none ∨ ds ≠ [] ∨ fs ≠ []) ∧ x = objectLikeToks nm impl ds fs ∧ objFit b ds fs)
      FObj (fun _ => True) := by
  unfold objExtTail
  have hi := cmpT_optDataImpl2 (Hk := fun _ => True) _ _ (cmp_extFields n true) (cmp_extFields n false)
    (fun b a x h => (lextFields_head h).2) (fun b a x h => (lextFields_head h).1)
  have := cmpT_bindK (Hk := fun _ => True) cmp_nameOrErr (fun _ _ => hi)
  refine this.mono (fun _ h => h) ?_ (fun t h => h) (fun _ h => h)
  rintro b x ⟨nm, impl, ds, fs, hne, rfl, hd, hf⟩
  have hbody : ∀ m : Bool, (m = true ∨ ds ≠ [] ∨ fs ≠ []) →
      LExtFields m b (Ast.tDirectives ds ++ Ast.tBraced (Ast.tFieldDefItems fs) fs.isEmpty) := by
    intro m hm
    refine ⟨ds, _, rfl, hd, ?_⟩
    by_cases hfs : fs = []
    · subst hfs
      refine Or.inr ⟨rfl, ?_⟩
      rcases hm with h | h | h
      · simp [h]
      · cases ds with
        | nil => exact absurd rfl h
        | cons _ _ => simp
      · exact absurd rfl h
    · exact Or.inl ⟨fs, hfs, rfl, hf⟩
  refine ⟨[.name nm], tSepOpt [.name Ast.sImplements] .amp impl ++ (Ast.tDirectives ds ++ Ast.tBraced (Ast.tFieldDefItems fs) fs.isEmpty),
    by simp [objectLikeToks, List.append_assoc], ⟨nm, rfl⟩, ?_⟩
  cases impl with
  | some v =>
    obtain ⟨lead, first, rest⟩ := v
    exact Or.inl ⟨.name Ast.sImplements :: tSepLead .amp lead first rest, _, by simp [tSepOpt], ⟨lead, first, rest, rfl⟩, hbody true (Or.inl rfl)⟩
  | none =>
    refine Or.inr ?_
    simp only [tSepOpt, List.nil_append]
    refine hbody false ?_
    rcases hne with h | h | h
    · exact absurd rfl h
    · exact Or.inr (Or.inl h)
    · exact Or.inr (Or.inr h)

theorem cmpT_objectTypeExtension (n : Nat) :
    CmpT (fun _ => True) (objectTypeExtension n) (LObjectExt "type") FObj (fun _ => True) := by
  rw [objectTypeExtension_eq]
  refine cmpT_withNode _ ?_
  refine (cmpT_ext (Hk := fun _ => True) "type" _ _ _ (cmpT_objExtTail n)).mono (fun _ h => h) ?_ (fun _ h => h) (fun _ h => h)
  rintro b x ⟨nm, impl, ds, fs, hne, rfl, hfit⟩
  exact ⟨_, rfl, nm, impl, ds, fs, hne, rfl, hfit⟩

theorem cmpT_interfaceTypeExtension (n : Nat) :
    CmpT (fun _ => True) (interfaceTypeExtension n) (LObjectExt "interface") FObj (fun _ => True) := by
  rw [interfaceTypeExtension_eq]
  refine cmpT_withNode _ ?_
  refine (cmpT_ext (Hk := fun _ => True) "interface" _ _ _ (cmpT_objExtTail n)).mono (fun _ h => h) ?_ (fun _ h => h) (fun _ h => h)
  rintro b x ⟨nm, impl, ds, fs, hne, rfl, hfit⟩
  exact ⟨_, rfl, nm, impl, ds, fs, hne, rfl, hfit⟩

/-! ### schema -/

theorem cmp_schemaExtBraces (meets : Bool) :
    Cmp (fun _ => True) (schemaExtBraces meets) (fun b x => LSBraces b x ∨ (x = [] ∧ meets = true)) (fun k => k ≠ .lCurly) (fun _ => True) := by
  unfold schemaExtBraces
  have hK : Cmp (fun _ => True) (expect .rCurly "R_CURLY" >>= fun _ => extEnd true) (fun _ x => x = [.p .rCurly]) (fun k => k ≠ .lCurly) (fun _ => True) := by
    have := cmp_bind (Hk := fun _ => True) (F := fun k => k ≠ Kind.lCurly) (F1 := fun _ => True) (cmp_expect .rCurly "R_CURLY")
      (fun _ _ => cmp_extEnd (Hk := fun _ => True) (F := fun k => k ≠ Kind.lCurly) true) (fun _ _ _ _ => trivial) (fun _ _ => trivial) (fun _ h => h)
    refine this.mono (fun _ h => h) ?_ (fun _ h => h) (fun _ h => h)
    rintro b x rfl
    exact ⟨[.p .rCurly], [], rfl, ⟨_, rfl, rfl⟩, rfl, rfl⟩
  apply cmp_peek
  intro k hk0
  by_cases hk : k = .lCurly
  · subst hk
    simp only [beq_self_eq_true, if_true]
    have := cmp_rootsBlock _ hK (by rintro b x rfl; exact ⟨[], rfl⟩)
    intro s s' a c x q0 rst w hrun hl hs ht hq hf hkh
    rcases hl with ⟨roots, hne, rfl⟩ | ⟨rfl, _⟩
    · exact this s s' a c _ q0 rst w hrun ⟨roots, [.p .rCurly], hne, by simp, rfl⟩ hs ht hq hf trivial
    · exfalso
      have := spells_nil_inv hs
      subst this
      simp only [headK] at hkh
      exact hf hkh
  · have hkk : (some k == some Kind.lCurly) = false := by simpa using hk
    simp only [hkk, Bool.false_eq_true, if_false]
    intro s s' a c x q0 rst w hrun hl hs ht hq hf hkh
    rcases hl with hl | hl
    · exfalso
      obtain ⟨roots, _, rfl⟩ := hl
      obtain ⟨tk, tl, rfl, hta⟩ := spells_head hs
      simp only [headK] at hkh
      rw [kind_of_astOfV hta] at hkh
      exact hk hkh.symm
    · exact cmp_extEnd (Hk := fun k' => k' = k) (F := fun k => k ≠ Kind.lCurly) meets s s' a c x q0 rst w hrun hl hs ht hq hf hkh

def LSchemaExt (b : Nat) (x : List Ast.Tok) : Prop :=
  ∃ (ds : List Ast.Directive) (roots : List (Ast.OpType × Ast.Str)), (ds ≠ [] ∨ roots ≠ []) ∧
    x = kwE "schema" ++ Ast.tDirectives ds ++ Ast.tBraced (tRootOpItemsF (roots.map fun r => (r.1, some r.2))) roots.isEmpty ∧
    dirsFit true b ds

theorem cmpT_schemaExtension (n : Nat) :
    CmpT (fun _ => True) (schemaExtension n) LSchemaExt (fun t => Fbody t.kind) (fun _ => True) := by
  rw [schemaExtension_eq]
  refine cmpT_withNode _ ?_
  have hd := cmp_extDirs (Hk := fun _ => True) (F := Fbody) n schemaExtBraces false
    (Ln := fun m b x => LSBraces b x ∨ (x = [] ∧ m = true))
    (fun m => (cmp_schemaExtBraces m).mono (fun _ h => h) (fun _ _ h => h) (fun k h => h.2.2) (fun _ h => h))
    (by rintro m b a x (⟨roots, _, e⟩ | ⟨h, _⟩)
        · injection e with e _
          subst e; exact ⟨by decide, by decide⟩
        · cases h)
    (fun k h => ⟨h.1, h.2.1⟩)
  refine (cmpT_ext (Hk := fun _ => True) "schema" _ _ _ hd.toT).mono (fun _ h => h) ?_ (fun _ h => h) (fun _ h => h)
  rintro b x ⟨ds, roots, hne, rfl, hdf⟩
  refine ⟨Ast.tDirectives ds ++ Ast.tBraced (tRootOpItemsF (roots.map fun r => (r.1, some r.2))) roots.isEmpty,
    by simp [List.append_assoc], ds, _, rfl, hdf, ?_⟩
  by_cases hr : roots = []
  · subst hr
    refine Or.inr ⟨rfl, ?_⟩
    rcases hne with h | h
    · cases ds with
      | nil => exact absurd rfl h
      | cons _ _ => rfl
    · exact absurd rfl h
  · refine Or.inl ⟨roots, hr, ?_⟩
    have : roots.isEmpty = false := by cases roots with | nil => exact absurd rfl hr | cons _ _ => rfl
    rw [tRootOpItemsF_full, this]
    simp [Ast.tBraced]

end Apollo.Parse.Exact
