import ApolloModel.Model.SchemaBuild
/-
C14/C15 growth: the build-time uniqueness rules on the model of `extend_sticky` / `collect_sticky`
(Model/SchemaBuild.lean, property C13): a collision diagnostic is pushed iff a name occurs twice, and the
built list never contains a name twice (the first definition wins).
-/
namespace Apollo.SchemaBuild

theorem hasName_false_iff (cs : List Comp) (n : Name) : hasName cs n = false ↔ ∀ c ∈ cs, c.name ≠ n := by
  simp [hasName, List.any_eq_false]

theorem hasName_append_single (cs : List Comp) (c : Comp) (n : Name) :
    hasName (cs ++ [c]) n = (hasName cs n || c.name == n) := by
  simp [hasName, List.any_append]

/-- errors only grow, and nothing is added iff no name of `items` is already present or repeated -/
theorem extendSticky_errs (dup : Name → Diag) (origin : Option Pos) : ∀ (items : List Item) (cs : List Comp) (errs : List Err),
    ∃ new, (extendSticky dup origin cs errs items).2 = errs ++ new ∧
      (new = [] ↔ (∀ it ∈ items, hasName cs it.name = false) ∧ (items.map (·.name)).Nodup) := by
  intro items
  induction items with
  | nil => intro cs errs; exact ⟨[], by simp [extendSticky], by simp⟩
  | cons it rest ih =>
    intro cs errs
    unfold extendSticky
    by_cases h : hasName cs it.name = true
    · simp only [h, if_true]
      obtain ⟨new', hnew', _⟩ := ih cs (errs ++ [⟨it.errPos, dup it.name⟩])
      refine ⟨⟨it.errPos, dup it.name⟩ :: new', by rw [hnew']; simp, ?_⟩
      constructor
      · intro hc; cases hc
      · intro ⟨h1, _⟩
        have := h1 it List.mem_cons_self
        rw [h] at this; cases this
    · have hf : hasName cs it.name = false := by simpa using h
      simp only [hf, Bool.false_eq_true, if_false]
      obtain ⟨new', hnew', hiff⟩ := ih (cs ++ [it.toComp origin]) errs
      refine ⟨new', hnew', ?_⟩
      rw [hiff]
      simp only [hasName_append_single, Bool.or_eq_false_iff, Item.toComp, List.mem_cons, forall_eq_or_imp,
        List.map_cons, List.nodup_cons, beq_eq_false_iff_ne, ne_eq]
      constructor
      · intro ⟨h1, hnd⟩
        refine ⟨⟨hf, fun x hx => (h1 x hx).1⟩, ?_, hnd⟩
        intro hmem
        obtain ⟨x, hx, hname⟩ := List.mem_map.mp hmem
        exact (h1 x hx).2 hname.symm
      · intro ⟨⟨_, h1⟩, hnot, hnd⟩
        refine ⟨fun x hx => ⟨h1 x hx, ?_⟩, hnd⟩
        intro heq
        exact hnot (List.mem_map.mpr ⟨x, hx, heq.symm⟩)

/-- `BuildError::…Collision` / `Duplicate…` is reported iff a name occurs twice in the same list
    (already present from the definition or an earlier extension, or repeated in this one). -/
theorem extendSticky_reports_iff_duplicate (dup : Name → Diag) (origin : Option Pos) (items : List Item)
    (cs : List Comp) (errs : List Err) :
    (extendSticky dup origin cs errs items).2 = errs ↔
      (∀ it ∈ items, hasName cs it.name = false) ∧ (items.map (·.name)).Nodup := by
  obtain ⟨new, hnew, hiff⟩ := extendSticky_errs dup origin items cs errs
  rw [hnew, ← hiff]
  constructor
  · intro h; exact List.append_right_eq_self.mp h
  · intro h; rw [h]; simp

/-- the built list never contains a name twice: the first definition wins -/
theorem extendSticky_names_nodup (dup : Name → Diag) (origin : Option Pos) : ∀ (items : List Item) (cs : List Comp) (errs : List Err),
    (cs.map (·.name)).Nodup → ((extendSticky dup origin cs errs items).1.map (·.name)).Nodup := by
  intro items
  induction items with
  | nil => intro cs errs h; simpa [extendSticky] using h
  | cons it rest ih =>
    intro cs errs hnd
    unfold extendSticky
    by_cases h : hasName cs it.name = true
    · simp only [h, if_true]; exact ih cs _ hnd
    · have hf : hasName cs it.name = false := by simpa using h
      simp only [hf, Bool.false_eq_true, if_false]
      apply ih
      rw [List.map_append, List.nodup_append]
      refine ⟨hnd, by simp, ?_⟩
      intro a ha b hb hab
      have hb' : b = it.name := by simpa [Item.toComp] using hb
      obtain ⟨c, hc, hcn⟩ := List.mem_map.mp ha
      exact (hasName_false_iff cs it.name).mp hf c hc (by rw [hcn, hab, hb'])

end Apollo.SchemaBuild
