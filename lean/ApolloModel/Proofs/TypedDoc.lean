import ApolloModel.Model.TypedDoc
/-
Helper lemmas for property C18 (Properties/C18.lean): typing of the built document, the iterators.
-/
namespace Apollo.Typed
open Apollo.Standalone

/-! ### typing -/

/-- the property's annotation rule, checked on a typed selection set whose own type is `parent` -/
def annotated (s : TSchema) : Name → TSels → Bool
  | _, .nil => true
  | parent, .field name d ty sub rest =>
    (typeField s parent name == .ok d) && (ty == d.ty) && annotated s ty sub && annotated s parent rest
  | parent, .spread _ rest => annotated s parent rest
  | parent, .inline tc ty sub rest => (ty == tc.getD parent) && annotated s ty sub && annotated s parent rest

theorem buildT_annotated (s : TSchema) (t : Sels) : ∀ parent, annotated s parent (buildT s parent t) = true := by
  induction t with
  | nil => intro p; simp [buildT, annotated]
  | field name dirs args sub rest ihs ihr =>
    intro p
    simp only [buildT]
    cases h : typeField s p name with
    | ok d =>
      simp only
      split
      · exact ihr p
      · simp [annotated, h, ihs, ihr]
    | noSuchField => exact ihr p
    | noSuchType => exact ihr p
  | spread f dirs rest ihr => intro p; simp [buildT, annotated, ihr]
  | inline tc dirs sub rest ihs ihr =>
    intro p
    cases tc with
    | none => simp [buildT, annotated, ihs, ihr]
    | some t =>
      simp only [buildT]
      split
      · exact ihr p
      · simp [annotated, ihs, ihr]

/-- no field of the built document has a sub-selection on a scalar or enum type -/
def noLeafSub (s : TSchema) : TSels → Bool
  | .nil => true
  | .field _ _ ty sub rest => !(!sub.isNil && leafType s ty) && noLeafSub s sub && noLeafSub s rest
  | .spread _ rest => noLeafSub s rest
  | .inline _ _ sub rest => noLeafSub s sub && noLeafSub s rest

theorem buildT_isNil (s : TSchema) (parent : Name) (t : Sels) (h : t.isNil = true) : (buildT s parent t).isNil = true := by
  cases t <;> simp_all [Sels.isNil, buildT, TSels.isNil]

theorem buildT_noLeafSub (s : TSchema) (t : Sels) : ∀ parent, noLeafSub s (buildT s parent t) = true := by
  induction t with
  | nil => intro p; simp [buildT, noLeafSub]
  | field name dirs args sub rest ihs ihr =>
    intro p
    simp only [buildT]
    cases h : typeField s p name with
    | ok d =>
      simp only
      split
      · exact ihr p
      · next hc =>
        simp only [noLeafSub, ihs, ihr, Bool.and_true, Bool.not_eq_true']
        simp only [Bool.and_eq_true, Bool.not_eq_true', not_and, Bool.not_eq_true] at hc
        cases hl : leafType s d.ty
        · simp
        · have hn : sub.isNil = true := by
            cases hs : sub.isNil
            · exact absurd hl (by rw [hc hs]; simp)
            · rfl
          simp [buildT_isNil s d.ty sub hn]
    | noSuchField => exact ihr p
    | noSuchType => exact ihr p
  | spread f dirs rest ihr => intro p; simp [buildT, noLeafSub, ihr]
  | inline tc dirs sub rest ihs ihr =>
    intro p
    cases tc with
    | none => simp [buildT, noLeafSub, ihs, ihr]
    | some t =>
      simp only [buildT]
      split
      · exact ihr p
      · simp [noLeafSub, ihs, ihr]

/-- document level: what holds of every operation and fragment of the built document -/
structure DocTyped (s : TSchema) (ast : Ast) (doc : TDoc) : Prop where
  ops : ∀ o, o ∈ doc.ops → s.root o.opType = some o.ty ∧ annotated s o.ty o.sels = true ∧ noLeafSub s o.sels = true
  frags : ∀ f, f ∈ doc.frags → annotated s f.ty f.sels = true ∧ noLeafSub s f.sels = true ∧
    (s.findType f.ty).isSome = true ∧ ∃ g, Def.frag g ∈ ast ∧ g.name = f.name ∧ g.tc = f.ty

theorem buildOpT_typed (s : TSchema) (o : Op) (o' : TOp) (h : buildOpT s o = some o') :
    s.root o'.opType = some o'.ty ∧ annotated s o'.ty o'.sels = true ∧ noLeafSub s o'.sels = true := by
  unfold buildOpT at h
  cases hr : s.root o.ty with
  | none => simp [hr] at h
  | some t =>
    simp only [hr, Option.some.injEq] at h
    subst h
    exact ⟨hr, buildT_annotated s o.sels t, buildT_noLeafSub s o.sels t⟩

theorem buildDefT_typed (s : TSchema) (ast : Ast) (doc : TDoc) (d : Def) (hd : d ∈ ast) (h : DocTyped s ast doc) :
    DocTyped s ast (buildDefT s doc d) := by
  cases d with
  | typeSystem => simpa [buildDefT] using h
  | op o =>
    simp only [buildDefT]
    cases hn : o.name with
    | some n =>
      simp only
      split
      · exact h
      · cases hb : buildOpT s o with
        | none => exact h
        | some o' =>
          refine ⟨?_, h.frags⟩
          intro q hq
          simp only [TDoc.ops, List.mem_append, List.mem_singleton] at hq
          rcases hq with hq | hq | hq
          · exact h.ops q (by simp [TDoc.ops, hq])
          · exact h.ops q (by simp [TDoc.ops, hq])
          · subst hq; exact buildOpT_typed s o q hb
    | none =>
      simp only
      split
      · exact h
      · split
        · exact h
        · cases hb : buildOpT s o with
          | none => exact h
          | some o' =>
            refine ⟨?_, h.frags⟩
            intro q hq
            simp only [TDoc.ops, List.mem_append, Option.toList_some, List.mem_singleton] at hq
            rcases hq with hq | hq
            · subst hq; exact buildOpT_typed s o q hb
            · exact h.ops q (by simp [TDoc.ops, hq])
  | frag f =>
    simp only [buildDefT]
    split
    · exact h
    · split
      · exact h
      · next _ hk =>
        refine ⟨fun q hq => h.ops q (by simpa [TDoc.ops] using hq), ?_⟩
        intro q hq
        simp only [List.mem_append, List.mem_singleton] at hq
        rcases hq with hq | hq
        · exact h.frags q hq
        · subst hq
          refine ⟨buildT_annotated s f.sels f.tc, buildT_noLeafSub s f.sels f.tc, ?_, f, hd, rfl, rfl⟩
          cases hq : s.findType f.tc <;> simp [hq] at hk ⊢

theorem buildDocT_typed (s : TSchema) (ast : Ast) : DocTyped s ast (buildDocT s ast) := by
  unfold buildDocT
  suffices ∀ (l : List Def) (doc : TDoc), (∀ d ∈ l, d ∈ ast) → DocTyped s ast doc →
      DocTyped s ast (l.foldl (buildDefT s) doc) from
    this ast {} (fun _ h => h) ⟨by intro o ho; simp [TDoc.ops] at ho, by intro f hf; simp at hf⟩
  intro l
  induction l with
  | nil => intro doc _ h; simpa using h
  | cons d l ih =>
    intro doc hl h
    exact ih _ (fun e he => hl e (List.mem_cons_of_mem _ he))
      (buildDefT_typed s ast doc d (hl d (List.mem_cons_self ..)) h)

end Apollo.Typed
