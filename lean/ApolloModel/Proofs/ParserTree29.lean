import ApolloModel.Proofs.ParserTree28
import ApolloModel.Proofs.AstText5
/-
C08 growth (pipeline), part 29: the token-view bridging lemma — the reference parser's view of the lexer model's output
(`Ast.sigToks (lex none src)`, C08's text theorems) is the parser model's view of its token queue
(`sig (srcToks src)` through `astOfV`, the acceptance theorems).
-/
set_option linter.unusedSimpArgs false
set_option linter.unusedVariables false

namespace Apollo.Parse
open Apollo.Rowan hiding Str
open Apollo.Lex hiding Str

theorem sigItem_ign (t : Tok) (h : isIgnoredKind t.kind = true ∨ t.kind = .eof) : Ast.sigItem t.kind t.data = some none := by
  rcases h with h | h
  · cases hk : t.kind <;> simp [hk, isIgnoredKind] at h <;> simp [Ast.sigItem]
  · rw [h]; rfl

theorem sigItem_sig (t : Tok) (hd : t.kind = .stringValue → (Strs.decodeStringToken t.data).isSome = true)
    (h : isIgnoredKind t.kind = false) (he : t.kind ≠ .eof) : Ast.sigItem t.kind t.data = (astOfV t).map some := by
  by_cases hs : t.kind = .stringValue
  · obtain ⟨s, hs'⟩ := Option.isSome_iff_exists.mp (hd hs)
    simp [Ast.sigItem, astOfV, hs, hs']
  · cases hk : t.kind <;> simp [hk, isIgnoredKind] at h he hs <;> simp [Ast.sigItem, Ast.punctOfKind, astOfV, hk]

theorem map_cons_eq_some {α : Type} (o : Option (List α)) (a : α) (X : List α) :
    o.map (a :: ·) = some X ↔ ∃ X', X = a :: X' ∧ o = some X' := by
  cases o with
  | none => simp
  | some l =>
    simp only [Option.map_some, Option.some.injEq]
    constructor
    · intro h; exact ⟨l, h.symm, rfl⟩
    · rintro ⟨X', rfl, h⟩; rw [h]

/-- the two views of a token list agree -/
theorem sigToks_toks_iff : ∀ (q : List Tok), StrQ q → ∀ (X : List Ast.Tok),
    (Ast.sigToks (q.map (fun t => Lex.Item.tok t.kind t.data)) = some X ↔
      (q.filter (fun t => !isIgnoredKind t.kind && t.kind != .eof)).map astOfV = X.map some)
  | [], _, X => by
    simp only [List.map_nil, Ast.sigToks, List.filter_nil, Option.some.injEq]
    constructor
    · intro h; subst h; rfl
    · intro h; cases X with
      | nil => rfl
      | cons a b => cases h
  | t :: q, hstr, X => by
    have ih := sigToks_toks_iff q (fun x hx => hstr x (List.mem_cons_of_mem _ hx))
    by_cases hign : isIgnoredKind t.kind = true ∨ t.kind = .eof
    · have hf : (!isIgnoredKind t.kind && t.kind != .eof) = false := by
        rcases hign with h | h <;> simp [h]
      simp only [List.map_cons, Ast.sigToks, sigItem_ign t hign, List.filter_cons, hf, Bool.false_eq_true, if_false]
      exact ih X
    · have h1 : isIgnoredKind t.kind = false := by
        cases h : isIgnoredKind t.kind with
        | false => rfl
        | true => exact absurd (Or.inl h) hign
      have h2 : t.kind ≠ .eof := fun h => hign (Or.inr h)
      have hf : (!isIgnoredKind t.kind && t.kind != .eof) = true := by simp [h1, h2]
      simp only [List.map_cons, Ast.sigToks, sigItem_sig t (hstr t List.mem_cons_self) h1 h2, List.filter_cons, hf, if_true]
      cases ha : astOfV t with
      | none =>
        simp only [Option.map_none]
        constructor
        · intro h; cases h
        · intro h; cases X <;> simp at h
      | some a =>
        simp only [Option.map_some]
        rw [map_cons_eq_some]
        constructor
        · rintro ⟨X', rfl, h⟩
          simp only [List.map_cons]
          rw [(ih X').mp h]
        · intro h
          cases X with
          | nil => simp at h
          | cons x X' =>
            simp only [List.map_cons, List.cons.injEq, Option.some.injEq] at h
            exact ⟨X', by rw [h.1], (ih X').mpr h.2⟩

theorem sigToks_all_tok : ∀ (l : List Lex.Item) (X : List Ast.Tok), Ast.sigToks l = some X → ∀ it ∈ l, it.isErr = false
  | [], _, _ => by intro it h; cases h
  | .tok k d :: r, X, h => by
    intro it hit
    rcases List.mem_cons.mp hit with rfl | hit
    · rfl
    · simp only [Ast.sigToks] at h
      cases hs : Ast.sigItem k d with
      | none => rw [hs] at h; cases h
      | some o =>
        rw [hs] at h
        cases o with
        | none => exact sigToks_all_tok r X h it hit
        | some a =>
          simp only [] at h
          cases hr : Ast.sigToks r with
          | none => rw [hr] at h; cases h
          | some Y => exact sigToks_all_tok r Y hr it hit
  | .err _ :: r, X, h => by simp [Ast.sigToks] at h
  | .limit :: r, X, h => by simp [Ast.sigToks] at h

theorem items_of_all_tok : ∀ (l : List Lex.Item), (∀ it ∈ l, it.isErr = false) →
    l = (l.filterMap itemKD).map (fun p => Lex.Item.tok p.1 p.2)
  | [], _ => rfl
  | .tok k d :: r, h => by
    simp only [List.filterMap_cons, itemKD, List.map_cons]
    rw [← items_of_all_tok r (fun it hit => h it (List.mem_cons_of_mem _ hit))]
  | .err x :: r, h => by have := h (.err x) List.mem_cons_self; cases this
  | .limit :: r, h => by have := h .limit List.mem_cons_self; cases this

/-- a source without lexer error: the lexer model's output is the parser model's token queue -/
theorem lex_eq_srcToks (src : Str) (h : LexClean src) :
    lex none src = (srcToks src).map (fun t => Lex.Item.tok t.kind t.data) := by
  have h1 := items_of_all_tok (lex none src) ((lexClean_lex src).mp h)
  have h2 := srcToks_lex src
  unfold lexToks at h2
  rw [← h2, List.map_map] at h1
  exact h1

theorem astOfV_not_eof {t : Tok} {a : Ast.Tok} (h : astOfV t = some a) : t.kind ≠ .eof := by
  intro hk
  simp [astOfV, hk] at h

/-- **The token-view bridging lemma.**  The reference parser's reading `Ast.sigToks` of the lexer model's output is `X`
    exactly if the source has no lexer error and the parser model's significant tokens are (as `astOfV`) `X`, followed
    by the EOF token. -/
theorem sigToks_src_iff (src : Str) (X : List Ast.Tok) :
    Ast.sigToks (lex none src) = some X ↔
      LexClean src ∧ ∃ ts e, sig (srcToks src) = ts ++ [e] ∧ e.kind = .eof ∧ TokIs ts X := by
  obtain ⟨pre, e, hp, he, hno⟩ := stream_eof_end src.length (initState src none 0).lx (Nat.le_refl _) rfl rfl
  have hp' : srcToks src = pre ++ [e] := hp
  have hsig : sig (srcToks src) = sig pre ++ [e] := by
    rw [hp', sig_append]
    have : sig [e] = [e] := by simp [sig, isIgnoredKind, he]
    rw [this]
  have hfilter : (srcToks src).filter (fun t => !isIgnoredKind t.kind && t.kind != .eof) = sig pre := by
    rw [hp', List.filter_append]
    have h1 : [e].filter (fun t => !isIgnoredKind t.kind && t.kind != .eof) = [] := by simp [he]
    rw [h1, List.append_nil]
    unfold sig
    apply List.filter_congr
    intro t ht
    have := hno t ht
    simp [this]
  constructor
  · intro h
    have hclean : LexClean src := (lexClean_lex src).mpr (sigToks_all_tok _ X h)
    rw [lex_eq_srcToks src hclean] at h
    have := (sigToks_toks_iff (srcToks src) (strQ_srcToks src) X).mp h
    rw [hfilter] at this
    exact ⟨hclean, sig pre, e, hsig, he, this⟩
  · rintro ⟨hclean, ts, e', h1, h2, h3⟩
    rw [lex_eq_srcToks src hclean]
    apply (sigToks_toks_iff (srcToks src) (strQ_srcToks src) X).mpr
    rw [hfilter]
    have : ts = sig pre := by
      rw [hsig] at h1
      have hl := congrArg List.length h1
      simp at hl
      exact ((List.append_inj h1 (by omega)).1).symm
    rw [← this]
    exact h3

end Apollo.Parse
