import ApolloModel.Proofs.ParserExactC6
/-
EXACT-BUDGET COPY of ParserComplete7 (namespace Apollo.Parse.Exact, exact `vdepth`).
C05 / C07 growth (completeness), part 7: the recursive selection grammar — field (alias decision by
`peek_n(2)`), inline fragment, the selection loop (spread vs inline fragment by `peek_n(2)`), selection set.
-/
set_option linter.unusedSimpArgs false
namespace Apollo.Parse.Exact
open Apollo.Rowan hiding Str
open Apollo.Lex hiding Str

/-! ### sequencing when the second part is never empty -/

theorem cmp_bind_ne {α β : Type} {Hk : Kind → Prop} {m : PI α} {f : α → PI β} {L1 L2 : Nat → List Ast.Tok → Prop}
    {F1 F2 F : Kind → Prop} {Q1 : α → Prop} {Q : β → Prop}
    (h1 : Cmp Hk m L1 F1 Q1) (h2 : ∀ a, Q1 a → Cmp (fun _ => True) (f a) L2 F2 Q)
    (hhead : ∀ b a x2, L2 b (a :: x2) → F1 (kindOfA a)) (hne : ∀ b, ¬ L2 b []) (hF2 : ∀ k, F k → F2 k) :
    Cmp Hk (m >>= f) (fun b x => ∃ x1 x2, x = x1 ++ x2 ∧ L1 b x1 ∧ L2 b x2) F Q := by
  intro s s'' b c x q0 rest w hr hl hs ht hq hf hk
  obtain ⟨x1, x2, rfl, hl1, hl2⟩ := hl
  obtain ⟨a, s', hr1, hr2⟩ := bind_dec m f s s'' b hr
  cases x2 with
  | nil => exact absurd hl2 (hne _)
  | cons a2 x2 =>
    obtain ⟨c1, c2, rfl, s1, s2⟩ := spells_split hs (by simp)
    obtain ⟨t, tl, hc2, hta⟩ := spells_head s2
    have hkc : headK (c1 ++ c2) q0 = headK c1 t := by
      cases c1 with
      | nil => simp [headK, hc2]
      | cons u v => rfl
    obtain ⟨e1, t1, q1⟩ := h1 s s' a c1 x1 t (tl ++ q0 :: rest) w hr1 hl1 s1 (by rw [ht, hc2]; simp) (sigf_of_astOfV hta)
      (by rw [kind_of_astOfV hta]; exact hhead _ _ _ hl2) (by rw [← hkc]; exact hk)
    have hb : s'.recLimit - s'.recCur = s.recLimit - s.recCur := by rw [e1.recLimit, e1.recCur]
    obtain ⟨e2, t2, q2⟩ := h2 a q1 s' s'' b c2 (a2 :: x2) q0 rest e1.w hr2 (by rw [hb]; exact hl2) s2
      (by rw [t1, hc2]; simp) hq (hF2 _ hf) trivial
    exact ⟨e1.trans e2, t2, q2⟩

theorem cmp_optKind_ne {α : Type} {Hk : Kind → Prop} (k0 : Kind) (m : PI Unit) (rest : PI α)
    {Lm Lr : Nat → List Ast.Tok → Prop} {Fm Fr F : Kind → Prop} {Q : α → Prop}
    (hm : Cmp (fun _ => True) m Lm Fm (fun _ => True)) (hr : Cmp (fun _ => True) rest Lr Fr Q)
    (hmhead : ∀ b x, Lm b x → ∃ a x', x = a :: x' ∧ kindOfA a = k0)
    (hrhead : ∀ b a x, Lr b (a :: x) → kindOfA a ≠ k0 ∧ Fm (kindOfA a))
    (hne : ∀ b, ¬ Lr b []) (hF : ∀ k, F k → Fr k) :
    Cmp Hk (optKind k0 m rest) (fun b x => ∃ x1 x2, x = x1 ++ x2 ∧ (Lm b x1 ∨ x1 = []) ∧ Lr b x2) F Q := by
  intro s s' a c x q0 rst w hrun hl hs ht hq hf _
  obtain ⟨x1, x2, rfl, hl1, hl2⟩ := hl
  unfold optKind at hrun
  obtain ⟨ko, sP, hp, h2⟩ := bind_dec peek _ s s' a hrun
  obtain ⟨t, tl, htt, hkt⟩ := headK_toks c q0 rst
  obtain ⟨hko, eP, htP, _⟩ := peek_head s sP ko t tl w (by rw [ht]; exact htt) hp
  subst hko
  have hb : sP.recLimit - sP.recCur = s.recLimit - s.recCur := by rw [eP.recLimit, eP.recCur]
  have hTP : Toks sP = c ++ q0 :: rst := by rw [htP, ← htt]
  rcases hl1 with hlm | rfl
  · obtain ⟨a1, x1', rfl, hk1⟩ := hmhead _ _ hlm
    obtain ⟨t1, tl1, hc, hta⟩ := spells_head (x := x1' ++ x2) (by simpa using hs)
    have hkk : t.kind = k0 := by
      rw [hkt, hc]; simp only [headK]; rw [kind_of_astOfV hta, hk1]
    simp only [hkk, beq_self_eq_true, if_true] at h2
    have hcomb := cmp_bind_ne (Hk := fun _ => True) (F := F) hm (fun _ _ => hr)
      (fun b a x2 h => (hrhead b a x2 h).2) hne hF
    obtain ⟨e, t2, q⟩ := hcomb sP s' a c _ q0 rst eP.w h2 ⟨_, _, rfl, by rw [hb]; exact hlm, by rw [hb]; exact hl2⟩ hs hTP hq hf trivial
    exact ⟨by simpa using eP.trans e, t2, q⟩
  · have hkk : (some t.kind == some k0) = false := by
      have : t.kind ≠ k0 := by
        rw [hkt]
        cases x2 with
        | nil => exact absurd hl2 (hne _)
        | cons a2 x2' =>
          obtain ⟨t1, tl1, hc, hta⟩ := spells_head (x := x2') (by simpa using hs)
          rw [hc]; simp only [headK]; rw [kind_of_astOfV hta]
          exact (hrhead _ _ _ hl2).1
      simpa using this
    simp only [hkk, Bool.false_eq_true, if_false] at h2
    obtain ⟨e, t2, q⟩ := hr sP s' a c x2 q0 rst eP.w h2 (by rw [hb]; exact hl2) (by simpa using hs) hTP hq (hF _ hf) trivial
    exact ⟨by simpa using eP.trans e, t2, q⟩

/-! ### selections within a recursion budget -/

mutual
/-- the selection fits the budget `b`: every `{ … }` level costs one, argument values cost their nesting;
    also the two side conditions of the grammar: a spread name is not `on`, an inline fragment has selections -/
def fitSel : Ast.Sel → Nat → Prop
  | .field _ _ args dirs sels, b => argsFit false b args ∧ dirsFit false b dirs ∧ fitSub sels b
  | .spread nm dirs, b => nm ≠ Ast.sOn ∧ dirsFit false b dirs
  | .inline _ dirs sels, b => dirsFit false b dirs ∧ sels ≠ .nil ∧ 1 ≤ b ∧ fitSels sels (b - 1)
def fitSels : Ast.Sels → Nat → Prop
  | .nil, _ => True
  | .cons s tl, b => fitSel s b ∧ fitSels tl b
def fitSub : Ast.Sels → Nat → Prop
  | .nil, _ => True
  | .cons s tl, b => 1 ≤ b ∧ fitSel s (b - 1) ∧ fitSels tl (b - 1)
end

/-- `{ Selection+ }` -/
def LSet (b : Nat) (x : List Ast.Tok) : Prop :=
  ∃ ss, ss ≠ Ast.Sels.nil ∧ x = .p .lCurly :: Ast.tSels ss ++ [.p .rCurly] ∧ 1 ≤ b ∧ fitSels ss (b - 1)

def LFieldS (b : Nat) (x : List Ast.Tok) : Prop :=
  ∃ al nm args dirs sels, x = Ast.tSel (.field al nm args dirs sels) ∧ fitSel (.field al nm args dirs sels) b

def LInline (b : Nat) (x : List Ast.Tok) : Prop :=
  ∃ tc dirs sels, x = Ast.tSel (.inline tc dirs sels) ∧ fitSel (.inline tc dirs sels) b

def LSels (b : Nat) (x : List Ast.Tok) : Prop := ∃ ss, ss ≠ Ast.Sels.nil ∧ x = Ast.tSels ss ∧ fitSels ss b

/-- what may follow a selection: another selection, `}` or the end of input -/
def Fsel (k : Kind) : Prop := k = .name ∨ k = .spread ∨ k = .rCurly ∨ k = .eof

def SetComp (n : Nat) : Prop := Cmp (fun _ => True) (selectionSet n) LSet (fun _ => True) (fun _ => True)
def FieldSComp (n : Nat) : Prop := Cmp (fun _ => True) (field n) LFieldS Fsel (fun _ => True)
def InlineComp (n : Nat) : Prop := Cmp (fun _ => True) (inlineFragment n) LInline (fun _ => True) (fun _ => True)
def SelsComp (n : Nat) : Prop := Cmp (fun _ => True) (selection n) LSels (fun k => k = .rCurly ∨ k = .eof) (fun _ => True)

theorem lset_head {b : Nat} {x : List Ast.Tok} (h : LSet b x) : ∃ x', x = .p .lCurly :: x' := by
  obtain ⟨ss, _, rfl, _⟩ := h; exact ⟨_, rfl⟩

theorem lset_ne (b : Nat) : ¬ LSet b [] := by
  intro h; obtain ⟨x', e⟩ := lset_head h; cases e

theorem tSubSels_fit (sels : Ast.Sels) (b : Nat) (h : fitSub sels b) : LSet b (Ast.tSubSels sels) ∨ Ast.tSubSels sels = [] := by
  cases sels with
  | nil => right; simp [Ast.tSubSels]
  | cons f tl =>
    left
    rw [fitSub] at h
    exact ⟨.cons f tl, by simp, Ast.tSubSels_cons f tl, h.1, by rw [fitSels]; exact ⟨h.2.1, h.2.2⟩⟩

/-! ### the tail of a field: `Arguments? Directives? SelectionSet?` -/

def LDirsNe (b : Nat) (x : List Ast.Tok) : Prop := ∃ ds, ds ≠ [] ∧ x = Ast.tDirectives ds ∧ dirsFit false b ds

theorem cmp_directivesNe (n : Nat) :
    Cmp (fun _ => True) (directives n false) LDirsNe (fun k => k ≠ .at ∧ k ≠ .lParen) (fun _ => True) :=
  (directives_complete n false).mono (fun _ h => h) (by rintro b x ⟨ds, _, rfl, h⟩; exact ⟨ds, rfl, h⟩) (fun _ h => h) (fun _ h => h)

theorem ldirsNe_head {b : Nat} {x : List Ast.Tok} (h : LDirsNe b x) : ∃ a x', x = a :: x' ∧ kindOfA a = .at := by
  obtain ⟨ds, hne, rfl, _⟩ := h
  obtain ⟨x', e⟩ := tDirectives_head ds hne
  exact ⟨_, x', e, rfl⟩

theorem ldirs_split (b : Nat) (ds : List Ast.Directive) (h : dirsFit false b ds) :
    LDirsNe b (Ast.tDirectives ds) ∨ Ast.tDirectives ds = [] := by
  by_cases hne : ds = []
  · subst hne; right; rfl
  · left; exact ⟨ds, hne, rfl, h⟩

theorem largs_split (b : Nat) (args : List (Ast.Str × Ast.Value)) (h : argsFit false b args) :
    LArgs false b (Ast.tArguments args) ∨ Ast.tArguments args = [] := by
  by_cases hne : args = []
  · subst hne; right; rfl
  · left; exact ⟨args, hne, rfl, h⟩

theorem largs_head {b : Nat} {x : List Ast.Tok} (h : LArgs false b x) : ∃ a x', x = a :: x' ∧ kindOfA a = .lParen := by
  obtain ⟨args, hne, rfl, _⟩ := h
  cases args with
  | nil => exact absurd rfl hne
  | cons a r => exact ⟨.p .lParen, Ast.tArgItems (a :: r) ++ [.p .rParen], by simp [Ast.tArguments], rfl⟩

def F2 (k : Kind) : Prop := k ≠ .at ∧ k ≠ .lParen ∧ k ≠ .lCurly

def LT3 (b : Nat) (x : List Ast.Tok) : Prop := LSet b x ∨ x = []
def LT2 (b : Nat) (x : List Ast.Tok) : Prop := ∃ x1 x2, x = x1 ++ x2 ∧ (LDirsNe b x1 ∨ x1 = []) ∧ LT3 b x2
def LT1 (b : Nat) (x : List Ast.Tok) : Prop := ∃ x1 x2, x = x1 ++ x2 ∧ (LArgs false b x1 ∨ x1 = []) ∧ LT2 b x2

theorem cmp_fieldT3 (n : Nat) (ih : SetComp n) :
    Cmp (fun _ => True) (fieldT3 n) LT3 (fun k => k ≠ .lCurly) (fun _ => True) := by
  have := cmp_optU (Hk := fun _ => True) .lCurly (selectionSet n) ih
    (by intro b x h; obtain ⟨x', e⟩ := lset_head h; exact ⟨_, x', e, rfl⟩)
  exact this.mono (fun _ h => h) (fun _ _ h => h) (fun _ h => ⟨h, trivial⟩) (fun _ h => h)

theorem lt3_head {b : Nat} {a : Ast.Tok} {x : List Ast.Tok} (h : LT3 b (a :: x)) : a = .p .lCurly := by
  rcases h with h | h
  · obtain ⟨x', e⟩ := lset_head h; injection e
  · cases h

theorem cmp_fieldT2 (n : Nat) (ih : SetComp n) : Cmp (fun _ => True) (fieldT2 n) LT2 F2 (fun _ => True) := by
  have := cmp_optKind (Hk := fun _ => True) (F := F2) .at (directives n false) (fieldT3 n) (cmp_directivesNe n) (cmp_fieldT3 n ih)
    (fun b x h => ldirsNe_head h)
    (by intro b a x h; rw [lt3_head h]; simp [kindOfA])
    (by intro k h; exact ⟨h.1, ⟨h.1, h.2.1⟩, h.2.2⟩)
  exact this

theorem lt2_head {b : Nat} {a : Ast.Tok} {x : List Ast.Tok} (h : LT2 b (a :: x)) : a = .p .lCurly ∨ a = .p .at := by
  obtain ⟨x1, x2, e, h1, h2⟩ := h
  rcases h1 with h1 | rfl
  · obtain ⟨a', x', rfl, hk⟩ := ldirsNe_head h1
    obtain ⟨ds, hne, e2, _⟩ := h1
    obtain ⟨x'', e3⟩ := tDirectives_head ds hne
    rw [e3] at e2
    simp only [List.cons_append] at e
    injection e with e _; injection e2 with e2 _
    right; rw [e, e2]
  · simp only [List.nil_append] at e
    subst e
    left; exact lt3_head h2

theorem cmp_fieldT1 (n : Nat) (ih : SetComp n) : Cmp (fun _ => True) (fieldT1 n) LT1 F2 (fun _ => True) := by
  have := cmp_optKind (Hk := fun _ => True) (F := F2) .lParen (arguments n false) (fieldT2 n) (arguments_complete n false) (cmp_fieldT2 n ih)
    (fun b x h => largs_head h)
    (by intro b a x h; rcases lt2_head h with e | e <;> subst e <;> simp [kindOfA])
    (by intro k h; exact ⟨h.2.1, trivial, h⟩)
  exact this

/-- the tail of a field in terms of its parts -/
theorem lt1_of_parts (b : Nat) (args : List (Ast.Str × Ast.Value)) (dirs : List Ast.Directive) (sels : Ast.Sels)
    (ha : argsFit false b args) (hd : dirsFit false b dirs) (hs : fitSub sels b) :
    LT1 b (Ast.tArguments args ++ Ast.tDirectives dirs ++ Ast.tSubSels sels) :=
  ⟨_, _, by rw [List.append_assoc], largs_split b args ha, _, _, rfl, ldirs_split b dirs hd, tSubSels_fit sels b hs⟩

theorem lt1_head {b : Nat} {a : Ast.Tok} {x : List Ast.Tok} (h : LT1 b (a :: x)) : kindOfA a ≠ .colon := by
  obtain ⟨x1, x2, e, h1, h2⟩ := h
  rcases h1 with h1 | rfl
  · obtain ⟨a', x', rfl, hk⟩ := largs_head h1
    simp only [List.cons_append] at e
    injection e with e _
    rw [e, hk]; decide
  · simp only [List.nil_append] at e
    subst e
    rcases lt2_head h2 with e | e <;> subst e <;> simp [kindOfA]

/-! ### field: the alias decision -/

theorem f2_of_fsel {k : Kind} (h : Fsel k) : F2 k := by
  rcases h with h | h | h | h <;> subst h <;> simp [F2]

theorem field_comp_step (n : Nat) (ih : SetComp n) : FieldSComp (n + 1) := by
  unfold FieldSComp
  rw [field_succ]
  refine cmp_withNode _ ?_
  intro s s' u c x q0 rest w hr hl hs ht hq hf _
  obtain ⟨al, nm, args, dirs, sels, rfl, hfit⟩ := hl
  rw [fitSel] at hfit
  have htail := lt1_of_parts _ args dirs sels hfit.1 hfit.2.1 hfit.2.2
  generalize htl : Ast.tArguments args ++ Ast.tDirectives dirs ++ Ast.tSubSels sels = tail at htail
  have hf2 : F2 q0.kind := f2_of_fsel hf
  have hqc : q0.kind ≠ .colon := by rcases hf with h | h | h | h <;> rw [h] <;> decide
  have hNT : Cmp (fun _ => True) (name >>= fun _ => fieldT1 n)
      (fun b x => ∃ x1 x2, x = x1 ++ x2 ∧ (∃ n, x1 = [.name n]) ∧ LT1 b x2) F2 (fun _ => True) :=
    cmp_bind (Hk := fun _ => True) (F1 := fun _ => True) cmp_name (fun _ _ => cmp_fieldT1 n ih)
      (fun _ _ _ _ => trivial) (fun _ _ => trivial) (fun _ h => h)
  unfold fieldBody at hr
  cases al with
  | none =>
    have hx : Ast.tSel (.field none nm args dirs sels) = .name nm :: tail := by
      simp [Ast.tSel, ← htl, List.append_assoc]
    rw [hx] at hs
    obtain ⟨t, i, c', rfl, hta, hi, hs'⟩ := spells_cons hs
    have hkt : t.kind = .name := kind_of_astOfV hta
    obtain ⟨ko, sP, hp, h2⟩ := bind_dec peek _ s s' u hr
    obtain ⟨rfl, eP, htP, hcur⟩ := peek_head s sP ko t (i ++ (c' ++ q0 :: rest)) w (by rw [ht]; simp) hp
    have hb : sP.recLimit - sP.recCur = s.recLimit - s.recCur := by rw [eP.recLimit, eP.recCur]
    simp only [hkt, beq_self_eq_true, if_true] at h2
    obtain ⟨k2, sQ, hq2, h3⟩ := bind_dec (peekN 2) _ sP s' u h2
    obtain ⟨hsQ, hk2⟩ := peekN2_spec sP sQ k2 t _ eP.w hcur htP (sigf_of_astOfV hta) hq2
    subst hsQ
    obtain ⟨t2, hh, hor⟩ := sig_head_after i c' q0 rest tail hi hs' hq
    have hnc : (k2 == some Kind.colon) = false := by
      rw [hk2, hh]; simp only [Option.map_some]
      rcases hor with ⟨_, rfl⟩ | ⟨a2, x', rfl, hta2⟩
      · simpa using hqc
      · rw [kind_of_astOfV hta2]; simpa using lt1_head htail
    simp only [hnc, Bool.false_eq_true, if_false] at h3
    obtain ⟨e, t3, _⟩ := hNT _ s' u (t :: i ++ c') _ q0 rest eP.w h3 ⟨[.name nm], tail, rfl, ⟨nm, rfl⟩, by rw [hb]; exact htail⟩
      hs (by rw [htP]; simp) hq hf2 trivial
    exact ⟨by simpa using eP.trans e, t3, trivial⟩
  | some a =>
    have hx : Ast.tSel (.field (some a) nm args dirs sels) = .name a :: (.p .colon :: .name nm :: tail) := by
      simp [Ast.tSel, ← htl, List.append_assoc]
    rw [hx] at hs
    obtain ⟨t, i, c', rfl, hta, hi, hs'⟩ := spells_cons hs
    have hkt : t.kind = .name := kind_of_astOfV hta
    obtain ⟨ko, sP, hp, h2⟩ := bind_dec peek _ s s' u hr
    obtain ⟨rfl, eP, htP, hcur⟩ := peek_head s sP ko t (i ++ (c' ++ q0 :: rest)) w (by rw [ht]; simp) hp
    have hb : sP.recLimit - sP.recCur = s.recLimit - s.recCur := by rw [eP.recLimit, eP.recCur]
    simp only [hkt, beq_self_eq_true, if_true] at h2
    obtain ⟨k2, sQ, hq2, h3⟩ := bind_dec (peekN 2) _ sP s' u h2
    obtain ⟨hsQ, hk2⟩ := peekN2_spec sP sQ k2 t _ eP.w hcur htP (sigf_of_astOfV hta) hq2
    subst hsQ
    obtain ⟨t2, hh, hor⟩ := sig_head_after i c' q0 rest _ hi hs' hq
    have hc : (k2 == some Kind.colon) = true := by
      rw [hk2, hh]; simp only [Option.map_some]
      rcases hor with ⟨h, _⟩ | ⟨a2, x', e, hta2⟩
      · cases h
      · injection e with e _
        subst e
        rw [kind_of_astOfV hta2]; rfl
    simp only [hc, if_true] at h3
    have hANT := cmp_bind (Hk := fun _ => True) (F := F2) (F1 := fun _ => True) cmp_alias (fun _ _ => hNT)
      (fun _ _ _ _ => trivial) (fun _ _ => trivial) (fun _ h => h)
    obtain ⟨e, t3, _⟩ := hANT _ s' u (t :: i ++ c') _ q0 rest eP.w h3
      ⟨[.name a, .p .colon], .name nm :: tail, rfl, ⟨a, rfl⟩, [.name nm], tail, rfl, ⟨nm, rfl⟩, by rw [hb]; exact htail⟩
      hs (by rw [htP]; simp) hq hf2 trivial
    exact ⟨by simpa using eP.trans e, t3, trivial⟩

/-! ### inline fragment -/

def LI2 (b : Nat) (x : List Ast.Tok) : Prop := ∃ x1 x2, x = x1 ++ x2 ∧ (LDirsNe b x1 ∨ x1 = []) ∧ LSet b x2
def LTc (_ : Nat) (x : List Ast.Tok) : Prop := ∃ n, x = [.name Ast.sOn, .name n]
def LI1 (b : Nat) (x : List Ast.Tok) : Prop := ∃ x1 x2, x = x1 ++ x2 ∧ (LTc b x1 ∨ x1 = []) ∧ LI2 b x2

theorem cmp_inlT3 (n : Nat) (ih : SetComp n) : Cmp (fun _ => True) (inlT3 n) LSet (fun _ => True) (fun _ => True) := by
  unfold inlT3
  apply cmp_peek
  intro k _
  apply cmp_ite
  · intro _
    exact ih.mono (fun _ _ => trivial) (fun _ _ h => h) (fun _ h => h) (fun _ h => h)
  · intro hk
    apply cmp_absurd
    intro b x cc q0 hl hs _ hkk
    obtain ⟨x', rfl⟩ := lset_head hl
    obtain ⟨t, tl, rfl, hta⟩ := spells_head hs
    simp only [headK] at hkk
    rw [kind_of_astOfV hta] at hkk
    simp [← hkk, kindOfA] at hk

theorem li2_head {b : Nat} {a : Ast.Tok} {x : List Ast.Tok} (h : LI2 b (a :: x)) : a = .p .lCurly ∨ a = .p .at := by
  obtain ⟨x1, x2, e, h1, h2⟩ := h
  rcases h1 with h1 | rfl
  · obtain ⟨ds, hne, e2, _⟩ := h1
    obtain ⟨x'', e3⟩ := tDirectives_head ds hne
    rw [e3] at e2
    subst e2
    simp only [List.cons_append] at e
    injection e with e _
    right; exact e
  · simp only [List.nil_append] at e
    subst e
    obtain ⟨x', e⟩ := lset_head h2
    injection e with e _
    left; exact e

theorem li2_ne (b : Nat) : ¬ LI2 b [] := by
  rintro ⟨x1, x2, e, _, h2⟩
  obtain ⟨x', rfl⟩ := lset_head h2
  cases x1 <;> simp at e

theorem cmp_inlT2 (n : Nat) (ih : SetComp n) : Cmp (fun _ => True) (inlT2 n) LI2 (fun _ => True) (fun _ => True) := by
  have := cmp_optKind_ne (Hk := fun _ => True) (F := fun _ => True) .at (directives n false) (inlT3 n) (cmp_directivesNe n) (cmp_inlT3 n ih)
    (fun b x h => ldirsNe_head h)
    (by intro b a x h; obtain ⟨x', e⟩ := lset_head h; injection e with e _; subst e; simp [kindOfA])
    lset_ne (fun _ h => h)
  exact this

theorem li1_ne (b : Nat) : ¬ LI1 b [] := by
  rintro ⟨x1, x2, e, _, h2⟩
  cases x2 with
  | nil => exact li2_ne b h2
  | cons a r => cases x1 <;> simp at e

theorem cmp_inl1 (n : Nat) (ih : SetComp n) :
    Cmp (fun _ => True) (optKind .name typeCondition (inlT2 n)) LI1 (fun _ => True) (fun _ => True) :=
  cmp_optKind_ne (Hk := fun _ => True) (F := fun _ => True) .name typeCondition (inlT2 n) cmp_typeCondition (cmp_inlT2 n ih)
    (by rintro b x ⟨nn, rfl⟩; exact ⟨_, _, rfl, rfl⟩)
    (by intro b a x h; rcases li2_head h with e | e <;> subst e <;> simp [kindOfA])
    li2_ne (fun _ h => h)

theorem inlineBody_eq (n : Nat) : inlineBody n = (bump "SPREAD" >>= fun _ => optKind .name typeCondition (inlT2 n)) := rfl

theorem inline_comp_step (n : Nat) (ih : SetComp n) : InlineComp (n + 1) := by
  unfold InlineComp
  rw [inlineFragment_succ, inlineBody_eq]
  refine cmp_withNode _ ?_
  have h := cmp_bind_ne (Hk := fun _ => True) (F := fun _ => True) (cmp_bump "SPREAD") (fun _ _ => cmp_inl1 n ih)
    (fun _ _ _ _ => trivial) li1_ne (fun _ h => h)
  refine h.mono (fun _ h => h) ?_ (fun _ h => h) (fun _ h => h)
  rintro b x ⟨tc, dirs, sels, rfl, hfit⟩
  rw [fitSel] at hfit
  obtain ⟨hd, hne, hb1, hfs⟩ := hfit
  have hset : LSet b (.p .lCurly :: Ast.tSels sels ++ [.p .rCurly]) := ⟨sels, hne, rfl, hb1, hfs⟩
  have h2 : LI2 b (Ast.tDirectives dirs ++ (.p .lCurly :: Ast.tSels sels ++ [.p .rCurly])) :=
    ⟨_, _, rfl, ldirs_split b dirs hd, hset⟩
  cases tc with
  | none =>
    exact ⟨[.p .spread], _, by simp [Ast.tSel], ⟨_, rfl⟩, [], _, rfl, Or.inr rfl, h2⟩
  | some tn =>
    exact ⟨[.p .spread], _, by simp [Ast.tSel], ⟨_, rfl⟩, [.name Ast.sOn, .name tn], _, rfl, Or.inl ⟨tn, rfl⟩, h2⟩

end Apollo.Parse.Exact
