import ApolloModel.Proofs.ParserTree6
import ApolloModel.Proofs.LexerTokens
/-
C08 growth (pipeline), part 7: the lexer facts `LQ` for the queue of every source, and the type entry point:
the tree `Parser::parse_type` returns for an accepted source is `TyTree t`, `t` the type its tokens spell.
-/
set_option linter.unusedSimpArgs false
set_option linter.unusedVariables false
namespace Apollo.Parse
open Apollo.Rowan hiding Str
open Apollo.Lex hiding Str
open Apollo.FromCst (TyTree)

/-! ### every Name token the lexer produces is a valid name -/

theorem nameStart_agree (c : Char) : Apollo.isNameStart c = Lex.isNameStart c := by
  rw [Bool.eq_iff_iff]
  simp only [Apollo.isNameStart, Apollo.isAsciiAlpha, Lex.isNameStart, Bool.or_eq_true, Bool.and_eq_true,
    decide_eq_true_eq, char_le_iff, char_beq, Char.reduceToNat, beq_iff_eq]
  omega

theorem nameContinue_agree (c : Char) : Apollo.isNameContinue c = Lex.isNameContinue c := by
  rw [Bool.eq_iff_iff]
  simp only [Apollo.isNameContinue, Apollo.isAsciiAlpha, Apollo.isAsciiDigit, Lex.isNameContinue, Bool.or_eq_true,
    Bool.and_eq_true, decide_eq_true_eq, char_le_iff, char_beq, Char.reduceToNat, beq_iff_eq]
  try omega

theorem lexAux_nameValid : ∀ (fuel count : Nat) (src : Str), ∀ it ∈ lexAux fuel none count src,
    ∀ (d : Str), it = .tok .name d → isValidName d = true
  | 0, _, _ => by intro it hit; simp [lexAux] at hit
  | fuel + 1, count, [] => by
    intro it hit d e
    simp [lexAux] at hit
    rw [hit] at e
    cases e
  | fuel + 1, count, c0 :: rest0 => by
    intro it hit d e
    simp only [lexAux, Bool.false_eq_true, if_false, List.mem_cons] at hit
    rcases hit with hit | hit
    · cases hadv : advance (c0 :: rest0) with
      | mk item r =>
        rw [hadv] at hit
        simp only [] at hit
        rw [e] at hit
        rw [← hit] at hadv
        have hok := advance_token_sound c0 rest0 .name d r hadv
        obtain ⟨⟨c, cs, rfl, hc, hcs⟩, _⟩ := hok
        simp only [isValidName, Bool.and_eq_true]
        refine ⟨?_, ?_⟩
        · rw [nameStart_agree, (classes_agree c).2]; exact hc
        · rw [List.all_eq_true] at hcs ⊢
          intro x hx
          rw [nameContinue_agree, ← specNameContinue_eq]; exact hcs x hx
    · exact lexAux_nameValid fuel (count + 1) _ it hit d e

theorem nameQ_srcToks (src : Str) : NameQ (srcToks src) := by
  intro t ht hk
  have hm : (t.kind, t.data) ∈ lexToks src := by
    rw [← srcToks_lex src]
    exact List.mem_map.mpr ⟨t, ht, rfl⟩
  unfold lexToks at hm
  obtain ⟨it, hit, hkd⟩ := List.mem_filterMap.mp hm
  cases it with
  | tok k d =>
    simp only [itemKD, Option.some.injEq, Prod.mk.injEq] at hkd
    have := lexAux_nameValid _ _ _ (.tok k d) hit d (by rw [hkd.1, hk])
    rw [← hkd.2]; exact this
  | err _ => simp [itemKD] at hkd
  | limit => simp [itemKD] at hkd

/-- the queue the parser starts with satisfies the lexer facts, for every source text -/
theorem lq_srcToks (src : Str) : LQ (srcToks src) := ⟨lexQ_srcToks src, nameQ_srcToks src, strQ_srcToks src⟩

/-! ### exactly one element: nothing but what was pending comes in front of the type's node -/

theorem withNode_exact {α : Type} (kind : SK) (body : PI α) (s : PState) (hi : Inv s) (a : α) (s' : PState)
    (hr : (withNode kind body).run s = .ok a s') :
    ∃ inner, s'.builder.children = s.builder.children ++ s.pending.map pendingElem ++ [Elem.node kind inner] := by
  obtain ⟨_, _, inner, _, _, _, _, _, _, hout⟩ := withNode_tree kind body s hi a s' hr
  exact ⟨inner, hout⟩

theorem tyBody_exact (n : Nat) (s s' : PState) (st : St s) (h : (tyBody n).run s = .ok TyRes.ok s') (hnd : ¬ Doomed s') :
    ∃ e, s'.builder.children = s.builder.children ++ s.pending.map pendingElem ++ [e] := by
  unfold tyBody at h
  obtain ⟨k, sP, hp, h2⟩ := bind_dec peek _ s s' _ h
  obtain ⟨o, p, hk⟩ := peek_obs s sP k st.w hp
  subst hk
  have hiP := (run_inv_added peek s st.inv _ sP hp).1
  have hbP : sP.builder = s.builder := keeps_peek s _ sP hp
  have hndP : ¬ Doomed sP := fun d => hnd ((good_tyBody n (good_tyParse n) s _ s' st.w h).doom (p.doom.mp d))
  have hpP : sP.pending = s.pending := by
    unfold peek at hp
    obtain ⟨o', sQ, hq, hq2⟩ := bind_dec peekToken _ s sP _ hp
    rw [run_pure] at hq2
    injection hq2 with _ hq3
    subst hq3
    exact peekToken_pending s sQ o' hq hndP
  cases o with
  | none =>
    simp only [Option.map_none] at h2
    rw [run_pure] at h2
    injection h2 with h2 _
    cases h2
  | some t =>
    simp only [Option.map_some] at h2
    by_cases hkl : t.kind = .lBracket
    · simp only [hkl] at h2
      obtain ⟨inner, hout⟩ := withNode_exact _ _ sP hiP _ s' h2
      exact ⟨_, by rw [hout, hbP, hpP]⟩
    · by_cases hkn : t.kind = .name
      · simp only [hkn] at h2
        obtain ⟨inner, hout⟩ := withNode_exact _ _ sP hiP _ s' h2
        exact ⟨_, by rw [hout, hbP, hpP]⟩
      · exfalso
        have hcur : sP.current = some t := p.current
        cases hk : t.kind <;>
          first
            | exact absurd hk hkl
            | exact absurd hk hkn
            | (simp only [hk] at h2; have := otherBranch_sound sP s' _ t hcur p.w h2; cases this)

theorem tyParse_exact : ∀ (n : Nat) (s s' : PState), St s → (tyParse n).run s = .ok TyRes.ok s' → ¬ Doomed s' →
    ∃ e, s'.builder.children = s.builder.children ++ s.pending.map pendingElem ++ [e]
  | 0, s, s', _, h, _ => by simp [tyParse, PI.outOfFuel] at h
  | n + 1, s, s', st, h, hnd => by
    rw [tyParse_succ] at h
    obtain ⟨r0, sW, hw, h2⟩ := bind_dec _ _ s s' _ h
    have gW : Good (wrapIf "NON_NULL_TYPE" (tyBody n) tyCond (eat "BANG")) :=
      good_wrapIf _ _ _ _ (good_tyBody n (good_tyParse n)) good_tyCond (good_eat _)
    have aW := gW s r0 sW st.w hw
    obtain ⟨s1, s2, s3, c, o1, hi1, hp1, hc1, hb, hc, hrest⟩ := wrapIf_tree _ _ _ _ s sW r0 st.inv hw
    have st1 : St s1 := st.obs o1 hi1
    have a2 := good_tyBody n (good_tyParse n) s1 r0 s2 st1.w hb
    have a3 := good_tyCond r0 s2 c s3 a2.w hc
    have hk3 : s3.builder = s2.builder := keeps_tyCond r0 s2 c s3 hc
    cases r0 with
    | ok =>
      simp only [] at h2
      obtain ⟨_, sF, hf, h3⟩ := bind_dec skipIgnored _ sW s' _ h2
      rw [run_pure] at h3
      injection h3 with _ h4
      subst h4
      have hbF : sF.builder = sW.builder := keeps_skipIgnored sW () sF hf
      have aF := good_skipIgnored sW () sF aW.w hf
      have hndW : ¬ Doomed sW := fun d => hnd (aF.doom d)
      rcases hrest with ⟨_, rfl⟩ | ⟨_, s4, s5, abc, a3', _, _, _, _, _, _, _, _, hout⟩
      · have hnd2 : ¬ Doomed s2 := fun d => hndW (a3.doom d)
        obtain ⟨e, he⟩ := tyBody_exact n s1 s2 st1 hb hnd2
        exact ⟨e, by rw [hbF, hk3, he, hc1, hp1]; simp⟩
      · exact ⟨_, by rw [hbF, hout, hc1]⟩
    | errTok tk => simp only [] at h2; rw [run_pure] at h2; injection h2 with h2 _; cases h2
    | errNone => simp only [] at h2; rw [run_pure] at h2; injection h2 with h2 _; cases h2
    | early => simp only [] at h2; rw [run_pure] at h2; injection h2 with h2 _; cases h2

theorem sigE_singleton_eq {junk : List Elem} {e e0 : Elem} (hj : sigE junk = []) (h : sigE (junk ++ [e]) = [e0]) : e = e0 := by
  rw [sigE_append, hj, List.nil_append] at h
  unfold sigE at h
  simp only [List.filter_cons, List.filter_nil] at h
  split at h
  · simpa using h
  · cases h

/-! ### `Parser::parse_type` -/

theorem keeps_expectEndOfInput : Keeps expectEndOfInput := by
  unfold expectEndOfInput
  refine keeps_bind _ _ keeps_skipIgnored (fun _ => keeps_bind _ _ keeps_peek (fun k => ?_))
  unfold errUnlessEnd
  exact keeps_ite _ _ _ (keeps_pure _) keeps_err

/-- `expect_end_of_input` without a new error: what is left of the queue is ignored tokens and the EOF token -/
theorem expectEnd_eof (sT s : PState) (wT : TW sT) (heT : EofEnd sT) (h2 : expectEndOfInput.run sT = .ok () s)
    (hnd : ¬ Doomed s) : ∃ ign e, Toks sT = ign ++ [e] ∧ (∀ t ∈ ign, isIgnoredKind t.kind = true) ∧ e.kind = .eof := by
  unfold expectEndOfInput at h2
  obtain ⟨_, sK, hK, h4⟩ := bind_dec skipIgnored _ sT s () h2
  obtain ⟨ign, eK, hall, hset⟩ := skipIgnored_spec sT sK wT hK
  obtain ⟨k, sP, hP, h5⟩ := bind_dec peek _ sK s () h4
  obtain ⟨o, p, hk⟩ := peek_obs sK sP k eK.w hP
  have heK : EofEnd sK := eofEnd_eat heT eK (noEof_ignored ign hall)
  have hndK : ¬ Doomed sK := by
    intro d
    have : Good (errUnlessEnd k) := by unfold errUnlessEnd; split; exact good_pure _; exact good_err
    exact hnd ((this sP () s p.w h5).doom (p.doom.mpr d))
  have hhead : ∃ e, Toks sK = [e] ∧ e.kind = .eof := by
    rcases heK with d | ⟨pre, e, hq, hek, hnoe⟩
    · exact absurd d hndK
    · cases o with
      | none =>
        exfalso
        have hh := p.head
        rw [hq] at hh
        cases pre <;> cases hh
      | some t' =>
        have hkind : t'.kind = .eof := by
          subst hk
          unfold errUnlessEnd at h5
          by_cases hke : t'.kind = .eof
          · exact hke
          · exfalso
            have : (some t'.kind == none || some t'.kind == some Kind.eof) = false := by simp [hke]
            simp only [Option.map_some, this, Bool.false_eq_true, if_false] at h5
            have hne : Toks sP ≠ [] := by rw [p.toks, hq]; simp
            exact hnd ((err_adv sP s p.w h5).2 hne)
        have hh := p.head
        rw [hq] at hh
        cases pre with
        | nil => exact ⟨e, hq, hek⟩
        | cons x pre =>
          exfalso
          simp only [List.cons_append, List.head?_cons, Option.some.injEq] at hh
          subst hh
          exact hnoe t' (by simp) hkind
  obtain ⟨e, hq, hek⟩ := hhead
  exact ⟨ign, e, by rw [eK.toks, hq], hall, hek⟩

/-- **The tree of an accepted type.**  If `Parser::parse_type` (model; no token limit, any recursion limit) returns a
    tree and no error, the source lexes cleanly, its significant tokens are `tTy t ++ [EOF]` for a type reference `t`,
    and the tree returned IS `TyTree t`: `NAMED_TYPE[NAME[IDENT]]`, `LIST_TYPE[ [ Type ] ]`, `NON_NULL_TYPE[Type !]`
    with junk tokens (whitespace, comments, commas) between the children only. -/
theorem parseType_cst (rl : Nat) (src : Str) (root : Elem)
    (h : (parse .type none rl src).outcome = .tree root) (herr : (parse .type none rl src).errors = []) :
    LexClean src ∧ ∃ t ts e, sig (srcToks src) = ts ++ [e] ∧ e.kind = .eof ∧ TokIs ts (Ast.tTy t) ∧ TyTree t root := by
  unfold parse runEntry at h herr
  simp only [Entry.standalone, Entry.grammar] at h herr
  generalize hs0 : ({ initState src none rl with builder := (initState src none rl).builder.startNode "NAMED_TYPE" } : PState) = s0 at h herr
  have hinv : Inv s0 := by
    subst hs0
    exact ⟨fun _ => by simp [initState, Builder.new, Builder.startNode, textList, pendingText, curText],
      fun p hp => by simp [initState, Builder.new, Builder.startNode] at hp; simp [hp, initState, Builder.new],
      fun h => by simp [initState] at h, fun t h => by simp [initState] at h, fun h => by simp [initState] at h⟩
  have w0 : TW s0 := by subst hs0; exact ⟨rfl, by intro h; simp [initState] at h⟩
  have htoks : Toks s0 = srcToks src := by subst hs0; rfl
  have hch0 : s0.builder.children = [] := by subst hs0; rfl
  have hpa0 : s0.builder.parents = [("NAMED_TYPE", 0)] := by subst hs0; rfl
  have hpe0 : s0.pending = [] := by subst hs0; rfl
  have hdoom : Doomed s0 ↔ ¬ LexClean src := by
    subst hs0
    unfold Doomed LexClean
    show ([] ≠ [] ∨ hasErr (stream (initState src none rl).lx) = true) ↔ _
    have : (initState src none rl).lx = (initState src none 0).lx := rfl
    rw [this]
    constructor
    · rintro (h | h)
      · exact absurd rfl h
      · simp [h]
    · intro h; right; simpa using h
  have he0 : EofEnd s0 := by
    right
    obtain ⟨pre, e, hp, he, hno⟩ := stream_eof_end src.length (initState src none 0).lx (Nat.le_refl _) rfl rfl
    exact ⟨pre, e, by rw [htoks]; exact hp, he, hno⟩
  have st0 : St s0 := ⟨w0, hinv, he0, by rw [htoks]; exact lq_srcToks src⟩
  cases hr : (ty (fuelFor src) >>= fun _ => expectEndOfInput).run s0 with
  | abort w => simp [hr] at h
  | panic m => simp [hr] at h
  | ok a s =>
    simp only [hr] at h herr
    obtain ⟨hnd0, t0, ts, e, h1, h2, h3⟩ := type_sound_run (fuelFor src) s0 s hinv w0 he0 hr herr
    have hclean : LexClean src := by
      by_cases hc : LexClean src
      · exact hc
      · exact absurd (hdoom.mpr hc) hnd0
    refine ⟨hclean, ?_⟩
    -- the run, step by step
    obtain ⟨_, s1, hty, hend⟩ := bind_dec (ty (fuelFor src)) _ s0 s () hr
    have a1 := good_ty (fuelFor src) s0 () s1 w0 hty
    have a2 := good_expectEndOfInput s1 () s a1.w hend
    obtain ⟨hi1, _⟩ := PI.run_ok _ s0 hinv _ s1 hty
    have hex := expectEndOfInput_exhausted s1 s hi1 a1.w.limit hend herr
    have hnd : ¬ Doomed s := by
      rintro (hd | hd)
      · exact hd herr
      · rw [hasErr_src_nil s.lx a2.w.limit hex.2] at hd; cases hd
    have hnd1 : ¬ Doomed s1 := fun d => hnd (a2.doom d)
    have hbs : s.builder = s1.builder := keeps_expectEndOfInput s1 () s hend
    unfold ty at hty
    obtain ⟨r, sT, hT, h3'⟩ := bind_dec (tyParse (fuelFor src)) _ s0 s1 () hty
    have aT := good_tyParse (fuelFor src) s0 r sT w0 hT
    have hok : r = .ok ∧ sT = s1 := by
      cases r with
      | ok => simp only [] at h3'; rw [run_pure] at h3'; injection h3' with _ h3'; exact ⟨rfl, h3'⟩
      | early =>
        exfalso
        simp only [] at h3'; rw [run_pure] at h3'; injection h3' with _ h3'; subst h3'
        rcases tyParse_sound (fuelFor src) s0 sT _ w0 he0 hT hnd1 with ⟨tk, hx⟩ | ⟨hx, _⟩ <;> cases hx
      | errTok tk =>
        exfalso
        simp only [] at h3'
        exact hnd1 (errAtToken_adv tk sT s1 aT.w h3').2
      | errNone =>
        exfalso
        simp only [] at h3'
        have hndT : ¬ Doomed sT := fun d => hnd1 ((good_err sT () s1 aT.w h3').doom d)
        rcases tyParse_sound (fuelFor src) s0 sT _ w0 he0 hT hndT with ⟨tk, hx⟩ | ⟨hx, _⟩ <;> cases hx
    obtain ⟨rfl, rfl⟩ := hok
    rcases tyParse_tr (fuelFor src) s0 sT _ st0 hT hnd1 with ⟨tk, hx⟩ | ⟨_, _, c, added, tc, nc, ec, bc, rc⟩
    · cases hx
    · obtain ⟨e1, he1⟩ := tyParse_exact (fuelFor src) s0 sT st0 hT hnd1
      rcases rc with ⟨t, e0, htok, hsig, htree⟩ | f
      · -- exactly one element was appended
        have hadd : added = [e1] := by
          rw [he1, hpe0] at bc
          simp only [List.map_nil, List.append_nil] at bc
          exact (List.append_cancel_left bc).symm
        have he10 : e1 = e0 := by
          rw [hadd] at hsig
          exact sigE_singleton_eq (junk := []) rfl (by simpa using hsig)
        subst he10
        have hchild : s.builder.children = [e1] := by rw [hbs, he1, hch0, hpe0]; rfl
        have hpar : s.builder.parents = [("NAMED_TYPE", 0)] := by
          have := (PI.run_ok _ s0 hinv _ s hr)
          have hf := (ty (fuelFor src) >>= fun _ => expectEndOfInput).ok s0 hinv
          simp only [hr, Post] at hf
          rw [hf.2.parents, hpa0]
        -- the root handed out by `finish_standalone`
        obtain ⟨k', cs', rfl, hk'⟩ := htree.kind
        have hroot : finishStandalone s.builder ["NAMED_TYPE", "LIST_TYPE", "NON_NULL_TYPE"] = some (Elem.node k' cs') := by
          have hmem : k' ∈ ["NAMED_TYPE", "LIST_TYPE", "NON_NULL_TYPE"] := by
            simp only [FromCst.isTypeKind, Bool.or_eq_true, beq_iff_eq] at hk'
            simp only [List.mem_cons, List.mem_singleton, List.not_mem_nil, or_false]
            rcases hk' with (h | h) | h
            · exact Or.inl h
            · exact Or.inr (Or.inl h)
            · exact Or.inr (Or.inr h)
          simp only [finishStandalone, Builder.finishNode, hpar, hchild, List.take_zero, List.nil_append, List.drop_zero,
            Builder.finish, hmem, if_true]
        rw [hroot] at h
        simp only [Outcome.tree.injEq] at h
        subst h
        -- the tokens: the type, then ignored tokens and the end of input
        obtain ⟨ign, ee, hrest, hall, hek⟩ := expectEnd_eof sT s aT.w ec hend hnd
        refine ⟨t, sig c, ee, ?_, hek, htok, htree⟩
        rw [← htoks, tc, hrest, sig_append, sig_append, sig_ignored ign hall]
        have : sig [ee] = [ee] := sig_single ee (by rw [hek]; rfl)
        rw [this]; simp
      · exact absurd f id

end Apollo.Parse
