import ApolloModel.Proofs.SchemaBuildSpec4
/-
C14 growth 3, fifth part: the whole loop (`add_ast_document`), `build_inner`, and the final theorem.
-/
namespace Apollo.SchemaBuild

/-! ### errors only grow (no invariant needed) -/

theorem views_self (cs : List Comp) : Views cs (cs.map (·.name)) := by
  intro m
  simp only [hasName, List.any_eq_true, beq_iff_eq, List.mem_map]

def Mono (a b : List Err) : Prop := ∃ new, b = a ++ new

theorem Mono.refl (a : List Err) : Mono a a := ⟨[], by simp⟩
theorem Mono.trans {a b c : List Err} (h1 : Mono a b) (h2 : Mono b c) : Mono a c := by
  obtain ⟨n1, e1⟩ := h1; obtain ⟨n2, e2⟩ := h2
  exact ⟨n1 ++ n2, by rw [e2, e1, List.append_assoc]⟩
theorem Grow.mono {a b : List Err} {P : Prop} (h : Grow a b P) : Mono a b := by
  obtain ⟨n, e, _⟩ := h; exact ⟨n, e⟩
theorem Mono.ne_nil {a b : List Err} (h : Mono a b) (ha : a ≠ []) : b ≠ [] := by
  obtain ⟨n, e⟩ := h
  intro hb
  rw [hb] at e
  exact ha (List.append_eq_nil_iff.mp e.symm).1

theorem extendBody_mono (dupI dupM : Name → Diag) (origin : Option Pos) (b : Body) (d : Def) (errs : List Err) :
    Mono errs (extendBody dupI dupM origin b d errs).2 :=
  (extendBody_spec dupI dupM origin b d errs _ _ (views_self _) (views_self _)).2.2.mono

theorem schemaFold_mono : ∀ (exts : List Def) (acc : SchemaDefn × List Err), Mono acc.2 (exts.foldl schemaStep acc).2 := by
  intro exts
  induction exts with
  | nil => intro acc; exact Mono.refl _
  | cons e r ih =>
    intro acc
    rw [List.foldl_cons]
    exact (extendBody_mono noIface dupRoot (some e.pos) acc.1.body e acc.2).trans (ih (schemaStep acc e))

theorem step_mono (s : Builder) (d : Def) : Mono s.errors (step s d).errors := by
  cases htag : d.tag with
  | schemaDef =>
    rw [step_schemaDef s d htag]
    unfold stepSchemaDef
    by_cases h : s.schemaFound = true
    · rw [if_pos h]; exact ⟨[_], rfl⟩
    · rw [if_neg h]
      exact (extendBody_mono noIface dupRoot none Body.empty d s.errors).trans (schemaFold_mono s.orphanSchemaExts (schemaOfDef d s.errors))
  | schemaExt =>
    rw [step_schemaExt s d htag]
    unfold stepSchemaExt
    by_cases h : s.schemaFound = true
    · rw [if_pos h]; exact extendBody_mono noIface dupRoot (some d.pos) s.schemaDef.body d s.errors
    · rw [if_neg h]; exact Mono.refl _
  | directiveDef =>
    have heq : step s d = stepDirectiveDef s d := by unfold step; rw [htag]
    rw [heq]
    unfold stepDirectiveDef
    cases findDir s.directiveDefs d.name with
    | none => exact Mono.refl _
    | some prev =>
      by_cases h : prev.builtin = true
      · simp only [h, if_true]; exact Mono.refl _
      · simp only [h]; exact ⟨[_], rfl⟩
  | typeDef k =>
    have heq : step s d = stepTypeDef s k d := by unfold step; rw [htag]
    rw [heq]
    cases hf : findType s.types d.name with
    | none =>
      have heq : stepTypeDef s k d = { s with types := s.types ++ [(typeFromAst k d (s.orphanQ.filter (fun e => e.name == d.name)) s.errors).1], orphanQ := s.orphanQ.filter (fun e => !(e.name == d.name)), errors := (typeFromAst k d (s.orphanQ.filter (fun e => e.name == d.name)) s.errors).2 } := by
        unfold stepTypeDef; rw [hf]
      rw [heq]
      exact (typeFromAst_spec k d _ s.errors).2.2.2.mono
    | some prev =>
      unfold stepTypeDef
      rw [hf]
      by_cases h1 : (s.ignoreBuiltin && prev.builtin) = true
      · simp only [h1, if_true]; exact Mono.refl _
      · by_cases h2 : (k == Kind.scalar && prev.builtin) = true
        · simp only [h1, h2]; exact ⟨[_], rfl⟩
        · simp only [h1, h2]; exact ⟨[_], rfl⟩
  | typeExt k =>
    have heq : step s d = stepTypeExt s k d := by unfold step; rw [htag]
    rw [heq]
    unfold stepTypeExt
    cases findType s.types d.name with
    | none => exact Mono.refl _
    | some t =>
      by_cases h : t.kind = k
      · simp only [h, if_true]
        exact extendBody_mono _ _ _ _ _ _
      · simp only [h]; exact ⟨[_], rfl⟩
  | operation =>
    have heq : step s d = push s d.pos (.executableDefinition false) := by unfold step; rw [htag]
    rw [heq]; exact ⟨[_], rfl⟩
  | fragment =>
    have heq : step s d = push s d.pos (.executableDefinition true) := by unfold step; rw [htag]
    rw [heq]; exact ⟨[_], rfl⟩

/-! ### the initial state -/

theorem Inv_init : Inv [] (Builder.new false false) := by
  refine ⟨rfl, rfl, ⟨?_, ?_, ?_, ?_⟩, ⟨?_, ?_, ?_⟩, ⟨?_, ?_⟩⟩
  · intro n
    show (findType builtinTypes n).map (·.kind) = kindOfName [] n
    unfold kindOfName builtinKind definedKind
    cases (findType builtinTypes n).map (·.kind) <;> simp
  · intro n t ht
    have hmem : t ∈ builtinTypes := List.mem_of_find?_eq_some ht
    have : t.body = Body.empty := by
      simp only [builtinTypes, List.map_cons, List.map_nil, List.mem_cons, List.not_mem_nil, or_false] at hmem
      rcases hmem with h | h | h | h | h | h | h | h | h | h | h | h | h <;> rw [h]
    rw [this]; exact views_nil
  · intro n t ht
    have hmem : t ∈ builtinTypes := List.mem_of_find?_eq_some ht
    have : t.body = Body.empty := by
      simp only [builtinTypes, List.map_cons, List.map_nil, List.mem_cons, List.not_mem_nil, or_false] at hmem
      rcases hmem with h | h | h | h | h | h | h | h | h | h | h | h | h <;> rw [h]
    rw [this]; exact views_nil
  · rfl
  · simp [Builder.new, schemaDefCount]
  · intro h; simp [Builder.new] at h
  · intro _; exact ⟨rfl, rfl⟩
  · intro n _; simp [dirDefNames]
  · intro n e he
    have hmem : e ∈ builtinDirectives := List.mem_of_find?_eq_some he
    have : e.builtin = true := by
      simp only [builtinDirectives, List.map_cons, List.map_nil, List.mem_cons, List.not_mem_nil, or_false] at hmem
      rcases hmem with h | h | h | h <;> rw [h]
    simp [this, dirDefNames]

theorem wf_prefix {pre : List Def} {d : Def} (h : WellFormed (pre ++ [d])) : WellFormed pre :=
  fun e he hp => h e (List.mem_append_left _ he) hp

/-- the loop of `add_ast_document`: no error iff the prefix specification holds, and then the state is the
    one the reading functions describe -/
theorem scan_spec : ∀ (ds : List Def), WellFormed ds →
    ((addDocument (Builder.new false false) ds).errors = [] ↔ PrefixSpec ds) ∧
    ((addDocument (Builder.new false false) ds).errors = [] → Inv ds (addDocument (Builder.new false false) ds)) := by
  apply snoc_induction
  · intro _
    exact ⟨⟨fun _ => PrefixSpec_nil, fun _ => rfl⟩, fun _ => Inv_init⟩
  · intro pre d ih hwf
    obtain ⟨ih1, ih2⟩ := ih (wf_prefix hwf)
    have hfold : addDocument (Builder.new false false) (pre ++ [d]) = step (addDocument (Builder.new false false) pre) d := by
      unfold addDocument; rw [List.foldl_append]; rfl
    rw [hfold, PrefixSpec_snoc]
    by_cases he : (addDocument (Builder.new false false) pre).errors = []
    · have hinv := ih2 he
      have hp := ih1.mp he
      obtain ⟨g, hstep⟩ := step_spec pre _ d hinv hp hwf
      refine ⟨?_, fun h => hstep (by rw [h, he])⟩
      rw [g.nil_iff]
      exact ⟨fun h => ⟨hp, h.2⟩, fun h => ⟨he, h.2⟩⟩
    · have hne := (step_mono (addDocument (Builder.new false false) pre) d).ne_nil he
      exact ⟨⟨fun h => absurd h hne, fun h => absurd (ih1.mpr h.1) he⟩, fun h => absurd h hne⟩

/-! ### `build_inner` -/

def orphanErr (e : Def) : Err := ⟨e.namePos, .orphanTypeExtension e.name⟩
def orphanErrs (Q : List Def) : List Err :=
  (firstNames Q).flatMap (fun n => (Q.filter (fun e => e.name == n)).map orphanErr)

theorem orphanInner : ∀ (l : List Def) (a : Builder),
    l.foldl (fun (a : Builder) e => push a e.namePos (.orphanTypeExtension e.name)) a =
      { a with errors := a.errors ++ l.map orphanErr } := by
  intro l
  induction l with
  | nil => intro a; simp
  | cons e r ih =>
    intro a
    rw [List.foldl_cons, ih]
    simp [push, orphanErr]

theorem orphanOuter (Q : List Def) : ∀ (ns : List Name) (acc : Builder),
    ns.foldl (fun (acc : Builder) n =>
        (Q.filter (fun e => e.name == n)).foldl
          (fun (a : Builder) e => push a e.namePos (.orphanTypeExtension e.name)) acc) acc =
      { acc with errors := acc.errors ++ ns.flatMap (fun n => (Q.filter (fun e => e.name == n)).map orphanErr) } := by
  intro ns
  induction ns with
  | nil => intro acc; simp
  | cons n r ih =>
    intro acc
    rw [List.foldl_cons, orphanInner, ih]
    simp [List.flatMap_cons]

theorem schemaOrphanFold : ∀ (l : List Def) (a : Builder),
    l.foldl (fun (a : Builder) e => push a e.pos .orphanSchemaExtension) a =
      { a with errors := a.errors ++ l.map (fun e => ⟨e.pos, .orphanSchemaExtension⟩) } := by
  intro l
  induction l with
  | nil => intro a; simp
  | cons e r ih =>
    intro a
    rw [List.foldl_cons, ih]
    simp [push]

theorem finishRaw_errors (s : Builder) (ha : s.adopt = false) : (finishRaw s).errors =
    if s.schemaFound then s.errors ++ orphanErrs s.orphanQ
    else if !(implicitRoots s.types).isEmpty then
      (s.orphanSchemaExts.foldl schemaStep (setRoots s.schemaDef (implicitRoots s.types), s.errors ++ orphanErrs s.orphanQ)).2
    else s.errors ++ orphanErrs s.orphanQ ++ s.orphanSchemaExts.map (fun e => ⟨e.pos, .orphanSchemaExtension⟩) := by
  unfold finishRaw
  simp only [ha, Bool.false_eq_true, if_false]
  rw [orphanOuter]
  dsimp only
  by_cases hf : s.schemaFound = true
  · simp only [hf, if_true]; rfl
  · simp only [hf]
    by_cases hr : (!(implicitRoots s.types).isEmpty) = true
    · simp only [hr, if_true]; rfl
    · simp only [hr]
      rw [schemaOrphanFold]
      rfl

theorem orphanErrs_nil_iff (Q : List Def) : orphanErrs Q = [] ↔ Q = [] := by
  constructor
  · intro h
    cases Q with
    | nil => rfl
    | cons e r =>
      exfalso
      unfold orphanErrs at h
      rw [List.flatMap_eq_nil_iff] at h
      have := h e.name (by simp [firstNames])
      simp at this
  · intro h; rw [h]; rfl

theorem insertBy_ne_nil {α : Type} (lt : α → α → Bool) (x : α) (l : List α) : insertBy lt x l ≠ [] := by
  cases l with
  | nil => simp [insertBy]
  | cons y ys => unfold insertBy; split <;> simp

theorem sortBy_nil_iff {α : Type} (lt : α → α → Bool) (l : List α) : sortBy lt l = [] ↔ l = [] := by
  cases l with
  | nil => simp [sortBy]
  | cons x xs => simp [sortBy, insertBy_ne_nil]

theorem isObject_eq {ds : List Def} {s : Builder} (h : TInv ds s) (n : Name) :
    isObject s.types n = (kindOfName ds n == some Kind.object) := by
  unfold isObject
  rw [← h.kinds n]
  cases findType s.types n with
  | none => rfl
  | some t => simp

theorem implicitRoots_names {ds : List Def} {s : Builder} (h : TInv ds s) :
    (implicitRoots s.types).map (·.name) = implicitOps ds := by
  unfold implicitRoots implicitOps
  rw [List.map_map]
  have : (fun p : Name × Name => isObject s.types p.2) = (fun p => kindOfName ds p.2 == some Kind.object) := by
    funext p; exact isObject_eq h p.2
  rw [this]
  rfl

theorem implicitOps_nodup (ds : List Def) : (implicitOps ds).Nodup := by
  unfold implicitOps
  apply List.Nodup.sublist (l₂ := ["query", "mutation", "subscription"])
  · exact (List.filter_sublist (l := [("query", "Query"), ("mutation", "Mutation"), ("subscription", "Subscription")])).map (·.1)
  · decide

/-- what `build_inner` adds to the loop: the rules that need the whole document -/
structure FinishOK (ds : List Def) : Prop where
  noOrphan : ∀ e ∈ ds, ∀ k, e.tag = .typeExt k → kindOfName ds e.name ≠ none
  schemaExtended : schemaDefCount ds = 0 → schemaExts ds ≠ [] → implicitOps ds ≠ []
  implicitOps : schemaDefCount ds = 0 → (implicitOps ds ++ schemaOpNames ds).Nodup

theorem queue_nil_iff {ds : List Def} {s : Builder} (h : TInv ds s) :
    s.orphanQ = [] ↔ ∀ e ∈ ds, ∀ k, e.tag = .typeExt k → kindOfName ds e.name ≠ none := by
  rw [h.queue, List.filter_eq_nil_iff]
  constructor
  · intro hq e he k hk hnone
    apply hq e he
    simp [(extKind_some e k).mpr hk, hnone]
  · intro hq e he hc
    simp only [Bool.and_eq_true, Option.isNone_iff_eq_none] at hc
    obtain ⟨k, hk⟩ := Option.isSome_iff_exists.mp hc.1
    exact hq e he k ((extKind_some e k).mp hk) hc.2

theorem finish_spec (ds : List Def) (s : Builder) (hi : Inv ds s) (hwf : WellFormed ds) (he : s.errors = []) :
    (finishRaw s).errors = [] ↔ FinishOK ds := by
  rw [finishRaw_errors s hi.adopt, he]
  simp only [List.nil_append]
  have hq := queue_nil_iff hi.t
  by_cases hf : s.schemaFound = true
  · have hc := hi.sch.found.mp hf
    rw [if_pos hf, orphanErrs_nil_iff, hq]
    exact ⟨fun h => ⟨h, fun h0 => absurd h0 hc, fun h0 => absurd h0 hc⟩, fun h => h.noOrphan⟩
  · rw [if_neg hf]
    have hnf : s.schemaFound = false := by simpa using hf
    have hc : schemaDefCount ds = 0 := by
      cases hcc : schemaDefCount ds with
      | zero => rfl
      | succ m => exact absurd (hi.sch.found.mpr (by rw [hcc]; simp)) hf
    obtain ⟨hexts, hsd⟩ := hi.sch.whenNot hnf
    have hnames := implicitRoots_names hi.t
    by_cases hr : (!(implicitRoots s.types).isEmpty) = true
    · rw [if_pos hr]
      have hne : implicitOps ds ≠ [] := by
        rw [← hnames]
        intro h
        have : implicitRoots s.types = [] := List.map_eq_nil_iff.mp h
        rw [this] at hr; simp at hr
      have hv : Views (setRoots s.schemaDef (implicitRoots s.types)).body.members (implicitOps ds) := by
        rw [hsd, ← hnames]
        have : (setRoots ⟨none, Body.empty⟩ (implicitRoots s.types)).body.members = implicitRoots s.types := by
          simp [setRoots, Body.empty]
        rw [this]
        exact views_self _
      have hvi : Views (setRoots s.schemaDef (implicitRoots s.types)).body.interfaces [] := by
        rw [hsd]; exact views_nil
      have hwfq : ∀ e ∈ s.orphanSchemaExts, e.interfaces = [] := by
        intro e hmem
        rw [hexts] at hmem
        unfold schemaExts at hmem
        obtain ⟨hm, hx⟩ := List.mem_filter.mp hmem
        exact hwf e hm (by simp [Def.isSchemaPart, hx])
      obtain ⟨_, _, g⟩ := schemaFold_spec s.orphanSchemaExts
        (setRoots s.schemaDef (implicitRoots s.types), orphanErrs s.orphanQ) (implicitOps ds) hv hvi hwfq
      rw [g.nil_iff, orphanErrs_nil_iff, hq]
      have hchain := chain_nodup mems s.orphanSchemaExts (implicitOps ds)
      rw [hexts, ← schemaOpNames_of_count hc] at hchain
      constructor
      · intro ⟨h1, h2⟩
        exact ⟨h1, fun _ _ => hne, fun _ => hchain.mp ⟨implicitOps_nodup ds, by rw [← hexts]; exact h2⟩⟩
      · intro h
        exact ⟨h.noOrphan, by rw [hexts]; exact (hchain.mpr (h.implicitOps hc)).2⟩
    · rw [if_neg hr]
      have hnil : implicitOps ds = [] := by
        rw [← hnames]
        have : implicitRoots s.types = [] := by
          cases hl : implicitRoots s.types with
          | nil => rfl
          | cons a b => rw [hl] at hr; simp at hr
        rw [this]; rfl
      rw [List.append_eq_nil_iff, orphanErrs_nil_iff, hq, List.map_eq_nil_iff, hexts]
      constructor
      · intro ⟨h1, h2⟩
        refine ⟨h1, fun _ hx => absurd h2 hx, fun _ => ?_⟩
        rw [hnil, schemaOpNames_of_count hc, h2]; simp
      · intro h
        refine ⟨h.noOrphan, ?_⟩
        cases hx : schemaExts ds with
        | nil => rfl
        | cons a b => exact absurd hnil (h.schemaExtended hc (by rw [hx]; simp))

/-- the two-pass specification is the prefix specification of the whole document plus the closing rules -/
theorem BuildSpec_iff (ds : List Def) : BuildSpec ds ↔ PrefixSpec ds ∧ FinishOK ds := by
  constructor
  · intro h
    refine ⟨⟨h.noExecutable, h.uniqueDirectives, ⟨h.loneSchema, ?_⟩, ⟨h.uniqueTypes, ?_, h.uniqueMembers, h.uniqueInterfaces⟩⟩, ⟨?_, ?_, ?_⟩⟩
    · intro hc
      have := h.uniqueRootOps
      unfold rootOpNames at this
      rw [if_neg hc] at this
      simpa using this
    · intro e he k hk k' hk'
      rw [h.extensionsMatch e he k hk] at hk'
      exact (Option.some.inj hk').symm
    · intro e he k hk
      rw [h.extensionsMatch e he k hk]; simp
    · intro hc hx
      rcases h.schemaExtended hx with h1 | h1
      · exact absurd hc h1
      · exact h1
    · intro hc
      have := h.uniqueRootOps
      unfold rootOpNames at this
      rw [if_pos hc] at this
      exact this
  · intro ⟨hp, hf⟩
    refine ⟨hp.noExec, hp.schema.loneSchema, hp.types.uniqueTypes, hp.dirs, ?_, ?_, hp.types.uniqueMembers, hp.types.uniqueInterfaces, ?_⟩
    · intro e he k hk
      cases hkn : kindOfName ds e.name with
      | none => exact absurd hkn (hf.noOrphan e he k hk)
      | some k' => rw [hp.types.extensionsMatch e he k hk k' hkn]
    · intro hx
      by_cases hc : schemaDefCount ds = 0
      · exact Or.inr (hf.schemaExtended hc hx)
      · exact Or.inl hc
    · unfold rootOpNames
      by_cases hc : schemaDefCount ds = 0
      · rw [if_pos hc]; exact hf.implicitOps hc
      · rw [if_neg hc]; simpa using hp.schema.uniqueOps hc

theorem step_adopt (s : Builder) (d : Def) : (step s d).adopt = s.adopt := by
  cases htag : d.tag with
  | schemaDef => rw [step_schemaDef s d htag]; exact (stepSchemaDef_frame s d).1
  | schemaExt => rw [step_schemaExt s d htag]; exact (stepSchemaExt_frame s d).1
  | directiveDef =>
    have heq : step s d = stepDirectiveDef s d := by unfold step; rw [htag]
    rw [heq]; exact (stepDirectiveDef_frame s d).1
  | typeDef k =>
    have heq : step s d = stepTypeDef s k d := by unfold step; rw [htag]
    rw [heq]; exact (stepTypeDef_frame s k d).1
  | typeExt k =>
    have heq : step s d = stepTypeExt s k d := by unfold step; rw [htag]
    rw [heq]; exact (stepTypeExt_frame s k d).1
  | operation =>
    have heq : step s d = push s d.pos (.executableDefinition false) := by unfold step; rw [htag]
    rw [heq]; rfl
  | fragment =>
    have heq : step s d = push s d.pos (.executableDefinition true) := by unfold step; rw [htag]
    rw [heq]; rfl

theorem addDocument_adopt : ∀ (ds : List Def) (s : Builder), (addDocument s ds).adopt = s.adopt := by
  intro ds
  induction ds with
  | nil => intro s; rfl
  | cons d r ih =>
    intro s
    unfold addDocument
    rw [List.foldl_cons]
    exact (ih (step s d)).trans (step_adopt s d)

theorem finishRaw_mono (s : Builder) (ha : s.adopt = false) : Mono s.errors (finishRaw s).errors := by
  rw [finishRaw_errors s ha]
  by_cases hf : s.schemaFound = true
  · rw [if_pos hf]; exact ⟨_, rfl⟩
  · rw [if_neg hf]
    by_cases hr : (!(implicitRoots s.types).isEmpty) = true
    · rw [if_pos hr]
      exact Mono.trans ⟨_, rfl⟩ (schemaFold_mono s.orphanSchemaExts (setRoots s.schemaDef (implicitRoots s.types), s.errors ++ orphanErrs s.orphanQ))
    · rw [if_neg hr, List.append_assoc]; exact ⟨_, rfl⟩

/-- **`SchemaBuilder::build` reports no error iff the document satisfies the specification's rules on names**
    (one document, default builder) -/
theorem build_errors_iff_spec (ds : List Def) (hwf : WellFormed ds) :
    (build (Builder.new false false) [ds]).errors = [] ↔ BuildSpec ds := by
  have hb : (build (Builder.new false false) [ds]).errors =
      sortBy Err.lt (finishRaw (addDocument (Builder.new false false) ds)).errors := rfl
  rw [hb, sortBy_nil_iff, BuildSpec_iff]
  obtain ⟨h1, h2⟩ := scan_spec ds hwf
  by_cases he : (addDocument (Builder.new false false) ds).errors = []
  · rw [finish_spec ds _ (h2 he) hwf he]
    exact ⟨fun h => ⟨h1.mp he, h⟩, fun h => h.2⟩
  · constructor
    · intro h
      exfalso
      apply he
      have hmono : Mono (addDocument (Builder.new false false) ds).errors (finishRaw (addDocument (Builder.new false false) ds)).errors :=
        finishRaw_mono _ (addDocument_adopt ds (Builder.new false false))
      exact Classical.byContradiction fun hne => hmono.ne_nil hne h
    · intro h; exact absurd (h1.mpr h.1) he

end Apollo.SchemaBuild
