import ApolloModel.Proofs.SchemaBuild2
/-
Helper lemmas for C13, part 3: moving queued schema extensions behind the schema definition; the
orphan-queue invariant (queued names are undefined, the queue holds type extensions only).
-/
namespace Apollo.SchemaBuild

def isSchemaExt (x : Def) : Bool := x.tag == .schemaExt
def isSchemaDef (x : Def) : Bool := x.tag == .schemaDef

/-- the builder with the queued schema extensions removed -/
def clearS (s : Builder) : Builder := { s with orphanSchemaExts := [] }

theorem stepTypeDef_clearS (s : Builder) (k : Kind) (x : Def) :
    clearS (stepTypeDef s k x) = stepTypeDef (clearS s) k x
    ∧ (stepTypeDef s k x).orphanSchemaExts = s.orphanSchemaExts
    ∧ (stepTypeDef s k x).schemaFound = s.schemaFound := by
  unfold stepTypeDef
  simp only [show (clearS s).types = s.types from rfl, show (clearS s).orphanQ = s.orphanQ from rfl,
    show (clearS s).errors = s.errors from rfl, show (clearS s).ignoreBuiltin = s.ignoreBuiltin from rfl]
  cases findType s.types x.name with
  | none => exact ⟨rfl, rfl, rfl⟩
  | some prev =>
    simp only []
    split
    · exact ⟨rfl, rfl, rfl⟩
    · split <;> exact ⟨rfl, rfl, rfl⟩

theorem stepTypeExt_clearS (s : Builder) (k : Kind) (x : Def) :
    clearS (stepTypeExt s k x) = stepTypeExt (clearS s) k x
    ∧ (stepTypeExt s k x).orphanSchemaExts = s.orphanSchemaExts
    ∧ (stepTypeExt s k x).schemaFound = s.schemaFound := by
  unfold stepTypeExt
  simp only [show (clearS s).types = s.types from rfl, show (clearS s).orphanQ = s.orphanQ from rfl,
    show (clearS s).errors = s.errors from rfl]
  cases findType s.types x.name with
  | none => exact ⟨rfl, rfl, rfl⟩
  | some t =>
    simp only []
    split <;> exact ⟨rfl, rfl, rfl⟩

theorem stepDirectiveDef_clearS (s : Builder) (x : Def) :
    clearS (stepDirectiveDef s x) = stepDirectiveDef (clearS s) x
    ∧ (stepDirectiveDef s x).orphanSchemaExts = s.orphanSchemaExts
    ∧ (stepDirectiveDef s x).schemaFound = s.schemaFound := by
  unfold stepDirectiveDef
  simp only [show (clearS s).directiveDefs = s.directiveDefs from rfl]
  cases findDir s.directiveDefs x.name with
  | none => exact ⟨rfl, rfl, rfl⟩
  | some prev =>
    simp only []
    split <;> exact ⟨rfl, rfl, rfl⟩

theorem step_clearS (s : Builder) (x : Def) (h1 : isSchemaExt x = false) (h2 : isSchemaDef x = false) :
    clearS (step s x) = step (clearS s) x
    ∧ (step s x).orphanSchemaExts = s.orphanSchemaExts
    ∧ (step s x).schemaFound = s.schemaFound := by
  unfold step
  cases ht : x.tag with
  | schemaDef => simp [isSchemaDef, ht] at h2
  | schemaExt => simp [isSchemaExt, ht] at h1
  | directiveDef => exact stepDirectiveDef_clearS s x
  | typeDef k => exact stepTypeDef_clearS s k x
  | typeExt k => exact stepTypeExt_clearS s k x
  | operation => exact ⟨rfl, rfl, rfl⟩
  | fragment => exact ⟨rfl, rfl, rfl⟩

theorem step_schemaExt_orphan (s : Builder) (e : Def) (he : isSchemaExt e = true) (hs : s.schemaFound = false) :
    step s e = { s with orphanSchemaExts := s.orphanSchemaExts ++ [e] } := by
  have ht : e.tag = .schemaExt := by simpa [isSchemaExt] using he
  unfold step
  rw [ht]
  simp [hs]

theorem addDocument_clearS : ∀ (l : List Def) (s : Builder),
    (∀ x ∈ l, isSchemaDef x = false) → s.schemaFound = false →
    clearS (addDocument s l) = addDocument (clearS s) (l.filter (fun x => !(isSchemaExt x)))
    ∧ (addDocument s l).orphanSchemaExts = s.orphanSchemaExts ++ l.filter isSchemaExt
    ∧ (addDocument s l).schemaFound = false := by
  intro l
  induction l with
  | nil => intro s _ hn; simp [addDocument, hn]
  | cons x l ih =>
    intro s hl hn
    have hx := hl x (by simp)
    have hl' : ∀ y ∈ l, isSchemaDef y = false := fun y hy => hl y (by simp [hy])
    simp only [addDocument, List.foldl_cons] at ih ⊢
    by_cases he : isSchemaExt x = true
    · have e1 := step_schemaExt_orphan s x he hn
      obtain ⟨i1, i2, i3⟩ := ih (step s x) hl' (by rw [e1]; exact hn)
      refine ⟨?_, ?_, i3⟩
      · rw [i1, e1]; simp [he]; rfl
      · rw [i2, e1]; simp [he]
    · have he' : isSchemaExt x = false := by simpa using he
      obtain ⟨c1, c2, c3⟩ := step_clearS s x he' hx
      obtain ⟨i1, i2, i3⟩ := ih (step s x) hl' (by rw [c3]; exact hn)
      refine ⟨?_, ?_, i3⟩
      · rw [i1, c1]; simp [he']
      · rw [i2, c2]; simp [he']

/-- the `schema` definition arrives: it adopts the queue -/
def defineSchemaWith (d : Def) (u : Builder) (exts : List Def) : Builder :=
  let r := schemaFromAst d exts u.errors
  { u with schemaDef := r.1, schemaFound := true, orphanSchemaExts := [], errors := r.2 }

theorem step_defineSchema (d : Def) (s : Builder) (ht : d.tag = .schemaDef) (hs : s.schemaFound = false) :
    step s d = defineSchemaWith d (clearS s) s.orphanSchemaExts := by
  unfold step
  rw [ht]
  simp only [hs]
  rfl

theorem addDocument_schemaExts_found : ∀ (es : List Def) (u : Builder),
    u.schemaFound = true → (∀ e ∈ es, isSchemaExt e = true) →
    addDocument u es = { u with schemaDef := (es.foldl schemaStep (u.schemaDef, u.errors)).1,
                                errors := (es.foldl schemaStep (u.schemaDef, u.errors)).2 } := by
  intro es
  induction es with
  | nil => intro u _ _; simp [addDocument]
  | cons e es ih =>
    intro u hu hes
    have ht : e.tag = .schemaExt := by simpa [isSchemaExt] using hes e (by simp)
    simp only [addDocument, List.foldl_cons] at ih ⊢
    have hstep : step u e = { u with schemaDef := (schemaStep (u.schemaDef, u.errors) e).1,
                                     errors := (schemaStep (u.schemaDef, u.errors) e).2 } := by
      unfold step
      rw [ht]
      simp only [hu, if_true]
      rfl
    rw [hstep]
    have := ih { u with schemaDef := (schemaStep (u.schemaDef, u.errors) e).1,
                        errors := (schemaStep (u.schemaDef, u.errors) e).2 } hu (fun x hx => hes x (by simp [hx]))
    rw [this]

theorem schema_ext_commutes_state (d : Def) (s : Builder) (l : List Def)
    (hfresh : s.schemaFound = false) (ht : d.tag = .schemaDef)
    (hnodef : ∀ x ∈ l, isSchemaDef x = false) :
    addDocument s (l ++ [d]) =
      addDocument s (l.filter (fun x => !(isSchemaExt x)) ++ d :: l.filter isSchemaExt) := by
  let mid := l.filter (fun x => !(isSchemaExt x))
  let es := l.filter isSchemaExt
  obtain ⟨a1, a2, a3⟩ := addDocument_clearS l s hnodef hfresh
  have hmid_nodef : ∀ x ∈ mid, isSchemaDef x = false := fun x hx => hnodef x (List.mem_filter.mp hx).1
  obtain ⟨b1, b2, b3⟩ := addDocument_clearS mid s hmid_nodef hfresh
  have hmidmid : mid.filter (fun x => !(isSchemaExt x)) = mid := by
    apply List.filter_eq_self.mpr
    intro x hx
    exact (List.mem_filter.mp hx).2
  have hmidno : mid.filter isSchemaExt = [] := by
    apply List.filter_eq_nil_iff.mpr
    intro x hx
    have := (List.mem_filter.mp hx).2
    simpa using this
  rw [hmidmid] at b1
  rw [hmidno, List.append_nil] at b2
  rw [addDocument_append]
  have hL : addDocument (addDocument s l) [d] = step (addDocument s l) d := rfl
  rw [hL, step_defineSchema d _ ht a3, a1, a2]
  have hR : addDocument s (mid ++ d :: es) = addDocument (step (addDocument s mid) d) es := by
    rw [addDocument_append]; rfl
  show _ = addDocument s (mid ++ d :: es)
  rw [hR, step_defineSchema d _ ht b3, b1, b2]
  have hes : ∀ e ∈ es, isSchemaExt e = true := fun e he => (List.mem_filter.mp he).2
  rw [addDocument_schemaExts_found es _ rfl hes]
  simp only [defineSchemaWith, schemaFromAst, List.foldl_append]
  rfl

/-! ### the orphan-queue invariant -/

/-- every queued definition is a type extension of a name that is not (yet) defined -/
def QueueOk (s : Builder) : Prop :=
  ∀ e ∈ s.orphanQ, findType s.types e.name = none ∧ ∃ k, e.tag = .typeExt k

theorem step_queueOk (s : Builder) (x : Def) (h : QueueOk s) : QueueOk (step s x) := by
  unfold step
  cases ht : x.tag with
  | schemaDef => simp only []; split <;> exact h
  | schemaExt => simp only []; split <;> exact h
  | directiveDef =>
    simp only []
    unfold stepDirectiveDef
    cases findDir s.directiveDefs x.name with
    | none => exact h
    | some prev => simp only []; split <;> exact h
  | operation => exact h
  | fragment => exact h
  | typeDef k =>
    simp only []
    unfold stepTypeDef
    cases hf : findType s.types x.name with
    | none =>
      simp only []
      intro e he
      have hm := List.mem_filter.mp he
      obtain ⟨h1, h2⟩ := h e hm.1
      refine ⟨?_, h2⟩
      apply findType_append_none _ _ _ h1
      rw [(typeFromAst_name _ _ _ _).1]
      intro hc
      have := hm.2
      simp [hc] at this
    | some prev =>
      simp only []
      split
      · exact h
      · split <;> exact h
  | typeExt k =>
    simp only []
    unfold stepTypeExt
    cases hf : findType s.types x.name with
    | none =>
      simp only []
      intro e he
      rcases List.mem_append.mp he with he | he
      · exact h e he
      · have : e = x := by simpa using he
        subst this
        exact ⟨hf, k, ht⟩
    | some t =>
      simp only []
      split
      · intro e he
        obtain ⟨h1, h2⟩ := h e he
        refine ⟨?_, h2⟩
        apply findType_setType_none _ _ _ _ h1
        rw [extendType_name, find_some_name _ _ _ hf]
        intro hxn
        rw [hxn] at hf
        rw [hf] at h1
        cases h1
      · exact h

theorem addDocument_queueOk : ∀ (l : List Def) (s : Builder), QueueOk s → QueueOk (addDocument s l) := by
  intro l
  induction l with
  | nil => intro s h; exact h
  | cons x l ih => intro s h; exact ih (step s x) (step_queueOk s x h)

theorem addSources_queueOk (srcs : List (List Def)) (s : Builder) (h : QueueOk s) : QueueOk (addSources s srcs) := by
  rw [addSources_flatten]; exact addDocument_queueOk _ s h

end Apollo.SchemaBuild
