import ApolloModel.Proofs.ParserExactC42
import ApolloModel.Proofs.ParserExactC31
/-
EXACT COMPLETENESS, part 43 (namespace Apollo.Parse.Exact.Z): the complete side for the EXACT guards — `looseFitXX` (builderD:
only the LAST root operation type of a schema definition / extension may lack its named type) and the instance-dependent follow
`looseFollowY`; the schema extension with its roots written and a nameless last root may be followed by `{`; the dispatch and
ParserExactC27 (loop, `document()`, `Parser::parse`) repeated over the per-item predicate with `looseFitXX`.
-/
set_option linter.unusedSimpArgs false
namespace Apollo.Parse.Exact.Z
open Apollo.Rowan hiding Str
open Apollo.Lex hiding Str
open Apollo.Parse.Exact.Y (looseFollowY loose_dispatch_compY)

/-- the braces of a schema extension, written, the last root possibly nameless: anything may follow -/
theorem cmp_schemaExtBracesXP (meets : Bool) :
    Cmp (fun _ => True) (schemaExtBraces meets) LSBracesX (fun _ => True) (fun _ => True) := by
  intro s s' a c x q0 rst w hrun hl hs ht hq hf hkh
  rcases lsBracesX_cases hl with h | ⟨pre, op, rfl⟩
  · exact cmp_schemaExtBracesP meets s s' a c x q0 rst w hrun h hs ht hq hf hkh
  · have hK : Cmp (fun _ => True) (expect .rCurly "R_CURLY" >>= fun _ => extEnd true) (fun _ x => x = [.p .rCurly]) (fun _ => True) (fun _ => True) := by
      have := cmp_bind (Hk := fun _ => True) (F := fun _ => True) (F1 := fun _ => True) (cmp_expect .rCurly "R_CURLY")
        (fun _ _ => cmp_extEnd (Hk := fun _ => True) (F := fun _ => True) true) (fun _ _ _ _ => trivial) (fun _ _ => trivial) (fun _ h => h)
      refine this.mono (fun _ h => h) ?_ (fun _ h => h) (fun _ h => h)
      rintro b x rfl
      exact ⟨[.p .rCurly], [], rfl, ⟨_, rfl, rfl⟩, rfl, rfl⟩
    have hN : Cmp (fun _ => True) (schemaExtBraces meets) (fun _ x => ∃ (pre : List (Ast.OpType × Ast.Str)) (op : Ast.OpType),
        x = .p .lCurly :: (Ast.tRootOpItems pre ++ ([.name op.name.toList, .p .colon] ++ [.p .rCurly]))) (fun _ => True) (fun _ => True) := by
      unfold schemaExtBraces
      apply cmp_peek
      intro k _
      apply cmp_ite
      · intro _
        have := cmp_rootsBlockN _ hK (by rintro b x rfl; exact ⟨[], rfl⟩)
        refine this.mono (fun _ _ => trivial) ?_ (fun _ h => h) (fun _ h => h)
        rintro b x ⟨pre, op, rfl⟩
        exact ⟨pre, op, [.p .rCurly], rfl, rfl⟩
      · intro hk
        apply cmp_absurd
        rintro b x cc q0 ⟨pre, op, rfl⟩ hs _ hkk
        obtain ⟨tk, tl, rfl, hta⟩ := spells_head hs
        simp only [headK] at hkk
        rw [kind_of_astOfV hta] at hkk
        simp [← hkk, kindOfA] at hk
    exact hN s s' a c _ q0 rst w hrun ⟨pre, op, rfl⟩ hs ht hq hf hkh

def LSchemaExtXP (b : Nat) (x : List Ast.Tok) : Prop :=
  ∃ (ds : List Ast.Directive) (roots : List (Ast.OpType × Option Ast.Str)), roots ≠ [] ∧
    x = (LooseDef.schemaExt ds roots).toks ∧ looseFitXX b (.schemaExt ds roots)

/-- **schema extension with its roots written (the last possibly nameless): anything may follow** -/
theorem cmpT_schemaExtensionXP (n : Nat) :
    CmpT (fun _ => True) (schemaExtension n) LSchemaExtXP (fun _ => True) (fun _ => True) := by
  rw [schemaExtension_eq]
  refine cmpT_withNode _ ?_
  have hd := cmp_extDirsP (Hk := fun _ => True) (F := fun _ => True) n schemaExtBraces false (Ln := LSBracesX)
    (fun m => cmp_schemaExtBracesXP m)
    (by rintro b a x ⟨roots, _, _, e⟩
        injection e with e _
        subst e; exact ⟨by decide, by decide⟩)
    (by rintro b ⟨roots, _, _, e⟩; cases e)
  refine (cmpT_ext (Hk := fun _ => True) "schema" _ _ _ hd.toT).mono (fun _ h => h) ?_ (fun _ _ => trivial) (fun _ h => h)
  rintro b x ⟨ds, roots, hr, rfl, _, hdf, hl⟩
  refine ⟨Ast.tDirectives ds ++ Ast.tBraced (tRootOpItemsF roots) roots.isEmpty,
    by simp [LooseDef.toks, List.append_assoc], ds, _, rfl, hdf, roots, hr, hl, ?_⟩
  have : roots.isEmpty = false := by cases roots with | nil => exact absurd rfl hr | cons _ _ => rfl
  rw [this]
  simp [Ast.tBraced]

/-- **a type-system definition or extension through the document dispatch, exact guards** (`looseFitXX`, `looseFollowY`) -/
theorem loose_dispatch_compZ (n : Nat) (sP s2 : PState) (t : Tok) (tl1 : List Tok) (l : LooseDef) (q1 : Tok) (r1 : List Tok)
    (w : TW sP) (lq : LexQ (Toks sP)) (hcur : sP.current = some t) (hfit : looseFitXX (sP.recLimit - sP.recCur) l)
    (hfol : looseFollowY l q1) (hs : Spells (t :: tl1) l.toks) (ht : Toks sP = (t :: tl1) ++ q1 :: r1) (hq : Sigf q1)
    (h : (documentDispatch n t.kind).run sP = .ok () s2) : Eat sP s2 (t :: tl1) ∧ Toks s2 = q1 :: r1 := by
  have old : looseFit (sP.recLimit - sP.recCur) l → Eat sP s2 (t :: tl1) ∧ Toks s2 = q1 :: r1 := fun hf =>
    loose_dispatch_compY n sP s2 t tl1 l q1 r1 w lq hcur hf hfol hs ht hq h
  have viaDef : ∀ (desc : Option Ast.Str) (word : String) (x' : List Ast.Tok) (m : PI Unit) (L : Nat → List Ast.Tok → Prop) (F : Tok → Prop),
      l.toks = Ast.tDescription desc ++ .name word.toList :: x' → selectDefinition n word.toList = m →
      CmpT (fun _ => True) m L F (fun _ => True) → L (sP.recLimit - sP.recCur) l.toks → F q1 → Eat sP s2 (t :: tl1) ∧ Toks s2 = q1 :: r1 := by
    intro desc word x' m L F hx hsel hc hL hF
    have h1 := dispatch_kw n sP s2 t tl1 desc word.toList x' q1 r1 w hcur (by rw [← hx]; exact hs) ht hq h
    rw [hsel] at h1
    obtain ⟨e, t2, _⟩ := hc sP s2 () (t :: tl1) l.toks q1 r1 w lq h1 hL hs ht hq hF trivial
    exact ⟨e, t2⟩
  have viaExt : ∀ (word : String) (x' : List Ast.Tok) (m : PI Unit) (L : Nat → List Ast.Tok → Prop) (F : Tok → Prop),
      l.toks = kwE word ++ x' → extSel n (some word.toList) = m →
      CmpT (fun _ => True) m L F (fun _ => True) → L (sP.recLimit - sP.recCur) l.toks → F q1 → Eat sP s2 (t :: tl1) ∧ Toks s2 = q1 :: r1 := by
    intro word x' m L F hx hsel hc hL hF
    have hx' : l.toks = .name "extend".toList :: .name word.toList :: x' := by rw [hx]; rfl
    have h1 := dispatch_ext n sP s2 t tl1 word.toList x' q1 r1 w hcur (by rw [← hx']; exact hs) ht hq h
    rw [hsel] at h1
    obtain ⟨e, t2, _⟩ := hc sP s2 () (t :: tl1) l.toks q1 r1 w lq h1 hL hs ht hq hF trivial
    exact ⟨e, t2⟩
  cases l with
  | schema desc ds roots =>
    exact viaDef desc "schema" (Ast.tDirectives ds ++ .p .lCurly :: tRootOpItemsF roots ++ [.p .rCurly]) _ _ _
      (by simp only [LooseDef.toks, scalarToks, unionToks, enumToks, inputToks, directiveToks, schemaToks, kwPart_true, List.append_assoc, List.cons_append, List.nil_append])
      (selectDefinition_schema n) (cmpT_schemaDefinitionX n) ⟨desc, ds, roots, rfl, hfit⟩ trivial
  | schemaExt ds roots =>
    rcases hfol with hne | hf
    · exact viaExt "schema" (Ast.tDirectives ds ++ Ast.tBraced (tRootOpItemsF roots) roots.isEmpty) _ _ _
        (by simp only [LooseDef.toks, List.append_assoc]) (extSel_schema n) (cmpT_schemaExtensionXP n) ⟨ds, roots, hne, rfl, hfit⟩ trivial
    · exact viaExt "schema" (Ast.tDirectives ds ++ Ast.tBraced (tRootOpItemsF roots) roots.isEmpty) _ _ _
        (by simp only [LooseDef.toks, List.append_assoc]) (extSel_schema n) (cmpT_schemaExtensionX n) ⟨ds, roots, rfl, hfit⟩ hf
  | scalar desc nm ds => exact old hfit
  | union desc nm ds ms => exact old hfit
  | directive desc nm args rep lead first rest => exact old hfit
  | scalarExt nm ds => exact old hfit
  | unionExt nm ds ms => exact old hfit
  | object desc nm impl ds fs => exact old hfit
  | interface desc nm impl ds fs => exact old hfit
  | enum desc nm ds vs => exact old hfit
  | input desc nm ds fs => exact old hfit
  | objectExt nm impl ds fs => exact old hfit
  | interfaceExt nm impl ds fs => exact old hfit
  | enumExt nm ds vs => exact old hfit
  | inputExt nm ds fs => exact old hfit

/-- one definition within the budget `b` (exact guards), when followed by the token `q` -/
def ItemOk (b : Nat) (x : List Ast.Tok) (q : Tok) : Prop :=
  LExecDef b x ∨ ∃ l : LooseDef, x = l.toks ∧ looseFitXX b l ∧ looseFollowY l q

theorem looseDef_head (l : LooseDef) : ∃ a x', l.toks = a :: x' ∧ (kindOfA a = .name ∨ kindOfA a = .stringValue) := by
  have hd : ∀ (desc : Option Ast.Str) (a : Ast.Tok) (x : List Ast.Tok), kindOfA a = .name →
      ∃ a' x', Ast.tDescription desc ++ a :: x = a' :: x' ∧ (kindOfA a' = .name ∨ kindOfA a' = .stringValue) := by
    intro desc a x ha
    cases desc with
    | none => exact ⟨a, x, rfl, Or.inl ha⟩
    | some d => exact ⟨.str d, a :: x, rfl, Or.inr rfl⟩
  cases l <;> simp only [LooseDef.toks, scalarToks, unionToks, enumToks, inputToks, directiveToks, schemaToks, kwPart_true, kwE,
    List.append_assoc, List.cons_append, List.nil_append]
  all_goals first
    | exact hd _ _ _ rfl
    | exact ⟨_, _, rfl, Or.inl rfl⟩

theorem itemOk_head {b : Nat} {x : List Ast.Tok} {q : Tok} (h : ItemOk b x q) :
    ∃ a x', x = a :: x' ∧ (kindOfA a = .name ∨ kindOfA a = .lCurly ∨ kindOfA a = .stringValue) := by
  rcases h with h | ⟨l, rfl, _⟩
  · obtain ⟨a, x', e, hk⟩ := lexecDef_head h
    exact ⟨a, x', e, hk.elim Or.inl (fun h => Or.inr (Or.inl h))⟩
  · obtain ⟨a, x', e, hk⟩ := looseDef_head l
    exact ⟨a, x', e, hk.elim Or.inl (fun h => Or.inr (Or.inr h))⟩

/-- **any definition through the document dispatch** -/
theorem item_dispatch_comp (n : Nat) (sP s2 : PState) (t : Tok) (tl1 : List Tok) (x : List Ast.Tok) (q1 : Tok) (r1 : List Tok)
    (w : TW sP) (lq : LexQ (Toks sP)) (hcur : sP.current = some t) (hcq : t.kind = .lCurly → t.data = ['{'])
    (hl : ItemOk (sP.recLimit - sP.recCur) x q1) (hs : Spells (t :: tl1) x) (ht : Toks sP = (t :: tl1) ++ q1 :: r1) (hq : Sigf q1)
    (h : (documentDispatch n t.kind).run sP = .ok () s2) : Eat sP s2 (t :: tl1) ∧ Toks s2 = q1 :: r1 := by
  rcases hl with hl | ⟨l, rfl, hfit, hfol⟩
  · exact dispatch_comp n sP s2 t tl1 x q1 r1 w hcur hcq hl hs ht hq h
  · exact loose_dispatch_compZ n sP s2 t tl1 l q1 r1 w lq hcur hfit hfol hs ht hq h

/-- a list of definitions, each allowed before the first token of what follows it -/
def DocOk (b : Nat) : List (List Ast.Tok) → Prop
  | [] => True
  | x :: r => (∀ q, FollowTokOf r.flatten.head? q → ItemOk b x q) ∧ DocOk b r

theorem docLoop_compG (n : Nat) : ∀ (items : List (List Ast.Tok)) (fuel : Nat) (s s' : PState) (c : List Tok) (e : Tok) (rest : List Tok),
    TW s → LexQ (Toks s) → CurlyQ (Toks s) → (peekWhileLoop (documentStep n) fuel).run s = .ok () s' →
    DocOk (s.recLimit - s.recCur) items → Spells c items.flatten → Toks s = c ++ e :: rest → e.kind = .eof →
    Eat s s' c ∧ Toks s' = e :: rest := by
  intro items
  induction items with
  | nil =>
    intro fuel s s' c e rest w _ hcq hr _ hs ht he
    exact docLoop_comp n [] fuel s s' c e rest w hcq hr (by intro i hi; cases hi) hs ht he
  | cons item r ih =>
    intro fuel s s' c e rest w lq hcq hr hall hs ht he
    cases fuel with
    | zero => simp [peekWhileLoop, PI.outOfFuel] at hr
    | succ fuel =>
      obtain ⟨hitem, hrest⟩ := hall
      have hse : Sigf e := by unfold Sigf; rw [he]; rfl
      obtain ⟨c1, c2, rfl, s1, s2⟩ := spells_split0 (x1 := item) (x2 := r.flatten) (by simpa using hs)
      -- the token after this definition
      obtain ⟨q1, r1, hq1, hsq1, hfq1⟩ : ∃ q1 r1, c2 ++ e :: rest = q1 :: r1 ∧ Sigf q1 ∧ FollowTokOf r.flatten.head? q1 := by
        cases hrf : r.flatten with
        | nil =>
          have := spells_nil_inv (by rw [hrf] at s2; exact s2)
          subst this
          exact ⟨e, rest, rfl, hse, he⟩
        | cons a x' =>
          obtain ⟨t', tl', rfl, hta'⟩ := spells_head (by rw [hrf] at s2; exact s2)
          exact ⟨t', tl' ++ e :: rest, rfl, sigf_of_astOfV hta', hta'⟩
      have hok := hitem q1 hfq1
      obtain ⟨a, x', rfl, hka⟩ := itemOk_head hok
      obtain ⟨t, tl1, hc1, hta⟩ := spells_head s1
      subst hc1
      have hkt : t.kind = kindOfA a := kind_of_astOfV hta
      have ht' : Toks s = (t :: tl1) ++ q1 :: r1 := by rw [ht, ← hq1]; simp
      unfold peekWhileLoop at hr
      obtain ⟨ko, sP, hp, h2⟩ := bind_dec peek _ s s' () hr
      obtain ⟨rfl, eP, htP, hcur⟩ := peek_head s sP ko t (tl1 ++ q1 :: r1) w (by simpa using ht') hp
      have hbP : sP.recLimit - sP.recCur = s.recLimit - s.recCur := by rw [eP.recLimit, eP.recCur]
      simp only [] at h2
      have h3 := getCurrent_dec _ sP s' () h2
      obtain ⟨b, sB, hb, h4⟩ := bind_dec (documentStep n t.kind) _ sP s' () h3
      unfold documentStep at hb
      have hne : (t.kind == Kind.eof) = false := by rw [hkt]; rcases hka with h | h | h <;> rw [h] <;> rfl
      simp only [hne, Bool.false_eq_true, if_false] at hb
      obtain ⟨_, sC, hc1, hc2⟩ := bind_dec assertRecZero _ sP sB b hb
      rw [assertRecZero_run] at hc1
      injection hc1 with _ hc1
      subst hc1
      obtain ⟨_, sD, hd1, hd2⟩ := bind_dec (documentDispatch n t.kind) _ _ sB b hc2
      rw [run_pure] at hd2
      injection hd2 with hb' hs'
      subst hb' hs'
      have htmem : t ∈ Toks s := by rw [ht']; simp
      have hTP : Toks sP = (t :: tl1) ++ q1 :: r1 := by rw [htP]; simp
      obtain ⟨eD, tD⟩ := item_dispatch_comp n (flagged sP) sD t tl1 (a :: x') q1 r1 (tw_flagged eP.w)
        (by rw [toks_flagged, hTP, ← ht']; exact lq) hcur (hcq t htmem)
        (by show ItemOk (sP.recLimit - sP.recCur) _ _; rw [hbP]; exact hok) s1 (by rw [toks_flagged, hTP]) hsq1 hd1
      simp only [if_true] at h4
      have h5 := getCurrent_dec _ sD s' () h4
      by_cases hsame : (sP.current == sD.current) = true
      · simp only [hsame, if_true] at h5
        exact absurd h5 (stuck_not_ok _ _ _)
      · simp only [hsame, Bool.false_eq_true, if_false] at h5
        have eSD : Eat s sD (t :: tl1) := by simpa using (eP.trans (eat_flagged sP eP.w)).trans eD
        have hbD : sD.recLimit - sD.recCur = s.recLimit - s.recCur := by rw [eSD.recLimit, eSD.recCur]
        have hsuf : Toks s = (t :: tl1) ++ Toks sD := eSD.toks
        obtain ⟨eR, tR⟩ := ih fuel sD s' c2 e rest eSD.w (by rw [hsuf] at lq; exact lq.suffix) (by rw [hsuf] at hcq; exact hcq.suffix) h5
          (by rw [hbD]; exact hrest) s2 (by rw [tD, hq1]) he
        exact ⟨eSD.trans eR, tR⟩

/-- the first token of a non-empty list of definitions, read off an actual spelling -/
theorem docOk_first {b : Nat} {item : List Ast.Tok} {r : List (List Ast.Tok)} (h : DocOk b (item :: r)) (c : List Tok) (e : Tok)
    (hs : Spells c (item :: r).flatten) (he : e.kind = .eof) :
    ∃ t tl1, c = t :: tl1 ∧ Sigf t ∧ (t.kind = .name ∨ t.kind = .lCurly ∨ t.kind = .stringValue) := by
  obtain ⟨c1, c2, rfl, s1, s2⟩ := spells_split0 (x1 := item) (x2 := r.flatten) (by simpa using hs)
  obtain ⟨q1, hfq1⟩ : ∃ q1, FollowTokOf r.flatten.head? q1 := by
    cases hrf : r.flatten with
    | nil => exact ⟨e, he⟩
    | cons a x' =>
      obtain ⟨t', tl', _, hta'⟩ := spells_head (by rw [hrf] at s2; exact s2)
      exact ⟨t', hta'⟩
  obtain ⟨a, x', rfl, hka⟩ := itemOk_head (h.1 q1 hfq1)
  obtain ⟨t, tl1, hc1, hta⟩ := spells_head s1
  exact ⟨t, tl1 ++ c2, by rw [hc1]; rfl, sigf_of_astOfV hta, by rw [kind_of_astOfV hta]; exact hka⟩

theorem documentBody_compG (n : Nat) (items : List (List Ast.Tok)) (s s' : PState) (c : List Tok) (e : Tok) (rest : List Tok)
    (w : TW s) (lq : LexQ (Toks s)) (hcq : CurlyQ (Toks s)) (hne : items ≠ []) (hall : DocOk (s.recLimit - s.recCur) items)
    (hs : Spells c items.flatten) (ht : Toks s = c ++ e :: rest) (he : e.kind = .eof)
    (h : (documentBody n).run s = .ok () s') : Eat s s' c ∧ Toks s' = e :: rest := by
  cases items with
  | nil => exact absurd rfl hne
  | cons item r =>
  obtain ⟨t, tl1, hc, _, hkt⟩ := docOk_first hall c e hs he
  unfold documentBody at h
  obtain ⟨ko, sP, hp, h2⟩ := bind_dec peek _ s s' () h
  obtain ⟨rfl, eP, htP, _⟩ := peek_head s sP ko t (tl1 ++ e :: rest) w (by rw [ht, hc]; simp) hp
  obtain ⟨_, sE, hE, h3⟩ := bind_dec (errIfEmpty _) _ sP s' () h2
  unfold errIfEmpty at hE
  have hemp : (some t.kind == none || some t.kind == some Kind.eof) = false := by
    rcases hkt with h0 | h0 | h0 <;> rw [h0] <;> rfl
  simp only [hemp, Bool.false_eq_true, if_false] at hE
  rw [run_pure] at hE
  injection hE with _ hE
  subst hE
  obtain ⟨_, sL, hL, h4⟩ := bind_dec (peekWhile (documentStep n)) _ sP s' () h3
  unfold peekWhile at hL
  obtain ⟨fuel, h5⟩ := srcLen_dec _ sP sL () hL
  have hbP : sP.recLimit - sP.recCur = s.recLimit - s.recCur := by rw [eP.recLimit, eP.recCur]
  have hTP : Toks sP = c ++ e :: rest := by rw [htP, hc]; simp
  obtain ⟨eL, tL⟩ := docLoop_compG n (item :: r) _ sP sL c e rest eP.w (by rw [hTP, ← ht]; exact lq) (by rw [hTP, ← ht]; exact hcq) h5
    (by rw [hbP]; exact hall) hs hTP he
  have o4 := pushIgnored_obs sL s' h4
  exact ⟨by simpa using (eP.trans eL).trans (Eat.ofObsEq o4 eL.w), by rw [o4.toks]; exact tL⟩

theorem document_compG (n : Nat) (items : List (List Ast.Tok)) (s s' : PState) (i0 c : List Tok) (e : Tok) (rest : List Tok)
    (w : TW s) (lq : LexQ (Toks s)) (hcq : CurlyQ (Toks s)) (hne : items ≠ []) (hall : DocOk (s.recLimit - s.recCur) items)
    (hi0 : Ign i0) (hs : Spells c items.flatten) (ht : Toks s = i0 ++ (c ++ e :: rest)) (he : e.kind = .eof)
    (h : (document n).run s = .ok () s') : Eat s s' (i0 ++ c) ∧ Toks s' = e :: rest := by
  unfold document at h
  obtain ⟨s0, s2, o0, hr0, o2⟩ := withNode_dec "DOCUMENT" (documentBody n) s s' () h
  obtain ⟨_, s1, hsk, hb⟩ := bind_dec skipIgnored _ s0 s2 () hr0
  obtain ⟨t, tl1, hc, hst, _⟩ : ∃ t tl1, c = t :: tl1 ∧ Sigf t ∧ True := by
    cases items with
    | nil => exact absurd rfl hne
    | cons item r =>
      obtain ⟨t, tl1, hc, hst, _⟩ := docOk_first hall c e hs he
      exact ⟨t, tl1, hc, hst, trivial⟩
  obtain ⟨e1, t1, _⟩ := skip_exact s0 s1 i0 t (tl1 ++ e :: rest) (o0.w w) hsk (by rw [o0.toks, ht, hc]; simp) hi0 hst
  have e01 : Eat s s1 i0 := by simpa using (Eat.ofObsEq o0 w).trans e1
  have hb1 : s1.recLimit - s1.recCur = s.recLimit - s.recCur := by rw [e01.recLimit, e01.recCur]
  have hT1 : Toks s1 = c ++ e :: rest := by rw [t1, hc]; simp
  have hsuf : Toks s = i0 ++ Toks s1 := e01.toks
  obtain ⟨eB, tB⟩ := documentBody_compG n items s1 s2 c e rest e01.w (by rw [hsuf] at lq; exact lq.suffix)
    (by rw [hsuf] at hcq; exact hcq.suffix) hne (by rw [hb1]; exact hall) hs hT1 he hb
  exact ⟨by simpa using (e01.trans eB).trans (Eat.ofObsEq o2 eB.w), by rw [o2.toks]; exact tB⟩

/-- a document within the recursion limit: one or more definitions of the grammar (with the liberties of the code:
    leading separators), each allowed before what follows it -/
def IsDocFit (rl : Nat) (x : List Ast.Tok) : Prop :=
  ∃ items : List (List Ast.Tok), items ≠ [] ∧ x = items.flatten ∧ DocOk rl items

theorem parseDocument_completeG (rl : Nat) (src : Str) (x : List Ast.Tok) (i0 c : List Tok) (e : Tok)
    (hclean : LexClean src) (htoks : srcToks src = i0 ++ (c ++ [e])) (hi0 : Ign i0) (hsp : Spells c x) (he : e.kind = .eof)
    (hfit : IsDocFit rl x) : (parse .document none rl src).errors = [] := by
  obtain ⟨items, hne, rfl, hall⟩ := hfit
  obtain ⟨root, htree⟩ := parseDocument_tree none rl src
  unfold parse runEntry at htree ⊢
  simp only [Entry.standalone, Entry.grammar] at htree ⊢
  have w0 : TW (initState src none rl) := ⟨rfl, by intro h; simp [initState] at h⟩
  have ht0 : Toks (initState src none rl) = srcToks src := rfl
  have hnd0 : ¬ Doomed (initState src none rl) := by
    rintro (h | h)
    · exact h rfl
    · unfold LexClean at hclean
      rw [show (initState src none rl).lx = (initState src none 0).lx from rfl, hclean] at h
      cases h
  have hb0 : (initState src none rl).recLimit - (initState src none rl).recCur = rl := by simp [initState]
  cases hr : (document (fuelFor src)).run (initState src none rl) with
  | abort w => simp [hr] at htree
  | panic m => simp [hr] at htree
  | ok a s =>
    simp only []
    obtain ⟨eD, _⟩ := document_compG (fuelFor src) items _ s i0 c e [] w0 (by rw [ht0]; exact lexQ_srcToks src)
      (by rw [ht0]; exact curlyQ_srcToks src) hne (by rw [hb0]; exact hall) hi0 hsp (by rw [ht0, htoks]) he hr
    have hnd : ¬ Doomed s := fun d => hnd0 (eD.doom.mp d)
    by_cases herr : s.errors = []
    · exact herr
    · exact absurd (Or.inl herr) hnd

theorem isDocFit_ne {rl : Nat} {x : List Ast.Tok} (h : IsDocFit rl x) : x ≠ [] := by
  obtain ⟨items, hne, rfl, hall⟩ := h
  cases items with
  | nil => exact absurd rfl hne
  | cons item r =>
    intro h0
    have h1 : item = [] ∧ r.flatten = [] := by simpa using h0
    obtain ⟨a, x', e, _⟩ := itemOk_head (hall.1 ⟨.eof, [], 0⟩ (by rw [h1.2]; rfl))
    rw [h1.1] at e
    cases e

/-- the same in terms of the significant tokens of the source -/
theorem parseDocument_completeG_sig (rl : Nat) (src : Str) (x : List Ast.Tok) (ts : List Tok) (e : Tok)
    (hclean : LexClean src) (hsig : sig (srcToks src) = ts ++ [e]) (he : e.kind = .eof)
    (hx : TokIs ts x) (hfit : IsDocFit rl x) : (parse .document none rl src).errors = [] := by
  obtain ⟨i0, l', hl, hi0, hhead⟩ := ign_split (srcToks src)
  have hsig' : sig l' = ts ++ [e] := by rw [← hsig, hl, sig_ign_append _ _ hi0]
  obtain ⟨c, c2, hc, h1, h2, hh2, hh1⟩ := sig_split l' ts [e] hsig' (by simp)
  obtain ⟨i, rfl, hi⟩ := sig_single_inv c2 e hh2 h2
  have htsne : ts ≠ [] := by
    intro h0; subst h0
    have := isDocFit_ne hfit
    unfold TokIs at hx
    cases x with
    | nil => exact this rfl
    | cons a r => simp at hx
  have hnoc : NoEof c := noEof_of_tokIs c x (by rw [h1]; exact hx)
  obtain ⟨pre, e0, hp, he0, hnop⟩ := stream_eof_end src.length (initState src none 0).lx (Nat.le_refl _) rfl rfl
  have hq : srcToks src = pre ++ [e0] := hp
  rw [hl, hc] at hq
  have hq' : pre ++ [e0] = (i0 ++ c) ++ (e :: i) := by rw [← hq]; simp
  obtain ⟨pre', hr, hnop'⟩ := split_eof (i0 ++ c) pre (e :: i) e0 hq' he0 (noEof_append (noEof_ignored i0 hi0) hnoc) hnop
  have hi00 : i = [] := by
    cases pre' with
    | nil => simp at hr; exact hr.2
    | cons y pre' =>
      exfalso
      simp only [List.cons_append] at hr
      injection hr with hr1 _
      exact hnop' y (by simp) (hr1 ▸ he)
  subst hi00
  exact parseDocument_completeG rl src x i0 c e hclean (by rw [hl, hc]) hi0 ⟨by rw [h1]; exact hx, hh1 htsne hhead⟩ he hfit

end Apollo.Parse.Exact.Z
