import ApolloModel.Proofs.ParserExactS1
/-
EXACT SOUNDNESS, part 2 (namespace Apollo.Parse.Exact): ParserValue6-8 repeated with the recursion budget — lists,
objects, the value family, arguments.
-/
set_option linter.unusedSimpArgs false
namespace Apollo.Parse.Exact
open Apollo.Rowan hiding Str
open Apollo.Lex hiding Str


theorem toks_same (s s' : PState) (hc : s'.current = s.current) (hl : s'.lx = s.lx) : Toks s' = Toks s := by
  unfold Toks; rw [hc, hl]

/-- a nested value under `recursion_limit.check_and_increment()` … `decrement()`: one level of the budget -/
theorem withRec_value {α : Type} (c : Bool) (x : α) (onLimit body : PI α)
    (honl : ∀ s1 s2 a, TW s1 → Toks s1 ≠ [] → onLimit.run s1 = .ok a s2 → Doomed s2)
    (hgb : Good body)
    (hbody : ∀ s1 s2 a, TW s1 → EofEnd s1 → body.run s1 = .ok a s2 → ¬ Doomed s2 → a = x ∧ ValOk c s1 s2)
    (s s' : PState) (a : α) (w : TW s) (he : EofEnd s) (hne : Toks s ≠ [])
    (h : (withRec onLimit body).run s = .ok a s') (hnd : ¬ Doomed s') : a = x ∧ ValOkK 1 c s s' ∧ TW s' := by
  rcases withRec_dec onLimit body s s' a h with ⟨_, sl, ol, hl⟩ | ⟨hle, sr1, sr2, c1, l1, er1, a1, r1, rl1, hr, c2, l2, er2, a2, r2, rl2⟩
  · exfalso
    exact hnd (honl sl s' a (ol.w w) (by rw [ol.toks]; exact hne) hl)
  · have wr1 : TW sr1 := w_same _ _ w er1 l1 a1
    have her1 : EofEnd sr1 := eofEnd_same _ _ he c1 l1 er1
    have adv := hgb sr1 a sr2 wr1 hr
    have hnd2 : ¬ Doomed sr2 := fun d => hnd ((doomed_same _ _ er2 l2).mpr d)
    obtain ⟨hax, ok⟩ := hbody sr1 sr2 a wr1 her1 hr hnd2
    obtain ⟨⟨cs, ha, hb, hd⟩, hee⟩ := ok
    have hbud : bud sr1 + 1 = bud s := by unfold bud; rw [r1, rl1]; omega
    refine ⟨hax, ⟨⟨cs, ?_, hb, ?_⟩, eofEnd_same _ _ hee c2 l2 er2⟩, w_same _ _ adv.w er2 l2 a2⟩
    · rw [← toks_same _ _ c1 l1, toks_same _ _ c2 l2]; exact ha
    · rcases hd with ⟨v, h1, h2, h3⟩ | ⟨e, hh, hk⟩
      · exact Or.inl ⟨v, h1, h2, by omega⟩
      · exact Or.inr ⟨e, by rw [toks_same _ _ c2 l2]; exact hh, hk⟩

theorem limitErr_then_dooms {α : Type} (x : α) (s1 s2 : PState) (a : α) (w : TW s1) (hne : Toks s1 ≠ [])
    (h : (limitErr >>= fun _ => (pure x : PI α)).run s1 = .ok a s2) : Doomed s2 := by
  obtain ⟨_, s3, h1, h2⟩ := bind_dec limitErr _ s1 s2 a h
  rw [run_pure] at h2
  injection h2 with _ h2
  subst h2
  exact (limitErr_adv s1 s3 w h1).2 hne

/-- result of the list loop (after `[`): values then `]` — or stopped at the end of input -/
@[reducible] def ListLoopOk (c : Bool) (s s' : PState) : Prop :=
  ∃ cs, Toks s = cs ++ Toks s' ∧ NoEof cs ∧ EofEnd s' ∧
    ((∃ vs, TokIs (sig cs) (Ast.tValues vs ++ [.p .rBracket]) ∧ valuesOk c vs = true ∧ vsdepth vs ≤ bud s) ∨ AtEof s')

theorem tokIs_length {ts : List Tok} {xs : List Ast.Tok} (h : TokIs ts xs) : ts.length = xs.length := by
  have := congrArg List.length h
  simpa using this

theorem listLoop_sound (n : Nat) (c : Bool) (ih : ValSound n) : ∀ (fuel : Nat) (s s' : PState), TW s → EofEnd s →
    (peekWhileLoop (listLoopBody n c) fuel).run s = .ok () s' → ¬ Doomed s' → ListLoopOk c s s'
  | 0, s, s', _, _, h, _ => by simp [peekWhileLoop, PI.outOfFuel] at h
  | fuel + 1, s, s', w, he, h, hnd => by
    unfold peekWhileLoop at h
    obtain ⟨ko, sP, hp, h2⟩ := bind_dec peek _ s s' () h
    obtain ⟨o, p, hko⟩ := peek_obs s sP ko w hp
    subst hko
    have heP : EofEnd sP := eofEnd_eat he p.eat (by intro x hx; cases hx)
    cases o with
    | none =>
      exfalso
      simp only [Option.map_none] at h2
      rw [run_pure] at h2
      injection h2 with _ h2
      subst h2
      have hh := p.head
      have : Toks s = [] := by
        cases ht : Toks s with
        | nil => rfl
        | cons a b => rw [ht] at hh; cases hh
      exact eofEnd_nonempty s he (fun d => hnd (p.doom.mpr d)) this
    | some t =>
      simp only [Option.map_some] at h2
      have htP : Toks sP = t :: (Toks sP).tail := by
        have := p.head; rw [← p.toks] at this; exact toks_head_cons sP t this.symm
      have h3 := getCurrent_dec _ sP s' () h2
      obtain ⟨b, sB, hb, h4⟩ := bind_dec (listLoopBody n c t.kind) _ sP s' () h3
      by_cases hkr : t.kind = .rBracket
      · -- `]`: bump and stop
        have hbody : (bump "R_BRACK" >>= fun _ => (pure false : PI Bool)).run sP = .ok b sB := by
          simpa [listLoopBody, hkr] using hb
        obtain ⟨_, s5, h5, h6⟩ := bind_dec (bump "R_BRACK") _ sP sB b hbody
        rw [run_pure] at h6
        injection h6 with h6 h7
        subst h6 h7
        simp only [Bool.false_eq_true, if_false] at h4
        rw [run_pure] at h4
        injection h4 with _ h4
        subst h4
        obtain ⟨ign, e, hall, _⟩ := bump_spec "R_BRACK" sP s5 p.w t _ htP h5
        have hni : isIgnoredKind t.kind = false := by rw [hkr]; rfl
        have hne : t.kind ≠ .eof := by rw [hkr]; decide
        refine ⟨t :: ign, by rw [← p.toks]; exact e.toks, noEof_cons hne hall, eofEnd_eat heP e (noEof_cons hne hall),
          Or.inl ⟨.nil, ?_, rfl, by simp [vsdepth]⟩⟩
        rw [sig_cons_ignV t ign hni hall]
        exact TokIs.single t _ (by simp [astOfV, hkr])
      · by_cases hke : t.kind = .eof
        · -- end of input: the loop breaks without an error
          have hbody : (pure false : PI Bool).run sP = .ok b sB := by
            simpa [listLoopBody, hke] using hb
          rw [run_pure] at hbody
          injection hbody with h6 h7
          subst h6 h7
          simp only [Bool.false_eq_true, if_false] at h4
          rw [run_pure] at h4
          injection h4 with _ h4
          subst h4
          exact ⟨[], (by rw [p.toks]; rfl), (by intro x hx; cases hx), heP,
            Or.inr ⟨t, by rw [htP]; rfl, hke⟩⟩
        · -- a value, under the recursion guard
          have hk1 : (t.kind == Kind.rBracket) = false := by simpa using hkr
          have hk2 : (t.kind == Kind.eof) = false := by simpa using hke
          have hbody : (withRec (limitErr >>= fun _ => (pure false : PI Bool))
              (value n c true >>= fun _ => (pure true : PI Bool))).run sP = .ok b sB := by
            simpa [listLoopBody, hk1, hk2] using hb
          have gB : Good (listLoopBody n c t.kind) := good_listLoopBody n c (goodAll n) t.kind
          have aB := gB sP b sB p.w hb
          have hndB : ¬ Doomed sB := by
            intro d
            have : Good (if b = true then (getCurrent >>= fun after =>
                if (sP.current == after) = true then (PI.stuck : PI Unit) else peekWhileLoop (listLoopBody n c) fuel) else pure ()) := by
              cases b with
              | false => exact good_pure _
              | true =>
                exact good_bind _ _ good_getCurrent (fun after => good_ite _ _ _ good_stuck
                  (good_peekWhileLoop _ (good_listLoopBody n c (goodAll n)) fuel))
            exact hnd ((this sB () s' aB.w h4).doom d)
          obtain ⟨hbt, ok, wB⟩ := withRec_value c true _ _
            (fun s1 s2 a w1 hne1 hr => limitErr_then_dooms false s1 s2 a w1 hne1 hr)
            (good_bind _ _ (good_value n c true) (fun _ => good_pure _))
            (by
              intro s1 s2 a w1 he1 hr hnd2
              obtain ⟨_, s3, h5, h6⟩ := bind_dec (value n c true) _ s1 s2 a hr
              rw [run_pure] at h6
              injection h6 with h6 h7
              subst h7
              exact ⟨h6.symm, ih c true s1 s3 w1 he1 h5 hnd2⟩)
            sP sB b p.w heP (by rw [htP]; simp) hbody hndB
          subst hbt
          simp only [if_true] at h4
          have h5 := getCurrent_dec _ sB s' () h4
          by_cases hsame : (sP.current == sB.current) = true
          · simp only [hsame, if_true] at h5
            exact absurd h5 (stuck_not_ok _ _ _)
          · simp only [hsame, Bool.false_eq_true, if_false] at h5
            obtain ⟨⟨c1, hc1, hno1, hr1⟩, he1⟩ := ok
            obtain ⟨c2, hc2, hno2, he2, hr2⟩ := listLoop_sound n c ih fuel sB s' wB he1 h5 hnd
            refine ⟨c1 ++ c2, by rw [← p.toks, hc1, hc2, List.append_assoc], noEof_append hno1 hno2, he2, ?_⟩
            rcases hr1 with ⟨v, hv, hvo, hvd⟩ | ha
            · rcases hr2 with ⟨vs, hvs, hvso, hvsd⟩ | ha2
              · have hbB : bud sB = bud s := by rw [bud_adv aB, bud_peek p]
                have hbP : bud sP = bud s := bud_peek p
                refine Or.inl ⟨.cons v vs, ?_, by simp [valuesOk, hvo, hvso], by simp only [vsdepth]; omega⟩
                rw [sig_append]
                have := hv.append hvs
                simpa [Ast.tValues, List.append_assoc] using this
              · exact Or.inr ha2
            · exact Or.inr (atEof_rest sB s' c2 he1 hndB ha hc2 hno2)


theorem srcLen_dec {α : Type} (f : Nat → PI α) (s s' : PState) (a : α)
    (h : (srcLen >>= f).run s = .ok a s') : ∃ n, (f n).run s = .ok a s' := by
  obtain ⟨n, s1, h1, h2⟩ := bind_dec srcLen _ s s' a h
  have e : srcLen.run s = .ok s.lx.src.length s := rfl
  rw [e] at h1
  cases h1
  exact ⟨_, h2⟩

theorem listValue_sound (n : Nat) (ih : ValSound n) : ListSound (n + 1) := by
  intro c s s' t rest w he ht hk h hnd
  have hni : isIgnoredKind t.kind = false := by rw [hk]; rfl
  have hne : t.kind ≠ .eof := by rw [hk]; decide
  rw [listValue_succ] at h
  obtain ⟨s1, s2, e1, h1, o2⟩ := withNode_peeked _ _ s s' () t rest w ht hni h
  have ht1 : Toks s1 = t :: rest := by have := e1.toks; rw [ht] at this; simpa using this.symm
  have hnd2 : ¬ Doomed s2 := fun d => hnd (o2.doomed.mpr d)
  obtain ⟨_, s3, h3, h4⟩ := bind_dec (bump "L_BRACK") _ s1 s2 () h1
  obtain ⟨ign, eb, hall, _⟩ := bump_spec "L_BRACK" s1 s3 e1.w t rest ht1 h3
  have he3 : EofEnd s3 := eofEnd_eat (eofEnd_eat he e1 (by intro x hx; cases hx)) eb (noEof_cons hne hall)
  unfold peekWhile at h4
  obtain ⟨fuel, h5⟩ := srcLen_dec _ s3 s2 () h4
  obtain ⟨cs, hcs, hno, he2, hr⟩ := listLoop_sound n c ih _ s3 s2 eb.w he3 h5 hnd2
  have e13 : Eat s s3 (t :: ign) := by simpa using e1.trans eb
  refine ⟨⟨(t :: ign) ++ cs, ?_, noEof_append (noEof_cons hne hall) hno, ?_⟩, eofEnd_same _ _ he2 o2.current o2.lx o2.errors⟩
  · rw [e13.toks, hcs, o2.toks, List.append_assoc]
  · rcases hr with ⟨vs, hvs, hvo⟩ | ⟨e, hh, hke⟩
    · rcases hvo with ⟨hvo, hvd⟩
      refine Or.inl ⟨.list vs, ?_, by simpa [valueOk] using hvo, by simp only [vdepth]; rw [bud_eat e13] at hvd; omega⟩
      rw [sig_append, sig_cons_ignV t ign hni hall]
      have := (TokIs.single t (.p .lBracket) (by simp [astOfV, hk])).append hvs
      simpa [Ast.tValue] using this
    · exact Or.inr ⟨e, by rw [o2.toks]; exact hh, hke⟩

/-- one object field: `Name : Value` -/
def QFieldK (K : Nat) (c : Bool) (B : Nat) (x : List Ast.Tok) : Prop :=
  ∃ nm v, x = .name nm :: .p .colon :: Ast.tValue v ∧ valueOk c v = true ∧ vdepth v + K ≤ B

def FieldSound (n : Nat) : Prop := ∀ c B, ItemSpecB B AtEof .name (objectField n c) (QFieldK 1 c B)

/-- `Name : <value under the recursion guard>` inside a node; shared by object fields and arguments -/
theorem namedValue_sound (KK : Nat) (K : SK) (c : Bool) (tail : Option Kind → PI Unit)
    (htail_good : ∀ k, Good (tail k))
    (htail_err : ∀ k s1 s2, k ≠ some Kind.colon → TW s1 → Toks s1 ≠ [] → (tail k).run s1 = .ok () s2 → Doomed s2)
    (inner : PI Unit)
    (htail_colon : tail (some .colon) = (bump "COLON" >>= fun _ => inner))
    (hinner_good : Good inner)
    (hinner : ∀ s1 s2, TW s1 → EofEnd s1 → Toks s1 ≠ [] → inner.run s1 = .ok () s2 → ¬ Doomed s2 → ValOkK KK c s1 s2)
    (s s' : PState) (t : Tok) (rest : List Tok) (w : TW s) (he : EofEnd s) (ht : Toks s = t :: rest) (hk : t.kind = .name)
    (h : (withNode K (name >>= fun _ => peek >>= tail)).run s = .ok () s') (hnd : ¬ Doomed s') :
    ∃ cs, Toks s = cs ++ Toks s' ∧ NoEof cs ∧ EofEnd s' ∧ ((∃ x, TokIs (sig cs) x ∧ QFieldK KK c (bud s) x) ∨ AtEof s') := by
  have hni : isIgnoredKind t.kind = false := by rw [hk]; rfl
  have hne : t.kind ≠ .eof := by rw [hk]; decide
  obtain ⟨s1, s2, e1, h1, o2⟩ := withNode_peeked _ _ s s' () t rest w ht hni h
  have ht1 : Toks s1 = t :: rest := by have := e1.toks; rw [ht] at this; simpa using this.symm
  have hnd2 : ¬ Doomed s2 := fun d => hnd (o2.doomed.mpr d)
  obtain ⟨_, s3, h3, h4⟩ := bind_dec name _ s1 s2 () h1
  have a3 := good_name s1 () s3 e1.w h3
  have gtail : Good (peek >>= tail) := good_bind _ _ good_peek htail_good
  have hnd3 : ¬ Doomed s3 := fun d => hnd2 ((gtail s3 () s2 a3.w h4).doom d)
  obtain ⟨t', rest', ign1, hq, _, en, hall1⟩ := name_spec s1 s3 e1.w (by rw [ht1]; simp) h3 hnd3
  rw [ht1] at hq
  injection hq with hq _
  subst hq
  have he3 : EofEnd s3 := eofEnd_eat (eofEnd_eat he e1 (by intro x hx; cases hx)) en (noEof_cons hne hall1)
  obtain ⟨ko, sP, hp, h5⟩ := bind_dec peek _ s3 s2 () h4
  obtain ⟨o, p, hko⟩ := peek_obs s3 sP ko en.w hp
  subst hko
  have heP : EofEnd sP := eofEnd_eat he3 p.eat (by intro x hx; cases hx)
  have hneP : Toks sP ≠ [] := by rw [p.toks]; exact eofEnd_nonempty s3 he3 hnd3
  by_cases hcol : o.map (·.kind) = some Kind.colon
  · rw [hcol, htail_colon] at h5
    obtain ⟨tc, hoc, hkc⟩ : ∃ tc, o = some tc ∧ tc.kind = .colon := by
      cases o with
      | none => simp at hcol
      | some tc => exact ⟨tc, rfl, by simpa using hcol⟩
    subst hoc
    have htP : Toks sP = tc :: (Toks sP).tail := by
      have := p.head; rw [← p.toks] at this; exact toks_head_cons sP tc this.symm
    obtain ⟨_, s6, h6, h7⟩ := bind_dec (bump "COLON") _ sP s2 () h5
    obtain ⟨ign2, ec, hall2, _⟩ := bump_spec "COLON" sP s6 p.w tc _ htP h6
    have hnic : isIgnoredKind tc.kind = false := by rw [hkc]; rfl
    have hnec : tc.kind ≠ .eof := by rw [hkc]; decide
    have he6 : EofEnd s6 := eofEnd_eat heP ec (noEof_cons hnec hall2)
    have hnd6 : ¬ Doomed s6 := fun d => hnd2 ((hinner_good s6 () s2 ec.w h7).doom d)
    obtain ⟨⟨cv, hcv, hnov, hrv⟩, hev⟩ := hinner s6 s2 ec.w he6 (eofEnd_nonempty s6 he6 hnd6) h7 hnd2
    have e16 : Eat s s6 ((t :: ign1) ++ (tc :: ign2)) := by simpa using ((e1.trans en).trans p.eat).trans ec
    refine ⟨(t :: ign1) ++ (tc :: ign2) ++ cv, ?_, noEof_append (noEof_append (noEof_cons hne hall1) (noEof_cons hnec hall2)) hnov,
      eofEnd_same _ _ hev o2.current o2.lx o2.errors, ?_⟩
    · rw [e16.toks, hcv, o2.toks]; simp [List.append_assoc]
    · rcases hrv with ⟨v, hv, hvo⟩ | ⟨e, hh, hke⟩
      · rcases hvo with ⟨hvo, hvd⟩
        refine Or.inl ⟨_, ?_, ⟨t.data, v, rfl, hvo, by rw [bud_eat e16] at hvd; exact hvd⟩⟩
        rw [sig_append, sig_append, sig_cons_ignV t ign1 hni hall1, sig_cons_ignV tc ign2 hnic hall2]
        have := (TokIs.cons (t := t) (x := .name t.data) (by simp [astOfV, hk])
          (TokIs.single tc (.p .colon) (by simp [astOfV, hkc]))).append hv
        simpa using this
      · exact Or.inr ⟨e, by rw [o2.toks]; exact hh, hke⟩
  · exfalso
    exact hnd2 (htail_err _ sP s2 hcol p.w hneP h5)

theorem objectFieldTail_err (n : Nat) (c : Bool) (k : Option Kind) (s1 s2 : PState) (hk : k ≠ some Kind.colon) (w : TW s1)
    (hne : Toks s1 ≠ []) (h : (objectFieldTail n c k).run s1 = .ok () s2) : Doomed s2 := by
  unfold objectFieldTail at h
  have : (k == some Kind.colon) = false := by simpa using hk
  simp only [this, Bool.false_eq_true, if_false] at h
  exact (err_adv s1 s2 w h).2 hne

theorem objectField_sound (n : Nat) (ih : ValSound n) : FieldSound (n + 1) := by
  intro c B s s' t rest w he hB ht hk h hnd
  rw [objectField_succ] at h
  rw [← hB]
  refine namedValue_sound 1 "OBJECT_FIELD" c (objectFieldTail n c) (good_objectFieldTail n c (goodAll n))
    (fun k s1 s2 hk' w1 hne1 hr => objectFieldTail_err n c k s1 s2 hk' w1 hne1 hr)
    (withRec limitErr (value n c true)) (by simp [objectFieldTail])
    (good_withRec _ _ good_limitErr (good_value n c true)) ?_ s s' t rest w he ht hk h hnd
  intro s1 s2 w1 he1 hne1 hr hnd2
  exact (withRec_value c () limitErr (value n c true)
    (fun s3 s4 a w3 hne3 hr3 => (limitErr_adv s3 s4 w3 hr3).2 hne3) (good_value n c true)
    (fun s3 s4 a w3 he3 hr3 hnd4 => ⟨rfl, ih c true s3 s4 w3 he3 hr3 hnd4⟩) s1 s2 () w1 he1 hne1 hr hnd2).2.1

theorem fields_of_items (c : Bool) (B : Nat) : ∀ (items : List (List Ast.Tok)), (∀ x ∈ items, QFieldK 1 c B x) →
    ∃ fs, items.flatten = Ast.tObjFields fs ∧ fieldsOk c fs = true ∧ fdepth fs ≤ B
  | [], _ => ⟨.nil, rfl, rfl, by simp [fdepth]⟩
  | x :: items, h => by
    obtain ⟨nm, v, hx, hv, hvd⟩ := h x (by simp)
    obtain ⟨fs, hfs, hfo, hfd⟩ := fields_of_items c B items (fun y hy => h y (by simp [hy]))
    refine ⟨.cons nm v fs, ?_, by simp [fieldsOk, hv, hfo], by simp only [fdepth]; omega⟩
    simp [List.flatten_cons, hx, hfs, Ast.tObjFields]

theorem objectValue_sound (n : Nat) (ih : FieldSound n) : ObjSound (n + 1) := by
  intro c s s' t rest w he ht hk h hnd
  have hni : isIgnoredKind t.kind = false := by rw [hk]; rfl
  have hne : t.kind ≠ .eof := by rw [hk]; decide
  rw [objectValue_succ] at h
  obtain ⟨s1, s2, e1, h1, o2⟩ := withNode_peeked _ _ s s' () t rest w ht hni h
  have ht1 : Toks s1 = t :: rest := by have := e1.toks; rw [ht] at this; simpa using this.symm
  have hnd2 : ¬ Doomed s2 := fun d => hnd (o2.doomed.mpr d)
  obtain ⟨_, s3, h3, h4⟩ := bind_dec (bump "L_CURLY") _ s1 s2 () h1
  obtain ⟨ign, eb, hall, _⟩ := bump_spec "L_CURLY" s1 s3 e1.w t rest ht1 h3
  have he3 : EofEnd s3 := eofEnd_eat (eofEnd_eat he e1 (by intro x hx; cases hx)) eb (noEof_cons hne hall)
  obtain ⟨_, sL, h5, h6⟩ := bind_dec (peekWhileKind .name (objectField n c)) _ s3 s2 () h4
  have gf : Good (objectField n c) := (goodAll n).field c
  have aL := good_peekWhileKind _ _ gf s3 () sL eb.w h5
  have hndL : ¬ Doomed sL := fun d => hnd2 ((good_expect _ _ sL () s2 aL.w h6).doom d)
  obtain ⟨cs, hcs, hno, heL, hr⟩ := peekWhileKind_sound (bud s3) AtEof carries_atEof .name (objectField n c) (QFieldK 1 c (bud s3)) gf (ih c (bud s3)) s3 sL eb.w he3 rfl h5 hndL
  obtain ⟨_, hex⟩ := expect_spec .rCurly "R_CURLY" sL s2 aL.w h6
  rcases hex with ⟨hemp, _⟩ | hd | ⟨t2, rest2, ign2, hq, hk2, e2, hall2, _⟩
  · exact absurd hemp (eofEnd_nonempty sL heL hndL)
  · exact absurd hd hnd2
  · have hni2 : isIgnoredKind t2.kind = false := by rw [hk2]; rfl
    have hne2 : t2.kind ≠ .eof := by rw [hk2]; decide
    rcases hr with ⟨items, hi, hall3⟩ | ⟨e, hh, hke⟩
    · obtain ⟨fs, hfs, hfo, hfd⟩ := fields_of_items c (bud s3) items hall3
      have e13 : Eat s s3 (t :: ign) := by simpa using e1.trans eb
      refine ⟨⟨(t :: ign) ++ cs ++ (t2 :: ign2), ?_, noEof_append (noEof_append (noEof_cons hne hall) hno) (noEof_cons hne2 hall2),
        Or.inl ⟨.obj fs, ?_, by simpa [valueOk] using hfo, by simp only [vdepth]; rw [bud_eat e13] at hfd; omega⟩⟩,
        eofEnd_same _ _ (eofEnd_eat heL e2 (noEof_cons hne2 hall2)) o2.current o2.lx o2.errors⟩
      · rw [e13.toks, hcs, e2.toks, o2.toks]; simp [List.append_assoc]
      · rw [sig_append, sig_append, sig_cons_ignV t ign hni hall, sig_cons_ignV t2 ign2 hni2 hall2]
        rw [hfs] at hi
        have := ((TokIs.single t (.p .lCurly) (by simp [astOfV, hk])).append hi).append
          (TokIs.single t2 (.p .rCurly) (by simp [astOfV, hk2]))
        simpa [Ast.tValue] using this
    · exfalso
      rw [hq] at hh
      simp only [List.head?_cons, Option.some.injEq] at hh
      subst hh
      rw [hk2] at hke
      cases hke


theorem value_sound_step (n : Nat) (hl : ListSound n) (ho : ObjSound n) : ValSound (n + 1) := by
  intro c pp s s' w he h hnd
  have hnds : ¬ Doomed s := fun d => hnd ((good_value (n + 1) c pp s () s' w h).doom d)
  rw [value_succ] at h
  obtain ⟨ko, sP, hp, h2⟩ := bind_dec peek _ s s' () h
  obtain ⟨o, p, hko⟩ := peek_obs s sP ko w hp
  subst hko
  have heP : EofEnd sP := eofEnd_eat he p.eat (by intro x hx; cases hx)
  have hneP : Toks sP ≠ [] := by rw [p.toks]; exact eofEnd_nonempty s he hnds
  cases o with
  | none =>
    exfalso
    have hh := p.head
    have : Toks s = [] := by
      cases ht : Toks s with
      | nil => rfl
      | cons a b => rw [ht] at hh; cases hh
    exact eofEnd_nonempty s he hnds this
  | some t =>
    have htP : Toks sP = t :: (Toks sP).tail := by
      have := p.head; rw [← p.toks] at this; exact toks_head_cons sP t this.symm
    refine ValOk.transfer ?_ p.toks (bud_peek p)
    simp only [Option.map_some] at h2
    cases hk : t.kind <;> simp only [hk, valueBranch] at h2 <;> first
      | exact absurd (valueErr_dooms pp sP s' p.w hneP h2) hnd
      | exact variableBranch_sound c pp sP s' p.w heP t _ htP hk h2 hnd
      | exact nameValue_sound c sP s' p.w heP t _ htP hk h2 hnd
      | exact hl c sP s' t _ p.w heP htP hk h2 hnd
      | exact ho c sP s' t _ p.w heP htP hk h2 hnd
      | exact scalar_branch "INT_VALUE" "INT" c sP s' p.w heP t _ htP (by rw [hk]; rfl) (by rw [hk]; decide)
          (.int t.data) _ (by simp [astOfV, hk]) rfl rfl h2
      | exact scalar_branch "FLOAT_VALUE" "FLOAT" c sP s' p.w heP t _ htP (by rw [hk]; rfl) (by rw [hk]; decide)
          (.float t.data) _ (by simp [astOfV, hk]) rfl rfl h2
      | exact scalar_branch "STRING_VALUE" "STRING" c sP s' p.w heP t _ htP (by rw [hk]; rfl) (by rw [hk]; decide)
          (.str ((Strs.decodeStringToken t.data).getD [])) _ (by simp [astOfV, hk]) rfl rfl h2

theorem all_sound : ∀ n, ValSound n ∧ ListSound n ∧ ObjSound n ∧ FieldSound n
  | 0 => by
    refine ⟨?_, ?_, ?_, ?_⟩
    · intro c p s s' _ _ h; simp [value, PI.outOfFuel] at h
    · intro c s s' t rest _ _ _ _ h; simp [listValue, PI.outOfFuel] at h
    · intro c s s' t rest _ _ _ _ h; simp [objectValue, PI.outOfFuel] at h
    · intro c B s s' t rest _ _ _ _ _ h; simp [objectField, PI.outOfFuel] at h
  | n + 1 => by
    obtain ⟨v, l, o, f⟩ := all_sound n
    exact ⟨value_sound_step n l o, listValue_sound n v, objectValue_sound n f, objectField_sound n v⟩

/-- **`value.rs`, acceptance is sound** -/
theorem value_sound (n : Nat) : ValSound n := (all_sound n).1

/-! ### arguments -/

theorem argumentTail_err (n : Nat) (c : Bool) (k : Option Kind) (s1 s2 : PState) (hk : k ≠ some Kind.colon) (w : TW s1)
    (hne : Toks s1 ≠ []) (h : (argumentTail n c k).run s1 = .ok () s2) : Doomed s2 := by
  unfold argumentTail at h
  have : (k == some Kind.colon) = false := by simpa using hk
  simp only [this, Bool.false_eq_true, if_false] at h
  exact (err_adv s1 s2 w h).2 hne

/-- one argument `Name : Value` -/
theorem argument_sound (n : Nat) (c : Bool) (B : Nat) : ItemSpecB B AtEof .name (argument n c) (QFieldK 0 c B) := by
  intro s s' t rest w he hB ht hk h hnd
  rw [argument_eq] at h
  rw [← hB]
  exact namedValue_sound 0 "ARGUMENT" c (argumentTail n c) (good_argumentTail n c)
    (fun k s1 s2 hk' w1 hne1 hr => argumentTail_err n c k s1 s2 hk' w1 hne1 hr)
    (value n c false) (by simp [argumentTail]) (good_value n c false)
    (fun s1 s2 w1 he1 _ hr hnd2 => value_sound n c false s1 s2 w1 he1 hr hnd2) s s' t rest w he ht hk h hnd

theorem args_of_items (c : Bool) (B : Nat) : ∀ (items : List (List Ast.Tok)), (∀ x ∈ items, QFieldK 0 c B x) →
    ∃ args, items.flatten = Ast.tArgItems args ∧ argsFit c B args ∧ args.length = items.length
  | [], _ => ⟨[], rfl, (by intro a ha; cases ha), rfl⟩
  | x :: items, h => by
    obtain ⟨nm, v, hx, hv⟩ := h x (by simp)
    obtain ⟨args, ha, hok, hlen⟩ := args_of_items c B items (fun y hy => h y (by simp [hy]))
    refine ⟨(nm, v) :: args, ?_, ?_, by simp [hlen]⟩
    · simp [List.flatten_cons, hx, ha, Ast.tArgItems]
    · intro a ha'
      rcases List.mem_cons.mp ha' with rfl | ha'
      · exact ⟨hv.1, by have := hv.2; omega⟩
      · exact hok a ha'

/-- **`argument.rs::arguments`**: started on `(`, an error-free run consumes exactly the tokens of a non-empty
    argument list `( Name : Value … )` -/
theorem arguments_sound (n : Nat) (c : Bool) (s s' : PState) (t : Tok) (rest : List Tok) (w : TW s) (he : EofEnd s)
    (ht : Toks s = t :: rest) (hk : t.kind = .lParen) (h : (arguments n c).run s = .ok () s') (hnd : ¬ Doomed s') :
    ∃ cs args, Toks s = cs ++ Toks s' ∧ NoEof cs ∧ EofEnd s' ∧ args ≠ [] ∧
      TokIs (sig cs) (Ast.tArguments args) ∧ argsFit c (bud s) args := by
  have hni : isIgnoredKind t.kind = false := by rw [hk]; rfl
  have hne : t.kind ≠ .eof := by rw [hk]; decide
  rw [arguments_eq] at h
  obtain ⟨s1, s2, e1, h1, o2⟩ := withNode_peeked _ _ s s' () t rest w ht hni h
  have ht1 : Toks s1 = t :: rest := by have := e1.toks; rw [ht] at this; simpa using this.symm
  have hnd2 : ¬ Doomed s2 := fun d => hnd (o2.doomed.mpr d)
  obtain ⟨_, s3, h3, h4⟩ := bind_dec (bump "L_PAREN") _ s1 s2 () h1
  obtain ⟨ign, eb, hall, _⟩ := bump_spec "L_PAREN" s1 s3 e1.w t rest ht1 h3
  have he3 : EofEnd s3 := eofEnd_eat (eofEnd_eat he e1 (by intro x hx; cases hx)) eb (noEof_cons hne hall)
  obtain ⟨ko, sP, hp, h5⟩ := bind_dec peek _ s3 s2 () h4
  obtain ⟨o, p, hko⟩ := peek_obs s3 sP ko eb.w hp
  subst hko
  have heP : EofEnd sP := eofEnd_eat he3 p.eat (by intro x hx; cases hx)
  have grest := good_argumentsRest n c
  have hndP : ¬ Doomed sP := by
    intro d
    have : Good (argumentsFirst n c (o.map (·.kind))) :=
      good_ite _ _ _ (good_bind _ _ (good_argument n c) (fun _ => grest)) (good_bind _ _ good_err (fun _ => grest))
    exact hnd2 ((this sP () s2 p.w h5).doom d)
  have hneP : Toks sP ≠ [] := eofEnd_nonempty sP heP hndP
  unfold argumentsFirst at h5
  by_cases hkn : (o.map (·.kind) == some Kind.name) = true
  · simp only [hkn, if_true] at h5
    obtain ⟨ta, hoa, hka⟩ : ∃ ta, o = some ta ∧ ta.kind = .name := by
      cases o with
      | none => simp at hkn
      | some ta => exact ⟨ta, rfl, by simpa using hkn⟩
    subst hoa
    have htP : Toks sP = ta :: (Toks sP).tail := by
      have := p.head; rw [← p.toks] at this; exact toks_head_cons sP ta this.symm
    obtain ⟨_, sA, h6, h7⟩ := bind_dec (argument n c) _ sP s2 () h5
    have aA := good_argument n c sP () sA p.w h6
    have hndA : ¬ Doomed sA := fun d => hnd2 ((grest sA () s2 aA.w h7).doom d)
    obtain ⟨c1, hc1, hno1, heA, hr1⟩ := argument_sound n c (bud sP) sP sA ta _ p.w heP rfl htP hka h6 hndA
    unfold argumentsRest at h7
    obtain ⟨_, sL, h8, h9⟩ := bind_dec (peekWhileKind .name (argument n c)) _ sA s2 () h7
    have aL := good_peekWhileKind _ _ (good_argument n c) sA () sL aA.w h8
    have hndL : ¬ Doomed sL := fun d => hnd2 ((good_expect _ _ sL () s2 aL.w h9).doom d)
    obtain ⟨c2, hc2, hno2, heL, hr2⟩ := peekWhileKind_sound (bud sP) AtEof carries_atEof .name (argument n c) (QFieldK 0 c (bud sP)) (good_argument n c)
      (argument_sound n c (bud sP)) sA sL aA.w heA (bud_adv aA) h8 hndL
    obtain ⟨_, hex⟩ := expect_spec .rParen "R_PAREN" sL s2 aL.w h9
    rcases hex with ⟨hemp, _⟩ | hd | ⟨t2, rest2, ign2, hq, hk2, e2, hall2, _⟩
    · exact absurd hemp (eofEnd_nonempty sL heL hndL)
    · exact absurd hd hnd2
    · have hni2 : isIgnoredKind t2.kind = false := by rw [hk2]; rfl
      have hne2 : t2.kind ≠ .eof := by rw [hk2]; decide
      have notEof : ¬ AtEof sL := by
        rintro ⟨e, hh, hke⟩
        rw [hq] at hh
        simp only [List.head?_cons, Option.some.injEq] at hh
        subst hh
        rw [hk2] at hke
        cases hke
      have hitems : ∃ items : List (List Ast.Tok), TokIs (sig (c1 ++ c2)) items.flatten ∧ (∀ x ∈ items, QFieldK 0 c (bud sP) x) ∧ items ≠ [] := by
        rcases hr1 with ⟨x, hx, hqx⟩ | ha
        · rcases hr2 with ⟨items, hi, hall3⟩ | ha2
          · refine ⟨x :: items, ?_, ?_, by simp⟩
            · rw [sig_append]; simpa using hx.append hi
            · intro y hy
              rcases List.mem_cons.mp hy with rfl | hy
              · exact hqx
              · exact hall3 y hy
          · exact absurd ha2 notEof
        · exact absurd (atEof_rest sA sL c2 heA hndA ha hc2 hno2) notEof
      obtain ⟨items, hi, hall3, hnei⟩ := hitems
      obtain ⟨args, hargs, hok, hlen⟩ := args_of_items c (bud sP) items hall3
      have hane : args ≠ [] := by
        intro e; rw [e] at hlen; simp at hlen
        exact hnei (List.eq_nil_of_length_eq_zero hlen.symm)
      have e1P : Eat s sP (t :: ign) := by simpa using (e1.trans eb).trans p.eat
      refine ⟨(t :: ign) ++ (c1 ++ c2) ++ (t2 :: ign2), args, ?_,
        noEof_append (noEof_append (noEof_cons hne hall) (noEof_append hno1 hno2)) (noEof_cons hne2 hall2),
        eofEnd_same _ _ (eofEnd_eat heL e2 (noEof_cons hne2 hall2)) o2.current o2.lx o2.errors, hane, ?_, by rw [← bud_eat e1P]; exact hok⟩
      · rw [e1P.toks, hc1, hc2, e2.toks, o2.toks]; simp [List.append_assoc]
      · rw [sig_append, sig_append, sig_cons_ignV t ign hni hall, sig_cons_ignV t2 ign2 hni2 hall2]
        rw [hargs] at hi
        have := ((TokIs.single t (.p .lParen) (by simp [astOfV, hk])).append hi).append
          (TokIs.single t2 (.p .rParen) (by simp [astOfV, hk2]))
        have hemp : args.isEmpty = false := by
          cases args with
          | nil => exact absurd rfl hane
          | cons a r => rfl
        simpa [Ast.tArguments, hemp] using this
  · exfalso
    simp only [hkn, Bool.false_eq_true, if_false] at h5
    obtain ⟨_, sE, h6, h7⟩ := bind_dec err _ sP s2 () h5
    obtain ⟨aE, dE⟩ := err_adv sP sE p.w h6
    exact hnd2 ((grest sE () s2 aE.w h7).doom (dE hneP))

end Apollo.Parse.Exact
