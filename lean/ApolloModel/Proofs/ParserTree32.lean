import ApolloModel.Proofs.ParserTree31
import ApolloModel.Proofs.ParserTreeDef13
/-
C08 growth (pipeline), part 32: the whole grammar — builderA's type-system definitions plugged into the document
theorem; what `Document::from_cst` returns for EVERY accepted document, and its agreement with the reference parser.
-/
set_option linter.unusedSimpArgs false
set_option linter.unusedVariables false

namespace Apollo.FromCst
open Apollo.Rowan Apollo.Ast
open Apollo.Parse (LooseDef)

/-- the node of a type-system definition is one of the fifteen type-system kinds -/
theorem defTree_kind (l : LooseDef) (e : Elem) (h : DefTree l e) :
    ∃ K cs, e = .node K cs ∧ isDefinitionKind K = true ∧ (K == "OPERATION_DEFINITION" || K == "FRAGMENT_DEFINITION") = false := by
  cases l <;> simp only [DefTree, NamedDefTree] at h
  all_goals first
    | (obtain ⟨cs, _, _, rfl, _⟩ := h; exact ⟨_, cs, rfl, by decide, by decide⟩)
    | (obtain ⟨cs, _, _, _, rfl, _⟩ := h; exact ⟨_, cs, rfl, by decide, by decide⟩)
    | (obtain ⟨cs, _, _, _, _, rfl, _⟩ := h; exact ⟨_, cs, rfl, by decide, by decide⟩)
    | (obtain ⟨cs, _, _, _, _, _, rfl, _⟩ := h; exact ⟨_, cs, rfl, by decide, by decide⟩)

end Apollo.FromCst

namespace Apollo.Parse
open Apollo.Rowan hiding Str
open Apollo.Lex hiding Str
open Apollo.FromCst (All2 DefTree defTree_of_named looseConv)

/-- ONE type-system definition or extension: the tokens of a loose definition `l` (well-formed), ONE element, its tree -/
def TsAny (cs : List Tok) (e : List Elem) : Prop :=
  ∃ (l : LooseDef) (ed : Elem), TokIs cs l.toks ∧ l.wf = true ∧ e = [ed] ∧ DefTree l ed

/-- **stage (v) plugged in**: the fifteen type-system entries of the document theorem, from builderA's per-definition
    theorems -/
theorem tsTrs (n : Nat) : TsTrs n TsAny where
  directive := (tr_directiveDefinition n).mono (fun _ h => (dstart_defStart h).2) (by
    rintro _ cs e ⟨desc, nm, args, rep, lead, first, rest, ed, h1, h2, h3, h4⟩
    exact ⟨.directive desc nm args rep lead first rest, ed, h1, h2, h3, h4⟩)
  enumDef := (tr_enumTypeDefinition n).mono (fun _ h => (dstart_defStart h).2) (by
    rintro _ cs e ⟨desc, nm, ds, vs, ed, h1, h2, h3, h4, h5, h6⟩
    exact ⟨.enum desc nm ds vs, ed, h1, by simp [LooseDef.wf, h2, h3, all_notKeyword h4], h5, defTree_of_named h6⟩)
  input := (tr_inputObjectTypeDefinition n).mono (fun _ h => (dstart_defStart h).2) (by
    rintro _ cs e ⟨desc, nm, ds, fs, ed, h1, h2, h3, h5, h6⟩
    exact ⟨.input desc nm ds fs, ed, h1, by simp [LooseDef.wf, h2, h3], h5, defTree_of_named h6⟩)
  interface := (tr_interfaceTypeDefinition n).mono (fun _ h => (dstart_defStart h).2) (by
    rintro _ cs e ⟨desc, nm, impl, ds, fs, ed, h1, h2, h3, h5, h6⟩
    exact ⟨.interface desc nm impl ds fs, ed, h1, by simp [LooseDef.wf, h2, h3], h5, defTree_of_named h6⟩)
  object := (tr_objectTypeDefinition n).mono (fun _ h => (dstart_defStart h).2) (by
    rintro _ cs e ⟨desc, nm, impl, ds, fs, ed, h1, h2, h3, h5, h6⟩
    exact ⟨.object desc nm impl ds fs, ed, h1, by simp [LooseDef.wf, h2, h3], h5, defTree_of_named h6⟩)
  scalar := (tr_scalarTypeDefinition n).mono (fun _ h => (dstart_defStart h).2) (by
    rintro _ cs e ⟨desc, nm, ds, ed, h1, h2, h5, h6⟩
    exact ⟨.scalar desc nm ds, ed, h1, h2, h5, defTree_of_named h6⟩)
  schema := (tr_schemaDefinition n).mono (fun _ h => (dstart_defStart h).2) (by
    rintro _ cs e ⟨desc, ds, roots, ed, h1, h2, hne, h5, h6⟩
    have hemp : roots.isEmpty = false := by cases roots with | nil => exact absurd rfl hne | cons _ _ => rfl
    exact ⟨.schema desc ds roots, ed, h1, by simp [LooseDef.wf, h2, hemp], h5, h6⟩)
  union := (tr_unionTypeDefinition n).mono (fun _ h => (dstart_defStart h).2) (by
    rintro _ cs e ⟨desc, nm, ds, ms, ed, h1, h2, h5, h6⟩
    exact ⟨.union desc nm ds ms, ed, h1, h2, h5, defTree_of_named h6⟩)
  schemaExt := (tr_schemaExtension n).mono (fun _ h => (estart_ext2 h).2) (by
    rintro _ cs e ⟨ds, roots, ed, h1, h2, h5, h6⟩
    exact ⟨.schemaExt ds roots, ed, h1, h2, h5, h6⟩)
  scalarExt := (tr_scalarTypeExtension n).mono (fun _ h => (estart_ext2 h).2) (by
    rintro _ cs e ⟨nm, ds, ed, h1, h2, h5, h6⟩
    exact ⟨.scalarExt nm ds, ed, h1, h2, h5, defTree_of_named h6⟩)
  objectExt := (tr_objectTypeExtension n).mono (fun _ h => (estart_ext2 h).2) (by
    rintro _ cs e ⟨nm, impl, ds, fs, ed, h1, h2, h3, h5, h6⟩
    exact ⟨.objectExt nm impl ds fs, ed, h1, by simp [LooseDef.wf, h2, h3], h5, defTree_of_named h6⟩)
  interfaceExt := (tr_interfaceTypeExtension n).mono (fun _ h => (estart_ext2 h).2) (by
    rintro _ cs e ⟨nm, impl, ds, fs, ed, h1, h2, h3, h5, h6⟩
    exact ⟨.interfaceExt nm impl ds fs, ed, h1, by simp [LooseDef.wf, h2, h3], h5, defTree_of_named h6⟩)
  unionExt := (tr_unionTypeExtension n).mono (fun _ h => (estart_ext2 h).2) (by
    rintro _ cs e ⟨nm, ds, ms, ed, h1, h2, h5, h6⟩
    exact ⟨.unionExt nm ds ms, ed, h1, h2, h5, defTree_of_named h6⟩)
  enumExt := (tr_enumTypeExtension n).mono (fun _ h => (estart_ext2 h).2) (by
    rintro _ cs e ⟨nm, ds, vs, ed, h1, h2, h3, h4, h5, h6⟩
    exact ⟨.enumExt nm ds vs, ed, h1, by simp [LooseDef.wf, h2, h3, all_notKeyword h4], h5, defTree_of_named h6⟩)
  inputExt := (tr_inputObjectTypeExtension n).mono (fun _ h => (estart_ext2 h).2) (by
    rintro _ cs e ⟨nm, ds, fs, ed, h1, h2, h3, h5, h6⟩
    exact ⟨.inputExt nm ds fs, ed, h1, by simp [LooseDef.wf, h2, h3], h5, defTree_of_named h6⟩)

/-! ### every accepted document -/

def DocItem.conv : DocItem → Ast.Definition
  | .exec _ d => d
  | .loose l => looseConv l

def DocItem.wfB : DocItem → Prop
  | .exec _ d => Ast.wfDefinition d = true
  | .loose l => l.wf = true

/-- one definition of an accepted document, executable or type system -/
def DocItemR (cs : List Tok) (e : List Elem) : Prop :=
  ∃ (i : DocItem) (ed : Elem), TokIs cs i.toks ∧ i.wfB ∧ e = [ed] ∧ DefConv i.conv ed

theorem docItemR_of_exec {cs : List Tok} {e : List Elem} (h : ExecItemR cs e) : DocItemR cs e := by
  obtain ⟨it, ed, a, b, c, d, _⟩ := h
  exact ⟨.exec it.1 it.2, ed, a, b, c, d⟩

theorem docItemR_of_ts {cs : List Tok} {e : List Elem} (h : TsAny cs e) : DocItemR cs e := by
  obtain ⟨l, ed, a, b, c, d⟩ := h
  obtain ⟨K, kcs, rfl, hk, _⟩ := FromCst.defTree_kind l ed d
  exact ⟨.loose l, _, a, b, c, by rw [FromCst.nodeP_node]; exact hk, fun m hm => FromCst.cDefinition_defTree m l _ d hm⟩

theorem docItems_collect : ∀ (items : List (List Tok × List Elem)), (∀ i ∈ items, DocItemR i.1 i.2) →
    ∃ (its : List DocItem) (eds : List Elem), TokIs (items.map (·.1)).flatten (docToks its) ∧
      (items.map (·.2)).flatten = eds ∧ its.length = items.length ∧ (∀ i ∈ its, i.wfB) ∧
      All2 (fun e (i : DocItem) => DefConv i.conv e) eds its
  | [], _ => ⟨[], [], TokIs.nil, rfl, rfl, (by intro i hi; cases hi), All2.nil⟩
  | i :: items, h => by
    obtain ⟨its, eds, h1, h2, h3, h4, h5⟩ := docItems_collect items (fun j hj => h j (List.mem_cons_of_mem _ hj))
    obtain ⟨it, ed, ht, hw, he, hc⟩ := h i List.mem_cons_self
    refine ⟨it :: its, ed :: eds, ?_, ?_, by simp [h3], ?_, All2.cons hc h5⟩
    · simp only [List.map_cons, List.flatten_cons, docToks]
      exact ht.append h1
    · simp only [List.map_cons, List.flatten_cons, he, h2]; rfl
    · intro j hj
      rcases List.mem_cons.mp hj with rfl | hj
      · exact hw
      · exact h4 j hj

/-- what the strict reading of an item is: same conversion, well-formed -/
theorem strictItems_conv : ∀ (its : List DocItem) (items : List Ast.Item), strictItems its = some items →
    (∀ i ∈ its, i.wfB) → its.map DocItem.conv = items.map (·.2) ∧ ∀ a ∈ items, Ast.wfDefinition a.2 = true
  | [], items, h, _ => by
    simp only [strictItems, Option.some.injEq] at h
    subst h
    exact ⟨rfl, by intro a ha; cases ha⟩
  | i :: r, items, h, hw => by
    simp only [strictItems] at h
    cases hi : i.strict with
    | none => rw [hi] at h; simp at h
    | some a =>
      cases hr : strictItems r with
      | none => rw [hi, hr] at h; simp at h
      | some b =>
        rw [hi, hr] at h
        simp only [Option.some.injEq] at h
        subst h
        obtain ⟨ih1, ih2⟩ := strictItems_conv r b hr (fun j hj => hw j (List.mem_cons_of_mem _ hj))
        have hwi := hw i List.mem_cons_self
        have key : i.conv = a.2 ∧ Ast.wfDefinition a.2 = true := by
          cases i with
          | exec oe d =>
            simp only [DocItem.strict, Option.some.injEq] at hi
            subst hi
            exact ⟨rfl, hwi⟩
          | loose l =>
            simp only [DocItem.strict, Option.map_eq_some_iff] at hi
            obtain ⟨d, hd, rfl⟩ := hi
            exact ⟨FromCst.looseConv_strict l d hd, LooseDef.wf_strict l d hd hwi⟩
        refine ⟨by simp only [List.map_cons, key.1, ih1], ?_⟩
        intro x hx
        rcases List.mem_cons.mp hx with rfl | hx
        · exact key.2
        · exact ih2 x hx

/-- **document_pipeline_agrees, for EVERY accepted document.**  `Parser::parse` without error: the significant tokens
    are `docToks its` for a non-empty list of items — executable definitions in either form, type-system definitions
    and extensions up to the two liberties (`LooseDef`), all with the well-formedness facts the parser establishes —
    and `Document::from_cst` on the tree returns, item by item, the definition (`DocItem.conv`: for a loose definition
    `looseConv`, i.e. a leading `&` / `|` is not represented and a root operation without its type is dropped).
    STRICT CASE: when no item uses a liberty (`strictItems its = some items`) the tokens are the printer's tokens
    `itemsToks items`, every definition is well-formed (`wfDefinition`, NO hypothesis), `from_cst` returns exactly the
    definitions of `items`, and the reference parser `pDocument` returns the same list whenever the decomposition
    satisfies `ItemsFollowOk` (automatic for executable documents and for the printer's shape). -/
theorem parseDocument_agrees (rl : Nat) (src : Str) (root : Elem)
    (h : (parse .document none rl src).outcome = .tree root) (herr : (parse .document none rl src).errors = []) :
    LexClean src ∧ ∃ (ts : List Tok) (e : Tok) (its : List DocItem), sig (srcToks src) = ts ++ [e] ∧ e.kind = .eof ∧
      its ≠ [] ∧ TokIs ts (docToks its) ∧ (∀ i ∈ its, i.wfB) ∧ (FromCst.fromCst root).1 = its.map DocItem.conv ∧
      ∀ items, strictItems its = some items →
        items ≠ [] ∧ docToks its = Ast.itemsToks items ∧ (∀ a ∈ items, Ast.wfDefinition a.2 = true) ∧
        (FromCst.fromCst root).1 = items.map (·.2) ∧
        (Ast.ItemsFollowOk items → ∀ f, Ast.szDefinitions (items.map (·.2)) ≤ f →
          Ast.pDocument f (Ast.itemsToks items) = some ((FromCst.fromCst root).1)) := by
  obtain ⟨hclean, ts, e, inner, h1, h2, hroot, items, hne, hts, hsig, hall⟩ :=
    parseDocument_cst (fun n => defTrs_of_ts n TsAny (tsTrs n)) rl src root h herr
  obtain ⟨its, eds, g1, g2, g3, g4, g5⟩ := docItems_collect items
    (fun i hi => (hall i hi).elim docItemR_of_exec docItemR_of_ts)
  have hne' : its ≠ [] := by
    intro h0
    rw [h0] at g3
    cases items with
    | nil => exact hne rfl
    | cons a b => simp at g3
  have hfrom : (FromCst.fromCst root).1 = its.map DocItem.conv := by
    rw [hroot]
    have := fromCst_document inner eds (its.map (fun i => ((false, i.conv) : Ast.Item))) (by rw [hsig, g2])
      (all2_map_right _ _ _ _ g5)
    rw [this, List.map_map]
    rfl
  refine ⟨hclean, ts, e, its, h1, h2, hne', by rw [hts]; exact g1, g4, hfrom, ?_⟩
  intro sitems hs
  obtain ⟨ht, hlen⟩ := strictItems_toks its sitems hs
  obtain ⟨hc, hw⟩ := strictItems_conv its sitems hs g4
  have hne'' : sitems ≠ [] := by
    rintro rfl
    cases its with
    | nil => exact hne' rfl
    | cons a b => simp at hlen
  refine ⟨hne'', ht, hw, by rw [hfrom, hc], fun hf f hsz => ?_⟩
  rw [hfrom, hc]
  exact Ast.items_document_roundtrip sitems f hne'' hw hsz hf

end Apollo.Parse
