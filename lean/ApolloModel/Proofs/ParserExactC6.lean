import ApolloModel.Proofs.ParserExactC5
/-
EXACT-BUDGET COPY of ParserComplete6 (namespace Apollo.Parse.Exact, exact `vdepth`).
C05 / C07 growth (completeness), part 6: the lookahead `peek_n(2)` and the non-recursive pieces of the
selection grammar (alias, fragment name, type condition, fragment spread).
-/
set_option linter.unusedSimpArgs false
namespace Apollo.Parse.Exact
open Apollo.Rowan hiding Str
open Apollo.Lex hiding Str

/-- from a settled state (the current token is the significant head of the queue), the lookahead `2` is the
    first significant token of the rest of the queue -/
theorem lookahead2_spec (s : PState) (t : Tok) (rest : List Tok) (w : TW s)
    (hc : s.current = some t) (ht : Toks s = t :: rest) (hni : isIgnoredKind t.kind = false) :
    lookahead s 2 = (sig rest).head? := by
  have hrest : rest = toksOf (stream s.lx) := by
    unfold Toks at ht
    rw [hc] at ht
    simp only [Option.toList, List.cons_append, List.nil_append, List.cons.injEq, true_and] at ht
    exact ht.symm
  unfold lookahead
  rw [hc]
  have hnk : (t.kind == .whitespace || t.kind == .comment || t.kind == .comma) = false := by
    simp only [isIgnoredKind] at hni
    cases hk : t.kind <;> simp [hk] at hni ⊢
  simp only [hnk, Bool.false_eq_true, if_false]
  have : ¬ (2 ≤ 1) := by omega
  simp only [this, if_false]
  show aheadLoop _ s.lx 1 = _
  rw [aheadLoop_one _ s.lx w.limit (by omega), hrest]

theorem peekTokenN2_spec (s s' : PState) (o : Option Tok) (t : Tok) (rest : List Tok) (w : TW s)
    (hc : s.current = some t) (ht : Toks s = t :: rest) (hni : isIgnoredKind t.kind = false)
    (h : (peekTokenN 2).run s = .ok o s') : s' = s ∧ o = (sig rest).head? := by
  unfold peekTokenN at h
  simp only [] at h
  injection h with h1 h2
  exact ⟨h2.symm, by rw [← h1]; exact lookahead2_spec s t rest w hc ht hni⟩

theorem sig_ign_append (i l : List Tok) (hi : Ign i) : sig (i ++ l) = sig l := by
  rw [sig_append, sig_ignored i hi]; rfl

/-- the first significant token of `i ++ c' ++ q0 :: rest`, where `c'` spells `x` -/
theorem sig_head_after (i c' : List Tok) (q0 : Tok) (rest : List Tok) (x : List Ast.Tok) (hi : Ign i)
    (hs : Spells c' x) (hq : Sigf q0) :
    ∃ t2, (sig (i ++ (c' ++ q0 :: rest))).head? = some t2 ∧
      ((x = [] ∧ t2 = q0) ∨ (∃ a2 x', x = a2 :: x' ∧ astOfV t2 = some a2)) := by
  rw [sig_ign_append _ _ hi]
  cases x with
  | nil =>
    have := spells_nil_inv hs
    subst this
    exact ⟨q0, by simp [sig_cons_sig q0 rest hq], Or.inl ⟨rfl, rfl⟩⟩
  | cons a2 x' =>
    obtain ⟨t2, tl, rfl, hta⟩ := spells_head hs
    exact ⟨t2, by simp [sig_cons_sig t2 _ (sigf_of_astOfV hta)], Or.inr ⟨a2, x', rfl, hta⟩⟩

theorem data_of_astOfV_name {t : Tok} {n : Ast.Str} (h : astOfV t = some (.name n)) : t.data = n := by
  have hk : t.kind = .name := kind_of_astOfV h
  unfold astOfV at h; rw [hk] at h; simpa using h

/-! ### alias, fragment name, type condition -/

theorem cmp_alias : Cmp (fun _ => True) alias (fun _ x => ∃ a, x = [.name a, .p .colon]) (fun _ => True) (fun _ => True) := by
  unfold alias
  refine cmp_withNode _ ?_
  have := cmp_bind (Hk := fun _ => True) (F := fun _ => True) cmp_name (fun _ _ => cmp_bump "COLON")
    (fun _ _ _ _ => trivial) (fun _ _ => trivial) (fun _ _ => trivial)
  refine this.mono (fun _ h => h) ?_ (fun _ h => h) (fun _ h => h)
  rintro b x ⟨a, rfl⟩
  exact ⟨[.name a], [.p .colon], rfl, ⟨a, rfl⟩, _, rfl⟩

/-- `fragment_name`: a Name other than `on` -/
theorem cmp_fragmentName :
    Cmp (fun _ => True) fragmentName (fun _ x => ∃ n, x = [.name n] ∧ n ≠ Ast.sOn) (fun _ => True) (fun _ => True) := by
  unfold fragmentName
  refine cmp_withNode _ ?_
  intro s s' u c x q0 rest w hr hl hs ht hq hf hk
  obtain ⟨n, rfl, hnk⟩ := hl
  obtain ⟨t, i, rfl, hta, hi⟩ := spells_single hs
  have hkt : t.kind = .name := kind_of_astOfV hta
  have hd : t.data = n := data_of_astOfV_name hta
  obtain ⟨o, sP, hp, h2⟩ := bind_dec peekToken _ s s' u hr
  obtain ⟨rfl, eP, htP⟩ := peekToken_head s sP o t (i ++ q0 :: rest) w (by rw [ht]; simp) hp
  have hkw : kw "on" t.data = false := by
    rw [hd]; unfold kw
    simpa [Ast.sOn] using hnk
  simp only [hkt, beq_self_eq_true, if_true, hkw, Bool.false_eq_true, if_false, Bool.and_false] at h2
  obtain ⟨e, t2, _⟩ := cmp_name sP s' u (t :: i) [.name n] q0 rest eP.w h2 ⟨n, rfl⟩ hs (by rw [htP]; simp) hq trivial trivial
  exact ⟨by simpa using eP.trans e, t2, trivial⟩

theorem cmp_namedType : Cmp (fun _ => True) namedType (fun _ x => ∃ n, x = [.name n]) (fun _ => True) (fun _ => True) := by
  unfold namedType
  apply cmp_peek
  intro k _
  apply cmp_ite
  · intro _
    exact (cmp_withNode _ cmp_name).mono (fun _ _ => trivial) (fun _ _ h => h) (fun _ h => h) (fun _ h => h)
  · intro hk
    apply cmp_absurd
    rintro b x cc q0 ⟨n, rfl⟩ hs _ hkk
    obtain ⟨t, tl, rfl, hta⟩ := spells_head hs
    simp only [headK] at hkk
    rw [kind_of_astOfV hta] at hkk
    simp [← hkk, kindOfA] at hk

/-- `type_condition`: `on Name` -/
theorem cmp_typeCondition :
    Cmp (fun _ => True) typeCondition (fun _ x => ∃ n, x = [.name Ast.sOn, .name n]) (fun _ => True) (fun _ => True) := by
  unfold typeCondition
  refine cmp_withNode _ ?_
  intro s s' u c x q0 rest w hr hl hs ht hq hf hk
  obtain ⟨n, rfl⟩ := hl
  obtain ⟨t, i, c', rfl, hta, hi, hs'⟩ := spells_cons hs
  obtain ⟨t2, i2, rfl, hta2, hi2⟩ := spells_single hs'
  have hkt : t.kind = .name := kind_of_astOfV hta
  have hd : t.data = Ast.sOn := data_of_astOfV_name hta
  obtain ⟨o, sP, hp, h2⟩ := bind_dec peekToken _ s s' u hr
  obtain ⟨rfl, eP, htP⟩ := peekToken_head s sP o t (i ++ (t2 :: i2) ++ q0 :: rest) w (by rw [ht]; simp) hp
  have hkw : kw "on" t.data = true := by rw [hd]; unfold kw; simp [Ast.sOn]
  simp only [hkt, beq_self_eq_true, hkw, Bool.and_true, if_true] at h2
  obtain ⟨_, sA, h3, h4⟩ := bind_dec (bump "on_KW") _ sP s' u h2
  have hs1 : Spells (t :: i) [.name Ast.sOn] := by
    refine ⟨?_, by intro hd tl e; injection e with e _; subst e; exact sigf_of_astOfV hta⟩
    rw [sig_cons_ignV t i (sigf_of_astOfV hta) hi]
    exact TokIs.single t _ hta
  obtain ⟨eA, tA, _⟩ := cmp_bump "on_KW" sP sA () (t :: i) _ t2 (i2 ++ q0 :: rest) eP.w h3 ⟨_, rfl⟩ hs1
    (by rw [htP]; simp) (sigf_of_astOfV hta2) trivial trivial
  obtain ⟨ko, sQ, hq2, h5⟩ := bind_dec peek _ sA s' u h4
  obtain ⟨rfl, eQ, htQ, _⟩ := peek_head sA sQ ko t2 _ eA.w tA hq2
  have hk2 : t2.kind = .name := kind_of_astOfV hta2
  simp only [hk2, beq_self_eq_true, if_true] at h5
  obtain ⟨eN, tN, _⟩ := cmp_namedType sQ s' u (t2 :: i2) [.name n] q0 rest eQ.w h5 ⟨n, rfl⟩ hs'
    (by rw [htQ]; simp) hq trivial trivial
  exact ⟨by simpa [List.append_assoc] using ((eP.trans eA).trans eQ).trans eN, tN, trivial⟩

/-! ### optional parts: `if p.peek() == Some(k0) { m }` -/

def optU (k0 : Kind) (m : PI Unit) : PI Unit := peek >>= fun k => if k == some k0 then m else pure ()

theorem cmp_optU {Hk : Kind → Prop} (k0 : Kind) (m : PI Unit) {Lm : Nat → List Ast.Tok → Prop} {Fm : Kind → Prop}
    (hm : Cmp (fun _ => True) m Lm Fm (fun _ => True))
    (hmhead : ∀ b x, Lm b x → ∃ a x', x = a :: x' ∧ kindOfA a = k0) :
    Cmp Hk (optU k0 m) (fun b x => Lm b x ∨ x = []) (fun k => k ≠ k0 ∧ Fm k) (fun _ => True) := by
  intro s s' a c x q0 rst w hrun hl hs ht hq hf _
  unfold optU at hrun
  obtain ⟨ko, sP, hp, h2⟩ := bind_dec peek _ s s' a hrun
  obtain ⟨t, tl, htt, hkt⟩ := headK_toks c q0 rst
  obtain ⟨hko, eP, htP, _⟩ := peek_head s sP ko t tl w (by rw [ht]; exact htt) hp
  subst hko
  have hb : sP.recLimit - sP.recCur = s.recLimit - s.recCur := by rw [eP.recLimit, eP.recCur]
  have hTP : Toks sP = c ++ q0 :: rst := by rw [htP, ← htt]
  rcases hl with hlm | rfl
  · obtain ⟨a1, x1', rfl, hk1⟩ := hmhead _ _ hlm
    obtain ⟨t1, tl1, hc, hta⟩ := spells_head hs
    have hkk : t.kind = k0 := by
      rw [hkt, hc]; simp only [headK]; rw [kind_of_astOfV hta, hk1]
    simp only [hkk, beq_self_eq_true, if_true] at h2
    obtain ⟨e, t2, _⟩ := hm sP s' a c _ q0 rst eP.w h2 (by rw [hb]; exact hlm) hs hTP hq hf.2 trivial
    exact ⟨by simpa using eP.trans e, t2, trivial⟩
  · have := spells_nil_inv hs
    subst this
    have hkk : (some t.kind == some k0) = false := by
      have : t.kind ≠ k0 := by rw [hkt]; exact hf.1
      simpa using this
    simp only [hkk, Bool.false_eq_true, if_false] at h2
    rw [run_pure] at h2
    injection h2 with _ h2
    subst h2
    exact ⟨eP, by simpa using hTP, trivial⟩

def optDirs (n : Nat) : PI Unit := optU .at (directives n false)

theorem tDirectives_head (ds : List Ast.Directive) (hne : ds ≠ []) : ∃ x', Ast.tDirectives ds = .p .at :: x' := by
  cases ds with
  | nil => exact absurd rfl hne
  | cons d r => exact ⟨_, rfl⟩

/-- optional directives; the follow token is neither `@` nor `(` -/
theorem cmp_optDirs {Hk : Kind → Prop} (n : Nat) :
    Cmp Hk (optDirs n) (LDirs false) (fun k => k ≠ .at ∧ k ≠ .lParen) (fun _ => True) := by
  have := cmp_optU (Hk := Hk) .at (directives n false)
    (Lm := fun b x => ∃ ds, ds ≠ [] ∧ x = Ast.tDirectives ds ∧ dirsFit false b ds)
    ((directives_complete n false).mono (fun _ h => h) (by rintro b x ⟨ds, _, rfl, h⟩; exact ⟨ds, rfl, h⟩) (fun _ h => h) (fun _ h => h))
    (by rintro b x ⟨ds, hne, rfl, _⟩; obtain ⟨x', e⟩ := tDirectives_head ds hne; exact ⟨_, x', e, rfl⟩)
  refine this.mono (fun _ h => h) ?_ (fun k h => ⟨h.1, h⟩) (fun _ h => h)
  rintro b x ⟨ds, rfl, h⟩
  by_cases hne : ds = []
  · subst hne; exact Or.inr rfl
  · exact Or.inl ⟨ds, hne, rfl, h⟩

/-! ### fragment spread -/

def spreadBody (n : Nat) : PI Unit :=
  bump "SPREAD" >>= fun _ => peek >>= fun k =>
    if k == some .name then (fragmentName >>= fun _ => optDirs n) else (err >>= fun _ => optDirs n)

theorem fragmentSpread_eq (n : Nat) : fragmentSpread n = withNode "FRAGMENT_SPREAD" (spreadBody n) := rfl

def LSpread (b : Nat) (x : List Ast.Tok) : Prop :=
  ∃ nm ds, x = Ast.tSel (.spread nm ds) ∧ nm ≠ Ast.sOn ∧ dirsFit false b ds

/-- `... FragmentName Directives?` -/
theorem cmp_fragmentSpread (n : Nat) :
    Cmp (fun _ => True) (fragmentSpread n) LSpread (fun k => k ≠ .at ∧ k ≠ .lParen) (fun _ => True) := by
  rw [fragmentSpread_eq]
  refine cmp_withNode _ ?_
  unfold spreadBody
  have h3 : Cmp (fun _ => True) (fragmentName >>= fun _ => optDirs n)
      (fun b x => ∃ x1 x2, x = x1 ++ x2 ∧ (∃ n, x1 = [.name n] ∧ n ≠ Ast.sOn) ∧ LDirs false b x2)
      (fun k => k ≠ .at ∧ k ≠ .lParen) (fun _ => True) :=
    cmp_bind (Hk := fun _ => True) (F1 := fun _ => True) cmp_fragmentName (fun _ _ => cmp_optDirs n)
      (fun _ _ _ _ => trivial) (fun _ _ => trivial) (fun _ h => h)
  have h2 : Cmp (fun _ => True) (peek >>= fun k =>
      if k == some .name then (fragmentName >>= fun _ => optDirs n) else (err >>= fun _ => optDirs n))
      (fun b x => ∃ x1 x2, x = x1 ++ x2 ∧ (∃ n, x1 = [.name n] ∧ n ≠ Ast.sOn) ∧ LDirs false b x2)
      (fun k => k ≠ .at ∧ k ≠ .lParen) (fun _ => True) := by
    apply cmp_peek
    intro k _
    apply cmp_ite
    · intro _
      exact h3.mono (fun _ _ => trivial) (fun _ _ h => h) (fun _ h => h) (fun _ h => h)
    · intro hk
      apply cmp_absurd
      rintro b x cc q0 ⟨x1, x2, rfl, ⟨nm, rfl, _⟩, _⟩ hs _ hkk
      obtain ⟨t, tl, rfl, hta⟩ := spells_head (x := x2) (by simpa using hs)
      simp only [headK] at hkk
      rw [kind_of_astOfV hta] at hkk
      simp [← hkk, kindOfA] at hk
  have h1 := cmp_bind (Hk := fun _ => True) (F := fun k => k ≠ Kind.at ∧ k ≠ Kind.lParen) (F1 := fun _ => True)
    (cmp_bump "SPREAD") (fun _ _ => h2) (fun _ _ _ _ => trivial) (fun _ _ => trivial) (fun _ h => h)
  refine h1.mono (fun _ h => h) ?_ (fun _ h => h) (fun _ h => h)
  rintro b x ⟨nm, ds, rfl, hne, hfit⟩
  exact ⟨[.p .spread], .name nm :: Ast.tDirectives ds, by simp [Ast.tSel], ⟨_, rfl⟩, [.name nm], Ast.tDirectives ds, rfl,
    ⟨nm, rfl, hne⟩, ds, rfl, hfit⟩

end Apollo.Parse.Exact
