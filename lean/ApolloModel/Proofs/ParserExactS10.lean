import ApolloModel.Proofs.ParserExactS9
import ApolloModel.Proofs.ParserExactC14
/-
EXACT SOUNDNESS, part 10 (namespace Apollo.Parse.Exact): variable definitions, operation definition, fragment
definition — state-indexed soundness into the languages of the exact completeness theorems
(`Exact.LVarDefs`, `Exact.LOperation`, `Exact.LFragment` at the budget of the START state).
-/
set_option linter.unusedSimpArgs false
namespace Apollo.Parse.Exact
open Apollo.Rowan hiding Str
open Apollo.Lex hiding Str

/-- an acceptance judgement without the early-exit alternative, read at one state -/
theorem cons_of_acc {α : Type} {H : List Tok → Prop} {m : PI α} {R : α → List Ast.Tok → Prop}
    (h : Acc (fun _ => False) H m R) (s s' : PState) (a : α) (w : TW s) (he : EofEnd s) (hq : H (Toks s))
    (hr : m.run s = .ok a s') (hnd : ¬ Doomed s') : Cons s s' (R a) := by
  obtain ⟨cs, a1, a2, a3, a4⟩ := h.2 s a s' w he hq hr hnd
  rcases a4 with ⟨x, hx, hr'⟩ | e
  · exact ⟨cs, x, a1, a2, a3, hx, hr'⟩
  · exact e.elim

theorem errAndPop_never (s s' : PState) (w : TW s) (he : EofEnd s) (h : errAndPop.run s = .ok () s') : Doomed s' := by
  refine Classical.byContradiction (fun hnd => ?_)
  obtain ⟨_, _, _, _, a4⟩ := (acc_errAndPop (E := fun _ => False) (H := fun _ => True) (R := fun _ _ => False)).2 s () s' w he trivial h hnd
  rcases a4 with ⟨_, _, f⟩ | f <;> exact f

/-! ### variable definitions -/

theorem varDefs_of_items (B : Nat) : ∀ (items : List (List Ast.Tok)), (∀ x ∈ items, QVar B x) →
    ∃ vs : List Ast.VarDef, items.flatten = Ast.tVarDefItems vs ∧ (∀ v ∈ vs, varFit B v) ∧ vs.length = items.length
  | [], _ => ⟨[], rfl, (by intro a ha; cases ha), rfl⟩
  | x :: items, h => by
    obtain ⟨v, hx, hv⟩ := h x (by simp)
    obtain ⟨vs, ha, hok, hlen⟩ := varDefs_of_items B items (fun y hy => h y (by simp [hy]))
    refine ⟨v :: vs, ?_, ?_, by simp [hlen]⟩
    · simp [List.flatten_cons, hx, ha, Ast.tVarDefItems]
    · intro a ha'
      rcases List.mem_cons.mp ha' with rfl | ha'
      · exact hv
      · exact hok a ha'

theorem good_varDefsTail (n : Nat) : Good (varDefsTail n) :=
  good_bind _ _ (good_peekWhileKind _ _ (good_variableDefinition n)) (fun _ => good_expect _ _)

/-- **`variable_definitions`**: started on `(`, an error-free run consumes `( VariableDefinition+ )`, every part
    within the budget -/
theorem variableDefinitions_sound (n : Nat) (s s' : PState) (t : Tok) (rest : List Tok) (w : TW s) (he : EofEnd s)
    (ht : Toks s = t :: rest) (hk : t.kind = .lParen) (h : (variableDefinitions n).run s = .ok () s') (hnd : ¬ Doomed s') :
    Cons s s' (LVarDefs (bud s)) := by
  have hni : isIgnoredKind t.kind = false := by rw [hk]; rfl
  have hne : t.kind ≠ .eof := by rw [hk]; decide
  rw [variableDefinitions_eq] at h
  obtain ⟨s1, s2, e1, h1, o2⟩ := withNode_peeked _ _ s s' () t rest w ht hni h
  have ht1 : Toks s1 = t :: rest := by have := e1.toks; rw [ht] at this; simpa using this.symm
  have hnd2 : ¬ Doomed s2 := fun d => hnd (o2.doomed.mpr d)
  unfold varDefsBody at h1
  obtain ⟨_, s3, h3, h4⟩ := bind_dec (bump "L_PAREN") _ s1 s2 () h1
  obtain ⟨ign, eb, hall, _⟩ := bump_spec "L_PAREN" s1 s3 e1.w t rest ht1 h3
  have he3 : EofEnd s3 := eofEnd_eat (eofEnd_eat he e1 (by intro x hx; cases hx)) eb (noEof_cons hne hall)
  obtain ⟨sP, o, p, hor⟩ := ifPeek_dec .dollar _ _ s3 s2 () eb.w h4
  have heP := p.eofEnd he3
  have gtail := good_varDefsTail n
  rcases hor with ⟨hkd, h5⟩ | ⟨_, h5⟩
  · obtain ⟨ta, rfl, hka⟩ : ∃ ta, o = some ta ∧ ta.kind = .dollar := by
      cases o with
      | none => simp at hkd
      | some ta => exact ⟨ta, rfl, by simpa using hkd⟩
    obtain ⟨_, sA, h6, h7⟩ := bind_dec (variableDefinition n) _ sP s2 () h5
    have aA := good_variableDefinition n sP () sA p.w h6
    have hndA : ¬ Doomed sA := fun d => hnd2 ((gtail sA () s2 aA.w h7).doom d)
    obtain ⟨c1, hc1, hno1, heA, hr1⟩ := variableDefinition_sound n (bud sP) sP sA ta _ p.w heP rfl p.head_cons hka h6 hndA
    unfold varDefsTail at h7
    obtain ⟨_, sL, h8, h9⟩ := bind_dec (peekWhileKind .dollar (variableDefinition n)) _ sA s2 () h7
    have aL := good_peekWhileKind _ _ (good_variableDefinition n) sA () sL aA.w h8
    have hndL : ¬ Doomed sL := fun d => hnd2 ((good_expect _ _ sL () s2 aL.w h9).doom d)
    obtain ⟨c2, hc2, hno2, heL, hr2⟩ := peekWhileKind_sound (bud sP) AtEof carries_atEof .dollar (variableDefinition n) (QVar (bud sP))
      (good_variableDefinition n) (variableDefinition_sound n (bud sP)) sA sL aA.w heA (bud_adv aA) h8 hndL
    obtain ⟨_, hex⟩ := expect_spec .rParen "R_PAREN" sL s2 aL.w h9
    rcases hex with ⟨hemp, _⟩ | hd | ⟨t2, rest2, ign2, hq, hk2, e2, hall2, _⟩
    · exact absurd hemp (eofEnd_nonempty sL heL hndL)
    · exact absurd hd hnd2
    · have hni2 : isIgnoredKind t2.kind = false := by rw [hk2]; rfl
      have hne2 : t2.kind ≠ .eof := by rw [hk2]; decide
      have notEof : ¬ AtEof sL := by
        rintro ⟨e, hh, hke⟩
        rw [hq] at hh
        simp only [List.head?_cons, Option.some.injEq] at hh
        subst hh
        rw [hk2] at hke
        cases hke
      have hitems : ∃ items : List (List Ast.Tok), TokIs (sig (c1 ++ c2)) items.flatten ∧ (∀ x ∈ items, QVar (bud sP) x) ∧ items ≠ [] := by
        rcases hr1 with ⟨x, hx, hqx⟩ | ha
        · rcases hr2 with ⟨items, hi, hall3⟩ | ha2
          · refine ⟨x :: items, ?_, ?_, by simp⟩
            · rw [sig_append]; simpa using hx.append hi
            · intro y hy
              rcases List.mem_cons.mp hy with rfl | hy
              · exact hqx
              · exact hall3 y hy
          · exact absurd ha2 notEof
        · exact absurd (atEof_rest sA sL c2 heA hndA ha hc2 hno2) notEof
      obtain ⟨items, hi, hall3, hnei⟩ := hitems
      obtain ⟨vs, hvs, hok, hlen⟩ := varDefs_of_items (bud sP) items hall3
      have hane : vs ≠ [] := by
        intro e; rw [e] at hlen; simp at hlen
        exact hnei (List.eq_nil_of_length_eq_zero hlen.symm)
      have e1P : Eat s sP (t :: ign) := by simpa using (e1.trans eb).trans p.eat
      refine ⟨(t :: ign) ++ (c1 ++ c2) ++ (t2 :: ign2), Ast.tVarDefs vs, ?_,
        noEof_append (noEof_append (noEof_cons hne hall) (noEof_append hno1 hno2)) (noEof_cons hne2 hall2),
        eofEnd_same _ _ (eofEnd_eat heL e2 (noEof_cons hne2 hall2)) o2.current o2.lx o2.errors, ?_, vs, hane, rfl,
        by rw [← bud_eat e1P]; exact hok⟩
      · rw [e1P.toks, hc1, hc2, e2.toks, o2.toks]; simp [List.append_assoc]
      · rw [sig_append, sig_append, sig_cons_ignV t ign hni hall, sig_cons_ignV t2 ign2 hni2 hall2]
        rw [hvs] at hi
        have := ((TokIs.single t (.p .lParen) (by simp [astOfV, hk])).append hi).append
          (TokIs.single t2 (.p .rParen) (by simp [astOfV, hk2]))
        have hemp : vs.isEmpty = false := by
          cases vs with
          | nil => exact absurd rfl hane
          | cons a r => rfl
        simpa [Ast.tVarDefs, hemp] using this
  · exfalso
    obtain ⟨_, sE, h6, h7⟩ := bind_dec err _ sP s2 () h5
    obtain ⟨aE, dE⟩ := err_adv sP sE p.w h6
    have hndP : ¬ Doomed sP := fun d => hnd2 ((gtail sE () s2 aE.w h7).doom (aE.doom d))
    exact hnd2 ((gtail sE () s2 aE.w h7).doom (dE (eofEnd_nonempty sP heP hndP)))

/-- `if p.peek() == Some(T!['(']) { variable_definitions }` -/
theorem optVarDefs_sound (n : Nat) (s s' : PState) (w : TW s) (he : EofEnd s)
    (h : (peek >>= fun k => if k == some Kind.lParen then variableDefinitions n else pure ()).run s = .ok () s') (hnd : ¬ Doomed s') :
    Cons s s' (fun x => ∃ vs, x = Ast.tVarDefs vs ∧ ∀ v ∈ vs, varFit (bud s) v) := by
  obtain ⟨sP, o, p, hor⟩ := ifPeek_dec .lParen _ _ s s' () w h
  have heP := p.eofEnd he
  rcases hor with ⟨hk, h2⟩ | ⟨_, h2⟩
  · obtain ⟨t, rfl, hkt⟩ : ∃ t, o = some t ∧ t.kind = .lParen := by
      cases o with
      | none => simp at hk
      | some t => exact ⟨t, rfl, by simpa using hk⟩
    have c := variableDefinitions_sound n sP s' t _ p.w heP p.head_cons hkt h2 hnd
    exact (c.transport p.toks.symm rfl c.eofEnd).weaken (by
      rintro x ⟨vs, _, rfl, hf⟩
      exact ⟨vs, rfl, by rw [← bud_peek p]; exact hf⟩)
  · rw [run_pure] at h2
    injection h2 with _ h2
    subst h2
    exact (Cons.nil p.toks heP).weaken (by rintro x rfl; exact ⟨[], rfl, by intro v hv; cases hv⟩)

/-! ### operation definition -/

theorem good_selectionSet (n : Nat) : Good (selectionSet n) := (goodSel n).selSet

theorem good_opSel (n : Nat) : Good (opSel n) :=
  good_bind _ _ good_peek (fun _ => good_ite _ _ _ (good_selectionSet n) good_errAndPop)

/-- `selection_set` or `err_and_pop` -/
theorem opSel_sound (n : Nat) (s s' : PState) (w : TW s) (he : EofEnd s)
    (h : (opSel n).run s = .ok () s') (hnd : ¬ Doomed s') : Cons s s' (LSet (bud s)) := by
  unfold opSel at h
  obtain ⟨sP, o, p, hor⟩ := ifPeek_dec .lCurly _ _ s s' () w h
  have heP := p.eofEnd he
  rcases hor with ⟨hk, h2⟩ | ⟨_, h2⟩
  · obtain ⟨t, rfl, hkt⟩ : ∃ t, o = some t ∧ t.kind = .lCurly := by
      cases o with
      | none => simp at hk
      | some t => exact ⟨t, rfl, by simpa using hk⟩
    have c := (sel_all_sound n).1 sP s' t _ p.w heP p.head_cons hkt h2 hnd
    exact (c.transport p.toks.symm rfl c.eofEnd).weaken (by intro x hx; rw [bud_peek p] at hx; exact hx)
  · exact absurd (errAndPop_never sP s' p.w heP h2) hnd

/-- `Directives? SelectionSet` behind the variable definitions -/
theorem opDirsSel_sound (n : Nat) (s s' : PState) (w : TW s) (he : EofEnd s)
    (h : (optKind .at (directives n false) (opSel n)).run s = .ok () s') (hnd : ¬ Doomed s') :
    Cons s s' (fun x => ∃ ds y, x = Ast.tDirectives ds ++ y ∧ dirsFit false (bud s) ds ∧ LSet (bud s) y) := by
  unfold optKind at h
  obtain ⟨s5, h6, h7⟩ := optThen_dec .at (directives n false) (opSel n) s s' h
  have a5 := good_opt .at _ (good_directives n false) s () s5 w h6
  have hnd5 : ¬ Doomed s5 := fun d => hnd ((good_opSel n s5 () s' a5.w h7).doom d)
  have c1 := optDirectives_sound n s s5 w he h6 hnd5
  have c2 := opSel_sound n s5 s' a5.w c1.eofEnd h7 hnd
  exact (c1.seq c2).weaken (by
    rintro z ⟨x, y, rfl, ⟨ds, rfl, hd⟩, hy⟩
    exact ⟨ds, y, rfl, hd, by rw [bud_adv a5] at hy; exact hy⟩)

theorem good_opDirsSel (n : Nat) : Good (optKind .at (directives n false) (opSel n)) :=
  good_bind _ _ good_peek (fun _ => good_ite _ _ _ (good_bind _ _ (good_directives n false) (fun _ => good_opSel n)) (good_opSel n))

theorem good_variableDefinitions (n : Nat) : Good (variableDefinitions n) := (acc_variableDefinitions n).1

theorem good_opVars (n : Nat) : Good (optKind .lParen (variableDefinitions n) (optKind .at (directives n false) (opSel n))) :=
  good_bind _ _ good_peek (fun _ => good_ite _ _ _ (good_bind _ _ (good_variableDefinitions n) (fun _ => good_opDirsSel n)) (good_opDirsSel n))

theorem good_opName (n : Nat) :
    Good (optKind .name name (optKind .lParen (variableDefinitions n) (optKind .at (directives n false) (opSel n)))) :=
  good_bind _ _ good_peek (fun _ => good_ite _ _ _ (good_bind _ _ good_name (fun _ => good_opVars n)) (good_opVars n))

/-- `if p.peek() == Some(TokenKind::Name) { name }` -/
theorem optName_sound (s s' : PState) (w : TW s) (he : EofEnd s)
    (h : (peek >>= fun k => if k == some Kind.name then name else pure ()).run s = .ok () s') (hnd : ¬ Doomed s') :
    Cons s s' (fun x => ∃ nm : Option Ast.Str, x = (match nm with | some n => [.name n] | none => [])) := by
  obtain ⟨sP, o, p, hor⟩ := ifPeek_dec .name _ _ s s' () w h
  have heP := p.eofEnd he
  rcases hor with ⟨_, h2⟩ | ⟨_, h2⟩
  · have c := cons_of_acc (acc_name (E := fun _ => False) (H := fun _ => True)) sP s' () p.w heP trivial h2 hnd
    exact (c.transport p.toks.symm rfl c.eofEnd).weaken (by rintro x ⟨nm, rfl⟩; exact ⟨some nm, rfl⟩)
  · rw [run_pure] at h2
    injection h2 with _ h2
    subst h2
    exact (Cons.nil p.toks heP).weaken (by rintro x rfl; exact ⟨none, rfl⟩)

/-- the body of a full operation definition, started on its Name token -/
theorem opBody_sound (n : Nat) (s s' : PState) (t : Tok) (rest : List Tok) (w : TW s) (he : EofEnd s)
    (ht : Toks s = t :: rest) (hk : t.kind = .name) (h : (opBody n).run s = .ok () s') (hnd : ¬ Doomed s') :
    Cons s s' (LOpFull (bud s)) := by
  unfold opBody at h
  obtain ⟨_, s3, h3, h4⟩ := bind_dec operationType _ s s' () h
  have hT := acc_operationType (E := fun _ => False) early_false
  have a3 := hT.1 s () s3 w h3
  have hnd3 : ¬ Doomed s3 := fun d => hnd ((good_opName n s3 () s' a3.w h4).doom d)
  have c0 := cons_of_acc hT s s3 () w he ⟨t, by rw [ht]; rfl, by simp [hk]⟩ h3 hnd3
  unfold optKind at h4
  obtain ⟨s4, h5, h6⟩ := optThen_dec .name name _ s3 s' h4
  have a4 := good_opt .name _ good_name s3 () s4 a3.w h5
  have hnd4 : ¬ Doomed s4 := fun d => hnd ((good_opVars n s4 () s' a4.w h6).doom d)
  have c1 := optName_sound s3 s4 a3.w c0.eofEnd h5 hnd4
  have h6' : (optKind .lParen (variableDefinitions n) (optKind .at (directives n false) (opSel n))).run s4 = .ok () s' := h6
  unfold optKind at h6'
  obtain ⟨s5, h7, h8⟩ := optThen_dec .lParen (variableDefinitions n) _ s4 s' h6'
  have a5 := good_opt .lParen _ (good_variableDefinitions n) s4 () s5 a4.w h7
  have hnd5 : ¬ Doomed s5 := fun d => hnd ((good_opDirsSel n s5 () s' a5.w h8).doom d)
  have c2 := optVarDefs_sound n s4 s5 a4.w c1.eofEnd h7 hnd5
  have c3 := opDirsSel_sound n s5 s' a5.w c2.eofEnd h8 hnd
  have hb4 : bud s4 = bud s := by rw [bud_adv a4, bud_adv a3]
  have hb5 : bud s5 = bud s := by rw [bud_adv a5, hb4]
  exact (((c0.seq c1).seq c2).seq c3).weaken (by
    rintro z ⟨x123, x4, rfl, ⟨x12, x3, rfl, ⟨x1, x2, rfl, ⟨ty, rfl⟩, ⟨nm, rfl⟩⟩, ⟨vs, rfl, hvs⟩⟩, ⟨ds, y, rfl, hds, ⟨ss, hne, rfl, hb1, hfs⟩⟩⟩
    rw [hb4] at hvs
    rw [hb5] at hds hb1 hfs
    refine ⟨ty, nm, vs, ds, ss, ?_, hvs, hds, hne, hb1, hfs⟩
    cases nm <;> simp [tOperation, Ast.tSelSet, List.append_assoc])

theorem opDispatch_other (n : Nat) (k : Kind) (h1 : k ≠ .name) (h2 : k ≠ .lCurly) : opDispatch n (some k) = errAndPop := by
  cases k <;> first | rfl | exact absurd rfl h1 | exact absurd rfl h2

/-- **`operation_definition` is sound with the budget**: an error-free run consumes a full operation definition or the
    shorthand `{ Selection+ }`, every part within the recursion budget of the start state -/
theorem operationDefinition_sound (n : Nat) (s s' : PState) (w : TW s) (he : EofEnd s)
    (h : (operationDefinition n).run s = .ok () s') (hnd : ¬ Doomed s') : Cons s s' (LOperation (bud s)) := by
  rw [operationDefinition_eq] at h
  obtain ⟨ko, sP, hp, h2⟩ := bind_dec peek _ s s' () h
  obtain ⟨o, p, hko⟩ := peek_obs s sP ko w hp
  subst hko
  have heP : EofEnd sP := p.eofEnd he
  cases o with
  | none => exact absurd (errAndPop_never sP s' p.w heP h2) hnd
  | some t =>
    simp only [Option.map_some] at h2
    by_cases hkn : t.kind = .name
    · rw [hkn] at h2
      have hni : isIgnoredKind t.kind = false := by rw [hkn]; rfl
      obtain ⟨s1, s2, e1, h1, o2⟩ := withNode_peeked "OPERATION_DEFINITION" _ sP s' () t _ p.w p.head_cons hni h2
      have ht1 : Toks s1 = t :: (Toks sP).tail := by have := e1.toks; rw [p.head_cons] at this; simpa using this.symm
      have hnd2 : ¬ Doomed s2 := fun d => hnd (o2.doomed.mpr d)
      have he1 : EofEnd s1 := eofEnd_eat heP e1 (by intro x hx; cases hx)
      have c := opBody_sound n s1 s2 t _ e1.w he1 ht1 hkn h1 hnd2
      have h0 : Toks s = Toks s1 := by rw [← p.toks]; simpa using e1.toks
      exact (c.transport h0 o2.toks (eofEnd_same _ _ c.eofEnd o2.current o2.lx o2.errors)).weaken (by
        intro x hx
        rw [bud_eat e1, bud_peek p] at hx
        exact Or.inl hx)
    · by_cases hkl : t.kind = .lCurly
      · rw [hkl] at h2
        have hni : isIgnoredKind t.kind = false := by rw [hkl]; rfl
        obtain ⟨s1, s2, e1, h1, o2⟩ := withNode_peeked "OPERATION_DEFINITION" _ sP s' () t _ p.w p.head_cons hni h2
        have ht1 : Toks s1 = t :: (Toks sP).tail := by have := e1.toks; rw [p.head_cons] at this; simpa using this.symm
        have hnd2 : ¬ Doomed s2 := fun d => hnd (o2.doomed.mpr d)
        have he1 : EofEnd s1 := eofEnd_eat heP e1 (by intro x hx; cases hx)
        have c := (sel_all_sound n).1 s1 s2 t _ e1.w he1 ht1 hkl h1 hnd2
        have h0 : Toks s = Toks s1 := by rw [← p.toks]; simpa using e1.toks
        exact (c.transport h0 o2.toks (eofEnd_same _ _ c.eofEnd o2.current o2.lx o2.errors)).weaken (by
          intro x hx
          rw [bud_eat e1, bud_peek p] at hx
          exact Or.inr hx)
      · rw [opDispatch_other n t.kind hkn hkl] at h2
        exact absurd (errAndPop_never sP s' p.w heP h2) hnd

/-! ### fragment definition -/

/-- `Directives? SelectionSet` behind the type condition -/
theorem inlT2_sound (n : Nat) (s s' : PState) (w : TW s) (he : EofEnd s)
    (h : (inlT2 n).run s = .ok () s') (hnd : ¬ Doomed s') :
    Cons s s' (fun x => ∃ ds y, x = Ast.tDirectives ds ++ y ∧ dirsFit false (bud s) ds ∧ LSet (bud s) y) := by
  obtain ⟨s5, h6, h7⟩ := optThen_dec .at (directives n false) (inlT3 n) s s' h
  have a5 := good_opt .at _ (good_directives n false) s () s5 w h6
  have hnd5 : ¬ Doomed s5 := fun d => hnd ((good_inlT3 n s5 () s' a5.w h7).doom d)
  have c1 := optDirectives_sound n s s5 w he h6 hnd5
  have c2 := inlT3_sound n (sel_all_sound n).1 s5 s' a5.w c1.eofEnd h7 hnd
  exact (c1.seq c2).weaken (by
    rintro z ⟨x, y, rfl, ⟨ds, rfl, hd⟩, hy⟩
    exact ⟨ds, y, rfl, hd, by rw [bud_adv a5] at hy; exact hy⟩)

/-- the body of a fragment definition, started on the keyword -/
theorem fragBody_sound (n : Nat) (s s' : PState) (t : Tok) (rest : List Tok) (w : TW s) (he : EofEnd s)
    (ht : Toks s = t :: rest) (hk : t.kind = .name) (hd : t.data = "fragment".toList)
    (h : (fragBody n).run s = .ok () s') (hnd : ¬ Doomed s') : Cons s s' (LFragment (bud s)) := by
  have hni : isIgnoredKind t.kind = false := by rw [hk]; rfl
  unfold fragBody at h
  obtain ⟨_, s3, h3, h4⟩ := bind_dec (bump "fragment_KW") _ s s' () h
  obtain ⟨ign, e3, hall, _⟩ := bump_spec "fragment_KW" s s3 w t rest ht h3
  have c0 : Cons s s3 (fun x => x = [.name t.data]) :=
    Cons.ofEat e3 he (noEof_cons (by rw [hk]; decide) hall) (tokIs_name t ign hk hall)
  obtain ⟨_, s4, h5, h6⟩ := bind_dec fragmentName _ s3 s' () h4
  have a4 := good_fragmentName s3 () s4 e3.w h5
  obtain ⟨_, s5, h7, h8⟩ := bind_dec typeCondition _ s4 s' () h6
  have a5 := good_typeCondition s4 () s5 a4.w h7
  have h8' : (inlT2 n).run s5 = .ok () s' := h8
  have hnd5 : ¬ Doomed s5 := fun d => hnd ((good_inlT2 n s5 () s' a5.w h8').doom d)
  have hnd4 : ¬ Doomed s4 := fun d => hnd5 (a5.doom d)
  have c1 := cons_of_acc (acc_fragmentName (E := fun _ => False) (H := fun _ => True) early_false) s3 s4 () e3.w c0.eofEnd trivial h5 hnd4
  have c2 := cons_of_acc (acc_typeCondition (E := fun _ => False) (H := fun _ => True) early_false) s4 s5 () a4.w c1.eofEnd trivial h7 hnd5
  have c3 := inlT2_sound n s5 s' a5.w c2.eofEnd h8' hnd
  have hb5 : bud s5 = bud s := by rw [bud_adv a5, bud_adv a4, bud_eat e3]
  exact (((c0.seq c1).seq c2).seq c3).weaken (by
    rintro z ⟨x123, x4, rfl, ⟨x12, x3, rfl, ⟨x1, x2, rfl, rfl, ⟨nm, hne, rfl⟩⟩, ⟨tc, rfl⟩⟩, ⟨ds, y, rfl, hds, ⟨ss, hss, rfl, hb1, hfs⟩⟩⟩
    rw [hb5] at hds hb1 hfs
    refine ⟨nm, tc, ds, ss, ?_, hne, hds, hss, hb1, hfs⟩
    rw [hd]
    simp [Ast.tDefinition, sOnP, Ast.sOn, Ast.tSelSet, List.append_assoc])

/-- **`fragment_definition` is sound with the budget**, entered on the keyword `fragment` -/
theorem fragmentDefinition_sound (n : Nat) (s s' : PState) (t : Tok) (rest : List Tok) (w : TW s) (he : EofEnd s)
    (ht : Toks s = t :: rest) (hk : t.kind = .name) (hd : t.data = "fragment".toList)
    (h : (fragmentDefinition n).run s = .ok () s') (hnd : ¬ Doomed s') : Cons s s' (LFragment (bud s)) := by
  have hni : isIgnoredKind t.kind = false := by rw [hk]; rfl
  rw [fragmentDefinition_eq] at h
  obtain ⟨s1, s2, e1, h1, o2⟩ := withNode_peeked "FRAGMENT_DEFINITION" _ s s' () t rest w ht hni h
  have ht1 : Toks s1 = t :: rest := by have := e1.toks; rw [ht] at this; simpa using this.symm
  have hnd2 : ¬ Doomed s2 := fun d => hnd (o2.doomed.mpr d)
  have he1 : EofEnd s1 := eofEnd_eat he e1 (by intro x hx; cases hx)
  have h0 : Toks s = Toks s1 := by simpa using e1.toks
  unfold fragGuard optKind at h1
  obtain ⟨sP, o, p, hor⟩ := ifPeek_dec .stringValue _ _ s1 s2 () e1.w h1
  have heP := p.eofEnd he1
  have htP : Toks sP = t :: rest := by rw [p.toks]; exact ht1
  rcases hor with ⟨hks, _⟩ | ⟨_, h2⟩
  · exfalso
    have ho : o = some t := by
      have hh := p.head
      rw [ht1] at hh
      first | simpa using hh.symm | simpa using hh
    subst ho
    simp [hk] at hks
  · have c := fragBody_sound n sP s2 t rest p.w heP htP hk hd h2 hnd2
    have h0' : Toks s = Toks sP := by rw [h0, p.toks]
    exact (c.transport h0' o2.toks (eofEnd_same _ _ c.eofEnd o2.current o2.lx o2.errors)).weaken (by
      intro x hx
      rw [bud_peek p, bud_eat e1] at hx
      exact hx)

end Apollo.Parse.Exact
