import ApolloModel.Proofs.ExecValidationMerge
/-
Completeness of the XING algorithm (validation/selection.rs `FieldsConflict`): whatever the
specification's pairwise FieldsInSetCanMerge / SameResponseShape — applied to every selection set of
the document — accepts, the algorithm (grouping by response name, then by common parents, comparing
the first of every group with the rest, recursing on the merged sub-selections) accepts.
Together with `xing_sound` this gives `xingCanMerge = documentFieldsCanMerge`.
-/
namespace Apollo.ExecVal
open Apollo Apollo.Spec Apollo.Spec.ExecVal

/-! ### `allPairs` over an append, and from position-based to membership-based pairs -/

theorem allPairs_append_iff {α : Type} (rel : α → α → Bool) (l1 l2 : List α) :
    allPairs rel (l1 ++ l2) = true ↔
      allPairs rel l1 = true ∧ allPairs rel l2 = true ∧ ∀ x ∈ l1, ∀ y ∈ l2, rel x y = true := by
  induction l1 with
  | nil => simp [allPairs]
  | cons a rest ih =>
    simp only [List.cons_append, allPairs, Bool.and_eq_true, List.all_append, List.all_eq_true, ih,
      List.mem_cons, forall_eq_or_imp]
    constructor
    · rintro ⟨⟨h1, h2⟩, h3, h4, h5⟩
      exact ⟨⟨h1, h3⟩, h4, h2, h5⟩
    · rintro ⟨⟨h1, h3⟩, h4, h2, h5⟩
      exact ⟨⟨h1, h2⟩, h3, h4, h5⟩

theorem allPairs_append_comm {α : Type} (rel : α → α → Bool) (hs : ∀ x y, rel x y = rel y x) (l1 l2 : List α) :
    allPairs rel (l1 ++ l2) = allPairs rel (l2 ++ l1) := by
  rw [Bool.eq_iff_iff, allPairs_append_iff, allPairs_append_iff]
  constructor
  · rintro ⟨h1, h2, h3⟩; exact ⟨h2, h1, fun x hx y hy => by rw [hs]; exact h3 y hy x hx⟩
  · rintro ⟨h1, h2, h3⟩; exact ⟨h2, h1, fun x hx y hy => by rw [hs]; exact h3 y hy x hx⟩

/-- a symmetric relation that holds on the diagonal and on every pair `i < j` holds on every pair -/
theorem allPairs_forall {α : Type} (rel : α → α → Bool) (hs : ∀ x y, rel x y = rel y x) :
    ∀ l : List α, allPairs rel l = true → (∀ x ∈ l, rel x x = true) → ∀ x ∈ l, ∀ y ∈ l, rel x y = true := by
  intro l
  induction l with
  | nil => intro _ _ x hx; simp at hx
  | cons a rest ih =>
    intro h hr x hx y hy
    simp only [allPairs, Bool.and_eq_true, List.all_eq_true] at h
    rcases List.mem_cons.mp hx with rfl | hx' <;> rcases List.mem_cons.mp hy with rfl | hy'
    · exact hr _ (by simp)
    · exact h.1 y hy'
    · rw [hs]; exact h.1 x hx'
    · exact ih h.2 (fun z hz => hr z (by simp [hz])) x hx' y hy'

theorem firstVsRest_of_forall (rel : AField → AField → Bool) (g : List AField)
    (h : ∀ x ∈ g, ∀ y ∈ g, rel x y = true) : firstVsRest rel g = true := by
  cases g with
  | nil => rfl
  | cons a rest =>
    simp only [firstVsRest, List.all_eq_true]
    intro y hy
    exact h a (by simp) y (by simp [hy])

/-! ### the pair relation of FieldsInSetCanMerge -/

/-- "the parent types are equal or either is not an object type": the pair must have identical
    names and arguments -/
def mustMatch (a b : AField) : Bool := a.parent == b.parent || !a.parentIsObject || !b.parentIsObject

/-- what FieldsInSetCanMerge at depth `n + 1` requires of a pair -/
def pairRel (n : Nat) (a b : AField) : Bool :=
  a.key != b.key ||
    (sameResponseShape (n + 1) a b &&
      (!(mustMatch a b) || (a.nameArgs == b.nameArgs && fieldsInSetCanMerge n (a.subs ++ b.subs))))

theorem fieldsInSet_succ (n : Nat) (fs : List AField) :
    fieldsInSetCanMerge (n + 1) fs = allPairs (pairRel n) fs := by
  simp only [fieldsInSetCanMerge]
  rfl

theorem mustMatch_symm (a b : AField) : mustMatch a b = mustMatch b a := by
  unfold mustMatch
  have : (a.parent == b.parent) = (b.parent == a.parent) := by
    rw [Bool.eq_iff_iff]; simp only [beq_iff_eq]; exact eq_comm
  rw [this]
  cases (b.parent == a.parent) <;> cases a.parentIsObject <;> cases b.parentIsObject <;> rfl

theorem beq_str_comm (x y : String) : (x == y) = (y == x) := by
  rw [Bool.eq_iff_iff]; simp only [beq_iff_eq]; exact eq_comm

theorem bne_str_comm (x y : String) : (x != y) = (y != x) := by
  simp only [bne, beq_str_comm]

theorem sameResponseShape_symm : ∀ (n : Nat) (a b : AField), sameResponseShape n a b = sameResponseShape n b a := by
  intro n
  induction n with
  | zero => intro a b; rfl
  | succ n ih =>
    intro a b
    simp only [sameResponseShape]
    rw [beq_str_comm a.shape b.shape,
      allPairs_append_comm _ (fun x y => by rw [bne_str_comm x.key y.key, ih x y]) a.subs b.subs]

theorem pairRel_symm : ∀ (n : Nat) (a b : AField), pairRel n a b = pairRel n b a := by
  intro n
  induction n with
  | zero =>
    intro a b
    simp only [pairRel, fieldsInSetCanMerge]
    rw [bne_str_comm a.key b.key, sameResponseShape_symm 1 a b, mustMatch_symm a b, beq_str_comm a.nameArgs b.nameArgs]
  | succ n ih =>
    intro a b
    simp only [pairRel, fieldsInSet_succ]
    rw [bne_str_comm a.key b.key, sameResponseShape_symm (n + 1 + 1) a b, mustMatch_symm a b,
      beq_str_comm a.nameArgs b.nameArgs, allPairs_append_comm _ (ih) a.subs b.subs]

/-! ### "any selection set of the document" gives every pair, in both orders and on the diagonal -/

theorem doc_pairs : ∀ (n : Nat) (S : List AField), documentFieldsCanMerge (n + 1) S = true →
    ∀ u ∈ S, ∀ v ∈ S, pairRel n u v = true := by
  intro n
  induction n with
  | zero =>
    intro S h
    simp only [documentFieldsCanMerge, Bool.and_eq_true, fieldsInSet_succ] at h
    apply allPairs_forall _ (pairRel_symm 0) S h.1
    intro u _
    simp only [pairRel, bne_self_eq_false, Bool.false_or, fieldsInSetCanMerge, Bool.and_true,
      sameResponseShape, beq_self_eq_true, Bool.true_and, Bool.and_eq_true, Bool.or_true, and_true]
    apply allPairs_of_forall
    intro x _ y _
    simp
  | succ n ih =>
    intro S h
    simp only [documentFieldsCanMerge, Bool.and_eq_true, List.all_eq_true] at h
    have h1 : allPairs (pairRel (n + 1)) S = true := by rw [← fieldsInSet_succ]; exact h.1
    apply allPairs_forall _ (pairRel_symm (n + 1)) S h1
    intro u hu
    have hsub : documentFieldsCanMerge (n + 1) u.subs = true := by
      have := h.2 u hu
      simpa only [documentFieldsCanMerge, Bool.and_eq_true, List.all_eq_true] using this
    have hp := ih u.subs hsub
    have hmem : ∀ x ∈ u.subs ++ u.subs, x ∈ u.subs := by
      intro x hx; rcases List.mem_append.mp hx with h | h <;> exact h
    simp only [pairRel, bne_self_eq_false, Bool.false_or, Bool.and_eq_true, beq_self_eq_true, Bool.true_and]
    refine ⟨?_, ?_⟩
    · simp only [sameResponseShape, beq_self_eq_true, Bool.true_and]
      apply allPairs_of_forall
      intro x hx y hy
      have := hp x (hmem x hx) y (hmem y hy)
      simp only [pairRel, Bool.or_eq_true, Bool.and_eq_true] at this
      rcases this with hk | hr
      · simp [hk]
      · simp only [Bool.or_eq_true]; right
        simpa only [sameResponseShape, Bool.and_eq_true] using hr.1
    · simp only [Bool.or_eq_true]; right
      rw [fieldsInSet_succ]
      apply allPairs_of_forall
      intro x hx y hy
      exact hp x (hmem x hx) y (hmem y hy)

/-! ### completeness of the two halves -/

theorem group_is_filter (fs g : List AField) (h : g ∈ groupByOutputName fs) :
    ∃ k, g = fs.filter (·.key == k) := by
  unfold groupByOutputName at h
  obtain ⟨k, _, rfl⟩ := List.mem_map.mp h
  exact ⟨k, rfl⟩

theorem mem_nested (g : List AField) (x : AField) (h : x ∈ nestedSets g) : ∃ a ∈ g, x ∈ a.subs := by
  unfold nestedSets at h
  exact List.mem_flatMap.mp h

theorem shapeByName_complete : ∀ (n : Nat) (S : List AField),
    (∀ u ∈ S, ∀ v ∈ S, u.key = v.key → sameResponseShape n u v = true) → sameResponseShapeByName n S = true := by
  intro n
  induction n with
  | zero => intro S _; rfl
  | succ n ih =>
    intro S h
    simp only [sameResponseShapeByName, List.all_eq_true, Bool.and_eq_true, Bool.or_eq_true]
    intro g hg
    obtain ⟨k, rfl⟩ := group_is_filter S g hg
    have hin : ∀ a ∈ S.filter (·.key == k), a ∈ S ∧ a.key = k := by
      intro a ha
      have := List.mem_filter.mp ha
      exact ⟨this.1, by simpa using this.2⟩
    have hrel : ∀ a ∈ S.filter (·.key == k), ∀ b ∈ S.filter (·.key == k), sameResponseShape (n + 1) a b = true := by
      intro a ha b hb
      exact h a (hin a ha).1 b (hin b hb).1 ((hin a ha).2.trans (hin b hb).2.symm)
    refine ⟨?_, Or.inr ?_⟩
    · apply firstVsRest_of_forall
      intro a ha b hb
      have := hrel a ha b hb
      simp only [sameResponseShape, Bool.and_eq_true] at this
      exact this.1
    · apply ih
      intro x hx y hy hk
      obtain ⟨a, ha, hxa⟩ := mem_nested _ x hx
      obtain ⟨b, hb, hyb⟩ := mem_nested _ y hy
      have := hrel a ha b hb
      simp only [sameResponseShape, Bool.and_eq_true] at this
      have hc := ((allPairs_append_iff _ _ _).mp this.2).2.2 x hxa y hyb
      simpa [hk] using hc

theorem mustMatch_of_common (g pg : List AField) (hpg : pg ∈ groupByCommonParents g) (a b : AField)
    (ha : a ∈ pg) (hb : b ∈ pg) : mustMatch a b = true := by
  have hag := group_subset g pg hpg a ha
  have hbg := group_subset g pg hpg b hb
  have := (commonParents_iff g a b hag hbg).mp ⟨pg, hpg, ha, hb⟩
  unfold mustMatch
  cases hao : a.parentIsObject <;> cases hbo : b.parentIsObject <;> simp
  exact this ⟨hao, hbo⟩

theorem commonParents_complete : ∀ (n : Nat) (S : List AField),
    (∀ u ∈ S, ∀ v ∈ S, pairRel n u v = true) → sameForCommonParentsByName (n + 1) S = true := by
  intro n
  induction n with
  | zero =>
    intro S h
    simp only [sameForCommonParentsByName, List.all_eq_true, Bool.and_eq_true, Bool.or_true, and_true]
    intro g hg pg hpg
    obtain ⟨k, rfl⟩ := group_is_filter S g hg
    apply firstVsRest_of_forall
    intro a ha b hb
    have ha' := List.mem_filter.mp (group_subset _ pg hpg a ha)
    have hb' := List.mem_filter.mp (group_subset _ pg hpg b hb)
    have hk : a.key = b.key := by
      have h1 : a.key = k := by simpa using ha'.2
      have h2 : b.key = k := by simpa using hb'.2
      rw [h1, h2]
    have hp := h a ha'.1 b hb'.1
    simp only [pairRel, hk, bne_self_eq_false, Bool.false_or, Bool.and_eq_true, Bool.or_eq_true,
      mustMatch_of_common _ pg hpg a b ha hb, Bool.not_true, Bool.false_eq_true, false_or] at hp
    exact hp.2.1
  | succ n ih =>
    intro S h
    rw [sameForCommonParentsByName]
    simp only [List.all_eq_true, Bool.and_eq_true, Bool.or_eq_true]
    intro g hg pg hpg
    obtain ⟨k, rfl⟩ := group_is_filter S g hg
    have hpair : ∀ a ∈ pg, ∀ b ∈ pg, a.nameArgs = b.nameArgs ∧ allPairs (pairRel n) (a.subs ++ b.subs) = true := by
      intro a ha b hb
      have ha' := List.mem_filter.mp (group_subset _ pg hpg a ha)
      have hb' := List.mem_filter.mp (group_subset _ pg hpg b hb)
      have hk : a.key = b.key := by
        have h1 : a.key = k := by simpa using ha'.2
        have h2 : b.key = k := by simpa using hb'.2
        rw [h1, h2]
      have hp := h a ha'.1 b hb'.1
      simp only [pairRel, hk, bne_self_eq_false, Bool.false_or, Bool.and_eq_true, Bool.or_eq_true,
        mustMatch_of_common _ pg hpg a b ha hb, Bool.not_true, Bool.false_eq_true, false_or, fieldsInSet_succ] at hp
      exact ⟨by simpa using hp.2.1, hp.2.2⟩
    refine ⟨?_, Or.inr ?_⟩
    · apply firstVsRest_of_forall
      intro a ha b hb
      simp [(hpair a ha b hb).1]
    · have := ih (nestedSets pg) (by
        intro x hx y hy
        obtain ⟨a, ha, hxa⟩ := mem_nested _ x hx
        obtain ⟨b, hb, hyb⟩ := mem_nested _ y hy
        exact ((allPairs_append_iff _ _ _).mp (hpair a ha b hb).2).2.2 x hxa y hyb)
      exact this

/-- COMPLETENESS: the pairwise rule accepts every selection set of the document ⇒ the XING algorithm
    reports no conflict -/
theorem xing_complete (n : Nat) (fs : List AField) (h : documentFieldsCanMerge n fs = true) :
    xingCanMerge n fs = true := by
  cases n with
  | zero => rfl
  | succ n =>
    have hp := doc_pairs n fs h
    simp only [xingCanMerge, Bool.and_eq_true]
    refine ⟨?_, commonParents_complete n fs hp⟩
    apply shapeByName_complete
    intro u hu v hv hk
    have := hp u hu v hv
    simp only [pairRel, hk, bne_self_eq_false, Bool.false_or, Bool.and_eq_true] at this
    exact this.1

theorem xing_eq_pairwise (n : Nat) (fs : List AField) : xingCanMerge n fs = documentFieldsCanMerge n fs := by
  rw [Bool.eq_iff_iff]
  exact ⟨xing_sound n fs, xing_complete n fs⟩

/-! ### the pairwise rule only depends on WHICH fields a set contains -/

/-- membership form of "every selection set of the document": every pair (both orders, the diagonal
    included) satisfies the pair rule, and every sub-selection is again such a set -/
theorem doc_iff (n : Nat) (S : List AField) :
    documentFieldsCanMerge (n + 1) S = true ↔
      (∀ u ∈ S, ∀ v ∈ S, pairRel n u v = true) ∧ ∀ f ∈ S, documentFieldsCanMerge n f.subs = true := by
  constructor
  · intro h
    refine ⟨doc_pairs n S h, ?_⟩
    simp only [documentFieldsCanMerge, Bool.and_eq_true, List.all_eq_true] at h
    exact h.2
  · rintro ⟨h1, h2⟩
    simp only [documentFieldsCanMerge, Bool.and_eq_true, List.all_eq_true, fieldsInSet_succ]
    exact ⟨allPairs_of_forall _ S h1, h2⟩

/-- order and multiplicity of the expanded fields do not matter (so neither does the order in which
    `expand_selections` visits inline fragments and fragment spreads, nor that it visits a fragment
    only once) -/
theorem doc_congr (n : Nat) (S S' : List AField) (h : ∀ x, x ∈ S ↔ x ∈ S') :
    documentFieldsCanMerge n S = documentFieldsCanMerge n S' := by
  cases n with
  | zero => rfl
  | succ n =>
    rw [Bool.eq_iff_iff, doc_iff, doc_iff]
    constructor
    · rintro ⟨h1, h2⟩
      exact ⟨fun u hu v hv => h1 u ((h u).mpr hu) v ((h v).mpr hv), fun f hf => h2 f ((h f).mpr hf)⟩
    · rintro ⟨h1, h2⟩
      exact ⟨fun u hu v hv => h1 u ((h u).mp hu) v ((h v).mp hv), fun f hf => h2 f ((h f).mp hf)⟩

end Apollo.ExecVal
