import ApolloModel.Proofs.ParserTermination2
/-
Termination of value.rs: value / list_value / object_value / object_field (mutual recursion), with
the consumption post-conditions their loop bodies need.
-/
set_option linter.unusedSimpArgs false
set_option linter.unusedVariables false
namespace Apollo.Parse
open Apollo.Rowan hiding Str
open Apollo.Lex hiding Str

/-- sequencing: if the second part consumes (when it sees a current token), so does the whole -/
theorem term_bind_cons {α : Type} {m : PI α} {f : α → PI Unit} {s : PState} {Q1 : α → Option Tok → LexSt → Prop}
    (h1 : Term m s Q1)
    (h2 : ∀ a s1, W s1 → Mono s s1 → Keep s s1 → Q1 a s1.current s1.lx → Term (f a) s1 (ConsP s1)) :
    Term (m >>= f) s (ConsP s) := by
  refine ⟨(term_bind (Q := Any) h1 (fun a s1 hw1 hm1 hk1 hq1 => (h2 a s1 hw1 hm1 hk1 hq1).weaken (fun _ _ _ _ => trivial))).1, ?_⟩
  intro b s2 hrb
  rw [run_bind] at hrb
  cases hr : m.run s with
  | ok a s1 =>
    rw [hr] at hrb
    obtain ⟨hw1, hm1, hk1, hq1⟩ := h1.2 a s1 hr
    obtain ⟨hw2, hm2, hk2, hq2⟩ := (h2 a s1 hw1 hm1 hk1 hq1).2 b s2 hrb
    refine ⟨hw2, hm1.trans hm2, hk1.trans hm1 hk2 hm2, ?_⟩
    intro hs
    exact keep_then_strict hk1 hm1 hs hq2 hm2
  | abort w' => rw [hr] at hrb; simp at hrb
  | panic msg => rw [hr] at hrb; simp at hrb

/-- sequencing: if the first part consumes, so does the whole -/
theorem term_cons_bind {β : Type} {m : PI Unit} {f : Unit → PI β} {s : PState}
    (h1 : Term m s (ConsP s))
    (h2 : ∀ a s1, W s1 → Mono s s1 → Keep s s1 → Term (f a) s1 Any) :
    Term (m >>= f) s (fun _ c l => s.current.isSome = true → StrictT s c l) := by
  refine ⟨(term_bind (Q := Any) h1 (fun a s1 hw1 hm1 hk1 _ => h2 a s1 hw1 hm1 hk1)).1, ?_⟩
  intro b s2 hrb
  rw [run_bind] at hrb
  cases hr : m.run s with
  | ok a s1 =>
    rw [hr] at hrb
    obtain ⟨hw1, hm1, hk1, hq1⟩ := h1.2 a s1 hr
    obtain ⟨hw2, hm2, hk2, _⟩ := (h2 a s1 hw1 hm1 hk1).2 b s2 hrb
    refine ⟨hw2, hm1.trans hm2, hk1.trans hm1 hk2 hm2, ?_⟩
    intro hs
    exact Strict.trans_mono (hq1 hs) hm2
  | abort w' => rw [hr] at hrb; simp at hrb
  | panic msg => rw [hr] at hrb; simp at hrb

/-- `withNode kind body` consumes when `skipIgnored; body` does (the node bookkeeping is invisible) -/
theorem withNode_cons {α : Type} (kind : SK) (body : PI α) (s : PState) (hw : W s)
    (h : ∀ s1, W s1 → s1.current = s.current → s1.lx = s.lx →
      Term (skipIgnored >>= fun _ => body) s1 (fun _ c l => s1.current.isSome = true → StrictT s1 c l)) :
    Term (withNode kind body) s (fun _ c l => s.current.isSome = true → StrictT s c l) := by
  refine withNode_term kind body s hw ?_
  intro s1 hw1 hc1 hl1
  refine (h s1 hw1 hc1 hl1).weaken ?_
  intro _ c l hq hs
  exact strictT_of_congr hc1 hl1 (hq (by rw [hc1]; exact hs))

/-- `skipIgnored; bump k; rest`: consumes -/
theorem skip_bump_then {β : Type} (k : SK) (rest : PI β) (s : PState) (hw : W s)
    (hrest : ∀ s3, W s3 → Mm s3 ≤ Mm s → (s.current.isSome = true → Mm s3 < Mm s) →
      (Mm s3 < Mm s ∨ (s3.current = none ∧ s3.lx.finished = true)) → Term rest s3 Any) :
    Term (skipIgnored >>= fun _ => (bump k >>= fun _ => rest)) s (fun _ c l => s.current.isSome = true → StrictT s c l) := by
  have hmain : ∀ (w : Abort), (skipIgnored >>= fun _ => (bump k >>= fun _ => rest)).run s ≠ .abort w ∧ True := fun _ => ⟨by
    exact (term_bind (Q := Any) (skipIgnored_run s hw).term (fun _ s2 hw2 hm2 hk2 _ =>
      term_bind (bump_run k s2 hw2).term (fun _ s3 hw3 hm3 hk3 hq3 =>
        hrest s3 hw3 (by have := hm2.1; have := hm3.1; omega)
          (fun hs => (keep_then_strict hk2 hm2 hs hq3.1.1 hm3).1)
          (by rcases hq3.1.2 with h | h
              · left; have := h.1; have := hm2.1; unfold Mm at *; omega
              · right; exact h)))).1 _, trivial⟩
  refine ⟨fun w => (hmain w).1, ?_⟩
  intro b sF hrb
  rw [run_bind] at hrb
  cases hr2 : skipIgnored.run s with
  | ok u s2 =>
    rw [hr2] at hrb
    simp only [] at hrb
    obtain ⟨hw2, hm2, hk2, _⟩ := (skipIgnored_run s hw).term.2 u s2 hr2
    rw [run_bind] at hrb
    cases hr3 : (bump k).run s2 with
    | ok u3 s3 =>
      rw [hr3] at hrb
      simp only [] at hrb
      obtain ⟨hw3, hm3, hk3, hq3⟩ := (bump_run k s2 hw2).term.2 u3 s3 hr3
      have hR := hrest s3 hw3 (by have := hm2.1; have := hm3.1; omega)
          (fun hs => (keep_then_strict hk2 hm2 hs hq3.1.1 hm3).1)
          (by rcases hq3.1.2 with h | h
              · left; have := h.1; have := hm2.1; unfold Mm at *; omega
              · right; exact h)
      obtain ⟨hwF, hmF, hkF, _⟩ := hR.2 b sF hrb
      have hm13 : Mono s s3 := hm2.trans hm3
      have hk13 : Keep s s3 := hk2.trans hm2 hk3 hm3
      refine ⟨hwF, hm13.trans hmF, hk13.trans hm13 hkF hmF, ?_⟩
      intro hs
      exact Strict.trans_mono (keep_then_strict hk2 hm2 hs hq3.1.1 hm3) hmF
    | abort w' => rw [hr3] at hrb; simp at hrb
    | panic msg => rw [hr3] at hrb; simp at hrb
  | abort w' => rw [hr2] at hrb; simp at hrb
  | panic msg => rw [hr2] at hrb; simp at hrb

theorem variableNode_term (s : PState) (hw : W s) : Term variableNode s (ConsP s) := by
  unfold variableNode
  refine withNode_cons _ _ s hw ?_
  intro s1 hw1 _ _
  refine skip_bump_then "DOLLAR" name s1 hw1 ?_
  intro s3 hw3 _ _ _
  exact (name_term s3 hw3).weaken (fun _ _ _ _ => trivial)

/-- `enum_value`: consumes the current token when it is a Name -/
theorem enumValue_term (s : PState) (hw : W s) :
    Term enumValue s (fun _ c l => ∀ t, s.current = some t → t.kind = .name → StrictT s c l) := by
  unfold enumValue
  refine withNode_term _ _ s hw ?_
  intro s1 hw1 hc1 hl1
  apply term_bind (skipIgnored_run s1 hw1).term
  intro _ s2 hw2 hm2 hk2 hq2
  apply term_bind (peekToken_run' s2 hw2).term
  intro a s3 hw3 hm3 hk3 hq3
  -- relative to `s`: either the token is still the current one of `s3`, or progress was made already
  have hrel : ∀ t, s.current = some t → t.kind = .name →
      (s3.current = some t ∧ Mm s3 = Mm s ∧ Phi s3 = Phi s) ∨ Strict s1 s3 := by
    intro t ht hk
    have hs1 : s1.current.isSome = true := by rw [hc1, ht]; rfl
    have hk13 : Keep s1 s3 := hk2.trans hm2 hk3 hm3
    rcases hk13 hs1 with ⟨hc, hl⟩ | hst
    · left
      exact ⟨by rw [hc, hc1, ht], by rw [Mm_congr hc hl, Mm_congr hc1 hl1], by rw [Phi_congr hc hl, Phi_congr hc1 hl1]⟩
    · exact Or.inr hst
  have finish : ∀ (m : PI Unit), (∀ t, s3.current = some t → t.kind = .name → Term m s3 (fun _ c l => StrictT s3 c l)) →
      Term m s3 Any → Term m s3 (fun _ c l => ∀ t, s.current = some t → t.kind = .name → StrictT s c l) := by
    intro m hcons hany
    refine ⟨hany.1, ?_⟩
    intro b s4 hr
    obtain ⟨hw4, hm4, hk4, _⟩ := hany.2 b s4 hr
    refine ⟨hw4, hm4, hk4, ?_⟩
    intro t ht hk
    rcases hrel t ht hk with ⟨hc3, hM, hP⟩ | hst
    · have := ((hcons t hc3 hk).2 b s4 hr).2.2.2
      exact ⟨by rw [← hM]; exact this.1, by rw [← hP]; exact this.2⟩
    · have h14 : Strict s1 s4 := hst.trans_mono hm4
      exact strictT_of_congr hc1 hl1 h14
  cases a with
  | none =>
    refine finish err ?_ ((err_run s3 hw3).term.weaken (fun _ _ _ _ => trivial))
    intro t ht _
    rw [← hq3.1] at ht; simp at ht
  | some t =>
    simp only []
    by_cases hk : (t.kind == Kind.name) = true
    · simp only [hk, if_true]
      have hname : Term (do
            if (kw "true" t.data || kw "false" t.data || kw "null" t.data) = true then err
            name) s3 (fun _ c l => ∀ t', s3.current = some t' → t'.kind = .name → StrictT s3 c l) := by
        show Term (if (kw "true" t.data || kw "false" t.data || kw "null" t.data) = true then (err >>= fun _ => name) else name) s3 _
        split
        · apply term_bind (err_run s3 hw3).term
          intro _ s4 hw4 hm4 hk4 hq4
          refine (name_term s4 hw4).weaken ?_
          intro _ c l h t' ht' hk'
          have hsame := hq4.2 (by simp [ht'])
          exact strictT_of_congr hsame.1 hsame.2 (h t' (by rw [hsame.1]; exact ht') hk')
        · exact name_term s3 hw3
      refine finish _ (fun t' ht' hk' => hname.weaken (fun _ c l h => h t' ht' hk')) (hname.weaken (fun _ _ _ _ => trivial))
    · simp only [hk, Bool.false_eq_true, if_false]
      refine finish err ?_ ((err_run s3 hw3).term.weaken (fun _ _ _ _ => trivial))
      intro t' ht' hk'
      rw [← hq3.1] at ht'
      simp only [Option.some.injEq] at ht'
      subst ht'
      simp [hk'] at hk

/-- the monotonicity part of `Term`, made available to the post-condition -/
theorem Term.with_mono {α : Type} {m : PI α} {s : PState} {Q : α → Option Tok → LexSt → Prop} (h : Term m s Q) :
    Term m s (fun a c l => Q a c l ∧ MmT c l ≤ Mm s ∧ Phi s ≤ PhiT c l) :=
  ⟨h.1, fun a s' hr => let r := h.2 a s' hr; ⟨r.1, r.2.1, r.2.2.1, r.2.2.2, r.2.1.1, r.2.1.2⟩⟩

/-- post-condition of `value`: with `pop_on_error` it always consumes the token it looks at -/
def VPost (pop : Bool) (s : PState) : Unit → Option Tok → LexSt → Prop :=
  fun _ c l => pop = true → s.current.isSome = true → StrictT s c l

structure ValueGoal (n : Nat) : Prop where
  value : ∀ isConst pop s, W s → 2 * Mm s + 2 ≤ n → Term (value n isConst pop) s (VPost pop s)
  list : ∀ isConst s, W s → 2 * Mm s + 1 ≤ n → Term (listValue n isConst) s (ConsP s)
  object : ∀ isConst s, W s → 2 * Mm s + 1 ≤ n → Term (objectValue n isConst) s (ConsP s)
  field : ∀ isConst s, W s → 2 * Mm s + 1 ≤ n → (∃ t, s.current = some t ∧ t.kind = .name) →
    Term (objectField n isConst) s (fun _ c l => StrictT s c l)

theorem mm_pos_of_current {s : PState} (h : ∃ t, s.current = some t) : 1 ≤ Mm s := by
  obtain ⟨t, ht⟩ := h
  simp [Mm, MmT, ht]

theorem mm_zero_of_done {s : PState} (hc : s.current = none) (hf : s.lx.finished = true) : Mm s = 0 := by
  simp [Mm, MmT, lexM, hc, hf]

/-- from a post-condition relative to the state after `peek` to one relative to the state before -/
theorem vpost_of_peek {s s1 : PState} {pop : Bool} {c : Option Tok} {l : LexSt}
    (hl : Looked s s1.current s1.lx) (h : s1.current.isSome = true → StrictT s1 c l) : VPost pop s () c l := by
  intro _ hs
  have := hl.2 hs
  exact strictT_of_congr this.1 this.2 (h (by rw [this.1]; exact hs))

theorem value_family : ∀ n, ValueGoal n
  | 0 => ⟨fun _ _ s _ h => by omega, fun _ s _ h => by omega, fun _ s _ h => by omega, fun _ s _ h _ => by omega⟩
  | n + 1 => by
    have ih := value_family n
    refine ⟨?_, ?_, ?_, ?_⟩
    · -- value
      intro isConst pop s hw hn
      unfold value
      apply term_bind (peek_run' s hw).term
      intro k s1 hw1 hm1 hk1 hq1
      have hM1 : Mm s1 ≤ Mm s := hm1.1
      -- the fall-through branch
      have hdefault : Term (if pop = true then errAndPop else err) s1 (VPost pop s) := by
        cases pop with
        | true =>
          simp only [if_true]
          exact (errAndPop_run s1 hw1).term.weaken (fun _ c l h => vpost_of_peek hq1.2 h.1)
        | false =>
          simp only [Bool.false_eq_true, if_false]
          exact (err_run s1 hw1).term.weaken (fun _ c l _ h => by simp at h)
      have hnodebump : ∀ kind k', Term (withNode kind (bump k')) s1 (VPost pop s) := fun kind k' =>
        (withNode_bump_term kind k' s1 hw1).weaken (fun _ c l h => vpost_of_peek hq1.2 h)
      cases k with
      | none => exact hdefault
      | some kind =>
        obtain ⟨t, ht, htk⟩ := cur_of_peek hq1
        cases kind
        case dollar =>
          simp only []
          have hvar : ∀ s2, W s2 → Term variableNode s2 (ConsP s2) := variableNode_term
          have : Term (do
              if isConst = true then (if pop = true then errAndPop else err)
              variableNode) s1 (ConsP s1) := by
            show Term (if isConst = true then ((if pop = true then errAndPop else err) >>= fun _ => variableNode) else variableNode) s1 _
            split
            · refine term_bind_cons (Q1 := Any) ?_ (fun _ s2 hw2 _ _ _ => hvar s2 hw2)
              split
              · exact (errAndPop_run s1 hw1).term.weaken (fun _ _ _ _ => trivial)
              · exact (err_run s1 hw1).term.weaken (fun _ _ _ _ => trivial)
            · exact hvar s1 hw1
          exact this.weaken (fun _ c l h => vpost_of_peek hq1.2 h)
        case int => exact hnodebump _ _
        case float => exact hnodebump _ _
        case stringValue => exact hnodebump _ _
        case name =>
          simp only []
          apply term_bind (peekToken_run' s1 hw1).term
          intro a s2 hw2 hm2 hk2 hq2
          have hsame := hq2.2.2 (by rw [ht]; rfl)
          cases a with
          | none => rw [← hq2.1, ht] at hsame; simp at hsame
          | some t2 =>
            have ht2 : s2.current = some t := by rw [hsame.1, ht]
            have conv : ∀ {c : Option Tok} {l : LexSt}, (s2.current.isSome = true → StrictT s2 c l) → VPost pop s () c l := by
              intro c l h
              exact vpost_of_peek hq1.2 (fun hs => strictT_of_congr hsame.1 hsame.2 (h (by rw [ht2]; rfl)))
            simp only []
            split
            · exact (withNode_bump_term _ _ s2 hw2).weaken (fun _ c l h => conv h)
            · split
              · exact (withNode_bump_term _ _ s2 hw2).weaken (fun _ c l h => conv h)
              · split
                · exact (withNode_bump_term _ _ s2 hw2).weaken (fun _ c l h => conv h)
                · exact (enumValue_term s2 hw2).weaken (fun _ c l h => conv (fun _ => h t ht2 htk))
        case lBracket =>
          exact (ih.list isConst s1 hw1 (by omega)).weaken (fun _ c l h => vpost_of_peek hq1.2 h)
        case lCurly =>
          exact (ih.object isConst s1 hw1 (by omega)).weaken (fun _ c l h => vpost_of_peek hq1.2 h)
        all_goals exact hdefault
    · -- listValue
      intro isConst s hw hn
      unfold listValue
      refine withNode_cons _ _ s hw ?_
      intro s1 hw1 hc1 hl1
      have hM1 : Mm s1 = Mm s := Mm_congr hc1 hl1
      refine skip_bump_then "L_BRACK" _ s1 hw1 ?_
      intro s3 hw3 hM3 _ hcons
      refine peekWhile_term _ s3 hw3 ?_
      intro kind s4 hw4 hM4 hcur
      have hpos := mm_pos_of_current (s := s4) (by obtain ⟨t, ht, _⟩ := hcur; exact ⟨t, ht⟩)
      have hbudget : 2 * Mm s4 + 2 ≤ n := by
        rcases hcons with h | ⟨hc, hf⟩
        · omega
        · have := mm_zero_of_done hc hf; omega
      split
      · apply term_bind (bump_run "R_BRACK" s4 hw4).term
        intro _ s5 hw5 _ _ _
        exact term_pure false s5 hw5 (fun h => by simp at h)
      · split
        · exact term_pure false s4 hw4 (fun h => by simp at h)
        · refine withRec_term _ _ s4 hw4 ?_ ?_
          · intro s5 hw5 _ _
            apply term_bind (limitErr_run s5 hw5).term
            intro _ s6 hw6 _ _ _
            exact term_pure false s6 hw6 (fun h => by simp at h)
          · intro s5 hw5 hc5 hl5
            have hM5 : Mm s5 = Mm s4 := Mm_congr hc5 hl5
            have hv := ih.value isConst true s5 hw5 (by omega)
            refine ⟨(term_bind (Q := Any) hv (fun _ s6 hw6 _ _ _ => term_pure true s6 hw6 trivial)).1, ?_⟩
            intro b s7 hr
            rw [run_bind] at hr
            cases hr6 : (value n isConst true).run s5 with
            | ok u s6 =>
              rw [hr6] at hr
              simp only [run_pure, Res.ok.injEq] at hr
              obtain ⟨rfl, rfl⟩ := hr
              obtain ⟨hw6, hm6, hk6, hq6⟩ := hv.2 u s6 hr6
              refine ⟨hw6, hm6, hk6, ?_⟩
              intro _
              obtain ⟨t, ht, _⟩ := hcur
              exact strictT_of_congr hc5 hl5 (hq6 rfl (by rw [hc5, ht]; rfl))
            | abort w' => rw [hr6] at hr; simp at hr
            | panic m => rw [hr6] at hr; simp at hr
    · -- objectValue
      intro isConst s hw hn
      unfold objectValue
      refine withNode_cons _ _ s hw ?_
      intro s1 hw1 hc1 hl1
      have hM1 : Mm s1 = Mm s := Mm_congr hc1 hl1
      refine skip_bump_then "L_CURLY" _ s1 hw1 ?_
      intro s3 hw3 hM3 _ hcons
      refine term_bind (Q1 := Any) ?_ ?_
      · refine peekWhileKind_term _ _ s3 hw3 ?_
        intro s4 hw4 hM4 hcur
        have hpos := mm_pos_of_current (s := s4) (by obtain ⟨t, ht, _⟩ := hcur; exact ⟨t, ht⟩)
        have hbudget : 2 * Mm s4 + 1 ≤ n := by
          rcases hcons with h | ⟨hc, hf⟩
          · omega
          · have := mm_zero_of_done hc hf; omega
        exact ih.field isConst s4 hw4 hbudget hcur
      · intro _ s5 hw5 _ _ _
        exact (expect_run .rCurly "R_CURLY" s5 hw5).term.weaken (fun _ _ _ _ => trivial)
    · -- objectField
      intro isConst s hw hn hcur
      obtain ⟨t, ht, htk⟩ := hcur
      unfold objectField
      have hmain : Term (withNode "OBJECT_FIELD" (do
            name
            if (← peek) == some Kind.colon then
              bump "COLON"
              withRec limitErr (value n isConst true)
            else err)) s (fun _ c l => s.current.isSome = true → StrictT s c l) := by
        refine withNode_cons _ _ s hw ?_
        intro s1 hw1 hc1 hl1
        have hM1 : Mm s1 = Mm s := Mm_congr hc1 hl1
        have ht1 : s1.current = some t := by rw [hc1, ht]
        have hgoal : Term (skipIgnored >>= fun _ => (do
              name
              if (← peek) == some Kind.colon then
                bump "COLON"
                withRec limitErr (value n isConst true)
              else err)) s1 (fun _ c l => StrictT s1 c l) := by
          apply term_bind (skipIgnored_run s1 hw1).term
          intro _ s2 hw2 hm2 hk2 _
          apply term_bind (name_term s2 hw2)
          intro _ s3 hw3 hm3 hk3 hq3
          have hst13 : Strict s1 s3 := by
            rcases hk2 (by rw [ht1]; rfl) with ⟨hc, hl⟩ | hst
            · have := hq3 t (by rw [hc, ht1]) htk
              exact ⟨by rw [← Mm_congr hc hl]; exact this.1, by rw [← Phi_congr hc hl]; exact this.2⟩
            · exact hst.trans_mono hm3
          apply term_bind (peek_run' s3 hw3).term
          intro k s4 hw4 hm4 hk4 hq4
          split
          · apply term_bind (bump_run "COLON" s4 hw4).term
            intro _ s5 hw5 hm5 hk5 _
            refine withRec_term _ _ s5 hw5 ?_ ?_
            · intro s6 hw6 hc6 hl6
              refine (limitErr_run s6 hw6).term.with_mono.weaken ?_
              intro _ c l h
              have e1 := Mm_congr hc6 hl6; have e2 := Phi_congr hc6 hl6
              have := hst13.1; have := hst13.2; have := hm4.1; have := hm4.2; have := hm5.1; have := hm5.2
              exact ⟨by omega, by omega⟩
            · intro s6 hw6 hc6 hl6
              have e1 := Mm_congr hc6 hl6; have e2 := Phi_congr hc6 hl6
              have := hst13.1; have := hst13.2; have := hm4.1; have := hm4.2; have := hm5.1; have := hm5.2
              refine (ih.value isConst true s6 hw6 (by omega)).with_mono.weaken ?_
              intro _ c l h
              exact ⟨by omega, by omega⟩
          · refine (err_run s4 hw4).term.with_mono.weaken ?_
            intro _ c l h
            have := hst13.1; have := hst13.2; have := hm4.1; have := hm4.2
            exact ⟨by omega, by omega⟩
        exact hgoal.weaken (fun _ c l h _ => h)
      exact hmain.weaken (fun _ c l h => h (by rw [ht]; rfl))

end Apollo.Parse
