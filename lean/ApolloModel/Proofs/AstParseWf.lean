import ApolloModel.Proofs.AstDocument3
/-
Soundness of the reference parser with respect to the well-formedness predicate of the round-trip
theorems: whatever `pDocument` returns satisfies `wfDefinitions`.
-/
namespace Apollo.Ast

theorem pValue_wf_all : ∀ f : Nat,
    (∀ ts v r, pValue f ts = some (v, r) → wfValue v = true) ∧
    (∀ ts vs r, pValues f ts = some (vs, r) → wfValues vs = true) ∧
    (∀ ts fs r, pObjFields f ts = some (fs, r) → wfObjFields fs = true) := by
  intro f
  induction f with
  | zero => refine ⟨?_, ?_, ?_⟩ <;> intro ts x r h <;> simp [pValue, pValues, pObjFields] at h
  | succ f ih =>
    obtain ⟨ih1, ih2, ih3⟩ := ih
    refine ⟨?_, ?_, ?_⟩
    · intro ts v r h
      unfold pValue at h
      split at h
      · simp at h; obtain ⟨rfl, _⟩ := h; simp [wfValue]
      · simp at h; obtain ⟨rfl, _⟩ := h; simp [wfValue]
      · simp at h; obtain ⟨rfl, _⟩ := h; simp [wfValue]
      · simp at h; obtain ⟨rfl, _⟩ := h; simp [wfValue]
      · next n r0 =>
        by_cases h1 : n = sTrue
        · simp [h1] at h; obtain ⟨rfl, _⟩ := h; simp [wfValue]
        · by_cases h2 : n = sFalse
          · simp [h1, h2] at h; obtain ⟨rfl, _⟩ := h; simp [wfValue]
          · by_cases h3 : n = sNull
            · simp [h1, h2, h3] at h; obtain ⟨rfl, _⟩ := h; simp [wfValue]
            · simp [h1, h2, h3] at h; obtain ⟨rfl, _⟩ := h; simp [wfValue, h1, h2, h3]
      · next r0 =>
        cases hq : pValues f r0 with
        | none => simp [hq] at h
        | some q =>
          obtain ⟨vs, r'⟩ := q
          simp [hq] at h; obtain ⟨rfl, _⟩ := h
          simpa [wfValue] using ih2 _ _ _ hq
      · next r0 =>
        cases hq : pObjFields f r0 with
        | none => simp [hq] at h
        | some q =>
          obtain ⟨fs, r'⟩ := q
          simp [hq] at h; obtain ⟨rfl, _⟩ := h
          simpa [wfValue] using ih3 _ _ _ hq
      · simp at h
    · intro ts vs r h
      unfold pValues at h
      split at h
      · simp at h; obtain ⟨rfl, _⟩ := h; simp [wfValues]
      · cases hq : pValue f ts with
        | none => simp [hq] at h
        | some q =>
          obtain ⟨v, r1⟩ := q
          simp only [hq] at h
          cases hq2 : pValues f r1 with
          | none => simp [hq2] at h
          | some q2 =>
            obtain ⟨vs', r2⟩ := q2
            simp [hq2] at h; obtain ⟨rfl, _⟩ := h
            simp [wfValues, ih1 _ _ _ hq, ih2 _ _ _ hq2]
    · intro ts fs r h
      unfold pObjFields at h
      split at h
      · simp at h; obtain ⟨rfl, _⟩ := h; simp [wfObjFields]
      · next n r0 =>
        cases hq : pValue f r0 with
        | none => simp [hq] at h
        | some q =>
          obtain ⟨v, r1⟩ := q
          simp only [hq] at h
          cases hq2 : pObjFields f r1 with
          | none => simp [hq2] at h
          | some q2 =>
            obtain ⟨fs', r2⟩ := q2
            simp [hq2] at h; obtain ⟨rfl, _⟩ := h
            simp [wfObjFields, ih1 _ _ _ hq, ih3 _ _ _ hq2]
      · simp at h

theorem pValue_wf {f : Nat} {ts : List Tok} {v : Value} {r : List Tok} (h : pValue f ts = some (v, r)) :
    wfValue v = true := (pValue_wf_all f).1 ts v r h

theorem pArgsTail_wf : ∀ (f : Nat) (ts : List Tok) (as : List (Str × Value)) (r : List Tok),
    pArgsTail f ts = some (as, r) → wfArgs as = true
  | 0, _, _, _, h => by simp [pArgsTail] at h
  | f + 1, ts, as, r, h => by
    unfold pArgsTail at h
    split at h
    · simp at h; obtain ⟨rfl, _⟩ := h; rfl
    · next n r0 =>
      cases hq : pValue f r0 with
      | none => simp [hq] at h
      | some q =>
        obtain ⟨v, r1⟩ := q
        simp only [hq] at h
        cases hq2 : pArgsTail f r1 with
        | none => simp [hq2] at h
        | some q2 =>
          obtain ⟨as', r2⟩ := q2
          simp [hq2] at h; obtain ⟨rfl, _⟩ := h
          simp [wfArgs, pValue_wf hq, pArgsTail_wf f r1 as' r2 hq2]
    · simp at h

theorem pArguments_wf {f : Nat} {ts : List Tok} {as : List (Str × Value)} {r : List Tok}
    (h : pArguments f ts = some (as, r)) : wfArgs as = true := by
  unfold pArguments at h
  split at h
  · next r0 =>
    split at h
    · simp at h
    · exact pArgsTail_wf f r0 as r h
  · simp at h; obtain ⟨rfl, _⟩ := h; rfl

theorem pDirectives_wf : ∀ (f : Nat) (ts : List Tok) (ds : List Directive) (r : List Tok),
    pDirectives f ts = some (ds, r) → wfDirs ds = true
  | 0, _, _, _, h => by simp [pDirectives] at h
  | f + 1, ts, ds, r, h => by
    unfold pDirectives at h
    split at h
    · next n r0 =>
      cases hq : pArguments f r0 with
      | none => simp [hq] at h
      | some q =>
        obtain ⟨as, r1⟩ := q
        simp only [hq] at h
        cases hq2 : pDirectives f r1 with
        | none => simp [hq2] at h
        | some q2 =>
          obtain ⟨ds', r2⟩ := q2
          simp [hq2] at h; obtain ⟨rfl, _⟩ := h
          simp [wfDirs, pArguments_wf hq, pDirectives_wf f r1 ds' r2 hq2]
    · simp at h; obtain ⟨rfl, _⟩ := h; rfl

/-! ### selections -/

theorem pSel_wf_all : ∀ f : Nat,
    (∀ ts s r, pSel f ts = some (s, r) → wfSel s = true) ∧
    (∀ a n ts s r, pFieldRest f a n ts = some (s, r) → wfSel s = true) ∧
    (∀ ts ss r, pSelsNE f ts = some (ss, r) → wfSels ss = true ∧ nonNil ss = true) ∧
    (∀ ts ss r, pSelsTail f ts = some (ss, r) → wfSels ss = true) := by
  intro f
  induction f with
  | zero =>
    refine ⟨?_, ?_, ?_, ?_⟩
    · intro ts s r h; simp [pSel] at h
    · intro a n ts s r h; simp [pFieldRest] at h
    · intro ts s r h; simp [pSelsNE] at h
    · intro ts s r h; simp [pSelsTail] at h
  | succ f ih =>
    obtain ⟨ih1, ih2, ih3, ih4⟩ := ih
    refine ⟨?_, ?_, ?_, ?_⟩
    · intro ts s r h
      unfold pSel at h
      split at h
      · next n r0 =>
        by_cases hon : n = sOn
        · simp only [hon, if_true] at h
          split at h
          · next tc r1 =>
            cases hq : pDirectives f r1 with
            | none => simp [hq] at h
            | some q =>
              obtain ⟨ds, r2⟩ := q
              simp only [hq] at h
              split at h
              · next heq =>
                simp only [Option.some.injEq, Prod.mk.injEq] at heq
                obtain ⟨rfl, rfl⟩ := heq
                rename_i r3
                cases hq2 : pSelsNE f r3 with
                | none => simp [hq2] at h
                | some q2 =>
                  obtain ⟨ss, r4⟩ := q2
                  simp [hq2] at h; obtain ⟨rfl, _⟩ := h
                  obtain ⟨w1, w2⟩ := ih3 _ _ _ hq2
                  cases ss with
                  | nil => simp [nonNil] at w2
                  | cons x xs => simp [wfSel, pDirectives_wf _ _ _ _ hq, w1]
              · simp at h
          · simp at h
        · simp only [hon, if_false] at h
          cases hq : pDirectives f r0 with
          | none => simp [hq] at h
          | some q =>
            obtain ⟨ds, r1⟩ := q
            simp [hq] at h; obtain ⟨rfl, _⟩ := h
            simp [wfSel, pDirectives_wf _ _ _ _ hq, hon]
      · next r0 _ =>
        cases hq : pDirectives f r0 with
        | none => simp [hq] at h
        | some q =>
          obtain ⟨ds, r2⟩ := q
          simp only [hq] at h
          split at h
          · next heq =>
            simp only [Option.some.injEq, Prod.mk.injEq] at heq
            obtain ⟨rfl, rfl⟩ := heq
            rename_i r3
            cases hq2 : pSelsNE f r3 with
            | none => simp [hq2] at h
            | some q2 =>
              obtain ⟨ss, r4⟩ := q2
              simp [hq2] at h; obtain ⟨rfl, _⟩ := h
              obtain ⟨w1, w2⟩ := ih3 _ _ _ hq2
              cases ss with
              | nil => simp [nonNil] at w2
              | cons x xs => simp [wfSel, pDirectives_wf _ _ _ _ hq, w1]
          · simp at h
      · exact ih2 _ _ _ _ _ h
      · exact ih2 _ _ _ _ _ h
      · simp at h
    · intro a n ts s r h
      unfold pFieldRest at h
      cases hq : pArguments f ts with
      | none => simp [hq] at h
      | some q =>
        obtain ⟨as, r1⟩ := q
        simp only [hq] at h
        cases hq1 : pDirectives f r1 with
        | none => simp [hq1] at h
        | some q1 =>
          obtain ⟨ds, r2⟩ := q1
          simp only [hq1] at h
          split at h
          · next heq =>
            simp only [Option.some.injEq, Prod.mk.injEq] at heq
            obtain ⟨rfl, rfl⟩ := heq
            rename_i r3
            cases hq2 : pSelsNE f r3 with
            | none => simp [hq2] at h
            | some q2 =>
              obtain ⟨ss, r4⟩ := q2
              simp [hq2] at h; obtain ⟨rfl, _⟩ := h
              simp [wfSel, pArguments_wf hq, pDirectives_wf _ _ _ _ hq1, (ih3 _ _ _ hq2).1]
          · next heq =>
            simp only [Option.some.injEq, Prod.mk.injEq] at heq
            obtain ⟨rfl, rfl⟩ := heq
            simp at h; obtain ⟨rfl, _⟩ := h
            simp [wfSel, wfSels, pArguments_wf hq, pDirectives_wf _ _ _ _ hq1]
          · simp at h
    · intro ts ss r h
      unfold pSelsNE at h
      cases hq : pSel f ts with
      | none => simp [hq] at h
      | some q =>
        obtain ⟨s, r1⟩ := q
        simp only [hq] at h
        cases hq2 : pSelsTail f r1 with
        | none => simp [hq2] at h
        | some q2 =>
          obtain ⟨ss', r2⟩ := q2
          simp [hq2] at h; obtain ⟨rfl, _⟩ := h
          simp [wfSels, nonNil, ih1 _ _ _ hq, ih4 _ _ _ hq2]
    · intro ts ss r h
      unfold pSelsTail at h
      split at h
      · simp at h; obtain ⟨rfl, _⟩ := h; simp [wfSels]
      · cases hq : pSel f ts with
        | none => simp [hq] at h
        | some q =>
          obtain ⟨s, r1⟩ := q
          simp only [hq] at h
          cases hq2 : pSelsTail f r1 with
          | none => simp [hq2] at h
          | some q2 =>
            obtain ⟨ss', r2⟩ := q2
            simp [hq2] at h; obtain ⟨rfl, _⟩ := h
            simp [wfSels, ih1 _ _ _ hq, ih4 _ _ _ hq2]

theorem pSelectionSet_wf {f : Nat} {ts : List Tok} {ss : Sels} {r : List Tok} (h : pSelectionSet f ts = some (ss, r)) :
    wfSels ss = true ∧ nonNil ss = true := by
  unfold pSelectionSet at h
  split at h
  · exact (pSel_wf_all f).2.2.1 _ _ _ h
  · simp at h

/-! ### variable / input value / field / enum value definitions -/

theorem pDefault_wf {f : Nat} {ts : List Tok} {d : Option Value} {r : List Tok} (h : pDefault f ts = some (d, r)) :
    wfDefault d = true := by
  unfold pDefault at h
  split at h
  · next r0 =>
    cases hq : pValue f r0 with
    | none => simp [hq] at h
    | some q => obtain ⟨v, r1⟩ := q; simp [hq] at h; obtain ⟨rfl, _⟩ := h; simpa [wfDefault] using pValue_wf hq
  · simp at h; obtain ⟨rfl, _⟩ := h; rfl

theorem pVarDefsTail_wf : ∀ (f : Nat) (ts : List Tok) (vs : List VarDef) (r : List Tok),
    pVarDefsTail f ts = some (vs, r) → wfVarDefs vs = true
  | 0, _, _, _, h => by simp [pVarDefsTail] at h
  | f + 1, ts, vs, r, h => by
    unfold pVarDefsTail at h
    split at h
    · simp at h; obtain ⟨rfl, _⟩ := h; rfl
    · next n r0 =>
      cases h1 : pTy f r0 with
      | none => simp [h1] at h
      | some q1 =>
        obtain ⟨ty, r1⟩ := q1
        simp only [h1] at h
        cases h2 : pDefault f r1 with
        | none => simp [h2] at h
        | some q2 =>
          obtain ⟨dv, r2⟩ := q2
          simp only [h2] at h
          cases h3 : pDirectives f r2 with
          | none => simp [h3] at h
          | some q3 =>
            obtain ⟨ds, r3⟩ := q3
            simp only [h3] at h
            cases h4 : pVarDefsTail f r3 with
            | none => simp [h4] at h
            | some q4 =>
              obtain ⟨vs', r4⟩ := q4
              simp [h4] at h; obtain ⟨rfl, _⟩ := h
              simp [wfVarDefs, pDefault_wf h2, pDirectives_wf _ _ _ _ h3, pVarDefsTail_wf f r3 vs' r4 h4]
    · simp at h

theorem pVarDefs_wf {f : Nat} {ts : List Tok} {vs : List VarDef} {r : List Tok} (h : pVarDefs f ts = some (vs, r)) :
    wfVarDefs vs = true := by
  unfold pVarDefs at h
  split at h
  · next r0 =>
    split at h
    · simp at h
    · exact pVarDefsTail_wf f r0 vs r h
  · simp at h; obtain ⟨rfl, _⟩ := h; rfl

theorem pInputValueDef_wf {f : Nat} {ts : List Tok} {v : InputValueDef} {r : List Tok}
    (h : pInputValueDef f ts = some (v, r)) : wfDefault v.default = true ∧ wfDirs v.dirs = true := by
  unfold pInputValueDef at h
  split at h
  · next desc n r0 _ =>
    cases h1 : pTy f r0 with
    | none => simp [h1] at h
    | some q1 =>
      obtain ⟨ty, r1⟩ := q1
      simp only [h1] at h
      cases h2 : pDefault f r1 with
      | none => simp [h2] at h
      | some q2 =>
        obtain ⟨dv, r2⟩ := q2
        simp only [h2] at h
        cases h3 : pDirectives f r2 with
        | none => simp [h3] at h
        | some q3 =>
          obtain ⟨ds, r3⟩ := q3
          simp [h3] at h; obtain ⟨rfl, _⟩ := h
          exact ⟨pDefault_wf h2, pDirectives_wf _ _ _ _ h3⟩
  · simp at h

theorem pInputValueDefsTail_wf (close : P) : ∀ (f : Nat) (ts : List Tok) (vs : List InputValueDef) (r : List Tok),
    pInputValueDefsTail close f ts = some (vs, r) → wfIVDs vs = true
  | 0, _, _, _, h => by simp [pInputValueDefsTail] at h
  | f + 1, ts, vs, r, h => by
    unfold pInputValueDefsTail at h
    split at h
    · split at h
      · simp at h; obtain ⟨rfl, _⟩ := h; rfl
      · simp at h
    · cases h1 : pInputValueDef f ts with
      | none => simp [h1] at h
      | some q1 =>
        obtain ⟨v, r1⟩ := q1
        simp only [h1] at h
        cases h2 : pInputValueDefsTail close f r1 with
        | none => simp [h2] at h
        | some q2 =>
          obtain ⟨vs', r2⟩ := q2
          simp [h2] at h; obtain ⟨rfl, _⟩ := h
          obtain ⟨w1, w2⟩ := pInputValueDef_wf h1
          simp [wfIVDs, w1, w2, pInputValueDefsTail_wf close f r1 vs' r2 h2]

theorem pArgumentsDefinition_wf {f : Nat} {ts : List Tok} {vs : List InputValueDef} {r : List Tok}
    (h : pArgumentsDefinition f ts = some (vs, r)) : wfIVDs vs = true := by
  unfold pArgumentsDefinition at h
  split at h
  · next r0 =>
    split at h
    · simp at h
    · exact pInputValueDefsTail_wf _ f r0 vs r h
  · simp at h; obtain ⟨rfl, _⟩ := h; rfl

theorem pInputFieldsDefinition_wf {f : Nat} {ts : List Tok} {vs : List InputValueDef} {r : List Tok}
    (h : pInputFieldsDefinition f ts = some (vs, r)) : wfIVDs vs = true := by
  unfold pInputFieldsDefinition at h
  split at h
  · next r0 =>
    split at h
    · simp at h
    · exact pInputValueDefsTail_wf _ f r0 vs r h
  · simp at h; obtain ⟨rfl, _⟩ := h; rfl

theorem pFieldDef_wf {f : Nat} {ts : List Tok} {v : FieldDef} {r : List Tok}
    (h : pFieldDef f ts = some (v, r)) : wfIVDs v.args = true ∧ wfDirs v.dirs = true := by
  unfold pFieldDef at h
  split at h
  · next desc n r0 _ =>
    cases h1 : pArgumentsDefinition f r0 with
    | none => simp [h1] at h
    | some q1 =>
      obtain ⟨as, r1⟩ := q1
      simp only [h1] at h
      split at h
      · next heq =>
        simp only [Option.some.injEq, Prod.mk.injEq] at heq
        obtain ⟨rfl, rfl⟩ := heq
        rename_i r2
        cases h2 : pTy f r2 with
        | none => simp [h2] at h
        | some q2 =>
          obtain ⟨ty, r3⟩ := q2
          simp only [h2] at h
          cases h3 : pDirectives f r3 with
          | none => simp [h3] at h
          | some q3 =>
            obtain ⟨ds, r4⟩ := q3
            simp [h3] at h; obtain ⟨rfl, _⟩ := h
            exact ⟨pArgumentsDefinition_wf h1, pDirectives_wf _ _ _ _ h3⟩
      · simp at h
  · simp at h

theorem pFieldDefsTail_wf : ∀ (f : Nat) (ts : List Tok) (vs : List FieldDef) (r : List Tok),
    pFieldDefsTail f ts = some (vs, r) → wfFieldDefs vs = true
  | 0, _, _, _, h => by simp [pFieldDefsTail] at h
  | f + 1, ts, vs, r, h => by
    unfold pFieldDefsTail at h
    split at h
    · simp at h; obtain ⟨rfl, _⟩ := h; rfl
    · cases h1 : pFieldDef f ts with
      | none => simp [h1] at h
      | some q1 =>
        obtain ⟨v, r1⟩ := q1
        simp only [h1] at h
        cases h2 : pFieldDefsTail f r1 with
        | none => simp [h2] at h
        | some q2 =>
          obtain ⟨vs', r2⟩ := q2
          simp [h2] at h; obtain ⟨rfl, _⟩ := h
          obtain ⟨w1, w2⟩ := pFieldDef_wf h1
          simp [wfFieldDefs, w1, w2, pFieldDefsTail_wf f r1 vs' r2 h2]

theorem pFieldsDefinition_wf {f : Nat} {ts : List Tok} {vs : List FieldDef} {r : List Tok}
    (h : pFieldsDefinition f ts = some (vs, r)) : wfFieldDefs vs = true := by
  unfold pFieldsDefinition at h
  split at h
  · next r0 =>
    split at h
    · simp at h
    · exact pFieldDefsTail_wf f r0 vs r h
  · simp at h; obtain ⟨rfl, _⟩ := h; rfl

theorem pEnumValueDef_wf {f : Nat} {ts : List Tok} {v : EnumValueDef} {r : List Tok}
    (h : pEnumValueDef f ts = some (v, r)) : wfDirs v.dirs = true := by
  unfold pEnumValueDef at h
  split at h
  · next desc n r0 _ =>
    cases h1 : pDirectives f r0 with
    | none => simp [h1] at h
    | some q1 =>
      obtain ⟨ds, r1⟩ := q1
      simp [h1] at h; obtain ⟨rfl, _⟩ := h
      exact pDirectives_wf _ _ _ _ h1
  · simp at h

theorem pEnumValueDefsTail_wf : ∀ (f : Nat) (ts : List Tok) (vs : List EnumValueDef) (r : List Tok),
    pEnumValueDefsTail f ts = some (vs, r) → wfEnumValueDefs vs = true
  | 0, _, _, _, h => by simp [pEnumValueDefsTail] at h
  | f + 1, ts, vs, r, h => by
    unfold pEnumValueDefsTail at h
    split at h
    · simp at h; obtain ⟨rfl, _⟩ := h; rfl
    · cases h1 : pEnumValueDef f ts with
      | none => simp [h1] at h
      | some q1 =>
        obtain ⟨v, r1⟩ := q1
        simp only [h1] at h
        cases h2 : pEnumValueDefsTail f r1 with
        | none => simp [h2] at h
        | some q2 =>
          obtain ⟨vs', r2⟩ := q2
          simp [h2] at h; obtain ⟨rfl, _⟩ := h
          simp [wfEnumValueDefs, pEnumValueDef_wf h1, pEnumValueDefsTail_wf f r1 vs' r2 h2]

theorem pEnumValuesDefinition_wf {f : Nat} {ts : List Tok} {vs : List EnumValueDef} {r : List Tok}
    (h : pEnumValuesDefinition f ts = some (vs, r)) : wfEnumValueDefs vs = true := by
  unfold pEnumValuesDefinition at h
  split at h
  · next r0 =>
    split at h
    · simp at h
    · exact pEnumValueDefsTail_wf f r0 vs r h
  · simp at h; obtain ⟨rfl, _⟩ := h; rfl

/-! ### definitions -/

theorem pSepList_ne {sep : P} {f : Nat} {ts : List Tok} {ls : List Str} {r : List Tok}
    (h : pSepList sep f ts = some (ls, r)) : ls.isEmpty = false := by
  unfold pSepList at h
  split at h
  · split at h
    · simp at h; obtain ⟨rfl, _⟩ := h; rfl
    · simp at h
  · simp at h; obtain ⟨rfl, _⟩ := h; rfl
  · simp at h

theorem pRootOps_ne {f : Nat} {ts : List Tok} {rs : List (OpType × Str)} {r : List Tok}
    (h : pRootOps f ts = some (rs, r)) : rs.isEmpty = false := by
  unfold pRootOps at h
  split at h
  · split at h
    · simp at h
    · next hne =>
      cases rs with
      | nil => exact absurd h (by intro h'; exact hne _ h')
      | cons x xs => rfl
  · simp at h

theorem pObjectTypeLike_wf {f : Nat} {ts : List Tok} {n : Str} {is : List Str} {ds : List Directive}
    {fs : List FieldDef} {r : List Tok} (h : pObjectTypeLike f ts = some ((n, is, ds, fs), r)) :
    wfDirs ds = true ∧ wfFieldDefs fs = true := by
  unfold pObjectTypeLike at h
  split at h
  · next n0 r0 =>
    cases h1 : pImplements f r0 with
    | none => simp [h1] at h
    | some q1 =>
      obtain ⟨is', r1⟩ := q1
      simp only [h1] at h
      cases h2 : pDirectives f r1 with
      | none => simp [h2] at h
      | some q2 =>
        obtain ⟨ds', r2⟩ := q2
        simp only [h2] at h
        cases h3 : pFieldsDefinition f r2 with
        | none => simp [h3] at h
        | some q3 =>
          obtain ⟨fs', r3⟩ := q3
          simp [h3] at h
          obtain ⟨⟨_, _, rfl, rfl⟩, _⟩ := h
          exact ⟨pDirectives_wf _ _ _ _ h2, pFieldsDefinition_wf h3⟩
  · simp at h

theorem pUnionBody_wf {f : Nat} {ts : List Tok} {n : Str} {ds : List Directive} {ms : List Str} {r : List Tok}
    (h : pUnionBody f ts = some ((n, ds, ms), r)) : wfDirs ds = true := by
  unfold pUnionBody at h
  split at h
  · next n0 r0 =>
    cases h1 : pDirectives f r0 with
    | none => simp [h1] at h
    | some q1 =>
      obtain ⟨ds', r1⟩ := q1
      simp only [h1] at h
      cases h2 : pUnionMembers f r1 with
      | none => simp [h2] at h
      | some q2 =>
        obtain ⟨ms', r2⟩ := q2
        simp [h2] at h
        obtain ⟨⟨_, rfl, _⟩, _⟩ := h
        exact pDirectives_wf _ _ _ _ h1
  · simp at h

theorem pEnumBody_wf {f : Nat} {ts : List Tok} {n : Str} {ds : List Directive} {vs : List EnumValueDef} {r : List Tok}
    (h : pEnumBody f ts = some ((n, ds, vs), r)) : wfDirs ds = true ∧ wfEnumValueDefs vs = true := by
  unfold pEnumBody at h
  split at h
  · next n0 r0 =>
    cases h1 : pDirectives f r0 with
    | none => simp [h1] at h
    | some q1 =>
      obtain ⟨ds', r1⟩ := q1
      simp only [h1] at h
      cases h2 : pEnumValuesDefinition f r1 with
      | none => simp [h2] at h
      | some q2 =>
        obtain ⟨vs', r2⟩ := q2
        simp [h2] at h
        obtain ⟨⟨_, rfl, rfl⟩, _⟩ := h
        exact ⟨pDirectives_wf _ _ _ _ h1, pEnumValuesDefinition_wf h2⟩
  · simp at h

theorem pInputBody_wf {f : Nat} {ts : List Tok} {n : Str} {ds : List Directive} {vs : List InputValueDef} {r : List Tok}
    (h : pInputBody f ts = some ((n, ds, vs), r)) : wfDirs ds = true ∧ wfIVDs vs = true := by
  unfold pInputBody at h
  split at h
  · next n0 r0 =>
    cases h1 : pDirectives f r0 with
    | none => simp [h1] at h
    | some q1 =>
      obtain ⟨ds', r1⟩ := q1
      simp only [h1] at h
      cases h2 : pInputFieldsDefinition f r1 with
      | none => simp [h2] at h
      | some q2 =>
        obtain ⟨vs', r2⟩ := q2
        simp [h2] at h
        obtain ⟨⟨_, rfl, rfl⟩, _⟩ := h
        exact ⟨pDirectives_wf _ _ _ _ h1, pInputFieldsDefinition_wf h2⟩
  · simp at h

theorem pOperationRest_aux {f : Nat} {ot : OpType} {name : Option Str} {r0 : List Tok} {d : Definition} {r : List Tok}
    (h : (match pVarDefs f r0 with
      | some (vs, r1) =>
        match pDirectives f r1 with
        | some (ds, r2) =>
          match pSelectionSet f r2 with
          | some (ss, r3) => some (Definition.operation ot name vs ds ss, r3)
          | none => none
        | none => none
      | none => none) = some (d, r)) : wfDefinition d = true := by
  cases h1 : pVarDefs f r0 with
  | none => simp [h1] at h
  | some q1 =>
    obtain ⟨vs, r1⟩ := q1
    simp only [h1] at h
    cases h2 : pDirectives f r1 with
    | none => simp [h2] at h
    | some q2 =>
      obtain ⟨ds, r2⟩ := q2
      simp only [h2] at h
      cases h3 : pSelectionSet f r2 with
      | none => simp [h3] at h
      | some q3 =>
        obtain ⟨ss, r3⟩ := q3
        simp [h3] at h; obtain ⟨rfl, _⟩ := h
        obtain ⟨w1, w2⟩ := pSelectionSet_wf h3
        simp [wfDefinition, pVarDefs_wf h1, pDirectives_wf _ _ _ _ h2, w1, w2]

theorem pOperationRest_wf {f : Nat} {ot : OpType} {ts : List Tok} {d : Definition} {r : List Tok}
    (h : pOperationRest f ot ts = some (d, r)) : wfDefinition d = true := by
  unfold pOperationRest at h
  split at h
  next name r0 _ => exact pOperationRest_aux h

theorem pTypeSystemRest_wf {f : Nat} {desc : Option Str} {kwd : Str} {ts : List Tok} {d : Definition} {r : List Tok}
    (h : pTypeSystemRest f desc kwd ts = some (d, r)) : wfDefinition d = true := by
  unfold pTypeSystemRest at h
  split at h
  · -- schema
    cases h1 : pDirectives f ts with
    | none => simp [h1] at h
    | some q1 =>
      obtain ⟨ds, r1⟩ := q1
      simp only [h1] at h
      cases h2 : pRootOps f r1 with
      | none => simp [h2] at h
      | some q2 =>
        obtain ⟨rs, r2⟩ := q2
        simp [h2] at h; obtain ⟨rfl, _⟩ := h
        simp [wfDefinition, pDirectives_wf _ _ _ _ h1, pRootOps_ne h2]
  · split at h
    · -- scalar
      split at h
      · next n r0 =>
        cases h1 : pDirectives f r0 with
        | none => simp [h1] at h
        | some q1 =>
          obtain ⟨ds, r1⟩ := q1
          simp [h1] at h; obtain ⟨rfl, _⟩ := h
          simp [wfDefinition, pDirectives_wf _ _ _ _ h1]
      · simp at h
    · split at h
      · -- type
        cases h1 : pObjectTypeLike f ts with
        | none => simp [h1] at h
        | some q1 =>
          obtain ⟨⟨n, is, ds, fs⟩, r1⟩ := q1
          simp [h1] at h; obtain ⟨rfl, _⟩ := h
          obtain ⟨w1, w2⟩ := pObjectTypeLike_wf h1
          simp [wfDefinition, w1, w2]
      · split at h
        · -- interface
          cases h1 : pObjectTypeLike f ts with
          | none => simp [h1] at h
          | some q1 =>
            obtain ⟨⟨n, is, ds, fs⟩, r1⟩ := q1
            simp [h1] at h; obtain ⟨rfl, _⟩ := h
            obtain ⟨w1, w2⟩ := pObjectTypeLike_wf h1
            simp [wfDefinition, w1, w2]
        · split at h
          · -- union
            cases h1 : pUnionBody f ts with
            | none => simp [h1] at h
            | some q1 =>
              obtain ⟨⟨n, ds, ms⟩, r1⟩ := q1
              simp [h1] at h; obtain ⟨rfl, _⟩ := h
              simp [wfDefinition, pUnionBody_wf h1]
          · split at h
            · -- enum
              cases h1 : pEnumBody f ts with
              | none => simp [h1] at h
              | some q1 =>
                obtain ⟨⟨n, ds, vs⟩, r1⟩ := q1
                simp [h1] at h; obtain ⟨rfl, _⟩ := h
                obtain ⟨w1, w2⟩ := pEnumBody_wf h1
                simp [wfDefinition, w1, w2]
            · split at h
              · -- input
                cases h1 : pInputBody f ts with
                | none => simp [h1] at h
                | some q1 =>
                  obtain ⟨⟨n, ds, vs⟩, r1⟩ := q1
                  simp [h1] at h; obtain ⟨rfl, _⟩ := h
                  obtain ⟨w1, w2⟩ := pInputBody_wf h1
                  simp [wfDefinition, w1, w2]
              · split at h
                · -- directive
                  split at h
                  · next n r0 =>
                    cases h1 : pArgumentsDefinition f r0 with
                    | none => simp [h1] at h
                    | some q1 =>
                      obtain ⟨as, r1⟩ := q1
                      simp only [h1] at h
                      repeat' split at h
                      all_goals (try (simp at h; done))
                      all_goals
                        simp only [Option.some.injEq, Prod.mk.injEq] at h
                        obtain ⟨rfl, _⟩ := h
                        have hne : ∀ {sep f ts ls r}, pSepList sep f ts = some (ls, r) → ls.isEmpty = false :=
                          fun h => pSepList_ne h
                        simp [wfDefinition, pArgumentsDefinition_wf h1, hne (by assumption)]
                  · simp at h
                · simp at h

theorem pExtensionRest_wf {f : Nat} {kwd : Str} {ts : List Tok} {d : Definition} {r : List Tok}
    (h : pExtensionRest f kwd ts = some (d, r)) : wfDefinition d = true := by
  unfold pExtensionRest at h
  split at h
  · -- schema
    cases h1 : pDirectives f ts with
    | none => simp [h1] at h
    | some q1 =>
      obtain ⟨ds, r1⟩ := q1
      simp only [h1] at h
      repeat' split at h
      all_goals (try (simp at h; done))
      all_goals
        simp only [Option.some.injEq, Prod.mk.injEq] at h
        obtain ⟨rfl, _⟩ := h
        have hd : ∀ {f ts ds r}, pDirectives f ts = some (ds, r) → wfDirs ds = true := fun h => pDirectives_wf _ _ _ _ h
        simp_all [wfDefinition]
        try (exact hd (by assumption))
  · split at h
    · -- scalar
      split at h
      · next n r0 =>
        cases h1 : pDirectives f r0 with
        | none => simp [h1] at h
        | some q1 =>
          obtain ⟨ds, r1⟩ := q1
          simp [h1] at h; obtain ⟨rfl, _⟩ := h
          simp [wfDefinition, pDirectives_wf _ _ _ _ h1]
      · simp at h
    · split at h
      · cases h1 : pObjectTypeLike f ts with
        | none => simp [h1] at h
        | some q1 =>
          obtain ⟨⟨n, is, ds, fs⟩, r1⟩ := q1
          simp [h1] at h; obtain ⟨rfl, _⟩ := h
          obtain ⟨w1, w2⟩ := pObjectTypeLike_wf h1
          simp [wfDefinition, w1, w2]
      · split at h
        · cases h1 : pObjectTypeLike f ts with
          | none => simp [h1] at h
          | some q1 =>
            obtain ⟨⟨n, is, ds, fs⟩, r1⟩ := q1
            simp [h1] at h; obtain ⟨rfl, _⟩ := h
            obtain ⟨w1, w2⟩ := pObjectTypeLike_wf h1
            simp [wfDefinition, w1, w2]
        · split at h
          · cases h1 : pUnionBody f ts with
            | none => simp [h1] at h
            | some q1 =>
              obtain ⟨⟨n, ds, ms⟩, r1⟩ := q1
              simp [h1] at h; obtain ⟨rfl, _⟩ := h
              simp [wfDefinition, pUnionBody_wf h1]
          · split at h
            · cases h1 : pEnumBody f ts with
              | none => simp [h1] at h
              | some q1 =>
                obtain ⟨⟨n, ds, vs⟩, r1⟩ := q1
                simp [h1] at h; obtain ⟨rfl, _⟩ := h
                obtain ⟨w1, w2⟩ := pEnumBody_wf h1
                simp [wfDefinition, w1, w2]
            · split at h
              · cases h1 : pInputBody f ts with
                | none => simp [h1] at h
                | some q1 =>
                  obtain ⟨⟨n, ds, vs⟩, r1⟩ := q1
                  simp [h1] at h; obtain ⟨rfl, _⟩ := h
                  obtain ⟨w1, w2⟩ := pInputBody_wf h1
                  simp [wfDefinition, w1, w2]
              · simp at h

theorem pDefinition_wf {f : Nat} {ts : List Tok} {d : Definition} {r : List Tok}
    (h : pDefinition f ts = some (d, r)) : wfDefinition d = true := by
  unfold pDefinition at h
  split at h
  · -- shorthand query
    next tl =>
    cases h1 : pSelectionSet f (Tok.p P.lCurly :: tl) with
    | none => simp [h1] at h
    | some q1 =>
      obtain ⟨ss, r1⟩ := q1
      simp [h1] at h
      obtain ⟨rfl, _⟩ := h
      obtain ⟨w1, w2⟩ := pSelectionSet_wf h1
      simp [wfDefinition, wfVarDefs, wfDirs, w1, w2]
  · exact pTypeSystemRest_wf h
  · next k r0 =>
    cases hot : opTypeOf k with
    | some ot => simp only [hot] at h; exact pOperationRest_wf h
    | none =>
      simp only [hot] at h
      split at h
      · -- fragment
        split at h
        · next n o tc r1 =>
          split at h
          · next hcond =>
            cases h1 : pDirectives f r1 with
            | none => simp [h1] at h
            | some q1 =>
              obtain ⟨ds, r2⟩ := q1
              simp only [h1] at h
              cases h2 : pSelectionSet f r2 with
              | none => simp [h2] at h
              | some q2 =>
                obtain ⟨ss, r3⟩ := q2
                simp [h2] at h; obtain ⟨rfl, _⟩ := h
                obtain ⟨w1, w2⟩ := pSelectionSet_wf h2
                simp [wfDefinition, hcond.1, pDirectives_wf _ _ _ _ h1, w1, w2]
          · simp at h
        · simp at h
      · split at h
        · split at h
          · exact pExtensionRest_wf h
          · simp at h
        · exact pTypeSystemRest_wf h
  · simp at h

theorem pDefinitions_wf : ∀ (f : Nat) (ts : List Tok) (ds : List Definition),
    pDefinitions f ts = some ds → wfDefinitions ds = true
  | 0, _, _, h => by simp [pDefinitions] at h
  | f + 1, ts, ds, h => by
    unfold pDefinitions at h
    split at h
    · simp at h; subst h; rfl
    · cases h1 : pDefinition f ts with
      | none => simp [h1] at h
      | some q1 =>
        obtain ⟨d, r⟩ := q1
        simp only [h1] at h
        cases h2 : pDefinitions f r with
        | none => simp [h2] at h
        | some ds' =>
          simp [h2] at h; subst h
          simp [wfDefinitions, pDefinition_wf h1, pDefinitions_wf f r ds' h2]

/-- **parse_wf.** Every document the reference parser returns is non-empty and satisfies `wfDefinitions`
    (the hypothesis of the round-trip theorems). -/
theorem parse_wf (f : Nat) (ts : List Tok) (d : Document) (h : pDocument f ts = some d) :
    d ≠ [] ∧ wfDefinitions d = true := by
  unfold pDocument at h
  split at h
  · simp at h
  · next hne =>
    refine ⟨?_, pDefinitions_wf f ts d h⟩
    intro he; subst he; exact hne h

end Apollo.Ast
