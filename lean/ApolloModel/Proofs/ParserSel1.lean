import ApolloModel.Proofs.ParserValue9
/-
C07 / C05 growth (selection sets), part 1: `Good` (errors only accumulate) for every function of
grammar/selection.rs, field.rs, fragment.rs, and the algebra of "consumed exactly the tokens of …".
-/
set_option linter.unusedSimpArgs false
namespace Apollo.Parse
open Apollo.Rowan hiding Str
open Apollo.Lex hiding Str

/-! ### Good -/

theorem good_peekTokenN (n : Nat) : Good (peekTokenN n) := by
  intro s a s' w h
  unfold peekTokenN at h
  simp only [] at h
  injection h with _ h; subst h
  exact Adv.refl _ w

theorem good_peekN (n : Nat) : Good (peekN n) := good_bind _ _ (good_peekTokenN n) (fun _ => good_pure _)

theorem good_namedType : Good namedType := by
  unfold namedType
  refine good_bind _ _ good_peek (fun k => ?_)
  exact good_ite _ _ _ (good_withNode _ _ good_name) (good_pure _)

theorem good_alias : Good alias := good_withNode _ _ (good_bind _ _ good_name (fun _ => good_bump _))

theorem good_fragmentName : Good fragmentName := by
  unfold fragmentName
  refine good_withNode _ _ (good_bind _ _ good_peekToken (fun o => ?_))
  cases o with
  | none => exact good_err
  | some t => exact good_ite _ _ _ good_err (good_ite _ _ _ good_name good_err)

theorem good_typeCondition : Good typeCondition := by
  unfold typeCondition
  refine good_withNode _ _ (good_bind _ _ good_peekToken (fun o => ?_))
  cases o with
  | none => exact good_err
  | some t =>
    have jp : Good (peek >>= fun k => if k == some Kind.name then namedType else err) :=
      good_bind _ _ good_peek (fun k => good_ite _ _ _ good_namedType good_err)
    by_cases hc : (t.kind == .name && kw "on" t.data) = true
    · simp only [hc, if_true]
      exact good_bind _ _ (good_bump _) (fun _ => jp)
    · simp only [hc, Bool.false_eq_true, if_false]
      exact good_bind _ _ good_err (fun _ => jp)

theorem good_fragmentSpread (n : Nat) : Good (fragmentSpread n) := by
  unfold fragmentSpread
  refine good_withNode _ _ (good_bind _ _ (good_bump _) (fun _ => good_bind _ _ good_peek (fun k => ?_)))
  have jp : Good (peek >>= fun k => if k == some Kind.at then directives n false else pure ()) :=
    good_bind _ _ good_peek (fun k => good_ite _ _ _ (good_directives n false) (good_pure _))
  by_cases hc : (k == some Kind.name) = true
  · simp only [hc, if_true]; exact good_bind _ _ good_fragmentName (fun _ => jp)
  · simp only [hc, Bool.false_eq_true, if_false]; exact good_bind _ _ good_err (fun _ => jp)

theorem good_peekWhileFlagLoop (body : Kind → PI (Bool × Bool)) (hb : ∀ k, Good (body k)) :
    ∀ fuel flag, Good (peekWhileFlagLoop body fuel flag)
  | 0, _ => good_outOfFuel
  | fuel + 1, flag => by
    unfold peekWhileFlagLoop
    refine good_bind _ _ good_peek ?_
    intro k
    cases k with
    | none => exact good_pure _
    | some kind =>
      refine good_bind _ _ good_getCurrent (fun before => good_bind _ _ (hb kind) ?_)
      intro cs
      obtain ⟨c, st⟩ := cs
      cases c with
      | false => exact good_pure _
      | true =>
        refine good_bind _ _ good_getCurrent (fun after => ?_)
        exact good_ite _ _ _ good_stuck (good_peekWhileFlagLoop body hb fuel _)

end Apollo.Parse

namespace Apollo.Parse
open Apollo.Rowan hiding Str
open Apollo.Lex hiding Str

/-! ### the mutual recursion cut into named pieces -/

def selBody (n : Nat) : Kind → PI (Bool × Bool) := fun kind =>
        if kind == .spread then do
          match ← peekTokenN 2 with
          | some next =>
            if next.kind == .name && !(kw "on" next.data) then fragmentSpread n
            else if next.kind == .at || next.kind == .name || next.kind == .lCurly then inlineFragment n
            else do err; bump "SPREAD"
            pure (true, true)
          | none => do errAndPop; pure (false, false)
        else if kind == .lCurly then pure (false, false)
        else if kind == .name then do field n; pure (true, true)
        else pure (false, false)

theorem selection_succ (n : Nat) : selection (n + 1) = (do
    let len ← srcLen
    let hasSelection ← peekWhileFlagLoop (selBody n) (len + 3) false
    if !hasSelection then err) := selection.eq_2 n

def selSetBody (n : Nat) : PI Unit := do
  bump "L_CURLY"
  let ok ← withRec (do limitErr; pure false) (do selection n; pure true)
  if ok then expect .rCurly "R_CURLY"

theorem selectionSet_succ (n : Nat) : selectionSet (n + 1) = (do
    if (← peek) == some .lCurly then withNode "SELECTION_SET" (selSetBody n)) := selectionSet.eq_2 n

def fieldBody (n : Nat) : PI Unit := do
  if (← peek) == some .name then
    if (← peekN 2) == some .colon then alias
    name
  else err
  if (← peek) == some .lParen then arguments n false
  if (← peek) == some .at then directives n false
  if (← peek) == some .lCurly then selectionSet n

theorem field_succ (n : Nat) : field (n + 1) = withNode "FIELD" (fieldBody n) := field.eq_2 n

def inlineBody (n : Nat) : PI Unit := do
  bump "SPREAD"
  if (← peek) == some .name then typeCondition
  if (← peek) == some .at then directives n false
  if (← peek) == some .lCurly then selectionSet n else err

theorem inlineFragment_succ (n : Nat) : inlineFragment (n + 1) = withNode "INLINE_FRAGMENT" (inlineBody n) := inlineFragment.eq_2 n

end Apollo.Parse

namespace Apollo.Parse
open Apollo.Rowan hiding Str
open Apollo.Lex hiding Str

structure GoodSel (n : Nat) : Prop where
  selSet : Good (selectionSet n)
  sel : Good (selection n)
  field : Good (field n)
  inline : Good (inlineFragment n)

theorem good_ifPeek (k : Kind) (a : PI Unit) (ha : Good a) :
    Good (peek >>= fun x => if x == some k then a else pure ()) :=
  good_bind _ _ good_peek (fun _ => good_ite _ _ _ ha (good_pure _))

theorem good_selBody (n : Nat) (ih : GoodSel n) (k : Kind) : Good (selBody n k) := by
  unfold selBody
  by_cases h1 : (k == Kind.spread) = true
  · simp only [h1, if_true]
    refine good_bind _ _ (good_peekTokenN 2) (fun o => ?_)
    cases o with
    | none => exact good_bind _ _ good_errAndPop (fun _ => good_pure _)
    | some next =>
      simp only []
      by_cases h2 : (next.kind == Kind.name && !kw "on" next.data) = true
      · simp only [h2, if_true]
        exact good_bind _ _ (good_fragmentSpread n) (fun _ => good_pure _)
      · simp only [h2, Bool.false_eq_true, if_false]
        by_cases h3 : (next.kind == Kind.at || next.kind == Kind.name || next.kind == Kind.lCurly) = true
        · simp only [h3, if_true]
          exact good_bind _ _ ih.inline (fun _ => good_pure _)
        · simp only [h3, Bool.false_eq_true, if_false]
          exact good_bind _ _ good_err (fun _ => good_bind _ _ (good_bump _) (fun _ => good_pure _))
  · simp only [h1, Bool.false_eq_true, if_false]
    by_cases h2 : (k == Kind.lCurly) = true
    · simp only [h2, if_true]; exact good_pure _
    · simp only [h2, Bool.false_eq_true, if_false]
      by_cases h3 : (k == Kind.name) = true
      · simp only [h3, if_true]; exact good_bind _ _ ih.field (fun _ => good_pure _)
      · simp only [h3, Bool.false_eq_true, if_false]; exact good_pure _

theorem good_selSetBody (n : Nat) (ih : GoodSel n) : Good (selSetBody n) := by
  unfold selSetBody
  refine good_bind _ _ (good_bump _) (fun _ => good_bind _ _
    (good_withRec _ _ (good_bind _ _ good_limitErr (fun _ => good_pure _)) (good_bind _ _ ih.sel (fun _ => good_pure _))) ?_)
  intro ok
  exact good_ite _ _ _ (good_expect _ _) (good_pure _)

theorem good_fieldBody (n : Nat) (ih : GoodSel n) : Good (fieldBody n) := by
  unfold fieldBody
  have t3 := good_ifPeek .lCurly _ ih.selSet
  have t2 : Good (peek >>= fun x => if x == some Kind.at then (directives n false >>= fun _ =>
      (peek >>= fun x => if x == some Kind.lCurly then selectionSet n else pure ()))
      else (peek >>= fun x => if x == some Kind.lCurly then selectionSet n else pure ())) :=
    good_bind _ _ good_peek (fun _ => good_ite _ _ _ (good_bind _ _ (good_directives n false) (fun _ => t3)) t3)
  have t1 : Good (peek >>= fun x => if x == some Kind.lParen then (arguments n false >>= fun _ => (peek >>= fun x => if x == some Kind.at then (directives n false >>= fun _ =>
      (peek >>= fun x => if x == some Kind.lCurly then selectionSet n else pure ()))
      else (peek >>= fun x => if x == some Kind.lCurly then selectionSet n else pure ())))
      else (peek >>= fun x => if x == some Kind.at then (directives n false >>= fun _ =>
      (peek >>= fun x => if x == some Kind.lCurly then selectionSet n else pure ()))
      else (peek >>= fun x => if x == some Kind.lCurly then selectionSet n else pure ()))) :=
    good_bind _ _ good_peek (fun _ => good_ite _ _ _ (good_bind _ _ (good_arguments n false) (fun _ => t2)) t2)
  refine good_bind _ _ good_peek (fun k => ?_)
  by_cases h : (k == some Kind.name) = true
  · simp only [h, if_true]
    refine good_bind _ _ (good_peekN 2) (fun k2 => ?_)
    by_cases h2 : (k2 == some Kind.colon) = true
    · simp only [h2, if_true]
      exact good_bind _ _ good_alias (fun _ => good_bind _ _ good_name (fun _ => t1))
    · simp only [h2, Bool.false_eq_true, if_false]
      exact good_bind _ _ good_name (fun _ => t1)
  · simp only [h, Bool.false_eq_true, if_false]
    exact good_bind _ _ good_err (fun _ => t1)

end Apollo.Parse

namespace Apollo.Parse
open Apollo.Rowan hiding Str
open Apollo.Lex hiding Str

theorem good_inlineBody (n : Nat) (ih : GoodSel n) : Good (inlineBody n) := by
  unfold inlineBody
  have t3 : Good (peek >>= fun x => if x == some Kind.lCurly then selectionSet n else err) :=
    good_bind _ _ good_peek (fun _ => good_ite _ _ _ ih.selSet good_err)
  have t2 : Good (peek >>= fun x => if x == some Kind.at then (directives n false >>= fun _ =>
      (peek >>= fun x => if x == some Kind.lCurly then selectionSet n else err))
      else (peek >>= fun x => if x == some Kind.lCurly then selectionSet n else err)) :=
    good_bind _ _ good_peek (fun _ => good_ite _ _ _ (good_bind _ _ (good_directives n false) (fun _ => t3)) t3)
  refine good_bind _ _ (good_bump _) (fun _ => good_bind _ _ good_peek (fun k => ?_))
  exact good_ite _ _ _ (good_bind _ _ good_typeCondition (fun _ => t2)) t2

theorem goodSel : ∀ n, GoodSel n
  | 0 => ⟨by unfold selectionSet; exact good_outOfFuel, by unfold selection; exact good_outOfFuel,
          by unfold field; exact good_outOfFuel, by unfold inlineFragment; exact good_outOfFuel⟩
  | n + 1 => by
    have ih := goodSel n
    refine ⟨?_, ?_, ?_, ?_⟩
    · rw [selectionSet_succ]
      exact good_bind _ _ good_peek (fun _ => good_ite _ _ _ (good_withNode _ _ (good_selSetBody n ih)) (good_pure _))
    · rw [selection_succ]
      refine good_bind _ _ good_srcLen (fun len => good_bind _ _ (good_peekWhileFlagLoop _ (good_selBody n ih) _ _) (fun b => ?_))
      exact good_ite _ _ _ good_err (good_pure _)
    · rw [field_succ]; exact good_withNode _ _ (good_fieldBody n ih)
    · rw [inlineFragment_succ]; exact good_withNode _ _ (good_inlineBody n ih)

theorem good_fieldSet (n : Nat) : Good (fieldSet n) := by
  unfold fieldSet
  refine good_bind _ _ good_peek (fun _ => good_ite _ _ _ (goodSel n).selSet ?_)
  exact good_withNode _ _ (good_withRec _ _ good_limitErr (goodSel n).sel)

/-! ### "consumed exactly the tokens of some `x` with `P x`" -/

@[reducible] def Cons (s s' : PState) (P : List Ast.Tok → Prop) : Prop :=
  ∃ cs x, Toks s = cs ++ Toks s' ∧ NoEof cs ∧ EofEnd s' ∧ TokIs (sig cs) x ∧ P x

theorem Cons.nil {s s' : PState} (ht : Toks s' = Toks s) (he : EofEnd s') : Cons s s' (fun x => x = []) :=
  ⟨[], [], (by rw [ht]; rfl), (fun x hx => by cases hx), he, TokIs.nil, rfl⟩

theorem Cons.seq {s s1 s2 : PState} {P Q : List Ast.Tok → Prop} (h1 : Cons s s1 P) (h2 : Cons s1 s2 Q) :
    Cons s s2 (fun z => ∃ x y, z = x ++ y ∧ P x ∧ Q y) := by
  obtain ⟨c1, x, t1, n1, _, k1, p1⟩ := h1
  obtain ⟨c2, y, t2, n2, e2, k2, p2⟩ := h2
  exact ⟨c1 ++ c2, x ++ y, by rw [t1, t2, List.append_assoc], noEof_append n1 n2, e2,
    by rw [sig_append]; exact k1.append k2, x, y, rfl, p1, p2⟩

theorem Cons.weaken {s s' : PState} {P Q : List Ast.Tok → Prop} (h : Cons s s' P) (hpq : ∀ x, P x → Q x) : Cons s s' Q := by
  obtain ⟨c, x, a, b, d, e, f⟩ := h
  exact ⟨c, x, a, b, d, e, hpq x f⟩

theorem Cons.transport {s s' s0 s1 : PState} {P : List Ast.Tok → Prop} (h : Cons s s' P) (h0 : Toks s0 = Toks s)
    (h1 : Toks s1 = Toks s') (he : EofEnd s1) : Cons s0 s1 P := by
  obtain ⟨c, x, a, b, _, e, f⟩ := h
  exact ⟨c, x, by rw [h0, h1]; exact a, b, he, e, f⟩

/-- a run that consumed the tokens `c` (all ≠ EOF), recording no error -/
theorem Cons.ofEat {s s' : PState} {c : List Tok} {x : List Ast.Tok} (e : Eat s s' c) (he : EofEnd s) (hno : NoEof c)
    (hx : TokIs (sig c) x) : Cons s s' (fun z => z = x) :=
  ⟨c, x, e.toks, hno, eofEnd_eat he e hno, hx, rfl⟩

theorem Cons.eofEnd {s s' : PState} {P : List Ast.Tok → Prop} (h : Cons s s' P) : EofEnd s' := by
  obtain ⟨_, _, _, _, e, _, _⟩ := h; exact e

end Apollo.Parse
