import ApolloModel.Proofs.ParserTreeDef2
/-
C08 growth (pipeline), stage (v), part 3: field definitions, fields definition, enum value definitions — tree
shapes, conversion, parser side; the generic "optional container of items" conversion.
-/
set_option linter.unusedSimpArgs false
set_option linter.unusedVariables false
namespace Apollo.FromCst
open Apollo.Rowan Apollo.Ast
open Apollo.Parse (isJunk isJunkKind sigE nameNode)

variable {R : List Loc}

/-- a container `K[open item+ close]` of items of shape `P` -/
def ItemsNode {α : Type} (K osk csk : SK) (P : α → Elem → Prop) (vs : List α) (e : Elem) : Prop :=
  ∃ cs o c es, e = .node K cs ∧ sigE cs = .tok osk o :: (es ++ [.tok csk c]) ∧ All2 (fun e v => P v e) es vs

def OptItems {α : Type} (K osk csk : SK) (P : α → Elem → Prop) (vs : List α) (tail : List Elem) : Prop :=
  (vs = [] ∧ tail = []) ∨ (∃ e, tail = [e] ∧ ItemsNode K osk csk P vs e)

theorem optItems_kinds {α : Type} {K osk csk : SK} {P : α → Elem → Prop} {vs : List α} {t : List Elem}
    (h : OptItems K osk csk P vs t) : t = [] ∨ ∃ c, t = [.node K c] := by
  rcases h with ⟨_, rfl⟩ | ⟨_, rfl, c, _, _, _, rfl, _⟩
  · exact Or.inl rfl
  · exact Or.inr ⟨c, rfl⟩

theorem optIvds_items {K osk csk : SK} {vs : List InputValueDef} {t : List Elem} (h : OptIvds K osk csk vs t) :
    OptItems K osk csk IvdTree vs t := h

/-- `collect_opt(x.container(), |c| c.items())` -/
theorem itemsOf_conv {α : Type} (f : (R : List Loc) → PE R → M R α) (P : α → Elem → Prop) (IK K osk csk : SK) (m : Nat)
    (hP : ∀ a e, P a e → nodeP (· == IK) e = true) (hconv : ∀ a e, P a e → size e ≤ m → ConvE f a e)
    (k : SK) (cs : List Elem) (vs : List α) (tail : List Elem) (hopt : OptItems K osk csk P vs tail)
    (hfind : (sigE cs).find? (nodeP (· == K)) = tail.head?) (hmem : ∀ e ∈ tail, e ∈ sigE cs)
    (hs : size (.node k cs) ≤ m + 1) (R : List Loc) (s : Nat) (hp : ∀ x ∈ nameRanges (.node k cs) s, x ∈ R) :
    ∃ l, (match child K (⟨(.node k cs, s), hp⟩ : PE R) with
      | some c => collectM (f R) (children IK c)
      | none => M.pure' []) = some (vs, l) := by
  rcases hopt with ⟨rfl, rfl⟩ | ⟨ea, rfl, cs', o, c, es, rfl, hsig, hall⟩
  · have := childP_none (R := R) (· == K) k cs s hp (by rw [find_nodeP_sigE]; exact hfind)
    refine ⟨[], ?_⟩
    rw [child_eq_childP, this]; rfl
  · obtain ⟨s', h', hc⟩ := childP_some (R := R) (· == K) k cs s hp _ (by rw [find_nodeP_sigE]; exact hfind)
    have hfilter : cs'.filter (nodeP (· == IK)) = es := by
      rw [filter_nodeP_sigE, hsig]
      simp [List.filter_cons, nodeP_tok, List.filter_append, all2_filter _ _ hP es vs hall]
    have hmap := childrenP_map (R := R) (· == IK) K cs' s' h'
    rw [hfilter] at hmap
    have hszs : sizeList es ≤ m := by
      have h1 := size_le_sizeList (mem_sigE (hmem (Elem.node K cs') (by simp)))
      have h2 : sizeList (sigE cs') ≤ sizeList cs' := sizeList_sigE_le cs'
      rw [hsig] at h2
      simp only [sizeList, sizeList_append, size] at h1 h2 hs
      omega
    have hconv' := all2_conv f P m hconv es vs hall hszs
    obtain ⟨l, hl⟩ := collectM_conv (R := R) f _ es vs hmap hconv'
    refine ⟨l, ?_⟩
    rw [child_eq_childP, hc]
    exact hl

/-! ### field definitions -/

/-- `FIELD_DEFINITION[Description? NAME ArgumentsDefinition? : Type Directives?]` -/
def FieldTree (f : FieldDef) (e : Elem) : Prop :=
  ∃ cs pre ta col ety td, e = .node "FIELD_DEFINITION" cs ∧ isValidName f.name = true ∧ DescPre f.desc pre ∧
    OptItems "ARGUMENTS_DEFINITION" "L_PAREN" "R_PAREN" IvdTree f.args ta ∧ TyTree f.ty ety ∧ OptDirs f.dirs td ∧
    sigE cs = pre ++ nameNode f.name :: (ta ++ .tok "COLON" col :: ety :: td)

theorem fieldTree_nodeP {f : FieldDef} {e : Elem} (h : FieldTree f e) : nodeP (· == "FIELD_DEFINITION") e = true := by
  obtain ⟨cs, _, _, _, _, _, rfl, _⟩ := h; simp [nodeP_node]

theorem cFieldDefinition_conv (n : Nat) (f : FieldDef) (e : Elem) (h : FieldTree f e) (hs : size e ≤ n + 1) :
    ConvE (fun R => @cFieldDefinition R n) f e := by
  obtain ⟨cs, pre, ta, col, ety, td, rfl, hvn, hpre, hta, hty, htd, hsig⟩ := h
  obtain ⟨desc, name, args, ty, dirs⟩ := f
  simp only at hvn hpre hta hty htd hsig
  intro R s hp
  have t1 := nodeP_ty_ne hty "DESCRIPTION" rfl
  have t2 := nodeP_ty_ne hty "NAME" rfl
  have t3 := nodeP_ty_ne hty "ARGUMENTS_DEFINITION" rfl
  have t4 := nodeP_ty_ne hty "DIRECTIVES" rfl
  have t5 := hty.nodeP
  have hfde : (sigE cs).find? (nodeP (· == "DESCRIPTION")) = pre.head? := by
    rw [hsig]
    rcases descPre_kinds hpre with rfl | ⟨c1, rfl⟩ <;> rcases optItems_kinds hta with rfl | ⟨c2, rfl⟩ <;>
      rcases optDirs_kinds htd with rfl | ⟨c3, rfl⟩ <;> find_defs
  obtain ⟨l1, hl1⟩ := descOf_conv _ cs desc pre hpre hfde R s hp
  have hfn : (sigE cs).find? (nodeP (· == "NAME")) = some (nameNode name) := by
    rw [hsig]; rcases descPre_kinds hpre with rfl | ⟨c1, rfl⟩ <;> find_defs
  obtain ⟨l2, hl2⟩ := nameOf_node _ cs name hvn hfn R s hp
  have hfa : (sigE cs).find? (nodeP (· == "ARGUMENTS_DEFINITION")) = ta.head? := by
    rw [hsig]
    rcases descPre_kinds hpre with rfl | ⟨c1, rfl⟩ <;> rcases optItems_kinds hta with rfl | ⟨c2, rfl⟩ <;>
      rcases optDirs_kinds htd with rfl | ⟨c3, rfl⟩ <;> find_defs
  obtain ⟨l3, hl3⟩ := itemsOf_conv (fun R => @cInputValueDefinition R n) IvdTree "INPUT_VALUE_DEFINITION"
    "ARGUMENTS_DEFINITION" "L_PAREN" "R_PAREN" (n + 1) (fun a e h => ivdTree_nodeP h)
    (fun a e h hsz => cInputValueDefinition_conv n a e h hsz) _ cs args ta hta hfa
    (by intro e he; rw [hsig]; simp [he]) (by omega) R s hp
  have hft : (sigE cs).find? (nodeP isTypeKind) = some ety := by
    rw [hsig]
    rcases descPre_kinds hpre with rfl | ⟨c1, rfl⟩ <;> rcases optItems_kinds hta with rfl | ⟨c2, rfl⟩ <;> find_defs <;>
      simp [isTypeKind]
  obtain ⟨l4, hl4⟩ := typeOf_conv n _ cs ty ety hty hft hs R s hp
  have hfdir : (sigE cs).find? (nodeP (· == "DIRECTIVES")) = td.head? := by
    rw [hsig]
    rcases descPre_kinds hpre with rfl | ⟨c1, rfl⟩ <;> rcases optItems_kinds hta with rfl | ⟨c2, rfl⟩ <;>
      rcases optDirs_kinds htd with rfl | ⟨c3, rfl⟩ <;> find_defs
  obtain ⟨l5, hl5⟩ := directivesOf_conv n _ cs dirs td htd hfdir (by intro e he; rw [hsig]; simp [he]) hs R s hp
  refine ⟨l1 ++ (l2 ++ (l3 ++ (l4 ++ (l5 ++ [])))), ?_⟩
  show cFieldDefinition n _ = _
  unfold cFieldDefinition inputValuesOf
  exact bind_ok hl1 (bind_ok hl2 (bind_ok hl3 (bind_ok hl4 (bind_ok hl5 (pure_ok _)))))

/-! ### enum value definitions -/

/-- `ENUM_VALUE_DEFINITION[Description? ENUM_VALUE[NAME] Directives?]` -/
def EvTree (v : EnumValueDef) (e : Elem) : Prop :=
  ∃ cs pre ecs td, e = .node "ENUM_VALUE_DEFINITION" cs ∧ isValidName v.value = true ∧ DescPre v.desc pre ∧
    OptDirs v.dirs td ∧ sigE ecs = [nameNode v.value] ∧ sigE cs = pre ++ .node "ENUM_VALUE" ecs :: td

theorem evTree_nodeP {v : EnumValueDef} {e : Elem} (h : EvTree v e) : nodeP (· == "ENUM_VALUE_DEFINITION") e = true := by
  obtain ⟨cs, _, _, _, rfl, _⟩ := h; simp [nodeP_node]

theorem cEnumValueDefinition_conv (n : Nat) (v : EnumValueDef) (e : Elem) (h : EvTree v e) (hs : size e ≤ n + 1) :
    ConvE (fun R => @cEnumValueDefinition R n) v e := by
  obtain ⟨cs, pre, ecs, td, rfl, hvn, hpre, htd, hecs, hsig⟩ := h
  obtain ⟨desc, value, dirs⟩ := v
  simp only at hvn hpre htd hecs hsig
  intro R s hp
  have hfde : (sigE cs).find? (nodeP (· == "DESCRIPTION")) = pre.head? := by
    rw [hsig]
    rcases descPre_kinds hpre with rfl | ⟨c1, rfl⟩ <;> rcases optDirs_kinds htd with rfl | ⟨c3, rfl⟩ <;> find_defs
  obtain ⟨l1, hl1⟩ := descOf_conv _ cs desc pre hpre hfde R s hp
  have hfe : cs.find? (nodeP (· == "ENUM_VALUE")) = some (.node "ENUM_VALUE" ecs) := by
    rw [find_nodeP_sigE, hsig]; rcases descPre_kinds hpre with rfl | ⟨c1, rfl⟩ <;> find_defs
  obtain ⟨s', h', hc⟩ := childP_some (R := R) (· == "ENUM_VALUE") _ cs s hp _ hfe
  obtain ⟨l2, hl2⟩ := nameOf_node "ENUM_VALUE" ecs value hvn (by rw [hecs]; rfl) R s' h'
  have hfdir : (sigE cs).find? (nodeP (· == "DIRECTIVES")) = td.head? := by
    rw [hsig]
    rcases descPre_kinds hpre with rfl | ⟨c1, rfl⟩ <;> rcases optDirs_kinds htd with rfl | ⟨c3, rfl⟩ <;> find_defs
  obtain ⟨l3, hl3⟩ := directivesOf_conv n _ cs dirs td htd hfdir (by intro e he; rw [hsig]; simp [he]) hs R s hp
  refine ⟨l1 ++ ([] ++ (l2 ++ (l3 ++ []))), ?_⟩
  show cEnumValueDefinition n _ = _
  unfold cEnumValueDefinition
  refine bind_ok hl1 ?_
  rw [child_eq_childP, hc]
  exact bind_ok rfl (bind_ok hl2 (bind_ok hl3 (pure_ok _)))

end Apollo.FromCst

namespace Apollo.Parse
open Apollo.Rowan hiding Str
open Apollo.Lex hiding Str
open Apollo.FromCst (TyTree ValTree DescPre DefaultPre OptDirs DirsNode All2 IvdTree IvdsNode OptIvds ItemsNode OptItems FieldTree EvTree)

theorem tr_peekNop {E : PState → Prop} {H : List Tok → Prop} : Tr E H peekNop (fun _ cs e => cs = [] ∧ e = []) := by
  unfold peekNop
  apply tr_peek
  intro k
  exact (tr_pure E _ ()).mono (fun _ _ => trivial) (fun _ _ _ h => h.2)

theorem tArgsDef_ne (vs : List Ast.InputValueDef) (h : vs ≠ []) :
    Ast.tArgsDef vs = .p .lParen :: Ast.tIVDItems vs ++ [.p .rParen] := by
  cases vs with
  | nil => exact absurd rfl h
  | cons a r => simp [Ast.tArgsDef]

/-! ### field definition -/

def FieldDefR (cs : List Tok) (e : List Elem) : Prop :=
  ∃ (f : Ast.FieldDef) (ef : Elem), TokIs cs (Ast.tFieldDef f) ∧ Ast.wfIVDs f.args = true ∧ dirsOk true f.dirs ∧
    e = [ef] ∧ FieldTree f ef

theorem tr_fieldDefinition {E : PState → Prop} (hE : Early E) (n : Nat) :
    Tr E (KindP isNameOrStringK) (fieldDefinition n) (fun _ => FieldDefR) := by
  rw [fieldDefinition_eq]
  have hType : Tr E (fun _ => True) (fdType n) (fun _ cs e => ∃ (t : Ast.Ty) (ety : Elem) (ds : List Ast.Directive) (td : List Elem),
      TokIs cs (Ast.tTy t ++ Ast.tDirectives ds) ∧ dirsOk true ds ∧ e = ety :: td ∧ TyTree t ety ∧ OptDirs ds td) := by
    unfold fdType
    refine tr_peekIf _ _ _ _ ?_ tr_err
    refine (tr_bind hE (tr_ty n) (fun _ => (tr_optDirectives n true peekNop (tr_peekNop (E := NoE)) (H := fun _ => True)).anyE)).mono
      (fun _ h => h) ?_
    rintro _ cs e ⟨_, c1, c2, e1, e2, rfl, rfl, ⟨t, e0, ht1, rfl, ht3⟩, ds, c3, c4, td, e4, rfl, rfl, hd1, hd2, hd3, rfl, rfl⟩
    exact ⟨t, e0, ds, td, by simpa using ht1.append hd1, hd2, by simp, ht3, hd3⟩
  have hColon : Tr E (fun _ => True) (fdColon n) (fun _ cs e => ∃ (tc : Tok) (t : Ast.Ty) (ety : Elem) (ds : List Ast.Directive)
      (td : List Elem), TokIs cs (.p .colon :: Ast.tTy t ++ Ast.tDirectives ds) ∧ dirsOk true ds ∧
        e = Elem.tok "COLON" tc.data :: ety :: td ∧ TyTree t ety ∧ OptDirs ds td) := by
    unfold fdColon
    have hb := tr_bind hE (tr_bump (E := E) "COLON" (by decide) (fun t => t.kind = .colon)
      (by intro t h; rw [h]; exact ⟨rfl, by decide⟩)) (fun _ => hType)
    refine (tr_ifKind .colon _ _ _ (hb.mono (fun q ⟨t, h1, h2⟩ => ⟨t, h1, by simpa using h2⟩) (fun _ _ _ h => h)) tr_err).mono
      (fun _ h => h) ?_
    rintro _ cs e ⟨_, c1, c2, e1, e2, rfl, rfl, ⟨tc, hk, _, rfl, rfl⟩, t, ety, ds, td, h1, h2, rfl, h4, h5⟩
    exact ⟨tc, t, ety, ds, td, TokIs.cons (by simp [astOfV, hk]) (by simpa using h1), h2, rfl, h4, h5⟩
  have hArgs := tr_optKind hE (H := fun _ => True) .lParen (argumentsDefinition n) (fdColon n) _ _ (tr_argumentsDefinition n).anyE hColon
  have hName := tr_bind hE (tr_name (E := E) (H := fun _ => True)) (fun _ => hArgs)
  have hBody := tr_optDesc hE (H := KindP isNameOrStringK) _ _ hName
  refine (tr_withNode hE "FIELD_DEFINITION" (kindP_sig _ nameOrString_sig) hBody).mono (fun _ h => h) ?_
  rintro _ cs e ⟨inner, rfl, desc, c1, c2, pre, e2, rfl, hin, hd1, hd2, _, c3, c4, e3, e4, rfl, rfl,
    ⟨tn, hkn, hvn, rfl, rfl⟩, c5, c6, e5, e6, rfl, rfl, hargs, tc, t, ety, ds, td, h1, h2, rfl, h4, h5⟩
  have hnm : TokIs [tn] [Ast.Tok.name tn.data] := TokIs.single tn _ (by simp [astOfV, hkn])
  rcases hargs with ⟨vs, ea, hne, ha1, ha2, rfl, ha4⟩ | ⟨rfl, rfl⟩
  · refine ⟨⟨desc, tn.data, vs, t, ds⟩, _, ?_, ha2, h2, rfl, inner, pre, [ea], tc.data, ety, td, rfl, hvn, hd2,
      Or.inr ⟨ea, rfl, ha4⟩, h4, h5, by rw [hin]; simp⟩
    have := hd1.append (hnm.append (ha1.append h1))
    simpa [Ast.tFieldDef, tArgsDef_ne vs hne, List.append_assoc] using this
  · refine ⟨⟨desc, tn.data, [], t, ds⟩, _, ?_, rfl, h2, rfl, inner, pre, [], tc.data, ety, td, rfl, hvn, hd2,
      Or.inl ⟨rfl, rfl⟩, h4, h5, by rw [hin]; simp⟩
    have := hd1.append (hnm.append h1)
    simpa [Ast.tFieldDef, Ast.tArgsDef, List.append_assoc] using this

theorem itemsT_fields' : ∀ (cs : List Tok) (e : List Elem), ItemsT FieldDefR cs e →
    ∃ fs : List Ast.FieldDef, TokIs cs (Ast.tFieldDefItems fs) ∧ Ast.wfFieldDefs fs = true ∧ All2 (fun e f => FieldTree f e) e fs := by
  rintro cs e ⟨items, rfl, rfl, hall⟩
  induction items with
  | nil => exact ⟨[], TokIs.nil, rfl, All2.nil⟩
  | cons i items ih =>
    obtain ⟨vs, h1, h2, h3⟩ := ih (fun j hj => hall j (List.mem_cons_of_mem _ hj))
    obtain ⟨v, ev, hv1, hv2, hv3, hv4, hv5⟩ := hall i List.mem_cons_self
    refine ⟨v :: vs, ?_, ?_, ?_⟩
    · simp only [List.map_cons, List.flatten_cons, Ast.tFieldDefItems]
      exact hv1.append h1
    · simp only [Ast.wfFieldDefs, Bool.and_eq_true]
      exact ⟨⟨hv2, wfDirs_of_dirsOk true _ hv3⟩, h2⟩
    · simp only [List.map_cons, List.flatten_cons, hv4]
      exact All2.cons hv5 h3

/-- `{ FieldDefinition+ }` under one FIELDS_DEFINITION node -/
def FieldsR (cs : List Tok) (e : List Elem) : Prop :=
  ∃ (fs : List Ast.FieldDef) (ea : Elem), fs ≠ [] ∧ TokIs cs (.p .lCurly :: Ast.tFieldDefItems fs ++ [.p .rCurly]) ∧
    Ast.wfFieldDefs fs = true ∧ e = [ea] ∧ ItemsNode "FIELDS_DEFINITION" "L_CURLY" "R_CURLY" FieldTree fs ea

theorem tr_fieldsDefinition (n : Nat) : Tr NoE (KindP (· == .lCurly)) (fieldsDefinition n) (fun _ => FieldsR) := by
  rw [fieldsDefinition_eq]
  have hb := tr_braced .lCurly "L_CURLY" .rCurly "R_CURLY" (by decide) (by decide) isNameOrString isNameOrStringK
    (fieldDefinition n) FieldDefR rfl (by decide) rfl (by decide) isNameOrString_first (tr_fieldDefinition early_atEof n)
  refine (tr_withNode early_false "FIELDS_DEFINITION" (kindP_sig _ lCurly_sig) hb).mono (fun _ h => h) ?_
  rintro _ cs e ⟨inner, rfl, to, tc, c1, ci, e1, ei, hko, hkc, rfl, hin, hq1, hit⟩
  obtain ⟨fs, h1, h2, h3⟩ := itemsT_fields' _ _ (itemsT_cons hq1 hit)
  refine ⟨fs, _, ?_, ?_, h2, rfl, inner, to.data, tc.data, e1 ++ ei, rfl, hin, h3⟩
  · rintro rfl
    obtain ⟨v, ev, _, _, _, rfl, _⟩ := hq1
    cases h3
  · have := (TokIs.cons (t := to) (x := .p .lCurly) (by simp [astOfV, hko]) h1).append
      (TokIs.single tc (.p .rCurly) (by simp [astOfV, hkc]))
    simpa using this

/-! ### enum values -/

theorem tr_enumValueG {E : PState → Prop} (hE : Early E) {H : List Tok → Prop} :
    Tr E H enumValue (fun _ cs e => ∃ (t : Tok) (inner : List Elem), t.kind = .name ∧ isValidName t.data = true ∧
      isValueKeyword t.data = false ∧ cs = [t] ∧ e = [Elem.node "ENUM_VALUE" inner] ∧ sigE inner = [nameNode t.data]) := by
  unfold enumValue
  have hbody : Tr E (fun _ => True) (peekToken >>= fun o => match o with
      | some t => if t.kind == .name then
          (if kw "true" t.data || kw "false" t.data || kw "null" t.data then err >>= fun _ => name else name)
        else err
      | none => err)
      (fun _ cs e => ∃ t : Tok, t.kind = .name ∧ isValidName t.data = true ∧ isValueKeyword t.data = false ∧ cs = [t] ∧
        e = [nameNode t.data]) := by
    apply tr_peekToken
    intro o
    cases o with
    | none => exact tr_err
    | some t' =>
      simp only []
      refine tr_ite _ (fun _ => ?_) (fun _ => tr_err)
      refine tr_ite _ (fun _ => tr_never (acc_err' name good_name)) (fun hx => ?_)
      refine (tr_nameAt (E := E) t').mono (fun _ h => h.2) ?_
      rintro _ cs e ⟨h1, h2, h3, h4⟩
      exact ⟨t', h1, h2, by simpa [isValueKeyword] using hx, h3, h4⟩
  refine (tr_withNodeAny hE "ENUM_VALUE" hbody).mono (fun _ h => h) ?_
  rintro _ cs e ⟨inner, rfl, t, h1, h2, h3, rfl, h5⟩
  exact ⟨t, inner, h1, h2, h3, rfl, rfl, h5⟩

def EvR (cs : List Tok) (e : List Elem) : Prop :=
  ∃ (v : Ast.EnumValueDef) (ev : Elem), TokIs cs (Ast.tEnumValueDef v) ∧ dirsOk true v.dirs ∧ isValueKeyword v.value = false ∧
    e = [ev] ∧ EvTree v ev

theorem tr_enumValueDefinition {E : PState → Prop} (hE : Early E) (n : Nat) :
    Tr E (KindP isNameOrStringK) (enumValueDefinition n) (fun _ => EvR) := by
  rw [enumValueDefinition_eq]
  apply tr_peek
  intro k
  refine tr_ite _ (fun _ => ?_) (fun hk => ?_)
  · have hv := tr_bind hE (tr_enumValueG hE (H := fun _ => True)) (fun _ => tr_optDirsEnd (E := E) (H := fun _ => True) n)
    have hBody := tr_optDesc hE (H := fun q => KindP isNameOrStringK q ∧ q.head?.map (·.kind) = k) _ _ hv
    unfold evBody
    refine (tr_withNode hE "ENUM_VALUE_DEFINITION" (fun q hq => kindP_sig _ nameOrString_sig q hq.1) hBody).mono (fun _ h => h) ?_
    rintro _ cs e ⟨inner, rfl, desc, c1, c2, pre, e2, rfl, hin, hd1, hd2, _, c3, c4, e3, e4, rfl, rfl,
      ⟨tn, ecs, hkn, hvn, hnk, rfl, rfl, hecs⟩, ds, h1, h2, h3⟩
    refine ⟨⟨desc, tn.data, ds⟩, _, ?_, h2, hnk, rfl, inner, pre, ecs, e4, rfl, hvn, hd2, h3, hecs, by rw [hin]; simp⟩
    have := hd1.append (TokIs.cons (t := tn) (x := .name tn.data) (by simp [astOfV, hkn]) h1)
    simpa [Ast.tEnumValueDef, List.append_assoc] using this
  · refine tr_absurd (good_pure ()) ?_
    rintro q ⟨⟨t, hh, hp⟩, h2⟩
    rw [hh] at h2
    subst h2
    simp [isNameOrString, isNameOrStringK] at hk hp
    rcases hp with hp | hp <;> simp [hp] at hk

theorem itemsT_evs : ∀ (cs : List Tok) (e : List Elem), ItemsT EvR cs e →
    ∃ vs : List Ast.EnumValueDef, TokIs cs (Ast.tEnumValueDefItems vs) ∧ Ast.wfEnumValueDefs vs = true ∧
      (∀ v ∈ vs, isValueKeyword v.value = false) ∧ All2 (fun e v => EvTree v e) e vs := by
  rintro cs e ⟨items, rfl, rfl, hall⟩
  induction items with
  | nil => exact ⟨[], TokIs.nil, rfl, (by intro v hv; cases hv), All2.nil⟩
  | cons i items ih =>
    obtain ⟨vs, h1, h2, h2', h3⟩ := ih (fun j hj => hall j (List.mem_cons_of_mem _ hj))
    obtain ⟨v, ev, hv1, hv2, hv3, hv4, hv5⟩ := hall i List.mem_cons_self
    refine ⟨v :: vs, ?_, ?_, ?_, ?_⟩
    · simp only [List.map_cons, List.flatten_cons, Ast.tEnumValueDefItems]
      exact hv1.append h1
    · simp only [Ast.wfEnumValueDefs, Bool.and_eq_true]
      exact ⟨wfDirs_of_dirsOk true _ hv2, h2⟩
    · intro b hb
      rcases List.mem_cons.mp hb with rfl | hb
      · exact hv3
      · exact h2' b hb
    · simp only [List.map_cons, List.flatten_cons, hv4]
      exact All2.cons hv5 h3

/-- `{ EnumValueDefinition+ }` under one ENUM_VALUES_DEFINITION node -/
def EvsR (cs : List Tok) (e : List Elem) : Prop :=
  ∃ (vs : List Ast.EnumValueDef) (ea : Elem), vs ≠ [] ∧ TokIs cs (.p .lCurly :: Ast.tEnumValueDefItems vs ++ [.p .rCurly]) ∧
    Ast.wfEnumValueDefs vs = true ∧ (∀ v ∈ vs, isValueKeyword v.value = false) ∧ e = [ea] ∧
    ItemsNode "ENUM_VALUES_DEFINITION" "L_CURLY" "R_CURLY" EvTree vs ea

theorem tr_enumValuesDefinition (n : Nat) : Tr NoE (KindP (· == .lCurly)) (enumValuesDefinition n) (fun _ => EvsR) := by
  rw [enumValuesDefinition_eq]
  have hb := tr_braced .lCurly "L_CURLY" .rCurly "R_CURLY" (by decide) (by decide) isNameOrString isNameOrStringK
    (enumValueDefinition n) EvR rfl (by decide) rfl (by decide) isNameOrString_first (tr_enumValueDefinition early_atEof n)
  refine (tr_withNode early_false "ENUM_VALUES_DEFINITION" (kindP_sig _ lCurly_sig) hb).mono (fun _ h => h) ?_
  rintro _ cs e ⟨inner, rfl, to, tc, c1, ci, e1, ei, hko, hkc, rfl, hin, hq1, hit⟩
  obtain ⟨vs, h1, h2, h2', h3⟩ := itemsT_evs _ _ (itemsT_cons hq1 hit)
  refine ⟨vs, _, ?_, ?_, h2, h2', rfl, inner, to.data, tc.data, e1 ++ ei, rfl, hin, h3⟩
  · rintro rfl
    obtain ⟨v, ev, _, _, _, rfl, _⟩ := hq1
    cases h3
  · have := (TokIs.cons (t := to) (x := .p .lCurly) (by simp [astOfV, hko]) h1).append
      (TokIs.single tc (.p .rCurly) (by simp [astOfV, hkc]))
    simpa using this

end Apollo.Parse
