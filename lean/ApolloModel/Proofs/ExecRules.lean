import ApolloModel.Model.ExecRules
import ApolloModel.Properties.C29
set_option linter.unusedSimpArgs false
set_option linter.unusedVariables false
namespace Apollo.ExecRules
open Apollo Apollo.Spec
open Apollo.Standalone (Arg ArgDef Diag VarDef Params uniqueArgs undefinedArgs requiredArgs varDefDiags dirDiags dirDiagsAux)

/-! ### (d) arguments — §5.4.1 Argument Names, §5.4.2 Argument Uniqueness, §5.4.2.1 Required Arguments -/

theorem uniqueArgs_nil_iff (seen : List Nat) (as : List Arg) :
    uniqueArgs seen as = [] ↔ (∀ a ∈ as, a.name ∉ seen) ∧ (as.map (·.name)).Nodup := by
  induction as generalizing seen with
  | nil => simp [uniqueArgs]
  | cons a rest ih =>
    simp only [uniqueArgs]
    by_cases h : a.name ∈ seen
    · simp [h]
    · simp only [h, if_false, ih, List.mem_cons, forall_eq_or_imp, List.map_cons, List.nodup_cons, not_false_eq_true, true_and]
      constructor
      · rintro ⟨h1, h2⟩
        refine ⟨fun x hx => (not_or.mp (h1 x hx)).2, ?_, h2⟩
        intro hm
        obtain ⟨x, hx, hxe⟩ := List.mem_map.mp hm
        exact (not_or.mp (h1 x hx)).1 hxe
      · rintro ⟨h1, h2, h3⟩
        refine ⟨fun x hx => not_or.mpr ⟨?_, h1 x hx⟩, h3⟩
        intro hxe
        exact h2 (List.mem_map.mpr ⟨x, hx, hxe⟩)

/-- §5.4.2 Argument Uniqueness: `validate_arguments` reports nothing iff no two arguments of the field
    or directive have the same name. -/
theorem argument_uniqueness_iff (as : List Arg) : uniqueArgs [] as = [] ↔ (as.map (·.name)).Nodup := by
  rw [uniqueArgs_nil_iff]; simp

/-- §5.4.1 Argument Names: no `UndefinedArgument` iff every argument is defined by the field or directive. -/
theorem argument_names_iff (defs : List ArgDef) (as : List Arg) :
    undefinedArgs defs as = [] ↔ ∀ a ∈ as, ∃ d ∈ defs, d.name = a.name := by
  simp [undefinedArgs, List.filter_eq_nil_iff]

/-- §5.4.2.1 Required Arguments: no `RequiredArgument` iff every required argument definition (non-null
    type, no default) is given a value that is not the literal `null`. -/
theorem required_arguments_iff (defs : List ArgDef) (as : List Arg) :
    requiredArgs defs as = [] ↔
      ∀ d ∈ defs, d.required = true → ∃ a, as.find? (fun a => a.name == d.name) = some a ∧ a.value.isNull = false := by
  simp only [requiredArgs, List.map_eq_nil_iff, List.filter_eq_nil_iff]
  constructor
  · intro h d hd hr
    have := h d hd
    simp only [hr, Bool.true_and] at this
    cases hf : as.find? (fun a => a.name == d.name) with
    | none => simp [hf] at this
    | some a => simp [hf] at this; exact ⟨a, rfl, this⟩
  · intro h d hd
    cases hr : d.required with
    | false => simp
    | true =>
      obtain ⟨a, ha, hn⟩ := h d hd hr
      simp [ha, hn]

/-! ### (a) variables — §5.8.1 Variable Uniqueness, §5.8.2 Variables Are Input Types -/

/-- what `validate_directives` can report -/
def Diag.isDirectiveKind : Diag → Bool
  | .uniqueArgument | .uniqueDirective | .unsupportedLocation | .undefinedArgument | .requiredArgument | .undefinedDirective => true
  | _ => false

theorem uniqueArgs_kind (seen : List Nat) (as : List Arg) : ∀ d ∈ uniqueArgs seen as, d = .uniqueArgument := by
  induction as generalizing seen with
  | nil => simp [uniqueArgs]
  | cons a rest ih =>
    simp only [uniqueArgs]
    split
    · intro d hd
      rcases List.mem_cons.mp hd with rfl | hd
      · rfl
      · exact ih _ d hd
    · exact ih _

theorem dirDiagsAux_kind (p : Params) (s : Option Standalone.Schema) (loc : Standalone.Loc) (ds : List Standalone.Dir) :
    ∀ (seen : List Nat), ∀ d ∈ dirDiagsAux p s loc seen ds, Diag.isDirectiveKind d = true := by
  induction ds with
  | nil => intro seen d hd; simp [dirDiagsAux] at hd
  | cons x rest ih =>
    intro seen d hd
    simp only [dirDiagsAux, List.mem_append] at hd
    rcases hd with ((h | h) | h) | h
    · rw [uniqueArgs_kind _ _ d h]; rfl
    · split at h
      · split at h <;> simp at h; subst h; rfl
      · simp at h
    · split at h
      · simp only [List.mem_append, undefinedArgs, requiredArgs, List.mem_map] at h
        rcases h with (h | h) | h
        · split at h <;> simp at h; subst h; rfl
        · obtain ⟨_, _, rfl⟩ := h; rfl
        · obtain ⟨_, _, rfl⟩ := h; rfl
      · split at h <;> simp at h; subst h; rfl
    · exact ih _ d h

theorem dirDiags_kind (p : Params) (s : Option Standalone.Schema) (loc : Standalone.Loc) (ds : List Standalone.Dir) :
    ∀ d ∈ dirDiags p s loc ds, Diag.isDirectiveKind d = true := dirDiagsAux_kind p s loc ds []

/-- the type check of one variable definition (the `match type_definition` of `validate_variable_definitions`) -/
def varTypeDiags (s : Option Standalone.Schema) (v : VarDef) : List Diag :=
  match s with
  | some sc =>
    (match sc.kind v.ty with
     | some .composite => [.variableInputType]
     | some _ => []
     | none => [.undefinedDefinition])
  | none => []

theorem varDefDiags_cons (p : Params) (s : Option Standalone.Schema) (seen : List Nat) (v : VarDef) (vs : List VarDef) :
    varDefDiags p s seen (v :: vs) =
      dirDiags p s .variableDefinition v.dirs ++ varTypeDiags s v ++ (if v.name ∈ seen then [.uniqueVariable] else []) ++
        varDefDiags p s (if v.name ∈ seen then seen else v.name :: seen) vs := by
  cases s <;> rfl

theorem varTypeDiags_mem (s : Option Standalone.Schema) (v : VarDef) (d : Diag) (h : d ∈ varTypeDiags s v) :
    d = .variableInputType ∨ d = .undefinedDefinition := by
  unfold varTypeDiags at h
  split at h
  · split at h <;> simp at h <;> simp [h]
  · simp at h

theorem uniqueVariable_mem_iff (p : Params) (s : Option Standalone.Schema) (vs : List VarDef) :
    ∀ (seen : List Nat), .uniqueVariable ∈ varDefDiags p s seen vs ↔
      (∃ v ∈ vs, v.name ∈ seen) ∨ ¬ (vs.map (·.name)).Nodup := by
  induction vs with
  | nil => intro seen; simp [varDefDiags]
  | cons v rest ih =>
    intro seen
    have hdir : Diag.uniqueVariable ∉ dirDiags p s .variableDefinition v.dirs := by
      intro h; have := dirDiags_kind p s _ _ _ h; simp [Diag.isDirectiveKind] at this
    have hb : Diag.uniqueVariable ∉ varTypeDiags s v := by
      intro h; rcases varTypeDiags_mem s v _ h with h | h <;> cases h
    rw [varDefDiags_cons]
    simp only [List.mem_append, hdir, hb, false_or]
    by_cases hv : v.name ∈ seen
    · simp only [hv, if_true, List.mem_singleton, true_or, true_iff]
      exact Or.inl ⟨v, by simp, hv⟩
    · simp only [hv, if_false, List.not_mem_nil, false_or, ih, List.mem_cons, List.map_cons, List.nodup_cons]
      constructor
      · rintro (⟨x, hx, hxs⟩ | h)
        · rcases hxs with hxs | hxs
          · right; intro hn; exact hn.1 (List.mem_map.mpr ⟨x, hx, hxs⟩)
          · left; exact ⟨x, Or.inr hx, hxs⟩
        · right; intro hn; exact h hn.2
      · rintro (⟨x, hx, hxs⟩ | h)
        · rcases hx with rfl | hx
          · exact absurd hxs hv
          · left; exact ⟨x, hx, Or.inr hxs⟩
        · by_cases hm : v.name ∈ rest.map (·.name)
          · obtain ⟨x, hx, hxe⟩ := List.mem_map.mp hm
            left; exact ⟨x, hx, Or.inl hxe⟩
          · right; intro hn; exact h ⟨hm, hn⟩

/-- §5.8.1 Variable Uniqueness: `UniqueVariable` is reported iff two variable definitions of the
    operation have the same name. -/
theorem variable_uniqueness_iff (p : Params) (s : Option Standalone.Schema) (vs : List VarDef) :
    .uniqueVariable ∈ varDefDiags p s [] vs ↔ ¬ (vs.map (·.name)).Nodup := by
  rw [uniqueVariable_mem_iff]; simp

/-- §5.8.2 Variables Are Input Types: `VariableInputType` (the type is an object, interface or union)
    or `UndefinedDefinition` (no such type) is reported iff some variable's named type is not a
    defined scalar, enum or input object type. -/
theorem variables_are_input_types_iff (p : Params) (sc : Standalone.Schema) (vs : List VarDef) :
    ∀ (seen : List Nat), (.variableInputType ∈ varDefDiags p (some sc) seen vs ∨ .undefinedDefinition ∈ varDefDiags p (some sc) seen vs) ↔
      ∃ v ∈ vs, sc.kind v.ty = some .composite ∨ sc.kind v.ty = none := by
  induction vs with
  | nil => intro seen; simp [varDefDiags]
  | cons v rest ih =>
    intro seen
    have hdir : ∀ d, (d = Diag.variableInputType ∨ d = .undefinedDefinition) → d ∉ dirDiags p (some sc) .variableDefinition v.dirs := by
      intro d hd h; have := dirDiags_kind p _ _ _ _ h; rcases hd with rfl | rfl <;> simp [Diag.isDirectiveKind] at this
    have hu : ∀ d, (d = Diag.variableInputType ∨ d = .undefinedDefinition) →
        d ∉ (if v.name ∈ seen then [Diag.uniqueVariable] else []) := by
      intro d hd h; split at h <;> simp at h; rcases hd with rfl | rfl <;> cases h
    rw [varDefDiags_cons]
    simp only [List.mem_append, hdir _ (Or.inl rfl), hdir _ (Or.inr rfl), hu _ (Or.inl rfl), hu _ (Or.inr rfl), false_or, or_false]
    have hty : (Diag.variableInputType ∈ varTypeDiags (some sc) v ∨ Diag.undefinedDefinition ∈ varTypeDiags (some sc) v) ↔
        (sc.kind v.ty = some .composite ∨ sc.kind v.ty = none) := by
      unfold varTypeDiags
      cases hk : sc.kind v.ty with
      | none => simp [hk]
      | some k => cases k <;> simp [hk]
    have := ih (if v.name ∈ seen then seen else v.name :: seen)
    constructor
    · rintro ((h | h) | (h | h))
      · exact ⟨v, by simp, hty.mp (Or.inl h)⟩
      · obtain ⟨x, hx, hxk⟩ := this.mp (Or.inl h); exact ⟨x, by simp [hx], hxk⟩
      · exact ⟨v, by simp, hty.mp (Or.inr h)⟩
      · obtain ⟨x, hx, hxk⟩ := this.mp (Or.inr h); exact ⟨x, by simp [hx], hxk⟩
    · rintro ⟨x, hx, hxk⟩
      rcases List.mem_cons.mp hx with rfl | hx
      · rcases hty.mpr hxk with h | h
        · exact Or.inl (Or.inl h)
        · exact Or.inr (Or.inl h)
      · rcases this.mpr ⟨x, hx, hxk⟩ with h | h
        · exact Or.inl (Or.inr h)
        · exact Or.inr (Or.inr h)


open Apollo Apollo.Spec
open Apollo.Standalone (Diag)

/-! ### §5.8.4 All Variables Used -/

/-- no `UnusedVariable` iff every variable the operation defines occurs in the operation (its
    directives and selections) or in a fragment the de-duplicated walk `reach` gets to — the walk that
    `used_fragments_iff` (C17) shows to be exactly reachability through spreads. -/
theorem all_variables_used_iff (doc : Standalone.BuiltDoc) (o : Standalone.Op) :
    Standalone.unusedVarDiags doc o = [] ↔ ∀ v ∈ o.vars, v.name ∈ Standalone.usedVars doc o := by
  simp only [Standalone.unusedVarDiags, List.map_eq_nil_iff, List.filter_eq_nil_iff]
  constructor
  · intro h v hv
    have := h v.name (by simp [List.mem_eraseDups]; exact ⟨v, hv, rfl⟩)
    simpa using this
  · intro h n hn
    obtain ⟨v, hv, rfl⟩ : ∃ v ∈ o.vars, v.name = n := by simpa [List.mem_eraseDups] using hn
    simpa using h v hv

/-! ### §5.8.5 All Variable Usages Are Allowed: the top-level position -/

theorem varValueDiags_mem (vars : List RVarDef) (ty : Ty) (kind : TKind) (n : String) (d : TDiag)
    (h : d ∈ varValueDiags vars ty kind n) :
    (d = .nestedVariableType n ∧ (vars.find? (·.name == n)).isSome) ∨ (d = .undefinedVariable n ∧ vars.find? (·.name == n) = none) := by
  unfold varValueDiags at h
  split at h
  · rename_i vd hvd
    split at h
    · simp at h
    · simp at h; exact Or.inl ⟨h, by simp [hvd]⟩
  · rename_i hvd
    simp at h; exact Or.inr ⟨h, hvd⟩

/-- an argument whose value is a variable the operation defines: `DisallowedVariableUsage` iff the
    specification's IsVariableUsageAllowed(variableDefinition, variableUsage) is false (C29
    `usage_allowed_iff` is the rule itself; here the call site) -/
theorem variable_usage_top_level_iff (s : RSchema) (vars : List RVarDef) (d : InDef) (an n : String) (vd : RVarDef)
    (hv : vars.find? (·.name == n) = some vd) :
    .disallowedVariableUsage n ∈ argDiags s vars d { name := an, value := .var n } ↔
      variableUsageAllowed (embed vd.ty) vd.default (embed d.ty) d.hasDefault = false := by
  rw [← C29.usage_allowed_iff]
  simp only [argDiags, usageFails, hv]
  cases h : Model.isVariableUsageAllowed vd.ty vd.default d.ty d.hasDefault with
  | true =>
    simp only [Bool.not_true, Bool.false_eq_true, if_false, Bool.true_eq_false, iff_false]
    intro hm
    unfold valueDiags at hm
    split at hm
    · simp at hm
    · rcases varValueDiags_mem _ _ _ _ _ hm with ⟨h1, _⟩ | ⟨h1, _⟩ <;> cases h1
  | false => simp

/-- a variable the operation does not define, given directly as an argument value whose type is known
    to the schema: exactly one `UndefinedVariable` -/
theorem undefined_variable_top_level (s : RSchema) (vars : List RVarDef) (d : InDef) (an n : String)
    (hv : vars.find? (·.name == n) = none) (k : TKind) (hk : s.kindForValue d.ty.innerNamedType = some k) :
    argDiags s vars d { name := an, value := .var n } = [.undefinedVariable n] := by
  simp only [argDiags, usageFails, hv, Bool.false_eq_true, if_false]
  unfold valueDiags
  simp [hk, varValueDiags, hv]

/-! ### §5.8.3 All Variable Uses Defined: what is reported is per operation -/

/-- a diagnostic about variable `n` respects the variable definitions in scope -/
def RespectsScope (vars : List RVarDef) : TDiag → Prop
  | .undefinedVariable n => vars.find? (·.name == n) = none
  | .disallowedVariableUsage n => (vars.find? (·.name == n)).isSome
  | .nestedVariableType n => (vars.find? (·.name == n)).isSome
  | _ => True

theorem any_false_iff_find (vars : List RVarDef) (n : String) :
    vars.any (·.name == n) = false ↔ vars.find? (·.name == n) = none := by
  induction vars with
  | nil => simp
  | cons v rest ih => by_cases h : (v.name == n) = true <;> simp [List.find?_cons, h, ih]

theorem opaqueVars_scope (vars : List RVarDef) : ∀ (k : Nat) (v : RVal), ∀ d ∈ opaqueVars vars k v, RespectsScope vars d := by
  intro k
  induction k with
  | zero => intro v d hd; simp [opaqueVars] at hd
  | succ k ih =>
    intro v d hd
    cases v with
    | var n =>
      simp only [opaqueVars] at hd
      by_cases hany : vars.any (·.name == n) = true
      · simp [hany] at hd
      · have hf : vars.any (·.name == n) = false := by simpa using hany
        simp only [hf, Bool.false_eq_true, if_false, List.mem_singleton] at hd
        subst hd
        exact (any_false_iff_find vars n).mp hf
    | list xs =>
      simp only [opaqueVars, List.mem_flatMap] at hd
      obtain ⟨x, _, hx⟩ := hd
      exact ih x d hx
    | obj kvs =>
      simp only [opaqueVars, List.mem_flatMap] at hd
      obtain ⟨x, _, hx⟩ := hd
      exact ih x.2 d hx
    | null => simp [opaqueVars] at hd
    | lit => simp [opaqueVars] at hd

theorem valueDiags_scope (s : RSchema) (vars : List RVarDef) :
    ∀ (k : Nat) (ty : Ty) (v : RVal), ∀ d ∈ valueDiags s vars k ty v, RespectsScope vars d := by
  intro k
  induction k with
  | zero => intro ty v d hd; simp [valueDiags] at hd
  | succ k ih =>
    intro ty v d hd
    unfold valueDiags at hd
    cases hkind : s.kindForValue ty.innerNamedType with
    | none => simp [hkind] at hd
    | some kind =>
      simp only [hkind] at hd
      cases v with
      | var n =>
        simp only [] at hd
        rcases varValueDiags_mem _ _ _ _ _ hd with ⟨rfl, h2⟩ | ⟨rfl, h2⟩
        · exact h2
        · exact h2
      | null => simp at hd
      | lit => simp at hd
      | list xs =>
        simp only [] at hd
        by_cases h1 : acceptsList ty kind = true
        · by_cases h0 : ty.isList = true
          · by_cases h2 : kind.isInput = true
            · simp only [h1, h0, h2, Bool.not_true, Bool.false_eq_true, if_false, if_true, List.mem_flatMap] at hd
              obtain ⟨x, _, hx⟩ := hd
              exact ih _ x d hx
            · simp [h1, h0, h2] at hd; subst hd; trivial
          · have h0' : ty.isList = false := by simpa using h0
            simp only [h1, h0', Bool.not_true, Bool.not_false, Bool.false_eq_true, if_false, if_true, List.mem_flatMap] at hd
            obtain ⟨x, _, hx⟩ := hd
            exact opaqueVars_scope vars k x d hx
        · simp [h1] at hd; subst hd; trivial
      | obj kvs =>
        simp only [] at hd
        cases kind with
        | scalar b =>
          cases b with
          | false =>
            simp only [List.mem_flatMap] at hd
            obtain ⟨x, _, hx⟩ := hd
            exact opaqueVars_scope vars k x.2 d hx
          | true => simp at hd; subst hd; trivial
        | inputObject fields =>
          simp only [List.mem_append, List.mem_flatMap] at hd
          rcases hd with hd | hd
          · unfold keyDiags at hd
            split at hd
            · simp at hd
            · simp only [List.mem_singleton] at hd; subst hd; trivial
          · obtain ⟨fd, _, hx⟩ := hd
            split at hx
            · exact ih _ _ d hx
            · simp at hx
        | enum => simp at hd; subst hd; trivial
        | object _ => simp at hd; subst hd; trivial
        | interface _ => simp at hd; subst hd; trivial
        | union _ => simp at hd; subst hd; trivial

/-- `keyDiags` is silent exactly when the object literal names only fields the input object defines, each once
    (§5.6.2 Input Object Field Names, §5.6.3 Input Object Field Uniqueness) -/
theorem keyDiags_iff (fields : List InDef) (kvs : List (String × RVal)) :
    keyDiags fields kvs = [] ↔ (kvs.map (·.1)).Nodup ∧ ∀ kv ∈ kvs, ∃ fd, fields.find? (·.name == kv.1) = some fd := by
  unfold keyDiags
  have hfind : ∀ kv : String × RVal, (fields.any (·.name == kv.1) = true) ↔ ∃ fd, fields.find? (·.name == kv.1) = some fd := by
    intro kv
    constructor
    · intro h
      cases hf : fields.find? (·.name == kv.1) with
      | some fd => exact ⟨fd, rfl⟩
      | none =>
        rw [List.find?_eq_none] at hf
        obtain ⟨x, hx, hxe⟩ := List.any_eq_true.mp h
        exact absurd hxe (hf x hx)
    · rintro ⟨fd, hf⟩
      exact List.any_eq_true.mpr ⟨fd, List.mem_of_find?_eq_some hf, by simpa using List.find?_some hf⟩
  constructor
  · intro h
    split at h
    · rename_i hc
      simp only [Bool.and_eq_true, decide_eq_true_eq, List.all_eq_true] at hc
      exact ⟨hc.1, fun kv hkv => (hfind kv).mp (hc.2 kv hkv)⟩
    · cases h
  · rintro ⟨h1, h2⟩
    have : (decide ((kvs.map (·.1)).Nodup) && kvs.all (fun kv => fields.any (·.name == kv.1))) = true := by
      simp only [Bool.and_eq_true, decide_eq_true_eq, List.all_eq_true]
      exact ⟨h1, fun kv hkv => (hfind kv).mpr (h2 kv hkv)⟩
    simp [this]

/-- what the value walk establishes about an object literal at an input-object position: when nothing is reported,
    its keys are pairwise different and all defined by the input object -/
theorem valueDiags_keys (s : RSchema) (vars : List RVarDef) (k : Nat) (ty : Ty) (fields : List InDef) (kvs : List (String × RVal))
    (hk : s.kindForValue ty.innerNamedType = some (.inputObject fields)) (h : valueDiags s vars (k + 1) ty (.obj kvs) = []) :
    (kvs.map (·.1)).Nodup ∧ ∀ kv ∈ kvs, ∃ fd, fields.find? (·.name == kv.1) = some fd := by
  unfold valueDiags at h
  simp only [hk, List.append_eq_nil_iff] at h
  exact (keyDiags_iff fields kvs).mp h.1

theorem argDiags_scope (s : RSchema) (vars : List RVarDef) (df : InDef) (a : RArg) :
    ∀ d ∈ argDiags s vars df a, RespectsScope vars d := by
  intro d hd
  unfold argDiags at hd
  split at hd
  · rename_i n hv
    split at hd
    · rename_i hfail
      simp only [List.mem_singleton] at hd
      subst hd
      simp only [RespectsScope]
      simp only [usageFails] at hfail
      cases hf : vars.find? (·.name == n) with
      | none => simp [hf] at hfail
      | some vd => rfl
    · exact valueDiags_scope s vars _ _ _ d hd
  · exact valueDiags_scope s vars _ _ _ d hd

theorem argsDiags_scope (s : RSchema) (vars : List RVarDef) (defs : List InDef) (args : List RArg) :
    ∀ d ∈ argsDiags s vars defs args, RespectsScope vars d := by
  intro d hd
  simp only [argsDiags, List.mem_flatMap] at hd
  obtain ⟨a, _, ha⟩ := hd
  split at ha
  · exact argDiags_scope s vars _ a d ha
  · simp at ha

theorem dirsDiags_scope (s : RSchema) (vars : List RVarDef) (dirs : List RDir) :
    ∀ d ∈ dirsDiags s vars dirs, RespectsScope vars d := by
  intro d hd
  simp only [dirsDiags, List.mem_flatMap] at hd
  obtain ⟨x, _, hx⟩ := hd
  split at hx
  · exact argsDiags_scope s vars _ _ d hx
  · simp at hx

theorem spreadDiags_scope (s : RSchema) (vars : List RVarDef) (a b : String) : ∀ d ∈ spreadDiags s a b, RespectsScope vars d := by
  intro d hd
  unfold spreadDiags at hd
  split at hd
  · simp at hd
  · split at hd
    · simp at hd
    · split at hd <;> simp at hd
      subst hd; trivial

theorem walkSels_scope (s : RSchema) (doc : RBuilt) (vars : List RVarDef)
    (enter : RFrag → List String → List TDiag × List String)
    (henter : ∀ f V, ∀ d ∈ (enter f V).1, RespectsScope vars d) :
    ∀ (sels : RSels) (ty : Option String) (V : List String), ∀ d ∈ (walkSels s doc vars enter ty sels V).1, RespectsScope vars d := by
  intro sels
  induction sels with
  | nil => intro ty V d hd; simp [walkSels] at hd
  | field name dirs args sub rest ihs ihr =>
    intro ty V d hd
    simp only [walkSels, List.mem_append] at hd
    rcases hd with (h | h) | h
    · exact dirsDiags_scope s vars dirs d h
    · cases ty with
      | none => exact ihs none V d h
      | some t =>
        simp only [] at h
        cases hf : s.field t name with
        | none => simp [hf] at h
        | some fd =>
          simp only [hf] at h
          split at h
          · exact argsDiags_scope s vars _ _ d h
          · simp only [List.mem_append] at h
            rcases h with h | h
            · exact argsDiags_scope s vars _ _ d h
            · exact ihs _ _ d h
    · exact ihr _ _ d h
  | spread f dirs rest ihr =>
    intro ty V d hd
    simp only [walkSels, List.mem_append] at hd
    rcases hd with (h | h) | h
    · exact dirsDiags_scope s vars dirs d h
    · cases hff : doc.findFrag f with
      | none => simp [hff] at h
      | some fr =>
        simp only [hff] at h
        have hsp : ∀ d ∈ (match ty with | some t => spreadDiags s t fr.tc | none => []), RespectsScope vars d := by
          intro d hd; cases ty with
          | none => simp at hd
          | some t => exact spreadDiags_scope s vars _ _ d hd
        split at h
        · exact hsp d h
        · simp only [List.mem_append] at h
          rcases h with h | h
          · exact hsp d h
          · exact henter _ _ d h
    · exact ihr _ _ d h
  | inline tc dirs sub rest ihs ihr =>
    intro ty V d hd
    simp only [walkSels, List.mem_append] at hd
    rcases hd with (h | h) | h
    · exact dirsDiags_scope s vars dirs d h
    · cases tc with
      | none => exact ihs _ _ d h
      | some c =>
        simp only [] at h
        split at h
        · simp at h
        · simp only [List.mem_append] at h
          rcases h with h | h
          · cases ty with
            | none => simp at h
            | some t => exact spreadDiags_scope s vars _ _ d h
          · exact ihs _ _ d h
    · exact ihr _ _ d h

theorem enterFrag_scope (s : RSchema) (doc : RBuilt) (vars : List RVarDef) :
    ∀ (n : Nat) (f : RFrag) (V : List String), ∀ d ∈ (enterFrag s doc vars n f V).1, RespectsScope vars d := by
  intro n
  induction n with
  | zero => intro f V d hd; simp [enterFrag] at hd
  | succ n ih =>
    intro f V d hd
    simp only [enterFrag] at hd
    split at hd
    · exact dirsDiags_scope s vars _ d hd
    · simp only [List.mem_append] at hd
      rcases hd with h | h
      · exact dirsDiags_scope s vars _ d h
      · exact walkSels_scope s doc vars _ ih _ _ _ d h

/-- §5.8.3, PER OPERATION: every `UndefinedVariable` reported while validating an operation — in its own
    directives and selections and in EVERY fragment definition it reaches — names a variable that THIS
    operation does not define; every `DisallowedVariableUsage` / nested type complaint names one it
    does.  (What a fragment is checked against is the variable definitions of the operation being
    validated, never another operation's: the mechanism the seeded changes C17 / C18b break.) -/
theorem operation_variables_in_scope (s : RSchema) (doc : RBuilt) (o : ROp) :
    ∀ d ∈ dirsDiags s o.vars o.dirs ++
        (walkSels s doc o.vars (enterFrag s doc o.vars doc.frags.length) (s.root o.ty) o.sels []).1,
      RespectsScope o.vars d := by
  intro d hd
  rcases List.mem_append.mp hd with h | h
  · exact dirsDiags_scope s o.vars _ d h
  · exact walkSels_scope s doc o.vars _ (enterFrag_scope s doc o.vars _) _ _ _ d h

/-! ### the known finding `nested-position`: inside a list or an input object only the NAMED type of a
variable is compared -/

/-- a defined variable inside a list literal / input-object literal is accepted iff its named type is
    the position's named type (and that type is an input type) — nullability and list wrappers are not
    compared -/
theorem nested_variable_named_type_only (vars : List RVarDef) (ty : Ty) (kind : TKind) (n : String) (vd : RVarDef)
    (hv : vars.find? (·.name == n) = some vd) :
    varValueDiags vars ty kind n = [] ↔ (kind.isInput = true ∧ vd.ty.innerNamedType = ty.innerNamedType) := by
  simp only [varValueDiags, hv]
  split <;> simp_all

/-! ### §5.5.2.3 Fragment spread is possible -/

/-- GetPossibleTypes: an object type is its own only possible type; an interface's possible types are
    the object types that declare it; a union's, its members -/
theorem possible_types_spec (s : RSchema) (t : TypeInfo) (h : s.typeInfo? t.name = some t) :
    s.possibleTypes t.name =
      (match t.kind with
       | .object _ => [t.name]
       | .interface _ => (s.types.filter fun o => match o.kind with | .object is => is.contains t.name | _ => false).map (·.name)
       | .union ms => ms
       | _ => []) := by
  obtain ⟨name, kind, fields⟩ := t
  simp only [RSchema.possibleTypes] at *
  rw [h]
  cases kind <;> simp only []
  -- interface: filterMap = filter + map
  induction s.types with
  | nil => rfl
  | cons x xs ih =>
    simp only [List.filterMap_cons, List.filter_cons]
    cases hk : x.kind with
    | object is =>
      simp only [hk]
      by_cases hc : is.contains name = true
      · simp only [hc, if_true, List.map_cons]; rw [ih]
      · simp only [hc, Bool.false_eq_true, if_false]; exact ih
    | scalar _ => simp only [hk, Bool.false_eq_true, if_false]; exact ih
    | enum => simp only [hk, Bool.false_eq_true, if_false]; exact ih
    | inputObject _ => simp only [hk, Bool.false_eq_true, if_false]; exact ih
    | interface _ => simp only [hk, Bool.false_eq_true, if_false]; exact ih
    | union _ => simp only [hk, Bool.false_eq_true, if_false]; exact ih

/-- §5.5.2.3: for a spread (named or inline) whose type condition and parent type are both defined and
    different, no `InvalidFragmentSpread` iff the two types have a possible type in common.  (A type
    condition equal to the parent type is always accepted — deliberate, as in the other
    implementations; an undefined type is reported by the type-existence rules.) -/
theorem fragment_spread_possible_iff (s : RSchema) (against tc : String) (hne : tc ≠ against)
    (h1 : (s.typeInfo? tc).isSome) (h2 : (s.typeInfo? against).isSome) :
    spreadDiags s against tc = [] ↔ ∃ t, t ∈ s.possibleTypes against ∧ t ∈ s.possibleTypes tc := by
  have e1 : (tc == against) = false := by simpa using hne
  have e2 : (s.typeInfo? tc).isNone = false := by cases h : s.typeInfo? tc <;> simp_all
  have e3 : (s.typeInfo? against).isNone = false := by cases h : s.typeInfo? against <;> simp_all
  simp only [spreadDiags, e1, e2, e3, Bool.false_eq_true, if_false, Bool.or_self]
  split
  · rename_i hany
    simp only [true_iff]
    obtain ⟨t, ht, hc⟩ := List.any_eq_true.mp hany
    exact ⟨t, ht, by simpa using hc⟩
  · rename_i hany
    simp only [List.cons_ne_nil, false_iff]
    rintro ⟨t, h1, h2⟩
    exact hany (List.any_eq_true.mpr ⟨t, h1, by simpa using h2⟩)


end Apollo.ExecRules
