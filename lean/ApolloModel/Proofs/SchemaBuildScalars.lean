import ApolloModel.Proofs.SchemaBuildSpec6
import ApolloModel.Proofs.BuiltinScalars3
/-
C15 growth 4: what the built-in scalar clause ("the type map contains exactly the referenced built-in scalars",
`C15.validated_scalars_exact`, and C16's `value_lookup_stable`) assumed about the type map — unique names, and
"a type named like a built-in scalar is the built-in definition" — is a consequence of an error-free build
(`schema_build_iff_spec`: redefining a built-in type is the error `BuiltInScalarTypeRedefinition` /
`TypeDefinitionCollision`).
-/
namespace Apollo.SchemaBuild

/-- on an error-free build the names of `schema.types` are pairwise different and every entry named like a
    built-in type is the built-in entry -/
theorem built_types_facts (ds : List Def) (hwf : WellFormed ds)
    (hb : (build (Builder.new false false) [ds]).errors = []) :
    ((build (Builder.new false false) [ds]).types.map (·.name)).Nodup ∧
    ∀ t ∈ (build (Builder.new false false) [ds]).types, t.name ∈ builtinTypeNames → t.builtin = true := by
  have hspec := (build_errors_iff_spec ds hwf).mp hb
  have he : (addDocument (Builder.new false false) ds).errors = [] := by
    have h1 : (build (Builder.new false false) [ds]).errors =
      sortBy Err.lt (finishRaw (addDocument (Builder.new false false) ds)).errors := rfl
    rw [h1, sortBy_nil_iff] at hb
    exact Classical.byContradiction fun hne =>
      (finishRaw_mono _ (addDocument_adopt ds (Builder.new false false))).ne_nil hne hb
  have hinv := (scan_spec ds hwf).2 he
  have hinv2 := scan_Inv2 ds
  have htypes : (build (Builder.new false false) [ds]).types = (addDocument (Builder.new false false) ds).types :=
    finishRaw_types _ hinv.adopt
  rw [htypes]
  refine ⟨hinv2.nodup, ?_⟩
  intro t ht hname
  rcases hinv2.flag t ht with h1 | h1
  · exact h1.1
  · exfalso
    have := hspec.uniqueTypes
    rw [List.nodup_append] at this
    exact this.2.2 _ hname _ h1.2 rfl

/-- the C16 / C15 view of the built type map: `refs` gives the named types each definition refers to -/
def scalarsView (refs : Name → List Name) (dirRefs : List Name) (ts : List TypeEntry) : Scalars.Schema :=
  { types := ts.map fun t =>
      (t.name, if t.builtin && Scalars.builtinScalars.contains t.name then Scalars.builtinDef
               else ⟨t.builtin, t.kind == Kind.scalar, refs t.name⟩),
    directiveRefs := dirRefs }

theorem builtinScalars_sub : ∀ n ∈ Scalars.builtinScalars, n ∈ builtinTypeNames := by decide

/-- **the hypotheses of the built-in scalar clause follow from the build** -/
theorem build_guarantees_scalar_hypotheses (ds : List Def) (hwf : WellFormed ds)
    (hb : (build (Builder.new false false) [ds]).errors = []) (refs : Name → List Name) (dirRefs : List Name) :
    Scalars.WellFormed (scalarsView refs dirRefs (build (Builder.new false false) [ds]).types) ∧
    ∀ e ∈ (scalarsView refs dirRefs (build (Builder.new false false) [ds]).types).types,
      Scalars.builtinScalars.contains e.1 = true → e.2.isBuiltIn = true := by
  obtain ⟨hnd, hflag⟩ := built_types_facts ds hwf hb
  have key : ∀ e ∈ (scalarsView refs dirRefs (build (Builder.new false false) [ds]).types).types,
      Scalars.builtinScalars.contains e.1 = true → e.2 = Scalars.builtinDef := by
    intro e he hc
    unfold scalarsView at he
    obtain ⟨t, ht, rfl⟩ := List.mem_map.mp he
    have hmem : t.name ∈ Scalars.builtinScalars := by simpa using hc
    have hbt := hflag t ht (builtinScalars_sub _ hmem)
    simp [hbt, hmem]
  refine ⟨⟨?_, ?_⟩, ?_⟩
  · unfold scalarsView
    simp only [List.map_map]
    exact hnd
  · intro e he _ hc; exact key e he hc
  · intro e he hc; rw [key e he hc]; rfl

end Apollo.SchemaBuild
