import ApolloModel.Proofs.ParserValue7
/-
C05 growth (values), part 8: `value`, the induction on the fuel, and `arguments`.
-/
set_option linter.unusedSimpArgs false
namespace Apollo.Parse
open Apollo.Rowan hiding Str
open Apollo.Lex hiding Str

theorem value_sound_step (n : Nat) (hl : ListSound n) (ho : ObjSound n) : ValSound (n + 1) := by
  intro c pp s s' w he h hnd
  have hnds : ¬ Doomed s := fun d => hnd ((good_value (n + 1) c pp s () s' w h).doom d)
  rw [value_succ] at h
  obtain ⟨ko, sP, hp, h2⟩ := bind_dec peek _ s s' () h
  obtain ⟨o, p, hko⟩ := peek_obs s sP ko w hp
  subst hko
  have heP : EofEnd sP := eofEnd_eat he p.eat (by intro x hx; cases hx)
  have hneP : Toks sP ≠ [] := by rw [p.toks]; exact eofEnd_nonempty s he hnds
  cases o with
  | none =>
    exfalso
    have hh := p.head
    have : Toks s = [] := by
      cases ht : Toks s with
      | nil => rfl
      | cons a b => rw [ht] at hh; cases hh
    exact eofEnd_nonempty s he hnds this
  | some t =>
    have htP : Toks sP = t :: (Toks sP).tail := by
      have := p.head; rw [← p.toks] at this; exact toks_head_cons sP t this.symm
    refine ValOk.transfer ?_ p.toks
    simp only [Option.map_some] at h2
    cases hk : t.kind <;> simp only [hk, valueBranch] at h2 <;> first
      | exact absurd (valueErr_dooms pp sP s' p.w hneP h2) hnd
      | exact variableBranch_sound c pp sP s' p.w heP t _ htP hk h2 hnd
      | exact nameValue_sound c sP s' p.w heP t _ htP hk h2 hnd
      | exact hl c sP s' t _ p.w heP htP hk h2 hnd
      | exact ho c sP s' t _ p.w heP htP hk h2 hnd
      | exact scalar_branch "INT_VALUE" "INT" c sP s' p.w heP t _ htP (by rw [hk]; rfl) (by rw [hk]; decide)
          (.int t.data) _ (by simp [astOfV, hk]) rfl rfl h2
      | exact scalar_branch "FLOAT_VALUE" "FLOAT" c sP s' p.w heP t _ htP (by rw [hk]; rfl) (by rw [hk]; decide)
          (.float t.data) _ (by simp [astOfV, hk]) rfl rfl h2
      | exact scalar_branch "STRING_VALUE" "STRING" c sP s' p.w heP t _ htP (by rw [hk]; rfl) (by rw [hk]; decide)
          (.str ((Strs.decodeStringToken t.data).getD [])) _ (by simp [astOfV, hk]) rfl rfl h2

theorem all_sound : ∀ n, ValSound n ∧ ListSound n ∧ ObjSound n ∧ FieldSound n
  | 0 => by
    refine ⟨?_, ?_, ?_, ?_⟩
    · intro c p s s' _ _ h; simp [value, PI.outOfFuel] at h
    · intro c s s' t rest _ _ _ _ h; simp [listValue, PI.outOfFuel] at h
    · intro c s s' t rest _ _ _ _ h; simp [objectValue, PI.outOfFuel] at h
    · intro c s s' t rest _ _ _ _ h; simp [objectField, PI.outOfFuel] at h
  | n + 1 => by
    obtain ⟨v, l, o, f⟩ := all_sound n
    exact ⟨value_sound_step n l o, listValue_sound n v, objectValue_sound n f, objectField_sound n v⟩

/-- **`value.rs`, acceptance is sound** -/
theorem value_sound (n : Nat) : ValSound n := (all_sound n).1

/-! ### arguments -/

theorem argumentTail_err (n : Nat) (c : Bool) (k : Option Kind) (s1 s2 : PState) (hk : k ≠ some Kind.colon) (w : TW s1)
    (hne : Toks s1 ≠ []) (h : (argumentTail n c k).run s1 = .ok () s2) : Doomed s2 := by
  unfold argumentTail at h
  have : (k == some Kind.colon) = false := by simpa using hk
  simp only [this, Bool.false_eq_true, if_false] at h
  exact (err_adv s1 s2 w h).2 hne

/-- one argument `Name : Value` -/
theorem argument_sound (n : Nat) (c : Bool) : ItemSpec AtEof .name (argument n c) (QField c) := by
  intro s s' t rest w he ht hk h hnd
  rw [argument_eq] at h
  exact namedValue_sound "ARGUMENT" c (argumentTail n c) (good_argumentTail n c)
    (fun k s1 s2 hk' w1 hne1 hr => argumentTail_err n c k s1 s2 hk' w1 hne1 hr)
    (value n c false) (by simp [argumentTail]) (good_value n c false)
    (fun s1 s2 w1 he1 _ hr hnd2 => value_sound n c false s1 s2 w1 he1 hr hnd2) s s' t rest w he ht hk h hnd

def argsOk (c : Bool) (args : List (Ast.Str × Ast.Value)) : Prop := ∀ a ∈ args, valueOk c a.2 = true

theorem args_of_items (c : Bool) : ∀ (items : List (List Ast.Tok)), (∀ x ∈ items, QField c x) →
    ∃ args, items.flatten = Ast.tArgItems args ∧ argsOk c args ∧ args.length = items.length
  | [], _ => ⟨[], rfl, (by intro a ha; cases ha), rfl⟩
  | x :: items, h => by
    obtain ⟨nm, v, hx, hv⟩ := h x (by simp)
    obtain ⟨args, ha, hok, hlen⟩ := args_of_items c items (fun y hy => h y (by simp [hy]))
    refine ⟨(nm, v) :: args, ?_, ?_, by simp [hlen]⟩
    · simp [List.flatten_cons, hx, ha, Ast.tArgItems]
    · intro a ha'
      rcases List.mem_cons.mp ha' with rfl | ha'
      · exact hv
      · exact hok a ha'

/-- **`argument.rs::arguments`**: started on `(`, an error-free run consumes exactly the tokens of a non-empty
    argument list `( Name : Value … )` -/
theorem arguments_sound (n : Nat) (c : Bool) (s s' : PState) (t : Tok) (rest : List Tok) (w : TW s) (he : EofEnd s)
    (ht : Toks s = t :: rest) (hk : t.kind = .lParen) (h : (arguments n c).run s = .ok () s') (hnd : ¬ Doomed s') :
    ∃ cs args, Toks s = cs ++ Toks s' ∧ NoEof cs ∧ EofEnd s' ∧ args ≠ [] ∧
      TokIs (sig cs) (Ast.tArguments args) ∧ argsOk c args := by
  have hni : isIgnoredKind t.kind = false := by rw [hk]; rfl
  have hne : t.kind ≠ .eof := by rw [hk]; decide
  rw [arguments_eq] at h
  obtain ⟨s1, s2, e1, h1, o2⟩ := withNode_peeked _ _ s s' () t rest w ht hni h
  have ht1 : Toks s1 = t :: rest := by have := e1.toks; rw [ht] at this; simpa using this.symm
  have hnd2 : ¬ Doomed s2 := fun d => hnd (o2.doomed.mpr d)
  obtain ⟨_, s3, h3, h4⟩ := bind_dec (bump "L_PAREN") _ s1 s2 () h1
  obtain ⟨ign, eb, hall, _⟩ := bump_spec "L_PAREN" s1 s3 e1.w t rest ht1 h3
  have he3 : EofEnd s3 := eofEnd_eat (eofEnd_eat he e1 (by intro x hx; cases hx)) eb (noEof_cons hne hall)
  obtain ⟨ko, sP, hp, h5⟩ := bind_dec peek _ s3 s2 () h4
  obtain ⟨o, p, hko⟩ := peek_obs s3 sP ko eb.w hp
  subst hko
  have heP : EofEnd sP := eofEnd_eat he3 p.eat (by intro x hx; cases hx)
  have grest := good_argumentsRest n c
  have hndP : ¬ Doomed sP := by
    intro d
    have : Good (argumentsFirst n c (o.map (·.kind))) :=
      good_ite _ _ _ (good_bind _ _ (good_argument n c) (fun _ => grest)) (good_bind _ _ good_err (fun _ => grest))
    exact hnd2 ((this sP () s2 p.w h5).doom d)
  have hneP : Toks sP ≠ [] := eofEnd_nonempty sP heP hndP
  unfold argumentsFirst at h5
  by_cases hkn : (o.map (·.kind) == some Kind.name) = true
  · simp only [hkn, if_true] at h5
    obtain ⟨ta, hoa, hka⟩ : ∃ ta, o = some ta ∧ ta.kind = .name := by
      cases o with
      | none => simp at hkn
      | some ta => exact ⟨ta, rfl, by simpa using hkn⟩
    subst hoa
    have htP : Toks sP = ta :: (Toks sP).tail := by
      have := p.head; rw [← p.toks] at this; exact toks_head_cons sP ta this.symm
    obtain ⟨_, sA, h6, h7⟩ := bind_dec (argument n c) _ sP s2 () h5
    have aA := good_argument n c sP () sA p.w h6
    have hndA : ¬ Doomed sA := fun d => hnd2 ((grest sA () s2 aA.w h7).doom d)
    obtain ⟨c1, hc1, hno1, heA, hr1⟩ := argument_sound n c sP sA ta _ p.w heP htP hka h6 hndA
    unfold argumentsRest at h7
    obtain ⟨_, sL, h8, h9⟩ := bind_dec (peekWhileKind .name (argument n c)) _ sA s2 () h7
    have aL := good_peekWhileKind _ _ (good_argument n c) sA () sL aA.w h8
    have hndL : ¬ Doomed sL := fun d => hnd2 ((good_expect _ _ sL () s2 aL.w h9).doom d)
    obtain ⟨c2, hc2, hno2, heL, hr2⟩ := peekWhileKind_sound AtEof carries_atEof .name (argument n c) (QField c) (good_argument n c)
      (argument_sound n c) sA sL aA.w heA h8 hndL
    obtain ⟨_, hex⟩ := expect_spec .rParen "R_PAREN" sL s2 aL.w h9
    rcases hex with ⟨hemp, _⟩ | hd | ⟨t2, rest2, ign2, hq, hk2, e2, hall2, _⟩
    · exact absurd hemp (eofEnd_nonempty sL heL hndL)
    · exact absurd hd hnd2
    · have hni2 : isIgnoredKind t2.kind = false := by rw [hk2]; rfl
      have hne2 : t2.kind ≠ .eof := by rw [hk2]; decide
      have notEof : ¬ AtEof sL := by
        rintro ⟨e, hh, hke⟩
        rw [hq] at hh
        simp only [List.head?_cons, Option.some.injEq] at hh
        subst hh
        rw [hk2] at hke
        cases hke
      have hitems : ∃ items : List (List Ast.Tok), TokIs (sig (c1 ++ c2)) items.flatten ∧ (∀ x ∈ items, QField c x) ∧ items ≠ [] := by
        rcases hr1 with ⟨x, hx, hqx⟩ | ha
        · rcases hr2 with ⟨items, hi, hall3⟩ | ha2
          · refine ⟨x :: items, ?_, ?_, by simp⟩
            · rw [sig_append]; simpa using hx.append hi
            · intro y hy
              rcases List.mem_cons.mp hy with rfl | hy
              · exact hqx
              · exact hall3 y hy
          · exact absurd ha2 notEof
        · exact absurd (atEof_rest sA sL c2 heA hndA ha hc2 hno2) notEof
      obtain ⟨items, hi, hall3, hnei⟩ := hitems
      obtain ⟨args, hargs, hok, hlen⟩ := args_of_items c items hall3
      have hane : args ≠ [] := by
        intro e; rw [e] at hlen; simp at hlen
        exact hnei (List.eq_nil_of_length_eq_zero hlen.symm)
      have e1P : Eat s sP (t :: ign) := by simpa using (e1.trans eb).trans p.eat
      refine ⟨(t :: ign) ++ (c1 ++ c2) ++ (t2 :: ign2), args, ?_,
        noEof_append (noEof_append (noEof_cons hne hall) (noEof_append hno1 hno2)) (noEof_cons hne2 hall2),
        eofEnd_same _ _ (eofEnd_eat heL e2 (noEof_cons hne2 hall2)) o2.current o2.lx o2.errors, hane, ?_, hok⟩
      · rw [e1P.toks, hc1, hc2, e2.toks, o2.toks]; simp [List.append_assoc]
      · rw [sig_append, sig_append, sig_cons_ignV t ign hni hall, sig_cons_ignV t2 ign2 hni2 hall2]
        rw [hargs] at hi
        have := ((TokIs.single t (.p .lParen) (by simp [astOfV, hk])).append hi).append
          (TokIs.single t2 (.p .rParen) (by simp [astOfV, hk2]))
        have hemp : args.isEmpty = false := by
          cases args with
          | nil => exact absurd rfl hane
          | cons a r => rfl
        simpa [Ast.tArguments, hemp] using this
  · exfalso
    simp only [hkn, Bool.false_eq_true, if_false] at h5
    obtain ⟨_, sE, h6, h7⟩ := bind_dec err _ sP s2 () h5
    obtain ⟨aE, dE⟩ := err_adv sP sE p.w h6
    exact hnd2 ((grest sE () s2 aE.w h7).doom (dE hneP))

end Apollo.Parse
