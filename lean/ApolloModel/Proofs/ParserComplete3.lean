import ApolloModel.Proofs.ParserComplete2
/-
C05 / C07 growth (completeness), part 3: scalar values, variables, enum values; the item loop `peek_while_kind`.
-/
set_option linter.unusedSimpArgs false
namespace Apollo.Parse
open Apollo.Rowan hiding Str
open Apollo.Lex hiding Str

theorem cmp_nodeBump (K sk : SK) : Cmp (fun _ => True) (withNode K (bump sk)) (fun _ x => ∃ a, x = [a]) (fun _ => True) (fun _ => True) :=
  cmp_withNode K (cmp_bump sk)

/-- `$ Name` -/
theorem cmp_variableNode :
    Cmp (fun _ => True) variableNode (fun _ x => ∃ n, x = [.p .dollar, .name n]) (fun _ => True) (fun _ => True) := by
  unfold variableNode
  refine cmp_withNode _ ?_
  have := cmp_bind (Hk := fun _ => True) (F := fun _ => True) (cmp_bump "DOLLAR") (fun _ _ => cmp_name)
    (fun _ _ _ _ => trivial) (fun _ _ => trivial) (fun _ _ => trivial)
  refine this.mono (fun _ h => h) ?_ (fun _ h => h) (fun _ h => h)
  rintro b x ⟨n, rfl⟩
  exact ⟨[.p .dollar], [.name n], rfl, ⟨_, rfl⟩, ⟨n, rfl⟩⟩

/-- what `peek_token` returns on a spelled queue: the first token -/
theorem peekToken_head (s s' : PState) (o : Option Tok) (t : Tok) (tl : List Tok) (w : TW s) (ht : Toks s = t :: tl)
    (h : peekToken.run s = .ok o s') : o = some t ∧ Eat s s' [] ∧ Toks s' = t :: tl := by
  have p := peekToken_obs s s' o w h
  exact ⟨by rw [p.head, ht]; rfl, p.eat, by rw [p.toks, ht]⟩

/-- `enum_value`: a Name other than `true`, `false`, `null` -/
theorem cmp_enumValue :
    Cmp (fun _ => True) enumValue (fun _ x => ∃ n, x = [.name n] ∧ isValueKeyword n = false) (fun _ => True) (fun _ => True) := by
  unfold enumValue
  refine cmp_withNode _ ?_
  intro s s' u c x q0 rest w hr hl hs ht hq hf hk
  obtain ⟨n, rfl, hnk⟩ := hl
  obtain ⟨t, i, rfl, hta, hi⟩ := spells_single hs
  have hkt : t.kind = .name := kind_of_astOfV hta
  have hd : t.data = n := by
    unfold astOfV at hta; rw [hkt] at hta; simpa using hta
  obtain ⟨o, sP, hp, h2⟩ := bind_dec peekToken _ s s' u hr
  obtain ⟨rfl, eP, htP⟩ := peekToken_head s sP o t (i ++ q0 :: rest) w (by rw [ht]; simp) hp
  have hkw : (kw "true" t.data || kw "false" t.data || kw "null" t.data) = false := by rw [hd]; exact hnk
  simp only [hkt, beq_self_eq_true, if_true, hkw, Bool.false_eq_true, if_false] at h2
  have hb : sP.recLimit - sP.recCur = s.recLimit - s.recCur := by rw [eP.recLimit, eP.recCur]
  obtain ⟨e, t2, _⟩ := cmp_name sP s' u (t :: i) [.name n] q0 rest eP.w h2 ⟨n, rfl⟩ hs (by rw [htP]; simp) hq trivial trivial
  exact ⟨by simpa using eP.trans e, t2, trivial⟩

/-- a Name token in value position: `true`, `false`, `null` or an enum value — every Name is accepted -/
theorem cmp_nameValue :
    Cmp (fun _ => True) (peekToken >>= nameValueBranch) (fun _ x => ∃ n, x = [.name n]) (fun _ => True) (fun _ => True) := by
  intro s s' u c x q0 rest w hr hl hs ht hq hf hk
  obtain ⟨n, rfl⟩ := hl
  obtain ⟨t, i, rfl, hta, hi⟩ := spells_single hs
  have hkt : t.kind = .name := kind_of_astOfV hta
  have hd : t.data = n := by
    unfold astOfV at hta; rw [hkt] at hta; simpa using hta
  obtain ⟨o, sP, hp, h2⟩ := bind_dec peekToken _ s s' u hr
  obtain ⟨rfl, eP, htP⟩ := peekToken_head s sP o t (i ++ q0 :: rest) w (by rw [ht]; simp) hp
  have hb : sP.recLimit - sP.recCur = s.recLimit - s.recCur := by rw [eP.recLimit, eP.recCur]
  have hTP : Toks sP = (t :: i) ++ q0 :: rest := by rw [htP]; simp
  simp only [nameValueBranch] at h2
  have fin : ∀ (m : PI Unit), m.run sP = .ok u s' →
      Cmp (fun _ => True) m (fun _ x => x = [.name n]) (fun _ => True) (fun _ => True) →
      Eat s s' (t :: i) ∧ Toks s' = q0 :: rest ∧ True := by
    intro m hm hc
    obtain ⟨e, t2, _⟩ := hc sP s' u (t :: i) [.name n] q0 rest eP.w hm rfl hs hTP hq trivial trivial
    exact ⟨by simpa using eP.trans e, t2, trivial⟩
  have nb : ∀ K sk, Cmp (fun _ => True) (withNode K (bump sk)) (fun _ x => x = [.name n]) (fun _ => True) (fun _ => True) :=
    fun K sk => (cmp_nodeBump K sk).mono (fun _ h => h) (fun _ x h => ⟨_, h⟩) (fun _ h => h) (fun _ h => h)
  by_cases h1 : kw "true" t.data = true
  · simp only [h1, if_true] at h2; exact fin _ h2 (nb _ _)
  · simp only [h1, Bool.false_eq_true, if_false] at h2
    by_cases h3 : kw "false" t.data = true
    · simp only [h3, if_true] at h2; exact fin _ h2 (nb _ _)
    · simp only [h3, Bool.false_eq_true, if_false] at h2
      by_cases h4 : kw "null" t.data = true
      · simp only [h4, if_true] at h2; exact fin _ h2 (nb _ _)
      · simp only [h4, Bool.false_eq_true, if_false] at h2
        refine fin _ h2 (cmp_enumValue.mono (fun _ h => h) ?_ (fun _ h => h) (fun _ h => h))
        rintro _ x rfl
        refine ⟨n, rfl, ?_⟩
        rw [← hd]
        simp [isValueKeyword, h1, h3, h4]

/-! ### the item loop -/

/-- `peek_while_kind(k, item)`: a list of items, each starting with a token of kind `k`, followed by a token of
    another kind -/
theorem cmp_kindWhileLoop (k : Kind) (item : PI Unit) (Li : Nat → List Ast.Tok → Prop) (Fi : Kind → Prop)
    (hitem : Cmp (fun _ => True) item Li Fi (fun _ => True))
    (hhead : ∀ b x, Li b x → ∃ a x', x = a :: x' ∧ kindOfA a = k) (hFk : Fi k) :
    ∀ (items : List (List Ast.Tok)) (fuel : Nat) (s s' : PState) (c : List Tok) (q0 : Tok) (rest : List Tok), TW s →
      (peekWhileKindLoop k item fuel).run s = .ok () s' → (∀ i ∈ items, Li (s.recLimit - s.recCur) i) →
      Spells c items.flatten → Toks s = c ++ q0 :: rest → Sigf q0 → q0.kind ≠ k → Fi q0.kind →
      Eat s s' c ∧ Toks s' = q0 :: rest := by
  intro items
  induction items with
  | nil =>
    intro fuel s s' c q0 rest w hr _ hs ht hq hne _
    have := spells_nil_inv (by simpa using hs)
    subst this
    cases fuel with
    | zero => simp [peekWhileKindLoop, PI.outOfFuel] at hr
    | succ fuel =>
      unfold peekWhileKindLoop at hr
      obtain ⟨ko, sP, hp, h2⟩ := bind_dec peek _ s s' () hr
      obtain ⟨rfl, eP, htP, _⟩ := peek_head s sP ko q0 rest w (by simpa using ht) hp
      have : (q0.kind != k) = true := by simpa using hne
      simp only [this, if_true] at h2
      rw [run_pure] at h2
      injection h2 with _ h2
      subst h2
      exact ⟨eP, htP⟩
  | cons it items ih =>
    intro fuel s s' c q0 rest w hr hall hs ht hq hne hfq
    obtain ⟨a, x', rfl, hka⟩ := hhead _ it (hall it (by simp))
    cases fuel with
    | zero => simp [peekWhileKindLoop, PI.outOfFuel] at hr
    | succ fuel =>
      -- split the spelling: this item, then the rest
      have hsplit : ∃ c1 c2, c = c1 ++ c2 ∧ Spells c1 (a :: x') ∧ Spells c2 items.flatten := by
        by_cases he : items.flatten = []
        · refine ⟨c, [], by simp, ?_, by rw [he]; exact spells_nil⟩
          simpa [he] using hs
        · exact spells_split (by simpa using hs) he
      obtain ⟨c1, c2, rfl, s1, s2⟩ := hsplit
      obtain ⟨t, tl, hc1, hta⟩ := spells_head s1
      unfold peekWhileKindLoop at hr
      obtain ⟨ko, sP, hp, h2⟩ := bind_dec peek _ s s' () hr
      obtain ⟨rfl, eP, htP, _⟩ := peek_head s sP ko t (tl ++ c2 ++ q0 :: rest) w (by rw [ht, hc1]; simp) hp
      have hkt : t.kind = k := by rw [kind_of_astOfV hta, hka]
      have : (t.kind != k) = false := by simp [hkt]
      simp only [this, Bool.false_eq_true, if_false] at h2
      have h3 := getCurrent_dec _ sP s' () h2
      obtain ⟨_, sB, hb, h4⟩ := bind_dec item _ sP s' () h3
      have h5 := getCurrent_dec _ sB s' () h4
      have hbud : sP.recLimit - sP.recCur = s.recLimit - s.recCur := by rw [eP.recLimit, eP.recCur]
      -- the follower of this item: the head of the remaining items, or `q0`
      obtain ⟨f, ftl, hfol, hsf, hff⟩ : ∃ f ftl, c2 ++ q0 :: rest = f :: ftl ∧ Sigf f ∧ Fi f.kind := by
        cases c2 with
        | nil => exact ⟨q0, rest, rfl, hq, hfq⟩
        | cons u v =>
          refine ⟨u, v ++ q0 :: rest, rfl, s2.2 u v rfl, ?_⟩
          -- `u` is the first token of the next item
          cases hit : items.flatten with
          | nil =>
            have := spells_nil_inv (by rw [hit] at s2; exact s2)
            cases this
          | cons a2 x2 =>
            obtain ⟨t2, tl2, hc2, hta2⟩ := spells_head (by rw [hit] at s2; exact s2)
            injection hc2 with h1 _
            subst h1
            -- the head of the flattened rest is the head of some item
            have : kindOfA a2 = k := by
              clear ih hr h2 h3 h4 h5 hb
              induction items with
              | nil => simp at hit
              | cons i0 is ih2 =>
                have hi0 := hall i0 (by simp)
                obtain ⟨a0, x0, rfl, hk0⟩ := hhead _ _ hi0
                simp at hit
                rw [← hit.1]; exact hk0
            rw [kind_of_astOfV hta2, this]; exact hFk
      obtain ⟨eB, tB, _⟩ := hitem sP sB () c1 (a :: x') f ftl eP.w hb (by rw [hbud]; exact hall _ (by simp)) s1
        (by rw [htP, hc1, ← hfol]; simp) hsf hff trivial
      by_cases hsame : (sP.current == sB.current) = true
      · simp only [hsame, if_true] at h5
        exact absurd h5 (stuck_not_ok _ _ _)
      · simp only [hsame, Bool.false_eq_true, if_false] at h5
        have hbud2 : sB.recLimit - sB.recCur = s.recLimit - s.recCur := by rw [eB.recLimit, eB.recCur, hbud]
        obtain ⟨eR, tR⟩ := ih fuel sB s' c2 q0 rest eB.w h5 (fun i hi => by rw [hbud2]; exact hall i (by simp [hi])) s2
          (by rw [tB, hfol]) hq hne hfq
        exact ⟨by simpa using (eP.trans eB).trans eR, tR⟩

end Apollo.Parse
