import ApolloModel.Proofs.Strings2
namespace Apollo.Strs

/-! ### BlockStringValue(rawValue), transcribed from the spec (October 2021 §2.9.4) -/

/-- steps 2–3: the loop that keeps the smallest indentation of the non-blank lines after the first -/
def specCommonIndent (lines : List Str) : Option Nat :=
  (lines.drop 1).foldl (fun common line =>
    let length := line.length
    let indent := countIndent line
    if indent < length then
      match common with
      | none => some indent
      | some c => if indent < c then some indent else some c
    else common) none

def dropTrailingBlank (lines : List Str) : List Str := (lines.reverse.dropWhile isBlankLine).reverse

def joinNl : List Str → Str
  | [] => []
  | [l] => l
  | l :: ls => l ++ '\n' :: joinNl ls

/-- BlockStringValue, with the lexical semantics of `\"""` applied line by line (it contains no
    line terminator and no white space, so this is the same as applying it to the raw value first) -/
def specBlockStringValue (raw : Str) : Str :=
  let lines := splitLines raw                                       -- 1
  let lines := match specCommonIndent lines with                    -- 2, 3
    | some c => stripIndent c lines                                 -- 4
    | none => lines
  let lines := lines.dropWhile isBlankLine                          -- 5
  let lines := dropTrailingBlank lines                              -- 6
  joinNl (lines.map replaceEscapedTriple)                           -- 7, 8, 9

theorem specFold_some (xs : List Nat) (c : Nat) :
    xs.foldl (fun common x => match common with | none => some x | some c => if x < c then some x else some c) (some c) =
      some (xs.foldl min c) := by
  induction xs generalizing c with
  | nil => rfl
  | cons x xs ih =>
    simp only [List.foldl_cons]
    by_cases h : x < c
    · simp only [h, if_true]; rw [ih]; congr 2; omega
    · simp only [h, if_false]; rw [ih]; congr 2; omega

theorem specCommonIndent_eq (lines : List Str) :
    specCommonIndent lines = listMin? ((lines.drop 1).filterMap fun l =>
      if countIndent l < l.length then some (countIndent l) else none) := by
  unfold specCommonIndent
  generalize lines.drop 1 = ls
  have key : ∀ (ls : List Str) (c : Option Nat),
      ls.foldl (fun common line =>
        if countIndent line < line.length then
          match common with
          | none => some (countIndent line)
          | some c => if countIndent line < c then some (countIndent line) else some c
        else common) c =
      (ls.filterMap fun l => if countIndent l < l.length then some (countIndent l) else none).foldl
        (fun common x => match common with | none => some x | some c => if x < c then some x else some c) c := by
    intro ls
    induction ls with
    | nil => intro c; rfl
    | cons l ls ih =>
      intro c
      simp only [List.foldl_cons, List.filterMap_cons]
      by_cases h : countIndent l < l.length
      · simp only [h, if_true, List.foldl_cons]; exact ih _
      · simp only [h, if_false]; exact ih _
  rw [key ls none]
  cases (ls.filterMap fun l => if countIndent l < l.length then some (countIndent l) else none) with
  | nil => rfl
  | cons x xs => simp only [List.foldl_cons, listMin?]; exact specFold_some xs x

theorem stripIndent_zero (lines : List Str) : stripIndent 0 lines = lines := by
  cases lines with
  | nil => rfl
  | cons f rest => simp [stripIndent]

theorem joinNl_snoc (xs : List Str) (l : Str) (h : xs ≠ []) : joinNl (xs ++ [l]) = joinNl xs ++ '\n' :: l := by
  induction xs with
  | nil => exact absurd rfl h
  | cons x xs ih =>
    cases xs with
    | nil => simp [joinNl]
    | cons y ys =>
      have := ih (by simp)
      simp only [List.cons_append, joinNl] at this ⊢
      rw [this]
      simp

theorem dropTrailingBlank_snoc (xs : List Str) (l : Str) :
    dropTrailingBlank (xs ++ [l]) = if isBlankLine l then dropTrailingBlank xs else xs ++ [l] := by
  unfold dropTrailingBlank
  simp only [List.reverse_append, List.reverse_cons, List.reverse_nil, List.nil_append, List.cons_append,
    List.dropWhile_cons]
  split <;> simp

/-- the truncating formatter = join of the lines without the trailing blank ones -/
theorem formatTruncate_eq (f : Str) (rest : List Str) (hf : isBlankLine f = false) :
    formatTruncate (f :: rest) = joinNl ((dropTrailingBlank (f :: rest)).map replaceEscapedTriple) := by
  unfold formatTruncate
  have key : ∀ (rest pre : List Str) (acc : Str × Nat),
      acc.1 = joinNl ((f :: pre).map replaceEscapedTriple) →
      acc.1.take acc.2 = joinNl ((dropTrailingBlank (f :: pre)).map replaceEscapedTriple) →
      acc.2 ≤ acc.1.length →
      let r := rest.foldl (fun (acc : Str × Nat) l =>
        let out := acc.1 ++ '\n' :: replaceEscapedTriple l
        (out, if !isBlankLine l then out.length else acc.2)) acc
      r.1.take r.2 = joinNl ((dropTrailingBlank (f :: (pre ++ rest))).map replaceEscapedTriple) := by
    intro rest
    induction rest with
    | nil => intro pre acc _ h2 _; simpa using h2
    | cons l rest ih =>
      intro pre acc h1 h2 h3
      simp only [List.foldl_cons]
      have hsn : f :: (pre ++ l :: rest) = f :: ((pre ++ [l]) ++ rest) := by simp
      rw [hsn]
      apply ih (pre ++ [l])
      · simp only []
        rw [h1, ← List.cons_append, List.map_append]
        simp only [List.map_cons, List.map_nil]
        rw [joinNl_snoc _ _ (by simp)]
      · simp only []
        rw [← List.cons_append, dropTrailingBlank_snoc]
        by_cases hb : isBlankLine l = true
        · simp only [hb, Bool.not_true, Bool.false_eq_true, if_false, if_true]
          rw [List.take_append_of_le_length h3]
          exact h2
        · have hb' : isBlankLine l = false := by simpa using hb
          simp only [hb', Bool.not_false, if_true, Bool.false_eq_true, if_false, List.take_length]
          rw [h1, List.map_append]
          simp only [List.map_cons, List.map_nil]
          rw [joinNl_snoc _ _ (by simp)]
      · simp only []
        split
        · exact Nat.le_refl _
        · simp only [List.length_append, List.length_cons]; omega
  have := key rest [] (replaceEscapedTriple f, (replaceEscapedTriple f).length) (by simp [joinNl])
    (by
      have : dropTrailingBlank [f] = [f] := by simp [dropTrailingBlank, hf]
      simp [this, joinNl]) (Nat.le_refl _)
  simpa using this

theorem dropWhile_head_nonblank (ls : List Str) :
    ls.dropWhile isBlankLine = [] ∨ ∃ f rest, ls.dropWhile isBlankLine = f :: rest ∧ isBlankLine f = false := by
  induction ls with
  | nil => left; rfl
  | cons l ls ih =>
    simp only [List.dropWhile_cons]
    by_cases h : isBlankLine l = true
    · simp only [h, if_true]; exact ih
    · right; simp only [h, Bool.false_eq_true, if_false]; exact ⟨l, ls, rfl, by simpa using h⟩

/-- **C06, block strings** — `unescape_block_string` computes the spec's BlockStringValue:
    common indentation of the lines after the first removed, blank leading and trailing lines
    removed, lines joined with LF, and only `\"""` unescaped — for every raw value. -/
theorem block_string_spec (raw : Str) : unescapeBlockString raw = specBlockStringValue raw := by
  unfold unescapeBlockString specBlockStringValue
  simp only [specCommonIndent_eq, commonIndent]
  generalize hls : splitLines raw = lines
  have hstrip : (match listMin? ((lines.drop 1).filterMap fun l => if countIndent l < l.length then some (countIndent l) else none) with
      | some c => stripIndent c lines
      | none => lines) =
      stripIndent ((listMin? ((lines.drop 1).filterMap fun l => if countIndent l < l.length then some (countIndent l) else none)).getD 0) lines := by
    cases listMin? ((lines.drop 1).filterMap fun l => if countIndent l < l.length then some (countIndent l) else none) with
    | none => simp [stripIndent_zero]
    | some c => rfl
  rw [hstrip]
  generalize stripIndent _ lines = stripped
  rcases dropWhile_head_nonblank stripped with h | ⟨f, rest, h, hf⟩
  · rw [h]; simp [formatTruncate, dropTrailingBlank, joinNl]
  · rw [h]; exact formatTruncate_eq f rest hf

end Apollo.Strs
