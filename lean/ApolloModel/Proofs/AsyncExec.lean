import ApolloModel.Model.AsyncExec
/-
Sequential composition makes readiness schedules unobservable: the value and the call log of the
executor do not depend on how often any resolver future or list stream is pending.
-/
namespace Apollo.Async

namespace Fut

theorem run_bind (f : Fut α) (g : α → Fut β) : run (bind f g) = run (g (run f)) := by
  induction f with
  | ready a => rfl
  | pending f ih => simpa [bind, run] using ih

theorem polls_bind (f : Fut α) (g : α → Fut β) : polls (bind f g) = polls f + polls (g (run f)) := by
  induction f with
  | ready a => simp [bind, polls, run]
  | pending f ih => simp [bind, polls, run, ih]; omega

theorem run_delay (k : Nat) (f : Fut α) : run (delay k f) = run f := by
  induction k with
  | zero => rfl
  | succ k ih => simpa [delay, run] using ih

theorem polls_delay (k : Nat) (f : Fut α) : polls (delay k f) = k + polls f := by
  induction k with
  | zero => simp [delay]
  | succ k ih => simp [delay, polls, ih]; omega

end Fut

mutual
/-- the response of a plan, written without any reference to futures or delays -/
def Plan.resp : Plan → Resp
  | .leaf v => .leaf v
  | .error => .null
  | .obj fields => .obj fields.resp
  | .list items => .list items.resp
def Fields.resp : Fields → RFields
  | .nil => .nil
  | .cons key _ p tl => .cons key p.resp tl.resp
def Items.resp : Items → RItems
  | .nil => .nil
  | .cons _ p tl => .cons p.resp tl.resp
end

theorem run_Mbind (m : M α) (g : α → M β) (log : Log) :
    Fut.run (M.bind m g log) = Fut.run (g (Fut.run (m log)).1 (Fut.run (m log)).2) := by
  simp [M.bind, Fut.run_bind]

theorem polls_Mbind (m : M α) (g : α → M β) (log : Log) :
    Fut.polls (M.bind m g log) = Fut.polls (m log) + Fut.polls (g (Fut.run (m log)).1 (Fut.run (m log)).2) := by
  simp [M.bind, Fut.polls_bind]

@[simp] theorem run_pure (a : α) (log : Log) : Fut.run (M.pure a log) = (a, log) := rfl
@[simp] theorem polls_pure (a : α) (log : Log) : Fut.polls (M.pure a log) = 0 := rfl
@[simp] theorem run_call (l : String) (log : Log) : Fut.run (M.call l log) = ((), log ++ [l]) := rfl
@[simp] theorem polls_call (l : String) (log : Log) : Fut.polls (M.call l log) = 0 := rfl
@[simp] theorem run_wait (k : Nat) (log : Log) : Fut.run (M.wait k log) = ((), log) := by
  simp [M.wait, Fut.run_delay, Fut.run]
@[simp] theorem polls_wait (k : Nat) (log : Log) : Fut.polls (M.wait k log) = k := by
  simp [M.wait, Fut.polls_delay, Fut.polls]

mutual
theorem complete_run : ∀ (path : String) (p : Plan) (log : Log),
    Fut.run (complete path p log) = (p.resp, log ++ p.calls path)
  | _, .leaf v, log => by simp [complete, Plan.resp, Plan.calls]
  | _, .error, log => by simp [complete, Plan.resp, Plan.calls]
  | path, .obj fields, log => by
    simp [complete, run_Mbind, execFields_run path fields log, Plan.resp, Plan.calls]
  | path, .list items, log => by
    simp [complete, run_Mbind, execItems_run path 0 items log, Plan.resp, Plan.calls]
theorem execFields_run : ∀ (path : String) (fields : Fields) (log : Log),
    Fut.run (execFields path fields log) = (fields.resp, log ++ fields.calls path)
  | _, .nil, log => by simp [execFields, Fields.resp, Fields.calls]
  | path, .cons key d p tl, log => by
    simp [execFields, run_Mbind, complete_run (path ++ "/" ++ key) p, execFields_run path tl, Fields.resp, Fields.calls,
      List.append_assoc]
theorem execItems_run : ∀ (path : String) (i : Nat) (items : Items) (log : Log),
    Fut.run (execItems path i items log) = (items.resp, log ++ items.calls path i)
  | _, _, .nil, log => by simp [execItems, Items.resp, Items.calls]
  | path, i, .cons d p tl, log => by
    simp [execItems, run_Mbind, complete_run (path ++ "/" ++ seg i) p, execItems_run path (i + 1) tl, Items.resp,
      Items.calls, List.append_assoc]
end

mutual
theorem complete_polls : ∀ (path : String) (p : Plan) (log : Log), Fut.polls (complete path p log) = p.delays
  | _, .leaf v, log => by simp [complete, Plan.delays]
  | _, .error, log => by simp [complete, Plan.delays]
  | path, .obj fields, log => by simp [complete, polls_Mbind, execFields_polls path fields log, Plan.delays]
  | path, .list items, log => by simp [complete, polls_Mbind, execItems_polls path 0 items log, Plan.delays]
theorem execFields_polls : ∀ (path : String) (fields : Fields) (log : Log),
    Fut.polls (execFields path fields log) = fields.delays
  | _, .nil, log => by simp [execFields, Fields.delays]
  | path, .cons key d p tl, log => by
    simp [execFields, polls_Mbind, run_Mbind, complete_polls (path ++ "/" ++ key) p, complete_run (path ++ "/" ++ key) p,
      execFields_polls path tl, Fields.delays]
    omega
theorem execItems_polls : ∀ (path : String) (i : Nat) (items : Items) (log : Log),
    Fut.polls (execItems path i items log) = items.delays
  | _, _, .nil, log => by simp [execItems, Items.delays]
  | path, i, .cons d p tl, log => by
    simp [execItems, polls_Mbind, run_Mbind, complete_polls (path ++ "/" ++ seg i) p,
      complete_run (path ++ "/" ++ seg i) p, execItems_polls path (i + 1) tl, Items.delays]
    omega
end

mutual
theorem Plan.sync_resp : ∀ p : Plan, p.sync.resp = p.resp
  | .leaf _ => rfl
  | .error => rfl
  | .obj fields => by simp [Plan.sync, Plan.resp, Fields.sync_resp fields]
  | .list items => by simp [Plan.sync, Plan.resp, Items.sync_resp items]
theorem Fields.sync_resp : ∀ f : Fields, f.sync.resp = f.resp
  | .nil => rfl
  | .cons key d p tl => by simp [Fields.sync, Fields.resp, Plan.sync_resp p, Fields.sync_resp tl]
theorem Items.sync_resp : ∀ f : Items, f.sync.resp = f.resp
  | .nil => rfl
  | .cons d p tl => by simp [Items.sync, Items.resp, Plan.sync_resp p, Items.sync_resp tl]
end

mutual
theorem Plan.sync_calls : ∀ (p : Plan) (path : String), p.sync.calls path = p.calls path
  | .leaf _, _ => rfl
  | .error, _ => rfl
  | .obj fields, path => by simp [Plan.sync, Plan.calls, Fields.sync_calls fields path]
  | .list items, path => by simp [Plan.sync, Plan.calls, Items.sync_calls items path 0]
theorem Fields.sync_calls : ∀ (f : Fields) (path : String), f.sync.calls path = f.calls path
  | .nil, _ => rfl
  | .cons key d p tl, path => by simp [Fields.sync, Fields.calls, Plan.sync_calls p, Fields.sync_calls tl]
theorem Items.sync_calls : ∀ (f : Items) (path : String) (i : Nat), f.sync.calls path i = f.calls path i
  | .nil, _, _ => rfl
  | .cons d p tl, path, i => by simp [Items.sync, Items.calls, Plan.sync_calls p, Items.sync_calls tl]
end

mutual
theorem Plan.sync_delays : ∀ p : Plan, p.sync.delays = 0
  | .leaf _ => rfl
  | .error => rfl
  | .obj fields => by simp [Plan.sync, Plan.delays, Fields.sync_delays fields]
  | .list items => by simp [Plan.sync, Plan.delays, Items.sync_delays items]
theorem Fields.sync_delays : ∀ f : Fields, f.sync.delays = 0
  | .nil => rfl
  | .cons key d p tl => by simp [Fields.sync, Fields.delays, Plan.sync_delays p, Fields.sync_delays tl]
theorem Items.sync_delays : ∀ f : Items, f.sync.delays = 0
  | .nil => rfl
  | .cons d p tl => by simp [Items.sync, Items.delays, Plan.sync_delays p, Items.sync_delays tl]
end

/-- concatenation of grouped field sets (root fields of an operation, in document order) -/
def Fields.append : Fields → Fields → Fields
  | .nil, b => b
  | .cons k d p tl, b => .cons k d p (tl.append b)

theorem Fields.calls_append (path : String) : ∀ a b : Fields, (a.append b).calls path = a.calls path ++ b.calls path
  | .nil, b => by simp [Fields.append, Fields.calls]
  | .cons k d p tl, b => by simp [Fields.append, Fields.calls, Fields.calls_append path tl b, List.append_assoc]

end Apollo.Async
