import ApolloModel.Proofs.Lexer
namespace Apollo.Lex

theorem lexAux_limit (l : Nat) : ∀ (fuel count : Nat) (src : Str), src.length < fuel → count ≤ l →
    lexAux fuel (some l) count src =
      if (lexAux fuel none count src).length ≤ l - count then lexAux fuel none count src
      else (lexAux fuel none count src).take (l - count) ++ [.limit]
  | 0, _, _, h, _ => by omega
  | fuel + 1, count, [], _, hc => by
    by_cases h : count + 1 > l
    · have : l - count = 0 := by omega
      simp [lexAux, h, this]
    · have : 1 ≤ l - count := by omega
      simp [lexAux, h, this]
  | fuel + 1, count, c :: rest, h, hc => by
    have hp := advance_progress c rest
    by_cases hl : count + 1 > l
    · have : l - count = 0 := by omega
      simp [lexAux, hl, this]
    · have ih := lexAux_limit l fuel (count + 1) (advance (c :: rest)).2
        (by simp only [List.length_cons] at h hp; omega) (by omega)
      have e : l - count = (l - (count + 1)) + 1 := by omega
      simp only [lexAux, hl, decide_false, Bool.false_eq_true, if_false, ih, e, List.length_cons,
        Nat.add_le_add_iff_right, List.take_succ_cons]
      split <;> simp

/-- With a token limit `n` the lexer yields the first `n` items of the unlimited stream followed by
    one limit error iff that stream is longer than `n`; otherwise exactly the unlimited stream. -/
theorem token_limit_exact (n : Nat) (src : Str) :
    lex (some n) src =
      if (lex none src).length ≤ n then lex none src else (lex none src).take n ++ [.limit] := by
  have h := lexAux_limit n (src.length + 1) 0 src (by omega) (by omega)
  simp only [Nat.sub_zero] at h
  unfold lex
  rw [h]

end Apollo.Lex
