import ApolloModel.Model.Coercion
import ApolloModel.Spec.Coercion
/- Helper lemmas for C28: association lists, the two loops of the coercion model. -/
namespace Apollo
open Apollo.Coercion Apollo.Spec

namespace AList
variable {α : Type}

theorem get?_insert (m : AList α) (k k' : String) (v : α) :
    get? (insert m k v) k' = if k = k' then some v else get? m k' := by
  induction m with
  | nil => simp [insert, get?]
  | cons hd tl ih =>
    obtain ⟨a, b⟩ := hd
    simp only [insert]
    by_cases h : a = k
    · subst h
      by_cases h2 : a = k' <;> simp [get?, h2]
    · by_cases h2 : k = k'
      · subst h2
        simp [get?, h, ih]
      · simp [get?, h, ih, h2]

theorem get?_isSome_iff (m : AList α) (k : String) : (get? m k).isSome = true ↔ k ∈ m.map (·.1) := by
  induction m with
  | nil => simp [get?]
  | cons hd tl ih =>
    obtain ⟨a, b⟩ := hd
    by_cases h : a = k
    · simp [get?, h]
    · have h' : ¬ k = a := fun e => h e.symm
      simp [get?, h, h', ih]

end AList

namespace Coercion
open AList

theorem items_ok (f : Json → Res Json) : ∀ xs ys, coerceItems f xs = .ok ys →
    xs.length = ys.length ∧ ∀ p, p ∈ xs.zip ys → f p.1 = .ok p.2 := by
  intro xs
  induction xs with
  | nil => intro ys h; simp [coerceItems] at h; subst h; simp
  | cons x xs ih =>
    intro ys h
    simp only [coerceItems] at h
    cases hx : f x with
    | error e => simp [hx] at h
    | ok y =>
      cases hxs : coerceItems f xs with
      | error e => simp [hx, hxs] at h
      | ok ys' =>
        simp [hx, hxs] at h
        subst h
        obtain ⟨hl, hp⟩ := ih ys' hxs
        refine ⟨by simp [hl], ?_⟩
        intro p hp'
        simp only [List.zip_cons_cons, List.mem_cons] at hp'
        rcases hp' with rfl | hp'
        · exact hx
        · exact hp p hp'

theorem items_err (f : Json → Res Json) : ∀ xs e, coerceItems f xs = .error e → ∃ x, x ∈ xs ∧ f x = .error e := by
  intro xs
  induction xs with
  | nil => intro e h; simp [coerceItems] at h
  | cons x xs ih =>
    intro e h
    simp only [coerceItems] at h
    cases hx : f x with
    | error e' =>
      simp [hx] at h
      subst h
      exact ⟨x, by simp, hx⟩
    | ok y =>
      cases hxs : coerceItems f xs with
      | error e' =>
        simp [hx, hxs] at h
        subst h
        obtain ⟨x', hm, he⟩ := ih e' hxs
        exact ⟨x', by simp [hm], he⟩
      | ok ys' => simp [hx, hxs] at h

theorem zip_exists {α β : Type} : ∀ (xs : List α) (ys : List β) (x : α), x ∈ xs → xs.length = ys.length →
    ∃ y, (x, y) ∈ xs.zip ys := by
  intro xs
  induction xs with
  | nil => intro ys x h; simp at h
  | cons a xs ih =>
    intro ys x h hl
    cases ys with
    | nil => simp at hl
    | cons b ys =>
      simp only [List.mem_cons] at h
      rcases h with rfl | h
      · exact ⟨b, by simp⟩
      · obtain ⟨y, hy⟩ := ih ys x h (by simpa using hl)
        exact ⟨y, by simp [hy]⟩

/-- what the loop did for one definition -/
def Outcome (f : Ty → Json → Res Json) (p acc : AList Json) (d : InputDef) (o : Option Json) : Prop :=
  (∀ v, get? p d.name = some v → ∃ rv, f d.ty v = .ok rv ∧ o = some rv) ∧
  (get? p d.name = none → ∀ dv, d.default = some dv → o = some dv.toJson) ∧
  (get? p d.name = none → d.default = none → d.ty.isNonNull = false ∧ o = get? acc d.name)

theorem mem_fieldNames {d : InputDef} {defs : List InputDef} (h : d ∈ defs) : d.name ∈ fieldNames defs := by
  simp only [fieldNames, List.mem_map]
  exact ⟨d, h, rfl⟩

theorem outcome_acc {f : Ty → Json → Res Json} {p acc acc' : AList Json} {d : InputDef} {o : Option Json}
    (h : Outcome f p acc' d o) (he : get? acc' d.name = get? acc d.name) : Outcome f p acc d o := by
  refine ⟨h.1, h.2.1, ?_⟩
  intro h1 h2
  rw [← he]
  exact h.2.2 h1 h2

theorem coerceDefs_ok (f : Ty → Json → Res Json) (p : AList Json) : ∀ defs acc r,
    (fieldNames defs).Nodup → coerceDefs f p defs acc = .ok r →
    (∀ k, k ∉ fieldNames defs → get? r k = get? acc k) ∧
    (∀ d, d ∈ defs → Outcome f p acc d (get? r d.name)) := by
  intro defs
  induction defs with
  | nil =>
    intro acc r _ h
    simp [coerceDefs] at h
    subst h
    simp
  | cons d rest ih =>
    intro acc r hnd h
    have hnd' : d.name ∉ fieldNames rest ∧ (fieldNames rest).Nodup := by
      simpa [fieldNames] using hnd
    have hne : ∀ d', d' ∈ rest → ¬ d.name = d'.name := by
      intro d' hd' e
      exact hnd'.1 (e ▸ mem_fieldNames hd')
    -- the generic continuation: the rest of the loop ran on `acc'`, which is `acc` with `d.name ↦ x`
    have step : ∀ x, coerceDefs f p rest (insert acc d.name x) = .ok r →
        (∀ k, k ∉ fieldNames (d :: rest) → get? r k = get? acc k) ∧
        get? r d.name = some x ∧
        (∀ d', d' ∈ rest → Outcome f p acc d' (get? r d'.name)) := by
      intro x hx
      obtain ⟨h1, h2⟩ := ih _ r hnd'.2 hx
      refine ⟨?_, ?_, ?_⟩
      · intro k hk
        have hk' : ¬ d.name = k ∧ k ∉ fieldNames rest := by
          simp only [fieldNames, List.map_cons, List.mem_cons, not_or] at hk
          exact ⟨fun e => hk.1 e.symm, hk.2⟩
        rw [h1 k hk'.2, get?_insert]
        simp [hk'.1]
      · rw [h1 d.name hnd'.1, get?_insert]
        simp
      · intro d' hd'
        refine outcome_acc (h2 d' hd') ?_
        rw [get?_insert]
        simp [hne d' hd']
    simp only [coerceDefs] at h
    cases hp : get? p d.name with
    | some v =>
      simp only [hp] at h
      cases hf : f d.ty v with
      | error e => simp [hf] at h
      | ok rv =>
        simp only [hf] at h
        obtain ⟨s1, s2, s3⟩ := step rv h
        refine ⟨s1, ?_⟩
        intro d' hd'
        simp only [List.mem_cons] at hd'
        rcases hd' with rfl | hd'
        · refine ⟨?_, ?_, ?_⟩
          · intro v' hv'
            rw [hp] at hv'
            cases hv'
            exact ⟨rv, hf, s2⟩
          · intro hn; rw [hp] at hn; cases hn
          · intro hn; rw [hp] at hn; cases hn
        · exact s3 d' hd'
    | none =>
      simp only [hp] at h
      cases hd : d.default with
      | some dv =>
        simp only [hd] at h
        obtain ⟨s1, s2, s3⟩ := step dv.toJson h
        refine ⟨s1, ?_⟩
        intro d' hd'
        simp only [List.mem_cons] at hd'
        rcases hd' with rfl | hd'
        · refine ⟨?_, ?_, ?_⟩
          · intro v' hv'; rw [hp] at hv'; cases hv'
          · intro _ dv' hdv'
            rw [hd] at hdv'
            cases hdv'
            exact s2
          · intro _ hn; rw [hd] at hn; cases hn
        · exact s3 d' hd'
      | none =>
        simp only [hd] at h
        cases hnn : d.ty.isNonNull with
        | true => simp [hnn] at h
        | false =>
          simp only [hnn] at h
          obtain ⟨h1, h2⟩ := ih acc r hnd'.2 h
          refine ⟨?_, ?_⟩
          · intro k hk
            simp only [fieldNames, List.map_cons, List.mem_cons, not_or] at hk
            exact h1 k hk.2
          · intro d' hd'
            simp only [List.mem_cons] at hd'
            rcases hd' with rfl | hd'
            · refine ⟨?_, ?_, ?_⟩
              · intro v' hv'; rw [hp] at hv'; cases hv'
              · intro _ dv' hdv'; rw [hd] at hdv'; cases hdv'
              · intro _ _
                exact ⟨hnn, h1 _ hnd'.1⟩
            · exact h2 d' hd'

/-- an error of the loop comes from one definition -/
theorem coerceDefs_err (f : Ty → Json → Res Json) (p : AList Json) : ∀ defs acc e,
    coerceDefs f p defs acc = .error e →
    ∃ d, d ∈ defs ∧
      ((∃ v, get? p d.name = some v ∧ f d.ty v = .error e) ∨
       (get? p d.name = none ∧ d.default = none ∧ d.ty.isNonNull = true ∧ e = .value)) := by
  intro defs
  induction defs with
  | nil => intro acc e h; simp [coerceDefs] at h
  | cons d rest ih =>
    intro acc e h
    have lift : ∀ acc', coerceDefs f p rest acc' = .error e →
        ∃ d', d' ∈ d :: rest ∧
          ((∃ v, get? p d'.name = some v ∧ f d'.ty v = .error e) ∨
           (get? p d'.name = none ∧ d'.default = none ∧ d'.ty.isNonNull = true ∧ e = .value)) := by
      intro acc' h'
      obtain ⟨d', hm, hd'⟩ := ih acc' e h'
      exact ⟨d', by simp [hm], hd'⟩
    simp only [coerceDefs] at h
    cases hp : get? p d.name with
    | some v =>
      simp only [hp] at h
      cases hf : f d.ty v with
      | error e' =>
        simp [hf] at h
        subst h
        exact ⟨d, by simp, Or.inl ⟨v, hp, hf⟩⟩
      | ok rv =>
        simp only [hf] at h
        exact lift _ h
    | none =>
      simp only [hp] at h
      cases hd : d.default with
      | some dv =>
        simp only [hd] at h
        exact lift _ h
      | none =>
        simp only [hd] at h
        cases hnn : d.ty.isNonNull with
        | true =>
          simp [hnn] at h
          exact ⟨d, by simp, Or.inr ⟨hp, hd, hnn, h.symm⟩⟩
        | false =>
          simp only [hnn] at h
          exact lift _ h

end Coercion
end Apollo
