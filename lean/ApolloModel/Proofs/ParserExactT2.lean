import ApolloModel.Proofs.ParserExactT1
/-
Exact soundness for the type-system family, part 2: the `peek_while` loop over items selected by their first
token, with the budget, and the braced / parenthesised non-empty lists built on it.
-/
set_option linter.unusedSimpArgs false
namespace Apollo.Parse.Exact
open Apollo.Rowan hiding Str
open Apollo.Lex hiding Str

/-- what one item of a list is required to satisfy: entered on a token of kind `p` with budget `B` -/
@[reducible] def ItemSpecP (B : Nat) (p : Kind → Bool) (item : PI Unit) (Q : List Ast.Tok → Prop) : Prop :=
  ∀ s s' t rest, TW s → EofEnd s → bud s = B → Toks s = t :: rest → p t.kind = true → item.run s = .ok () s' → ¬ Doomed s' →
    ConsE s s' Q

theorem itemsLoop_soundB (B : Nat) (p : Kind → Bool) (item : PI Unit) (Q : List Ast.Tok → Prop) (hg : Good item)
    (hitem : ItemSpecP B p item Q) : ∀ (fuel : Nat) (s s' : PState), TW s → EofEnd s → bud s = B →
      (peekWhileLoop (itemsBody p item) fuel).run s = .ok () s' → ¬ Doomed s' → ConsE s s' (ItemsR Q) := by
  intro fuel
  induction fuel with
  | zero => intro s s' _ _ _ h; simp [peekWhileLoop, PI.outOfFuel] at h
  | succ fuel ih =>
    intro s s' w he hB h hnd
    unfold peekWhileLoop at h
    obtain ⟨ko, sP, hp, h2⟩ := bind_dec peek _ s s' () h
    obtain ⟨o, p', hko⟩ := peek_obs s sP ko w hp
    subst hko
    have heP : EofEnd sP := p'.eofEnd he
    have stop : s' = sP → ConsE s s' (ItemsR Q) := by
      intro e
      rw [e]
      exact ⟨[], (by rw [p'.toks]; rfl), (by intro x hx; cases hx), heP, Or.inl ⟨[], TokIs.nil, [], rfl, (by intro i hi; cases hi)⟩⟩
    cases o with
    | none =>
      simp only [Option.map_none] at h2
      rw [run_pure] at h2
      injection h2 with _ h2
      exact stop h2.symm
    | some t =>
      simp only [Option.map_some] at h2
      have h3 := getCurrent_dec _ sP s' () h2
      obtain ⟨b, sB, hb, h4⟩ := bind_dec (itemsBody p item t.kind) _ sP s' () h3
      unfold itemsBody at hb
      by_cases hpk : p t.kind = true
      · simp only [hpk, if_true] at hb
        obtain ⟨_, sI, hi, hb2⟩ := bind_dec item _ sP sB b hb
        rw [run_pure] at hb2
        injection hb2 with hb2 hb3
        subst hb2 hb3
        simp only [if_true] at h4
        have h5 := getCurrent_dec _ sI s' () h4
        have aI := hg sP () sI p'.w hi
        by_cases hsame : (sP.current == sI.current) = true
        · simp only [hsame, if_true] at h5
          exact absurd h5 (stuck_not_ok _ _ _)
        · simp only [hsame, Bool.false_eq_true, if_false] at h5
          have hndI : ¬ Doomed sI := fun d => hnd ((good_peekWhileLoop _ (good_itemsBody p item hg) fuel sI () s' aI.w h5).doom d)
          have htP : Toks sP = t :: (Toks sP).tail := p'.head_cons
          have hBP : bud sP = B := by rw [bud_peek p', hB]
          obtain ⟨c1, t1, n1, e1, r1⟩ := hitem sP sI t _ p'.w heP hBP htP hpk hi hndI
          obtain ⟨c2, t2, n2, e2, r2⟩ := ih sI s' aI.w e1 (by rw [bud_adv aI, hBP]) h5 hnd
          refine ⟨c1 ++ c2, by rw [← p'.toks, t1, t2, List.append_assoc], noEof_append n1 n2, e2, ?_⟩
          rcases r1 with ⟨x1, hx1, hq1⟩ | ev
          · rcases r2 with ⟨x2, hx2, items, hxi, hall⟩ | ev2
            · refine Or.inl ⟨x1 ++ x2, ?_, x1 :: items, by simp [hxi], ?_⟩
              · rw [sig_append]; exact hx1.append hx2
              · intro i hi'
                rcases List.mem_cons.mp hi' with rfl | hi'
                · exact hq1
                · exact hall i hi'
            · exact Or.inr ev2
          · exact Or.inr (atEof_rest sI s' c2 e1 hndI ev t2 n2)
      · simp only [hpk, Bool.false_eq_true, if_false] at hb
        rw [run_pure] at hb
        injection hb with hb2 hb3
        subst hb2 hb3
        simp only [Bool.false_eq_true, if_false] at h4
        rw [run_pure] at h4
        injection h4 with _ h4
        exact stop h4.symm

theorem itemsWhile_soundB (B : Nat) (p : Kind → Bool) (item : PI Unit) (Q : List Ast.Tok → Prop) (hg : Good item)
    (hitem : ItemSpecP B p item Q) (s s' : PState) (w : TW s) (he : EofEnd s) (hB : bud s = B)
    (h : (peekWhile (itemsBody p item)).run s = .ok () s') (hnd : ¬ Doomed s') : ConsE s s' (ItemsR Q) := by
  unfold peekWhile at h
  obtain ⟨fuel, h5⟩ := srcLen_dec _ s s' () h
  exact itemsLoop_soundB B p item Q hg hitem _ s s' w he hB h5 hnd

/-- a closing token after a part that may have stopped at the end of input: the closing token excludes that -/
theorem ConsE.close {s s1 s2 : PState} {P : List Ast.Tok → Prop} {xc : Ast.Tok} (h1 : ConsE s s1 P) (hnd1 : ¬ Doomed s1)
    (h2 : Cons s1 s2 (fun x => x = [xc])) : Cons s s2 (fun z => ∃ x, z = x ++ [xc] ∧ P x) := by
  obtain ⟨c1, t1, n1, e1, r1⟩ := h1
  obtain ⟨c2, y, t2, n2, e2, k2, rfl⟩ := h2
  rcases r1 with ⟨x, k1, p1⟩ | ha
  · exact ⟨c1 ++ c2, x ++ [xc], by rw [t1, t2, List.append_assoc], noEof_append n1 n2, e2,
      by rw [sig_append]; exact k1.append k2, x, rfl, p1⟩
  · exfalso
    obtain ⟨e, hq, hk⟩ := atEof_single s1 e1 hnd1 ha
    have hlen := tokIs_length k2
    cases c2 with
    | nil => simp [sig] at hlen
    | cons a b =>
      rw [hq] at t2
      simp only [List.cons_append, List.cons.injEq] at t2
      have : a.kind ≠ .eof := n2 a (by simp)
      rw [← t2.1] at this
      exact this hk

/-- **a braced / parenthesised non-empty list** `open Item+ close`, every item within the budget -/
theorem braced_soundB (B : Nat) (openK : Kind) (openSk : SK) (xo : Ast.Tok) (closeK : Kind) (closeSk : SK) (xc : Ast.Tok)
    (first : Option Kind → Bool) (p : Kind → Bool) (item : PI Unit) (Q : List Ast.Tok → Prop)
    (hxo : ∀ t : Tok, t.kind = openK → astOfV t = some xo) (hnio : isIgnoredKind openK = false) (hneo : openK ≠ .eof)
    (hxc : ∀ t : Tok, t.kind = closeK → astOfV t = some xc) (hnic : isIgnoredKind closeK = false) (hnec : closeK ≠ .eof)
    (hfirst : ∀ k, first k = true → ∃ kk, k = some kk ∧ p kk = true)
    (hg : Good item) (hitem : ItemSpecP B p item Q)
    (s s' : PState) (t : Tok) (rest : List Tok) (w : TW s) (he : EofEnd s) (hB : bud s = B) (ht : Toks s = t :: rest)
    (hk : t.kind = openK) (h : (bracedBody openSk first p item closeK closeSk).run s = .ok () s') (hnd : ¬ Doomed s') :
    Cons s s' (BracedR xo xc Q) := by
  have hni : isIgnoredKind t.kind = false := by rw [hk]; exact hnio
  have hne : t.kind ≠ .eof := by rw [hk]; exact hneo
  have gtail : Good (bracedTail p item closeK closeSk) :=
    good_bind _ _ (good_peekWhile _ (good_itemsBody p item hg)) (fun _ => good_expect _ _)
  unfold bracedBody at h
  obtain ⟨_, s1, h1, h2⟩ := bind_dec (bump openSk) _ s s' () h
  obtain ⟨ign, eb, hall, _⟩ := bump_spec openSk s s1 w t rest ht h1
  have c0 : Cons s s1 (fun x => x = [xo]) :=
    Cons.ofEat eb he (noEof_cons hne hall) (by rw [sig_cons_ignV t ign hni hall]; exact TokIs.single t xo (hxo t hk))
  have he1 := c0.eofEnd
  obtain ⟨ko, sP, hp, h3⟩ := bind_dec peek _ s1 s' () h2
  obtain ⟨o, pp, hko⟩ := peek_obs s1 sP ko eb.w hp
  subst hko
  have heP : EofEnd sP := pp.eofEnd he1
  have hBP : bud sP = B := by rw [bud_peek pp, bud_eat eb, hB]
  by_cases hf : first (o.map (·.kind)) = true
  · simp only [hf, if_true] at h3
    obtain ⟨kk, hkk, hpk⟩ := hfirst _ hf
    obtain ⟨t2, rfl, hk2⟩ : ∃ t2, o = some t2 ∧ t2.kind = kk := by
      cases o with
      | none => cases hkk
      | some t2 => exact ⟨t2, rfl, by simpa using hkk⟩
    obtain ⟨_, sI, hi, h4⟩ := bind_dec item _ sP s' () h3
    have aI := hg sP () sI pp.w hi
    have hndI : ¬ Doomed sI := fun d => hnd ((gtail sI () s' aI.w h4).doom d)
    have cI := hitem sP sI t2 _ pp.w heP hBP pp.head_cons (by rw [hk2]; exact hpk) hi hndI
    have heI : EofEnd sI := by obtain ⟨_, _, _, e, _⟩ := cI; exact e
    unfold bracedTail at h4
    obtain ⟨_, sW, hw, h5⟩ := bind_dec (peekWhile (itemsBody p item)) _ sI s' () h4
    have aW := good_peekWhile _ (good_itemsBody p item hg) sI () sW aI.w hw
    have hndW : ¬ Doomed sW := fun d => hnd ((good_expect closeK closeSk sW () s' aW.w h5).doom d)
    have cW := itemsWhile_soundB B p item Q hg hitem sI sW aI.w heI (by rw [bud_adv aI, hBP]) hw hndW
    have heW : EofEnd sW := by obtain ⟨_, _, _, e, _⟩ := cW; exact e
    have cC := cons_of_acc (acc_expect (E := fun _ => False) (H := fun _ => True) closeK closeSk xc hxc hnic hnec) sW s' () aW.w heW trivial h5 hnd
    -- items, then the closing token
    have cIW : ConsE sP sW (fun z => ∃ x y, z = x ++ y ∧ Q x ∧ ItemsR Q y) := by
      obtain ⟨c1, t1, n1, e1, r1⟩ := cI
      obtain ⟨c2, t2', n2, e2, r2⟩ := cW
      refine ⟨c1 ++ c2, by rw [t1, t2', List.append_assoc], noEof_append n1 n2, e2, ?_⟩
      rcases r1 with ⟨x, k1, p1⟩ | ha
      · rcases r2 with ⟨y, k2', p2⟩ | ha2
        · exact Or.inl ⟨x ++ y, by rw [sig_append]; exact k1.append k2', x, y, rfl, p1, p2⟩
        · exact Or.inr ha2
      · exact Or.inr (atEof_rest sI sW c2 e1 hndI ha t2' n2)
    have cAll := (cIW.close hndW cC).transport pp.toks.symm rfl cC.eofEnd
    exact (c0.seq cAll).weaken (by
      rintro z ⟨x0, y0, rfl, rfl, x, rfl, x1, x2, rfl, hq1, items, rfl, hall'⟩
      refine ⟨x1 :: items, by simp, by simp, ?_⟩
      intro i hi'
      rcases List.mem_cons.mp hi' with rfl | hi'
      · exact hq1
      · exact hall' i hi')
  · exfalso
    simp only [hf, Bool.false_eq_true, if_false] at h3
    obtain ⟨_, sE, h6, h7⟩ := bind_dec err _ sP s' () h3
    obtain ⟨aE, dE⟩ := err_adv sP sE pp.w h6
    have hndP : ¬ Doomed sP := fun d => hnd ((gtail sE () s' aE.w h7).doom (aE.doom d))
    exact hnd ((gtail sE () s' aE.w h7).doom (dE (eofEnd_nonempty sP heP hndP)))

end Apollo.Parse.Exact
