import ApolloModel.Proofs.ParserRecursion12
/-
C04 growth (recursion limit across runs), part 14: the remaining primitives and loops of parser/mod.rs
(`checkpoint`/`wrap_node`, `pop` of ty.rs, `peek_data`, `parse_separated_list`, the recursion assertion of
`document()`, `peek_while`, `peek_while_kind` with a flag) and `ty.rs`.
-/
set_option linter.unusedSimpArgs false
set_option linter.unusedVariables false
namespace Apollo.Parse
open Apollo.Rowan hiding Str
open Apollo.Lex hiding Str

theorem plain_popDrop : Plain popDrop := by
  refine ⟨?_, ?_⟩
  · intro s L
    unfold popDrop
    simp only []
    have hc : (setL L s).current = s.current := rfl
    rw [hc]
    cases s.current <;> rfl
  · intro s o s' h
    unfold popDrop at h
    simp only [] at h
    cases hc : s.current with
    | none =>
      simp only [hc] at h; injection h with _ h; subst h
      exact ⟨rfl, rfl, rfl, fun h => h, fun g => ⟨g.lim, g.acc, fun hf t ht => g.nf hf t (by rw [hc] at *; exact ht)⟩⟩
    | some t =>
      simp only [hc] at h; injection h with _ h; subst h
      exact ⟨rfl, rfl, rfl, fun h => h, fun g => ⟨g.lim, g.acc, fun _ t' ht => by cases ht⟩⟩

theorem plain_peekData : Plain peekData := plain_bind _ _ plain_peekToken (fun _ => plain_pure _)

theorem plain_peekDataN (n : Nat) : Plain (peekDataN n) := plain_bind _ _ (plain_peekTokenN n) (fun _ => plain_pure _)

theorem plain_assertRecZero : Plain assertRecZero := by
  refine ⟨?_, ?_⟩
  · intro s L; rfl
  · intro s a s' h
    unfold assertRecZero at h
    simp only [] at h
    injection h with _ h
    subst h
    exact ⟨rfl, rfl, rfl, fun h => h, fun g => ⟨g.lim, g.acc, g.nf⟩⟩

theorem xg_peekWhile (body : Kind → PI Bool) (hb : ∀ k, XG (body k)) : XG (peekWhile body) :=
  xg_bind _ _ (xg_of_plain plain_srcLen) (fun _ =>
    ⟨xc_peekWhileLoop _ (fun k => xc_weaken (hb k).x) (fun k => (hb k).b) _, bg_peekWhileLoop _ (fun k => (hb k).b) _⟩)

theorem xg_parseSeparatedList (sep : Kind) (syn : SK) (run : PI Unit) (hr : XG run) : XG (parseSeparatedList sep syn run) := by
  unfold parseSeparatedList
  have rest : XG (run >>= fun _ => peekWhileKind sep (bump syn >>= fun _ => run)) :=
    xg_bind _ _ hr (fun _ => xg_peekWhileKind _ _ (xg_bind _ _ (xg_bump _) (fun _ => hr)))
  refine xg_bind _ _ xg_peek (fun k => ?_)
  by_cases hc : (k == some sep) = true
  · simp only [hc, if_true]; exact xg_bind _ _ (xg_bump _) (fun _ => rest)
  · simp only [hc, Bool.false_eq_true, if_false]; exact rest

theorem xg_peekWhileKindFlagLoop (k : Kind) (body : PI Unit) (hb : XG body) :
    ∀ fuel flag, XG (peekWhileKindFlagLoop k body fuel flag)
  | 0, _ => xg_of_plain plain_outOfFuel
  | fuel + 1, flag => by
    unfold peekWhileKindFlagLoop
    refine xg_bind _ _ xg_peek ?_
    intro o
    cases o with
    | none => exact xg_pure _
    | some kind =>
      refine xg_ite _ _ _ (xg_pure _) ?_
      refine xg_bind _ _ (xg_of_plain plain_getCurrent) (fun before => xg_bind _ _ hb (fun _ => xg_bind _ _ (xg_of_plain plain_getCurrent) (fun after => ?_)))
      exact xg_ite _ _ _ (xg_of_plain plain_stuck) (xg_peekWhileKindFlagLoop k body hb fuel true)

/-! ### checkpoint … `wrap_node` -/

def wiPre (s : PState) : PState :=
  { s with builder := { s.builder with children := s.builder.children ++ s.pending.map pendingElem }, pending := [] }

theorem wrapIf_run {α : Type} (kind : SK) (body : PI α) (cond : α → PI Bool) (inner : PI Unit) (s : PState) :
    (wrapIf kind body cond inner).run s =
      match (body >>= fun a => cond a >>= fun c => pure (a, c)).run (wiPre s) with
      | .ok (a, c) s2 =>
        if c then
          match s2.builder.startNodeAt (wiPre s).builder.checkpoint kind with
          | none => .panic "start_node_at: checkpoint no longer valid"
          | some b =>
            match inner.run { s2 with builder := b } with
            | .ok _ s3 =>
              match s3.builder.finishNode with
              | some b' => .ok a { s3 with builder := b' }
              | none => .panic "finish_node: no open node"
            | .abort w => .abort w
            | .panic m => .panic m
        else .ok a s2
      | .abort w => .abort w
      | .panic m => .panic m := rfl

theorem bg_wrapIf {α : Type} (kind : SK) (body : PI α) (cond : α → PI Bool) (inner : PI Unit)
    (hb : BG body) (hc : ∀ a, BG (cond a)) (hi : BG inner) : BG (wrapIf kind body cond inner) := by
  intro s a s' hcur h
  obtain ⟨s1, s2, s3, c, o1, h1, h2, hrest⟩ := wrapIf_decS kind body cond inner s s' a h
  have sameB : ∀ {x y : PState}, Same x y → Bnd x y := fun {x y} o =>
    ⟨by rw [o.recHigh]; exact Nat.le_refl _, by rw [o.recHigh]; omega, by rw [o.errors]; exact fun h => h, o.recCur, o.recLimit,
     fun g => ⟨by rw [o.lx]; exact g.lim, by rw [o.accept, o.errors]; exact g.acc, by rw [o.lx, o.current]; exact g.nf⟩⟩
  have b1 := sameB o1
  have b2 := hb s1 a s2 (by rw [b1.recCur, b1.recLimit]; exact hcur) h1
  have b12 := b1.trans b2
  have b3 := hc a s2 c s3 (by rw [b12.recCur, b12.recLimit]; exact hcur) h2
  have b13 := b12.trans b3
  rcases hrest with ⟨_, rfl⟩ | ⟨_, s4, s5, o4, h5, o5⟩
  · exact b13
  · have b4 := b13.trans (sameB o4)
    have b5 := hi s4 () s5 (by rw [b4.recCur, b4.recLimit]; exact hcur) h5
    exact (b4.trans b5).trans (sameB o5)

theorem xc_wrapIf {α : Type} {c : Option Tok → Prop} (kind : SK) (body : PI α) (cond : α → PI Bool) (inner : PI Unit)
    (xb : XC c body) (bb : BG body) (hc : ∀ a, XG (cond a)) (hi : XG inner) : XC c (wrapIf kind body cond inner) := by
  have hM : XC c (body >>= fun a => cond a >>= fun cc => (pure (a, cc) : PI (α × Bool))) :=
    xc_bind (c' := fun _ _ => True) _ _ xb bb (post_trivial _ _)
      (fun a => xc_weaken (xg_bind _ _ (hc a) (fun cc => xg_pure _)).x) (fun a => (xg_bind _ _ (hc a) (fun cc => xg_pure _)).b)
  intro s r R ar aR sr sR hrR hcur hh g hcs hr hR
  rw [wrapIf_run] at hr hR
  have e1 : wiPre (setL r s) = setL r (wiPre s) := rfl
  have e2 : wiPre (setL R s) = setL R (wiPre s) := rfl
  rw [e1] at hr
  rw [e2] at hR
  have gp : GI (wiPre s) := ⟨g.lim, g.acc, g.nf⟩
  cases h1 : (body >>= fun a => cond a >>= fun cc => (pure (a, cc) : PI (α × Bool))).run (setL r (wiPre s)) with
  | abort w => rw [h1] at hr; cases hr
  | panic m => rw [h1] at hr; cases hr
  | ok ac s2 =>
    cases h2 : (body >>= fun a => cond a >>= fun cc => (pure (a, cc) : PI (α × Bool))).run (setL R (wiPre s)) with
    | abort w => rw [h2] at hR; cases hR
    | panic m => rw [h2] at hR; cases hR
    | ok acR s2R =>
      rw [h1] at hr
      rw [h2] at hR
      obtain ⟨a1, c1⟩ := ac
      obtain ⟨a1R, c1R⟩ := acR
      simp only [] at hr hR
      -- bounds for the unlimited side: the high-water mark only grows
      have bM : BG (body >>= fun a => cond a >>= fun cc => (pure (a, cc) : PI (α × Bool))) :=
        bg_bind _ _ bb (fun a => (xg_bind _ _ (hc a) (fun cc => xg_pure _)).b)
      have bMR := bM _ _ s2R (by simp only [setL, wiPre]; omega) h2
      have bMr := bM _ _ s2 (by simpa [setL, wiPre] using hcur) h1
      -- what the R-run does after the pair
      have tailR : s2R.recHigh ≤ sR.recHigh ∧ (c1R = false → sR = s2R ∧ aR = a1R) := by
        cases c1R with
        | false =>
          simp only [Bool.false_eq_true, if_false] at hR
          injection hR with q1 q2
          subst q1 q2
          exact ⟨Nat.le_refl _, fun _ => ⟨rfl, rfl⟩⟩
        | true =>
          simp only [if_true] at hR
          refine ⟨?_, fun h => by cases h⟩
          split at hR
          · cases hR
          · rename_i b hsn
            split at hR
            · rename_i u s3 hin
              split at hR
              · rename_i b' hf
                injection hR with q1 q2
                subst q1 q2
                have := hi.b _ () s3 (by
                  have e1 := bMR.recCur
                  have e2 := bMR.recLimit
                  simp only [setL, wiPre] at e1 e2 ⊢
                  omega) hin
                exact this.lo
              · cases hR
            · cases hR
            · cases hR
      rcases hM (wiPre s) r R (a1, c1) (a1R, c1R) s2 s2R hrR hcur hh gp hcs h1 h2 with ⟨t, q1, q2, qa, th, tc, tg⟩ | ⟨d1, d2, d3⟩
      · subst q1 q2
        injection qa with qa1 qa2
        subst qa1 qa2
        cases c1 with
        | false =>
          simp only [Bool.false_eq_true, if_false] at hr hR
          injection hr with p1 p2
          injection hR with p3 p4
          subst p1 p2 p3 p4
          exact Or.inl ⟨t, rfl, rfl, rfl, th, tc, tg⟩
        | true =>
          simp only [if_true] at hr hR
          have ecp : (setL r (wiPre s)).builder.checkpoint = (wiPre s).builder.checkpoint := rfl
          have ecpR : (setL R (wiPre s)).builder.checkpoint = (wiPre s).builder.checkpoint := rfl
          have ebr : (setL r t).builder = t.builder := rfl
          have ebR : (setL R t).builder = t.builder := rfl
          rw [ebr, ecp] at hr
          rw [ebR, ecpR] at hR
          cases hsn : t.builder.startNodeAt (wiPre s).builder.checkpoint kind with
          | none => rw [hsn] at hr; cases hr
          | some b =>
            rw [hsn] at hr hR
            simp only [] at hr hR
            have er : ({ setL r t with builder := b } : PState) = setL r { t with builder := b } := rfl
            have eR : ({ setL R t with builder := b } : PState) = setL R { t with builder := b } := rfl
            rw [er] at hr
            rw [eR] at hR
            cases h3 : inner.run (setL r { t with builder := b }) with
            | abort w => rw [h3] at hr; cases hr
            | panic m => rw [h3] at hr; cases hr
            | ok u3 s3 =>
              cases h3R : inner.run (setL R { t with builder := b }) with
              | abort w => rw [h3R] at hR; cases hR
              | panic m => rw [h3R] at hR; cases hR
              | ok u3R s3R =>
                rw [h3] at hr
                rw [h3R] at hR
                simp only [] at hr hR
                cases hf : s3.builder.finishNode with
                | none => rw [hf] at hr; cases hr
                | some bf =>
                  cases hfR : s3R.builder.finishNode with
                  | none => rw [hfR] at hR; cases hR
                  | some bfR =>
                    rw [hf] at hr
                    rw [hfR] at hR
                    injection hr with p1 p2
                    injection hR with p3 p4
                    subst p1 p2 p3 p4
                    rcases hi.x { t with builder := b } r R u3 u3R s3 s3R hrR (by simp only []; rw [tc]; exact hcur) th
                      ⟨tg.lim, tg.acc, tg.nf⟩ trivial h3 h3R with ⟨t3, z1, z2, _, th3, tc3, tg3⟩ | ⟨d1, d2, d3⟩
                    · subst z1 z2
                      have hbb : bf = bfR := by
                        have : (setL r t3).builder.finishNode = (setL R t3).builder.finishNode := rfl
                        rw [hf, hfR] at this
                        injection this
                      subst hbb
                      exact Or.inl ⟨{ t3 with builder := bf }, rfl, rfl, rfl, th3, tc3.trans tc, ⟨tg3.lim, tg3.acc, tg3.nf⟩⟩
                    · exact Or.inr ⟨d1, d2, d3⟩
      · -- diverged inside the body or the condition: the limited side stays bounded
        refine Or.inr ?_
        have hlim_r : s2.recLimit = r := by rw [bMr.recLimit]; rfl
        have hcur_r : s2.recCur ≤ r := by rw [bMr.recCur]; simpa [setL, wiPre] using hcur
        cases c1 with
        | false =>
          simp only [Bool.false_eq_true, if_false] at hr
          injection hr with p1 p2
          subst p1 p2
          exact ⟨d1, d2, Nat.le_trans d3 tailR.1⟩
        | true =>
          simp only [if_true] at hr
          split at hr
          · cases hr
          · rename_i b hsn
            split at hr
            · rename_i u s3 hin
              split at hr
              · rename_i b' hf
                injection hr with p1 p2
                subst p1 p2
                have bi := hi.b _ () s3 (by simp only []; omega) hin
                refine ⟨bi.lim d1, ?_, Nat.le_trans d3 tailR.1⟩
                have l1 := bi.lo
                have l2 := bi.hi
                simp only [] at l1 l2 ⊢
                omega
              · cases hr
            · cases hr
            · cases hr

end Apollo.Parse
