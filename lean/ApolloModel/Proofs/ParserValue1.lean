import ApolloModel.Proofs.ParserType4
import ApolloModel.Proofs.AstSelections
/-
C05 growth (values), part 1: vocabulary (parser tokens as grammar tokens, well-formed values), the
`Good` property (errors only accumulate, counters restored) for every function of grammar/value.rs,
argument.rs and directive.rs, and token-level specifications of the small productions
(`bump` inside a node, `name`).
-/
set_option linter.unusedSimpArgs false
namespace Apollo.Parse
open Apollo.Rowan hiding Str
open Apollo.Lex hiding Str

/-! ### parser tokens as tokens of the reference grammar -/

/-- a parser token as a token of the reference grammar (all significant kinds; a string token stands for
    its decoded value, C06) -/
def astOfV (t : Tok) : Option Ast.Tok :=
  match t.kind with
  | .name => some (.name t.data)
  | .int => some (.int t.data)
  | .float => some (.float t.data)
  | .stringValue => some (.str ((Strs.decodeStringToken t.data).getD []))
  | .bang => some (.p .bang)
  | .dollar => some (.p .dollar)
  | .amp => some (.p .amp)
  | .spread => some (.p .spread)
  | .colon => some (.p .colon)
  | .eq => some (.p .eq)
  | .at => some (.p .at)
  | .lParen => some (.p .lParen)
  | .rParen => some (.p .rParen)
  | .lBracket => some (.p .lBracket)
  | .rBracket => some (.p .rBracket)
  | .lCurly => some (.p .lCurly)
  | .rCurly => some (.p .rCurly)
  | .pipe => some (.p .pipe)
  | _ => none

/-- the parser tokens `ts` are exactly the grammar tokens `as` -/
def TokIs (ts : List Tok) (as : List Ast.Tok) : Prop := ts.map astOfV = as.map some

theorem TokIs.nil : TokIs [] [] := rfl

theorem TokIs.append {a b : List Tok} {x y : List Ast.Tok} (h1 : TokIs a x) (h2 : TokIs b y) : TokIs (a ++ b) (x ++ y) := by
  unfold TokIs at *; simp [h1, h2]

theorem TokIs.single (t : Tok) (x : Ast.Tok) (h : astOfV t = some x) : TokIs [t] [x] := by simp [TokIs, h]

theorem TokIs.cons {t : Tok} {x : Ast.Tok} {b : List Tok} {y : List Ast.Tok} (h : astOfV t = some x) (h2 : TokIs b y) :
    TokIs (t :: b) (x :: y) := by
  unfold TokIs at *; simp [h, h2]

/-! ### well-formed values: enum values are not `true`/`false`/`null`; a constant value has no variable -/

def isValueKeyword (n : Str) : Bool := kw "true" n || kw "false" n || kw "null" n

mutual
def valueOk (isConst : Bool) : Ast.Value → Bool
  | .null | .bool _ | .str _ | .float _ | .int _ => true
  | .enum n => !isValueKeyword n
  | .var _ => !isConst
  | .list vs => valuesOk isConst vs
  | .obj fs => fieldsOk isConst fs
def valuesOk (isConst : Bool) : Ast.Values → Bool
  | .nil => true
  | .cons v tl => valueOk isConst v && valuesOk isConst tl
def fieldsOk (isConst : Bool) : Ast.ObjFields → Bool
  | .nil => true
  | .cons _ v tl => valueOk isConst v && fieldsOk isConst tl
end

/-! ### `Good` for loops and for the value grammar -/

theorem good_getCurrent : Good getCurrent := by
  intro s a s' w h
  unfold getCurrent at h
  simp only [] at h
  injection h with _ h; subst h
  exact Adv.refl s w

theorem good_srcLen : Good srcLen := by
  intro s a s' w h
  unfold srcLen at h
  simp only [] at h
  injection h with _ h; subst h
  exact Adv.refl s w

theorem good_stuck {α : Type} : Good (PI.stuck : PI α) := by
  intro s a s' _ h; simp [PI.stuck] at h

theorem good_outOfFuel {α : Type} : Good (PI.outOfFuel : PI α) := by
  intro s a s' _ h; simp [PI.outOfFuel] at h

theorem good_ite {α : Type} (c : Bool) (a b : PI α) (ha : Good a) (hb : Good b) : Good (if c then a else b) := by
  cases c <;> simp [ha, hb]

theorem good_peekWhileLoop (body : Kind → PI Bool) (hb : ∀ k, Good (body k)) : ∀ fuel, Good (peekWhileLoop body fuel)
  | 0 => good_outOfFuel
  | fuel + 1 => by
    unfold peekWhileLoop
    refine good_bind _ _ good_peek ?_
    intro k
    cases k with
    | none => exact good_pure _
    | some kind =>
      refine good_bind _ _ good_getCurrent (fun before => good_bind _ _ (hb kind) ?_)
      intro c
      cases c with
      | false => exact good_pure _
      | true =>
        refine good_bind _ _ good_getCurrent (fun after => ?_)
        exact good_ite _ _ _ good_stuck (good_peekWhileLoop body hb fuel)

theorem good_peekWhile (body : Kind → PI Bool) (hb : ∀ k, Good (body k)) : Good (peekWhile body) :=
  good_bind _ _ good_srcLen (fun _ => good_peekWhileLoop body hb _)

theorem good_peekWhileKindLoop (k : Kind) (body : PI Unit) (hb : Good body) : ∀ fuel, Good (peekWhileKindLoop k body fuel)
  | 0 => good_outOfFuel
  | fuel + 1 => by
    unfold peekWhileKindLoop
    refine good_bind _ _ good_peek ?_
    intro o
    cases o with
    | none => exact good_pure _
    | some kind =>
      refine good_ite _ _ _ (good_pure _) ?_
      refine good_bind _ _ good_getCurrent (fun before => good_bind _ _ hb (fun _ => good_bind _ _ good_getCurrent (fun after => ?_)))
      exact good_ite _ _ _ good_stuck (good_peekWhileKindLoop k body hb fuel)

theorem good_peekWhileKind (k : Kind) (body : PI Unit) (hb : Good body) : Good (peekWhileKind k body) :=
  good_bind _ _ good_srcLen (fun _ => good_peekWhileKindLoop k body hb _)

theorem good_name : Good name := by
  unfold name
  refine good_bind _ _ good_peekToken ?_
  intro o
  cases o with
  | none => exact good_err
  | some t => exact good_ite _ _ _ (good_withNode _ _ (good_bump _)) good_err

theorem good_errAndPop : Good errAndPop := by
  unfold errAndPop
  intro s a s' w h
  obtain ⟨_, s1, h1, h2⟩ := bind_dec pushIgnored _ s s' () h
  have o1 := pushIgnored_obs s s1 h1
  have a1 := (Eat.ofObsEq o1 w).adv
  refine a1.trans ?_
  revert h2
  have : Good (peekToken >>= fun o => match o with
      | none => (pure () : PI Unit)
      | some t => do moveCurToTree "ERROR"; pushErr (tokErr t); skipIgnored) := by
    refine good_bind _ _ good_peekToken ?_
    intro o
    cases o with
    | none => exact good_pure _
    | some t =>
      refine good_bind _ _ ?_ (fun _ => good_bind _ _ (good_pushErr _) (fun _ => good_skipIgnored))
      intro s a s' w h
      rcases moveCurToTree_spec "ERROR" s s' w h with ⟨_, _, e, _⟩ | ⟨_, rfl⟩
      · exact e.adv
      · exact Adv.refl _ w
  intro h2
  exact this s1 () s' a1.w h2

theorem good_variableNode : Good variableNode :=
  good_withNode _ _ (good_bind _ _ (good_bump _) (fun _ => good_name))

theorem good_enumValue : Good enumValue := by
  unfold enumValue
  refine good_withNode _ _ (good_bind _ _ good_peekToken ?_)
  intro o
  cases o with
  | none => exact good_err
  | some t =>
    refine good_ite _ _ _ ?_ good_err
    exact good_ite _ _ _ (good_bind _ _ good_err (fun _ => good_name)) good_name

end Apollo.Parse
