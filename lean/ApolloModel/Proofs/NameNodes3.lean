import ApolloModel.Proofs.NameNodes2
/-
C11 growth, part 3: value.rs, argument.rs, directive.rs, selection.rs / field.rs / fragment.rs
(the recursive families), by induction on the fuel with the structural automation.
-/
set_option linter.unusedSimpArgs false
set_option linter.unusedVariables false
namespace Apollo.Parse
open Apollo.Rowan hiding Str
open Apollo.Lex hiding Str

theorem ng_alias : NG alias := by unfold alias; ng_go
macro_rules | `(tactic| ng_leaf) => `(tactic| exact ng_alias)
theorem ng_namedType : NG namedType := by unfold namedType; ng_go
macro_rules | `(tactic| ng_leaf) => `(tactic| exact ng_namedType)
theorem ng_variableNode : NG variableNode := by unfold variableNode; ng_go
macro_rules | `(tactic| ng_leaf) => `(tactic| exact ng_variableNode)
theorem ng_enumValue : NG enumValue := by unfold enumValue; ng_go
macro_rules | `(tactic| ng_leaf) => `(tactic| exact ng_enumValue)

structure NGValue (n : Nat) : Prop where
  value : ∀ c p, NG (value n c p)
  list : ∀ c, NG (listValue n c)
  object : ∀ c, NG (objectValue n c)
  field : ∀ c, NG (objectField n c)

set_option maxHeartbeats 1000000 in
theorem ngValue : ∀ n, NGValue n := by
  intro n
  induction n with
  | zero =>
    refine ⟨fun c p => ?_, fun c => ?_, fun c => ?_, fun c => ?_⟩
    · unfold value; exact ng_outOfFuel
    · unfold listValue; exact ng_outOfFuel
    · unfold objectValue; exact ng_outOfFuel
    · unfold objectField; exact ng_outOfFuel
  | succ n ih =>
    have hv := ih.value
    have hl := ih.list
    have ho := ih.object
    have hf := ih.field
    refine ⟨fun c p => ?_, fun c => ?_, fun c => ?_, fun c => ?_⟩
    · unfold value
      ng_go_with (first | exact hl _ | exact ho _)
    · unfold listValue
      ng_go_with (exact hv _ _)
    · unfold objectValue
      ng_go_with (exact hf _)
    · unfold objectField
      ng_go_with (exact hv _ _)

theorem ng_value (n : Nat) (c p : Bool) : NG (value n c p) := (ngValue n).value c p
macro_rules | `(tactic| ng_leaf) => `(tactic| exact ng_value _ _ _)

theorem ng_defaultValue (n : Nat) : NG (defaultValue n) := by unfold defaultValue; ng_go
macro_rules | `(tactic| ng_leaf) => `(tactic| exact ng_defaultValue _)
theorem ng_argument (n : Nat) (c : Bool) : NG (argument n c) := by unfold argument; ng_go
macro_rules | `(tactic| ng_leaf) => `(tactic| exact ng_argument _ _)
theorem ng_arguments (n : Nat) (c : Bool) : NG (arguments n c) := by unfold arguments; ng_go
macro_rules | `(tactic| ng_leaf) => `(tactic| exact ng_arguments _ _)
theorem ng_directive (n : Nat) (c : Bool) : NG (directive n c) := by unfold directive; ng_go
macro_rules | `(tactic| ng_leaf) => `(tactic| exact ng_directive _ _)
theorem ng_directives (n : Nat) (c : Bool) : NG (directives n c) := by unfold directives; ng_go
macro_rules | `(tactic| ng_leaf) => `(tactic| exact ng_directives _ _)
theorem ng_fragmentName : NG fragmentName := by unfold fragmentName; ng_go
macro_rules | `(tactic| ng_leaf) => `(tactic| exact ng_fragmentName)
theorem ng_typeCondition : NG typeCondition := by unfold typeCondition; ng_go
macro_rules | `(tactic| ng_leaf) => `(tactic| exact ng_typeCondition)
theorem ng_fragmentSpread (n : Nat) : NG (fragmentSpread n) := by unfold fragmentSpread; ng_go
macro_rules | `(tactic| ng_leaf) => `(tactic| exact ng_fragmentSpread _)

structure NGSel (n : Nat) : Prop where
  selSet : NG (selectionSet n)
  sel : NG (selection n)
  field : NG (field n)
  inline : NG (inlineFragment n)

set_option maxHeartbeats 1000000 in
theorem ngSel : ∀ n, NGSel n := by
  intro n
  induction n with
  | zero =>
    refine ⟨?_, ?_, ?_, ?_⟩
    · unfold selectionSet; exact ng_outOfFuel
    · unfold selection; exact ng_outOfFuel
    · unfold field; exact ng_outOfFuel
    · unfold inlineFragment; exact ng_outOfFuel
  | succ n ih =>
    have h1 := ih.selSet
    have h2 := ih.sel
    have h3 := ih.field
    have h4 := ih.inline
    refine ⟨?_, ?_, ?_, ?_⟩
    · unfold selectionSet; ng_go
    · unfold selection; ng_go
    · unfold field; ng_go
    · unfold inlineFragment; ng_go

theorem ng_selectionSet (n : Nat) : NG (selectionSet n) := (ngSel n).selSet
macro_rules | `(tactic| ng_leaf) => `(tactic| exact ng_selectionSet _)
theorem ng_selection (n : Nat) : NG (selection n) := (ngSel n).sel
macro_rules | `(tactic| ng_leaf) => `(tactic| exact ng_selection _)

theorem ng_fieldSet (n : Nat) : NG (fieldSet n) := by unfold fieldSet; ng_go
macro_rules | `(tactic| ng_leaf) => `(tactic| exact ng_fieldSet _)

end Apollo.Parse
