import ApolloModel.Proofs.ParserValue1
/-
C05 growth (values), part 2: `value.rs` cut into named pieces, and `Good` for all of them and for
`argument.rs` / `directive.rs`.
-/
set_option linter.unusedSimpArgs false
namespace Apollo.Parse
open Apollo.Rowan hiding Str
open Apollo.Lex hiding Str

def nameValueBranch (o : Option Tok) : PI Unit :=
  match o with
  | some t =>
    if kw "true" t.data then withNode "BOOLEAN_VALUE" (bump "true_KW")
    else if kw "false" t.data then withNode "BOOLEAN_VALUE" (bump "false_KW")
    else if kw "null" t.data then withNode "NULL_VALUE" (bump "null_KW")
    else enumValue
  | none => pure ()

def valueErr (popOnError : Bool) : PI Unit := if popOnError then errAndPop else err

def variableBranch (isConst popOnError : Bool) : PI Unit :=
  if isConst then valueErr popOnError >>= fun _ => variableNode else variableNode

def valueBranch (n : Nat) (isConst popOnError : Bool) (k : Option Kind) : PI Unit :=
  match k with
  | some .dollar => variableBranch isConst popOnError
  | some .int => withNode "INT_VALUE" (bump "INT")
  | some .float => withNode "FLOAT_VALUE" (bump "FLOAT")
  | some .stringValue => withNode "STRING_VALUE" (bump "STRING")
  | some .name => peekToken >>= nameValueBranch
  | some .lBracket => listValue n isConst
  | some .lCurly => objectValue n isConst
  | _ => valueErr popOnError

theorem value_succ (n : Nat) (isConst popOnError : Bool) :
    value (n + 1) isConst popOnError = peek >>= valueBranch n isConst popOnError := by
  rw [value]; rfl

def listLoopBody (n : Nat) (isConst : Bool) (node : Kind) : PI Bool :=
  if node == .rBracket then (bump "R_BRACK" >>= fun _ => pure false)
  else if node == .eof then pure false
  else withRec (limitErr >>= fun _ => pure false) (value n isConst true >>= fun _ => pure true)

theorem listValue_succ (n : Nat) (isConst : Bool) :
    listValue (n + 1) isConst = withNode "LIST_VALUE" (bump "L_BRACK" >>= fun _ => peekWhile (listLoopBody n isConst)) := by
  rw [listValue]; rfl

def objectFieldTail (n : Nat) (isConst : Bool) (k : Option Kind) : PI Unit :=
  if k == some .colon then (bump "COLON" >>= fun _ => withRec limitErr (value n isConst true)) else err

theorem objectField_succ (n : Nat) (isConst : Bool) :
    objectField (n + 1) isConst = withNode "OBJECT_FIELD" (name >>= fun _ => peek >>= objectFieldTail n isConst) := by
  rw [objectField]; rfl

theorem objectValue_succ (n : Nat) (isConst : Bool) :
    objectValue (n + 1) isConst = withNode "OBJECT_VALUE" (bump "L_CURLY" >>= fun _ =>
      peekWhileKind .name (objectField n isConst) >>= fun _ => expect .rCurly "R_CURLY") := by
  first | rfl | (rw [objectValue]; try rfl)

def argumentTail (n : Nat) (isConst : Bool) (k : Option Kind) : PI Unit :=
  if k == some .colon then (bump "COLON" >>= fun _ => value n isConst false) else err

theorem argument_eq (n : Nat) (isConst : Bool) :
    argument n isConst = withNode "ARGUMENT" (name >>= fun _ => peek >>= argumentTail n isConst) := rfl

def argumentsRest (n : Nat) (isConst : Bool) : PI Unit :=
  peekWhileKind .name (argument n isConst) >>= fun _ => expect .rParen "R_PAREN"

def argumentsFirst (n : Nat) (isConst : Bool) (k : Option Kind) : PI Unit :=
  if k == some .name then (argument n isConst >>= fun _ => argumentsRest n isConst)
  else (err >>= fun _ => argumentsRest n isConst)

theorem arguments_eq (n : Nat) (isConst : Bool) :
    arguments n isConst = withNode "ARGUMENTS" (bump "L_PAREN" >>= fun _ => peek >>= argumentsFirst n isConst) := rfl

def directiveTail (n : Nat) (isConst : Bool) (k : Option Kind) : PI Unit :=
  if k == some .lParen then arguments n isConst else pure ()

theorem directive_eq (n : Nat) (isConst : Bool) :
    directive n isConst = withNode "DIRECTIVE" (expect .at "AT" >>= fun _ => name >>= fun _ => peek >>= directiveTail n isConst) := rfl

/-! ### `Good` -/

theorem good_valueErr (p : Bool) : Good (valueErr p) := good_ite _ _ _ good_errAndPop good_err

theorem good_nameValueBranch (o : Option Tok) : Good (nameValueBranch o) := by
  cases o with
  | none => exact good_pure _
  | some t =>
    exact good_ite _ _ _ (good_withNode _ _ (good_bump _)) (good_ite _ _ _ (good_withNode _ _ (good_bump _))
      (good_ite _ _ _ (good_withNode _ _ (good_bump _)) good_enumValue))

theorem good_variableBranch (c p : Bool) : Good (variableBranch c p) :=
  good_ite _ _ _ (good_bind _ _ (good_valueErr p) (fun _ => good_variableNode)) good_variableNode

structure GoodAll (n : Nat) : Prop where
  value : ∀ c p, Good (value n c p)
  list : ∀ c, Good (listValue n c)
  obj : ∀ c, Good (objectValue n c)
  field : ∀ c, Good (objectField n c)

theorem good_listLoopBody (n : Nat) (c : Bool) (ih : GoodAll n) (k : Kind) : Good (listLoopBody n c k) :=
  good_ite _ _ _ (good_bind _ _ (good_bump _) (fun _ => good_pure _))
    (good_ite _ _ _ (good_pure _)
      (good_withRec _ _ (good_bind _ _ good_limitErr (fun _ => good_pure _)) (good_bind _ _ (ih.value c true) (fun _ => good_pure _))))

theorem good_objectFieldTail (n : Nat) (c : Bool) (ih : GoodAll n) (k : Option Kind) : Good (objectFieldTail n c k) :=
  good_ite _ _ _ (good_bind _ _ (good_bump _) (fun _ => good_withRec _ _ good_limitErr (ih.value c true))) good_err

theorem goodAll : ∀ n, GoodAll n
  | 0 => ⟨fun _ _ => by simp only [value]; exact good_outOfFuel, fun _ => by simp only [listValue]; exact good_outOfFuel,
      fun _ => by simp only [objectValue]; exact good_outOfFuel, fun _ => by simp only [objectField]; exact good_outOfFuel⟩
  | n + 1 => by
    have ih := goodAll n
    refine ⟨?_, ?_, ?_, ?_⟩
    · intro c p
      rw [value_succ]
      refine good_bind _ _ good_peek ?_
      intro k
      cases k with
      | none => exact good_valueErr p
      | some k =>
        cases k <;> first
          | exact good_valueErr p
          | exact good_variableBranch c p
          | exact good_withNode _ _ (good_bump _)
          | exact good_bind _ _ good_peekToken good_nameValueBranch
          | exact ih.list c
          | exact ih.obj c
    · intro c
      rw [listValue_succ]
      exact good_withNode _ _ (good_bind _ _ (good_bump _) (fun _ => good_peekWhile _ (good_listLoopBody n c ih)))
    · intro c
      rw [objectValue_succ]
      exact good_withNode _ _ (good_bind _ _ (good_bump _) (fun _ => good_bind _ _
        (good_peekWhileKind _ _ (ih.field c)) (fun _ => good_expect _ _)))
    · intro c
      rw [objectField_succ]
      exact good_withNode _ _ (good_bind _ _ good_name (fun _ => good_bind _ _ good_peek (good_objectFieldTail n c ih)))

theorem good_value (n : Nat) (c p : Bool) : Good (value n c p) := (goodAll n).value c p

theorem good_argumentTail (n : Nat) (c : Bool) (k : Option Kind) : Good (argumentTail n c k) :=
  good_ite _ _ _ (good_bind _ _ (good_bump _) (fun _ => good_value n c false)) good_err

theorem good_argument (n : Nat) (c : Bool) : Good (argument n c) := by
  rw [argument_eq]
  exact good_withNode _ _ (good_bind _ _ good_name (fun _ => good_bind _ _ good_peek (good_argumentTail n c)))

theorem good_argumentsRest (n : Nat) (c : Bool) : Good (argumentsRest n c) :=
  good_bind _ _ (good_peekWhileKind _ _ (good_argument n c)) (fun _ => good_expect _ _)

theorem good_arguments (n : Nat) (c : Bool) : Good (arguments n c) := by
  rw [arguments_eq]
  refine good_withNode _ _ (good_bind _ _ (good_bump _) (fun _ => good_bind _ _ good_peek (fun k => ?_)))
  exact good_ite _ _ _ (good_bind _ _ (good_argument n c) (fun _ => good_argumentsRest n c))
    (good_bind _ _ good_err (fun _ => good_argumentsRest n c))

theorem good_directive (n : Nat) (c : Bool) : Good (directive n c) := by
  rw [directive_eq]
  exact good_withNode _ _ (good_bind _ _ (good_expect _ _) (fun _ => good_bind _ _ good_name (fun _ => good_bind _ _ good_peek
    (fun k => good_ite _ _ _ (good_arguments n c) (good_pure _)))))

theorem good_directives (n : Nat) (c : Bool) : Good (directives n c) :=
  good_withNode _ _ (good_peekWhileKind _ _ (good_directive n c))

end Apollo.Parse
