import ApolloModel.Proofs.ParserTree25
import ApolloModel.Proofs.ParserDoc5
/-
C08 growth (pipeline), part 26 (stage iv): operation definitions — the parser side; the per-definition relation
`DefItemR` the document loop is written over.
-/
set_option linter.unusedSimpArgs false
set_option linter.unusedVariables false

namespace Apollo.Parse
open Apollo.Rowan hiding Str
open Apollo.Lex hiding Str
open Apollo.FromCst (OptDirs DirsNode SelSetNode FragDefTree OpDefTree OptName OptVarDefs opKw)

/-- what `Document::from_cst` reads from the node of a definition `d` -/
def DefConv (d : Ast.Definition) (ed : Elem) : Prop :=
  FromCst.nodeP FromCst.isDefinitionKind ed = true ∧
    ∀ n, FromCst.size ed ≤ n + 1 → FromCst.ConvE (fun R => @FromCst.cDefinition R n) d ed

/-- ONE definition of the grammar, in the long or (flag `true`, operations only) the shorthand form: its tokens are the
    printer's `tDefinition`, it is well-formed, and its node converts to it -/
def DefItemR (cs : List Tok) (e : List Elem) : Prop :=
  ∃ (it : Ast.Item) (ed : Elem), TokIs cs (Ast.tDefinition it.1 it.2) ∧ Ast.wfDefinition it.2 = true ∧ e = [ed] ∧ DefConv it.2 ed

/-- operations and fragments -/
def isExecutable : Ast.Definition → Bool
  | .operation .. => true
  | .fragment .. => true
  | _ => false

/-- an executable definition; its node is an OPERATION_DEFINITION or a FRAGMENT_DEFINITION -/
def ExecItemR (cs : List Tok) (e : List Elem) : Prop :=
  ∃ (it : Ast.Item) (ed : Elem), TokIs cs (Ast.tDefinition it.1 it.2) ∧ Ast.wfDefinition it.2 = true ∧ e = [ed] ∧ DefConv it.2 ed ∧
    isExecutable it.2 = true ∧
    FromCst.nodeP (fun k => k == "OPERATION_DEFINITION" || k == "FRAGMENT_DEFINITION") ed = true

theorem tr_operationType : Tr NoE (HeadK .name) operationType
    (fun _ cs e => ∃ (ty : Ast.OpType) (t : Tok), t.kind = .name ∧ t.data = ty.name.toList ∧ cs = [t] ∧
      e = [Elem.node "OPERATION_TYPE" [Elem.tok (opKw ty) t.data]]) := by
  unfold operationType
  apply tr_peekData
  intro o
  cases o with
  | none => exact tr_absurd (good_pure _) (by rintro q ⟨h1, h2⟩; unfold HeadK at h1; rw [h2] at h1; cases h1)
  | some t =>
    simp only [Option.map_some]
    have hH : ∀ q, (HeadK .name q ∧ q.head? = some t) → HeadP (fun t' : Tok => t' = t ∧ t'.kind = .name) q := by
      rintro q ⟨h1, h2⟩
      unfold HeadK at h1
      rw [h2] at h1
      exact ⟨t, h2, rfl, by simpa using h1⟩
    have hP : ∀ t' : Tok, (t' = t ∧ t'.kind = .name) → isIgnoredKind t'.kind = false ∧ t'.kind ≠ .eof := by
      rintro t' ⟨_, hk⟩; rw [hk]; exact ⟨rfl, by decide⟩
    by_cases hq : kw "query" t.data = true
    · simp only [hq, if_true]
      refine (tr_leaf "OPERATION_TYPE" "query_KW" (by decide) _ hP).mono hH ?_
      rintro _ cs e ⟨t', ⟨rfl, hk⟩, _, rfl, rfl⟩
      exact ⟨.query, t', hk, kw_eq hq, rfl, rfl⟩
    simp only [hq, Bool.false_eq_true, if_false]
    by_cases hs : kw "subscription" t.data = true
    · simp only [hs, if_true]
      refine (tr_leaf "OPERATION_TYPE" "subscription_KW" (by decide) _ hP).mono hH ?_
      rintro _ cs e ⟨t', ⟨rfl, hk⟩, _, rfl, rfl⟩
      exact ⟨.subscription, t', hk, kw_eq hs, rfl, rfl⟩
    simp only [hs, Bool.false_eq_true, if_false]
    by_cases hm : kw "mutation" t.data = true
    · simp only [hm, if_true]
      refine (tr_leaf "OPERATION_TYPE" "mutation_KW" (by decide) _ hP).mono hH ?_
      rintro _ cs e ⟨t', ⟨rfl, hk⟩, _, rfl, rfl⟩
      exact ⟨.mutation, t', hk, kw_eq hm, rfl, rfl⟩
    simp only [hm, Bool.false_eq_true, if_false]
    refine (tr_withNodeAny early_false "OPERATION_TYPE" (tr_errAndPop (R := fun _ _ _ => False))).mono (fun _ _ => trivial) ?_
    rintro _ _ _ ⟨_, _, hf⟩
    exact hf.elim

theorem nodeP_opDef (cs : List Elem) :
    FromCst.nodeP FromCst.isDefinitionKind (Elem.node "OPERATION_DEFINITION" cs) = true ∧
    FromCst.nodeP (fun k => k == "OPERATION_DEFINITION" || k == "FRAGMENT_DEFINITION") (Elem.node "OPERATION_DEFINITION" cs) = true := by
  constructor <;> simp [FromCst.nodeP_node, FromCst.isDefinitionKind, FromCst.definitionKinds]

/-- **operation.rs `operation_definition`**, long and shorthand form -/
theorem tr_operationDefinition (n : Nat) : Tr NoE (fun _ => True) (operationDefinition n) (fun _ => ExecItemR) := by
  rw [operationDefinition_eq]
  apply tr_peek
  intro k
  have hlong : Tr NoE (fun q => True ∧ q.head?.map (·.kind) = some Kind.name) (withNode "OPERATION_DEFINITION" (opBody n))
      (fun _ => ExecItemR) := by
    unfold opBody opSel
    have hsel : Tr NoE (fun _ => True) (peek >>= fun k => if k == some Kind.lCurly then selectionSet n else errAndPop) (fun _ => SelSetR) :=
      tr_ifKind .lCurly _ _ _ ((tr_selSet n).mono (fun _ h => kindP_headK h) (fun _ _ _ h => h)) tr_errAndPop
    have hd := tr_optDirectives n false _ hsel (H := fun _ => True)
    have hv := tr_optKind early_false (H := fun _ => True) .lParen (variableDefinitions n) _ VarDefsR _
      ((tr_variableDefinitions n).mono (fun _ h => kindP_headK h) (fun _ _ _ h => h)) hd
    have hn := tr_optKind early_false (H := fun _ => True) .name name _
      (fun cs e => ∃ t : Tok, t.kind = .name ∧ isValidName t.data = true ∧ cs = [t] ∧ e = [nameNode t.data]) _
      (tr_name (E := NoE) (H := KindP (· == Kind.name))) hv
    have hb := tr_bind early_false tr_operationType (fun _ => hn)
    refine (tr_withNode early_false "OPERATION_DEFINITION" (hsig_headK .name rfl) hb).mono (fun _ h => h.2) ?_
    rintro _ cs e ⟨inner, rfl, _, c1, c2, e1, e2, rfl, hin, ⟨ty, tk, hkk, hkd, rfl, rfl⟩, c3, c4, e3, e4, rfl, rfl, hnm,
      c5, c6, e5, e6, rfl, rfl, hvd, ds, c7, c8, td, e8, rfl, rfl, hd1, hd2, hd3, sels, ess, hne, hwf, hs1, rfl, hs3⟩
    have hty : TokIs [tk] [Ast.Tok.name ty.name.toList] := TokIs.single tk _ (by simp [astOfV, hkk, hkd])
    have hnn : sels ≠ .nil → Ast.nonNil sels = true := by
      intro h; cases sels with
      | nil => exact absurd rfl h
      | cons a b => rfl
    -- the optional name and variable definitions
    obtain ⟨name, tn, hname, htokn⟩ : ∃ (name : Option Ast.Str) (tn : List Elem), OptName name tn ∧ e3 = tn ∧
        TokIs c3 (match name with | some x => [Ast.Tok.name x] | none => []) := by
      rcases hnm with ⟨t, hk, hv, rfl, rfl⟩ | ⟨rfl, rfl⟩
      · exact ⟨some t.data, _, Or.inr ⟨t.data, rfl, hv, rfl⟩, rfl, TokIs.single t _ (by simp [astOfV, hk])⟩
      · exact ⟨none, [], Or.inl ⟨rfl, rfl⟩, rfl, TokIs.nil⟩
    obtain ⟨he3, htokn⟩ := htokn
    obtain ⟨vars, tv, hvars, he5, htokv, hwfv⟩ : ∃ (vars : List Ast.VarDef) (tv : List Elem), OptVarDefs vars tv ∧ e5 = tv ∧
        TokIs c5 (Ast.tVarDefs vars) ∧ Ast.wfVarDefs vars = true := by
      rcases hvd with ⟨vs, ev, hne', h1, h2, rfl, h4⟩ | ⟨rfl, rfl⟩
      · exact ⟨vs, _, Or.inr ⟨ev, rfl, h4⟩, rfl, h1, h2⟩
      · exact ⟨[], [], Or.inl ⟨rfl, rfl⟩, rfl, TokIs.nil, rfl⟩
    subst he3 he5
    have htree : OpDefTree ty name vars ds sels (Elem.node "OPERATION_DEFINITION" inner) :=
      ⟨inner, ess, rfl, hs3, Or.inl ⟨tk.data, e3, e5, td, hname, hvars, hd3, by rw [hin]; simp⟩⟩
    refine ⟨(false, .operation ty name vars ds sels), _, ?_, ?_, rfl, ⟨(nodeP_opDef inner).1, fun m hm =>
      FromCst.cDefinition_operation m ty name vars ds sels _ htree hm⟩, rfl, (nodeP_opDef inner).2⟩
    · rw [tOperation_eq]
      have := hty.append (htokn.append (htokv.append (hd1.append hs1)))
      cases name <;> simpa [tOperation, Ast.tSelSet, List.append_assoc] using this
    · simp only [Ast.wfDefinition, Bool.and_eq_true]
      exact ⟨⟨⟨hwfv, dirsOk_wf false ds hd2⟩, hwf⟩, hnn hne⟩
  have hshort : Tr NoE (fun q => True ∧ q.head?.map (·.kind) = some Kind.lCurly) (withNode "OPERATION_DEFINITION" (selectionSet n))
      (fun _ => ExecItemR) := by
    refine (tr_withNode early_false "OPERATION_DEFINITION" (hsig_headK .lCurly rfl) (tr_selSet n)).mono (fun _ h => h.2) ?_
    rintro _ cs e ⟨inner, rfl, sels, ess, hne, hwf, hs1, hin, hs3⟩
    have htree : OpDefTree .query none [] [] sels (Elem.node "OPERATION_DEFINITION" inner) :=
      ⟨inner, ess, rfl, hs3, Or.inr ⟨rfl, rfl, rfl, rfl, hin⟩⟩
    refine ⟨(true, .operation .query none [] [] sels), _, ?_, ?_, rfl, ⟨(nodeP_opDef inner).1, fun m hm =>
      FromCst.cDefinition_operation m .query none [] [] sels _ htree hm⟩, rfl, (nodeP_opDef inner).2⟩
    · simpa [Ast.tDefinition, Ast.isShorthand, Ast.tSelSet] using hs1
    · simp only [Ast.wfDefinition, Bool.and_eq_true]
      refine ⟨⟨⟨rfl, rfl⟩, hwf⟩, ?_⟩
      cases sels with
      | nil => exact absurd rfl hne
      | cons a b => rfl
  cases k with
  | none => exact tr_errAndPop
  | some k =>
    cases k
    case name => exact hlong
    case lCurly => exact hshort
    all_goals exact tr_errAndPop

end Apollo.Parse
