import ApolloModel.Proofs.ParserExactC27
import ApolloModel.Proofs.ParserComplete28
/-
EXACT-BUDGET COPY of ParserComplete28 (namespace Apollo.Parse.Exact, exact `vdepth`).
C05 growth (completeness of the whole Document grammar), part 28: the statement over builderC's `DocItem`s —
`itemFit` (exact guards, within the recursion limit) and `DocFollowOk` (what follows each definition), both read off
the abstract syntax alone.
-/
set_option linter.unusedSimpArgs false
namespace Apollo.Parse.Exact
open Apollo.Rowan hiding Str
open Apollo.Lex hiding Str

/-- an operation or fragment definition within the recursion limit -/
def execFit (rl : Nat) : Ast.Definition → Prop
  | .operation _ _ vars dirs sels =>
    (∀ v ∈ vars, varFit rl v) ∧ dirsFit false rl dirs ∧ sels ≠ Ast.Sels.nil ∧ 1 ≤ rl ∧ fitSels sels (rl - 1)
  | .fragment name _ dirs sels =>
    name ≠ Ast.sOn ∧ dirsFit false rl dirs ∧ sels ≠ Ast.Sels.nil ∧ 1 ≤ rl ∧ fitSels sels (rl - 1)
  | _ => False

theorem execFit_lexec (rl : Nat) (oe : Bool) (d : Ast.Definition) (h : execFit rl d) : LExecDef rl (Ast.tDefinition oe d) := by
  cases d with
  | operation ty name vars dirs sels =>
    obtain ⟨hv, hd, hne, hb, hf⟩ := h
    by_cases hsh : Ast.isShorthand oe ty name vars dirs = true
    · have : Ast.tDefinition oe (.operation ty name vars dirs sels) = Ast.tSelSet sels := by
        simp only [Ast.tDefinition, hsh, if_true, List.nil_append]
      rw [this]
      exact Or.inl (Or.inr ⟨sels, hne, rfl, hb, hf⟩)
    · have hsh' : Ast.isShorthand oe ty name vars dirs = false := by simpa using hsh
      have : Ast.tDefinition oe (.operation ty name vars dirs sels) = tOperation ty name vars dirs sels := by
        cases name <;> simp [Ast.tDefinition, hsh', tOperation]
      rw [this]
      exact Or.inl (Or.inl ⟨ty, name, vars, dirs, sels, rfl, hv, hd, hne, hb, hf⟩)
  | fragment name tc dirs sels =>
    obtain ⟨hn, hd, hne, hb, hf⟩ := h
    exact Or.inr ⟨name, tc, dirs, sels, rfl, hn, hd, hne, hb, hf⟩
  | _ => exact absurd h (by simp [execFit])

/-- **the exact guard of one definition** as `document()` accepts it, within the recursion limit `rl` -/
def itemFit (rl : Nat) : DocItem → Prop
  | .exec _ d => execFit rl d
  | .loose l => looseFit rl l

/-- the kind of what follows: a grammar token, or the end of input -/
def followKindA : Option Ast.Tok → Kind
  | none => .eof
  | some a => kindOfA a

/-- the follow conditions in terms of the kind of the follow token and of "it is not the Name `implements`" -/
def looseFollowG : LooseDef → Kind → Prop → Prop
  | .scalar .., k, _ => k ≠ .at ∧ k ≠ .lParen
  | .scalarExt .., k, _ => k ≠ .at ∧ k ≠ .lParen
  | .object .., k, ni => (k ≠ .at ∧ k ≠ .lParen ∧ k ≠ .lCurly ∧ True) ∧ k ≠ .amp ∧ ni
  | .interface .., k, ni => (k ≠ .at ∧ k ≠ .lParen ∧ k ≠ .lCurly ∧ True) ∧ k ≠ .amp ∧ ni
  | .objectExt .., k, ni => (k ≠ .at ∧ k ≠ .lParen ∧ k ≠ .lCurly ∧ True) ∧ k ≠ .amp ∧ ni
  | .interfaceExt .., k, ni => (k ≠ .at ∧ k ≠ .lParen ∧ k ≠ .lCurly ∧ True) ∧ k ≠ .amp ∧ ni
  | .union .., k, _ => k ≠ .at ∧ k ≠ .lParen ∧ k ≠ .eq ∧ k ≠ .pipe
  | .unionExt .., k, _ => k ≠ .at ∧ k ≠ .lParen ∧ k ≠ .eq ∧ k ≠ .pipe
  | .enum .., k, _ => Fbody k
  | .input .., k, _ => Fbody k
  | .enumExt .., k, _ => Fbody k
  | .inputExt .., k, _ => Fbody k
  | .schemaExt .., k, _ => Fbody k
  | .directive .., k, _ => k ≠ .pipe
  | .schema .., _, _ => True

theorem looseFollow_of_G (l : LooseDef) (q : Tok) (h : looseFollowG l q.kind (NotImplTok q)) : looseFollow l q := by
  cases l <;> exact h

/-- **what may follow a type-system definition**, on the abstract syntax: `f` is the first grammar token of the
    next definition, `none` at the end of the document -/
def looseFollowA (l : LooseDef) (f : Option Ast.Tok) : Prop :=
  looseFollowG l (followKindA f) (f ≠ some (.name "implements".toList))

theorem followTok_kind {f : Option Ast.Tok} {q : Tok} (h : FollowTokOf f q) : q.kind = followKindA f := by
  cases f with
  | none => exact h
  | some a => exact kind_of_astOfV h

theorem followTok_notImpl {f : Option Ast.Tok} {q : Tok} (h : FollowTokOf f q) (hn : f ≠ some (.name "implements".toList)) : NotImplTok q := by
  rintro ⟨hk, hd⟩
  cases f with
  | none => rw [show q.kind = Kind.eof from h] at hk; cases hk
  | some a =>
    have ha : astOfV q = some a := h
    have : astOfV q = some (.name q.data) := by simp [astOfV, hk]
    rw [this] at ha
    injection ha with ha
    exact hn (by rw [← ha, hd])

theorem looseFollowG_congr (l : LooseDef) (k : Kind) (p p' : Prop) (hp : p → p') (h : looseFollowG l k p) : looseFollowG l k p' := by
  cases l <;> first
    | exact h
    | exact ⟨h.1, h.2.1, hp h.2.2⟩

theorem looseFollow_of_A (l : LooseDef) (f : Option Ast.Tok) (q : Tok) (h : looseFollowA l f) (hq : FollowTokOf f q) : looseFollow l q := by
  apply looseFollow_of_G
  rw [followTok_kind hq]
  exact looseFollowG_congr l _ _ _ (followTok_notImpl hq) h

def itemFollowA : DocItem → Option Ast.Tok → Prop
  | .loose l, f => looseFollowA l f
  | _, _ => True

/-- every definition may be followed by the first token of the next one (or by the end of the document) -/
def DocFollowOk : List DocItem → Prop
  | [] => True
  | i :: r => itemFollowA i (docToks r).head? ∧ DocFollowOk r

theorem docOk_of_items (rl : Nat) : ∀ its : List DocItem, (∀ i ∈ its, itemFit rl i) → DocFollowOk its → DocOk rl (its.map DocItem.toks)
  | [], _, _ => trivial
  | i :: r, hfit, hfol => by
    refine ⟨?_, docOk_of_items rl r (fun j hj => hfit j (by simp [hj])) hfol.2⟩
    intro q hq
    have hq' : FollowTokOf (docToks r).head? q := hq
    have hi := hfit i (by simp)
    cases i with
    | exec oe d => exact Or.inl (execFit_lexec rl oe d hi)
    | loose l => exact Or.inr ⟨l, rfl, hi, looseFollow_of_A l _ q hfol.1 hq'⟩

theorem isDocFit_of_items (rl : Nat) (its : List DocItem) (hne : its ≠ []) (hfit : ∀ i ∈ its, itemFit rl i) (hfol : DocFollowOk its) :
    IsDocFit rl (docToks its) :=
  ⟨its.map DocItem.toks, by simpa using hne, rfl, docOk_of_items rl its hfit hfol⟩

/-- `itemFit` implies builderC's `DocItem.ok`: the completeness language lies inside the soundness language -/
theorem itemFit_ok (rl : Nat) (i : DocItem) (h : itemFit rl i) : i.ok := by
  cases i with
  | exec oe d =>
    cases d with
    | operation ty name vars dirs sels => exact Or.inl ⟨ty, name, vars, dirs, sels, rfl, h.2.2.1⟩
    | fragment name tc dirs sels => exact Or.inr ⟨name, tc, dirs, sels, rfl, h.2.2.1, h.1⟩
    | _ => exact absurd h (by simp [itemFit, execFit])
  | loose l => trivial

/-- **document_accept_complete** (proof-level): every document `its` of the grammar within the recursion limit, each
    definition allowed before the next, in any spelling, parses with zero errors -/
theorem parseDocument_complete_items (rl : Nat) (src : Str) (its : List DocItem) (ts : List Tok) (e : Tok)
    (hclean : LexClean src) (hsig : sig (srcToks src) = ts ++ [e]) (he : e.kind = .eof) (hx : TokIs ts (docToks its))
    (hne : its ≠ []) (hfit : ∀ i ∈ its, itemFit rl i) (hfol : DocFollowOk its) :
    (parse .document none rl src).errors = [] :=
  parseDocument_completeG_sig rl src _ ts e hclean hsig he hx (isDocFit_of_items rl its hne hfit hfol)

end Apollo.Parse.Exact
